/-
C20 helper lemmas, layer 2: rank / select on bit vectors (`List Bool`), the table-driven versions
`rankGo` / `selectGo` of rank.go / select.go, and the LOUDS bit pattern of a list of node sizes.
-/
import LinVerif.Model.Louds

set_option linter.unusedSimpArgs false
set_option linter.unusedVariables false

namespace LinVerif.Lemmas.C20
open LinVerif.Louds

/-! ### basic recursion equations -/

theorem popcount_nil : popcount [] = 0 := rfl

theorem popcount_cons (b : Bool) (bs : List Bool) : popcount (b :: bs) = (if b then 1 else 0) + popcount bs := by
  cases b <;> simp [popcount, List.count_cons] <;> omega

theorem popcount_append (a b : List Bool) : popcount (a ++ b) = popcount a + popcount b := by
  simp [popcount, List.count_append]

theorem rank_cons_zero (b : Bool) (bs : List Bool) : rank (b :: bs) 0 = if b then 1 else 0 := by
  cases b <;> simp [rank, popcount]

theorem rank_cons_succ (b : Bool) (bs : List Bool) (i : Nat) :
    rank (b :: bs) (i + 1) = (if b then 1 else 0) + rank bs i := by
  simp only [rank, List.take_succ_cons, popcount_cons]

theorem rank_pos (bs : List Bool) (i : Nat) (h : bs[i]? = some true) : 1 ≤ rank bs i := by
  induction bs generalizing i with
  | nil => simp at h
  | cons b t ih =>
    cases i with
    | zero =>
      simp at h; subst h
      simp [rank_cons_zero]
    | succ j =>
      simp at h
      have := ih j h
      rw [rank_cons_succ]; omega

theorem select_true_one (bs : List Bool) : select (true :: bs) 1 = 0 := by simp [select]

theorem select_true_succ (bs : List Bool) (k : Nat) (hk : 2 ≤ k) :
    select (true :: bs) k = 1 + select bs (k - 1) := by
  have : ¬ k ≤ 1 := by omega
  simp [select, this]

theorem select_false (bs : List Bool) (k : Nat) : select (false :: bs) k = 1 + select bs k := by
  simp [select]

/-! ### the inverse laws -/

/-- `select (rank i) = i` on set bits -/
theorem select_rank (bs : List Bool) (i : Nat) (h : bs[i]? = some true) : select bs (rank bs i) = i := by
  induction bs generalizing i with
  | nil => simp at h
  | cons b t ih =>
    cases i with
    | zero =>
      simp at h; subst h
      simp [rank_cons_zero, select]
    | succ j =>
      simp at h
      have hr := rank_pos t j h
      rw [rank_cons_succ]
      cases b with
      | true =>
        simp only [if_true]
        rw [select_true_succ _ _ (by omega)]
        have : 1 + rank t j - 1 = rank t j := by omega
        rw [this, ih j h]; omega
      | false =>
        simp only [Bool.false_eq_true, if_false, Nat.zero_add]
        rw [select_false, ih j h]; omega

/-- `rank (select k) = k`, and `select k` is a set bit, for `1 ≤ k ≤ popcount` -/
theorem rank_select (bs : List Bool) (k : Nat) (h1 : 1 ≤ k) (h2 : k ≤ popcount bs) :
    rank bs (select bs k) = k ∧ bs[select bs k]? = some true := by
  induction bs generalizing k with
  | nil => simp [popcount] at h2; omega
  | cons b t ih =>
    cases b with
    | true =>
      rw [popcount_cons] at h2
      simp only [if_true] at h2
      by_cases hk : k = 1
      · subst hk
        simp [select, rank_cons_zero]
      · rw [select_true_succ _ _ (by omega)]
        obtain ⟨ih1, ih2⟩ := ih (k - 1) (by omega) (by omega)
        have : 1 + select t (k - 1) = select t (k - 1) + 1 := by omega
        rw [this, rank_cons_succ, ih1]
        simp only [if_true, List.getElem?_cons_succ]
        exact ⟨by omega, ih2⟩
    | false =>
      rw [popcount_cons] at h2
      simp only [Bool.false_eq_true, if_false, Nat.zero_add] at h2
      rw [select_false]
      obtain ⟨ih1, ih2⟩ := ih k h1 h2
      have : 1 + select t k = select t k + 1 := by omega
      rw [this, rank_cons_succ, ih1]
      simp only [Bool.false_eq_true, if_false, Nat.zero_add, List.getElem?_cons_succ]
      exact ⟨trivial, ih2⟩

/-- a set bit at `i` is the `rank i`-th one: `rank` counts the set bits before it plus one -/
theorem rank_of_set (bs : List Bool) (i : Nat) (h : bs[i]? = some true) :
    rank bs i = popcount (bs.take i) + 1 := by
  induction bs generalizing i with
  | nil => simp at h
  | cons b t ih =>
    cases i with
    | zero =>
      simp at h; subst h
      simp [rank_cons_zero, popcount]
    | succ j =>
      simp at h
      rw [rank_cons_succ, ih j h, List.take_succ_cons, popcount_cons]; omega

theorem rank_of_clear (bs : List Bool) (i : Nat) (h : bs[i]? = some false) :
    rank bs i = popcount (bs.take i) := by
  induction bs generalizing i with
  | nil => simp at h
  | cons b t ih =>
    cases i with
    | zero =>
      simp at h; subst h
      simp [rank_cons_zero, popcount]
    | succ j =>
      simp at h
      rw [rank_cons_succ, ih j h, List.take_succ_cons, popcount_cons]

theorem count_true_add_false (l : List Bool) : l.count true + l.count false = l.length := by
  induction l with
  | nil => rfl
  | cons b t ih => cases b <;> simp [List.count_cons] <;> omega

/-- `valuePos`: for a label without child, `pos - rank pos` is the number of labels without
child before it — its index among the values -/
theorem valuePos_eq (bs : List Bool) (i : Nat) (h : bs[i]? = some false) :
    i - rank bs i = (bs.take i).count false := by
  have hlt : i < bs.length := by
    cases hl : bs[i]? with
    | none => rw [hl] at h; cases h
    | some _ => exact (List.getElem?_eq_some_iff.1 hl).1
  rw [rank_of_clear bs i h]
  have := count_true_add_false (bs.take i)
  simp only [List.length_take] at this
  unfold popcount
  omega

/-! ### the table-driven `Rank` -/

theorem popcount_take_add (l : List Bool) (a b : Nat) :
    popcount (l.take (a + b)) = popcount (l.take a) + popcount ((l.drop a).take b) := by
  rw [List.take_add, popcount_append]

theorem rankLut_getD (bs : List Bool) (j : Nat) (h : j ≤ bs.length / rankSparseBlockSize) :
    (rankLut bs).getD j 0 = popcount (bs.take (j * rankSparseBlockSize)) := by
  unfold rankLut
  rw [List.getD_eq_getElem?_getD, List.getElem?_map, List.getElem?_range (by omega)]
  rfl

/-- `rankVectorSparse.Rank` (table + popcount inside the block) is `rank` -/
theorem rankGo_eq_rank (bs : List Bool) (pos : Nat) (h : pos < bs.length) :
    rankGo (rankLut bs) bs pos = rank bs pos := by
  unfold rankGo rank
  have hj : pos / rankSparseBlockSize ≤ bs.length / rankSparseBlockSize :=
    Nat.div_le_div_right (Nat.le_of_lt h)
  simp only []
  rw [rankLut_getD bs _ hj]
  have hpos : pos + 1 = pos / rankSparseBlockSize * rankSparseBlockSize + (pos % rankSparseBlockSize + 1) := by
    have := Nat.div_add_mod pos rankSparseBlockSize
    rw [Nat.mul_comm] at this
    omega
  have := popcount_take_add bs (pos / rankSparseBlockSize * rankSparseBlockSize) (pos % rankSparseBlockSize + 1)
  rw [← hpos] at this
  rw [this]

/-! ### the sampled `Select` -/

theorem select_add (bs : List Bool) (a r : Nat) (ha : 1 ≤ a) (hr : 1 ≤ r) (h : a + r ≤ popcount bs) :
    select bs (a + r) = select bs a + 1 + select (bs.drop (select bs a + 1)) r := by
  induction bs generalizing a with
  | nil => simp [popcount] at h; omega
  | cons b t ih =>
    cases b with
    | true =>
      rw [popcount_cons] at h
      simp only [if_true] at h
      by_cases ha1 : a = 1
      · subst ha1
        rw [select_true_one, select_true_succ _ _ (by omega)]
        have : 1 + r - 1 = r := by omega
        rw [this]; simp
      · rw [select_true_succ _ _ (by omega), select_true_succ _ a (by omega)]
        have e1 : a + r - 1 = (a - 1) + r := by omega
        rw [e1, ih (a - 1) (by omega) (by omega)]
        have e2 : 1 + select t (a - 1) + 1 = (select t (a - 1) + 1) + 1 := by omega
        rw [e2, List.drop_succ_cons]; omega
    | false =>
      rw [popcount_cons] at h
      simp only [Bool.false_eq_true, if_false, Nat.zero_add] at h
      rw [select_false, select_false, ih a ha h]
      have e2 : 1 + select t a + 1 = (select t a + 1) + 1 := by omega
      rw [e2, List.drop_succ_cons]; omega

theorem selectLut_getD (bs : List Bool) (j : Nat) (h1 : 1 ≤ j) (h : j ≤ popcount bs / selectSampleInterval) :
    (selectLut bs).getD j 0 = select bs (j * selectSampleInterval) := by
  unfold selectLut
  obtain ⟨i, rfl⟩ : ∃ i, j = i + 1 := ⟨j - 1, by omega⟩
  rw [List.getD_eq_getElem?_getD, List.getElem?_cons_succ, List.getElem?_map, List.getElem?_range (by omega)]
  rfl

/-- `selectVector.Select` (sampled table + scan) is `select`, given that bit 0 is set -/
theorem selectGo_eq_select (bs : List Bool) (k : Nat) (h0 : bs.head? = some true) (h1 : 1 ≤ k)
    (h2 : k ≤ popcount bs) : selectGo (selectLut bs) bs k = select bs k := by
  have hjle : k / selectSampleInterval ≤ popcount bs / selectSampleInterval := Nat.div_le_div_right h2
  have hdm := Nat.div_add_mod k selectSampleInterval
  have hml := Nat.mod_lt k (show 0 < selectSampleInterval by decide)
  unfold selectGo
  simp only []
  generalize hq : k / selectSampleInterval = q at *
  generalize hr' : k % selectSampleInterval = rr at *
  have hS : selectSampleInterval = 64 := rfl
  by_cases hidx : q = 0
  · -- first sample block: start from bit 0
    subst hidx
    have hmod : rr = k := by rw [hS] at hdm; omega
    subst hmod
    simp only [beq_self_eq_true, if_true]
    have hl0 : (selectLut bs).getD 0 0 = 0 := by simp [selectLut]
    rw [hl0]
    cases bs with
    | nil => simp at h0
    | cons b t =>
      simp at h0; subst h0
      by_cases hk1 : rr = 1
      · subst hk1; simp [select]
      · have : (rr - 1 == 0) = false := by simp; omega
        simp only [this, Bool.false_eq_true, if_false]
        rw [select_true_succ _ _ (by omega)]
        simp [selectFrom]
  · have hj1 : 1 ≤ q := by omega
    have hne : (q == 0) = false := by simp; omega
    simp only [hne, Bool.false_eq_true, if_false]
    rw [selectLut_getD bs _ hj1 hjle]
    by_cases hr : rr = 0
    · subst hr
      simp only [beq_self_eq_true, if_true]
      congr 1
      rw [Nat.mul_comm]; omega
    · have : (rr == 0) = false := by simp; exact hr
      simp only [this, Bool.false_eq_true, if_false]
      have hk : k = q * selectSampleInterval + rr := by
        rw [Nat.mul_comm]; omega
      have hapos : 1 ≤ q * selectSampleInterval := by
        rw [hS]; omega
      conv => rhs; rw [hk]
      rw [select_add bs _ _ hapos (by omega) (by omega)]
      simp [selectFrom]

/-! ### the LOUDS bits of a list of node sizes -/

/-- one set bit at the first label of every node -/
def loudsOfSizes (sizes : List Nat) : List Bool :=
  sizes.flatMap (fun s => match s with
    | 0 => []
    | n + 1 => true :: List.replicate n false)

theorem loudsOfSizes_cons (s : Nat) (rest : List Nat) :
    loudsOfSizes ((s + 1) :: rest) = true :: (List.replicate s false ++ loudsOfSizes rest) := by
  simp [loudsOfSizes]

theorem select_replicate_false (m : Nat) (Y : List Bool) (k : Nat) :
    select (List.replicate m false ++ Y) k = m + select Y k := by
  induction m with
  | zero => simp
  | succ n ih => rw [List.replicate_succ, List.cons_append, select_false, ih]; omega

/-- `firstLabelPos`: the (n+1)-th set bit of the louds vector is the offset of node n -/
theorem select_loudsOfSizes (sizes : List Nat) (n : Nat) (hpos : ∀ s ∈ sizes, 1 ≤ s) (hn : n < sizes.length) :
    select (loudsOfSizes sizes) (n + 1) = (sizes.take n).sum := by
  induction sizes generalizing n with
  | nil => simp at hn
  | cons s rest ih =>
    have hs := hpos s (List.mem_cons_self ..)
    obtain ⟨m, rfl⟩ : ∃ m, s = m + 1 := ⟨s - 1, by omega⟩
    rw [loudsOfSizes_cons]
    cases n with
    | zero => simp [select]
    | succ j =>
      rw [select_true_succ _ _ (by omega)]
      have : j + 1 + 1 - 1 = j + 1 := by omega
      rw [this, select_replicate_false, ih j (fun x hx => hpos x (List.mem_cons_of_mem _ hx)) (by simpa using hn)]
      simp [List.take_succ_cons]; omega

theorem popcount_replicate_false (m : Nat) : popcount (List.replicate m false) = 0 := by
  simp [popcount, List.count_replicate]

theorem popcount_loudsOfSizes (sizes : List Nat) (hpos : ∀ s ∈ sizes, 1 ≤ s) :
    popcount (loudsOfSizes sizes) = sizes.length := by
  induction sizes with
  | nil => rfl
  | cons s rest ih =>
    have hs := hpos s (List.mem_cons_self ..)
    obtain ⟨m, rfl⟩ : ∃ m, s = m + 1 := ⟨s - 1, by omega⟩
    rw [loudsOfSizes_cons, popcount_cons, popcount_append, popcount_replicate_false,
      ih (fun x hx => hpos x (List.mem_cons_of_mem _ hx))]
    simp; omega

theorem length_loudsOfSizes (sizes : List Nat) : (loudsOfSizes sizes).length = sizes.sum := by
  induction sizes with
  | nil => rfl
  | cons s rest ih =>
    cases s with
    | zero => simpa [loudsOfSizes] using ih
    | succ m => rw [loudsOfSizes_cons]; simp [ih]; omega

theorem head_loudsOfSizes (s : Nat) (rest : List Nat) (hs : 1 ≤ s) : (loudsOfSizes (s :: rest)).head? = some true := by
  obtain ⟨m, rfl⟩ : ∃ m, s = m + 1 := ⟨s - 1, by omega⟩
  rw [loudsOfSizes_cons]; rfl

theorem leadingZeros_replicate (m : Nat) (Y : List Bool) (hY : Y.head? ≠ some false) :
    leadingZeros (List.replicate m false ++ Y) = m := by
  induction m with
  | zero =>
    simp only [List.replicate_zero, List.nil_append]
    cases Y with
    | nil => rfl
    | cons y ys => cases y <;> simp [leadingZeros] at hY ⊢
  | succ n ih => rw [List.replicate_succ, List.cons_append]; simp [leadingZeros, ih]; omega

theorem drop_loudsOfSizes (sizes : List Nat) (n : Nat) (hpos : ∀ s ∈ sizes, 1 ≤ s) (hn : n < sizes.length) :
    (loudsOfSizes sizes).drop ((sizes.take n).sum + 1) =
      List.replicate (sizes[n] - 1) false ++ loudsOfSizes (sizes.drop (n + 1)) := by
  induction sizes generalizing n with
  | nil => simp at hn
  | cons s rest ih =>
    have hs := hpos s (List.mem_cons_self ..)
    obtain ⟨m, rfl⟩ : ∃ m, s = m + 1 := ⟨s - 1, by omega⟩
    rw [loudsOfSizes_cons]
    cases n with
    | zero => simp
    | succ j =>
      have hj : j < rest.length := by simpa using hn
      have ih' := ih j (fun x hx => hpos x (List.mem_cons_of_mem _ hx)) hj
      simp only [List.take_succ_cons, List.sum_cons, List.getElem_cons_succ, List.drop_succ_cons]
      have e : m + 1 + (rest.take j).sum = m + ((rest.take j).sum + 1) := by omega
      rw [e, ← List.drop_drop, List.drop_left' (by simp)]
      exact ih'

/-- `nodeSize` whenever the early exit `wordOff >= len(v.bits)` of `DistanceToNextSetBit` is not taken -/
theorem distNext_loudsOfSizes_guard (sizes : List Nat) (n : Nat) (hpos : ∀ s ∈ sizes, 1 ≤ s) (hn : n < sizes.length)
    (hguard : ¬ ((sizes.take n).sum + 1) / wordSize ≥ (sizes.sum + wordSize - 1) / wordSize) :
    distNext (loudsOfSizes sizes) ((sizes.take n).sum) = sizes[n] := by
  unfold distNext
  rw [length_loudsOfSizes]
  simp only [hguard, if_false]
  rw [drop_loudsOfSizes sizes n hpos hn, leadingZeros_replicate]
  · have := hpos sizes[n] (List.getElem_mem hn)
    omega
  · cases hd : sizes.drop (n + 1) with
    | nil => simp [loudsOfSizes]
    | cons s' r' =>
      have hs' : 1 ≤ s' := hpos s' (List.mem_of_mem_drop (by rw [hd]; exact List.mem_cons_self ..))
      rw [head_loudsOfSizes s' r' hs']; simp

/-- `nodeSize`: the distance from a node's first label to the next set bit is the node's size
(the very last bit of the vector is excluded: there the Go code may take its early exit) -/
theorem distNext_loudsOfSizes (sizes : List Nat) (n : Nat) (hpos : ∀ s ∈ sizes, 1 ≤ s) (hn : n < sizes.length)
    (hnotlast : (sizes.take n).sum + 1 < sizes.sum) :
    distNext (loudsOfSizes sizes) ((sizes.take n).sum) = sizes[n] := by
  unfold distNext
  rw [length_loudsOfSizes]
  have hguard : ¬ ((sizes.take n).sum + 1) / wordSize ≥ (sizes.sum + wordSize - 1) / wordSize := by
    have : wordSize = 64 := rfl
    rw [this]; omega
  simp only [hguard, if_false]
  rw [drop_loudsOfSizes sizes n hpos hn, leadingZeros_replicate]
  · have := hpos sizes[n] (List.getElem_mem hn)
    omega
  · cases hd : sizes.drop (n + 1) with
    | nil => simp [loudsOfSizes]
    | cons s' r' =>
      have hs' : 1 ≤ s' := hpos s' (List.mem_of_mem_drop (by rw [hd]; exact List.mem_cons_self ..))
      rw [head_loudsOfSizes s' r' hs']; simp

theorem sum_take_add_le (sizes : List Nat) (n : Nat) (hn : n < sizes.length) :
    (sizes.take n).sum + sizes[n] ≤ sizes.sum := by
  induction sizes generalizing n with
  | nil => simp at hn
  | cons s rest ih =>
    cases n with
    | zero => simp
    | succ j =>
      have := ih j (by simpa using hn)
      simp only [List.take_succ_cons, List.sum_cons, List.getElem_cons_succ]
      omega

theorem sum_split (sizes : List Nat) (n : Nat) (hn : n < sizes.length) :
    sizes.sum = (sizes.take n).sum + sizes[n] + (sizes.drop (n + 1)).sum := by
  induction sizes generalizing n with
  | nil => simp at hn
  | cons s rest ih =>
    cases n with
    | zero => simp
    | succ j =>
      have := ih j (by simpa using hn)
      simp only [List.take_succ_cons, List.sum_cons, List.getElem_cons_succ, List.drop_succ_cons]
      omega

/-- the bit after a node's first label is set (or the vector ends) exactly when the node has
one label -/
theorem louds_after_first (sizes : List Nat) (n : Nat) (hpos : ∀ s ∈ sizes, 1 ≤ s) (hn : n < sizes.length) :
    (((sizes.take n).sum == (loudsOfSizes sizes).length - 1) ||
      (loudsOfSizes sizes).getD ((sizes.take n).sum + 1) false) = (sizes[n] == 1) := by
  have hle := sum_take_add_le sizes n hn
  have hs := hpos sizes[n] (List.getElem_mem hn)
  have hdrop := drop_loudsOfSizes sizes n hpos hn
  have hgetD : (loudsOfSizes sizes).getD ((sizes.take n).sum + 1) false =
      (List.replicate (sizes[n] - 1) false ++ loudsOfSizes (sizes.drop (n + 1))).getD 0 false := by
    rw [← hdrop, List.getD_eq_getElem?_getD, List.getD_eq_getElem?_getD, List.getElem?_drop]
  rw [hgetD, length_loudsOfSizes]
  by_cases h1 : sizes[n] = 1
  · rw [h1]
    simp only [Nat.sub_self, List.replicate_zero, List.nil_append, beq_self_eq_true]
    cases hd : sizes.drop (n + 1) with
    | nil =>
      have hsum : sizes.sum = (sizes.take n).sum + sizes[n] := by
        have := sum_split sizes n hn
        rw [hd] at this
        simpa using this
      have : ((sizes.take n).sum == sizes.sum - 1) = true := by
        rw [hsum, h1]; simp
      simp [this]
    | cons s' r' =>
      have hs' : 1 ≤ s' := hpos s' (List.mem_of_mem_drop (by rw [hd]; exact List.mem_cons_self ..))
      obtain ⟨m, rfl⟩ : ∃ m, s' = m + 1 := ⟨s' - 1, by omega⟩
      rw [loudsOfSizes_cons]; simp
  · have hge : 2 ≤ sizes[n] := by omega
    have hne : ((sizes.take n).sum == sizes.sum - 1) = false := by
      simp; omega
    have hbeq : (sizes[n] == 1) = false := by simp [h1]
    rw [hne, hbeq]
    obtain ⟨m, hm⟩ : ∃ m, sizes[n] - 1 = m + 1 := ⟨sizes[n] - 2, by omega⟩
    rw [hm, List.replicate_succ]; simp

/-- the bit after the i-th label of a node is set (or the vector ends) exactly when it is the
node's last label -/
theorem louds_after_index (sizes : List Nat) (n i : Nat) (hpos : ∀ s ∈ sizes, 1 ≤ s) (hn : n < sizes.length)
    (hi : i < sizes[n]) :
    (((sizes.take n).sum + i == (loudsOfSizes sizes).length - 1) ||
      (loudsOfSizes sizes).getD ((sizes.take n).sum + i + 1) false) = (i + 1 == sizes[n]) := by
  have hle := sum_take_add_le sizes n hn
  have hdrop := drop_loudsOfSizes sizes n hpos hn
  have hgetD : (loudsOfSizes sizes).getD ((sizes.take n).sum + i + 1) false =
      (List.replicate (sizes[n] - 1) false ++ loudsOfSizes (sizes.drop (n + 1))).getD i false := by
    rw [← hdrop, List.getD_eq_getElem?_getD, List.getD_eq_getElem?_getD, List.getElem?_drop]
    congr 2; omega
  rw [hgetD, length_loudsOfSizes]
  by_cases h1 : i + 1 = sizes[n]
  · have hbeq : (i + 1 == sizes[n]) = true := by simp [h1]
    rw [hbeq]
    have hrep : (List.replicate (sizes[n] - 1) false ++ loudsOfSizes (sizes.drop (n + 1))).getD i false =
        (loudsOfSizes (sizes.drop (n + 1))).getD 0 false := by
      rw [List.getD_eq_getElem?_getD, List.getD_eq_getElem?_getD, List.getElem?_append_right (by simp; omega)]
      congr 2; simp; omega
    rw [hrep]
    cases hd : sizes.drop (n + 1) with
    | nil =>
      have hsum : sizes.sum = (sizes.take n).sum + sizes[n] := by
        have := sum_split sizes n hn
        rw [hd] at this
        simpa using this
      have : ((sizes.take n).sum + i == sizes.sum - 1) = true := by
        rw [hsum]; simp; omega
      simp [this]
    | cons s' r' =>
      have hs' : 1 ≤ s' := hpos s' (List.mem_of_mem_drop (by rw [hd]; exact List.mem_cons_self ..))
      obtain ⟨m, rfl⟩ : ∃ m, s' = m + 1 := ⟨s' - 1, by omega⟩
      rw [loudsOfSizes_cons]; simp
  · have hlt : i < sizes[n] - 1 := by omega
    have hne : ((sizes.take n).sum + i == sizes.sum - 1) = false := by
      simp; omega
    have hbeq : (i + 1 == sizes[n]) = false := by simp [h1]
    rw [hne, hbeq]
    rw [List.getD_eq_getElem?_getD, List.getElem?_append_left (by simpa using hlt)]
    simp [hlt]

end LinVerif.Lemmas.C20
