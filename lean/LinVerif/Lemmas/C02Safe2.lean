/-
C02: preservation of `Safe` by the commit / close / deleteObsoleteFiles steps of a job.
-/
import LinVerif.Lemmas.C02Safe
set_option linter.unusedSimpArgs false
set_option linter.unusedVariables false

namespace LinVerif.Lemmas.C02
open LinVerif.VersionSet LinVerif.TableCache

theorem jLock_eq (s : St) (j : Nat) :
    jLock s j = (setLock s (some j)).setJob j { s.job j with nfRead := s.nextFile, pc := .cLocked } := rfl

theorem safe_jLock {s : St} {j : Nat} (h : Safe s) (hj : j < s.nJob) (hpc : (s.job j).pc = .ready)
    (hl : s.lock = none) : Safe (jLock s j) := by
  rw [jLock_eq]
  have h1 : Safe (setLock s (some j)) := by
    apply safe_setLock h
    intro k hk hc
    have := (h.jobs k hk).lock hc
    rw [hl] at this; cases this
  apply safe_setJob h1
  · obtain ⟨h0, hn0, hn0b, hn0c, hn1, hn2, h1, h2, h3, h4, h5, h6, h7, h8, h9, h10, hrec, hnf, hrd, h11, h12, h13, h14⟩ := h.jobs j hj
    generalize s.job j = b at *
    obtain ⟨kind, pc, payload, snap, inputs, trivial, todoIn, out, edit, csnap, newVer, prev, prevZero, nfRead, dlist, live, todoDel⟩ := b
    simp only at hpc; subst hpc
    constructor <;>
      simp only [setLock, compactOnly, preAlloc, outPending, outOnDisk, inCommit, ownRange, csnapRange, editRange, delRange, postSwap,
        PastPending, Dead, DeadR, outNo] at * <;> grind
  · left; rfl

theorem safe_readyEmpty {s : St} {j : Nat} (h : Safe s) (hj : j < s.nJob) (hpc : (s.job j).pc = .ready)
    (hempty : (s.job j).edit.isEmpty = true) :
    Safe (setPc s j .cUnlocked) := by
  apply safe_setPc_plain h
  obtain ⟨h0, hn0, hn0b, hn0c, hn1, hn2, h1, h2, h3, h4, h5, h6, h7, h8, h9, h10, hrec, hnf, hrd, h11, h12, h13, h14⟩ := h.jobs j hj
  generalize s.job j = b at *
  obtain ⟨kind, pc, payload, snap, inputs, trivial, todoIn, out, edit, csnap, newVer, prev, prevZero, nfRead, dlist, live, todoDel⟩ := b
  simp only at hpc hempty; subst hpc
  jobok_at

theorem upd_upd {α : Type} (f : Nat → α) (i : Nat) (x y : α) : upd (upd f i x) i y = upd f i y := by
  funext k; simp only [upd]; split <;> rfl

theorem jSnap_eq (s : St) (j : Nat) (h : (s.job j).nfRead = s.nextFile) :
    jSnap s j = (buildVersion (snapAcquire (setPc s j .ready) (some j)) (s.job j).edit).setJob j
      { s.job j with csnap := s.nSnap, newVer := s.nextVer, prev := s.cur, pc := .cSnapped } := by
  simp only [jSnap, buildVersionAt, buildVersion, snapAcquire, setPc, St.setJob, upd_upd, h]

theorem safe_jSnap {s : St} {j : Nat} (h : Safe s) (hj : j < s.nJob) (hpc : (s.job j).pc = .cLocked) :
    Safe (jSnap s j) := by
  have hb0 := h.jobs j hj
  rw [jSnap_eq s j (hb0.nfread hpc)]
  have hlock := hb0.lock (by rw [hpc]; rfl)
  have hfb := h.file_bound
  have hed := hb0.edit (by rw [hpc]; rfl)
  have hadds : ∀ m ∈ (s.job j).edit.adds, m.no < s.nextFile := by
    intro m hm
    rcases hed.1 m hm with h' | ⟨_, h'⟩
    · exact hb0.outlt _ h'
    · exact hfb.1 _ _ h'
  have hroll : ∀ f ∈ (s.job j).edit.rollAdd.map (·.1), f < s.nextFile := fun f hf => hb0.outlt _ (hed.2 f hf)
  -- step back to `ready` (no clause about the number read under the mutex), then acquire + build
  have hbr : JobOk s j { s.job j with pc := .ready } := by
    obtain ⟨h0, hn0, hn0b, hn0c, hn1, hn2, h1, h2, h3, h4, h5, h6, h7, h8, h9, h10, hrec, hnf, hrd, h11, h12, h13, h14⟩ := hb0
    generalize s.job j = b at *
    obtain ⟨kind, pc, payload, snap, inputs, trivial, todoIn, out, edit, csnap, newVer, prev, prevZero, nfRead, dlist, live, todoDel⟩ := b
    simp only at hpc; subst hpc
    jobok_at
  have h0 : Safe (setPc s j .ready) := safe_setPc_plain h hbr
  have hnl : ∀ k, k < s.nJob → ((setPc s j .ready).job k).pc ≠ .cLocked := by
    intro k hk hc
    simp only [setPc, St.setJob, upd] at hc
    by_cases hkj : k = j
    · simp [hkj] at hc
    · simp only [hkj, if_false] at hc
      have := (h.jobs k hk).lock (by rw [hc]; rfl)
      rw [hlock] at this
      exact hkj (by cases this; rfl)
  have h1 := safe_acquire (some j) h0
  have h2 : Safe (buildVersion (snapAcquire (setPc s j .ready) (some j)) (s.job j).edit) :=
    safe_build h1 (by simpa [snapAcquire, setPc, St.setJob] using hadds) (by simpa [snapAcquire, setPc, St.setJob] using hroll)
      (fun k hk => hnl k hk)
  have hb1 := jobOk_acquire (o := some j) (h0.jobs j hj)
  have hb2 := jobOk_build (e := (s.job j).edit) hb1 h1.ver_bound.1 h1.ver_bound.2.1 h1.ver_bound.2.2
    (by simp [setPc, St.setJob])
  apply safe_setJob h2
  · have hb2' : JobOk (buildVersion (snapAcquire (setPc s j .ready) (some j)) (s.job j).edit) j { s.job j with pc := .ready } := by
      simpa [setPc, St.setJob] using hb2
    obtain ⟨h0, hn0, hn0b, hn0c, hn1, hn2, h1, h2, h3, h4, h5, h6, h7, h8, h9, h10, hrec, hnf, hrd, h11, h12, h13, h14⟩ := hb2'
    have hown0 := hb0.own
    have hcurlt := h.ver_bound.1
    generalize s.job j = b at *
    obtain ⟨kind, pc, payload, snap, inputs, trivial, todoIn, out, edit, csnap, newVer, prev, prevZero, nfRead, dlist, live, todoDel⟩ := b
    simp only at hpc; subst hpc
    constructor <;>
      simp only [buildVersion, snapAcquire, setPc, St.setJob, compactOnly, preAlloc, outPending, outOnDisk, inCommit, ownRange, csnapRange, editRange, delRange, postSwap,
        PastPending, Dead, DeadR, outNo] at * <;> grind [upd]
  · left; simp [buildVersion, snapAcquire, setPc, St.setJob, outNo]

theorem jSwap_eq (s : St) (j : Nat) :
    jSwap s j = noteFlush ((swapVersion (setPc s j .ready) (s.job j).newVer (s.job j).edit).setJob j
      { s.job j with pc := .cSwapped }) (if (s.job j).kind = .flush then outNo (s.job j) else []) := by
  simp only [jSwap, noteFlush, swapVersion, setPc, St.setJob, upd_upd]

theorem safe_jSwap {s : St} {j : Nat} (h : Safe s) (hj : j < s.nJob) (hpc : (s.job j).pc = .cSnapped) :
    Safe (jSwap s j) := by
  rw [jSwap_eq]
  apply safe_noteFlush
  have hb0 := h.jobs j hj
  -- step back to the pc before the clone (no clause about the built version), install, then move on
  have h1 : Safe (setPc s j .ready) := by
    apply safe_setPc_plain h
    obtain ⟨h0, hn0, hn0b, hn0c, hn1, hn2, h1, h2, h3, h4, h5, h6, h7, h8, h9, h10, hrec, hnf, hrd, h11, h12, h13, h14⟩ := hb0
    generalize s.job j = b at *
    obtain ⟨kind, pc, payload, snap, inputs, trivial, todoIn, out, edit, csnap, newVer, prev, prevZero, nfRead, dlist, live, todoDel⟩ := b
    simp only at hpc; subst hpc
    jobok_at
  obtain ⟨hlt, heq⟩ := hb0.built hpc
  have hed := hb0.edit (by rw [hpc]; rfl)
  have hpend := hb0.pend (by rw [hpc]; rfl)
  have hdisk := hb0.ondisk (by rw [hpc]; rfl)
  have hlock := hb0.lock (by rw [hpc]; rfl)
  have h2 : Safe (swapVersion (setPc s j .ready) (s.job j).newVer (s.job j).edit) := by
    apply safe_swap h1 (by simpa [setPc, St.setJob] using hlt) (by simpa [setPc, St.setJob] using heq)
    · intro m hm
      simp only [setPc, St.setJob]
      rcases hed.1 m hm with h' | ⟨hc, h'⟩
      · exact ⟨hdisk _ h', Or.inl (hpend _ h')⟩
      · have hown := hb0.own hc (by rw [hpc]; rfl)
        have hact := h.open_active _ hown.1 hown.2.1
        exact ⟨h.files_on_disk _ hact _ h', Or.inr ⟨_, hact, h'⟩⟩
    · intro g hg
      simp only [setPc, St.setJob]
      exact ⟨hpend _ (hed.2 g hg), hdisk _ (hed.2 g hg)⟩
    · intro k hk
      simp only [setPc, St.setJob, upd]
      by_cases hkj : k = j
      · simp [hkj]
      · simp only [hkj, if_false]
        intro hc
        have := (h.jobs k hk).lock (by rw [hc]; rfl)
        rw [hlock] at this
        exact hkj (by cases this; rfl)
  apply safe_setJob h2
  · clear h1 h2 hed hpend hdisk hlock hlt heq
    obtain ⟨h0, hn0, hn0b, hn0c, hn1, hn2, h1, h2, h3, h4, h5, h6, h7, h8, h9, h10, hrec, hnf, hrd, h11, h12, h13, h14⟩ := hb0
    generalize s.job j = b at *
    obtain ⟨kind, pc, payload, snap, inputs, trivial, todoIn, out, edit, csnap, newVer, prev, prevZero, nfRead, dlist, live, todoDel⟩ := b
    simp only at hpc; subst hpc
    constructor <;>
      simp only [swapVersion, setPc, St.setJob, compactOnly, preAlloc, outPending, outOnDisk, inCommit, ownRange, csnapRange,
        editRange, delRange, postSwap, PastPending, Dead, DeadR, outNo] at * <;> grind
  · left; simp [swapVersion, setPc, St.setJob, upd, outNo]

theorem safe_jCheck {s : St} {j : Nat} (h : Safe s) (hj : j < s.nJob) (hpc : (s.job j).pc = .cSwapped) :
    Safe (jCheck s j) := by
  unfold jCheck
  apply safe_setJob h
  · obtain ⟨h0, hn0, hn0b, hn0c, hn1, hn2, h1, h2, h3, h4, h5, h6, h7, h8, h9, h10, hrec, hnf, hrd, h11, h12, h13, h14⟩ := h.jobs j hj
    generalize s.job j = b at *
    obtain ⟨kind, pc, payload, snap, inputs, trivial, todoIn, out, edit, csnap, newVer, prev, prevZero, nfRead, dlist, live, todoDel⟩ := b
    simp only at hpc; subst hpc
    jobok_at
  · left; rfl

theorem safe_jPrevRm {cfg : Cfg} {s : St} {j : Nat} (hr : cfg.recheck = true) (h : Safe s) (hj : j < s.nJob)
    (hpc : (s.job j).pc = .cChecked) : Safe (jPrevRm cfg s j) := by
  unfold jPrevRm
  dsimp only
  have h1 : Safe (setPc s j .cPrevDone) := by
    apply safe_setPc_plain h
    obtain ⟨h0, hn0, hn0b, hn0c, hn1, hn2, h1, h2, h3, h4, h5, h6, h7, h8, h9, h10, hrec, hnf, hrd, h11, h12, h13, h14⟩ := h.jobs j hj
    generalize s.job j = b at *
    obtain ⟨kind, pc, payload, snap, inputs, trivial, todoIn, out, edit, csnap, newVer, prev, prevZero, nfRead, dlist, live, todoDel⟩ := b
    simp only at hpc; subst hpc
    jobok_at
  split
  · exact safe_removeVersion hr _ h1
  · exact h1


/-- two different jobs never own the same snapshot -/
theorem own_ne_of_owner {s : St} {j k : Nat} {i : Nat} (h : Safe s) (hk : k < s.nJob) (hkj : k ≠ j)
    (ho : (s.snap i).owner = some j)
    (hc : (s.job k).kind = .compact) (hr : ownRange (s.job k).pc = true) : (s.job k).snap ≠ i := by
  intro heq
  have := ((h.jobs k hk).own hc hr).2.2
  rw [heq, ho] at this
  exact hkj (by cases this; rfl)

theorem safe_cDec {s : St} {j : Nat} (h : Safe s) (hj : j < s.nJob) (hpc : (s.job j).pc = .cPrevDone)
    (ho : (s.snap (s.job j).csnap).st = .opened) : Safe (snapDec (setPc s j .cDecd) (s.job j).csnap) := by
  have hb0 := h.jobs j hj
  have hcs := hb0.csnap (by rw [hpc]; rfl)
  have h1 : Safe (setPc s j .cDecd) := by
    apply safe_setPc_plain h
    obtain ⟨h0, hn0, hn0b, hn0c, hn1, hn2, h1, h2, h3, h4, h5, h6, h7, h8, h9, h10, hrec, hnf, hrd, h11, h12, h13, h14⟩ := hb0
    generalize s.job j = b at *
    obtain ⟨kind, pc, payload, snap, inputs, trivial, todoIn, out, edit, csnap, newVer, prev, prevZero, nfRead, dlist, live, todoDel⟩ := b
    simp only at hpc; subst hpc
    jobok_at
  apply safe_dec h1 (by simpa [setPc, St.setJob] using hcs.1) (by simpa [setPc, St.setJob] using ho)
  intro k hk hc hr
  simp only [setPc, St.setJob, upd] at hk hc hr ⊢
  by_cases hkj : k = j
  · subst hkj; simp only [if_true] at hc hr ⊢
    exact Ne.symm (hcs.2.2 hc)
  · simp only [hkj, if_false] at hc hr ⊢
    exact own_ne_of_owner h hk hkj hcs.2.1 hc hr

theorem safe_cRemove {cfg : Cfg} {s : St} {j : Nat} (hr : cfg.recheck = true) (h : Safe s) (hj : j < s.nJob)
    (hpc : (s.job j).pc = .cDecd) (z : Bool) (ho : (s.snap (s.job j).csnap).st = .decd z) :
    Safe (snapRemove cfg (setPc s j .cRemoved) (s.job j).csnap z) := by
  have hb0 := h.jobs j hj
  have hcs := hb0.csnap (by rw [hpc]; rfl)
  have h1 : Safe (setPc s j .cRemoved) := by
    apply safe_setPc_plain h
    obtain ⟨h0, hn0, hn0b, hn0c, hn1, hn2, h1, h2, h3, h4, h5, h6, h7, h8, h9, h10, hrec, hnf, hrd, h11, h12, h13, h14⟩ := hb0
    generalize s.job j = b at *
    obtain ⟨kind, pc, payload, snap, inputs, trivial, todoIn, out, edit, csnap, newVer, prev, prevZero, nfRead, dlist, live, todoDel⟩ := b
    simp only at hpc; subst hpc
    jobok_at
  exact safe_snapRemove hr z h1 (by simpa [setPc, St.setJob] using hcs.1) (by simp [setPc, St.setJob, ho])

theorem safe_cRel {s : St} {j : Nat} (h : Safe s) (hj : j < s.nJob)
    (hpc : (s.job j).pc = .cRemoved) (ho : (s.snap (s.job j).csnap).st = .removed) :
    Safe (snapRel (setPc s j .cReleased) (s.job j).csnap) := by
  have hb0 := h.jobs j hj
  have hcs := hb0.csnap (by rw [hpc]; rfl)
  have h1 : Safe (setPc s j .cReleased) := by
    apply safe_setPc_plain h
    obtain ⟨h0, hn0, hn0b, hn0c, hn1, hn2, h1, h2, h3, h4, h5, h6, h7, h8, h9, h10, hrec, hnf, hrd, h11, h12, h13, h14⟩ := hb0
    generalize s.job j = b at *
    obtain ⟨kind, pc, payload, snap, inputs, trivial, todoIn, out, edit, csnap, newVer, prev, prevZero, nfRead, dlist, live, todoDel⟩ := b
    simp only at hpc; subst hpc
    jobok_at
  exact safe_rel h1 (by simpa [setPc, St.setJob] using hcs.1) (by simp [setPc, St.setJob, ho])

theorem safe_jUnlock {s : St} {j : Nat} (h : Safe s) (hj : j < s.nJob) (hpc : (s.job j).pc = .cReleased) :
    Safe (jUnlock s j) := by
  unfold jUnlock
  have hb0 := h.jobs j hj
  have hlock := hb0.lock (by rw [hpc]; rfl)
  have h1 : Safe (setPc s j .cUnlocked) := by
    apply safe_setPc_plain h
    obtain ⟨h0, hn0, hn0b, hn0c, hn1, hn2, h1, h2, h3, h4, h5, h6, h7, h8, h9, h10, hrec, hnf, hrd, h11, h12, h13, h14⟩ := hb0
    generalize s.job j = b at *
    obtain ⟨kind, pc, payload, snap, inputs, trivial, todoIn, out, edit, csnap, newVer, prev, prevZero, nfRead, dlist, live, todoDel⟩ := b
    simp only at hpc; subst hpc
    jobok_at
  apply safe_setLock h1
  intro k hk hc
  simp only [setPc, St.setJob, upd] at hk hc
  by_cases hkj : k = j
  · subst hkj; simp [inCommit] at hc
  · simp only [hkj, if_false] at hc
    have := (h.jobs k hk).lock hc
    rw [hlock] at this
    exact absurd (by cases this; rfl) hkj

theorem safe_jUnpend {s : St} {j : Nat} (pc' : Pc) (h : Safe s) (hj : j < s.nJob) (hpc : (s.job j).pc = .cUnlocked)
    (hpc' : pc' = .done ∨ pc' = .doStart ∨ (pc' = .closeOwn ∧ (s.job j).kind = .compact)) : Safe (jUnpend s j pc') := by
  unfold jUnpend
  have hb0 := h.jobs j hj
  have h1 : Safe (setPc s j pc') := by
    apply safe_setPc_plain h
    obtain ⟨h0, hn0, hn0b, hn0c, hn1, hn2, h1, h2, h3, h4, h5, h6, h7, h8, h9, h10, hrec, hnf, hrd, h11, h12, h13, h14⟩ := hb0
    generalize s.job j = b at *
    obtain ⟨kind, pc, payload, snap, inputs, trivial, todoIn, out, edit, csnap, newVer, prev, prevZero, nfRead, dlist, live, todoDel⟩ := b
    simp only at hpc hpc'; subst hpc
    rcases hpc' with rfl | rfl | ⟨rfl, rfl⟩ <;> jobok_at
  apply safe_unpend h1
  intro k hk hp f hf
  simp only [setPc, St.setJob, upd] at hk hp hf
  by_cases hkj : k = j
  · subst hkj; simp only [if_true] at hp
    rcases hpc' with rfl | rfl | ⟨rfl, _⟩ <;> simp [outPending] at hp
  · simp only [hkj, if_false] at hp hf
    exact h.outs_distinct k j hk hj hkj f hf

theorem safe_oDec {s : St} {j : Nat} (h : Safe s) (hj : j < s.nJob) (hpc : (s.job j).pc = .closeOwn)
    (ho : (s.snap (s.job j).snap).st = .opened) : Safe (snapDec (setPc s j .oDecd) (s.job j).snap) := by
  have hb0 := h.jobs j hj
  have hk := hb0.konly (by rw [hpc]; rfl)
  have hown := hb0.own hk (by rw [hpc]; rfl)
  have h1 : Safe (setPc s j .oDecd) := by
    apply safe_setPc_plain h
    obtain ⟨h0, hn0, hn0b, hn0c, hn1, hn2, h1, h2, h3, h4, h5, h6, h7, h8, h9, h10, hrec, hnf, hrd, h11, h12, h13, h14⟩ := hb0
    generalize s.job j = b at *
    obtain ⟨kind, pc, payload, snap, inputs, trivial, todoIn, out, edit, csnap, newVer, prev, prevZero, nfRead, dlist, live, todoDel⟩ := b
    simp only at hpc; subst hpc
    jobok_at
  apply safe_dec h1 (by simpa [setPc, St.setJob] using hown.1) (by simpa [setPc, St.setJob] using ho)
  intro k hk' hc hr
  simp only [setPc, St.setJob, upd] at hk' hc hr ⊢
  by_cases hkj : k = j
  · subst hkj; simp [ownRange] at hr
  · simp only [hkj, if_false] at hc hr ⊢
    exact own_ne_of_owner h hk' hkj hown.2.2 hc hr

theorem safe_oRemove {cfg : Cfg} {s : St} {j : Nat} (hr : cfg.recheck = true) (h : Safe s) (hj : j < s.nJob)
    (hpc : (s.job j).pc = .oDecd) (z : Bool) (ho : (s.snap (s.job j).snap).st = .decd z) :
    Safe (snapRemove cfg (setPc s j .oRemoved) (s.job j).snap z) := by
  have hb0 := h.jobs j hj
  have hidx := hb0.ownIdx (Or.inl hpc)
  have h1 : Safe (setPc s j .oRemoved) := by
    apply safe_setPc_plain h
    obtain ⟨h0, hn0, hn0b, hn0c, hn1, hn2, h1, h2, h3, h4, h5, h6, h7, h8, h9, h10, hrec, hnf, hrd, h11, h12, h13, h14⟩ := hb0
    generalize s.job j = b at *
    obtain ⟨kind, pc, payload, snap, inputs, trivial, todoIn, out, edit, csnap, newVer, prev, prevZero, nfRead, dlist, live, todoDel⟩ := b
    simp only at hpc; subst hpc
    jobok_at
  exact safe_snapRemove hr z h1 (by simpa [setPc, St.setJob] using hidx) (by simp [setPc, St.setJob, ho])

theorem safe_oRel {s : St} {j : Nat} (h : Safe s) (hj : j < s.nJob)
    (hpc : (s.job j).pc = .oRemoved) (ho : (s.snap (s.job j).snap).st = .removed) :
    Safe (snapRel (setPc s j .doStart) (s.job j).snap) := by
  have hb0 := h.jobs j hj
  have hidx := hb0.ownIdx (Or.inr hpc)
  have h1 : Safe (setPc s j .doStart) := by
    apply safe_setPc_plain h
    obtain ⟨h0, hn0, hn0b, hn0c, hn1, hn2, h1, h2, h3, h4, h5, h6, h7, h8, h9, h10, hrec, hnf, hrd, h11, h12, h13, h14⟩ := hb0
    generalize s.job j = b at *
    obtain ⟨kind, pc, payload, snap, inputs, trivial, todoIn, out, edit, csnap, newVer, prev, prevZero, nfRead, dlist, live, todoDel⟩ := b
    simp only at hpc; subst hpc
    jobok_at
  exact safe_rel h1 (by simpa [setPc, St.setJob] using hidx) (by simp [setPc, St.setJob, ho])

end LinVerif.Lemmas.C02
