/-
C05, round 12: lemmas about the index-page position model (Model/C05IndexPos.lean):
the invariant "held object = indexPageIndex", "every item lands in the page computed from its
sequence" for every switch test that fires whenever the two page ids differ, the witness history
for every switch test that does not, and the bridge to Model/Queue.lean.
-/
import LinVerif.Model.C05IndexPos
import LinVerif.Model.Queue

namespace LinVerif.Queue.IndexPos

/-- what a switch test has to do: fire whenever the page of the new sequence differs from the held
one (firing when they are equal is harmless: AcquirePage of the held page returns the same object) -/
def SwOK (P : Nat) (sw : Sw) : Prop :=
  ∀ ipg idx slot, slot < P → ipg ≠ idx → sw ipg idx slot = true

/-- object and number agree; the appended sequence is at least -1 -/
def PInv (p : Pos) : Prop := p.held = p.idx ∧ -1 ≤ p.appended

theorem persist_inv (P : Nat) (hP : 0 < P) (sw : Sw) (h : SwOK P sw) (p : Pos) (hp : PInv p) :
    PInv (persistPos P sw p).1 ∧
    (persistPos P sw p).2.page = (persistPos P sw p).2.seq / P ∧
    (persistPos P sw p).2.slot = (persistPos P sw p).2.seq % P ∧
    (persistPos P sw p).1.idx = (persistPos P sw p).2.seq / P := by
  obtain ⟨h1, h2⟩ := hp
  unfold persistPos
  by_cases hs : sw ((p.appended + 1).toNat / P) p.idx ((p.appended + 1).toNat % P) = true
  · simp only [hs, if_true]
    refine ⟨⟨(by first | rfl | trivial), ?_⟩, (by first | rfl | trivial), (by first | rfl | trivial), (by first | rfl | trivial)⟩
    show -1 ≤ p.appended + 1
    omega
  · have he : (p.appended + 1).toNat / P = p.idx := by
      by_cases hne : (p.appended + 1).toNat / P = p.idx
      · exact hne
      · exact absurd (h _ _ _ (Nat.mod_lt _ hP) hne) hs
    simp only [hs]
    refine ⟨⟨h1, ?_⟩, ?_, (by first | rfl | trivial), ?_⟩
    · show -1 ≤ p.appended + 1
      omega
    · simp [h1, he]
    · simp [he]

theorem init_inv (P : Nat) (a : Int) (ha : -1 ≤ a) : PInv (initPos P a) := by
  unfold initPos PInv
  split <;> simp [ha]

theorem step_inv (P : Nat) (hP : 0 < P) (sw : Sw) (h : SwOK P sw) (p : Pos) (hp : PInv p)
    (op : POp) (hw : op.wf) :
    PInv (stepPos P sw p op).1 ∧
    (∀ s, (stepPos P sw p op).2 = some s → s.page = s.seq / P ∧ s.slot = s.seq % P) := by
  cases op with
  | put =>
    have := persist_inv P hP sw h p hp
    refine ⟨this.1, ?_⟩
    intro s hs
    simp only [stepPos, Option.some.injEq] at hs
    subst hs
    exact ⟨this.2.1, this.2.2.1⟩
  | reset s =>
    refine ⟨⟨hp.1, hw⟩, ?_⟩
    intro s' hs
    simp [stepPos] at hs
  | reopen =>
    refine ⟨init_inv P _ hp.2, ?_⟩
    intro s' hs
    simp [stepPos] at hs

/-- every history of puts, resets (≥ -1) and reopens: the invariant holds at the end and every item
went into the page computed from its sequence -/
theorem run_lands (P : Nat) (hP : 0 < P) (sw : Sw) (h : SwOK P sw) :
    ∀ (ops : List POp) (p : Pos), PInv p → (∀ op ∈ ops, op.wf) →
      PInv (runPos P sw p ops).1 ∧ LandsRight P (runPos P sw p ops).2 := by
  intro ops
  induction ops with
  | nil => intro p hp _; exact ⟨hp, by intro s hs; simp [runPos] at hs⟩
  | cons op ops ih =>
    intro p hp hw
    have hs := step_inv P hP sw h p hp op (hw op (List.mem_cons_self ..))
    have hr := ih (stepPos P sw p op).1 hs.1 (fun o ho => hw o (List.mem_cons_of_mem _ ho))
    refine ⟨hr.1, ?_⟩
    intro s hmem
    simp only [runPos] at hmem
    cases hopt : (stepPos P sw p op).2 with
    | none =>
      rw [hopt] at hmem
      exact hr.2 s hmem
    | some s0 =>
      rw [hopt] at hmem
      rcases List.mem_cons.mp hmem with rfl | h'
      · exact hs.2 _ hopt
      · exact hr.2 s h'

/-- the history that exposes a switch test which does not fire for (ipg, idx, slot) with
ipg ≠ idx: position the queue in page `idx` (reset + reopen), reset onto the sequence before
slot `slot` of page `ipg`, append -/
def witness (P ipg idx slot : Nat) : List POp :=
  [.reset ((P * idx : Nat) : Int), .reopen, .reset (((P * ipg + slot : Nat) : Int) - 1), .put]

theorem witness_wf (P ipg idx slot : Nat) : ∀ op ∈ witness P ipg idx slot, op.wf := by
  intro op h
  simp only [witness, List.mem_cons, List.not_mem_nil, or_false] at h
  rcases h with rfl | rfl | rfl | rfl <;> simp only [POp.wf] <;> omega

theorem bad_switch_witness (P : Nat) (hP : 0 < P) (sw : Sw) (ipg idx slot : Nat)
    (hslot : slot < P) (hne : ipg ≠ idx) (hsw : sw ipg idx slot = false) :
    ¬ LandsRight P (runPos P sw (initPos P (-1)) (witness P ipg idx slot)).2 := by
  intro hl
  have hn : ((((P * ipg + slot : Nat) : Int) - 1) + 1).toNat = P * ipg + slot := by omega
  have hd : (P * ipg + slot) / P = ipg := by
    rw [Nat.mul_add_div hP, Nat.div_eq_of_lt hslot]; rfl
  have hm : (P * ipg + slot) % P = slot := by
    rw [Nat.mul_add_mod, Nat.mod_eq_of_lt hslot]
  have hneg : ((P * idx : Nat) : Int) ≠ -1 := by omega
  have hi : initPos P ((P * idx : Nat) : Int) = ⟨idx, idx, ((P * idx : Nat) : Int)⟩ := by
    unfold initPos
    rw [if_neg hneg]
    simp only [Int.toNat_natCast, Nat.mul_div_cancel_left _ hP]
  have hrun : (runPos P sw (initPos P (-1)) (witness P ipg idx slot)).2 =
      [(persistPos P sw ⟨idx, idx, ((P * ipg + slot : Nat) : Int) - 1⟩).2] := by
    simp only [witness, runPos, stepPos, hi]
  rw [hrun] at hl
  have := hl _ (List.mem_singleton.mpr rfl)
  simp only [persistPos, hn, hd, hm, hsw] at this
  exact hne this.1.symm

/-! ### bridge to Model/Queue.lean -/

/-- the position part of the main model's queue object (there the object is not a separate field:
the stores of `persistStores` go to the computed page) -/
def posOf (q : Q) : Pos := ⟨q.indexPageIndex, q.indexPageIndex, q.appended⟩

theorem alloc_pos (mem : Mem) (q : Q) (len : Nat) : posOf (alloc mem q len).q = posOf q := by
  unfold alloc; split <;> rfl

theorem publish_pos (q : Q) :
    posOf (publish q) = (persistPos indexItemsPerPage currentSw (posOf q)).1 := by
  unfold publish persistPos currentSw posOf nextSeq
  by_cases h : (q.appended + 1).toNat / indexItemsPerPage = q.indexPageIndex
  · simp [h]
  · simp [h]

theorem persist_store (q : Q) :
    (persistPos indexItemsPerPage currentSw (posOf q)).2 =
      ⟨nextSeq q, nextSeq q / indexItemsPerPage, nextSeq q % indexItemsPerPage⟩ := by
  unfold persistPos currentSw posOf nextSeq
  by_cases h : (q.appended + 1).toNat / indexItemsPerPage = q.indexPageIndex
  · simp [h]
  · simp [h]

theorem put_pos (st : St) (m : Msg) (h : ¬ m.len > dataPageSize) :
    posOf (put st m).1.q = (persistPos indexItemsPerPage currentSw (posOf st.q)).1 := by
  unfold put
  rw [if_neg h]
  simp only
  rw [publish_pos, alloc_pos]

theorem setAppended_pos (st : St) (s : Int) :
    posOf (setAppended st s).q = (stepPos indexItemsPerPage currentSw (posOf st.q) (.reset s)).1 := rfl

theorem init_pos (mem : Mem) (app ack : Int) :
    posOf (initDataPageIndex mem app ack).q = initPos indexItemsPerPage app := by
  unfold initDataPageIndex initPos posOf
  split <;> rfl

end LinVerif.Queue.IndexPos
