/-
C09, indexKVStore under interleaving: the inductive invariant of the `recheckFull` variant
(look again in memory under the write lock; retry when a flush completed meanwhile).
-/
import LinVerif.Model.IdAssignConc

namespace LinVerif.IdAssign

/-- some layer of the store maps (b, n) to i. (`snap ⊆ disk`, so the snapshot is not a layer.) -/
def KvStore.Owns (st : KvStore) (b n i : Nat) : Prop :=
  st.mutable b n = some i ∨ st.immDict b n = some i ∨ st.disk b n = some i

/-- what a caller knows at each program point -/
def KThread.Ok (st : KvStore) (t : KThread) : Prop :=
  match t.pc with
  | .start => True
  | .afterMem q => q ≤ st.flushSeq
  | .afterDisk q => q ≤ st.flushSeq ∧ (q = st.flushSeq → st.snap t.bucket t.name = none)
  | .done i => st.Owns t.bucket t.name i

structure KInv (s : KSys) : Prop where
  uniq : ∀ b n i j, s.store.Owns b n i → s.store.Owns b n j → i = j
  inj : ∀ b n b' n' i, s.store.Owns b n i → s.store.Owns b' n' i → b = b' ∧ n = n'
  bound : ∀ b n i, s.store.Owns b n i → i < s.ctr
  snapSub : ∀ b n i, s.store.snap b n = some i → s.store.disk b n = some i
  diskSub : ∀ b n i, s.store.disk b n = some i → s.store.snap b n = some i ∨ s.store.immDict b n = some i
  comm : s.committed = true → s.store.needFlush = true ∧ ∀ b n i, s.store.immDict b n = some i → s.store.disk b n = some i
  thr : ∀ t ∈ s.threads, t.Ok s.store
  /-- the IsEmpty() flags are accurate -/
  mutE : s.store.mutEmpty = true → ∀ b n, s.store.mutable b n = none
  immE : ∀ d, s.store.immutable = some (d, true) → ∀ b n, d b n = none

theorem lookupMem_eq (st : KvStore) (b n : Nat) :
    st.lookupMem b n = match st.mutable b n with
      | some i => some i
      | none => st.immDict b n := by
  unfold KvStore.lookupMem KvStore.immDict
  cases st.mutable b n <;> simp
  cases h : st.immutable with
  | none => simp [Dict.empty]
  | some p => obtain ⟨d, e⟩ := p; simp

theorem lookupMem_none {st : KvStore} {b n : Nat} (h : st.lookupMem b n = none) :
    st.mutable b n = none ∧ st.immDict b n = none := by
  rw [lookupMem_eq] at h
  cases hm : st.mutable b n with
  | none => simp [hm] at h; exact ⟨rfl, h⟩
  | some i => simp [hm] at h

theorem lookupMem_some {st : KvStore} {b n i : Nat} (h : st.lookupMem b n = some i) : st.Owns b n i := by
  rw [lookupMem_eq] at h
  cases hm : st.mutable b n with
  | none => simp [hm] at h; exact Or.inr (Or.inl h)
  | some j => simp [hm] at h; subst h; exact Or.inl hm

theorem immDict_insert (st : KvStore) (b n i : Nat) : (st.insert b n i).immDict = st.immDict := rfl

theorem owns_insert {st : KvStore} {b n i b' n' j : Nat} (h : st.Owns b' n' j)
    (hne : st.mutable b n = none) : (st.insert b n i).Owns b' n' j := by
  rcases h with h | h | h
  · left
    show (st.mutable.set b n i) b' n' = some j
    unfold Dict.set
    by_cases hk : b' = b ∧ n' = n
    · obtain ⟨rfl, rfl⟩ := hk; rw [hne] at h; cases h
    · simp [hk, h]
  · right; left; exact h
  · right; right; exact h

theorem owns_insert_inv {st : KvStore} {b n i b' n' j : Nat} (h : (st.insert b n i).Owns b' n' j) :
    (b' = b ∧ n' = n ∧ j = i) ∨ st.Owns b' n' j := by
  rcases h with h | h | h
  · have h' : (st.mutable.set b n i) b' n' = some j := h
    unfold Dict.set at h'
    by_cases hk : b' = b ∧ n' = n
    · simp [hk] at h'; left; exact ⟨hk.1, hk.2, h'.symm⟩
    · simp [hk] at h'; right; left; exact h'
  · right; right; left; exact h
  · right; right; right; exact h

/-- a thread's knowledge survives another caller's insert of a not yet owned key -/
theorem ok_insert {st : KvStore} {t : KThread} {b n i : Nat} (h : t.Ok st) (hne : st.mutable b n = none) :
    t.Ok (st.insert b n i) := by
  unfold KThread.Ok at *
  cases hpc : t.pc with
  | start => simp
  | afterMem q => simp [hpc] at h ⊢; exact h
  | afterDisk q => simp [hpc] at h ⊢; exact h
  | done j => simp [hpc] at h ⊢; exact owns_insert h hne

/-- creating (b, n) ↦ ctr when nobody owns (b, n) keeps the dictionary part of the invariant -/
theorem kinv_create {s : KSys} (inv : KInv s) {b n : Nat}
    (hfree : ∀ i, ¬ s.store.Owns b n i) (ts : List KThread)
    (hts : ∀ t ∈ ts, t.Ok (s.store.insert b n s.ctr)) :
    KInv { s with store := s.store.insert b n s.ctr, ctr := s.ctr + 1, threads := ts } := by
  have hne : s.store.mutable b n = none := by
    cases h : s.store.mutable b n with
    | none => rfl
    | some i => exact absurd (Or.inl h) (hfree i)
  refine ⟨?_, ?_, ?_, inv.snapSub, inv.diskSub, inv.comm, hts, fun h => absurd h (by simp [KvStore.insert]), inv.immE⟩
  · intro b' n' i j hi hj
    rcases owns_insert_inv hi with ⟨rfl, rfl, rfl⟩ | hi' <;> rcases owns_insert_inv hj with ⟨hb, hn, rfl⟩ | hj'
    · rfl
    · exact absurd hj' (hfree _)
    · subst hb; subst hn; exact absurd hi' (hfree _)
    · exact inv.uniq _ _ _ _ hi' hj'
  · intro b1 n1 b2 n2 i h1 h2
    rcases owns_insert_inv h1 with ⟨rfl, rfl, rfl⟩ | h1' <;> rcases owns_insert_inv h2 with ⟨hb, hn, hi⟩ | h2'
    · exact ⟨hb.symm, hn.symm⟩
    · exact absurd (inv.bound _ _ _ h2') (Nat.lt_irrefl _)
    · subst hi; exact absurd (inv.bound _ _ _ h1') (Nat.lt_irrefl _)
    · exact inv.inj _ _ _ _ _ h1' h2'
  · intro b' n' i hi
    rcases owns_insert_inv hi with ⟨_, _, rfl⟩ | hi'
    · exact Nat.lt_succ_self _
    · exact Nat.lt_succ_of_lt (inv.bound _ _ _ hi')

theorem mem_set_cases {α : Type} {l : List α} {i : Nat} {a x : α} (h : x ∈ l.set i a) : x ∈ l ∨ x = a := by
  rcases List.mem_or_eq_of_mem_set h with h | h
  · exact Or.inl h
  · exact Or.inr h

/-- one step of a caller in the `recheckFull` variant keeps the invariant -/
theorem kinv_thread {s : KSys} (inv : KInv s) {i : Nat} {t : KThread} (ht : s.threads[i]? = some t) :
    KInv { s with store := (kstep .recheckFull s.store s.ctr t).1, ctr := (kstep .recheckFull s.store s.ctr t).2.1,
                  threads := s.threads.set i (kstep .recheckFull s.store s.ctr t).2.2 } := by
  have htm : t ∈ s.threads := List.mem_of_getElem? ht
  have hok := inv.thr t htm
  -- steps that leave store and counter alone: only the thread's own knowledge has to be checked
  have same : ∀ t' : KThread, t'.Ok s.store →
      KInv { s with store := s.store, ctr := s.ctr, threads := s.threads.set i t' } := by
    intro t' h'
    refine ⟨inv.uniq, inv.inj, inv.bound, inv.snapSub, inv.diskSub, inv.comm, ?_, inv.mutE, inv.immE⟩
    intro x hx
    rcases mem_set_cases hx with hx | rfl
    · exact inv.thr x hx
    · exact h'
  unfold kstep
  cases hpc : t.pc with
  | start =>
    simp only []
    cases hl : s.store.lookupMem t.bucket t.name with
    | some j => simp only []; apply same; simp [KThread.Ok]; exact lookupMem_some hl
    | none => simp only []; apply same; simp [KThread.Ok]
  | afterMem q =>
    simp only []
    have hq : q ≤ s.store.flushSeq := by simpa [KThread.Ok, hpc] using hok
    cases hl : s.store.lookupPersisted t.bucket t.name with
    | some j =>
      simp only []; apply same; simp [KThread.Ok]
      exact Or.inr (Or.inr (inv.snapSub _ _ _ hl))
    | none =>
      simp only []; apply same; simp [KThread.Ok]
      exact ⟨hq, fun _ => hl⟩
  | afterDisk q =>
    simp only []
    have hq : q ≤ s.store.flushSeq ∧ (q = s.store.flushSeq → s.store.snap t.bucket t.name = none) := by
      simpa [KThread.Ok, hpc] using hok
    cases hl : s.store.lookupMem t.bucket t.name with
    | some j => simp only []; apply same; simp [KThread.Ok]; exact lookupMem_some hl
    | none =>
      simp only []
      by_cases hf : s.store.flushSeq = q
      · simp only [hf, if_true]
        obtain ⟨hm, him⟩ := lookupMem_none hl
        have hsnap := hq.2 hf.symm
        have hfree : ∀ j, ¬ s.store.Owns t.bucket t.name j := by
          intro j hj
          rcases hj with hj | hj | hj
          · rw [hm] at hj; cases hj
          · rw [him] at hj; cases hj
          · rcases inv.diskSub _ _ _ hj with h | h
            · rw [hsnap] at h; cases h
            · rw [him] at h; cases h
        apply kinv_create inv hfree
        intro x hx
        rcases mem_set_cases hx with hx | rfl
        · exact ok_insert (inv.thr x hx) hm
        · simp [KThread.Ok]; left
          show (s.store.mutable.set t.bucket t.name s.ctr) t.bucket t.name = some s.ctr
          simp [Dict.set]
      · simp only [hf, if_false]; apply same; simp [KThread.Ok]
  | done j =>
    simp only []
    apply same
    exact hok

/-- one step of a caller in the `recheckLocked` variant (memory maps and current snapshot are
looked at again under the write lock) keeps the invariant -/
theorem kinv_thread_locked {s : KSys} (inv : KInv s) {i : Nat} {t : KThread} (ht : s.threads[i]? = some t) :
    KInv { s with store := (kstep .recheckLocked s.store s.ctr t).1, ctr := (kstep .recheckLocked s.store s.ctr t).2.1,
                  threads := s.threads.set i (kstep .recheckLocked s.store s.ctr t).2.2 } := by
  have htm : t ∈ s.threads := List.mem_of_getElem? ht
  have hok := inv.thr t htm
  have same : ∀ t' : KThread, t'.Ok s.store →
      KInv { s with store := s.store, ctr := s.ctr, threads := s.threads.set i t' } := by
    intro t' h'
    refine ⟨inv.uniq, inv.inj, inv.bound, inv.snapSub, inv.diskSub, inv.comm, ?_, inv.mutE, inv.immE⟩
    intro x hx
    rcases mem_set_cases hx with hx | rfl
    · exact inv.thr x hx
    · exact h'
  unfold kstep
  cases hpc : t.pc with
  | start =>
    simp only []
    cases hl : s.store.lookupMem t.bucket t.name with
    | some j => simp only []; apply same; simp [KThread.Ok]; exact lookupMem_some hl
    | none => simp only []; apply same; simp [KThread.Ok]
  | afterMem q =>
    simp only []
    have hq : q ≤ s.store.flushSeq := by simpa [KThread.Ok, hpc] using hok
    cases hl : s.store.lookupPersisted t.bucket t.name with
    | some j =>
      simp only []; apply same; simp [KThread.Ok]
      exact Or.inr (Or.inr (inv.snapSub _ _ _ hl))
    | none =>
      simp only []; apply same; simp [KThread.Ok]
      exact ⟨hq, fun _ => hl⟩
  | afterDisk q =>
    simp only []
    cases hl : s.store.lookupMem t.bucket t.name with
    | some j => simp only []; apply same; simp [KThread.Ok]; exact lookupMem_some hl
    | none =>
      simp only []
      cases hp : s.store.lookupPersisted t.bucket t.name with
      | some j =>
        simp only []; apply same; simp [KThread.Ok]
        exact Or.inr (Or.inr (inv.snapSub _ _ _ hp))
      | none =>
        simp only []
        obtain ⟨hm, him⟩ := lookupMem_none hl
        have hsnap : s.store.snap t.bucket t.name = none := hp
        have hfree : ∀ j, ¬ s.store.Owns t.bucket t.name j := by
          intro j hj
          rcases hj with hj | hj | hj
          · rw [hm] at hj; cases hj
          · rw [him] at hj; cases hj
          · rcases inv.diskSub _ _ _ hj with h | h
            · rw [hsnap] at h; cases h
            · rw [him] at h; cases h
        apply kinv_create inv hfree
        intro x hx
        rcases mem_set_cases hx with hx | rfl
        · exact ok_insert (inv.thr x hx) hm
        · simp [KThread.Ok]; left
          show (s.store.mutable.set t.bucket t.name s.ctr) t.bucket t.name = some s.ctr
          simp [Dict.set]
  | done j =>
    simp only []
    apply same
    exact hok

theorem immDict_prepare_none {st : KvStore} (h : st.immutable = none) :
    st.prepareFlush.immDict = st.mutable ∧ st.prepareFlush.mutable = Dict.empty := by
  simp [KvStore.prepareFlush, h, KvStore.immDict]

theorem prepare_some {st : KvStore} {p : Dict × Bool} (h : st.immutable = some p) : st.prepareFlush = st := by
  simp [KvStore.prepareFlush, h]

theorem owns_prepare (st : KvStore) (b n i : Nat) :
    st.prepareFlush.Owns b n i ↔ st.Owns b n i := by
  cases h : st.immutable with
  | some p => rw [prepare_some h]
  | none =>
    have him : st.immDict = Dict.empty := by simp [KvStore.immDict, h]
    obtain ⟨h1, h2⟩ := immDict_prepare_none h
    unfold KvStore.Owns
    rw [h1, h2, him]
    have hd : st.prepareFlush.disk = st.disk := by simp [KvStore.prepareFlush, h]
    rw [hd]
    simp [Dict.empty]

theorem kinv_prepare {s : KSys} (inv : KInv s) : KInv { s with store := s.store.prepareFlush } := by
  cases h : s.store.immutable with
  | some p =>
    have : s.store.prepareFlush = s.store := prepare_some h
    rw [this]; exact inv
  | none =>
    have him : s.store.immDict = Dict.empty := by simp [KvStore.immDict, h]
    have ho : ∀ b n i, s.store.prepareFlush.Owns b n i ↔ s.store.Owns b n i := by
      intro b n i; apply owns_prepare
    have hsnap : s.store.prepareFlush.snap = s.store.snap := by simp [KvStore.prepareFlush, h]
    have hdisk : s.store.prepareFlush.disk = s.store.disk := by simp [KvStore.prepareFlush, h]
    have hfs : s.store.prepareFlush.flushSeq = s.store.flushSeq := by simp [KvStore.prepareFlush, h]
    have hnf : s.store.needFlush = false := by simp [KvStore.needFlush, h]
    refine ⟨?_, ?_, ?_, ?_, ?_, ?_, ?_, ?_, ?_⟩
    · intro b n i j hi hj; exact inv.uniq _ _ _ _ ((ho _ _ _).1 hi) ((ho _ _ _).1 hj)
    · intro b n b' n' i hi hj; exact inv.inj _ _ _ _ _ ((ho _ _ _).1 hi) ((ho _ _ _).1 hj)
    · intro b n i hi; exact inv.bound _ _ _ ((ho _ _ _).1 hi)
    · intro b n i hi
      show s.store.prepareFlush.disk b n = some i
      rw [hdisk]; apply inv.snapSub; rw [← hsnap]; exact hi
    · intro b n i hi
      have hi' : s.store.disk b n = some i := by rw [← hdisk]; exact hi
      rcases inv.diskSub _ _ _ hi' with h' | h'
      · left; show s.store.prepareFlush.snap b n = some i; rw [hsnap]; exact h'
      · rw [him] at h'; cases h'
    · intro hc
      have := (inv.comm hc).1
      rw [hnf] at this; cases this
    · intro t ht
      have := inv.thr t ht
      unfold KThread.Ok at *
      cases hpc : t.pc with
      | start => simp
      | afterMem q => simp [hpc] at this ⊢; rw [hfs]; exact this
      | afterDisk q => simp [hpc] at this ⊢; rw [hfs, hsnap]; exact this
      | done j => simp [hpc] at this ⊢; exact (ho _ _ _).2 this
    · intro _ b n; simp [KvStore.prepareFlush, h, Dict.empty]
    · intro d hd b n
      simp [KvStore.prepareFlush, h] at hd
      rw [← hd.1]; exact inv.mutE hd.2 b n

theorem needFlush_imm {st : KvStore} (h : st.needFlush = true) : ∃ d, st.immutable = some (d, false) := by
  unfold KvStore.needFlush at h
  cases hi : st.immutable with
  | none => simp [hi] at h
  | some p =>
    obtain ⟨d, e⟩ := p
    cases e with
    | false => exact ⟨d, rfl⟩
    | true => simp [hi] at h

theorem kinv_commit {s : KSys} (inv : KInv s) (h2 : s.store.needFlush = true) :
    KInv { s with store := s.store.commit, committed := true } := by
  obtain ⟨d, hd⟩ := needFlush_imm h2
  have him : s.store.immDict = d := by simp [KvStore.immDict, hd]
  have hc : s.store.commit = { s.store with disk := d.over s.store.disk } := by simp [KvStore.commit, hd]
  have hdisk : ∀ b n, (s.store.commit).disk b n = match d b n with | some i => some i | none => s.store.disk b n := by
    intro b n; rw [hc]; rfl
  have himm' : s.store.commit.immDict = d := by rw [hc]; simp [KvStore.immDict, hd]
  have hmut' : s.store.commit.mutable = s.store.mutable := by rw [hc]
  have hsnap' : s.store.commit.snap = s.store.snap := by rw [hc]
  have hfs' : s.store.commit.flushSeq = s.store.flushSeq := by rw [hc]
  have hnf' : s.store.commit.needFlush = true := by rw [hc]; simp [KvStore.needFlush, hd]
  -- disk' b n = some i  →  immutable has it or the old disk has it
  have disk_inv : ∀ b n i, s.store.commit.disk b n = some i → d b n = some i ∨ s.store.disk b n = some i := by
    intro b n i h
    rw [hdisk] at h
    cases hdb : d b n with
    | some j => simp [hdb] at h; left; rw [← h]
    | none => simp [hdb] at h; right; exact h
  -- the old disk entry survives (a shadowing immutable entry is the same, by uniqueness)
  have disk_fwd : ∀ b n i, s.store.disk b n = some i → s.store.commit.disk b n = some i := by
    intro b n i h
    rw [hdisk]
    cases hdb : d b n with
    | some j =>
      have : j = i := inv.uniq b n j i (Or.inr (Or.inl (by rw [him]; exact hdb))) (Or.inr (Or.inr h))
      simp [this]
    | none => simpa using h
  have ho : ∀ b n i, s.store.commit.Owns b n i ↔ s.store.Owns b n i := by
    intro b n i
    unfold KvStore.Owns
    rw [hmut', himm', him]
    constructor
    · rintro (h | h | h)
      · exact Or.inl h
      · exact Or.inr (Or.inl h)
      · rcases disk_inv _ _ _ h with h | h
        · exact Or.inr (Or.inl h)
        · exact Or.inr (Or.inr h)
    · rintro (h | h | h)
      · exact Or.inl h
      · exact Or.inr (Or.inl h)
      · exact Or.inr (Or.inr (disk_fwd _ _ _ h))
  refine ⟨?_, ?_, ?_, ?_, ?_, ?_, ?_, ?_, ?_⟩
  · intro b n i j hi hj; exact inv.uniq _ _ _ _ ((ho _ _ _).1 hi) ((ho _ _ _).1 hj)
  · intro b n b' n' i hi hj; exact inv.inj _ _ _ _ _ ((ho _ _ _).1 hi) ((ho _ _ _).1 hj)
  · intro b n i hi; exact inv.bound _ _ _ ((ho _ _ _).1 hi)
  · intro b n i hi
    apply disk_fwd; apply inv.snapSub
    have : s.store.commit.snap b n = some i := hi
    rw [hsnap'] at this; exact this
  · intro b n i hi
    rcases disk_inv _ _ _ hi with h | h
    · right; show s.store.commit.immDict b n = some i; rw [himm']; exact h
    · rcases inv.diskSub _ _ _ h with h' | h'
      · left; show s.store.commit.snap b n = some i; rw [hsnap']; exact h'
      · right; show s.store.commit.immDict b n = some i; rw [himm', ← him]; exact h'
  · intro _
    refine ⟨hnf', ?_⟩
    intro b n i hi
    have hi' : d b n = some i := by
      have : s.store.commit.immDict b n = some i := hi
      rw [himm'] at this; exact this
    show s.store.commit.disk b n = some i
    rw [hdisk]; simp [hi']
  · intro t ht
    have := inv.thr t ht
    unfold KThread.Ok at *
    cases hpc : t.pc with
    | start => simp
    | afterMem q => simp [hpc] at this ⊢; rw [hfs']; exact this
    | afterDisk q => simp [hpc] at this ⊢; rw [hfs', hsnap']; exact this
    | done j => simp [hpc] at this ⊢; exact (ho _ _ _).2 this
  · intro h b n
    have h' : s.store.commit.mutEmpty = true := h
    rw [hc] at h'
    show s.store.commit.mutable b n = none
    rw [hmut']; exact inv.mutE h' b n
  · intro d' hd'
    have h' : s.store.commit.immutable = some (d', true) := hd'
    rw [hc] at h'
    exact inv.immE d' h'

theorem kinv_finish {s : KSys} (inv : KInv s) (h : s.committed = true) :
    KInv { s with store := s.store.finish, committed := false } := by
  obtain ⟨hnf, hsub⟩ := inv.comm h
  obtain ⟨d, hd⟩ := needFlush_imm hnf
  have him : s.store.immDict = d := by simp [KvStore.immDict, hd]
  have hf : s.store.finish = { s.store with snap := s.store.disk, immutable := none, flushSeq := s.store.flushSeq + 1 } := by
    simp [KvStore.finish, hd]
  have himm' : s.store.finish.immDict = Dict.empty := by rw [hf]; simp [KvStore.immDict]
  have hmut' : s.store.finish.mutable = s.store.mutable := by rw [hf]
  have hdisk' : s.store.finish.disk = s.store.disk := by rw [hf]
  have hsnap' : s.store.finish.snap = s.store.disk := by rw [hf]
  have hfs' : s.store.finish.flushSeq = s.store.flushSeq + 1 := by rw [hf]
  have ho : ∀ b n i, s.store.finish.Owns b n i ↔ s.store.Owns b n i := by
    intro b n i
    unfold KvStore.Owns
    rw [hmut', himm', hdisk']
    constructor
    · rintro (h | h | h)
      · exact Or.inl h
      · simp [Dict.empty] at h
      · exact Or.inr (Or.inr h)
    · rintro (h | h | h)
      · exact Or.inl h
      · exact Or.inr (Or.inr (hsub _ _ _ h))
      · exact Or.inr (Or.inr h)
  refine ⟨?_, ?_, ?_, ?_, ?_, ?_, ?_, ?_, ?_⟩
  · intro b n i j hi hj; exact inv.uniq _ _ _ _ ((ho _ _ _).1 hi) ((ho _ _ _).1 hj)
  · intro b n b' n' i hi hj; exact inv.inj _ _ _ _ _ ((ho _ _ _).1 hi) ((ho _ _ _).1 hj)
  · intro b n i hi; exact inv.bound _ _ _ ((ho _ _ _).1 hi)
  · intro b n i hi
    have : s.store.finish.snap b n = some i := hi
    rw [hsnap'] at this
    show s.store.finish.disk b n = some i
    rw [hdisk']; exact this
  · intro b n i hi
    have : s.store.finish.disk b n = some i := hi
    rw [hdisk'] at this
    left; show s.store.finish.snap b n = some i; rw [hsnap']; exact this
  · intro hc; cases hc
  · intro t ht
    have := inv.thr t ht
    unfold KThread.Ok at *
    cases hpc : t.pc with
    | start => simp
    | afterMem q => simp [hpc] at this ⊢; rw [hfs']; omega
    | afterDisk q =>
      simp [hpc] at this ⊢; rw [hfs']
      refine ⟨by omega, fun hq => ?_⟩
      omega
    | done j => simp [hpc] at this ⊢; exact (ho _ _ _).2 this
  · intro h b n
    have h' : s.store.finish.mutEmpty = true := h
    rw [hf] at h'
    show s.store.finish.mutable b n = none
    rw [hmut']; exact inv.mutE h' b n
  · intro d' hd'
    have h' : s.store.finish.immutable = some (d', true) := hd'
    rw [hf] at h'; cases h'

theorem kinv_call {s : KSys} (inv : KInv s) (b n : Nat) :
    KInv { s with threads := s.threads ++ [{ bucket := b, name := n }] } := by
  refine ⟨inv.uniq, inv.inj, inv.bound, inv.snapSub, inv.diskSub, inv.comm, ?_, inv.mutE, inv.immE⟩
  intro t ht
  rcases List.mem_append.1 ht with h | h
  · exact inv.thr t h
  · simp at h; subst h; simp [KThread.Ok]

/-- forgetting an immutable map that is empty changes nothing that matters -/
theorem kinv_dropEmpty {s : KSys} (inv : KInv s) : KInv { s with store := s.store.dropEmpty } := by
  unfold KvStore.dropEmpty
  cases him : s.store.immutable with
  | none => simpa [him] using inv
  | some p =>
    obtain ⟨d, e⟩ := p
    cases e with
    | false => simpa [him] using inv
    | true =>
      simp only [him]
      have hd : ∀ b n, d b n = none := inv.immE d him
      have himd : s.store.immDict = d := by simp [KvStore.immDict, him]
      have ho : ∀ b n i, ({ s.store with immutable := none } : KvStore).Owns b n i ↔ s.store.Owns b n i := by
        intro b n i
        have h1 : ({ s.store with immutable := none } : KvStore).immDict b n = none := by simp [KvStore.immDict, Dict.empty]
        have h2 : s.store.immDict b n = none := by rw [himd]; exact hd b n
        unfold KvStore.Owns
        rw [h1, h2]
      have hnf : s.store.needFlush = false := by simp [KvStore.needFlush, him]
      refine ⟨?_, ?_, ?_, inv.snapSub, ?_, ?_, ?_, inv.mutE, ?_⟩
      · intro b n i j hi hj; exact inv.uniq _ _ _ _ ((ho _ _ _).1 hi) ((ho _ _ _).1 hj)
      · intro b n b' n' i hi hj; exact inv.inj _ _ _ _ _ ((ho _ _ _).1 hi) ((ho _ _ _).1 hj)
      · intro b n i hi; exact inv.bound _ _ _ ((ho _ _ _).1 hi)
      · intro b n i hi
        rcases inv.diskSub _ _ _ hi with h | h
        · exact Or.inl h
        · rw [himd, hd] at h; cases h
      · intro hc
        have := (inv.comm hc).1
        rw [hnf] at this; cases this
      · intro t ht
        have := inv.thr t ht
        unfold KThread.Ok at *
        cases hpc : t.pc with
        | start => simp
        | afterMem q => simpa [hpc] using this
        | afterDisk q => simpa [hpc] using this
        | done j => simp [hpc] at this ⊢; exact (ho _ _ _).2 this
      · intro d' hd'; cases hd'

theorem kinv_prepareE {s : KSys} (inv : KInv s) (se : Bool) : KInv { s with store := s.store.prepareFlushE se } := by
  unfold KvStore.prepareFlushE
  cases se with
  | false => simpa using kinv_prepare inv
  | true => simpa using kinv_prepare (kinv_dropEmpty inv)

theorem kinv_step {s s' : KSys} (inv : KInv s) (st : KStep .recheckFull s s') : KInv s' := by
  cases st with
  | call b n => exact kinv_call inv b n
  | thread i t h => exact kinv_thread inv h
  | prepare se => exact kinv_prepareE inv se
  | commit h1 h2 => exact kinv_commit inv h2
  | finish h => exact kinv_finish inv h

theorem kinv_step_locked {s s' : KSys} (inv : KInv s) (st : KStep .recheckLocked s s') : KInv s' := by
  cases st with
  | call b n => exact kinv_call inv b n
  | thread i t h => exact kinv_thread_locked inv h
  | prepare se => exact kinv_prepareE inv se
  | commit h1 h2 => exact kinv_commit inv h2
  | finish h => exact kinv_finish inv h

theorem kinv_start {s : KSys} (h : KStart s) : KInv s := by
  have him : s.store.immDict = Dict.empty := by simp [KvStore.immDict, h.immNil]
  have ho : ∀ b n i, s.store.Owns b n i → s.store.disk b n = some i := by
    intro b n i hi
    rcases hi with hi | hi | hi
    · rw [h.mutEmpty] at hi; cases hi
    · rw [him] at hi; simp [Dict.empty] at hi
    · exact hi
  refine ⟨?_, ?_, ?_, ?_, ?_, ?_, ?_, fun _ => h.mutEmpty, fun d hd => by rw [h.immNil] at hd; cases hd⟩
  · intro b n i j hi hj
    have := ho _ _ _ hi; have := ho _ _ _ hj
    simp_all
  · intro b n b' n' i hi hj; exact h.inj _ _ _ _ _ (ho _ _ _ hi) (ho _ _ _ hj)
  · intro b n i hi; exact h.bound _ _ _ (ho _ _ _ hi)
  · intro b n i hi; rw [h.snapDisk] at hi; exact hi
  · intro b n i hi; left; rw [h.snapDisk]; exact hi
  · intro hc; rw [h.idle] at hc; cases hc
  · intro t ht; rw [h.noThreads] at ht; cases ht

theorem kinv_reach {s0 s : KSys} (h0 : KStart s0) (r : KReach .recheckFull s0 s) : KInv s := by
  induction r with
  | init => exact kinv_start h0
  | step _ st ih => exact kinv_step ih st

theorem kinv_reach_locked {s0 s : KSys} (h0 : KStart s0) (r : KReach .recheckLocked s0 s) : KInv s := by
  induction r with
  | init => exact kinv_start h0
  | step _ st ih => exact kinv_step_locked ih st

theorem kinv_stable {s : KSys} (inv : KInv s) : KStable s := by
  intro t1 h1 t2 h2 a b ha hb hbk hnm
  have o1 := inv.thr t1 h1
  have o2 := inv.thr t2 h2
  simp [KThread.Ok, ha] at o1
  simp [KThread.Ok, hb] at o2
  rw [hbk, hnm] at o1
  exact inv.uniq _ _ _ _ o1 o2

theorem kinv_injective {s : KSys} (inv : KInv s) : KInjective s := by
  intro t1 h1 t2 h2 a ha hb hbk
  have o1 := inv.thr t1 h1
  have o2 := inv.thr t2 h2
  simp [KThread.Ok, ha] at o1
  simp [KThread.Ok, hb] at o2
  exact (inv.inj _ _ _ _ _ o1 o2).2

/-- two completed calls for one name with different ids refute `KStable` -/
theorem not_stable_of_two_ids {s : KSys} {b n i j : Nat} (h : s.threads = [⟨b, n, .done i⟩, ⟨b, n, .done j⟩]) (hij : i ≠ j) :
    ¬ KStable s := by
  intro st
  exact hij (st ⟨b, n, .done i⟩ (by rw [h]; simp) ⟨b, n, .done j⟩ (by rw [h]; simp) i j rfl rfl rfl rfl)

end LinVerif.IdAssign
