/-
C06 helper lemmas, part 4: the two-step GetOrCreateConsumerGroup under lock4map linearizes at its
registration.
-/
import LinVerif.Lemmas.C06Consume
import LinVerif.Model.FanOutConc

set_option linter.unusedSimpArgs false
set_option linter.unusedVariables false

namespace LinVerif.FanOut
open LinVerif.Map

/-- an operation that does not take lock4map leaves the queue ack, and the meta page and the
(non-)registration of a group that is not live, alone -/
theorem nolock_frame (v : Variant) (s : State) (o : Op) (g : Nat) (h : o.needsMapLock = false)
    (hl : lookup s.live g = none) :
    (step v s o).1.q.ack = s.q.ack ∧ lookup (step v s o).1.metas g = lookup s.metas g ∧
      lookup (step v s o).1.live g = none := by
  cases o with
  | append len =>
    simp only [FanOut.step]
    split <;> exact ⟨rfl, rfl, hl⟩
  | consume g' =>
    simp only [FanOut.step, State.consume]
    split
    · exact ⟨rfl, rfl, hl⟩
    · rename_i grp hgrp
      have hg : g' ≠ g := by intro e; subst e; rw [hl] at hgrp; cases hgrp
      split
      · exact ⟨rfl, rfl, hl⟩
      · split
        · exact ⟨rfl, lookup_upsert_ne _ _ _ _ hg, by rw [putGroup_live_ne _ _ _ _ hg]; exact hl⟩
        · exact ⟨rfl, rfl, hl⟩
  | ack g' n =>
    simp only [FanOut.step, State.ackGroup]
    split
    · exact ⟨rfl, rfl, hl⟩
    · rename_i grp hgrp
      have hg : g' ≠ g := by intro e; subst e; rw [hl] at hgrp; cases hgrp
      split
      · exact ⟨rfl, lookup_upsert_ne _ _ _ _ hg, by rw [putGroup_live_ne _ _ _ _ hg]; exact hl⟩
      · exact ⟨rfl, rfl, hl⟩
  | setConsumed g' n =>
    simp only [FanOut.step]
    split
    · exact ⟨rfl, rfl, hl⟩
    · rename_i grp hgrp
      have hg : g' ≠ g := by intro e; subst e; rw [hl] at hgrp; cases hgrp
      exact ⟨rfl, lookup_upsert_ne _ _ _ _ hg, by rw [putGroup_live_ne _ _ _ _ hg]; exact hl⟩
  | setSeq g' n =>
    simp only [FanOut.step]
    split
    · exact ⟨rfl, rfl, hl⟩
    · rename_i grp hgrp
      have hg : g' ≠ g := by intro e; subst e; rw [hl] at hgrp; cases hgrp
      exact ⟨rfl, lookup_upsert_ne _ _ _ _ hg, by rw [putGroup_live_ne _ _ _ _ hg]; exact hl⟩
  | setAppended n => simp [Op.needsMapLock] at h
  | sync => simp [Op.needsMapLock] at h
  | gc => exact ⟨gc_ack s.q, rfl, hl⟩
  | create g' => simp [Op.needsMapLock] at h
  | stop g' => simp [Op.needsMapLock] at h
  | pause g' =>
    simp only [FanOut.step]
    split
    · exact ⟨rfl, rfl, hl⟩
    · rename_i grp hgrp
      have hg : g' ≠ g := by intro e; subst e; rw [hl] at hgrp; cases hgrp
      refine ⟨rfl, rfl, ?_⟩
      show lookup (upsert s.live g' _) g = none
      rw [lookup_upsert_ne _ _ _ _ hg]; exact hl
  | reopen => simp [Op.needsMapLock] at h

/-- what a call in flight has read is still what it would read now -/
def CInv (cs : CState) : Prop :=
  ∀ c, cs.creating = some c →
    c.qack = cs.s.q.ack ∧ c.pmeta = lookup cs.s.metas c.g ∧ lookup cs.s.live c.g = none

theorem CInv.init : CInv CState.init := by intro c h; cases h

theorem create_eq_register (v : Variant) (s : State) (g : Nat) (h : lookup s.live g = none) :
    s.create v g = s.register g (newGroup v s.q.ack (lookup s.metas g)) := by
  unfold State.create State.register
  rw [h]

/-- one enabled step of the locked shape = the sequential steps it linearizes to -/
theorem cstep_lin (v : Variant) (cs cs' : CState) (o : COp) (hi : CInv cs)
    (h : cstep v true cs o = some cs') : CInv cs' ∧ cs'.s = run v cs.s (clin o) := by
  cases o with
  | op o =>
    simp only [cstep] at h
    split at h
    · cases h
    · rename_i hen
      cases h
      refine ⟨?_, rfl⟩
      intro c hc
      change cs.creating = some c at hc
      obtain ⟨h1, h2, h3⟩ := hi c hc
      have hnl : o.needsMapLock = false := by
        simp only [hc, Option.isSome_some, Bool.true_and, Bool.and_eq_true, not_and] at hen
        cases hh : o.needsMapLock
        · rfl
        · simp [hh] at hen
      obtain ⟨f1, f2, f3⟩ := nolock_frame v cs.s o c.g hnl h3
      exact ⟨by rw [h1]; exact f1.symm, by rw [h2]; exact f2.symm, f3⟩
  | crBegin g =>
    simp only [cstep] at h
    split at h
    · cases h
    · rename_i hnone
      split at h
      · cases h; exact ⟨hi, rfl⟩
      · rename_i hl
        cases h
        refine ⟨?_, rfl⟩
        intro c hc
        simp only [Option.some.injEq] at hc
        subst hc
        exact ⟨rfl, rfl, hl⟩
  | crEnd g =>
    simp only [cstep] at h
    split at h
    · cases h
    · rename_i c hc
      split at h
      · rename_i hg
        obtain ⟨h1, h2, h3⟩ := hi c hc
        rw [hg] at h3
        rw [h3] at h
        simp only [Option.some.injEq] at h
        subst h
        refine ⟨(fun c' hc' => by cases hc'), ?_⟩
        show cs.s.register g _ = (FanOut.step v cs.s (.create g)).1
        show _ = cs.s.create v g
        rw [create_eq_register v cs.s g h3, h1, h2, hg]
      · cases h

theorem clinAll_append (a b : List COp) : clinAll (a ++ b) = clinAll a ++ clinAll b := by
  induction a with
  | nil => rfl
  | cons o os ih => simp [clinAll, ih]

theorem crun_append (v : Variant) (locked : Bool) :
    ∀ (a b : List COp) (cs : CState), crun v locked cs (a ++ b) =
      match crun v locked cs a with
      | none => none
      | some cs' => crun v locked cs' b
  | [], _, _ => rfl
  | o :: os, b, cs => by
    simp only [List.cons_append, crun]
    cases cstep v locked cs o with
    | none => rfl
    | some cs' => exact crun_append v locked os b cs'

/-- every enabled concurrent history of the locked shape ends in the state of its linearization -/
theorem crun_lin (v : Variant) :
    ∀ (ops : List COp) (cs cs' : CState), CInv cs → crun v true cs ops = some cs' →
      CInv cs' ∧ cs'.s = run v cs.s (clinAll ops)
  | [], cs, cs', hi, h => by cases h; exact ⟨hi, rfl⟩
  | o :: os, cs, cs', hi, h => by
    simp only [crun] at h
    cases hs : cstep v true cs o with
    | none => rw [hs] at h; cases h
    | some cs1 =>
      rw [hs] at h
      obtain ⟨hi1, he1⟩ := cstep_lin v cs cs1 o hi hs
      obtain ⟨hi2, he2⟩ := crun_lin v os cs1 cs' hi1 h
      refine ⟨hi2, ?_⟩
      rw [he2, he1]
      show _ = run v cs.s (clin o ++ clinAll os)
      rw [run_append]

end LinVerif.FanOut
