/-
C19 helper lemmas, part 5: the repaired step order (`complete(sm.firstError())`) carries an error
whenever some stage failed or panicked before the callback fired. Inductive invariant behind
`error_carried`.
-/
import LinVerif.Lemmas.C19NoPanic

namespace LinVerif.Pipeline

/-- what is known about a pending `complete` call -/
def ECok (sh : Shared) : Instr → Prop
  | .load _ => sh.pending = 0
  | .fire e _ => e = true ∨ (sh.pending = 0 ∧ sh.failed = false)
  | _ => True

/-- the part of `ECok` that does not depend on the shared state -/
def ECstrong : Instr → Prop
  | .load _ => False
  | .fire e _ => e = true
  | _ => True

theorem ECstrong.ok {j : Instr} (h : ECstrong j) (sh : Shared) : ECok sh j := by
  cases j <;> simp_all [ECstrong, ECok]

theorem ECok.strong {sh : Shared} {j : Instr} (h : ECok sh j) (hp : sh.pending ≠ 0) : ECstrong j := by
  cases j <;> simp_all [ECstrong, ECok]

structure MainEC (s : State) : Prop where
  gnn : 0 ≤ gap s
  wf : WF s
  carry : s.sh.failed = true → s.sh.firstErr = true ∨ 0 < gap s ∨ 0 < tsum Instr.trackT s.threads
  ok : ∀ t ∈ s.threads, ∀ i ∈ t.code, ECok s.sh i
  res : ∀ f ∈ s.sh.fired, f.failedBefore = true → f.arg = true

theorem mainEC_first {root : Stage} {s : State}
    (hsh : s.sh = { (init root).sh with pending := 1, registered := 1 })
    (ht : s.threads = [⟨false, [.launch root]⟩]) : MainEC s := by
  cases s with
  | mk sh threads =>
    simp only at hsh ht
    subst hsh ht
    refine ⟨?_, ?_, ?_, ?_, ?_⟩ <;>
      simp [gap, init, Instr.owed, WF, wfCode, Instr.startLike, ECok]

/-- with `pending = 0` (and nothing lost to panics) every failure is already remembered -/
theorem MainEC.failed_recorded {s : State} (h : MainEC s) (hp : s.sh.pending = 0) :
    s.sh.failed = true → s.sh.firstErr = true := by
  intro hf
  have hg := h.gnn
  have ht := tsum_trackT_le_owed s.threads
  simp only [gap] at hg
  rcases h.carry hf with h1 | h2 | h3
  · exact h1
  · simp only [gap] at h2; omega
  · omega

/-- instructions while `pending ≠ 0` -/
theorem stepInstr_ec (cfg : Cfg) (harg : cfg.arg = .first) (sh : Shared) (pooled : Bool) (i : Instr)
    (rest : List Instr) (hi : ECstrong i) (hrest : ∀ j ∈ rest, ECstrong j) :
    (∀ j ∈ (stepInstr cfg sh pooled i rest).code, ECok (stepInstr cfg sh pooled i rest).sh j) ∧
      ∀ t ∈ (stepInstr cfg sh pooled i rest).spawn, ∀ j ∈ t.code, ECok (stepInstr cfg sh pooled i rest).sh j := by
  refine ⟨stepInstr_forall (fun j hj => (hrest j hj).ok _) ?_, ?_⟩
  · intro j hc
    cases hc with
    | fireOwn e ha _ => rw [harg] at ha; cases ha
    | load e _ hz =>
      simp only [ECok, stepInstr, harg, hz, if_true]
    | fire own => simp [ECstrong] at hi
    | planMain s _ _ _ => simp [ECok]
    | panMain s _ _ _ => simp [ECok]
    | _ => trivial
  · intro t ht j hj
    obtain ⟨st, _, _, _, rfl⟩ := stepInstr_spawn ht
    simp only [List.mem_singleton] at hj; subst hj
    trivial

/-- the panic of a stage running inline on the goroutine that called `pipeline.Execute` -/
def MainPanic (sh : Shared) (pooled : Bool) (i : Instr) (e : Eff) : Prop :=
  pooled = false ∧ e.code = [.fire true true] ∧ e.spawn = [] ∧ e.sh.pending = sh.pending ∧ 0 < i.owed

/-- `completeStage(_, err≠nil)` calls that have not yet recorded their error are not lost -/
theorem stepInstr_carry (cfg : Cfg) (harg : cfg.arg = .first) (sh : Shared) (pooled : Bool) (i : Instr)
    (rest : List Instr) :
    ((stepInstr cfg sh pooled i rest).sh.failed = true → sh.failed = true
        ∨ 0 < csum Instr.trackT (stepInstr cfg sh pooled i rest).code
        ∨ MainPanic sh pooled i (stepInstr cfg sh pooled i rest)) ∧
    (sh.firstErr = true → (stepInstr cfg sh pooled i rest).sh.firstErr = true) ∧
    (csum Instr.trackT (i :: rest) ≤ csum Instr.trackT (stepInstr cfg sh pooled i rest).code
          + tsum Instr.trackT (stepInstr cfg sh pooled i rest).spawn
      ∨ (stepInstr cfg sh pooled i rest).sh.firstErr = true
      ∨ 0 < csum Instr.trackT (stepInstr cfg sh pooled i rest).code
      ∨ MainPanic sh pooled i (stepInstr cfg sh pooled i rest)) := by
  cases i <;> simp only [stepInstr, panicEff, MainPanic] <;> (repeat' split) <;>
    simp_all [Instr.trackT, Instr.owed]
  all_goals (try (cases pooled <;> simp_all))
  all_goals (try (rename_i e; cases e <;> simp_all))
  all_goals (try (first | omega | (right; omega) | (right; left; omega) | (right; right; left; omega)))

theorem ECok.congr {sh sh' : Shared} {j : Instr} (hp : sh'.pending = sh.pending) (hf : sh'.failed = sh.failed)
    (h : ECok sh j) : ECok sh' j := by
  cases j <;> simp_all [ECok]

theorem mainEC_step {cfg : Cfg} (harg : cfg.arg = .first) {s s' : State} {n : Nat} (hinv : MainEC s)
    (h : stepAt cfg s n = some s') : MainEC s' := by
  have hg' : 0 ≤ gap s' := Int.le_trans hinv.gnn (step_gap_le h)
  have hgle := step_gap_le h
  have hwf' := step_wf hinv.wf h
  obtain ⟨pooled, i, rest, hget, rfl⟩ := stepAt_elim h
  have hmem := List.mem_of_getElem? hget
  have hcode := hinv.ok _ hmem
  have hhead : ECok s.sh i := hcode i (by simp)
  have hrest : ∀ j ∈ rest, ECok s.sh j := fun j hj => hcode j (by simp [hj])
  by_cases hp : s.sh.pending = 0
  · have hrec := hinv.failed_recorded hp
    rcases head_is_fire hinv.wf hinv.gnn hp hget with ⟨o, rfl⟩ | ⟨e, o, rfl⟩
    · refine ⟨hg', hwf', ?_, ?_, ?_⟩
      · intro hf; exact Or.inl (hrec hf)
      · simp only [stepInstr]
        refine forall_step hinv.ok (List.forall_mem_cons.mpr ⟨?_, hrest⟩) (by simp)
        simp only [ECok]
        cases hfe : s.sh.firstErr with
        | true => exact Or.inl rfl
        | false =>
          right; refine ⟨hp, ?_⟩
          cases hfl : s.sh.failed with
          | false => rfl
          | true => rw [hrec hfl] at hfe; cases hfe
      · exact hinv.res
    · cases hc : s.sh.completed with
      | true =>
        simp only [stepInstr, hc, if_true]
        refine ⟨?_, ?_, ?_, ?_, ?_⟩
        · simpa only [stepInstr, hc, if_true] using hg'
        · simpa only [stepInstr, hc, if_true] using hwf'
        · intro hf; exact Or.inl (hrec hf)
        · exact forall_step hinv.ok hrest (by simp)
        · exact hinv.res
      | false =>
        simp only [stepInstr, hc, Bool.false_eq_true, if_false]
        refine ⟨?_, ?_, ?_, ?_, ?_⟩
        · simpa only [stepInstr, hc, Bool.false_eq_true, if_false] using hg'
        · simpa only [stepInstr, hc, Bool.false_eq_true, if_false] using hwf'
        · intro hf; exact Or.inl (hrec hf)
        · refine forall_step (fun t ht j hj => (hinv.ok t ht j hj).congr rfl rfl)
            (fun j hj => (hrest j hj).congr rfl rfl) (by simp)
        · intro f hf
          rcases List.mem_append.mp hf with hf | hf
          · exact hinv.res f hf
          · simp only [List.mem_singleton] at hf; subst hf
            simp only [ECok] at hhead
            intro hfb
            rcases hhead with he | ⟨_, hnf⟩
            · exact he
            · simp only at hfb; rw [hnf] at hfb; cases hfb
  · have hstrong : ∀ t ∈ s.threads, ∀ j ∈ t.code, ECstrong j := fun t ht j hj => (hinv.ok t ht j hj).strong hp
    have hec := stepInstr_ec cfg harg s.sh pooled i rest (hstrong _ hmem i (by simp))
      (fun j hj => hstrong _ hmem j (by simp [hj]))
    have hcar := stepInstr_carry cfg harg s.sh pooled i rest
    have hT := tsum_step (w := Instr.trackT) (t1 := ⟨pooled, (stepInstr cfg s.sh pooled i rest).code⟩)
      (sp := (stepInstr cfg s.sh pooled i rest).spawn) hget
    have hO := tsum_step (w := Instr.owed) (t1 := ⟨pooled, (stepInstr cfg s.sh pooled i rest).code⟩)
      (sp := (stepInstr cfg s.sh pooled i rest).spawn) hget
    have hTle := csum_le_tsum (w := Instr.trackT) hget
    have hOle := csum_le_tsum (w := Instr.owed) hget
    have hgnn := hinv.gnn
    simp only [gap] at hgle hgnn
    simp only at hT hO hTle hOle
    -- the instruction is not `fire` executing with a fresh callback unless its argument is an error
    refine ⟨hg', hwf', ?_, ?_, ?_⟩
    · -- carry
      generalize stepInstr cfg s.sh pooled i rest = e at *
      obtain ⟨c1, c2, c3⟩ := hcar
      have mp : MainPanic s.sh pooled i e → 0 < gap ⟨e.sh, s.threads.set n ⟨pooled, e.code⟩ ++ e.spawn⟩ := by
        rintro ⟨_, hcd, hsp, hpe, hio⟩
        have e1 : csum Instr.owed e.code = 0 := by rw [hcd]; rfl
        have e2 : tsum Instr.owed e.spawn = 0 := by rw [hsp]; rfl
        simp only [gap]
        simp only [csum_cons] at hO hOle
        omega
      have pos : 0 < csum Instr.trackT e.code → 0 < tsum Instr.trackT (s.threads.set n ⟨pooled, e.code⟩ ++ e.spawn) := by
        intro hpos; omega
      intro hf
      simp only at hf
      rcases c1 hf with hf0 | hcp | hmp
      · rcases hinv.carry hf0 with h1 | h2 | h3
        · exact Or.inl (c2 h1)
        · right; left; simp only [gap] at h2 ⊢; omega
        · rcases c3 with hle | hfe | hcp | hmp
          · right; right
            show 0 < tsum Instr.trackT (s.threads.set n ⟨pooled, e.code⟩ ++ e.spawn)
            omega
          · exact Or.inl hfe
          · exact Or.inr (Or.inr (pos hcp))
          · exact Or.inr (Or.inl (mp hmp))
      · exact Or.inr (Or.inr (pos hcp))
      · exact Or.inr (Or.inl (mp hmp))
    · exact forall_step (fun t ht j hj => (hstrong t ht j hj).ok _) hec.1 hec.2
    · -- `fired` grows only by a `fire` whose argument is an error
      have hhs := hstrong _ hmem i (by simp)
      cases i with
      | fire e own =>
        simp only [ECstrong] at hhs
        simp only [stepInstr]; split
        · exact hinv.res
        · intro f hf
          rcases List.mem_append.mp hf with hf | hf
          · exact hinv.res f hf
          · simp only [List.mem_singleton] at hf; subst hf; intro _; exact hhs
      | load own => simp [ECstrong] at hhs
      | _ => simp only [stepInstr, panicEff] <;> (repeat' split) <;> exact hinv.res

theorem invEC_reachable {cfg : Cfg} (harg : cfg.arg = .first) {root : Stage} {s : State}
    (hr : Reachable cfg (init root) s) : InitPhase root s ∨ MainEC s := by
  refine Reachable.invariant (P := fun s => InitPhase root s ∨ MainEC s) (Or.inl (initPhase_init root)) ?_ hr
  intro s s' n hinv hs
  rcases hinv with hi | hm
  · rcases initPhase_step hi hs with hi' | ⟨hsh, ht⟩
    · exact Or.inl hi'
    · exact Or.inr (mainEC_first hsh ht)
  · exact Or.inr (mainEC_step harg hm hs)

end LinVerif.Pipeline
