/-
C01 helper lemmas: the buffered writer (Model/C01Writer.lean) conserves the byte stream (file ++ buffer =
everything written), keeps the buffer within its size, Flush / Sync / Close empty the buffer, every
intermediate file content is a prefix of the stream that extends the previous file content.
-/
import LinVerif.Model.C01Writer
import LinVerif.Lemmas.C01Entries

namespace LinVerif.Kv.BW

open LinVerif.Kv

theorem flush_stream (s : WState) : (flush s).stream = s.stream := by
  obtain ⟨f, b⟩ := s
  cases b <;> simp [flush, WState.stream]

theorem flush_buf (s : WState) : (flush s).buf = [] := by
  obtain ⟨f, b⟩ := s
  cases b <;> simp [flush]

theorem flush_file (s : WState) : (flush s).file = s.stream := by
  obtain ⟨f, b⟩ := s
  cases b <;> simp [flush, WState.stream]

theorem flush_eq (s : WState) : flush s = ⟨s.stream, []⟩ := by
  obtain ⟨f, b⟩ := s
  cases b <;> simp [flush, WState.stream]

theorem bwriteT_stream (B : Nat) (s : WState) (p : Bytes) : (bwriteT B s p).1.stream = s.stream ++ p := by
  obtain ⟨f, b⟩ := s
  unfold bwriteT WState.stream
  simp only
  split
  · simp
  · cases b with
    | nil => simp
    | cons x t =>
      simp only
      split <;> simp [List.append_assoc]

theorem bwriteT_bound (B : Nat) (s : WState) (p : Bytes) (h : s.buf.length ≤ B) :
    (bwriteT B s p).1.buf.length ≤ B := by
  obtain ⟨f, b⟩ := s
  unfold bwriteT
  simp only at h ⊢
  split
  · simp only [List.length_append]; omega
  · cases b with
    | nil => simp
    | cons x t =>
      simp only
      split
      · assumption
      · simp

/-- every file content seen during one bufio Write extends the file before and is a prefix of the stream after -/
theorem bwriteT_images (B : Nat) (s : WState) (p : Bytes) :
    ∀ f ∈ (bwriteT B s p).2, s.file <+: f ∧ f <+: s.stream ++ p := by
  obtain ⟨f0, b⟩ := s
  unfold bwriteT WState.stream
  simp only
  split
  · simp
  · cases b with
    | nil =>
      intro f hf
      simp only [List.mem_singleton] at hf
      subst hf
      simp
    | cons x t =>
      simp only
      split
      · intro f hf
        simp only [List.mem_singleton] at hf
        subst hf
        refine ⟨List.prefix_append _ _, ?_⟩
        refine ⟨p.drop (B - (x :: t).length), ?_⟩
        simp [List.append_assoc]
      · intro f hf
        simp only [List.mem_cons, List.not_mem_nil, or_false] at hf
        rcases hf with hf | hf
        · subst hf
          refine ⟨List.prefix_append _ _, ?_⟩
          refine ⟨p.drop (B - (x :: t).length), ?_⟩
          simp [List.append_assoc]
        · subst hf
          refine ⟨?_, ?_⟩
          · rw [List.append_assoc]; exact List.prefix_append _ _
          · simp [List.append_assoc]

theorem bwriteT_file_mono (B : Nat) (s : WState) (p : Bytes) : s.file <+: (bwriteT B s p).1.file := by
  obtain ⟨f0, b⟩ := s
  unfold bwriteT
  simp only
  split
  · exact List.prefix_refl _
  · cases b with
    | nil => exact List.prefix_append _ _
    | cons x t =>
      simp only
      split
      · exact List.prefix_append _ _
      · rw [List.append_assoc]; exact List.prefix_append _ _

theorem entryWrite_stream (B : Nat) (s : WState) (r : Bytes) :
    (entryWrite B s r).stream = s.stream ++ writeEntry r := by
  unfold entryWrite entryWriteT
  simp only
  rw [bwriteT_stream, bwriteT_stream]
  simp [writeEntry, List.append_assoc]

theorem entryWrite_bound (B : Nat) (s : WState) (r : Bytes) (h : s.buf.length ≤ B) :
    (entryWrite B s r).buf.length ≤ B := by
  unfold entryWrite entryWriteT
  exact bwriteT_bound B _ _ (bwriteT_bound B _ _ h)

theorem entryWrite_file_mono (B : Nat) (s : WState) (r : Bytes) : s.file <+: (entryWrite B s r).file := by
  unfold entryWrite entryWriteT
  exact List.IsPrefix.trans (bwriteT_file_mono B s _) (bwriteT_file_mono B _ _)

theorem entryWriteT_images (B : Nat) (s : WState) (r : Bytes) :
    ∀ f ∈ (entryWriteT B s r).2, s.file <+: f ∧ f <+: s.stream ++ writeEntry r := by
  intro f hf
  unfold entryWriteT at hf
  simp only [List.mem_append] at hf
  rcases hf with hf | hf
  · obtain ⟨h1, h2⟩ := bwriteT_images B s _ f hf
    refine ⟨h1, List.IsPrefix.trans h2 ?_⟩
    unfold writeEntry
    rw [← List.append_assoc]
    exact List.prefix_append _ _
  · obtain ⟨h1, h2⟩ := bwriteT_images B _ _ f hf
    refine ⟨List.IsPrefix.trans (bwriteT_file_mono B s _) h1, ?_⟩
    rw [bwriteT_stream] at h2
    simpa [writeEntry, List.append_assoc] using h2

theorem stepW_stream (B : Nat) (s : WState) (o : WOp) :
    (stepW B s o).stream = s.stream ++ written [o] := by
  cases o <;> simp [stepW, written, entryWrite_stream, flush_stream]

theorem stepW_bound (B : Nat) (s : WState) (o : WOp) (h : s.buf.length ≤ B) : (stepW B s o).buf.length ≤ B := by
  cases o
  · exact entryWrite_bound B s _ h
  all_goals simp [stepW, flush_buf]

theorem written_append (a b : List WOp) : written (a ++ b) = written a ++ written b := by
  induction a with
  | nil => simp [written]
  | cons o t ih => cases o <;> simp [written, ih, List.append_assoc]

theorem runW_stream (B : Nat) : ∀ (ops : List WOp) (s : WState), (runW B s ops).stream = s.stream ++ written ops := by
  intro ops
  induction ops with
  | nil => intro s; simp [runW, written]
  | cons o t ih =>
    intro s
    have := ih (stepW B s o)
    unfold runW at this ⊢
    rw [List.foldl_cons, this, stepW_stream]
    have h2 : written (o :: t) = written [o] ++ written t := written_append [o] t
    rw [h2, List.append_assoc]

theorem runW_bound (B : Nat) : ∀ (ops : List WOp) (s : WState), s.buf.length ≤ B → (runW B s ops).buf.length ≤ B := by
  intro ops
  induction ops with
  | nil => intro s h; simpa [runW] using h
  | cons o t ih =>
    intro s h
    have := ih (stepW B s o) (stepW_bound B s o h)
    unfold runW at this ⊢
    rw [List.foldl_cons]; exact this

theorem runW_append (B : Nat) (s : WState) (a b : List WOp) : runW B s (a ++ b) = runW B (runW B s a) b := by
  simp [runW, List.foldl_append]

/-- persistEditLogs with a Sync after every record: file = old stream ++ the framed records, buffer empty -/
theorem persistW_all (B : Nat) : ∀ (recs : List Bytes) (s : WState),
    persistW B (fun _ => true) s recs = (match recs with | [] => s | _ :: _ => ⟨s.stream ++ writeEntries recs, []⟩) := by
  intro recs
  induction recs with
  | nil => intro s; simp [persistW]
  | cons r t ih =>
    intro s
    simp only [persistW, if_true]
    rw [ih, flush_eq, entryWrite_stream]
    cases t with
    | nil => simp [writeEntries]
    | cons r2 t2 => simp [WState.stream, writeEntries, List.append_assoc]

/-- crash images while persisting with a Sync after every record: complete earlier records + part of ONE record -/
theorem persistImages_all (B : Nat) : ∀ (recs : List Bytes) (s : WState), s.buf = [] →
    ∀ f ∈ persistImages B (fun _ => true) s recs,
      ∃ i, i < recs.length ∧ s.file ++ writeEntries (recs.take i) <+: f ∧ f <+: s.file ++ writeEntries (recs.take (i + 1)) := by
  intro recs
  induction recs with
  | nil => intro s _ f hf; simp [persistImages] at hf
  | cons r t ih =>
    intro s hs f hf
    simp only [persistImages, if_true, List.mem_append, List.mem_cons] at hf
    have hstream : s.stream = s.file := by simp [WState.stream, hs]
    rcases hf with hf | hf | hf
    · obtain ⟨h1, h2⟩ := entryWriteT_images B s r f hf
      refine ⟨0, by simp, by simpa [writeEntries] using h1, ?_⟩
      simpa [writeEntries, hstream] using h2
    · refine ⟨0, by simp, ?_, ?_⟩
      · subst hf
        rw [flush_file]
        have : (entryWriteT B s r).1 = entryWrite B s r := rfl
        rw [this, entryWrite_stream, hstream]
        simp [writeEntries]
      · subst hf
        rw [flush_file]
        have : (entryWriteT B s r).1 = entryWrite B s r := rfl
        rw [this, entryWrite_stream, hstream]
        simp [writeEntries]
    · have hb : (flush (entryWriteT B s r).1).buf = [] := flush_buf _
      obtain ⟨i, hi, h1, h2⟩ := ih _ hb f hf
      have hfile : (flush (entryWriteT B s r).1).file = s.file ++ writeEntry r := by
        rw [flush_file]
        have : (entryWriteT B s r).1 = entryWrite B s r := rfl
        rw [this, entryWrite_stream, hstream]
      rw [hfile] at h1 h2
      refine ⟨i + 1, by simp [hi], ?_, ?_⟩
      · simpa [writeEntries, List.append_assoc] using h1
      · simpa [writeEntries, List.append_assoc] using h2

theorem streamWrites_stream (B : Nat) : ∀ (chunks : List Bytes) (s : WState),
    (streamWrites B s chunks).stream = s.stream ++ chunks.flatten := by
  intro chunks
  induction chunks with
  | nil => intro s; simp [streamWrites]
  | cons c t ih =>
    intro s
    have := ih (bwrite B s c)
    unfold streamWrites at this ⊢
    rw [List.foldl_cons, this]
    unfold bwrite
    rw [bwriteT_stream]
    simp [List.append_assoc]

theorem streamWrites_bound (B : Nat) : ∀ (chunks : List Bytes) (s : WState), s.buf.length ≤ B →
    (streamWrites B s chunks).buf.length ≤ B := by
  intro chunks
  induction chunks with
  | nil => intro s h; simpa [streamWrites] using h
  | cons c t ih =>
    intro s h
    have := ih (bwrite B s c) (bwriteT_bound B s c h)
    unfold streamWrites at this ⊢
    rw [List.foldl_cons]; exact this

end LinVerif.Kv.BW
