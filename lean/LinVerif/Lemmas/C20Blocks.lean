/-
C20 helper lemmas (round 12): the block splitting of `TrieBucketBuilder.Write` as the Go code computes
it — a block COUNT from `len/blockSize`, `len%blockSize`, then `keys[i*blockSize : min(..., len)]` —
is the `take`/`drop` cut `chunks` of the sorted pairs, for every length and every block size ≥ 1:
no slice panics, the blocks partition the list, every block but the last is full.
-/
import LinVerif.Lemmas.C20Merge

set_option linter.unusedSimpArgs false
set_option linter.unusedVariables false

namespace LinVerif.Lemmas.C20
open LinVerif.TrieTree LinVerif.TrieBucket

theorem numBlocksGo_zero (bs : Nat) : numBlocksGo 0 bs = 0 := by
  simp [numBlocksGo]

/-- a non-empty remainder below the block size gets exactly one block -/
theorem numBlocksGo_small {n bs : Nat} (h0 : 0 < n) (h : n < bs) : numBlocksGo n bs = 1 := by
  unfold numBlocksGo
  rw [Nat.mod_eq_of_lt h, Nat.div_eq_of_lt h]
  have : (n != 0) = true := by simp; omega
  simp [this]

/-- one full block less: the count drops by one -/
theorem numBlocksGo_step {n bs : Nat} (hbs : 1 ≤ bs) (h : bs ≤ n) :
    numBlocksGo n bs = numBlocksGo (n - bs) bs + 1 := by
  unfold numBlocksGo
  rw [Nat.mod_eq_sub_mod h, Nat.div_eq_sub_div (by omega) h]
  by_cases hz : ((n - bs) % bs != 0) = true
  · simp [hz]
  · simp [hz]

theorem chunks_nil (bs fuel : Nat) : chunks bs fuel [] = [] := by
  cases fuel <;> simp [chunks]

/-- the loop of `TrieBucketBuilder.Write` from block `i` on (with `start = i*blockSize ≤ len`): the
count computed from what is left drives the loop through exactly the `take`/`drop` blocks of the rest -/
theorem blocksLoop_eq_chunks (bs : Nat) (hbs : 1 ≤ bs) (s : List KV) :
    ∀ (fuel i : Nat), i * bs ≤ s.length → s.length - i * bs ≤ fuel →
      blocksLoop bs s (numBlocksGo (s.length - i * bs) bs) i = some (chunks bs fuel (s.drop (i * bs)))
  | 0, i, hle, hf => by
    have h0 : s.length - i * bs = 0 := by omega
    rw [h0, numBlocksGo_zero]
    simp [blocksLoop, chunks]
  | fuel + 1, i, hle, hf => by
    by_cases h0 : s.length - i * bs = 0
    · rw [h0, numBlocksGo_zero]
      have : s.drop (i * bs) = [] := List.drop_eq_nil_of_le (by omega)
      rw [this]
      simp [blocksLoop, chunks]
    · have hne : s.drop (i * bs) ≠ [] := by
        intro e
        have := congrArg List.length e
        simp at this; omega
      obtain ⟨k, ks, hk⟩ : ∃ k ks, s.drop (i * bs) = k :: ks := by
        cases h : s.drop (i * bs) with
        | nil => exact absurd h hne
        | cons k ks => exact ⟨k, ks, rfl⟩
      have hsucc : (i + 1) * bs = i * bs + bs := Nat.succ_mul i bs
      by_cases hfull : bs ≤ s.length - i * bs
      · -- a full block: end = start + blockSize ≤ len
        rw [numBlocksGo_step hbs hfull]
        have hle' : (i + 1) * bs ≤ s.length := by rw [hsucc]; omega
        have hrem : s.length - i * bs - bs = s.length - (i + 1) * bs := by rw [hsucc]; omega
        have ih := blocksLoop_eq_chunks bs hbs s fuel (i + 1) hle' (by rw [hsucc]; omega)
        rw [hrem]
        simp only [blocksLoop, ih]
        have hb : blockBounds s.length bs i = (i * bs, i * bs + bs) := by
          unfold blockBounds
          have : ¬ (i * bs + bs > s.length) := by omega
          simp [this]
        rw [hb]
        have hs : goSlice s (i * bs) (i * bs + bs) = some ((s.drop (i * bs)).take bs) := by
          unfold goSlice
          have : i * bs ≤ i * bs + bs ∧ i * bs + bs ≤ s.length := ⟨by omega, by omega⟩
          simp [this]
        rw [hs, hk]
        simp only [chunks]
        rw [← hk, List.drop_drop, hsucc]
      · -- the last, short block: end = len
        have hlt : s.length - i * bs < bs := by omega
        rw [numBlocksGo_small (by omega) hlt]
        simp only [blocksLoop]
        have hb : blockBounds s.length bs i = (i * bs, s.length) := by
          unfold blockBounds
          have : i * bs + bs > s.length := by omega
          simp [this]
        rw [hb]
        have hlen : (s.drop (i * bs)).length = s.length - i * bs := by simp
        have hs : goSlice s (i * bs) s.length = some ((s.drop (i * bs)).take bs) := by
          unfold goSlice
          have : i * bs ≤ s.length ∧ s.length ≤ s.length := ⟨hle, Nat.le_refl _⟩
          simp only [this, and_self, if_true]
          rw [List.take_of_length_le (by omega), List.take_of_length_le (by omega)]
        rw [hs, hk]
        simp only [chunks]
        have hd : (k :: ks).drop bs = [] := List.drop_eq_nil_of_le (by rw [← hk]; omega)
        rw [hd, chunks_nil]

/-- `TrieBucketBuilder.Write`'s own arithmetic never panics for `blockSize ≥ 1` and hands `Build`
exactly the blocks of `writeBlocks` -/
theorem writeBlocksGo_eq (bs : Nat) (hbs : 1 ≤ bs) (kvs : List KV) :
    writeBlocksGo bs kvs = some (writeBlocks bs kvs) := by
  unfold writeBlocksGo writeBlocks
  have hz : ¬ bs = 0 := by omega
  simp only [hz, if_false]
  have hperm := sortKVs_perm kvs
  have hlen : (sortKVs kvs).length = kvs.length := hperm.length_eq
  have := blocksLoop_eq_chunks bs hbs (sortKVs kvs) kvs.length 0 (by simp) (by simp [hlen])
  simpa using this

/-- every block of `chunks` has at most `bs` items -/
theorem chunks_length_le (bs : Nat) : ∀ (fuel : Nat) (l : List KV), ∀ c ∈ chunks bs fuel l, c.length ≤ bs
  | 0, l, c, h => by simp [chunks] at h
  | fuel + 1, [], c, h => by simp [chunks] at h
  | fuel + 1, k :: ks, c, h => by
    simp only [chunks, List.mem_cons] at h
    rcases h with rfl | h
    · rw [List.length_take]; exact Nat.min_le_left _ _
    · exact chunks_length_le bs fuel _ c h

/-- every block but the last is full -/
theorem chunks_dropLast_full (bs : Nat) (hbs : 1 ≤ bs) : ∀ (fuel : Nat) (l : List KV),
    ∀ c ∈ (chunks bs fuel l).dropLast, c.length = bs
  | 0, l, c, h => by simp [chunks] at h
  | fuel + 1, [], c, h => by simp [chunks] at h
  | fuel + 1, k :: ks, c, h => by
    simp only [chunks] at h
    cases hr : chunks bs fuel ((k :: ks).drop bs) with
    | nil => rw [hr] at h; simp at h
    | cons d ds =>
      rw [hr, List.dropLast_cons_cons] at h
      rcases List.mem_cons.1 h with rfl | h
      · -- the rest is non-empty, so this block took `bs` items
        have hne : (k :: ks).drop bs ≠ [] := by
          intro e; rw [e, chunks_nil] at hr; cases hr
        rw [List.length_take]
        have : bs < (k :: ks).length := by
          rcases Nat.lt_or_ge bs (k :: ks).length with h | h
          · exact h
          · exact absurd (List.drop_eq_nil_of_le h) hne
        omega
      · have := chunks_dropLast_full bs hbs fuel ((k :: ks).drop bs) c
        rw [hr] at this
        exact this h

/-- number of blocks of `chunks` = the Go count -/
theorem chunks_length (bs : Nat) (hbs : 1 ≤ bs) : ∀ (fuel : Nat) (l : List KV), l.length ≤ fuel →
    (chunks bs fuel l).length = numBlocksGo l.length bs
  | 0, l, h => by
    have : l = [] := List.eq_nil_of_length_eq_zero (by omega)
    subst this; simp [chunks, numBlocksGo_zero]
  | fuel + 1, [], _ => by simp [chunks, numBlocksGo_zero]
  | fuel + 1, k :: ks, h => by
    simp only [chunks, List.length_cons]
    by_cases hfull : bs ≤ (k :: ks).length
    · rw [chunks_length bs hbs fuel _ (by simp only [List.length_drop, List.length_cons] at *; omega)]
      have := numBlocksGo_step hbs hfull
      simp only [List.length_cons, List.length_drop] at this ⊢
      omega
    · have hd : (k :: ks).drop bs = [] := List.drop_eq_nil_of_le (by omega)
      rw [hd, chunks_nil]
      have h1 := numBlocksGo_small (n := (k :: ks).length) (bs := bs) (by simp) (by omega)
      rw [List.length_cons] at h1
      rw [h1]; rfl

end LinVerif.Lemmas.C20
