/-
Lemmas for the C08 side model `WalOpen` (concurrent first opens of one write-ahead-log partition).
-/
import LinVerif.Model.Replication

namespace LinVerif.Lemmas.C08Wal
open LinVerif.Replication LinVerif.Replication.WalOpen

theorem get_set_cases {l : List Pc} {i j : Nat} {v p : Pc} (h : (l.set i v)[j]? = some p) :
    (j = i ∧ p = v) ∨ l[j]? = some p := by
  rw [List.getElem?_set] at h
  split at h
  · split at h
    · left; constructor
      · omega
      · injection h with h; exact h.symm
    · cases h
  · right; exact h

theorem get_map_wake {l : List Pc} {j : Nat} {p : Pc} (h : (l.map wake)[j]? = some p) :
    p ≠ .blocked ∧ (l[j]? = some p ∨ (p = .done ∧ l[j]? = some .blocked)) := by
  rw [List.getElem?_map] at h
  cases hj : l[j]? with
  | none => rw [hj] at h; cases h
  | some q =>
    rw [hj] at h
    cases q <;> simp [wake] at h <;> subst h <;> simp

/-- What holds of `WalOpen` in the tree's shape (mutex held from the lookup to the store), whatever the schedule. -/
structure WInv (w : W) : Prop where
  le1 : w.inOpen ≤ 1
  held : ∀ i : Nat, w.pcs[i]? = some Pc.held → w.inOpen = 1 ∧ w.cached = false
  uniq : ∀ i j : Nat, w.pcs[i]? = some Pc.held → w.pcs[j]? = some Pc.held → i = j
  fresh : w.cached = false → w.parts = 0 ∧ w.opens = w.inOpen
  stored : w.cached = true → w.parts = 1 ∧ w.opens = 1 ∧ w.inOpen = 0
  blocked : ∀ i : Nat, w.pcs[i]? = some Pc.blocked → w.inOpen = 1
  done : ∀ i : Nat, w.pcs[i]? = some Pc.done → w.cached = true
  fol : w.fol ≤ w.app

theorem inv_init (n : Nat) : WInv (W.init n) := by
  have hr : ∀ (i : Nat) (p : Pc), (List.replicate n Pc.idle)[i]? = some p → p = Pc.idle := by
    intro i p h
    rw [List.getElem?_replicate] at h
    split at h
    · injection h with h; exact h.symm
    · cases h
  exact {
    le1 := Nat.zero_le _
    held := fun i hi => by have := hr _ _ hi; cases this
    uniq := fun i _ hi _ => by have := hr _ _ hi; cases this
    fresh := fun _ => ⟨rfl, rfl⟩
    stored := fun hc => by cases hc
    blocked := fun i hi => by have := hr _ _ hi; cases this
    done := fun i hi => by have := hr _ _ hi; cases this
    fol := Nat.le_refl _ }

theorem inv_step (w : W) (s : Step) (h : WInv w) : WInv (WalOpen.step true w s) := by
  cases s with
  | call i =>
    simp only [WalOpen.step]
    split
    · split
      · -- cached: done
        rename_i hc
        have hs := h.stored hc
        constructor
        · exact h.le1
        · intro j hj; rcases get_set_cases hj with ⟨_, hh⟩ | hh
          · cases hh
          · exact h.held j hh
        · intro a b ha hb
          rcases get_set_cases ha with ⟨_, hh⟩ | ha'
          · cases hh
          rcases get_set_cases hb with ⟨_, hh⟩ | hb'
          · cases hh
          exact h.uniq a b ha' hb'
        · exact h.fresh
        · exact h.stored
        · intro j hj; rcases get_set_cases hj with ⟨_, hh⟩ | hh
          · cases hh
          · exact h.blocked j hh
        · intro j hj; exact hc
        · exact h.fol
      · rename_i hc
        have hc' : w.cached = false := by cases hcc : w.cached <;> simp_all
        split
        · -- blocked behind the open
          rename_i hb
          have hpos : 0 < w.inOpen := by simpa using hb
          have h1 : w.inOpen = 1 := by have := h.le1; omega
          constructor
          · exact h.le1
          · intro j hj; rcases get_set_cases hj with ⟨_, hh⟩ | hh
            · cases hh
            · exact h.held j hh
          · intro a b ha hb
            rcases get_set_cases ha with ⟨_, hh⟩ | ha'
            · cases hh
            rcases get_set_cases hb with ⟨_, hh⟩ | hb'
            · cases hh
            exact h.uniq a b ha' hb'
          · exact h.fresh
          · exact h.stored
          · intro j hj; exact h1
          · intro j hj; rcases get_set_cases hj with ⟨_, hh⟩ | hh
            · cases hh
            · exact h.done j hh
          · exact h.fol
        · -- enters the open
          rename_i hb
          have h0 : w.inOpen = 0 := by
            have : ¬ (0 < w.inOpen) := by simpa using hb
            omega
          have nohold : ∀ j : Nat, w.pcs[j]? = some Pc.held → False := by
            intro j hj; have := (h.held j hj).1; omega
          have hf := h.fresh hc'
          constructor
          · show w.inOpen + 1 ≤ 1; omega
          · intro j hj; exact ⟨by show w.inOpen + 1 = 1; omega, hc'⟩
          · intro a b ha hb
            rcases get_set_cases ha with ⟨ha1, _⟩ | ha'
            · rcases get_set_cases hb with ⟨hb1, _⟩ | hb'
              · omega
              · exact (nohold b hb').elim
            · exact (nohold a ha').elim
          · intro _; exact ⟨hf.1, by show w.opens + 1 = w.inOpen + 1; omega⟩
          · intro hcc; rw [hc'] at hcc; cases hcc
          · intro j hj; rcases get_set_cases hj with ⟨_, hh⟩ | hh
            · cases hh
            · have := h.blocked j hh; omega
          · intro j hj; rcases get_set_cases hj with ⟨_, hh⟩ | hh
            · cases hh
            · exact h.done j hh
          · exact h.fol
    · exact h
  | go i =>
    simp only [WalOpen.step]
    split
    · rename_i hi
      have ⟨h1, hc⟩ := h.held i hi
      have hf := h.fresh hc
      have hle : w.inOpen ≤ 1 := h.le1
      simp only [hle, if_true]
      have nohold : ∀ (j : Nat) (p : Pc), ((w.pcs.set i .done).map wake)[j]? = some p → p ≠ Pc.held ∧ p ≠ Pc.blocked := by
        intro j p hj
        have ⟨hnb, hor⟩ := get_map_wake hj
        refine ⟨?_, hnb⟩
        intro hp; subst hp
        rcases hor with hor | ⟨hh, _⟩
        · rcases get_set_cases hor with ⟨_, hh⟩ | hh
          · cases hh
          · have := h.uniq i j hi hh
            subst this
            have : (w.pcs.set i Pc.done)[i]? = some Pc.done := by
              have hlt : i < w.pcs.length := by
                rcases Nat.lt_or_ge i w.pcs.length with hlt | hge
                · exact hlt
                · have : w.pcs[i]? = none := List.getElem?_eq_none hge
                  rw [this] at hi; cases hi
              simp [hlt]
            rw [this] at hor; cases hor
        · cases hh
      constructor
      · show w.inOpen - 1 ≤ 1; omega
      · intro j hj; exact ((nohold j _ hj).1 rfl).elim
      · intro a b ha _; exact ((nohold a _ ha).1 rfl).elim
      · intro hcc; cases hcc
      · intro _; exact ⟨by show w.parts + 1 = 1; omega, by show w.opens = 1; omega, by show w.inOpen - 1 = 0; omega⟩
      · intro j hj; exact ((nohold j _ hj).2 rfl).elim
      · intro j hj; rfl
      · exact h.fol
    · exact h
  | write i =>
    simp only [WalOpen.step]
    split
    · exact { h with fol := by show w.fol ≤ w.app + 1; have := h.fol; omega }
    · exact h
  | drain =>
    simp only [WalOpen.step]
    split
    · exact { h with fol := by show w.app ≤ w.app; omega }
    · exact h

theorem inv_run (n : Nat) (ss : List Step) : WInv (WalOpen.run true n ss) := by
  unfold WalOpen.run
  suffices ∀ w, WInv w → WInv (ss.foldl (WalOpen.step true) w) from this _ (inv_init n)
  induction ss with
  | nil => intro w h; exact h
  | cons s ss ih => intro w h; exact ih _ (inv_step w s h)

end LinVerif.Lemmas.C08Wal
