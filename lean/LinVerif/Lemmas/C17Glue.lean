/-
Helper lemmas for C17, round 8: decoding into an existing receiver / on a worker with history,
the parser glue (`parseDuration`'s overflow guard, the where-condition stack machine). Core only.
-/
import LinVerif.Lemmas.C17
import LinVerif.Model.StmtGlue

namespace LinVerif.Stmt
open LinVerif.Json

/-! ## receivers and workers -/

theorem unmarshalOptInto_nil (raw : Option Json) : unmarshalOptInto .nil raw = unmarshalOpt raw := by
  cases raw <;> rfl

theorem unmarshalQueryInto_fresh (recv : Query) (hc : recv.condition = .nil) (hh : recv.having = .nil)
    (j : Json) : unmarshalQueryInto recv j = unmarshalQuery j := by
  simp only [unmarshalQueryInto, unmarshalQuery, hc, hh, unmarshalOptInto_nil]

theorem unmarshalMetadataInto_fresh (recv : Metadata) (hc : recv.condition = .nil) (j : Json) :
    unmarshalMetadataInto recv j = unmarshalMetadata j := by
  simp only [unmarshalMetadataInto, unmarshalMetadata, hc, unmarshalOptInto_nil]

theorem worker_run_fresh (w : Worker) (ps : List Json) :
    Worker.run .fresh w ps = ps.map unmarshalQuery := by
  induction ps generalizing w with
  | nil => rfl
  | cons p ps ih =>
    simp only [Worker.run, Worker.decode, List.map_cons, ih]
    rw [unmarshalQueryInto_fresh zeroQ rfl rfl]

/-! ## `parseDuration` -/

/-- Go's truncating quotient pins the dividend to within one divisor -/
theorem tdiv_bounds (r u d : Int) (hu : 0 < u) (h : r.tdiv u = d) :
    d * u - u < r ∧ r < d * u + u := by
  have h1 := Int.tmod_add_tdiv_mul r u
  have h2 : r.tmod u < u := Int.tmod_lt_of_pos r hu
  have h3 : -u < r.tmod u := by
    have := Int.tmod_lt_of_pos (-r) hu
    rw [Int.neg_tmod] at this
    omega
  rw [h] at h1
  omega

theorem wrap64_range (x : Int) : minInt64 ≤ wrap64 x ∧ wrap64 x ≤ maxInt64 := by
  unfold wrap64 minInt64 maxInt64; omega

theorem wrap64_of_range (x : Int) (h : minInt64 ≤ x ∧ x ≤ maxInt64) : wrap64 x = x := by
  unfold wrap64; unfold minInt64 maxInt64 at h; omega

/-- the guard `result/unitVal != duration` is exact for a unit below 2^63: it passes iff the
product did not wrap -/
theorem wrap_guard (d u : Int) (hu : 0 < u) (hu' : u ≤ maxInt64) (h : (wrap64 (d * u)).tdiv u = d) :
    wrap64 (d * u) = d * u := by
  have hb := tdiv_bounds _ u d hu h
  generalize d * u = p at *
  unfold wrap64 at *
  unfold maxInt64 at hu'
  omega

/-! ## the where-condition stack machine -/

theorem tagRun_append (st : TagState) (a b : List TagEv) :
    tagRun st (a ++ b) = tagRun (tagRun st a) b := by
  simp [tagRun, List.foldl_append]

theorem tagRun_cons (st : TagState) (e : TagEv) (es : List TagEv) :
    tagRun st (e :: es) = tagRun (tagStep st e) es := rfl

theorem tagRun_values (top : Expr) (rest : List Expr) (c : Expr) (vs : List String) :
    tagRun ⟨top :: rest, c⟩ (vs.map .value) = ⟨vs.foldl visitTagValueOn top :: rest, c⟩ := by
  induction vs generalizing top with
  | nil => rfl
  | cons v vs ih => simp only [List.map_cons, tagRun_cons, tagStep, List.foldl_cons, ih]

/-- an atomic tag filter: `=`, `like`, `=~`, `in`, or the negation of one -/
def filterShape : Expr → Bool
  | .equals _ _ | .like _ _ | .regex _ _ | .inE _ _ => true
  | .not (.equals _ _) | .not (.like _ _) | .not (.regex _ _) | .not (.inE _ _) => true
  | _ => false

theorem createTagFilter_shape (k : AtomKind) (key : String) : filterShape (createTagFilter k key) = true := by
  cases k <;> rfl

theorem visitTagValueOn_shape (e : Expr) (v : String) (h : filterShape e = true) :
    filterShape (visitTagValueOn e v) = true := by
  cases e with
  | not x => cases x <;> simp_all [filterShape, visitTagValueOn, setTagValue]
  | _ => simp_all [filterShape, visitTagValueOn, setTagValue]

theorem atomExpr_shape (k : AtomKind) (key : String) (vs : List String) :
    filterShape (atomExpr k key vs) = true := by
  unfold atomExpr
  generalize hs : createTagFilter k key = e
  have he : filterShape e = true := hs ▸ createTagFilter_shape k key
  clear hs
  induction vs generalizing e with
  | nil => exact he
  | cons v vs ih => exact ih _ (visitTagValueOn_shape e v he)

theorem filterShape_isTagFilter (e : Expr) (h : filterShape e = true) : e.isTagFilter = true := by
  cases e with
  | not x => cases x <;> simp_all [filterShape, Expr.isTagFilter]
  | _ => simp_all [filterShape, Expr.isTagFilter]

theorem filterShape_wellFormed (e : Expr) (h : filterShape e = true) : e.wellFormed = true := by
  cases e with
  | not x => cases x <;> simp_all [filterShape, Expr.wellFormed]
  | _ => simp_all [filterShape, Expr.wellFormed]

theorem filterShape_ne_nil (e : Expr) (h : filterShape e = true) : e ≠ .nil := by
  intro hn; subst hn; simp [filterShape] at h

theorem denote_ne_nil (c : Cond) : c.denote ≠ .nil := by
  cases c with
  | atom k key vs => exact filterShape_ne_nil _ (atomExpr_shape k key vs)
  | paren c => simp [Cond.denote]
  | bin op l r => simp [Cond.denote]

theorem denote_wellFormed (c : Cond) : c.denote.wellFormed = true := by
  induction c with
  | atom k key vs => exact filterShape_wellFormed _ (atomExpr_shape k key vs)
  | paren c ih => simpa [Cond.denote, Expr.wellFormed] using ih
  | bin op l r ihl ihr => simp [Cond.denote, Expr.wellFormed, ihl, ihr]

theorem attachTo_binary_right (l e : Expr) (op : Int) (h : l ≠ .nil) :
    attachTo (.binary l .nil op) e = .binary l e op := by
  cases l <;> simp_all [attachTo]

theorem attachTo_binary_left (e : Expr) (op : Int) :
    attachTo (.binary .nil .nil op) e = .binary e .nil op := rfl

/-- the listener's stack machine over the walk of ANY derivation: the node on top of the stack gets
the derivation's tree as its next free child, the rest of the stack is untouched, and `condition`
is the derivation's tree -/
theorem tagRun_walk (c : Cond) : ∀ (s : List Expr) (cond : Expr),
    tagRun ⟨s, cond⟩ c.walk = ⟨attach s c.denote, c.denote⟩ := by
  induction c with
  | atom k key vs =>
    intro s cond
    simp only [Cond.walk, tagRun_cons, tagStep, tagRun_append, tagRun_values]
    rfl
  | paren c ih =>
    intro s cond
    simp only [Cond.walk, tagRun_cons, tagStep, tagRun_append, ih]
    simp [tagRun, attach, attachTo, Cond.denote]
  | bin op l r ihl ihr =>
    intro s cond
    simp only [Cond.walk, tagRun_cons, tagStep, tagRun_append, ihl, ihr, attach, attachTo_binary_left,
      attachTo_binary_right _ _ _ (denote_ne_nil l)]
    simp [tagRun, Cond.denote]

end LinVerif.Stmt
