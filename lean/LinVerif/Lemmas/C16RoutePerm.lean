/-
C16 — list lemma behind `Props.C16.route_group_is_key_class` / `route_permutation_invariant`: in a list whose
elements carry pairwise different keys, a `flatMap` that vanishes off one key is the image of the one
element with that key.
-/
namespace LinVerif.Lemmas.C16

theorem flatMap_single_key {α β κ : Type} (key : α → κ) (f : α → List β) (l : List α)
    (hp : l.Pairwise (fun a b => key a ≠ key b)) (g : α) (hg : g ∈ l)
    (hf : ∀ a ∈ l, key a ≠ key g → f a = []) : l.flatMap f = f g := by
  induction l with
  | nil => cases hg
  | cons a t ih =>
    rw [List.pairwise_cons] at hp
    rw [List.flatMap_cons]
    rcases List.mem_cons.1 hg with rfl | hgt
    · have ht : t.flatMap f = [] := by
        rw [List.flatMap_eq_nil_iff]
        intro b hb
        exact hf b (List.mem_cons_of_mem _ hb) (fun e => hp.1 b hb e.symm)
      rw [ht, List.append_nil]
    · have ha : f a = [] := hf a List.mem_cons_self (hp.1 g hgt)
      rw [ha, List.nil_append]
      exact ih hp.2 hgt (fun b hb => hf b (List.mem_cons_of_mem _ hb))

end LinVerif.Lemmas.C16
