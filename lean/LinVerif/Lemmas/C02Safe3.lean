/-
C02: preservation of `Safe` by the deleteObsoleteFiles steps, and the main preservation theorem.
-/
import LinVerif.Lemmas.C02Safe2
set_option linter.unusedSimpArgs false
set_option linter.unusedVariables false

namespace LinVerif.Lemmas.C02
open LinVerif.VersionSet LinVerif.TableCache

theorem safe_doList {s : St} {j : Nat} (h : Safe s) (hj : j < s.nJob) (hpc : (s.job j).pc = .doStart) :
    Safe (doList s j) := by
  unfold doList
  apply safe_setJob h
  · obtain ⟨h0, hn0, hn0b, hn0c, hn1, hn2, h1, h2, h3, h4, h5, h6, h7, h8, h9, h10, hrec, hnf, hrd, h11, h12, h13, h14⟩ := h.jobs j hj
    have hd := h.file_bound.2.2.2
    have hs := @mem_sortNat
    generalize s.job j = b at *
    obtain ⟨kind, pc, payload, snap, inputs, trivial, todoIn, out, edit, csnap, newVer, prev, prevZero, nfRead, dlist, live, todoDel⟩ := b
    simp only at hpc; subst hpc
    jobok_at
  · left; rfl

theorem safe_doPend {s : St} {j : Nat} (h : Safe s) (hj : j < s.nJob) (hpc : (s.job j).pc = .doListed) :
    Safe (doPend s j) := by
  unfold doPend
  apply safe_setJob h
  · obtain ⟨h0, hn0, hn0b, hn0c, hn1, hn2, h1, h2, h3, h4, h5, h6, h7, h8, h9, h10, hrec, hnf, hrd, h11, h12, h13, h14⟩ := h.jobs j hj
    generalize s.job j = b at *
    obtain ⟨kind, pc, payload, snap, inputs, trivial, todoIn, out, edit, csnap, newVer, prev, prevZero, nfRead, dlist, live, todoDel⟩ := b
    simp only at hpc; subst hpc
    jobok_at
  · left; rfl

theorem safe_doActive {s : St} {j : Nat} (h : Safe s) (hj : j < s.nJob) (hpc : (s.job j).pc = .doPended) :
    Safe (doActive s j) := by
  unfold doActive
  apply safe_setJob h
  · obtain ⟨h0, hn0, hn0b, hn0c, hn1, hn2, h1, h2, h3, h4, h5, h6, h7, h8, h9, h10, hrec, hnf, hrd, h11, h12, h13, h14⟩ := h.jobs j hj
    generalize s.job j = b at *
    obtain ⟨kind, pc, payload, snap, inputs, trivial, todoIn, out, edit, csnap, newVer, prev, prevZero, nfRead, dlist, live, todoDel⟩ := b
    simp only at hpc; subst hpc
    constructor <;>
      simp only [compactOnly, preAlloc, outPending, outOnDisk, inCommit, ownRange, csnapRange, editRange, delRange, postSwap,
        PastPending, Dead, DeadR, outNo, List.mem_append, List.mem_flatMap] at * <;> grind
  · left; rfl

theorem safe_doRollup {s : St} {j : Nat} (h : Safe s) (hj : j < s.nJob) (hpc : (s.job j).pc = .doActived) :
    Safe (doRollup s j) := by
  unfold doRollup
  dsimp only
  apply safe_setJob h
  · obtain ⟨h0, hn0, hn0b, hn0c, hn1, hn2, h1, h2, h3, h4, h5, h6, h7, h8, h9, h10, hrec, hnf, hrd, h11, h12, h13, h14⟩ := h.jobs j hj
    generalize s.job j = b at *
    obtain ⟨kind, pc, payload, snap, inputs, trivial, todoIn, out, edit, csnap, newVer, prev, prevZero, nfRead, dlist, live, todoDel⟩ := b
    simp only at hpc; subst hpc
    constructor <;>
      simp only [compactOnly, preAlloc, outPending, outOnDisk, inCommit, ownRange, csnapRange, editRange, delRange, postSwap,
        PastPending, Dead, DeadR, outNo, List.mem_filter, List.mem_append, List.contains_eq_mem, Bool.not_eq_true',
        decide_eq_false_iff_not] at * <;> grind
  · left; rfl

theorem safe_doEvict {s : St} {j : Nat} {f : Nat} {rest : List Nat} (h : Safe s) (hj : j < s.nJob)
    (hpc : (s.job j).pc = .doRolled ∨ (s.job j).pc = .doRemoved) (htodo : (s.job j).todoDel = f :: rest) :
    Safe (doEvict s j f) := by
  unfold doEvict
  have hb0 := h.jobs j hj
  have hd : DeadR s f := hb0.deleting (by rcases hpc with hpc | hpc <;> rw [hpc] <;> rfl) f (by simp [htodo])
  have h1 : Safe (setPc s j .doEvicted) := by
    apply safe_setPc_plain h
    obtain ⟨h0, hn0, hn0b, hn0c, hn1, hn2, h1, h2, h3, h4, h5, h6, h7, h8, h9, h10, hrec, hnf, hrd, h11, h12, h13, h14⟩ := hb0
    generalize s.job j = b at *
    obtain ⟨kind, pc, payload, snap, inputs, trivial, todoIn, out, edit, csnap, newVer, prev, prevZero, nfRead, dlist, live, todoDel⟩ := b
    simp only at hpc
    rcases hpc with hpc | hpc <;> subst hpc <;> jobok_at
  exact safe_evict h1 (by simpa [setPc, St.setJob, Dead] using hd.1)

theorem safe_doRemove {s : St} {j : Nat} {f : Nat} {rest : List Nat} (h : Safe s) (hj : j < s.nJob)
    (hpc : (s.job j).pc = .doEvicted) (htodo : (s.job j).todoDel = f :: rest) :
    Safe (doRemove s j f rest) := by
  unfold doRemove
  have hb0 := h.jobs j hj
  have hd : DeadR s f := hb0.deleting (by rw [hpc]; rfl) f (by simp [htodo])
  have h1 : Safe (s.setJob j { s.job j with todoDel := rest, pc := .doRemoved }) := by
    apply safe_setJob h
    · obtain ⟨h0, hn0, hn0b, hn0c, hn1, hn2, h1, h2, h3, h4, h5, h6, h7, h8, h9, h10, hrec, hnf, hrd, h11, h12, h13, h14⟩ := hb0
      generalize s.job j = b at *
      obtain ⟨kind, pc, payload, snap, inputs, trivial, todoIn, out, edit, csnap, newVer, prev, prevZero, nfRead, dlist, live, todoDel⟩ := b
      simp only at hpc htodo; subst hpc htodo
      jobok_at
    · left; rfl
  exact safe_removeFile h1 (by simpa [St.setJob, Dead, DeadR] using hd)

theorem safe_jFinish {s : St} {j : Nat} (h : Safe s) (hj : j < s.nJob)
    (hpc : (s.job j).pc = .doRolled ∨ (s.job j).pc = .doRemoved) : Safe (jFinish s j) := by
  unfold jFinish
  apply safe_setCompacting
  apply safe_setPc_plain h
  obtain ⟨h0, hn0, hn0b, hn0c, hn1, hn2, h1, h2, h3, h4, h5, h6, h7, h8, h9, h10, hrec, hnf, hrd, h11, h12, h13, h14⟩ := h.jobs j hj
  generalize s.job j = b at *
  obtain ⟨kind, pc, payload, snap, inputs, trivial, todoIn, out, edit, csnap, newVer, prev, prevZero, nfRead, dlist, live, todoDel⟩ := b
  simp only at hpc
  rcases hpc with hpc | hpc <;> subst hpc <;> jobok_at

theorem safe_startDelObs {s : St} {j : Nat} (h : Safe s) (hj : j < s.nJob) (hpc : (s.job j).pc = .start)
    (hk : (s.job j).kind = .delObs) : Safe (setPc s j .doStart) := by
  apply safe_setPc_plain h
  obtain ⟨h0, hn0, hn0b, hn0c, hn1, hn2, h1, h2, h3, h4, h5, h6, h7, h8, h9, h10, hrec, hnf, hrd, h11, h12, h13, h14⟩ := h.jobs j hj
  generalize s.job j = b at *
  obtain ⟨kind, pc, payload, snap, inputs, trivial, todoIn, out, edit, csnap, newVer, prev, prevZero, nfRead, dlist, live, todoDel⟩ := b
  simp only at hpc hk; subst hpc hk
  jobok_at


/-- the other families' moves on the shared counters (`Act.env`): both counters only grow, and no
job of this family holds the version-set mutex (so none is between reading and storing the counter) -/
theorem safe_envBump {s : St} (df dv : Nat) (h : Safe s) (hl : s.lock = none) : Safe (envBump s df dv) := by
  obtain ⟨a1, a2, a3, a4, b1, b2, b3, bj, bd, c1, c2, c3, c4, d1⟩ := h
  constructor
  case jobs =>
    intro k hk
    obtain ⟨h0, hn0, hn0b, hn0c, hn1, hn2, h1, h2, h3, h4, h5, h6, h7, h8, h9, h10, hrec, hnf, hrd, h11, h12, h13, h14⟩ := bj k hk
    have hnl : (s.job k).pc ≠ .cLocked := by
      intro hpc
      have := h4 (by rw [hpc]; rfl)
      rw [hl] at this; cases this
    constructor <;> simp only [envBump, PastPending, Dead, DeadR] at * <;> grind
  case ver_bound => simp only [envBump] at *; grind
  case file_bound => simp only [envBump] at *; grind
  case held_dead => simp only [envBump, Dead] at *; grind
  all_goals (simp only [envBump, PastPending, Dead, DeadR] at *; assumption)

theorem safe_jstep {cfg : Cfg} {s s' : St} {j : Nat} (hr : cfg.recheck = true) (hcl : cfg.cloneLocked = true)
    (hal : cfg.allocLocked = true) (hpf : cfg.pendFirst = true) (hlf : cfg.listFirst = true) (h : Safe s)
    (hs : jstep cfg s j = some s') : Safe s' := by
  unfold jstep at hs
  simp only [hpf, hlf, ↓reduceIte] at hs
  split at hs
  case isFalse => cases hs
  case isTrue hj =>
  try dsimp only at hs
  split at hs
  case h_1 hpc => -- start
    split at hs
    · split at hs
      · next hg => cases hs; exact safe_jAlloc _ _ h hj (Or.inl ⟨hpc, by assumption⟩) (hg hal)
      · cases hs
    · split at hs
      · cases hs
      · cases hs; exact safe_jStartCompact h hj hpc (by assumption)
    · cases hs; exact safe_startRollup h hj hpc (Or.inl (by assumption))
    · cases hs; exact safe_startDelObs h hj hpc (by assumption)
    · cases hs; exact safe_startRollup h hj hpc (Or.inr (by assumption))
  case h_2 hpc => cases hs; exact safe_jPicked h hj hpc
  case h_3 hpc => cases hs; exact safe_jRead h hj hpc
  case h_4 hpc =>
    split at hs
    · next hg => cases hs; exact safe_jAlloc _ _ h hj (Or.inr hpc) (hg hal)
    · cases hs
  case h_5 hpc => cases hs; exact safe_jCreate h hj hpc
  case h_6 hpc =>
    split at hs
    · cases hs; exact safe_readyEmpty h hj hpc (by assumption)
    · split at hs
      · cases hs; exact safe_jLock h hj hpc (by assumption)
      · cases hs
  case h_7 hpc => exact absurd hpc (h.jobs j hj).notCloned
  case h_8 hpc => cases hs; exact safe_jSnap h hj hpc
  case h_9 hpc => cases hs; exact safe_jSwap h hj hpc
  case h_10 hpc => cases hs; exact safe_jCheck h hj hpc
  case h_11 hpc => cases hs; exact safe_jPrevRm hr h hj hpc
  case h_12 hpc =>
    split at hs
    · cases hs; exact safe_cDec h hj hpc (by assumption)
    · cases hs
  case h_13 hpc =>
    split at hs
    · cases hs; exact safe_cRemove hr h hj hpc _ (by assumption)
    · cases hs
  case h_14 hpc =>
    split at hs
    · cases hs; exact safe_cRel h hj hpc (by assumption)
    · cases hs
  case h_15 hpc => cases hs; exact safe_jUnlock h hj hpc
  case h_16 hpc =>
    split at hs
    · cases hs; exact safe_jUnpend _ h hj hpc (Or.inr (Or.inr ⟨rfl, by assumption⟩))
    · cases hs; exact safe_jUnpend _ h hj hpc (Or.inr (Or.inl rfl))
    · cases hs; exact safe_jUnpend _ h hj hpc (Or.inl rfl)
  case h_17 hpc =>
    split at hs
    · cases hs; exact safe_oDec h hj hpc (by assumption)
    · cases hs
  case h_18 hpc =>
    split at hs
    · cases hs; exact safe_oRemove hr h hj hpc _ (by assumption)
    · cases hs
  case h_19 hpc =>
    split at hs
    · cases hs; exact safe_oRel h hj hpc (by assumption)
    · cases hs
  case h_20 hpc => cases hs; exact safe_doList h hj hpc
  case h_21 hpc => cases hs; exact safe_doPend h hj hpc
  case h_22 hpc => cases hs; exact safe_doActive h hj hpc
  case h_23 hpc => cases hs; exact safe_doRollup h hj hpc
  case h_24 hpc =>
    split at hs
    · cases hs; exact safe_jFinish h hj (Or.inl hpc)
    · cases hs; exact safe_doEvict h hj (Or.inl hpc) (by assumption)
  case h_25 hpc =>
    split at hs
    · cases hs; exact safe_jFinish h hj (Or.inr hpc)
    · cases hs; exact safe_doEvict h hj (Or.inr hpc) (by assumption)
  case h_26 hpc =>
    split at hs
    · cases hs
    · cases hs; exact safe_doRemove h hj hpc (by assumption)
  case h_27 hpc => cases hs
  case h_28 hpc => exact absurd hpc (h.jobs j hj).notCreatedU
  case h_29 hpc => exact absurd hpc (h.jobs j hj).notLiveL


theorem readerSnap_spec {s : St} {i : Nat} (h : readerSnap s i = true) :
    i < s.nSnap ∧ (s.snap i).owner = none := by
  simp only [readerSnap, Bool.and_eq_true, decide_eq_true_eq, Option.isNone_iff_eq_none] at h
  exact h

theorem reader_not_own {s : St} {i : Nat} (h : Safe s) (ho : (s.snap i).owner = none) :
    ∀ k, k < s.nJob → (s.job k).kind = .compact → ownRange (s.job k).pc = true → (s.job k).snap ≠ i := by
  intro k hk hc hr heq
  have := ((h.jobs k hk).own hc hr).2.2
  rw [heq, ho] at this
  cases this

/-- every atomic step of the model preserves `Safe` when removeVersion re-checks the refcount -/
theorem safe_step {cfg : Cfg} {s s' : St} {a : Act} (hr : cfg.recheck = true) (hcl : cfg.cloneLocked = true)
    (hal : cfg.allocLocked = true) (hfe : cfg.findErrReleases = false) (hpf : cfg.pendFirst = true)
    (hcc : cfg.closeCAS = true) (hga : cfg.getReaderAtomic = true) (hlf : cfg.listFirst = true) (h : Safe s)
    (hs : step cfg s a = some s') : Safe s' := by
  cases a with
  | acquire => simp only [step] at hs; cases hs; exact safe_acquire none h
  | getReader i f =>
    simp only [step] at hs
    split at hs
    next hc =>
      cases hs
      simp only [Bool.and_eq_true, decide_eq_true_eq, List.contains_eq_mem] at hc
      obtain ⟨⟨hrs, ho⟩, hf⟩ := hc
      exact safe_getReader true h (readerSnap_spec hrs).1 ho hf
    next => cases hs
  | loadFile i f =>
    simp only [step] at hs
    split at hs
    next hc =>
      cases hs
      simp only [Bool.and_eq_true, decide_eq_true_eq, List.contains_eq_mem] at hc
      obtain ⟨⟨hrs, ho⟩, hf⟩ := hc
      exact safe_getReader false h (readerSnap_spec hrs).1 ho hf
    next => cases hs
  | sDec i =>
    simp only [step] at hs
    split at hs
    next hc =>
      cases hs
      simp only [Bool.and_eq_true, decide_eq_true_eq] at hc
      obtain ⟨hrs, ho⟩ := hc
      obtain ⟨hi, hown⟩ := readerSnap_spec hrs
      exact safe_dec h hi ho (reader_not_own h hown)
    next => cases hs
  | sRemove i =>
    simp only [step] at hs
    split at hs
    next hrs =>
      split at hs
      next z hst =>
        cases hs
        exact safe_snapRemove hr z h (readerSnap_spec hrs).1 (by rw [hst]; simp)
      next => cases hs
    next => cases hs
  | sRel i =>
    simp only [step] at hs
    split at hs
    next hc =>
      cases hs
      simp only [Bool.and_eq_true, decide_eq_true_eq] at hc
      obtain ⟨hrs, ho⟩ := hc
      exact safe_rel h (readerSnap_spec hrs).1 (by rw [ho]; simp)
    next => cases hs
  | spawn k p => simp only [step] at hs; cases hs; exact safe_spawn k p h
  | jstep j => exact safe_jstep hr hcl hal hpf hlf h hs
  | cleanup fs =>
    simp only [step] at hs
    split at hs
    next hc => cases hs; exact safe_cleanup h hc
    next => cases hs
  | findErrRelease i fs =>
    simp only [step, hfe, Bool.false_and, Bool.false_eq_true, if_false] at hs
    cases hs
  | sDec2 i =>
    simp only [step, hcc, Bool.not_true, Bool.false_and, Bool.false_eq_true, if_false] at hs
    cases hs
  | getReaderNoRetain i f =>
    simp only [step, hga, Bool.not_true, Bool.false_and, Bool.false_eq_true, if_false] at hs
    cases hs
  | env df dv =>
    simp only [step] at hs
    split at hs
    next hl => cases hs; exact safe_envBump df dv h hl
    next => cases hs

theorem safe_reachable {cfg : Cfg} {v0 f0 : Nat} {s : St} (hr : cfg.recheck = true) (hcl : cfg.cloneLocked = true)
    (hal : cfg.allocLocked = true) (hfe : cfg.findErrReleases = false) (hpf : cfg.pendFirst = true)
    (hcc : cfg.closeCAS = true) (hga : cfg.getReaderAtomic = true) (hlf : cfg.listFirst = true) (h : Reachable cfg v0 f0 s) : Safe s := by
  induction h with
  | init => exact safe_init v0 f0
  | step a _ hs ih => exact safe_step hr hcl hal hfe hpf hcc hga hlf ih hs

end LinVerif.Lemmas.C02
