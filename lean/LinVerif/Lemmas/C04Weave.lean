/-
C04 — flushes committed WHILE a rollup job of the same store runs (interleaving at the granularity of
committed edit-log records, the model's atomic steps).

`family.rollup()` takes `rollupMap := GetLiveRollupFiles()` ONCE at its start; every later step reads
only (a) that snapshot, (b) the target's references, (c) whether a file OF THE SNAPSHOT is in level 0.
A flush commits one record: a NEW file number in level 0 plus its rollup entries. So
* the job commits the same records whether or not flushes were committed between any two of its
  steps (`mergeRec_flush`, `tPhase_flush_insensitive`), and
* every interleaving of the job's records with flush records ends in the state of "job, then the
  flushes" (`weave_serializes`), every crash prefix of an interleaving is an interleaving of prefixes
  (`Weave.take`).
-/
import LinVerif.Lemmas.C04Once

namespace LinVerif.Lemmas.C04
open LinVerif.Rollup

/-- `out` is an interleaving of the job's records `rs` and the flush records `fs` (both in order) -/
inductive Weave : List Rec → List Rec → List Rec → Prop
  | nil : Weave [] [] []
  | job (r : Rec) {rs fs out : List Rec} : Weave rs fs out → Weave (r :: rs) fs (r :: out)
  | flush (f : Rec) {rs fs out : List Rec} : Weave rs fs out → Weave rs (f :: fs) (f :: out)

/-- a record of a rollup job that does not mention file `k` -/
def Indep (k : Key) : Rec → Prop
  | .merge _ _ => True
  | .delRollup ds => ∀ p ∈ ds, p.1 ≠ k
  | .delRef _ _ => True
  | .flush _ _ _ => False
  | .compact _ => False

/-- a flush of a file the record does not mention commutes with the record: literally the same state -/
theorem flush_comm (σ : St) (k : Key) (ne : Bool) (fivs : List Iv) (r : Rec) (h : Indep k r) :
    (σ.apply (.flush k ne fivs)).apply r = (σ.apply r).apply (.flush k ne fivs) := by
  cases r with
  | merge i inputs => rfl
  | delRef i ks => rfl
  | flush _ _ _ => exact absurd h (by simp [Indep])
  | compact _ => exact absurd h (by simp [Indep])
  | delRollup ds =>
    have hnew : (fivs.map (fun i => (k, i))).filter (fun p => decide (p ∉ ds)) = fivs.map (fun i => (k, i)) := by
      apply List.filter_eq_self.2
      intro p hp
      obtain ⟨i, _, rfl⟩ := List.mem_map.1 hp
      simp only [decide_eq_true_eq]
      intro hin
      exact h (k, i) hin rfl
    simp only [St.apply, List.filter_append, hnew]

theorem flush_comm_all (k : Key) (ne : Bool) (fivs : List Iv) (rs : List Rec) (h : ∀ r ∈ rs, Indep k r) :
    ∀ σ : St, (σ.apply (.flush k ne fivs)).applyAll rs = (σ.applyAll rs).apply (.flush k ne fivs) := by
  induction rs with
  | nil => intro σ; rfl
  | cons r rs ih =>
    intro σ
    simp only [St.applyAll, List.foldl_cons]
    rw [flush_comm σ k ne fivs r (h r List.mem_cons_self)]
    exact ih (fun r' hr' => h r' (List.mem_cons_of_mem _ hr')) (σ.apply r)

/-- `f` is a flush record of a file none of the records `rs` mentions -/
def FlushIndep (rs : List Rec) (f : Rec) : Prop :=
  ∃ k ne fivs, f = .flush k ne fivs ∧ ∀ r ∈ rs, Indep k r

/-- **Serialisation.** Every interleaving of a job's records with independent flush records ends in
the state of the job followed by the flushes. -/
theorem weave_serializes {rs fs out : List Rec} (w : Weave rs fs out) :
    (∀ f ∈ fs, FlushIndep rs f) → ∀ σ : St, σ.applyAll out = (σ.applyAll rs).applyAll fs := by
  induction w with
  | nil => intro _ σ; rfl
  | job r w ih =>
    intro h σ
    simp only [St.applyAll, List.foldl_cons]
    apply ih _ (σ.apply r)
    intro f hf
    obtain ⟨k, ne, fivs, e, hi⟩ := h f hf
    exact ⟨k, ne, fivs, e, fun r' hr' => hi r' (List.mem_cons_of_mem _ hr')⟩
  | @flush f rs fs out w ih =>
    intro h σ
    obtain ⟨k, ne, fivs, e, hi⟩ := h f List.mem_cons_self
    have ih' := ih (fun f' hf' => h f' (List.mem_cons_of_mem _ hf')) (σ.apply f)
    simp only [St.applyAll, List.foldl_cons] at ih' ⊢
    rw [ih']
    have := flush_comm_all k ne fivs rs hi σ
    simp only [St.applyAll] at this
    rw [e, this]

/-- a crash prefix of an interleaving is an interleaving of a prefix of the job's records with a prefix
of the flushes -/
theorem Weave.take {rs fs out : List Rec} (w : Weave rs fs out) :
    ∀ n, ∃ a b, Weave (rs.take a) (fs.take b) (out.take n) := by
  induction w with
  | nil => intro n; exact ⟨0, 0, by simpa using Weave.nil⟩
  | job r w ih =>
    intro n
    cases n with
    | zero => exact ⟨0, 0, by simpa using Weave.nil⟩
    | succ n =>
      obtain ⟨a, b, h⟩ := ih n
      exact ⟨a + 1, b, by simpa using Weave.job r h⟩
  | flush f w ih =>
    intro n
    cases n with
    | zero => exact ⟨0, 0, by simpa using Weave.nil⟩
    | succ n =>
      obtain ⟨a, b, h⟩ := ih n
      exact ⟨a, b + 1, by simpa using Weave.flush f h⟩

/-- records of a rollup job: no flush, no compaction -/
def IsJobRec : Rec → Prop
  | .merge _ _ => True
  | .delRollup _ => True
  | .delRef _ _ => True
  | _ => False

theorem apply_registered_job (σ : St) (r : Rec) (h : IsJobRec r) : (σ.apply r).registered = σ.registered := by
  cases r <;> first | rfl | exact absurd h (by simp [IsJobRec])

theorem applyAll_registered_job (rs : List Rec) (h : ∀ r ∈ rs, IsJobRec r) :
    ∀ σ : St, (σ.applyAll rs).registered = σ.registered := by
  induction rs with
  | nil => intro σ; rfl
  | cons r rs ih =>
    intro σ
    simp only [St.applyAll, List.foldl_cons]
    have := ih (fun r' hr' => h r' (List.mem_cons_of_mem _ hr')) (σ.apply r)
    simp only [St.applyAll] at this
    rw [this, apply_registered_job σ r (h r List.mem_cons_self)]

/-- the flushes `fs` hand out file numbers no earlier flush registered (C01: each number once) -/
def FreshFlushes : St → List Rec → Prop
  | _, [] => True
  | σ, f :: fs => (∃ k ne fivs, f = .flush k ne fivs ∧ ∀ p ∈ σ.registered, p.1 ≠ k) ∧ FreshFlushes (σ.apply f) fs

theorem FreshFlushes.take {σ : St} {fs : List Rec} (h : FreshFlushes σ fs) (n : Nat) : FreshFlushes σ (fs.take n) := by
  induction fs generalizing σ n with
  | nil => simp [FreshFlushes]
  | cons f fs ih =>
    cases n with
    | zero => simp [FreshFlushes]
    | succ n => exact ⟨h.1, ih h.2 n⟩

/-- freshness only looks at `registered` -/
theorem FreshFlushes.just {σ τ : St} {fs : List Rec} (h : FreshFlushes σ fs) (e : τ.registered = σ.registered) :
    JustSeq τ fs := by
  induction fs generalizing σ τ with
  | nil => trivial
  | cons f fs ih =>
    obtain ⟨⟨k, ne, fivs, rfl, hk⟩, h2⟩ := h
    refine ⟨?_, ih h2 ?_⟩
    · show ∀ p ∈ τ.registered, p.1 ≠ k
      rw [e]; exact hk
    · simp only [St.apply, e]

/-- a fresh flush list mentions only files that are not registered in `σ` -/
theorem FreshFlushes.key_fresh {σ : St} {fs : List Rec} (h : FreshFlushes σ fs) :
    ∀ f ∈ fs, ∃ k ne fivs, f = .flush k ne fivs ∧ ∀ p ∈ σ.registered, p.1 ≠ k := by
  induction fs generalizing σ with
  | nil => intro f hf; simp at hf
  | cons g fs ih =>
    intro f hf
    rcases List.mem_cons.1 hf with rfl | hf
    · exact h.1
    · obtain ⟨k, ne, fivs, e, hk⟩ := ih h.2 f hf
      refine ⟨k, ne, fivs, e, fun p hp => hk p ?_⟩
      obtain ⟨⟨k', ne', fivs', rfl, _⟩, _⟩ := h
      simp only [St.apply]
      exact List.mem_append_left _ hp

/-! ### the job does not see the flush -/

/-- `doRollupWork` on the snapshot's files gives the same record after a flush of another file -/
theorem mergeRec_flush (σ : St) (k : Key) (ne : Bool) (fivs : List Iv) (files : List Key) (i : Iv)
    (hk : k ∉ files) : mergeRec (σ.apply (.flush k ne fivs)) files i = mergeRec σ files i := by
  unfold mergeRec
  have e : (files.filter (fun x => decide ((i, x) ∉ (σ.apply (.flush k ne fivs)).refs))).filter
        (fun x => decide (x ∈ (σ.apply (.flush k ne fivs)).l0)) =
      (files.filter (fun x => decide ((i, x) ∉ σ.refs))).filter (fun x => decide (x ∈ σ.l0)) := by
    show (files.filter (fun x => decide ((i, x) ∉ σ.refs))).filter
        (fun x => decide (x ∈ (if ne then σ.l0 ++ [k] else σ.l0))) = _
    apply List.filter_congr
    intro x hx
    have hxf : x ∈ files := (List.mem_filter.1 hx).1
    have hxk : x ≠ k := fun e => hk (e ▸ hxf)
    cases ne <;> simp [hxk]
  simp only [e]

/-- the first loop of `rollup()` over the snapshot `pending0` commits the same records and collects the
same deletes when a flush of a file outside the snapshot was committed first -/
theorem tPhase_flush_insensitive (pending0 : List (Key × Iv)) (fam : Nat) (avail : Iv → Bool)
    (k : Key) (ne : Bool) (fivs : List Iv) (hk : ∀ p ∈ pending0, p.1 ≠ k) (ivs : List Iv) :
    ∀ σ : St, tPhase pending0 fam avail (σ.apply (.flush k ne fivs)) ivs = tPhase pending0 fam avail σ ivs := by
  induction ivs with
  | nil => intro σ; rfl
  | cons i rest ih =>
    intro σ
    have hkf : k ∉ filesOf pending0 fam i := fun hin => hk (k, i) ((mem_filesOf pending0 fam i k).1 hin).1 rfl
    have hmf := mergeRec_flush σ k ne fivs (filesOf pending0 fam i) i hkf
    rw [tPhase, tPhase]
    by_cases ha : avail i = true
    · simp only [ha, if_true, hmf]
      cases hm : mergeRec σ (filesOf pending0 fam i) i with
      | none => simp only [ih σ]
      | some r =>
        have hr : Indep k r := by
          simp only [mergeRec] at hm
          split at hm
          · exact absurd hm (by simp)
          · cases hm; trivial
        simp only [flush_comm σ k ne fivs r hr, ih (σ.apply r)]
    · simp only [ha, if_false, ih σ, Bool.false_eq_true]

/-! ### flushes only add rollup entries -/

def AllFlush (gs : List Rec) : Prop := ∀ f ∈ gs, ∃ k ne fivs, f = Rec.flush k ne fivs

theorem flushes_pending_mono (gs : List Rec) (hall : AllFlush gs) :
    ∀ (τ : St) (p : Key × Iv), p ∈ τ.pending → p ∈ (τ.applyAll gs).pending := by
  induction gs with
  | nil => intro τ p hp; exact hp
  | cons g gs ih =>
    intro τ p hp
    obtain ⟨k, ne, fivs, rfl⟩ := hall g List.mem_cons_self
    simp only [St.applyAll, List.foldl_cons]
    apply ih (fun f hf => hall f (List.mem_cons_of_mem _ hf)) (τ.apply (.flush k ne fivs)) p
    simp only [St.apply]
    exact List.mem_append_left _ hp

theorem flushes_pending_mem (gs : List Rec) (hall : AllFlush gs) (k : Key) (ne : Bool) (fivs : List Iv) (i : Iv)
    (hi : i ∈ fivs) : ∀ τ : St, Rec.flush k ne fivs ∈ gs → (k, i) ∈ (τ.applyAll gs).pending := by
  induction gs with
  | nil => intro τ h; simp at h
  | cons g gs ih =>
    intro τ h
    have hall' : AllFlush gs := fun f hf => hall f (List.mem_cons_of_mem _ hf)
    simp only [St.applyAll, List.foldl_cons]
    rcases List.mem_cons.1 h with e | h
    · subst e
      apply flushes_pending_mono gs hall'
      simp only [St.apply]
      exact List.mem_append_right _ (List.mem_map.2 ⟨i, hi, rfl⟩)
    · exact ih hall' (τ.apply g) h

end LinVerif.Lemmas.C04
