/-
C09: a flushed dictionary bucket is written as blocks of at most `bs` keys (index/model
trie_bucket_builder.go `TrieBucketBuilder.Write`) and read block by block (`TrieBucket.GetValue`): for every
block size the blocks hold every (name, id) pair of the bucket, so every name assigned before the flush
resolves to the same id after it. (The block arithmetic is the same as in C10's `blocks_cover`; restated
here on the id map so that C09 does not depend on the C10 lemma library.)
-/
import LinVerif.Model.IdAssign
import LinVerif.Lemmas.C09KvSeq

namespace LinVerif.IdAssign

/-- `numBlocks := len/bs; if len%bs != 0 { numBlocks++ }` -/
def numBlocksOf (len bs : Nat) : Nat := len / bs + (if len % bs ≠ 0 then 1 else 0)

/-- block `i` = `keys[i*bs : min(i*bs+bs, len)]` -/
def blocksOfBucket {α : Type} (bs : Nat) (l : List α) : List (List α) :=
  (List.range (numBlocksOf l.length bs)).map (fun i => (l.drop (i * bs)).take bs)

/-- a "balanced" split that does not write the remainder (not lindb's): `keysPerBlock = len / numBlocks` -/
def blocksBalanced {α : Type} (bs : Nat) (l : List α) : List (List α) :=
  let nb := numBlocksOf l.length bs
  (List.range nb).map (fun i => (l.drop (i * (l.length / nb))).take (l.length / nb))

/-- lookup of a name in a list of (name, id) pairs -/
def pairsFind (l : List (Nat × Nat)) (n : Nat) : Option Nat := (l.find? (fun p => p.1 == n)).map (·.2)

/-- `TrieBucket.GetValue`: the first block that has the name -/
def blocksFindId : List (List (Nat × Nat)) → Nat → Option Nat
  | [], _ => none
  | b :: rest, n => match pairsFind b n with
    | some i => some i
    | none => blocksFindId rest n

theorem numBlocksOf_mul_ge (len bs : Nat) (hbs : 0 < bs) : len ≤ numBlocksOf len bs * bs := by
  unfold numBlocksOf
  have h := Nat.div_add_mod len bs
  have hm := Nat.mod_lt len hbs
  by_cases h0 : len % bs = 0
  · simp only [h0, ne_eq, not_true_eq_false, ite_false, Nat.add_zero]
    rw [h0, Nat.add_zero] at h
    rw [Nat.mul_comm]; omega
  · simp only [h0, ne_eq, not_false_eq_true, ite_true]
    rw [Nat.add_mul, Nat.one_mul, Nat.mul_comm (len / bs) bs]
    omega

theorem flatten_range_blocks' {α : Type} (bs : Nat) (l : List α) (j : Nat) :
    ((List.range j).map (fun i => (l.drop (i * bs)).take bs)).flatten = l.take (j * bs) := by
  induction j with
  | zero => simp
  | succ j ih =>
    rw [List.range_succ, List.map_append, List.flatten_append, ih]
    simp only [List.map_cons, List.map_nil, List.flatten_cons, List.flatten_nil, List.append_nil]
    rw [Nat.succ_mul, List.take_add]

theorem blocksOfBucket_cover {α : Type} (bs : Nat) (hbs : 0 < bs) (l : List α) : (blocksOfBucket bs l).flatten = l := by
  unfold blocksOfBucket
  rw [flatten_range_blocks']
  exact List.take_of_length_le (numBlocksOf_mul_ge l.length bs hbs)

theorem pairsFind_append (a b : List (Nat × Nat)) (n : Nat) :
    pairsFind (a ++ b) n = match pairsFind a n with
      | some i => some i
      | none => pairsFind b n := by
  unfold pairsFind
  rw [List.find?_append]
  cases List.find? (fun p => p.1 == n) a <;> simp

theorem blocksFindId_flatten (blocks : List (List (Nat × Nat))) (n : Nat) :
    blocksFindId blocks n = pairsFind blocks.flatten n := by
  induction blocks with
  | nil => simp [blocksFindId, pairsFind]
  | cons b rest ih =>
    rw [List.flatten_cons, pairsFind_append]
    simp only [blocksFindId]
    rw [ih]

theorem setRange_zero (d : Dict) (b f base : Nat) : d.setRange b f 0 base = d := by
  funext b' n'
  simp [Dict.setRange]
  omega

/-- one more name of the range = one more single creation -/
theorem setRange_succ (d : Dict) (b f k base : Nat) :
    d.setRange b f (k + 1) base = (d.setRange b f k base).set b (f + k) (base + k) := by
  funext b' n'
  simp only [Dict.setRange, Dict.set]
  by_cases hb : b' = b
  · subst hb
    by_cases hn : n' = f + k
    · subst hn; simp
    · by_cases hr : f ≤ n' ∧ n' < f + k
      · have : f ≤ n' ∧ n' < f + (k + 1) := ⟨hr.1, by omega⟩
        simp [hn, hr, this]
      · have : ¬ (f ≤ n' ∧ n' < f + (k + 1)) := by intro h; apply hr; exact ⟨h.1, by omega⟩
        simp [hn, hr, this]
  · simp [hb]

theorem insertRange_succ (s : KvStore) (b f k base : Nat) :
    s.insertRange b f (k + 1) base = (s.insertRange b f k base).insert b (f + k) (base + k) := by
  simp only [KvStore.insertRange, KvStore.insert, setRange_succ]
  simp

/-- the range operation = one more single `GenTagValueID` per name -/
theorem genTagValueRange_succ (c : Cfg) (nd : Node) (tk lo k : Nat)
    (hnew : (nd.genTagValueRange c tk lo k).1.tagValue.lookup tk (lo + k) = none) :
    (nd.genTagValueRange c tk lo (k + 1)).1 = ((nd.genTagValueRange c tk lo k).1.genTagValueID c tk (lo + k)).1 ∧
    ((nd.genTagValueRange c tk lo k).1.genTagValueID c tk (lo + k)).2 = .id ((nd.genTagValueRange c tk lo (k + 1)).2 + k) := by
  unfold Node.genTagValueID
  rw [getOrCreate_miss _ _ _ _ _ hnew]
  cases hw : c.seqWriteThrough <;>
    simp [Node.genTagValueRange, Node.afterAlloc, hw, insertRange_succ, Nat.add_assoc]

/-- every name of a flushed bucket resolves, through the blocks, to the id it had in the bucket — for any
block size -/
theorem blocks_preserve_ids (bs : Nat) (hbs : 0 < bs) (kvs : List (Nat × Nat)) (n : Nat) :
    blocksFindId (blocksOfBucket bs kvs) n = pairsFind kvs n := by
  rw [blocksFindId_flatten, blocksOfBucket_cover bs hbs]

end LinVerif.IdAssign
