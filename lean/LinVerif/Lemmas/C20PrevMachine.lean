/-
C20 helper lemmas: backward iteration (`SeekToLast`, `Prev`) of the stack machine over the LOUDS
vectors enumerates the tree in reverse order.
-/
import LinVerif.Lemmas.C20SeekMachine

set_option linter.unusedSimpArgs false
set_option linter.unusedVariables false

namespace LinVerif.Lemmas.C20
open LinVerif.TrieTree LinVerif.Louds LinVerif.LoudsIter

/-! ### the zipper, backwards -/

/-- an item put back in front of a row -/
def Item.cons : Item → Entries → Entries
  | .leaf l s v, r => .leaf l s v r
  | .child l c, r => .child l c r

theorem items_cons (it : Item) (r : Entries) : items (it.cons r) = it :: items r := by
  cases it <;> rfl

theorem cons_isNil (it : Item) (r : Entries) : (it.cons r).isNil = false := by
  cases it <;> rfl

/-- the pairs of an item that is NOT the last one of its node (a label 0xff without child is then
the terminator) -/
def kvInner (base : Key) : Item → List KV
  | .leaf l s v => [if l == labelTerminator then (base ++ s, v) else (base ++ l :: s, v)]
  | .child l c => iterNode (base ++ [l]) c

/-- everything before the current item of each frame, nearest first (what `Prev` enumerates) -/
def remBefore : List Frame → List KV
  | [] => []
  | fr :: below => (fr.before.flatMap (kvInner fr.kb)).reverse ++ remBefore below

theorem remBefore_append (a b : List Frame) : remBefore (a ++ b) = remBefore a ++ remBefore b := by
  induction a with
  | nil => rfl
  | cons fr r ih => simp [remBefore, ih]

/-- the first frame (from the deepest) that is not on the first label of its node -/
def popToPrev : List Frame → Option (Frame × List Frame)
  | [] => none
  | fr :: below => if fr.before.isEmpty then popToPrev below else some (fr, below)

/-- step left inside the node of frame `fr` -/
def Frame.retreat (fr : Frame) (b' : List Item) (x : Item) : Frame :=
  { fr with before := b', cur := x, after := fr.cur.cons fr.after }

/-- `Iterator.Prev` on the zipper -/
def zPrev (t : Node) (frames : List Frame) : Option (List Frame) :=
  match popToPrev frames with
  | none => none
  | some (fk, bk) =>
    match fk.before.reverse with
    | [] => none
    | x :: ri =>
      match x with
      | .leaf _ _ _ => some (fk.retreat ri.reverse x :: bk)
      | .child l c =>
        some (rightmost t (encode t).height c (childNodeID (encode t) ((fk.retreat ri.reverse x).pos t)) (fk.kb ++ [l]) ++
          (fk.retreat ri.reverse x :: bk))

/-- items before index `i` of a row are inner items -/
theorem iterEntries_take_inner (base : Key) : ∀ (es : Entries) (i : Nat), i < es.length →
    iterEntries base es = ((items es).take i).flatMap (kvInner base) ++ iterEntries base (dropE i es)
  | es, 0, _ => by simp [dropE]
  | .nil, i + 1, h => by simp [Entries.length] at h
  | .leaf l s v r, i + 1, h => by
    simp only [Entries.length] at h
    have hr : r.isNil = false := by cases r <;> simp [Entries.length, Entries.isNil] at h ⊢
    simp only [iterEntries, items, List.take_succ_cons, List.flatMap_cons, kvInner, dropE, hr, Bool.not_false,
      Bool.and_true, List.cons_append, List.nil_append]
    rw [iterEntries_take_inner base r i (by omega)]
  | .child l c r, i + 1, h => by
    simp only [Entries.length] at h
    simp only [iterEntries, items, List.take_succ_cons, List.flatMap_cons, kvInner, dropE, List.append_assoc]
    rw [iterEntries_take_inner base r i (by omega)]

/-- the deepest frame of `rightmost` is the last pair; before it comes everything else, reversed -/
theorem rightmost_before_spec (t : Node) : ∀ (fuel : Nat) (c : Node) (n : Nat) (path : Key), WFNode c → c.height ≤ fuel →
    ∃ top rest, rightmost t fuel c n path = top :: rest ∧
      (iterNode path c).reverse = top.kv :: remBefore (rightmost t fuel c n path)
  | 0, c, _, _, _, hh => by have := height_pos c; omega
  | fuel + 1, c, n, path, hwf, hh => by
    have hsz := wfNode_size_pos c hwf
    obtain ⟨x, hlast, hidx⟩ := last_item hwf
    have hsplit := iterEntries_take_inner (path ++ c.pfx) c.entries (c.entries.length - 1) (by omega)
    have hcons := iterEntries_dropE_cons c.entries (c.entries.length - 1) x (path ++ c.pfx) hidx
    rw [dropE_after_last] at hcons
    rw [iterNode_eq, hsplit, hcons]
    simp only [rightmost, hlast]
    cases x with
    | leaf l s v =>
      refine ⟨_, [], rfl, ?_⟩
      simp [remBefore, Frame.kv, frameAt, dropE_after_last, Entries.isNil, iterEntries]
    | child l c' =>
      obtain ⟨hcwf, hch⟩ := child_wf_of_item hwf hidx
      obtain ⟨top, rest, h1, h2⟩ := rightmost_before_spec t fuel c'
        (childNodeID (encode t) (offset t n + (c.entries.length - 1))) (path ++ c.pfx ++ [l]) hcwf (by omega)
      refine ⟨top, rest ++ [frameAt c n path (c.entries.length - 1) (.child l c')], by simp only []; rw [h1]; rfl, ?_⟩
      simp only [iterEntries, List.append_nil, List.reverse_append]
      rw [h2, remBefore_append]
      simp [remBefore, frameAt]

theorem popToPrev_none_remBefore : ∀ (frames : List Frame), popToPrev frames = none → remBefore frames = []
  | [], _ => rfl
  | fr :: below, h => by
    simp only [popToPrev] at h
    by_cases he : fr.before.isEmpty = true
    · simp only [he, if_true] at h
      have : fr.before = [] := by simpa using he
      simp [remBefore, this, popToPrev_none_remBefore below h]
    · simp [he] at h

theorem popToPrev_some_remBefore : ∀ (frames : List Frame) (fk : Frame) (bk : List Frame),
    popToPrev frames = some (fk, bk) → remBefore frames = remBefore (fk :: bk) ∧ fk.before ≠ []
  | [], _, _, h => by simp [popToPrev] at h
  | fr :: below, fk, bk, h => by
    simp only [popToPrev] at h
    by_cases he : fr.before.isEmpty = true
    · simp only [he, if_true] at h
      have : fr.before = [] := by simpa using he
      obtain ⟨h1, h2⟩ := popToPrev_some_remBefore below fk bk h
      exact ⟨by simp [remBefore, this] at h1 ⊢; exact h1, h2⟩
    · simp only [he, Bool.false_eq_true, if_false, Option.some.injEq, Prod.mk.injEq] at h
      obtain ⟨rfl, rfl⟩ := h
      exact ⟨rfl, by simpa using he⟩

/-- one `Prev` step consumes exactly the head of what is before -/
theorem zPrev_spec (t : Node) (frames : List Frame)
    (hwf : ∀ fr ∈ frames, ∀ l c, Item.child l c ∈ fr.before → WFNode c ∧ c.height ≤ (encode t).height) :
    match zPrev t frames with
    | none => remBefore frames = []
    | some frames' => ∃ top rest, frames' = top :: rest ∧ remBefore frames = top.kv :: remBefore frames' := by
  unfold zPrev
  cases hpop : popToPrev frames with
  | none => exact popToPrev_none_remBefore frames hpop
  | some x =>
    obtain ⟨fk, bk⟩ := x
    obtain ⟨hrem, hne⟩ := popToPrev_some_remBefore frames fk bk hpop
    simp only
    cases hrev : fk.before.reverse with
    | nil =>
      have : fk.before = [] := by simpa using hrev
      exact absurd this hne
    | cons x ri =>
      have hb : fk.before = ri.reverse ++ [x] := by
        have := congrArg List.reverse hrev
        simpa using this
      simp only
      cases x with
      | leaf l s v =>
        refine ⟨_, bk, rfl, ?_⟩
        rw [hrem]
        simp only [remBefore, hb, List.flatMap_append, List.flatMap_cons, List.flatMap_nil, kvInner,
          List.reverse_append, Frame.retreat, Frame.kv, cons_isNil]
        simp
      | child l c =>
        have hfkmem : fk ∈ frames := by
          clear hrem hwf
          induction frames with
          | nil => simp [popToPrev] at hpop
          | cons f r ih =>
            simp only [popToPrev] at hpop
            by_cases he : f.before.isEmpty = true
            · simp only [he, if_true] at hpop
              exact List.mem_cons_of_mem _ (ih hpop)
            · simp only [he, Bool.false_eq_true, if_false, Option.some.injEq, Prod.mk.injEq] at hpop
              rw [← hpop.1]; exact List.mem_cons_self ..
        obtain ⟨hcwf, hch⟩ := hwf fk hfkmem l c (by rw [hb]; simp)
        obtain ⟨top, rest, h1, h2⟩ := rightmost_before_spec t (encode t).height c
          (childNodeID (encode t) ((fk.retreat ri.reverse (.child l c)).pos t)) (fk.kb ++ [l]) hcwf hch
        refine ⟨top, rest ++ (fk.retreat ri.reverse (.child l c) :: bk), by rw [h1]; rfl, ?_⟩
        rw [hrem]
        simp only [remBefore, hb, List.flatMap_append, List.flatMap_cons, List.flatMap_nil, kvInner,
          List.reverse_append, List.append_nil, remBefore_append, Frame.retreat]
        rw [h2]
        simp
        rfl

/-! ### the machine: `Prev` -/

/-- the louds bit at a label is set exactly at the first label of a node -/
theorem louds_at_index (sizes : List Nat) (n i : Nat) (hpos : ∀ s ∈ sizes, 1 ≤ s) (hn : n < sizes.length)
    (hi : i < sizes[n]) : (loudsOfSizes sizes).getD ((sizes.take n).sum + i) false = (i == 0) := by
  cases i with
  | zero =>
    have hsplit : loudsOfSizes sizes = loudsOfSizes (sizes.take n) ++ loudsOfSizes (sizes.drop n) := by
      rw [← loudsOfSizes_append, List.take_append_drop]
    rw [hsplit, Nat.add_zero, List.getD_eq_getElem?_getD,
      List.getElem?_append_right (by rw [length_loudsOfSizes]; exact Nat.le_refl _), length_loudsOfSizes, Nat.sub_self]
    have hd : sizes.drop n = sizes[n] :: sizes.drop (n + 1) := (List.getElem_cons_drop hn).symm
    have hs := hpos sizes[n] (List.getElem_mem hn)
    obtain ⟨m, hm⟩ : ∃ m, sizes[n] = m + 1 := ⟨sizes[n] - 1, by omega⟩
    rw [hd, hm, loudsOfSizes_cons]; rfl
  | succ j =>
    have hdrop := drop_loudsOfSizes sizes n hpos hn
    have : (loudsOfSizes sizes).getD ((sizes.take n).sum + (j + 1)) false =
        (List.replicate (sizes[n] - 1) false ++ loudsOfSizes (sizes.drop (n + 1))).getD j false := by
      rw [← hdrop, List.getD_eq_getElem?_getD, List.getD_eq_getElem?_getD, List.getElem?_drop]
      congr 2; omega
    have hj : j < sizes[n] - 1 := by omega
    rw [this, List.getD_eq_getElem?_getD, List.getElem?_append_left (by simpa using hj)]
    simp [hj]

theorem frame_first {t : Node} (hwf : WFNode t) {fr : Frame} (h : FrameOK t fr) :
    (encode t).louds.getD (fr.pos t) false = fr.before.isEmpty := by
  obtain ⟨hlt, hN⟩ := List.getElem?_eq_some_iff.1 h.1
  unfold Frame.pos offset
  rw [encode_louds, List.map_take]
  have hn' : fr.n < ((bfs t).map (fun m => m.entries.length)).length := by simpa using hlt
  have hsz : ((bfs t).map (fun m => m.entries.length))[fr.n] = fr.node.entries.length := by simp [hN]
  have hsize := frame_size h
  rw [louds_at_index _ fr.n fr.before.length (sizes_pos hwf) hn' (by rw [hsz]; omega)]
  cases fr.before <;> simp

theorem popToPrev_spec {t : Node} {pos nid plen : List Nat} : ∀ {frames : List Frame} {fk : Frame} {bk : List Frame},
    popToPrev frames = some (fk, bk) → Chain t frames → Arr t pos nid plen frames →
    Chain t (fk :: bk) ∧ Arr t pos nid plen (fk :: bk) ∧ (∃ rest, keyOf frames = fk.kb ++ rest) ∧
      fk.before ≠ [] ∧ bk.length < frames.length
  | [], _, _, h, _, _ => by simp [popToPrev] at h
  | fr :: below, fk, bk, h, hc, ha => by
    simp only [popToPrev] at h
    by_cases hnil : fr.before.isEmpty = true
    · simp only [hnil, if_true] at h
      obtain ⟨h1, h2, ⟨rest, h3⟩, h4, h5⟩ := popToPrev_spec h hc.tail ha.2.2.2
      refine ⟨h1, h2, ?_, h4, by simp only [List.length_cons]; omega⟩
      cases below with
      | nil => simp [popToPrev] at h
      | cons p b =>
        obtain ⟨_, ⟨l, hcur, hkb⟩, _, _⟩ := hc
        simp only [keyOf] at h3 ⊢
        rw [hkb]
        rw [hcur] at h3
        simp only [Item.label] at h3
        exact ⟨rest ++ fr.node.pfx ++ [fr.cur.label], by rw [h3]; simp⟩
    · simp only [hnil, Bool.false_eq_true, if_false, Option.some.injEq, Prod.mk.injEq] at h
      obtain ⟨rfl, rfl⟩ := h
      exact ⟨hc, ha, ⟨[fr.cur.label], rfl⟩, by simpa using hnil, by simp⟩

/-- the climbing loop of `Prev` stops at `popToPrev` -/
theorem climbPrev_spec {t : Node} (hwf : WFNode t) : ∀ (frames : List Frame) (fr : Frame) (below : List Frame)
    (fuel : Nat) (it : It), frames = fr :: below → Chain t frames → Arr t it.pos it.nid it.plen frames →
    it.level = below.length → frames.length ≤ fuel →
    climbPrev (encode t) fuel it (fr.pos t) =
      (popToPrev frames).map (fun x => ({ it with level := x.2.length }, x.1.pos t))
  | _, fr, below, 0, it, rfl, _, _, _, hf => by simp at hf
  | _, fr, below, fuel + 1, it, rfl, hc, ha, hl, hf => by
    have hok := hc.frameOK fr (List.mem_cons_self ..)
    rw [climbPrev, frame_first hwf hok]
    by_cases hnil : fr.before.isEmpty = true
    · simp only [hnil, if_true, popToPrev]
      cases below with
      | nil => simp [hl, popToPrev]
      | cons p b =>
        have hl0 : (it.level == 0) = false := by simp [hl]
        simp only [hl0, Bool.false_eq_true, if_false]
        have hpos : it.pos.getD (it.level - 1) 0 = p.pos t := by
          rw [hl]; simp only [List.length_cons, Nat.add_sub_cancel]; exact ha.2.2.2.1
        simp only [hpos]
        have := climbPrev_spec hwf (p :: b) p b fuel { it with level := it.level - 1 } rfl hc.tail ha.2.2.2
          (by simp [hl]) (by simp only [List.length_cons] at hf ⊢; omega)
        rw [this]
    · have hnf : fr.before.isEmpty = false := by simpa using hnil
      simp only [hnf, Bool.false_eq_true, if_false, popToPrev, Option.map_some]
      have heta : { it with level := below.length } = it := by rw [← hl]
      rw [heta]

theorem Chain.retreat {t : Node} {fk : Frame} {bk : List Frame} (hc : Chain t (fk :: bk)) {b' : List Item} {x : Item}
    (hb : fk.before = b' ++ [x]) : Chain t (fk.retreat b' x :: bk) := by
  have hok := hc.frameOK fk (List.mem_cons_self ..)
  have hok' : FrameOK t (fk.retreat b' x) := by
    refine ⟨hok.1, ?_⟩
    simp only [Frame.retreat, items_cons]
    rw [hok.2, hb]
    simp
  cases bk with
  | nil =>
    simp only [Chain] at hc ⊢
    exact ⟨hok', hc.2.1, hc.2.2.1, hc.2.2.2⟩
  | cons p b =>
    obtain ⟨_, hlink, hn, hrest⟩ := hc
    exact ⟨hok', hlink, hn, hrest⟩

/-- `setAt(level, pos-1)` after the climb of `Prev`: the popped-to frame steps left -/
theorem setAt_part_prev {t : Node} {it : It} {frames : List Frame} {fk : Frame} {bk : List Frame}
    (hpop : popToPrev frames = some (fk, bk)) (hc : Chain t frames) (ha : Arr t it.pos it.nid it.plen frames)
    (hkey : it.keyBuf = keyOf frames) (hl : it.level = bk.length)
    (lpos : it.pos.length = (encode t).height) (lnid : it.nid.length = (encode t).height)
    (lplen : it.plen.length = (encode t).height)
    {b' : List Item} {x : Item} (hb : fk.before = b' ++ [x]) :
    Part t (setAt (encode t) it it.level (fk.pos t - 1)) (fk.retreat b' x) bk := by
  obtain ⟨hck, hak, ⟨rest, hrest⟩, _, _⟩ := popToPrev_spec hpop hc ha
  have hc' := hck.retreat hb
  have hok' := hc'.frameOK _ (List.mem_cons_self ..)
  have hlt := hck.level_lt
  have hpos' : (fk.retreat b' x).pos t = fk.pos t - 1 := by
    simp [Frame.pos, Frame.retreat, hb]
    try omega
  refine ⟨hc', by simp [setAt, hl], ?_, ?_, by simp [setAt, lpos], lnid, lplen⟩
  · simp only [setAt, hl]
    refine ⟨by rw [getD_set_eq (by rw [lpos]; exact hlt), hpos'], hak.2.1, hak.2.2.1,
      Arr.set_pos_above hak.2.2.2 (Nat.le_refl _)⟩
  · simp only [setAt, hl, hak.2.2.1, Nat.add_sub_cancel, hkey, hrest]
    rw [List.take_left' rfl, ← hpos', frame_label hok']
    rfl

theorem offset_pos_of_pos {t : Node} (hwf : WFNode t) {n : Nat} (hn : 1 ≤ n) (hlt : n < (bfs t).length) :
    1 ≤ offset t n := by
  unfold offset
  have h0 : 0 < (bfs t).length := by omega
  have hroot := sizes_pos hwf ((bfs t)[0].entries.length) (List.mem_map.2 ⟨_, List.getElem_mem h0, rfl⟩)
  obtain ⟨m, rfl⟩ : ∃ m, n = m + 1 := ⟨n - 1, by omega⟩
  cases hb : bfs t with
  | nil => rw [hb] at h0; simp at h0
  | cons r rs =>
    simp only [hb, List.getElem_cons_zero] at hroot
    simp only [List.take_succ_cons, List.map_cons, List.sum_cons]
    omega

theorem prev_spec {t : Node} (hwf : WFNode t) {it : It} {top : Frame} {below : List Frame}
    (hr : Rep t it top below) :
    match zPrev t (top :: below) with
    | none => (prev (encode t) it).valid = false
    | some frames' => ∃ top' rest', frames' = top' :: rest' ∧ Rep t (prev (encode t) it) top' rest' := by
  have hp := hr.part
  have hv := hr.valid
  have hposTop : it.pos.getD it.level 0 = top.pos t := by rw [hp.level]; exact hp.arr.1
  have hfuel : (top :: below).length ≤ (encode t).height + 1 := by
    have := hp.chain.level_lt
    simp only [List.length_cons]; omega
  have hclimb := climbPrev_spec hwf (top :: below) top below ((encode t).height + 1) { it with atTerm := false }
    rfl hp.chain hp.arr hp.level hfuel
  simp only [hv] at hclimb
  unfold zPrev prev
  simp only [hv, Bool.not_true, Bool.false_eq_true, if_false, hposTop]
  by_cases hp0 : top.pos t = 0
  · -- the very first label of the trie
    have hok := hp.chain.frameOK top (List.mem_cons_self ..)
    have hb : top.before = [] := by
      unfold Frame.pos at hp0
      cases hbb : top.before with
      | nil => rfl
      | cons _ _ => rw [hbb] at hp0; simp at hp0
    have hbelow : below = [] := by
      cases below with
      | nil => rfl
      | cons p b =>
        exfalso
        obtain ⟨_, _, hn, hrest⟩ := hp.chain
        have hpok := Chain.frameOK hrest p (List.mem_cons_self ..)
        obtain ⟨l, hcur, _⟩ := hp.chain.2.1
        have hitem := frame_item hpok
        rw [hcur] at hitem
        have hbit : (encode t).hasChild[p.pos t]? = some true := by
          rw [encode_hasChild, List.getElem?_map, hitem]; rfl
        have hplt : p.pos t < (encode t).hasChild.length := (List.getElem?_eq_some_iff.1 hbit).1
        have hrank : 1 ≤ childNodeID (encode t) (p.pos t) := by
          unfold childNodeID
          rw [encode_hasChildLut, rankGo_eq_rank _ _ hplt]
          exact rank_pos _ _ hbit
        rw [← hn] at hrank
        have := offset_pos_of_pos hwf hrank (List.getElem?_eq_some_iff.1 hok.1).1
        unfold Frame.pos at hp0
        omega
    simp [hp0, hbelow, popToPrev, hb]
  · have hp0' : (top.pos t == 0) = false := by simpa using hp0
    simp only [hp0', Bool.false_eq_true, if_false]
    rw [hclimb]
    cases hpop : popToPrev (top :: below) with
    | none => simp
    | some x =>
      obtain ⟨fk, bk⟩ := x
      simp only [Option.map_some]
      obtain ⟨hck, _, _, hne, _⟩ := popToPrev_spec hpop hp.chain hp.arr
      have hkey : it.keyBuf = keyOf (top :: below) := by rw [hp.key]; rfl
      cases hrev : fk.before.reverse with
      | nil =>
        have : fk.before = [] := by simpa using hrev
        exact absurd this hne
      | cons x ri =>
        have hb : fk.before = ri.reverse ++ [x] := by
          have := congrArg List.reverse hrev
          simpa using this
        have hpart := setAt_part_prev (it := { it with atTerm := false, level := bk.length }) hpop hp.chain hp.arr
          hkey rfl hp.lpos hp.lnid hp.lplen hb
        have hms := moveToMost_right_spec hwf hpart (by simp [setAt])
        simp only
        cases x with
        | leaf l s v =>
          simp only [Frame.retreat, hv] at hms ⊢
          exact ⟨_, _, rfl, hms⟩
        | child l c =>
          simp only [Frame.retreat, hv] at hms ⊢
          obtain ⟨top', rest', h1, h2⟩ := hms
          exact ⟨top', rest', h1.symm ▸ rfl, h2⟩

/-! ### `SeekToLast` and the whole backward enumeration -/

/-- `append` the last item of a node, then `moveToRightMostKey`: the frames are `rightmost` -/
theorem land_right_frames {t : Node} (hwf : WFNode t) {c : Node} {n : Nat} {path : Key} {below : List Frame} {it : It}
    (hna : NodeAt t c n path below) (hpre : Pre t it below) (hat : it.atTerm = false) :
    ∃ top rest,
      Rep t (moveToMost (encode t) false
        (append (encode t) it (label (encode t) (offset t n + c.entries.length - 1)) (offset t n + c.entries.length - 1) n))
        top rest ∧
      top :: rest = rightmost t ((encode t).height + 1) c n path ++ below := by
  have hcwf := hna.wf hwf
  have hsz := wfNode_size_pos c hcwf
  obtain ⟨x, hlast, hidx⟩ := last_item hcwf
  have hc := frameAt_chain hna hidx
  have hpart := append_part hpre hc
  have hfpos := frameAt_pos (t := t) (n := n) (path := path) hidx
  rw [hfpos] at hpart
  have hpe : offset t n + c.entries.length - 1 = offset t n + (c.entries.length - 1) := by omega
  rw [hpe, label_at hna.1 _ x hidx]
  have hms := moveToMost_right_spec hwf hpart (by simpa [append] using hat)
  simp only [rightmost, hlast]
  cases x with
  | leaf l s v =>
    simp only [Item.label]
    exact ⟨frameAt c n path (c.entries.length - 1) (.leaf l s v), below, hms, rfl⟩
  | child l c' =>
    simp only [Item.label]
    obtain ⟨top, rest, h1, h2⟩ := hms
    refine ⟨top, rest, h2, ?_⟩
    have hkb : (frameAt c n path (c.entries.length - 1) (.child l c')).kb = path ++ c.pfx := rfl
    rw [hfpos, hkb] at h1
    rw [← h1]
    simp [List.append_assoc]

theorem seekToLast_spec {t : Node} (hwf : WFNode t) :
    ∃ top rest, Rep t (seekToLast (encode t)) top rest ∧
      top :: rest = rightmost t ((encode t).height + 1) t 0 [] := by
  have hH : 0 < (encode t).height := by
    have := encode_height_ge t
    have := height_pos t
    omega
  have hbfs0 : (bfs t)[0]? = some t := by rw [bfs_eq t]; rfl
  have hpre : Pre t (reset (init (encode t))) [] :=
    ⟨rfl, trivial, rfl, by simp [reset, init], by simp [reset, init], by simp [reset, init]⟩
  have hna : NodeAt t t 0 [] [] := ⟨hbfs0, trivial, rfl, rfl, rfl⟩
  obtain ⟨top, rest, h1, h2⟩ := land_right_frames hwf hna hpre rfl
  unfold seekToLast
  simp only [hH, if_true]
  rw [lastLabelPos_spec hwf hbfs0]
  exact ⟨top, rest, h1, by simpa using h2⟩

theorem chain_before_wf {t : Node} (hwf : WFNode t) {frames : List Frame} (hc : Chain t frames) :
    ∀ fr ∈ frames, ∀ l c, Item.child l c ∈ fr.before → WFNode c ∧ c.height ≤ (encode t).height := by
  intro fr hfr l c hmem
  have hok := hc.frameOK fr hfr
  have hmem' : Item.child l c ∈ items fr.node.entries := by rw [hok.2]; simp [hmem]
  have hcm := child_mem_of_items hmem'
  have hnwf := bfs_wf hwf _ (List.mem_of_getElem? hok.1)
  refine ⟨wfNode_children fr.node hnwf c hcm, ?_⟩
  -- every node of the level order is at most as high as the tree
  have hh : ∀ m ∈ bfs t, m.height ≤ t.height :=
    nodeLevels_forall (fun m => m.height ≤ t.height)
      (fun m hm c' hc' => by
        cases m with
        | mk pp es =>
          have := children_height es (Entries.height es) (Nat.le_refl _) c' hc'
          simp only [Node.height] at hm; omega) _ _ (by simp)
  have h1 := hh fr.node (List.mem_of_getElem? hok.1)
  have h2 : c.height ≤ fr.node.height := by
    cases hn : fr.node with
    | mk pp es =>
      rw [hn] at hcm
      have := children_height es (Entries.height es) (Nat.le_refl _) c hcm
      simp only [Node.height]; omega
  have := encode_height_ge t
  omega

theorem collect_prev_spec {t : Node} (hwf : WFNode t) : ∀ (fuel : Nat) (it : It) (top : Frame) (below : List Frame),
    Rep t it top below → (remBefore (top :: below)).length < fuel →
    collect (encode t) (prev (encode t)) fuel it = top.kv :: remBefore (top :: below)
  | 0, _, _, _, _, h => by omega
  | fuel + 1, it, top, below, hr, hf => by
    rw [collect]
    simp only [hr.valid, if_true]
    have hkv := kv_spec hr
    have hz := zPrev_spec t (top :: below) (chain_before_wf hwf hr.part.chain)
    have hn := prev_spec hwf hr
    rw [hkv]
    congr 1
    cases hzn : zPrev t (top :: below) with
    | none =>
      rw [hzn] at hz hn
      simp only at hz hn
      rw [hz, collect_invalid _ _ _ _ hn]
    | some frames' =>
      rw [hzn] at hz hn
      simp only at hz hn
      obtain ⟨top', rest', h1, h2⟩ := hn
      obtain ⟨top'', rest'', h3, h4⟩ := hz
      rw [h1] at h3
      cases h3
      rw [h4, h1]
      apply collect_prev_spec hwf fuel _ top' rest' h2
      rw [h4, h1] at hf
      simp only [List.length_cons] at hf
      omega

/-- **backward iteration of the stack machine over the vectors = the tree's pairs in reverse** -/
theorem riterAll_eq_reverse {t : Node} (hwf : WFNode t) : riterAll (encode t) = (iter t).reverse := by
  obtain ⟨top, rest, h1, h2⟩ := seekToLast_spec hwf
  have hH : t.height ≤ (encode t).height + 1 := by have := encode_height_ge t; omega
  obtain ⟨top', rest', h3, h4⟩ := rightmost_before_spec t ((encode t).height + 1) t 0 [] hwf hH
  rw [← h2] at h3 h4
  cases h3
  unfold riterAll iter
  rw [h4]
  apply collect_prev_spec hwf _ _ top rest h1
  have hl : ((iterNode [] t).reverse).length = (encode t).values.length := by
    rw [List.length_reverse, values_length_eq]
  rw [h4] at hl
  simp only [List.length_cons] at hl
  omega

/-- `SeekToLast` stands on the last pair -/
theorem seekToLast_last {t : Node} (hwf : WFNode t) :
    (seekToLast (encode t)).valid = true ∧
      (iter t).getLast? = some (key (encode t) (seekToLast (encode t)), value (encode t) (seekToLast (encode t))) := by
  obtain ⟨top, rest, h1, h2⟩ := seekToLast_spec hwf
  have hH : t.height ≤ (encode t).height + 1 := by have := encode_height_ge t; omega
  obtain ⟨top', rest', h3, h4⟩ := rightmost_before_spec t ((encode t).height + 1) t 0 [] hwf hH
  rw [← h2] at h3
  cases h3
  refine ⟨h1.valid, ?_⟩
  rw [kv_spec h1]
  unfold iter
  have : iterNode [] t = ((iterNode [] t).reverse).reverse := by simp
  rw [this, h4]
  simp

end LinVerif.Lemmas.C20
