/-
C20 helper lemmas, layer 2: `trie.Get` over the LOUDS vectors (`Louds.lget`) equals `trie.Get`
on the tree (`TrieTree.getNode`) — the refinement "LOUDS navigation = tree navigation" for
exact lookup.
-/
import LinVerif.Lemmas.C20Louds

set_option linter.unusedSimpArgs false
set_option linter.unusedVariables false

namespace LinVerif.Lemmas.C20
open LinVerif.TrieTree LinVerif.Louds

/-! ### compressed-path vectors (`compressPathVector.GetPath`) -/

theorem filter_eq_filterMap (ps : List (List Nat)) :
    ps.filter nonEmpty = ps.filterMap (fun p => if nonEmpty p then some p else none) := by
  induction ps with
  | nil => rfl
  | cons p r ih =>
    simp only [List.filter_cons, List.filterMap_cons]
    cases h : nonEmpty p <;> simp [h, ih]

/-- the path stored for id `i` is found through the rank of the has-path bit -/
theorem getPath_spec (ps : List (List Nat)) (i : Nat) (h : i < ps.length) :
    getPath (rankLut (ps.map nonEmpty)) (ps.map nonEmpty) (ps.filter nonEmpty) i = ps[i] := by
  unfold getPath
  have hget : (ps.map nonEmpty)[i]? = some (nonEmpty ps[i]) := by
    rw [List.getElem?_map, List.getElem?_eq_getElem h]; rfl
  have hgetD : (ps.map nonEmpty).getD i false = nonEmpty ps[i] := by
    rw [List.getD_eq_getElem?_getD, hget]; rfl
  rw [hgetD]
  cases hne : nonEmpty ps[i] with
  | false =>
    simp only [Bool.false_eq_true, if_false]
    unfold nonEmpty at hne
    cases hp : ps[i] with
    | nil => rfl
    | cons _ _ => rw [hp] at hne; simp at hne
  | true =>
    simp only [if_true]
    rw [rankGo_eq_rank _ _ (by simpa using h)]
    rw [hne] at hget
    rw [rank_of_set _ _ hget]
    have hidx := filterMap_index (fun p => if nonEmpty p then some p else none) ps i ps[i] ps[i]
      (List.getElem?_eq_getElem h) (by simp [hne])
    have hsame : ps.map (fun a => (if nonEmpty a then some a else none).isSome) = ps.map nonEmpty := by
      apply List.map_congr_left
      intro a _
      cases nonEmpty a <;> rfl
    rw [hsame, ← filter_eq_filterMap] at hidx
    have : popcount ((ps.map nonEmpty).take i) + 1 - 1 = ((ps.map nonEmpty).take i).count true := by
      unfold popcount; omega
    rw [this, List.getD_eq_getElem?_getD, hidx]; rfl

/-! ### prefix and suffix vectors of the encoding -/

def Item.suffix : Item → List Nat
  | .leaf _ s _ => s
  | .child .. => []

theorem suffixAll_items : ∀ (es : Entries), Entries.suffixAll es = (items es).map Item.suffix
  | .nil => rfl
  | .leaf _ _ _ r => by simp [items, Entries.suffixAll, suffixAll_items r, Item.suffix]
  | .child _ _ r => by simp [items, Entries.suffixAll, suffixAll_items r, Item.suffix]

theorem flatMap_levels_map {β} (ls : List (List Node)) (proj : Level → List β) (f : Node → β)
    (h : ∀ ns, proj (levelOf ns) = ns.map f) :
    (ls.map levelOf).flatMap proj = ls.flatten.map f := by
  induction ls with
  | nil => rfl
  | cons ns r ih => simp [List.flatMap_cons, h, ih]

theorem encode_hasPrefix (t : Node) : (encode t).hasPrefix = ((bfs t).map (fun n => n.pfx)).map nonEmpty := by
  unfold encode flatten levelsOf bfs
  simp only []
  rw [flatMap_levels_map _ (·.hasPrefix) (fun n => nonEmpty n.pfx) (fun ns => rfl), List.map_map]
  rfl

theorem encode_prefixes (t : Node) : (encode t).prefixes = ((bfs t).map (fun n => n.pfx)).filter nonEmpty := by
  unfold encode flatten levelsOf bfs
  simp only []
  generalize nodeLevels t.height [t] = ls
  induction ls with
  | nil => rfl
  | cons ns r ih =>
    simp only [List.map_cons, List.flatMap_cons, List.flatten_cons, List.map_append, List.filter_append]
    rw [ih]; rfl

theorem encode_hasPrefixLut (t : Node) : (encode t).hasPrefixLut = rankLut (encode t).hasPrefix := rfl
theorem encode_hasSuffixLut (t : Node) : (encode t).hasSuffixLut = rankLut (encode t).hasSuffix := rfl

theorem levelOf_hasSuffix (ns : List Node) :
    (levelOf ns).hasSuffix = (ns.flatMap (fun n => (items n.entries).map Item.suffix)).map nonEmpty := by
  simp only [levelOf, suffixAll_items]

theorem levelOf_suffixes (ns : List Node) :
    (levelOf ns).suffixes = (ns.flatMap (fun n => (items n.entries).map Item.suffix)).filter nonEmpty := by
  simp only [levelOf, suffixAll_items]

theorem flatItems_suffix_eq (N : List Node) :
    N.flatMap (fun n => (items n.entries).map Item.suffix) = (N.flatMap (fun n => items n.entries)).map Item.suffix := by
  induction N with
  | nil => rfl
  | cons n r ih => simp [List.flatMap_cons, ih]

theorem encode_hasSuffix (t : Node) : (encode t).hasSuffix = ((flatItems t).map Item.suffix).map nonEmpty := by
  unfold encode flatten levelsOf flatItems bfs
  simp only []
  generalize nodeLevels t.height [t] = ls
  induction ls with
  | nil => rfl
  | cons ns r ih =>
    simp only [List.map_cons, List.flatMap_cons, List.flatten_cons, List.flatMap_append, List.map_append]
    rw [ih, levelOf_hasSuffix, flatItems_suffix_eq]

theorem encode_suffixes (t : Node) : (encode t).suffixes = ((flatItems t).map Item.suffix).filter nonEmpty := by
  unfold encode flatten levelsOf flatItems bfs
  simp only []
  generalize nodeLevels t.height [t] = ls
  induction ls with
  | nil => rfl
  | cons ns r ih =>
    simp only [List.map_cons, List.flatMap_cons, List.flatten_cons, List.flatMap_append, List.map_append,
      List.filter_append]
    rw [ih, levelOf_suffixes, flatItems_suffix_eq]

/-- **prefix lookup**: the prefix vector answers a node id with that node's compressed path -/
theorem prefixOf_eq (t : Node) (n : Nat) (N : Node) (h : (bfs t)[n]? = some N) :
    prefixOf (encode t) n = N.pfx := by
  obtain ⟨hlt, hN⟩ := List.getElem?_eq_some_iff.1 h
  unfold prefixOf
  rw [encode_hasPrefixLut, encode_hasPrefix, encode_prefixes, getPath_spec _ n (by simpa using hlt)]
  simp [hN]

/-- **suffix lookup**: the suffix vector answers a label position with that label's suffix -/
theorem suffixOf_eq (t : Node) (pos : Nat) (it : Item) (h : (flatItems t)[pos]? = some it) :
    suffixOf (encode t) pos = it.suffix := by
  obtain ⟨hlt, hI⟩ := List.getElem?_eq_some_iff.1 h
  unfold suffixOf
  rw [encode_hasSuffixLut, encode_hasSuffix, encode_suffixes, getPath_spec _ pos (by simpa using hlt)]
  simp [hI]

/-! ### where a node's labels sit in the vectors -/

theorem length_flatMap_items (N : List Node) :
    (N.flatMap (fun n => items n.entries)).length = (N.map (fun m => m.entries.length)).sum := by
  induction N with
  | nil => rfl
  | cons n r ih => simp [List.flatMap_cons, items_length, ih]

/-- the labels of node `n` of the level order occupy `[offset, offset + size)` -/
theorem flatItems_split (t : Node) (n : Nat) (N : Node) (h : (bfs t)[n]? = some N) :
    ∃ A B, flatItems t = A ++ items N.entries ++ B ∧ A.length = offset t n := by
  obtain ⟨hlt, hN⟩ := List.getElem?_eq_some_iff.1 h
  refine ⟨((bfs t).take n).flatMap (fun m => items m.entries),
    ((bfs t).drop (n + 1)).flatMap (fun m => items m.entries), ?_, ?_⟩
  · unfold flatItems
    conv => lhs; rw [← List.take_append_drop n (bfs t), ← List.getElem_cons_drop hlt, hN]
    simp [List.flatMap_append, List.flatMap_cons]
  · unfold offset
    exact length_flatMap_items _

theorem bfs_child_size {t : Node} (hwf : WFNode t) (n : Nat) (N : Node) (h : (bfs t)[n + 1]? = some N) :
    2 ≤ N.entries.length := by
  have hmem : N ∈ childrenOf (bfs t) := by
    have h2 : (bfs t).tail[n]? = some N := by
      rw [List.getElem?_tail]; exact h
    rw [bfs_eq t] at h2
    simp only [List.tail_cons] at h2
    exact List.mem_of_getElem? h2
  simp only [childrenOf, List.mem_flatMap] at hmem
  obtain ⟨m, hm, hNm⟩ := hmem
  have hwm := bfs_wf hwf m hm
  exact wf_child_size m hwm N hNm
where
  wfEntries_child_size : ∀ (es : Entries), WFEntries es → ∀ c ∈ Entries.children es, 2 ≤ c.entries.length
    | .nil, _, c, hc => by simp [Entries.children] at hc
    | .leaf _ _ _ r, h, c, hc => by
      unfold WFEntries at h
      simp only [Entries.children] at hc
      exact wfEntries_child_size r h.2.2 c hc
    | .child _ n r, h, c, hc => by
      unfold WFEntries at h
      simp only [Entries.children, List.mem_cons] at hc
      rcases hc with rfl | hc
      · exact h.2.2.2.1
      · exact wfEntries_child_size r h.2.2.2.2 c hc
  wf_child_size : ∀ (m : Node), WFNode m → ∀ c ∈ Entries.children m.entries, 2 ≤ c.entries.length
    | .mk _ .nil, h, _, _ => by simp [WFNode, WFRow] at h
    | .mk _ (.leaf l s v r), h, c, hc => by
      unfold WFNode WFRow at h
      simp only [Node.entries, Entries.children] at hc
      rcases h with ⟨_, _, _, hr⟩ | ⟨_, _, hr⟩ <;> exact wfEntries_child_size r hr c hc
    | .mk _ (.child l n r), h, c, hc => by
      unfold WFNode WFRow at h
      have : WFEntries (.child l n r) := by unfold WFEntries; exact h
      exact wfEntries_child_size _ this c hc

theorem sizes_pos {t : Node} (hwf : WFNode t) : ∀ s ∈ (bfs t).map (fun m => m.entries.length), 1 ≤ s := by
  intro s hs
  obtain ⟨m, hm, rfl⟩ := List.mem_map.1 hs
  exact wfNode_size_pos m (bfs_wf hwf m hm)

/-- **nodeSize**: `DistanceToNextSetBit(louds, firstLabelPos)` is the number of labels of the node -/
theorem nodeSize_eq {t : Node} (hwf : WFNode t) (n : Nat) (N : Node) (h : (bfs t)[n]? = some N) :
    nodeSize (encode t) (offset t n) = N.entries.length := by
  obtain ⟨hlt, hN⟩ := List.getElem?_eq_some_iff.1 h
  unfold nodeSize offset
  rw [encode_louds, List.map_take]
  have hn' : n < ((bfs t).map (fun m => m.entries.length)).length := by simpa using hlt
  have hsz : ((bfs t).map (fun m => m.entries.length))[n] = N.entries.length := by simp [hN]
  have hle := sum_take_add_le _ n hn'
  rw [hsz] at hle
  have hpos1 : 1 ≤ N.entries.length := wfNode_size_pos N (bfs_wf hwf N (List.mem_of_getElem? h))
  rw [distNext_loudsOfSizes_guard _ n (sizes_pos hwf) hn', hsz]
  have hW : wordSize = 64 := rfl
  rw [hW]
  cases n with
  | zero =>
    simp only [List.take_zero, List.sum_nil] at hle ⊢
    omega
  | succ j =>
    have := bfs_child_size hwf j N h
    omega

/-- **isEndOfNode** at a node's first label: the node has a single label -/
theorem isEndOfNode_first {t : Node} (hwf : WFNode t) (n : Nat) (N : Node) (h : (bfs t)[n]? = some N) :
    isEndOfNode (encode t) (offset t n) = (N.entries.length == 1) := by
  obtain ⟨hlt, hN⟩ := List.getElem?_eq_some_iff.1 h
  unfold isEndOfNode offset
  rw [encode_louds, List.map_take]
  have hn' : n < ((bfs t).map (fun m => m.entries.length)).length := by simpa using hlt
  have := louds_after_first _ n (sizes_pos hwf) hn'
  rw [this]
  simp [hN]

/-! ### `Get`: the label scan and what happens at the hit -/

/-- what `trie.Get` does at the label it found, on the tree … -/
def tfound (eon : Bool) (rest : Key) : Item → Option Nat
  | .leaf _ suf v => if suf == rest then some v else none
  | .child _ n => getNode eon n rest

/-- … and on the vectors -/
def lfound (eon : Bool) (f : Flat) (fuel : Nat) (rest : Key) (p : Nat) : Option Nat :=
  if !f.hasChild.getD p false then (if suffixOf f p == rest then f.values[valuePos f p]? else none)
  else lget eon f fuel (childNodeID f p) rest

theorem getEntries_find (eon : Bool) : ∀ (es : Entries) (c : Nat) (rest : Key),
    getEntries eon es c rest =
      match (items es).find? (fun it => it.label == c) with
      | none => none
      | some it => tfound eon rest it
  | .nil, _, _ => by simp [getEntries, items]
  | .leaf l suf v r, c, rest => by
    rw [getEntries, items, List.find?_cons]
    by_cases h : (l == c) = true
    · simp [h, Item.label, tfound]
    · simp only [Item.label, h, Bool.false_eq_true, if_false]
      exact getEntries_find eon r c rest
  | .child l n r, c, rest => by
    rw [getEntries, items, List.find?_cons]
    by_cases h : (l == c) = true
    · simp [h, Item.label, tfound]
    · simp only [Item.label, h, Bool.false_eq_true, if_false]
      exact getEntries_find eon r c rest

/-- the linear scan over `[A.length, A.length + R.length)` of the label vector finds the first
item of the row `R` with the label, and the two sides agree at the hit -/
theorem scan_eq {F : List Item} {labels : List Nat} (hlab : labels = F.map Item.label) (c : Nat)
    (L : Nat → Option Nat) (T : Item → Option Nat) (hLT : ∀ p it, F[p]? = some it → L p = T it) :
    ∀ (R A B : List Item), F = A ++ R ++ B →
      (match indexFrom labels c A.length R.length with
       | none => none
       | some p => L p) =
      (match R.find? (fun it => it.label == c) with
       | none => none
       | some it => T it)
  | [], A, B, _ => by simp [indexFrom]
  | it :: R', A, B, hF => by
    have hFA : F[A.length]? = some it := by
      rw [hF]; simp
    have hl : labels[A.length]? = some it.label := by
      rw [hlab, List.getElem?_map, hFA]; rfl
    simp only [List.length_cons, indexFrom, hl, List.find?_cons]
    by_cases h : (it.label == c) = true
    · simp only [h, if_true]
      exact hLT _ _ hFA
    · simp only [h, Bool.false_eq_true, if_false]
      have := scan_eq hlab c L T hLT R' (A ++ [it]) B (by rw [hF]; simp)
      simpa using this

/-- **`Get` over the LOUDS vectors = `Get` on the tree**, from any node of the level order -/
theorem lget_eq_getNode (eon : Bool) {t : Node} (hwf : WFNode t) :
    ∀ (fuel n : Nat) (N : Node) (key : Key), (bfs t)[n]? = some N → key.length < fuel →
      lget eon (encode t) fuel n key = getNode eon N key
  | 0, _, _, _, _, hk => by omega
  | fuel + 1, n, N, key, hN, hk => by
    have hlt : n < (bfs t).length := (List.getElem?_eq_some_iff.1 hN).1
    have hNwf : WFNode N := bfs_wf hwf N (List.mem_of_getElem? hN)
    obtain ⟨A, B, hF, hA⟩ := flatItems_split t n N hN
    have hpos := firstLabelPos_eq_offset hwf n hlt
    have hpfx := prefixOf_eq t n N hN
    have hsize := nodeSize_eq hwf n N hN
    have heon := isEndOfNode_first hwf n N hN
    have hlab := encode_labels t
    -- what the two sides do at a found label agrees (children by the induction hypothesis)
    have hLT : ∀ rest : Key, rest.length < fuel → ∀ p it, (flatItems t)[p]? = some it →
        lfound eon (encode t) fuel rest p = tfound eon rest it := by
      intro rest hr p it hp
      have hplt : p < (flatItems t).length := (List.getElem?_eq_some_iff.1 hp).1
      have hbit : (encode t).hasChild.getD p false = it.isChild := by
        rw [encode_hasChild, List.getD_eq_getElem?_getD, List.getElem?_map, hp]; rfl
      unfold lfound
      rw [hbit]
      cases it with
      | leaf l suf v =>
        simp only [Item.isChild, Bool.not_false, if_true, tfound]
        rw [suffixOf_eq t p _ hp, valuePos_eq_value_index p l suf v hp]
        rfl
      | child l cn =>
        simp only [Item.isChild, Bool.not_true, Bool.false_eq_true, if_false, tfound]
        exact lget_eq_getNode eon hwf fuel _ cn rest (childNodeID_eq_bfs_index p l cn hp) hr
    cases N with
    | mk pfx es =>
      simp only [Node.pfx, Node.entries] at hpfx hsize heon hF
      rw [lget]
      simp only [hpos, hpfx]
      cases es with
      | nil => simp [WFNode, WFRow] at hNwf
      | leaf l suf v r =>
        have hfirst : (flatItems t)[offset t n]? = some (.leaf l suf v) := by
          rw [hF, ← hA]; simp [items]
        have hl0 : (encode t).labels.getD (offset t n) 0 = l := by
          rw [hlab, List.getD_eq_getElem?_getD, List.getElem?_map, hfirst]; rfl
        have hc0 : (encode t).hasChild.getD (offset t n) false = false := by
          rw [encode_hasChild, List.getD_eq_getElem?_getD, List.getElem?_map, hfirst]; rfl
        have hrnil : (r.length + 1 == 1) = r.isNil := by
          cases r <;> simp [Entries.length, Entries.isNil]
        rw [getNode]
        cases hsp : stripPrefix pfx key with
        | none => rfl
        | some rem =>
          cases rem with
          | nil =>
            simp only [hl0, hc0, heon, Entries.length, hrnil, suffixOf_eq t _ _ hfirst, Item.suffix,
              valuePos_eq_value_index _ l suf v hfirst]
            cases hc : (l == labelTerminator && suf.isEmpty && (!eon || !r.isNil)) with
            | true =>
              simp only [Bool.and_eq_true] at hc
              simp [hc.1.1, hc.1.2, hc.2]
            | false =>
              simp only [Bool.false_eq_true, if_false]
              by_cases h1 : (l == labelTerminator) = true
              · by_cases h2 : (!eon || !r.isNil) = true
                · have h3 : suf.isEmpty = false := by
                    cases hs : suf.isEmpty with
                    | false => rfl
                    | true => simp [h1, h2, hs] at hc
                  simp [h1, h2, h3]
                · simp [h1, h2]
              · simp [h1]
          | cons c rest =>
            have hkey := (stripPrefix_eq_some pfx key (c :: rest)).1 hsp
            have hr : rest.length < fuel := by
              have := congrArg List.length hkey
              simp at this; omega
            simp only [searchLabel, hsize, hl0, Entries.length]
            have hcond : (decide (r.length + 1 > 1) && l == labelTerminator) = (l == labelTerminator && !r.isNil) := by
              cases r <;> simp [Entries.length, Entries.isNil, Bool.and_comm]
            rw [hcond]
            by_cases hskip : (l == labelTerminator && !r.isNil) = true
            · simp only [hskip, if_true, Nat.add_sub_cancel]
              rw [getEntries_find]
              have := scan_eq hlab c (lfound eon (encode t) fuel rest) (tfound eon rest) (hLT rest hr)
                (items r) (A ++ [.leaf l suf v]) B (by rw [hF]; simp [items])
              simp only [List.length_append, List.length_cons, List.length_nil, hA, items_length] at this
              exact this
            · simp only [hskip, Bool.false_eq_true, if_false]
              have hge : (if (l == c) = true then (if (suf == rest) = true then some v else none)
                  else getEntries eon r c rest) = getEntries eon (.leaf l suf v r) c rest := by
                rw [getEntries]
              rw [hge, getEntries_find]
              have := scan_eq hlab c (lfound eon (encode t) fuel rest) (tfound eon rest) (hLT rest hr)
                (items (.leaf l suf v r)) A B hF
              simp only [hA, items_length, Entries.length] at this
              exact this
      | child l cn r =>
        have hfirst : (flatItems t)[offset t n]? = some (.child l cn) := by
          rw [hF, ← hA]; simp [items]
        have hl0 : (encode t).labels.getD (offset t n) 0 = l := by
          rw [hlab, List.getD_eq_getElem?_getD, List.getElem?_map, hfirst]; rfl
        have hc0 : (encode t).hasChild.getD (offset t n) false = true := by
          rw [encode_hasChild, List.getD_eq_getElem?_getD, List.getElem?_map, hfirst]; rfl
        rw [getNode]
        case x_3 => intro _ _ _ _ h; cases h
        cases hsp : stripPrefix pfx key with
        | none => rfl
        | some rem =>
          cases rem with
          | nil =>
            simp only [hc0, Bool.not_true, Bool.and_false, Bool.false_and, Bool.false_eq_true, if_false]
          | cons c rest =>
            have hkey := (stripPrefix_eq_some pfx key (c :: rest)).1 hsp
            have hr : rest.length < fuel := by
              have := congrArg List.length hkey
              simp at this; omega
            simp only [searchLabel, hsize, hl0, Entries.length]
            have hcond : (decide (r.length + 1 > 1) && l == labelTerminator) = (l == labelTerminator && !r.isNil) := by
              cases r <;> simp [Entries.length, Entries.isNil, Bool.and_comm]
            rw [hcond]
            by_cases hskip : (l == labelTerminator && !r.isNil) = true
            · simp only [hskip, if_true, Nat.add_sub_cancel]
              rw [getEntries_find]
              have := scan_eq hlab c (lfound eon (encode t) fuel rest) (tfound eon rest) (hLT rest hr)
                (items r) (A ++ [.child l cn]) B (by rw [hF]; simp [items])
              simp only [List.length_append, List.length_cons, List.length_nil, hA, items_length] at this
              exact this
            · simp only [hskip, Bool.false_eq_true, if_false]
              have hge : (if (l == c) = true then getNode eon cn rest
                  else getEntries eon r c rest) = getEntries eon (.child l cn r) c rest := by
                rw [getEntries]
              rw [hge, getEntries_find]
              have := scan_eq hlab c (lfound eon (encode t) fuel rest) (tfound eon rest) (hLT rest hr)
                (items (.child l cn r)) A B hF
              simp only [hA, items_length, Entries.length] at this
              exact this

end LinVerif.Lemmas.C20
