/-
pkg/stream reader/writer primitives and the multi-field TSD stream (Model/Stream.lean).
-/
import LinVerif.Lemmas.C14Varint
import LinVerif.Model.Stream

namespace LinVerif.Stream
open LinVerif.Varint

theorem readSlice_append (orig pre rest : List Nat) :
    (⟨orig, pre ++ rest, .none⟩ : Reader).readSlice (pre.length : Int) = (pre, ⟨orig, rest, .none⟩) := by
  unfold Reader.readSlice
  have h1 : ¬ ((pre.length : Int) < 0) := by omega
  have h3 : ¬ ((pre.length : Int).toNat > (pre ++ rest).length) := by simp
  simp only [h1, if_false, ne_eq, not_true_eq_false, h3]
  simp

theorem rdLE_le16 (v : Nat) (h : v < 65536) : rdLE (le16 v) = v := by
  simp [rdLE, le16]; omega

theorem rdLE_le32 (v : Nat) (h : v < 4294967296) : rdLE (le32 v) = v := by
  simp [rdLE, le32]; omega

theorem rdLE_le64 (v : Nat) (h : v < 18446744073709551616) : rdLE (le64 v) = v := by
  simp [rdLE, le64, le32, two32]; omega

/-- `ReadUint16` reads back what `PutUInt16` wrote -/
theorem readUint16_put (orig rest : List Nat) (v : Nat) (h : v < 65536) :
    (⟨orig, le16 v ++ rest, .none⟩ : Reader).readUintN 2 = (v, ⟨orig, rest, .none⟩) := by
  unfold Reader.readUintN
  have := readSlice_append orig (le16 v) rest
  have hl : (le16 v).length = 2 := rfl
  rw [hl] at this
  rw [show ((2 : Nat) : Int) = ((2 : Nat) : Int) from rfl, this]
  simp [hl, rdLE_le16 v h]

theorem readUint32_put (orig rest : List Nat) (v : Nat) (h : v < 4294967296) :
    (⟨orig, le32 v ++ rest, .none⟩ : Reader).readUintN 4 = (v, ⟨orig, rest, .none⟩) := by
  unfold Reader.readUintN
  have := readSlice_append orig (le32 v) rest
  have hl : (le32 v).length = 4 := rfl
  rw [hl] at this
  rw [this]
  simp [hl, rdLE_le32 v h]

theorem readUint64_put (orig rest : List Nat) (v : Nat) (h : v < 18446744073709551616) :
    (⟨orig, le64 v ++ rest, .none⟩ : Reader).readUintN 8 = (v, ⟨orig, rest, .none⟩) := by
  unfold Reader.readUintN
  have := readSlice_append orig (le64 v) rest
  have hl : (le64 v).length = 8 := rfl
  rw [hl] at this
  rw [this]
  simp [hl, rdLE_le64 v h]

theorem readUvarint64_put (orig rest : List Nat) (v : Nat) (h : v < two64) :
    (⟨orig, putUvarint v ++ rest, .none⟩ : Reader).readUvarint64 = (v, ⟨orig, rest, .none⟩) := by
  unfold Reader.readUvarint64
  simp only [readUvarint_put v rest h, ofRErr]

theorem readVarint64_put (orig rest : List Nat) (v : Int) (h1 : -(two63 : Int) ≤ v) (h2 : v < (two63 : Int)) :
    (⟨orig, putVarint v ++ rest, .none⟩ : Reader).readVarint64 = (v, ⟨orig, rest, .none⟩) := by
  unfold Reader.readVarint64
  simp only [readVarint_put v rest h1 h2, ofRErr]

/-! ### TSD stream -/

abbrev Field := Nat × List Nat

def encodeField (f : Field) : List Nat := le16 f.1 ++ putUvarint (f.2.length % two32) ++ f.2

def writeFields (w : Writer) (fs : List Field) : Writer :=
  fs.foldl (fun w f => tsdStreamWriteField w f.1 f.2) w

theorem writeFields_buf (fs : List Field) : ∀ w : Writer, (writeFields w fs).buf = w.buf ++ fs.flatMap encodeField := by
  induction fs with
  | nil => intro w; simp [writeFields]
  | cons f fs ih =>
    intro w
    simp only [writeFields, List.foldl_cons, List.flatMap_cons] at ih ⊢
    rw [ih]
    simp [tsdStreamWriteField, Writer.putUint16, Writer.putUvarint, Writer.putBytes, encodeField, List.append_assoc]

def fieldOk (f : Field) : Prop := f.1 < 65536 ∧ f.2.length < 4294967296

/-- `for HasNext() { Next() }`, at most `fuel` fields; each entry records the id, the field bytes
and the state the shared field decoder was left in -/
def TsdStreamReader.readAll : Nat → TsdStreamReader → List (Nat × List Nat × Tsd.Dec) × TsdStreamReader
  | 0, sr => ([], sr)
  | fuel + 1, sr =>
    if sr.hasNext then
      let (id, data, sr1) := sr.next
      let (rest, sr2) := TsdStreamReader.readAll fuel sr1
      ((id, data, sr1.field) :: rest, sr2)
    else ([], sr)

theorem encodeField_ne_nil (f : Field) : encodeField f ≠ [] := by
  simp [encodeField, le16]

theorem readAll_spec : ∀ (fs : List Field) (orig : List Nat) (s e : Nat) (dec : Tsd.Dec) (fuel : Nat),
    (∀ f ∈ fs, fieldOk f) → fs.length < fuel →
    ∃ decs : List Tsd.Dec,
      (TsdStreamReader.readAll fuel ⟨⟨orig, fs.flatMap encodeField, .none⟩, s, e, dec⟩).1.map (fun x => (x.1, x.2.1))
        = fs ∧
      (TsdStreamReader.readAll fuel ⟨⟨orig, fs.flatMap encodeField, .none⟩, s, e, dec⟩).1.map (fun x => x.2.2) = decs ∧
      decs.length = fs.length ∧
      ∀ i (h : i < fs.length) (h2 : i < decs.length), ∃ d0 : Tsd.Dec, decs[i] = d0.resetWithTimeRange fs[i].2 s e := by
  intro fs
  induction fs with
  | nil =>
    intro orig s e dec fuel _ hf
    obtain ⟨f, rfl⟩ : ∃ f, fuel = f + 1 := ⟨fuel - 1, by omega⟩
    refine ⟨[], ?_, ?_, rfl, by intro i h; simp at h⟩ <;>
      simp [TsdStreamReader.readAll, TsdStreamReader.hasNext, Reader.empty]
  | cons f fs ih =>
    intro orig s e dec fuel hok hf
    obtain ⟨fl, rfl⟩ : ∃ fl, fuel = fl + 1 := ⟨fuel - 1, by simp at hf; omega⟩
    obtain ⟨hid, hlen⟩ := hok f (by simp)
    have hne : ((f :: fs).flatMap encodeField).length ≠ 0 := by
      intro h
      have := List.eq_nil_of_length_eq_zero h
      simp only [List.flatMap_cons, List.append_eq_nil_iff] at this
      exact encodeField_ne_nil f this.1
    have hhas : (⟨⟨orig, (f :: fs).flatMap encodeField, .none⟩, s, e, dec⟩ : TsdStreamReader).hasNext = true := by
      have : decide (((f :: fs).flatMap encodeField).length = 0) = false := by simpa using hne
      simp only [TsdStreamReader.hasNext, Reader.empty, this, Bool.not_false]
    have hmod : f.2.length % two32 = f.2.length := Nat.mod_eq_of_lt (by simpa [two32] using hlen)
    have hnext : (⟨⟨orig, (f :: fs).flatMap encodeField, .none⟩, s, e, dec⟩ : TsdStreamReader).next
        = (f.1, f.2, ⟨⟨orig, fs.flatMap encodeField, .none⟩, s, e, dec.resetWithTimeRange f.2 s e⟩) := by
      unfold TsdStreamReader.next
      simp only [List.flatMap_cons, encodeField, List.append_assoc]
      rw [readUint16_put orig _ f.1 hid]
      simp only [Reader.readUvarint32]
      rw [readUvarint64_put orig _ _ (by rw [hmod]; simp only [two64]; omega)]
      simp only [hmod, readSlice_append]
    obtain ⟨decs, h1, h2, h3, h4⟩ := ih orig s e (dec.resetWithTimeRange f.2 s e) fl
      (fun x hx => hok x (by simp [hx])) (by simp at hf; omega)
    refine ⟨dec.resetWithTimeRange f.2 s e :: decs, ?_, ?_, by simp [h3], ?_⟩
    · simp only [TsdStreamReader.readAll, hhas, if_true, hnext, List.map_cons, h1]
    · simp only [TsdStreamReader.readAll, hhas, if_true, hnext, List.map_cons, h2]
    · intro i hi hi2
      cases i with
      | zero => exact ⟨dec, rfl⟩
      | succ j =>
        simp only [List.getElem_cons_succ]
        exact h4 j (by simpa using hi) (by simpa using hi2)

end LinVerif.Stream
