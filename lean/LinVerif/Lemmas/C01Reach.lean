/-
C01 helper lemmas: the invariant over all histories (with process deaths at any FS operation).
-/
import LinVerif.Lemmas.C01Ops
import LinVerif.Spec.C01History

namespace LinVerif.Kv
open LinVerif

/-- the invariant of reachable states: an open store agrees with its disk; a dead/closed store's
disk is consistent with some committed state -/
def Good (cfg : Cfg) (s : St) : Prop :=
  match s.mem with
  | some m => Inv m s.disk ∧ m.cfg = cfg
  | none => ∃ a, Consistent cfg s.disk a

/-- `a` is the committed state of `s` (for an open store: its in-memory versions and its disk;
for a closed/dead one: any state its disk is consistent with) -/
def Committed (cfg : Cfg) (s : St) (a : Abs) : Prop :=
  match s.mem with
  | some m => a = absOf m s.disk
  | none => Consistent cfg s.disk a

theorem Consistent.empty (cfg : Cfg) : Consistent cfg Disk.empty ⟨[], [], Disk.empty⟩ := by
  refine ⟨rfl, by simp, ?_, ?_⟩
  · refine ⟨VS.init cfg.levels [], by simp [recoverVS, Disk.empty], rfl, ⟨by simp [VS.init], by simp [VS.init], by simp [VS.init]⟩,
      by simp [VS.init], by simp, by simp [Disk.empty]⟩
  · rintro name f ⟨o, ho, _⟩; simp at ho

theorem good_init (cfg : Cfg) : Good cfg St.init := ⟨_, Consistent.empty cfg⟩

/-- one operation: every prefix of its trace is consistent with the committed state before or
after it, and the invariant holds again afterwards -/
theorem runOp_atomic {cfg : Cfg} {s s' : St} {o : Op} {ops : List FsOp} (hg : Good cfg s)
    (ho : runOp cfg s o = some (s', ops)) :
    (∀ k, ∃ a, Consistent cfg (applyFsList s.disk (ops.take k)) a ∧ (Committed cfg s a ∨ Committed cfg s' a)) ∧
    Good cfg s' ∧ s'.disk = applyFsList s.disk ops := by
  obtain ⟨mem, d⟩ := s
  cases mem with
  | none =>
    cases o <;> simp only [runOp] at ho <;> try (simp at ho)
    obtain ⟨a, ha⟩ := hg
    obtain ⟨rfl, rfl⟩ := ho
    obtain ⟨m, hm, hcfg, _, _, hpre, hinv⟩ := open_consistent cfg d a ha
    refine ⟨fun k => ⟨a, hpre k, Or.inl ha⟩, ?_, rfl⟩
    simp only [Good, hm]
    exact ⟨hinv, hcfg⟩
  | some m =>
    obtain ⟨hinv, hcfg⟩ := hg
    subst hcfg
    have fromOK : ∀ {m' : Mem} {ops : List FsOp}, OpOK m d m' ops →
        (∀ k, ∃ a, Consistent m.cfg (applyFsList d (ops.take k)) a ∧
          (Committed m.cfg ⟨some m, d⟩ a ∨ Committed m.cfg ⟨some m', applyFsList d ops⟩ a)) ∧
        Good m.cfg ⟨some m', applyFsList d ops⟩ ∧ (⟨some m', applyFsList d ops⟩ : St).disk = applyFsList d ops := by
      intro m' ops hok
      refine ⟨fun k => ?_, ⟨hok.inv, hok.cfg⟩, rfl⟩
      rcases hok.prefixes k with h | h
      · exact ⟨_, h, Or.inl rfl⟩
      · exact ⟨_, h, Or.inr rfl⟩
    cases o with
    | openS => simp [runOp] at ho
    | createFamily name thr =>
      simp only [runOp] at ho
      cases hc : createFamily m d name thr with
      | none => simp [hc] at ho
      | some r =>
        obtain ⟨m', ops'⟩ := r
        simp only [hc, Option.some.injEq, Prod.mk.injEq] at ho
        obtain ⟨rfl, rfl⟩ := ho
        exact fromOK (createFamily_ok hinv hc)
    | flushStart name kvs seqs =>
      simp only [runOp] at ho
      cases hc : flushStart m name kvs seqs with
      | none => simp [hc] at ho
      | some r =>
        obtain ⟨m', ops'⟩ := r
        simp only [hc, Option.some.injEq, Prod.mk.injEq] at ho
        obtain ⟨rfl, rfl⟩ := ho
        exact fromOK (flushStart_ok hinv hc)
    | flushCommit name size =>
      simp only [runOp] at ho
      cases hc : flushCommit m name size with
      | none => simp [hc] at ho
      | some r =>
        obtain ⟨m', ops'⟩ := r
        simp only [hc, Option.some.injEq, Prod.mk.injEq] at ho
        obtain ⟨rfl, rfl⟩ := ho
        exact fromOK (flushCommit_ok hinv hc)
    | flushFail name =>
      simp only [runOp] at ho
      cases hc : flushFail m name with
      | none => simp [hc] at ho
      | some r =>
        obtain ⟨m', ops'⟩ := r
        simp only [hc, Option.some.injEq, Prod.mk.injEq] at ho
        obtain ⟨rfl, rfl⟩ := ho
        exact fromOK (flushFail_ok hinv hc).2.2.2
    | compact name size =>
      simp only [runOp] at ho
      cases hc : compact m d name size with
      | none => simp [hc] at ho
      | some r =>
        obtain ⟨m', ops', kind⟩ := r
        simp only [hc, Option.some.injEq, Prod.mk.injEq] at ho
        obtain ⟨rfl, rfl⟩ := ho
        exact fromOK (compact_ok hinv hc)
    | edit name logs =>
      simp only [runOp] at ho
      cases hc : editCommit m name logs with
      | none => simp [hc] at ho
      | some r =>
        obtain ⟨m', ops'⟩ := r
        simp only [hc, Option.some.injEq, Prod.mk.injEq] at ho
        obtain ⟨rfl, rfl⟩ := ho
        exact fromOK (editCommit_ok hinv hc)
    | close =>
      simp only [runOp, Option.some.injEq, Prod.mk.injEq] at ho
      obtain ⟨rfl, rfl⟩ := ho
      have hpre := closeStore_ok hinv
      refine ⟨fun k => ⟨_, hpre k, Or.inl rfl⟩, ?_, rfl⟩
      have := hpre (closeStore m).length
      rw [List.take_length] at this
      exact ⟨_, this⟩

theorem good_exec {cfg : Cfg} {s s' : St} {i : Item} (hg : Good cfg s) (he : exec cfg s i = some s') : Good cfg s' := by
  cases i with
  | run o =>
    simp only [exec, Option.map_eq_some_iff] at he
    obtain ⟨⟨s1, ops⟩, ho, rfl⟩ := he
    exact (runOp_atomic hg ho).2.1
  | die o k =>
    simp only [exec, Option.map_eq_some_iff] at he
    obtain ⟨⟨s1, ops⟩, ho, rfl⟩ := he
    obtain ⟨a, ha, _⟩ := (runOp_atomic hg ho).1 k
    exact ⟨a, ha⟩

theorem good_execAll {cfg : Cfg} {s s' : St} {items : List Item} (hg : Good cfg s)
    (he : execAll cfg s items = some s') : Good cfg s' := by
  induction items generalizing s with
  | nil => simp only [execAll, Option.some.injEq] at he; subst he; exact hg
  | cons i t ih =>
    simp only [execAll] at he
    cases hx : exec cfg s i with
    | none => simp [hx] at he
    | some s1 =>
      simp only [hx] at he
      exact ih (good_exec hg hx) he

end LinVerif.Kv
