/-
Bookkeeping lemmas for C04: the invariant linking rollupFiles (pending), referenceFiles (refs) and
the ghost multiset of merged contributions, preserved by every committed record of
flush / rollup, hence by every crash prefix.
-/
import Mathlib.Data.List.Nodup
import LinVerif.Model.Rollup

set_option linter.unusedSimpArgs false
namespace LinVerif.Lemmas.C04
open LinVerif.Rollup

/-- the inductive invariant -/
structure Inv (σ : St) : Prop where
  /-- no (source file, target interval) contribution was merged twice -/
  nodup : σ.merged.Nodup
  /-- a registered pair whose file is in level 0 is still pending or has been merged -/
  live : ∀ p ∈ σ.registered, p.1 ∈ σ.l0 → p ∈ σ.pending ∨ p ∈ σ.merged
  /-- a pair that is merged but still pending is protected by a reference in the target -/
  prot : ∀ p ∈ σ.pending, p ∈ σ.merged → (p.2, p.1) ∈ σ.refs
  /-- a reference exists only together with the merged output -/
  refm : ∀ q ∈ σ.refs, (q.2, q.1) ∈ σ.merged
  mreg : ∀ p ∈ σ.merged, p ∈ σ.registered
  preg : ∀ p ∈ σ.pending, p ∈ σ.registered

theorem Inv.init : Inv St.init := by
  constructor <;> simp [St.init]

/-- what makes a record legitimate in a state -/
def Just (σ : St) : Rec → Prop
  | .flush k _ _ => ∀ p ∈ σ.registered, p.1 ≠ k
  | .merge i inputs => inputs.Nodup ∧ ∀ k ∈ inputs, (k, i) ∈ σ.pending ∧ (i, k) ∉ σ.refs
  | .delRollup ds => ∀ p ∈ ds, p.1 ∈ σ.l0 → p ∈ σ.merged
  | .delRef i ks => ∀ k ∈ ks, (k, i) ∉ σ.pending
  | .compact _ => False

theorem Inv.apply {σ : St} (h : Inv σ) (r : Rec) (hj : Just σ r) : Inv (σ.apply r) := by
  cases r with
  | flush k ne ivs =>
    have hnew : ∀ p ∈ σ.registered, p.1 ≠ k := hj
    constructor
    · exact h.nodup
    · intro p hp hl
      simp only [St.apply, List.mem_append, List.mem_map] at hp ⊢
      rcases hp with hp | ⟨i, _, rfl⟩
      · have hl' : p.1 ∈ σ.l0 := by
          simp only [St.apply] at hl
          split at hl
          · rcases List.mem_append.1 hl with hl | hl
            · exact hl
            · simp at hl; exact absurd hl (hnew p hp)
          · exact hl
        rcases h.live p hp hl' with h1 | h1
        · exact Or.inl (Or.inl h1)
        · exact Or.inr h1
      · exact Or.inl (Or.inr ⟨i, by assumption, rfl⟩)
    · intro p hp hm
      simp only [St.apply, List.mem_append, List.mem_map] at hp hm ⊢
      rcases hp with hp | ⟨i, _, rfl⟩
      · exact h.prot p hp hm
      · exact absurd rfl (hnew _ (h.mreg _ hm))
    · exact h.refm
    · intro p hp
      simp only [St.apply, List.mem_append]
      exact Or.inl (h.mreg p hp)
    · intro p hp
      simp only [St.apply, List.mem_append, List.mem_map] at hp ⊢
      rcases hp with hp | hp
      · exact Or.inl (h.preg p hp)
      · exact Or.inr hp
  | merge i inputs =>
    obtain ⟨hnd, hin⟩ := hj
    have hnotm : ∀ k ∈ inputs, (k, i) ∉ σ.merged := by
      intro k hk hm
      exact (hin k hk).2 (h.prot (k, i) (hin k hk).1 hm)
    have hfilter : inputs.filter (fun k => decide ((i, k) ∉ σ.refs)) = inputs := by
      apply List.filter_eq_self.2
      intro k hk
      simpa using (hin k hk).2
    constructor
    · simp only [St.apply]
      rw [List.nodup_append]
      refine ⟨h.nodup, ?_, ?_⟩
      · exact hnd.map (fun a b hab => by simpa using hab)
      · intro a ha b hb hab
        subst hab
        obtain ⟨k, hk, rfl⟩ := List.mem_map.1 hb
        exact hnotm k hk ha
    · intro p hp hl
      simp only [St.apply, List.mem_append] at hp hl ⊢
      rcases h.live p hp hl with h1 | h1
      · exact Or.inl h1
      · exact Or.inr (Or.inl h1)
    · intro p hp hm
      simp only [St.apply, List.mem_append, List.mem_map, hfilter] at hp hm ⊢
      rcases hm with hm | ⟨k, hk, rfl⟩
      · exact Or.inl (h.prot p hp hm)
      · exact Or.inr ⟨k, hk, rfl⟩
    · intro q hq
      simp only [St.apply, List.mem_append, List.mem_map, hfilter] at hq ⊢
      rcases hq with hq | ⟨k, hk, rfl⟩
      · exact Or.inl (h.refm q hq)
      · exact Or.inr ⟨k, hk, rfl⟩
    · intro p hp
      simp only [St.apply, List.mem_append, List.mem_map] at hp ⊢
      rcases hp with hp | ⟨k, hk, rfl⟩
      · exact h.mreg p hp
      · exact h.preg _ (hin k hk).1
    · exact h.preg
  | delRollup ds =>
    have hds : ∀ p ∈ ds, p.1 ∈ σ.l0 → p ∈ σ.merged := hj
    constructor
    · exact h.nodup
    · intro p hp hl
      simp only [St.apply, List.mem_filter, decide_eq_true_eq] at hp hl ⊢
      by_cases hd : p ∈ ds
      · exact Or.inr (hds p hd hl)
      · rcases h.live p hp hl with h1 | h1
        · exact Or.inl ⟨h1, hd⟩
        · exact Or.inr h1
    · intro p hp hm
      simp only [St.apply, List.mem_filter] at hp hm ⊢
      exact h.prot p hp.1 hm
    · exact h.refm
    · exact h.mreg
    · intro p hp
      simp only [St.apply, List.mem_filter] at hp ⊢
      exact h.preg p hp.1
  | delRef i ks =>
    have hks : ∀ k ∈ ks, (k, i) ∉ σ.pending := hj
    constructor
    · exact h.nodup
    · exact h.live
    · intro p hp hm
      simp only [St.apply, List.mem_filter, decide_eq_true_eq] at hp hm ⊢
      refine ⟨h.prot p hp hm, ?_⟩
      rintro ⟨rfl, hk⟩
      exact hks p.1 hk hp
    · intro q hq
      simp only [St.apply, List.mem_filter] at hq ⊢
      exact h.refm q hq.1
    · exact h.mreg
    · exact h.preg
  | compact ks => exact absurd hj id

/-- a list of records each of which is legitimate in the state reached by its predecessors -/
def JustSeq : St → List Rec → Prop
  | _, [] => True
  | σ, r :: rs => Just σ r ∧ JustSeq (σ.apply r) rs

theorem JustSeq.append {σ : St} {a b : List Rec} (ha : JustSeq σ a) (hb : JustSeq (σ.applyAll a) b) :
    JustSeq σ (a ++ b) := by
  induction a generalizing σ with
  | nil => simpa [St.applyAll] using hb
  | cons r rs ih =>
    exact ⟨ha.1, ih ha.2 (by simpa [St.applyAll] using hb)⟩

theorem JustSeq.take {σ : St} {rs : List Rec} (h : JustSeq σ rs) (n : Nat) : JustSeq σ (rs.take n) := by
  induction rs generalizing σ n with
  | nil => simp [JustSeq]
  | cons r rs ih =>
    cases n with
    | zero => simp [JustSeq]
    | succ n => exact ⟨h.1, ih h.2 n⟩

theorem Inv.applyAll {σ : St} (h : Inv σ) {rs : List Rec} (hj : JustSeq σ rs) : Inv (σ.applyAll rs) := by
  induction rs generalizing σ with
  | nil => simpa [St.applyAll] using h
  | cons r rs ih =>
    simp only [St.applyAll, List.foldl_cons]
    exact ih (h.apply r hj.1) hj.2

/-! ### the records of one `rollup()` run are legitimate -/

theorem mem_dedup {α : Type} [DecidableEq α] (a : α) (l : List α) : a ∈ dedup l ↔ a ∈ l := by
  induction l with
  | nil => simp [dedup]
  | cons b t ih =>
    unfold dedup
    by_cases h : b ∈ t
    · simp only [h, if_true, ih, List.mem_cons]
      constructor
      · exact Or.inr
      · rintro (rfl | h') <;> assumption
    · simp [h, ih]

theorem nodup_dedup {α : Type} [DecidableEq α] (l : List α) : (dedup l).Nodup := by
  induction l with
  | nil => simp [dedup]
  | cons b t ih =>
    unfold dedup
    by_cases h : b ∈ t
    · simpa [h] using ih
    · simp only [h, if_false, List.nodup_cons]
      exact ⟨fun hb => h ((mem_dedup b t).1 hb), ih⟩

theorem mem_filesOf (pending : List (Key × Iv)) (fam : Nat) (i : Iv) (k : Key) :
    k ∈ filesOf pending fam i ↔ (k, i) ∈ pending ∧ k.1 = fam := by
  unfold filesOf
  rw [mem_dedup]
  simp only [List.mem_map, List.mem_filter, decide_eq_true_eq]
  constructor
  · rintro ⟨p, ⟨hp, hf, hi⟩, rfl⟩
    obtain ⟨k', i'⟩ := p
    simp only at hi hf ⊢
    subst hi
    exact ⟨hp, hf⟩
  · rintro ⟨hp, hf⟩
    exact ⟨(k, i), ⟨hp, hf, rfl⟩, rfl⟩

/-- state relation during the first loop: the source version is untouched -/
structure TInv (σ0 σ : St) : Prop where
  inv : Inv σ
  pend : σ.pending = σ0.pending
  l0 : σ.l0 = σ0.l0

theorem merged_mono_merge (σ : St) (i : Iv) (inputs : List Key) (p : Key × Iv) (hp : p ∈ σ.merged) :
    p ∈ (σ.apply (.merge i inputs)).merged := by
  simp only [St.apply, List.mem_append]; exact Or.inl hp

theorem tPhase_spec (σ0 : St) (fam : Nat) (avail : Iv → Bool) (ivs : List Iv) :
    ∀ σ : St, TInv σ0 σ →
      JustSeq σ (tPhase σ0.pending fam avail σ ivs).1 ∧
      TInv σ0 (σ.applyAll (tPhase σ0.pending fam avail σ ivs).1) ∧
      (∀ p ∈ σ.merged, p ∈ (σ.applyAll (tPhase σ0.pending fam avail σ ivs).1).merged) ∧
      (∀ p ∈ (tPhase σ0.pending fam avail σ ivs).2,
          p.1 ∈ σ0.l0 → p ∈ (σ.applyAll (tPhase σ0.pending fam avail σ ivs).1).merged) ∧
      (∀ i ∈ ivs, avail i = true → ∀ k ∈ filesOf σ0.pending fam i,
          (k, i) ∈ (tPhase σ0.pending fam avail σ ivs).2) := by
  induction ivs with
  | nil =>
    intro σ ht
    simp [tPhase, JustSeq, St.applyAll, ht]
  | cons i rest ih =>
    intro σ ht
    by_cases ha : avail i = true
    · -- available interval
      have hfiles : ∀ k ∈ filesOf σ0.pending fam i, (k, i) ∈ σ.pending := by
        intro k hk
        rw [ht.pend]
        exact ((mem_filesOf _ _ _ _).1 hk).1
      cases hm : mergeRec σ (filesOf σ0.pending fam i) i with
      | none =>
        -- nothing to merge: every file in level 0 is already referenced
        have hnone : ∀ k ∈ filesOf σ0.pending fam i, k ∈ σ0.l0 → (k, i) ∈ σ.merged := by
          intro k hk hl
          unfold mergeRec at hm
          simp only at hm
          split at hm
          · rename_i hempty
            by_cases hr : (i, k) ∈ σ.refs
            · exact ht.inv.refm (i, k) hr
            · have : k ∈ ((filesOf σ0.pending fam i).filter (fun k => decide ((i, k) ∉ σ.refs))).filter
                  (fun k => decide (k ∈ σ.l0)) := by
                simp only [List.mem_filter, decide_eq_true_eq]
                exact ⟨⟨hk, hr⟩, by rw [ht.l0]; exact hl⟩
              rw [hempty] at this
              exact absurd this (List.not_mem_nil)
          · exact absurd hm (by simp)
        obtain ⟨j1, j2, j3, j4, j5⟩ := ih σ ht
        have e : tPhase σ0.pending fam avail σ (i :: rest) =
            ((tPhase σ0.pending fam avail σ rest).1,
              (filesOf σ0.pending fam i).map (fun k => (k, i)) ++ (tPhase σ0.pending fam avail σ rest).2) := by
          rw [tPhase]; simp [ha, hm]
        rw [e]
        refine ⟨j1, j2, j3, ?_, ?_⟩
        · intro p hp hl
          rcases List.mem_append.1 hp with hp | hp
          · obtain ⟨k, hk, rfl⟩ := List.mem_map.1 hp
            exact j3 _ (hnone k hk hl)
          · exact j4 p hp hl
        · intro i' hi' ha' k hk
          rcases List.mem_cons.1 hi' with rfl | hi'
          · exact List.mem_append.2 (Or.inl (List.mem_map.2 ⟨k, hk, rfl⟩))
          · exact List.mem_append.2 (Or.inr (j5 i' hi' ha' k hk))
      | some r =>
        -- one merge record
        have hr : r = .merge i (((filesOf σ0.pending fam i).filter (fun k => decide ((i, k) ∉ σ.refs))).filter
            (fun k => decide (k ∈ σ.l0))) := by
          unfold mergeRec at hm
          simp only at hm
          split at hm
          · exact absurd hm (by simp)
          · exact (Option.some.inj hm).symm
        set inputs := ((filesOf σ0.pending fam i).filter (fun k => decide ((i, k) ∉ σ.refs))).filter
            (fun k => decide (k ∈ σ.l0)) with hinputs
        have hjust : Just σ r := by
          rw [hr]
          refine ⟨((nodup_dedup _).filter _).filter _, ?_⟩
          intro k hk
          simp only [hinputs, List.mem_filter, decide_eq_true_eq] at hk
          exact ⟨hfiles k hk.1.1, hk.1.2⟩
        have ht' : TInv σ0 (σ.apply r) := by
          refine ⟨ht.inv.apply r hjust, ?_, ?_⟩
          · rw [hr]; exact ht.pend
          · rw [hr]; exact ht.l0
        have hnow : ∀ k ∈ filesOf σ0.pending fam i, k ∈ σ0.l0 → (k, i) ∈ (σ.apply r).merged := by
          intro k hk hl
          rw [hr]
          simp only [St.apply, List.mem_append, List.mem_map]
          by_cases hrf : (i, k) ∈ σ.refs
          · exact Or.inl (ht.inv.refm (i, k) hrf)
          · refine Or.inr ⟨k, ?_, rfl⟩
            simp only [hinputs, List.mem_filter, decide_eq_true_eq]
            exact ⟨⟨hk, hrf⟩, by rw [ht.l0]; exact hl⟩
        obtain ⟨j1, j2, j3, j4, j5⟩ := ih (σ.apply r) ht'
        have e : tPhase σ0.pending fam avail σ (i :: rest) =
            (r :: (tPhase σ0.pending fam avail (σ.apply r) rest).1,
              (filesOf σ0.pending fam i).map (fun k => (k, i)) ++ (tPhase σ0.pending fam avail (σ.apply r) rest).2) := by
          rw [tPhase]; simp [ha, hm]
        rw [e]
        simp only [St.applyAll, List.foldl_cons] at j2 j3 j4 ⊢
        refine ⟨⟨hjust, j1⟩, j2, ?_, ?_, ?_⟩
        · intro p hp
          apply j3
          rw [hr]
          exact merged_mono_merge σ i _ p hp
        · intro p hp hl
          rcases List.mem_append.1 hp with hp | hp
          · obtain ⟨k, hk, rfl⟩ := List.mem_map.1 hp
            exact j3 _ (hnow k hk hl)
          · exact j4 p hp hl
        · intro i' hi' ha' k hk
          rcases List.mem_cons.1 hi' with rfl | hi'
          · exact List.mem_append.2 (Or.inl (List.mem_map.2 ⟨k, hk, rfl⟩))
          · exact List.mem_append.2 (Or.inr (j5 i' hi' ha' k hk))
    · -- interval skipped (target store missing / create or merge failed)
      obtain ⟨j1, j2, j3, j4, j5⟩ := ih σ ht
      have e : tPhase σ0.pending fam avail σ (i :: rest) = tPhase σ0.pending fam avail σ rest := by
        rw [tPhase]; simp [ha]
      rw [e]
      refine ⟨j1, j2, j3, j4, ?_⟩
      intro i' hi' ha' k hk
      rcases List.mem_cons.1 hi' with rfl | hi'
      · exact absurd ha' ha
      · exact j5 i' hi' ha' k hk

theorem dPhase_just (pending0 : List (Key × Iv)) (fam : Nat) (ok : Iv → Bool) (dvs : List Iv) :
    ∀ σ : St, (∀ i, ok i = true → ∀ k ∈ filesOf pending0 fam i, (k, i) ∉ σ.pending) →
      JustSeq σ (dPhase pending0 fam ok dvs) := by
  induction dvs with
  | nil => intro σ _; simp [dPhase, JustSeq]
  | cons i rest ih =>
    intro σ h
    rw [dPhase]
    split
    · rename_i hc
      refine ⟨fun k hk => h i hc.1 k hk, ih _ ?_⟩
      intro i' hi' k hk
      simpa [St.apply] using h i' hi' k hk
    · exact ih σ h

/-- every record of one run of `family.rollup()` is legitimate when it is committed -/
theorem rollupRecs_just (σ : St) (h : Inv σ) (fam : Nat) (ivs : List Iv) (avail : Iv → Bool) (dvs : List Iv) :
    JustSeq σ (rollupRecs σ fam ivs avail dvs) := by
  obtain ⟨j1, j2, _, j4, j5⟩ := tPhase_spec σ fam avail ivs σ ⟨h, rfl, rfl⟩
  unfold rollupRecs
  generalize hts : tPhase σ.pending fam avail σ ivs = tp at j1 j2 j4 j5
  obtain ⟨ts, ds⟩ := tp
  simp only at j1 j2 j4 j5 ⊢
  rw [List.append_assoc]
  apply JustSeq.append j1
  set σT := σ.applyAll ts with hσT
  by_cases hds : ds = []
  · subst hds
    simp only [if_true, List.nil_append]
    apply dPhase_just
    intro i hi k hk
    simp only [Bool.and_eq_true, decide_eq_true_eq] at hi
    exact absurd (j5 i hi.2 hi.1 k hk) (List.not_mem_nil)
  · simp only [hds, if_false]
    have hS : Just σT (.delRollup ds) := by
      intro p hp hl
      rw [j2.l0] at hl
      exact j4 p hp hl
    apply JustSeq.append (a := [Rec.delRollup ds])
    · exact ⟨hS, trivial⟩
    · apply dPhase_just
      intro i hi k hk
      simp only [Bool.and_eq_true, decide_eq_true_eq] at hi
      have hmem := j5 i hi.2 hi.1 k hk
      simp [St.applyAll, St.apply, List.mem_filter, hmem]


/-! ### operations preserve the invariant -/

theorem sameMem_iff {α : Type} [DecidableEq α] (a b : List α) (h : sameMem a b = true) (x : α) :
    x ∈ a ↔ x ∈ b := by
  simp only [sameMem, Bool.and_eq_true, List.all_eq_true, decide_eq_true_eq] at h
  exact ⟨h.1 x, h.2 x⟩

theorem Inv.step {σ : St} (h : Inv σ) (op : Op) : Inv (σ.step op) := by
  cases op with
  | flush fam file ne ivs =>
    simp only [St.step]
    split
    · rename_i hn
      refine h.apply _ ?_
      intro p hp
      simpa using (List.all_eq_true.1 hn) p hp
    · exact h
  | rollup fam ivs avail dvs cut =>
    have hj := rollupRecs_just σ h fam ivs (fun i => decide (i ∈ avail)) dvs
    simp only [St.step]
    cases cut with
    | none => exact h.applyAll hj
    | some n => exact h.applyAll (hj.take n)
  | reopen p r =>
    simp only [St.step]
    split
    · rename_i hs
      simp only [Bool.and_eq_true] at hs
      have hp := sameMem_iff p σ.pending hs.1
      have hr := sameMem_iff r σ.refs hs.2
      constructor
      · exact h.nodup
      · intro q hq hl
        rcases h.live q hq hl with h1 | h1
        · exact Or.inl ((hp q).2 h1)
        · exact Or.inr h1
      · intro q hq hm
        exact (hr _).2 (h.prot q ((hp q).1 hq) hm)
      · intro q hq
        exact h.refm q ((hr q).1 hq)
      · exact h.mreg
      · intro q hq
        exact h.preg q ((hp q).1 hq)
    · exact h

theorem Inv.run {σ : St} (h : Inv σ) (ops : List Op) : Inv (σ.run ops) := by
  induction ops generalizing σ with
  | nil => simpa [St.run] using h
  | cons op ops ih =>
    simp only [St.run, List.foldl_cons]
    exact ih (h.step op)

/-! ### a complete run drains the rollup entries -/

/-- records that do not touch the source family's rollup entries -/
def keepsPending : Rec → Bool
  | .merge _ _ => true
  | .delRef _ _ => true
  | _ => false

theorem applyAll_pending (σ : St) (rs : List Rec) (h : ∀ r ∈ rs, keepsPending r = true) :
    (σ.applyAll rs).pending = σ.pending := by
  induction rs generalizing σ with
  | nil => rfl
  | cons r rs ih =>
    simp only [St.applyAll, List.foldl_cons]
    have h1 := h r (List.mem_cons_self)
    have : (σ.apply r).pending = σ.pending := by
      cases r <;> simp [keepsPending] at h1 <;> rfl
    rw [← this]
    exact ih (σ.apply r) (fun x hx => h x (List.mem_cons_of_mem _ hx))

theorem tPhase_keeps (pending0 : List (Key × Iv)) (fam : Nat) (avail : Iv → Bool) (ivs : List Iv) :
    ∀ σ : St, ∀ r ∈ (tPhase pending0 fam avail σ ivs).1, keepsPending r = true := by
  induction ivs with
  | nil => intro σ r hr; simp [tPhase] at hr
  | cons i rest ih =>
    intro σ r hr
    by_cases ha : avail i = true
    · cases hm : mergeRec σ (filesOf pending0 fam i) i with
      | none =>
        have e : (tPhase pending0 fam avail σ (i :: rest)).1 = (tPhase pending0 fam avail σ rest).1 := by
          rw [tPhase]; simp [ha, hm]
        rw [e] at hr
        exact ih _ r hr
      | some r' =>
        have e : (tPhase pending0 fam avail σ (i :: rest)).1 = r' :: (tPhase pending0 fam avail (σ.apply r') rest).1 := by
          rw [tPhase]; simp [ha, hm]
        rw [e] at hr
        rcases List.mem_cons.1 hr with rfl | hr
        · unfold mergeRec at hm
          simp only at hm
          split at hm
          · exact absurd hm (by simp)
          · rw [← Option.some.inj hm]; rfl
        · exact ih _ r hr
    · have e : (tPhase pending0 fam avail σ (i :: rest)).1 = (tPhase pending0 fam avail σ rest).1 := by
        rw [tPhase]; simp [ha]
      rw [e] at hr
      exact ih _ r hr

theorem dPhase_keeps (pending0 : List (Key × Iv)) (fam : Nat) (ok : Iv → Bool) (dvs : List Iv) :
    ∀ r ∈ dPhase pending0 fam ok dvs, keepsPending r = true := by
  induction dvs with
  | nil => intro r hr; simp [dPhase] at hr
  | cons i rest ih =>
    intro r hr
    rw [dPhase] at hr
    split at hr
    · simp only [List.mem_cons] at hr
      rcases hr with rfl | hr
      · rfl
      · exact ih r hr
    · exact ih r hr

/-- after a complete run of `rollup()` for family `fam`, no rollup entry of that family for an
available target interval that was processed is left -/
theorem rollup_pending (σ : St) (h : Inv σ) (fam : Nat) (ivs : List Iv) (avail : Iv → Bool) (dvs : List Iv)
    (p : Key × Iv) (hp : p ∈ (σ.applyAll (rollupRecs σ fam ivs avail dvs)).pending) :
    p ∈ σ.pending ∧ ¬ (p.1.1 = fam ∧ p.2 ∈ ivs ∧ avail p.2 = true) := by
  obtain ⟨_, _, _, _, j5⟩ := tPhase_spec σ fam avail ivs σ ⟨h, rfl, rfl⟩
  have hk := tPhase_keeps σ.pending fam avail ivs σ
  unfold rollupRecs at hp
  generalize hts : tPhase σ.pending fam avail σ ivs = tp at j5 hk hp
  obtain ⟨ts, ds⟩ := tp
  simp only at j5 hk hp
  have hd := dPhase_keeps σ.pending fam (fun i => avail i && decide (i ∈ ivs)) dvs
  by_cases hds : ds = []
  · subst hds
    simp only [if_true, List.append_nil] at hp
    rw [applyAll_pending σ _ (by
      intro r hr
      rcases List.mem_append.1 hr with hr | hr
      · exact hk r hr
      · exact hd r hr)] at hp
    refine ⟨hp, ?_⟩
    rintro ⟨hf, hi, ha⟩
    have : p.1 ∈ filesOf σ.pending fam p.2 := (mem_filesOf _ _ _ _).2 ⟨hp, hf⟩
    exact absurd (j5 p.2 hi ha p.1 this) (List.not_mem_nil)
  · simp only [hds, if_false] at hp
    have e : σ.applyAll (ts ++ [Rec.delRollup ds] ++ dPhase σ.pending fam (fun i => avail i && decide (i ∈ ivs)) dvs)
        = ((σ.applyAll ts).apply (.delRollup ds)).applyAll (dPhase σ.pending fam (fun i => avail i && decide (i ∈ ivs)) dvs) := by
      simp [St.applyAll, List.foldl_append]
    rw [e, applyAll_pending _ _ hd] at hp
    simp only [St.apply, List.mem_filter, decide_eq_true_eq] at hp
    rw [applyAll_pending σ ts hk] at hp
    refine ⟨hp.1, ?_⟩
    rintro ⟨hf, hi, ha⟩
    have : p.1 ∈ filesOf σ.pending fam p.2 := (mem_filesOf _ _ _ _).2 ⟨hp.1, hf⟩
    exact hp.2 (j5 p.2 hi ha p.1 this)


/-! ### a failed attempt: nothing committed for the failed interval, its rollup entries are kept -/

theorem tPhase_ds_sub (pending0 : List (Key × Iv)) (fam : Nat) (avail : Iv → Bool) (ivs : List Iv) :
    ∀ σ : St, ∀ p ∈ (tPhase pending0 fam avail σ ivs).2,
      p.2 ∈ ivs ∧ avail p.2 = true ∧ p.1 ∈ filesOf pending0 fam p.2 := by
  induction ivs with
  | nil => intro σ p hp; simp [tPhase] at hp
  | cons i rest ih =>
    intro σ p hp
    by_cases ha : avail i = true
    · have hcase : ∃ σ', (tPhase pending0 fam avail σ (i :: rest)).2 =
          (filesOf pending0 fam i).map (fun k => (k, i)) ++ (tPhase pending0 fam avail σ' rest).2 := by
        cases hm : mergeRec σ (filesOf pending0 fam i) i with
        | none => exact ⟨σ, by rw [tPhase]; simp [ha, hm]⟩
        | some r => exact ⟨σ.apply r, by rw [tPhase]; simp [ha, hm]⟩
      obtain ⟨σ', e⟩ := hcase
      rw [e] at hp
      rcases List.mem_append.1 hp with hp | hp
      · obtain ⟨k, hk, rfl⟩ := List.mem_map.1 hp
        exact ⟨List.mem_cons_self, ha, hk⟩
      · obtain ⟨h1, h2, h3⟩ := ih σ' p hp
        exact ⟨List.mem_cons_of_mem _ h1, h2, h3⟩
    · have e : (tPhase pending0 fam avail σ (i :: rest)).2 = (tPhase pending0 fam avail σ rest).2 := by
        rw [tPhase]; simp [ha]
      rw [e] at hp
      obtain ⟨h1, h2, h3⟩ := ih σ p hp
      exact ⟨List.mem_cons_of_mem _ h1, h2, h3⟩

/-- the rollup entries of every interval that failed (or was not processed), and of every other
family, survive the run -/
theorem rollup_keeps_markers (σ : St) (fam : Nat) (ivs : List Iv) (avail : Iv → Bool) (dvs : List Iv)
    (p : Key × Iv) (hp : p ∈ σ.pending)
    (hkeep : p.1.1 ≠ fam ∨ p.2 ∉ ivs ∨ avail p.2 = false) :
    p ∈ (σ.applyAll (rollupRecs σ fam ivs avail dvs)).pending := by
  have hk := tPhase_keeps σ.pending fam avail ivs σ
  have hsub := tPhase_ds_sub σ.pending fam avail ivs σ
  unfold rollupRecs
  generalize hts : tPhase σ.pending fam avail σ ivs = tp at hk hsub
  obtain ⟨ts, ds⟩ := tp
  simp only at hk hsub ⊢
  have hd := dPhase_keeps σ.pending fam (fun i => avail i && decide (i ∈ ivs)) dvs
  have hnot : p ∉ ds := by
    intro hin
    obtain ⟨h1, h2, h3⟩ := hsub p hin
    have hf := ((mem_filesOf _ _ _ _).1 h3).2
    rcases hkeep with h | h | h
    · exact h hf
    · exact h h1
    · rw [h2] at h; exact absurd h (by simp)
  by_cases hds : ds = []
  · subst hds
    simp only [if_true, List.append_nil]
    rw [applyAll_pending σ _ (by
      intro r hr
      rcases List.mem_append.1 hr with hr | hr
      · exact hk r hr
      · exact hd r hr)]
    exact hp
  · simp only [hds, if_false]
    have e : σ.applyAll (ts ++ [Rec.delRollup ds] ++ dPhase σ.pending fam (fun i => avail i && decide (i ∈ ivs)) dvs)
        = ((σ.applyAll ts).apply (.delRollup ds)).applyAll (dPhase σ.pending fam (fun i => avail i && decide (i ∈ ivs)) dvs) := by
      simp [St.applyAll, List.foldl_append]
    rw [e, applyAll_pending _ _ hd]
    simp only [St.apply, List.mem_filter, decide_eq_true_eq]
    rw [applyAll_pending σ ts hk]
    exact ⟨hp, hnot⟩

/-- an attempt in which every interval fails commits no record at all -/
theorem rollupRecs_all_failed (σ : St) (fam : Nat) (ivs dvs : List Iv) :
    rollupRecs σ fam ivs (fun _ => false) dvs = [] := by
  have ht : ∀ (σ' : St) (l : List Iv), tPhase σ.pending fam (fun _ => false) σ' l = ([], []) := by
    intro σ' l
    induction l with
    | nil => simp [tPhase]
    | cons i rest ih => rw [tPhase]; simpa using ih
  have hdp : ∀ l : List Iv, dPhase σ.pending fam (fun _ => false) l = [] := by
    intro l
    induction l with
    | nil => simp [dPhase]
    | cons i rest ih => rw [dPhase]; simpa using ih
  have hfun : (fun i => false && decide (i ∈ ivs)) = (fun _ : Iv => false) := by funext i; simp
  unfold rollupRecs
  rw [ht σ ivs, hfun]
  simp [hdp dvs]

/-! ### the CAS guard -/

theorem guard_cas_inv (l : List GStep) (hl : ∀ s ∈ l, (∃ t, s = .cas t) ∨ (∃ t, s = .finish t)) :
    ∀ g : JobGuard, g.running.length ≤ 1 → (g.running ≠ [] → g.flag = true) →
      (g.run l).running.length ≤ 1 ∧ ((g.run l).running ≠ [] → (g.run l).flag = true) := by
  induction l with
  | nil => intro g h1 h2; exact ⟨h1, h2⟩
  | cons s rest ih =>
    intro g h1 h2
    have hs := hl s (List.mem_cons_self)
    have hr : ∀ s ∈ rest, (∃ t, s = .cas t) ∨ (∃ t, s = .finish t) := fun x hx => hl x (List.mem_cons_of_mem _ hx)
    simp only [JobGuard.run, List.foldl_cons]
    apply ih hr
    · rcases hs with ⟨t, rfl⟩ | ⟨t, rfl⟩
      · simp only [JobGuard.step]
        split
        · exact h1
        · rename_i hf
          have : g.running = [] := by
            by_contra hne
            exact hf (h2 hne)
          simp [this]
      · simp only [JobGuard.step]
        split
        · exact Nat.le_trans (List.length_filter_le _ _) h1
        · exact h1
    · rcases hs with ⟨t, rfl⟩ | ⟨t, rfl⟩
      · simp only [JobGuard.step]
        split
        · exact h2
        · intro _; rfl
      · simp only [JobGuard.step]
        split
        · rename_i hin
          intro hne
          exfalso
          apply hne
          rcases hg : g.running with _ | ⟨a, _ | ⟨b, tl⟩⟩
          · rfl
          · rw [hg] at hin
            have : t = a := by simpa using hin
            simp [this]
          · rw [hg] at h1; simp at h1
        · exact h2

end LinVerif.Lemmas.C04
