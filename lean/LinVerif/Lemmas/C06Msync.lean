/-
Lemmas for Model/C06Msync.lean: the Ack with its msync in flight linearizes at its Store; the locked
shape of queue.SetAcknowledgedSeq keeps the queue's positions ordered, monotone and written through for
every schedule of any number of callers, resets and puts.
-/
import LinVerif.Model.C06Msync
import LinVerif.Lemmas.C06Inv

set_option linter.unusedSimpArgs false

namespace LinVerif.FanOut.Msync
open LinVerif.FanOut LinVerif.Map

theorem arun_append (sp : Shape) (v : Variant) : ∀ (xs ys : List AOp) (a : AState),
    arun sp v a (xs ++ ys) = (arun sp v a xs).bind (fun a1 => arun sp v a1 ys)
  | [], ys, a => by simp [arun]
  | x :: xs, ys, a => by
    simp only [List.cons_append, arun]
    cases astep sp v a x with
    | none => simp
    | some a1 => simpa using arun_append sp v xs ys a1

theorem astep_op (sp : Shape) (v : Variant) (a a1 : AState) (o : Op) (h : astep sp v a (.op o) = some a1) :
    a1.s = (step v a.s o).1 ∧ a1.inflight = a.inflight := by
  unfold astep at h
  cases hi : a.inflight with
  | none => simp [hi] at h; subst h; exact ⟨rfl, rfl⟩
  | some p =>
    obtain ⟨g, ts⟩ := p
    simp [hi] at h
    obtain ⟨_, h⟩ := h
    subst h
    exact ⟨rfl, rfl⟩

/-- the other goroutines' operations while an Ack is (or is not) in flight are plain steps -/
theorem arun_ops (sp : Shape) (v : Variant) : ∀ (mids : List Op) (a a' : AState),
    arun sp v a (mids.map AOp.op) = some a' → a'.s = run v a.s mids ∧ a'.inflight = a.inflight
  | [], a, a', h => by
    simp [arun] at h
    subst h
    exact ⟨rfl, rfl⟩
  | o :: os, a, a', h => by
    simp only [List.map, arun] at h
    cases hst : astep sp v a (.op o) with
    | none => simp [hst] at h
    | some a1 =>
      simp only [hst] at h
      obtain ⟨e1, e2⟩ := astep_op sp v a a1 o hst
      obtain ⟨f1, f2⟩ := arun_ops sp v os a1 a' h
      exact ⟨by rw [f1, e1]; rfl, by rw [f2, e2]⟩

/-- Pinned shape: an Ack whose msync is in flight while ANY enabled operations of other goroutines
run, and whose msync then returns with or without an error, leaves exactly the state of the history
with the Ack as ONE step at the moment of its Store. -/
theorem ack_linearizes (sp : Shape) (hsp : sp.ackRollsBack = false) (v : Variant) (s : State) (g : Nat) (n : Int)
    (failed : Bool) (mids : List Op) (a' : AState)
    (h : arun sp v { s := s, inflight := none } (AOp.ackBegin g n :: (mids.map AOp.op ++ [AOp.ackEnd failed])) = some a') :
    a'.s = run v s (Op.ack g n :: mids) ∧ a'.inflight = none := by
  simp only [arun] at h
  cases hb : astep sp v { s := s, inflight := none } (.ackBegin g n) with
  | none => simp [hb] at h
  | some a1 =>
    simp only [hb] at h
    rw [arun_append] at h
    cases hm : arun sp v a1 (mids.map AOp.op) with
    | none => simp [hm] at h
    | some a2 =>
      simp only [hm, Option.bind] at h
      obtain ⟨e1, e2⟩ := arun_ops sp v mids a1 a2 hm
      -- the Ack's first half
      have hbeg : (a1.s = (s.ackGroup g n).1 ∧ ∃ ts, a1.inflight = some (g, ts)) ∨ (a1.inflight = none) := by
        unfold astep at hb
        cases hl : lookup s.live g with
        | none => simp [hl] at hb
        | some grp =>
          simp only [hl] at hb
          split at hb
          · cases hb; exact Or.inl ⟨rfl, _, rfl⟩
          · cases hb; exact Or.inr rfl
      rcases hbeg with ⟨hs1, ts, hin⟩ | hnone
      · -- the msync returns
        have hin2 : a2.inflight = some (g, ts) := by rw [e2, hin]
        simp only [arun, astep, hin2, hsp, Bool.false_and] at h
        cases h
        refine ⟨?_, rfl⟩
        show a2.s = run v (step v s (.ack g n)).1 mids
        rw [e1, hs1]; rfl
      · have hin2 : a2.inflight = none := by rw [e2, hnone]
        simp [arun, astep, hin2] at h

/-! ### queue.SetAcknowledgedSeq, locked shape -/

/-- invariant of the locked shape -/
structure QInvL (q : QState) : Prop where
  le : q.sh.qack ≤ q.sh.appended
  free : q.lock = none → q.sh.mAck = q.sh.qack ∧ ∀ i, q.pc i = .idle
  held : ∀ i, q.lock = some i → q.pc i = .stored q.sh.qack ∧ ∀ j, j ≠ i → q.pc j = .idle

theorem QInvL.start (app ack : Int) (h : ack ≤ app) : QInvL (QState.start app ack) :=
  ⟨h, fun _ => ⟨rfl, fun _ => rfl⟩, fun i hi => by simp [QState.start] at hi⟩

theorem QInvL.step {sp : Shape} (hsp : sp.setAckLocked = true) {q q' : QState} {o : QOp} (hi : QInvL q)
    (h : qstep sp q o = some q') : QInvL q' ∧ ((∀ n, o ≠ .reset n) → q.sh.qack ≤ q'.sh.qack) := by
  cases o with
  | enter i seq =>
    simp only [qstep, hsp] at h
    split at h
    · rename_i hpc
      simp only [if_true] at h
      split at h
      · cases h
      · rename_i hl
        have hl' : q.lock = none := by cases hq : q.lock <;> simp_all
        split at h
        · rename_i hg
          cases h
          refine ⟨⟨hg.2, ?_, ?_⟩, fun _ => by show q.sh.qack ≤ seq; omega⟩
          · intro hn; simp [QState.setPc] at hn
          · intro j hj
            simp [QState.setPc] at hj
            subst hj
            refine ⟨by simp [QState.setPc], fun k hk => ?_⟩
            simp [QState.setPc, hk]
            exact (hi.free hl').2 k
        · cases h; exact ⟨hi, fun _ => Int.le_refl _⟩
    · cases h
  | persist i =>
    simp only [qstep] at h
    split at h
    · rename_i seq hpc
      cases h
      -- the caller holds the lock
      have hown : q.lock = some i := by
        cases hq : q.lock with
        | none => have := (hi.free hq).2 i; rw [hpc] at this; cases this
        | some j =>
          by_cases hji : i = j
          · rw [hji]
          · have := (hi.held j hq).2 i hji; rw [hpc] at this; cases this
      have hseq : seq = q.sh.qack := by
        have := (hi.held i hown).1; rw [hpc] at this; cases this; rfl
      refine ⟨⟨hi.le, ?_, ?_⟩, fun _ => Int.le_refl _⟩
      · intro _
        refine ⟨hseq, fun k => ?_⟩
        by_cases hk : k = i
        · simp [QState.setPc, hk]
        · simp [QState.setPc, hk]; exact (hi.held i hown).2 k hk
      · intro j hj; simp at hj
    · rename_i seq hpc
      -- `checked` does not occur in the locked shape
      exfalso
      cases hq : q.lock with
      | none => have := (hi.free hq).2 i; rw [hpc] at this; cases this
      | some j =>
        by_cases hji : i = j
        · have := (hi.held j hq).1; rw [← hji, hpc] at this; cases this
        · have := (hi.held j hq).2 i hji; rw [hpc] at this; cases this
    · cases h
  | publish i =>
    simp only [qstep] at h
    split at h
    · rename_i seq hpc
      exfalso
      cases hq : q.lock with
      | none => have := (hi.free hq).2 i; rw [hpc] at this; cases this
      | some j =>
        by_cases hji : i = j
        · have := (hi.held j hq).1; rw [← hji, hpc] at this; cases this
        · have := (hi.held j hq).2 i hji; rw [hpc] at this; cases this
    · cases h
  | reset n =>
    simp only [qstep] at h
    split at h
    · cases h
    · rename_i hl
      have hl' : q.lock = none := by cases hq : q.lock <;> simp_all
      cases h
      exact ⟨⟨Int.le_refl _, fun _ => ⟨rfl, (hi.free hl').2⟩, fun j hj => by simp [hl'] at hj⟩, fun hn => absurd rfl (hn n)⟩
  | put =>
    simp only [qstep] at h
    split at h
    · cases h
    · rename_i hl
      have hl' : q.lock = none := by cases hq : q.lock <;> simp_all
      cases h
      refine ⟨⟨?_, fun _ => ⟨(hi.free hl').1, (hi.free hl').2⟩, fun j hj => by simp [hl'] at hj⟩, fun _ => Int.le_refl _⟩
      show q.sh.qack ≤ q.sh.appended + 1
      have := hi.le; omega

theorem QInvL.run {sp : Shape} (hsp : sp.setAckLocked = true) : ∀ (ops : List QOp) (q q' : QState), QInvL q →
    qrun sp q ops = some q' → QInvL q' ∧ ((∀ o ∈ ops, ∀ n, o ≠ .reset n) → q.sh.qack ≤ q'.sh.qack)
  | [], q, q', hi, h => by simp [qrun] at h; subst h; exact ⟨hi, fun _ => Int.le_refl _⟩
  | o :: os, q, q', hi, h => by
    simp only [qrun] at h
    cases hs : qstep sp q o with
    | none => simp [hs] at h
    | some q1 =>
      simp only [hs] at h
      obtain ⟨hi1, hm1⟩ := QInvL.step hsp hi hs
      obtain ⟨hi2, hm2⟩ := QInvL.run hsp os q1 q' hi1 h
      refine ⟨hi2, fun hnr => ?_⟩
      have a := hm1 (fun n => hnr o (List.mem_cons_self ..) n)
      have b := hm2 (fun o' ho' n => hnr o' (List.mem_cons_of_mem _ ho') n)
      omega

end LinVerif.FanOut.Msync
