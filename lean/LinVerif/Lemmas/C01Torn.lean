/-
C01 helper lemmas: what the entry reader does with a torn tail (outside C01's quantifier, stated
precisely): a tail that is only a complete length header is dropped silently; a tail with a partly
present content is an error.
-/
import LinVerif.Lemmas.C01Entries

namespace LinVerif.Kv

theorem take_add' {α : Type} (l : List α) (m n : Nat) : l.take (m + n) = l.take m ++ (l.drop m).take n := by
  induction l generalizing m with
  | nil => simp
  | cons x t ih =>
    cases m with
    | zero => simp
    | succ m =>
      have : m + 1 + n = (m + n) + 1 := by omega
      rw [this]
      simp [ih]

/-- io.ReadFull delivers the next `n` bytes, or all that is left when fewer are left -/
theorem readFull_take (B : Nat) : ∀ (fuel n : Nat) (s : RState), n ≤ fuel →
    (readFull B fuel s n).1 = s.stream.take n := by
  intro fuel
  induction fuel with
  | zero => intro n s hn; have : n = 0 := by omega
            subst this; simp [readFull]
  | succ fuel ih =>
    intro n s hn
    unfold readFull
    by_cases h0 : n = 0
    · subst h0; simp
    · simp only [h0, if_false]
      obtain ⟨h1, h2, h3, h4⟩ := readSome_spec B s n
      by_cases hc : (readSome B s n).1 = []
      · simp only [hc, if_true]
        have : s.stream = [] := by
          cases hs : s.stream with
          | nil => rfl
          | cons x t => exact absurd hc (h4 (by omega) (by simp [hs]))
        simp [this]
      · simp only [hc, if_false]
        generalize hcdef : (readSome B s n).1 = c at h1 h2 h3 hc ⊢
        generalize hsdef : (readSome B s n).2 = s2 at h2 ⊢
        have hpos : 0 < c.length := by
          cases hq : c with
          | nil => exact absurd hq hc
          | cons _ _ => simp
        rw [ih (n - c.length) s2 (by omega), h2]
        have hn' : n = c.length + (n - c.length) := by omega
        conv => rhs; rw [hn', take_add']
        rw [← h1]

/-- reading entries followed by an arbitrary tail: the complete entries come first -/
theorem readEntriesF_prefix (B : Nat) (hB : 1 ≤ B) (tail : Bytes) : ∀ (recs : List Bytes) (s : RState) (fuel : Nat),
    s.stream = writeEntries recs ++ tail → (writeEntries recs ++ tail).length + 1 ≤ fuel →
    ∃ s' fuel', s'.stream = tail ∧ tail.length + 1 ≤ fuel' ∧
      readEntriesF B fuel s = (recs ++ (readEntriesF B fuel' s').1, (readEntriesF B fuel' s').2) := by
  intro recs
  induction recs with
  | nil =>
    intro s fuel hs hf
    exact ⟨s, fuel, by simpa [writeEntries] using hs, by simpa [writeEntries] using hf, by simp⟩
  | cons r t ih =>
    intro s fuel hs hf
    obtain ⟨fuel', rfl⟩ : ∃ f, fuel = f + 1 := ⟨fuel - 1, by omega⟩
    have hne : s.stream ≠ [] := by
      rw [hs]; simp only [writeEntries, writeEntry]
      intro e
      have := (List.append_eq_nil_iff.mp e).1
      exact putUvarint_ne_nil r.length (List.append_eq_nil_iff.mp (List.append_eq_nil_iff.mp this).1).1
    have hg : getUvarint s.stream = some (r.length, r ++ (writeEntries t ++ tail)) := by
      rw [hs]; simp only [writeEntries, writeEntry, List.append_assoc]
      exact getUvarint_put _ _
    have hlenc := length_writeEntries_cons r t
    have hlen : s.stream.length ≤ fuel' := by rw [hs]; simp only [List.length_append] at hf ⊢; omega
    obtain ⟨s1, h1, hs1⟩ := readUvarintR_spec B hB s.stream s fuel' r.length _ rfl hg hlen
    obtain ⟨h2, h3⟩ := readFull_spec B r.length r.length s1 r (writeEntries t ++ tail) hs1 rfl (Nat.le_refl _)
    have hne' : ¬ (s.buf = [] ∧ s.rest = []) := by
      rintro ⟨hb, hr⟩; exact hne (by simp [RState.stream, hb, hr])
    obtain ⟨s', f', hs', hf', hres⟩ := ih (readFull B r.length s1 r.length).2 fuel' h3
      (by simp only [List.length_append] at hf ⊢; omega)
    refine ⟨s', f', hs', hf', ?_⟩
    simp only [readEntriesF, hne', if_false, h1, h2, Nat.lt_irrefl, hres]
    simp

/-- a torn tail that is ONLY a complete length header (content entirely missing) is silently ignored -/
theorem torn_tail_header_only (B : Nat) (hB : 1 ≤ B) (recs : List Bytes) (n : Nat) (hn : 0 < n) :
    readEntries B (writeEntries recs ++ putUvarint n) = (recs, true) := by
  obtain ⟨s', f', hs', hf', hres⟩ := readEntriesF_prefix B hB (putUvarint n) recs ⟨[], writeEntries recs ++ putUvarint n⟩
    ((writeEntries recs ++ putUvarint n).length + 1) (by simp [RState.stream]) (Nat.le_refl _)
  unfold readEntries
  rw [hres]
  obtain ⟨f'', rfl⟩ : ∃ f, f' = f + 1 := ⟨f' - 1, by omega⟩
  have hne : ¬ (s'.buf = [] ∧ s'.rest = []) := by
    rintro ⟨hb, hr⟩
    exact putUvarint_ne_nil n (by rw [← hs']; simp [RState.stream, hb, hr])
  have hg : getUvarint s'.stream = some (n, []) := by
    rw [hs']; have := getUvarint_put n []; simpa using this
  obtain ⟨s1, h1, hs1⟩ := readUvarintR_spec B hB s'.stream s' f'' n _ rfl hg (by rw [hs']; omega)
  have h2 : (readFull B n s1 n).1 = [] := by rw [readFull_take B n n s1 (Nat.le_refl _), hs1]; simp
  simp [readEntriesF, hne, h1, h2, hn]

/-- a torn tail with a PARTLY present content is an error (io.ErrUnexpectedEOF): recovery fails -/
theorem torn_tail_partial_content (B : Nat) (hB : 1 ≤ B) (recs : List Bytes) (n : Nat) (a : Bytes)
    (ha : a ≠ []) (hlt : a.length < n) :
    readEntries B (writeEntries recs ++ (putUvarint n ++ a)) = (recs, false) := by
  obtain ⟨s', f', hs', hf', hres⟩ := readEntriesF_prefix B hB (putUvarint n ++ a) recs
    ⟨[], writeEntries recs ++ (putUvarint n ++ a)⟩ _ (by simp [RState.stream]) (Nat.le_refl _)
  unfold readEntries
  rw [hres]
  obtain ⟨f'', rfl⟩ : ∃ f, f' = f + 1 := ⟨f' - 1, by omega⟩
  have hne : ¬ (s'.buf = [] ∧ s'.rest = []) := by
    rintro ⟨hb, hr⟩
    have : putUvarint n ++ a = [] := by rw [← hs']; simp [RState.stream, hb, hr]
    exact ha (List.append_eq_nil_iff.mp this).2
  have hg : getUvarint s'.stream = some (n, a) := by rw [hs']; exact getUvarint_put n a
  obtain ⟨s1, h1, hs1⟩ := readUvarintR_spec B hB s'.stream s' f'' n _ rfl hg
    (by rw [hs']; simp only [List.length_append] at hf' ⊢; omega)
  have h2 : (readFull B n s1 n).1 = a := by
    rw [readFull_take B n n s1 (Nat.le_refl _), hs1, List.take_of_length_le (by omega)]
  simp [readEntriesF, hne, h1, h2, hlt, ha]

end LinVerif.Kv
