/-
C09, round 9: histories with FAULTED index flushes. `metricIndexDatabase.Flush` runs four steps
(metric→series postings, forward, inverted, series dictionary); one of them may fail at its kv family
commit. The lock-step clauses of `ShardInv` (postings and dictionary are frozen and flushed together) do
not survive such a round, so this file has an invariant of its own, `CoverInv`:

  every entry of the series dictionary is covered by a metric→series posting that is at least as far on
  its way to the disk (mutable ⊑ anything, immutable ⊑ frozen ∪ disk, disk ⊑ disk),

kept by every operation of the sequential model, by a faulted flush whose failed step ABORTS the round
(lindb's control flow), by crashes after any prefix and by reopen — and NOT by a faulted flush that carries
on after the failed step (Props/C09 `Neg.flush_join_*`).
-/
import LinVerif.Lemmas.C09Run

namespace LinVerif.IdAssign

/-! ### the two layered tables under PrepareFlush (the shape lindb has now: swap when nil OR empty) -/

theorem Layers.prepareE_of_empty {α : Type} (l : Layers α) (h : l.frzList = []) :
    l.dropEmpty.prepareFlush = { cur := [], frz := some l.cur, disk := l.disk } := by
  obtain ⟨cur, frz, disk⟩ := l
  cases frz with
  | none => rfl
  | some f =>
    cases f with
    | nil => rfl
    | cons a r => simp [Layers.frzList] at h

theorem Layers.prepareE_of_nonempty {α : Type} (l : Layers α) (h : l.frzList ≠ []) :
    l.dropEmpty.prepareFlush = l := by
  obtain ⟨cur, frz, disk⟩ := l
  cases frz with
  | none => simp [Layers.frzList] at h
  | some f =>
    cases f with
    | nil => simp [Layers.frzList] at h
    | cons a r => rfl

theorem KvStore.prepareE_of_noNeed (s : KvStore) (h : s.needFlush = false) :
    s.dropEmpty.prepareFlush =
      { s with immutable := some (s.mutable, s.mutEmpty), mutable := Dict.empty, mutEmpty := true } := by
  obtain ⟨mu, me, imm, disk, snap, fs⟩ := s
  cases imm with
  | none => rfl
  | some p =>
    obtain ⟨d, e⟩ := p
    cases e with
    | true => rfl
    | false => simp [KvStore.needFlush] at h

theorem KvStore.prepareE_of_need (s : KvStore) (h : s.needFlush = true) : s.dropEmpty.prepareFlush = s := by
  obtain ⟨mu, me, imm, disk, snap, fs⟩ := s
  cases imm with
  | none => simp [KvStore.needFlush] at h
  | some p =>
    obtain ⟨d, e⟩ := p
    cases e with
    | true => simp [KvStore.needFlush] at h
    | false => rfl

/-- a flushed posting table: nothing frozen is left, nothing is lost -/
theorem Layers.flush_spec {α : Type} (l : Layers α) :
    l.flush.frzList = [] ∧ l.flush.cur = l.cur ∧
    (∀ a, a ∈ l.flush.disk ↔ a ∈ l.frzList ∨ a ∈ l.disk) := by
  obtain ⟨cur, frz, disk⟩ := l
  cases frz with
  | none => simp [Layers.flush, Layers.frzList]
  | some f =>
    cases f with
    | nil => simp [Layers.flush, Layers.frzList]
    | cons a r => simp [Layers.flush, Layers.frzList, or_assoc]

/-! ### the invariant -/

structure CoverInv (sh : Shard) : Prop where
  snapDisk : sh.series.snap = sh.series.disk
  /-- committed dictionary entries: their postings are committed -/
  diskCover : ∀ m ts i, sh.series.disk m ts = some i → (m, i) ∈ sh.minv.disk
  /-- frozen dictionary entries: their postings are frozen or committed -/
  immCover : ∀ m ts i, sh.series.immDict m ts = some i → (m, i) ∈ sh.minv.frzList ∨ (m, i) ∈ sh.minv.disk
  mutCover : ∀ m ts i, sh.series.mutable m ts = some i → (m, i) ∈ sh.minv.all
  /-- when the dictionary has nothing frozen to write, neither have the postings: a round never commits
  the dictionary without the postings -/
  frzSync : sh.series.needFlush = false → sh.minv.frzList = []
  curSync : sh.series.mutEmpty = true → sh.minv.cur = []
  cache : ∀ m c, sh.seqCache m = some c → ∀ i, (m, i) ∈ sh.minv.all → i ≤ c

theorem coverInv_init : CoverInv {} := by
  refine ⟨rfl, ?_, ?_, ?_, ?_, ?_, ?_⟩ <;> intros <;> simp_all [KvStore.immDict, Dict.empty, Layers.frzList]

theorem coverInv_congr {s s' : Shard} (h1 : s'.series = s.series) (h2 : s'.seqCache = s.seqCache) (h3 : s'.minv = s.minv)
    (inv : CoverInv s) : CoverInv s' := by
  obtain ⟨a, b, c, d, e, f, g⟩ := inv
  refine ⟨?_, ?_, ?_, ?_, ?_, ?_, ?_⟩
  · rw [h1]; exact a
  · rw [h1, h3]; exact b
  · rw [h1, h3]; exact c
  · rw [h1, h3]; exact d
  · rw [h1, h3]; exact e
  · rw [h1, h3]; exact f
  · rw [h2, h3]; exact g

/-- every entry the dictionary answers with has a posting -/
theorem CoverInv.lookupCover {sh : Shard} (inv : CoverInv sh) {m ts i : Nat} (h : sh.series.lookup m ts = some i) :
    (m, i) ∈ sh.minv.all := by
  rw [lookup_eq] at h
  cases hm : sh.series.mutable m ts with
  | some j => rw [hm] at h; exact (Option.some.inj h) ▸ inv.mutCover m ts j hm
  | none =>
    rw [hm] at h
    cases hi : sh.series.immDict m ts with
    | some j =>
      rw [hi] at h
      have hj : j = i := Option.some.inj h
      rw [← hj]
      rcases inv.immCover m ts j hi with h' | h'
      · exact (Layers.mem_all _ _).2 (Or.inr (Or.inl h'))
      · exact (Layers.mem_all _ _).2 (Or.inr (Or.inr h'))
    | none =>
      rw [hi] at h
      have : sh.series.disk m ts = some i := by rw [← inv.snapDisk]; exact h
      exact (Layers.mem_all _ _).2 (Or.inr (Or.inr (inv.diskCover m ts i this)))

/-- `createSeriesID` lies above every posting of the metric -/
theorem CoverInv.createFresh {sh : Shard} (inv : CoverInv sh) {m i : Nat} (h : (m, i) ∈ sh.minv.all) :
    i < sh.createSeriesID m := by
  unfold Shard.createSeriesID
  cases hc : sh.seqCache m with
  | some c => exact Nat.lt_succ_of_le (inv.cache m c hc i h)
  | none =>
    have hm := (sh.mem_metricSeries m i).2 h
    cases hl : sh.metricSeries m with
    | nil => rw [hl] at hm; cases hm
    | cons a r => rw [hl] at hm; exact Nat.lt_succ_of_le (le_maxList hm)

/-- **the id of a new series is not in the dictionary** — in any state the invariant describes: live, after
failed flush steps, recovered -/
theorem CoverInv.new_id_unused {sh : Shard} (inv : CoverInv sh) {m ts i : Nat} (h : sh.series.lookup m ts = some i) :
    i < sh.createSeriesID m := inv.createFresh (inv.lookupCover h)

/-! ### PrepareFlush -/

theorem coverInv_prepare {sh : Shard} (inv : CoverInv sh) : CoverInv (sh.prepareFlushE true) := by
  have e : sh.prepareFlushE true =
      { sh with minv := sh.minv.dropEmpty.prepareFlush, fwd := sh.fwd.dropEmpty.prepareFlush,
                inv := sh.inv.dropEmpty.prepareFlush, series := sh.series.dropEmpty.prepareFlush } := rfl
  rw [e]
  cases hn : sh.series.needFlush with
  | false =>
    have hf := inv.frzSync hn
    have em : sh.minv.dropEmpty.prepareFlush = { cur := [], frz := some sh.minv.cur, disk := sh.minv.disk } :=
      Layers.prepareE_of_empty _ hf
    have es := KvStore.prepareE_of_noNeed _ hn
    refine ⟨?_, ?_, ?_, ?_, ?_, ?_, ?_⟩
    · show (sh.series.dropEmpty.prepareFlush).snap = (sh.series.dropEmpty.prepareFlush).disk
      rw [es]; exact inv.snapDisk
    · intro m ts i h
      have h' : (sh.series.dropEmpty.prepareFlush).disk m ts = some i := h
      rw [es] at h'
      show (m, i) ∈ (sh.minv.dropEmpty.prepareFlush).disk
      rw [em]; exact inv.diskCover m ts i h'
    · intro m ts i h
      have h' : (sh.series.dropEmpty.prepareFlush).immDict m ts = some i := h
      rw [es] at h'
      have h'' : sh.series.mutable m ts = some i := h'
      show (m, i) ∈ (sh.minv.dropEmpty.prepareFlush).frzList ∨ (m, i) ∈ (sh.minv.dropEmpty.prepareFlush).disk
      rw [em]
      have := (Layers.mem_all _ _).1 (inv.mutCover m ts i h'')
      rw [hf] at this
      rcases this with h1 | h1 | h1
      · exact Or.inl h1
      · cases h1
      · exact Or.inr h1
    · intro m ts i h
      have h' : (sh.series.dropEmpty.prepareFlush).mutable m ts = some i := h
      rw [es] at h'
      simp [Dict.empty] at h'
    · intro h
      have h' : (sh.series.dropEmpty.prepareFlush).needFlush = false := h
      rw [es] at h'
      show (sh.minv.dropEmpty.prepareFlush).frzList = []
      rw [em]
      have me : sh.series.mutEmpty = true := by
        cases hme : sh.series.mutEmpty with
        | true => rfl
        | false => simp [KvStore.needFlush, hme] at h'
      exact inv.curSync me
    · intro _
      show (sh.minv.dropEmpty.prepareFlush).cur = []
      rw [em]
    · intro m c hc i h
      have h' : (m, i) ∈ (sh.minv.dropEmpty.prepareFlush).all := h
      rw [em] at h'
      apply inv.cache m c hc i
      have := (Layers.mem_all _ _).1 h'
      rcases this with h1 | h1 | h1
      · cases h1
      · exact (Layers.mem_all _ _).2 (Or.inl h1)
      · exact (Layers.mem_all _ _).2 (Or.inr (Or.inr h1))
  | true =>
    have es := KvStore.prepareE_of_need _ hn
    by_cases hf : sh.minv.frzList = []
    · have em : sh.minv.dropEmpty.prepareFlush = { cur := [], frz := some sh.minv.cur, disk := sh.minv.disk } :=
        Layers.prepareE_of_empty _ hf
      refine ⟨?_, ?_, ?_, ?_, ?_, ?_, ?_⟩
      · show (sh.series.dropEmpty.prepareFlush).snap = (sh.series.dropEmpty.prepareFlush).disk
        rw [es]; exact inv.snapDisk
      · intro m ts i h
        have h' : (sh.series.dropEmpty.prepareFlush).disk m ts = some i := h
        rw [es] at h'
        show (m, i) ∈ (sh.minv.dropEmpty.prepareFlush).disk
        rw [em]; exact inv.diskCover m ts i h'
      · intro m ts i h
        have h' : (sh.series.dropEmpty.prepareFlush).immDict m ts = some i := h
        rw [es] at h'
        show (m, i) ∈ (sh.minv.dropEmpty.prepareFlush).frzList ∨ (m, i) ∈ (sh.minv.dropEmpty.prepareFlush).disk
        rw [em]
        rcases inv.immCover m ts i h' with h1 | h1
        · rw [hf] at h1; cases h1
        · exact Or.inr h1
      · intro m ts i h
        have h' : (sh.series.dropEmpty.prepareFlush).mutable m ts = some i := h
        rw [es] at h'
        show (m, i) ∈ (sh.minv.dropEmpty.prepareFlush).all
        rw [em]
        have := (Layers.mem_all _ _).1 (inv.mutCover m ts i h')
        rw [hf] at this
        rcases this with h1 | h1 | h1
        · exact (Layers.mem_all _ _).2 (Or.inr (Or.inl h1))
        · cases h1
        · exact (Layers.mem_all _ _).2 (Or.inr (Or.inr h1))
      · intro h
        have h' : (sh.series.dropEmpty.prepareFlush).needFlush = false := h
        rw [es, hn] at h'; cases h'
      · intro _
        show (sh.minv.dropEmpty.prepareFlush).cur = []
        rw [em]
      · intro m c hc i h
        have h' : (m, i) ∈ (sh.minv.dropEmpty.prepareFlush).all := h
        rw [em] at h'
        apply inv.cache m c hc i
        rcases (Layers.mem_all _ _).1 h' with h1 | h1 | h1
        · cases h1
        · exact (Layers.mem_all _ _).2 (Or.inl h1)
        · exact (Layers.mem_all _ _).2 (Or.inr (Or.inr h1))
    · have em : sh.minv.dropEmpty.prepareFlush = sh.minv := Layers.prepareE_of_nonempty _ hf
      exact coverInv_congr (s := sh) es rfl em inv

/-! ### the steps of the flush -/

theorem coverInv_step0 {sh : Shard} (inv : CoverInv sh) :
    CoverInv (sh.flushStep 0) ∧ (sh.flushStep 0).minv.frzList = [] := by
  obtain ⟨f1, f2, f3⟩ := Layers.flush_spec sh.minv
  have hall : ∀ a, a ∈ sh.minv.flush.all ↔ a ∈ sh.minv.all := by
    intro a
    rw [Layers.mem_all, Layers.mem_all, f1, f2, f3]
    simp
  refine ⟨⟨inv.snapDisk, ?_, ?_, ?_, ?_, ?_, ?_⟩, f1⟩
  · intro m ts i h
    exact (f3 _).2 (Or.inr (inv.diskCover m ts i h))
  · intro m ts i h
    exact Or.inr ((f3 _).2 (inv.immCover m ts i h))
  · intro m ts i h
    exact (hall _).2 (inv.mutCover m ts i h)
  · intro _; exact f1
  · intro h
    show sh.minv.flush.cur = []
    rw [f2]; exact inv.curSync h
  · intro m c hc i h
    exact inv.cache m c hc i ((hall _).1 h)

theorem coverInv_step12 {sh : Shard} (inv : CoverInv sh) :
    CoverInv (sh.flushStep 1) ∧ (sh.flushStep 1).minv = sh.minv ∧
    CoverInv (sh.flushStep 2) ∧ (sh.flushStep 2).minv = sh.minv :=
  ⟨coverInv_congr (s := sh) rfl rfl rfl inv, rfl, coverInv_congr (s := sh) rfl rfl rfl inv, rfl⟩

/-- the dictionary step keeps the invariant BECAUSE the postings step of the round has run -/
theorem coverInv_step3 {sh : Shard} (inv : CoverInv sh) (hf : sh.minv.frzList = []) : CoverInv (sh.flushStep 3) := by
  show CoverInv { sh with series := sh.series.flush }
  cases h : sh.series.immutable with
  | none =>
    have : sh.series.flush = sh.series := by simp [KvStore.flush, KvStore.commit, KvStore.finish, h]
    rw [this]; exact inv
  | some p =>
    obtain ⟨d, e⟩ := p
    cases e with
    | true =>
      have : sh.series.flush = sh.series := by simp [KvStore.flush, KvStore.commit, KvStore.finish, h]
      rw [this]; exact inv
    | false =>
      have e_disk : sh.series.flush.disk = d.over sh.series.disk := by
        simp [KvStore.flush, KvStore.commit, KvStore.finish, h]
      have e_snap : sh.series.flush.snap = d.over sh.series.disk := by
        simp [KvStore.flush, KvStore.commit, KvStore.finish, h]
      have e_imm : sh.series.flush.immutable = none := by
        simp [KvStore.flush, KvStore.commit, KvStore.finish, h]
      have e_mut : sh.series.flush.mutable = sh.series.mutable := by
        simp [KvStore.flush, KvStore.commit, KvStore.finish, h]
      have e_me : sh.series.flush.mutEmpty = sh.series.mutEmpty := by
        simp [KvStore.flush, KvStore.commit, KvStore.finish, h]
      have hd : sh.series.immDict = d := by simp [KvStore.immDict, h]
      refine ⟨?_, ?_, ?_, ?_, ?_, ?_, ?_⟩
      · show sh.series.flush.snap = sh.series.flush.disk
        rw [e_snap, e_disk]
      · intro m ts i hh
        have h' : sh.series.flush.disk m ts = some i := hh
        rw [e_disk] at h'
        unfold Dict.over at h'
        cases hdm : d m ts with
        | some j =>
          rw [hdm] at h'
          have hj : j = i := Option.some.inj h'
          rw [← hj]
          rcases inv.immCover m ts j (by rw [hd]; exact hdm) with h1 | h1
          · rw [hf] at h1; cases h1
          · exact h1
        | none =>
          rw [hdm] at h'
          exact inv.diskCover m ts i h'
      · intro m ts i hh
        have h' : sh.series.flush.immDict m ts = some i := hh
        simp [KvStore.immDict, e_imm, Dict.empty] at h'
      · intro m ts i hh
        have h' : sh.series.flush.mutable m ts = some i := hh
        rw [e_mut] at h'
        exact inv.mutCover m ts i h'
      · intro _; exact hf
      · intro hh
        have h' : sh.series.flush.mutEmpty = true := hh
        rw [e_me] at h'
        exact inv.curSync h'
      · exact inv.cache

theorem flushPrefix_cases (sh : Shard) (j : Nat) :
    (List.range j).foldl Shard.flushStep sh = sh ∨
    (List.range j).foldl Shard.flushStep sh = sh.flushStep 0 ∨
    (List.range j).foldl Shard.flushStep sh = (sh.flushStep 0).flushStep 1 ∨
    (List.range j).foldl Shard.flushStep sh = ((sh.flushStep 0).flushStep 1).flushStep 2 ∨
    (List.range j).foldl Shard.flushStep sh = (((sh.flushStep 0).flushStep 1).flushStep 2).flushStep 3 := by
  match j with
  | 0 => exact Or.inl rfl
  | 1 => exact Or.inr (Or.inl rfl)
  | 2 => exact Or.inr (Or.inr (Or.inl rfl))
  | 3 => exact Or.inr (Or.inr (Or.inr (Or.inl rfl)))
  | n + 4 =>
    refine Or.inr (Or.inr (Or.inr (Or.inr ?_)))
    induction n with
    | zero => rfl
    | succ n ih =>
      rw [show n + 1 + 4 = (n + 4) + 1 from rfl, List.range_succ, List.foldl_append, ih]
      rfl

/-- every prefix of the flush — every crash point inside it, and the whole of it — keeps the invariant -/
theorem coverInv_prefix {sh : Shard} (inv : CoverInv sh) (j : Nat) : CoverInv ((List.range j).foldl Shard.flushStep sh) := by
  obtain ⟨i0, f0⟩ := coverInv_step0 inv
  obtain ⟨i1, m1, _, _⟩ := coverInv_step12 i0
  obtain ⟨_, _, i2, m2⟩ := coverInv_step12 i1
  have f2 : (((sh.flushStep 0).flushStep 1).flushStep 2).minv.frzList = [] := by rw [m2, m1]; exact f0
  rcases flushPrefix_cases sh j with h | h | h | h | h <;> rw [h]
  · exact inv
  · exact i0
  · exact i1
  · exact i2
  · exact coverInv_step3 i2 f2

/-- **a failed step aborts the round**: with lindb's control flow a faulted flush — whatever step fails — is a
prefix of the flush (and reports the error iff it stopped early) -/
theorem flushFault_abort_is_prefix (sh : Shard) (k : Nat) :
    ∃ j, j ≤ 4 ∧ (Node.flushFaultGo true k [0, 1, 2, 3] sh).1 = (List.range j).foldl Shard.flushStep sh ∧
      ((Node.flushFaultGo true k [0, 1, 2, 3] sh).2 = true → j < 4) := by
  simp only [Node.flushFaultGo]
  by_cases c0 : 0 = k ∧ Node.shardCommits sh 0 = true
  · rw [if_pos c0]; exact ⟨0, by omega, rfl, fun _ => by omega⟩
  · rw [if_neg c0]
    by_cases c1 : 1 = k ∧ Node.shardCommits (sh.flushStep 0) 1 = true
    · rw [if_pos c1]; exact ⟨1, by omega, rfl, fun _ => by omega⟩
    · rw [if_neg c1]
      by_cases c2 : 2 = k ∧ Node.shardCommits ((sh.flushStep 0).flushStep 1) 2 = true
      · rw [if_pos c2]; exact ⟨2, by omega, rfl, fun _ => by omega⟩
      · rw [if_neg c2]
        by_cases c3 : 3 = k ∧ Node.shardCommits (((sh.flushStep 0).flushStep 1).flushStep 2) 3 = true
        · rw [if_pos c3]; exact ⟨3, by omega, rfl, fun _ => by omega⟩
        · rw [if_neg c3]; exact ⟨4, by omega, rfl, fun h => by cases h⟩

theorem coverInv_flushFault {sh : Shard} (inv : CoverInv sh) (k : Nat) :
    CoverInv (Node.flushFaultGo true k [0, 1, 2, 3] sh).1 := by
  obtain ⟨j, _, e, _⟩ := flushFault_abort_is_prefix sh k
  rw [e]; exact coverInv_prefix inv j

/-! ### recovery -/

theorem coverInv_recover {sh : Shard} (inv : CoverInv sh) : CoverInv sh.recover := by
  refine ⟨rfl, ?_, ?_, ?_, ?_, ?_, ?_⟩
  · exact inv.diskCover
  · intro m ts i h; simp [Shard.recover, KvStore.recover, KvStore.immDict, Dict.empty] at h
  · intro m ts i h; simp [Shard.recover, KvStore.recover, Dict.empty] at h
  · intro _; rfl
  · intro _; rfl
  · intro m c hc; simp [Shard.recover] at hc

/-! ### GenSeriesID -/

theorem coverInv_created {sh : Shard} (inv : CoverInv sh) (m ts : Nat) :
    CoverInv { sh with series := sh.series.insert m ts (sh.createSeriesID m),
                       seqCache := fun j => if j = m then some (sh.createSeriesID m) else sh.seqCache j,
                       minv := sh.minv.put (m, sh.createSeriesID m) } := by
  have hall : ∀ a, a ∈ (sh.minv.put (m, sh.createSeriesID m)).all ↔ a = (m, sh.createSeriesID m) ∨ a ∈ sh.minv.all := by
    intro a; simp [Layers.all, Layers.put]
  refine ⟨inv.snapDisk, inv.diskCover, inv.immCover, ?_, inv.frzSync, ?_, ?_⟩
  · intro m' ts' i h
    have h' : (if m' = m ∧ ts' = ts then some (sh.createSeriesID m) else sh.series.mutable m' ts') = some i := h
    by_cases hk : m' = m ∧ ts' = ts
    · rw [if_pos hk] at h'; cases h'; rw [hk.1]; exact (hall _).2 (Or.inl rfl)
    · rw [if_neg hk] at h'; exact (hall _).2 (Or.inr (inv.mutCover m' ts' i h'))
  · intro h; simp [KvStore.insert] at h
  · intro m' c hc i h
    have hc' : (if m' = m then some (sh.createSeriesID m) else sh.seqCache m') = some c := hc
    rcases (hall _).1 h with h1 | h1
    · cases h1
      rw [if_pos rfl] at hc'; cases hc'; exact Nat.le_refl _
    · by_cases hm : m' = m
      · subst hm
        rw [if_pos rfl] at hc'; cases hc'
        exact Nat.le_of_lt (inv.createFresh h1)
      · rw [if_neg hm] at hc'
        exact inv.cache m' c hc' i h1

/-- the invariant of every shard of the node -/
def NodeCover (nd : Node) : Prop := ∀ k, CoverInv (nd.shards k)

theorem nodeCover_of_shards {nd nd' : Node} (h : nd'.shards = nd.shards) (inv : NodeCover nd) : NodeCover nd' :=
  fun k => by rw [h]; exact inv k

theorem nodeCover_setShard {nd : Node} (inv : NodeCover nd) (shard : Nat) {sh : Shard} (h : CoverInv sh) :
    NodeCover (nd.setShard shard sh) := by
  intro k
  unfold Node.setShard
  by_cases hk : k = shard
  · simp [hk]; exact h
  · simp [hk]; exact inv k

theorem nodeCover_genSeries {c : Cfg} (hc : c.seriesLimitFirst = true) {nd : Node} (inv : NodeCover nd)
    (shard m ts : Nat) (tags : List (Nat × Nat)) : NodeCover (nd.genSeries c shard m ts tags).1 := by
  unfold Node.genSeries
  simp only []
  cases hl : (nd.shards shard).series.lookup m ts with
  | some i => exact inv
  | none =>
    simp only []
    by_cases over : nd.lim.maxSeries > 0 ∧ nd.lim.maxSeries < (nd.shards shard).createSeriesID m
    · rw [if_pos ⟨hc, over⟩]
      apply nodeCover_setShard inv
      obtain ⟨a, b, c', d, e, f, g⟩ := inv shard
      exact ⟨a, b, c', d, e, fun h => by simp at h, g⟩
    · rw [if_neg (fun h => over h.2), if_neg over]
      intro k
      obtain ⟨e1, e2, e3⟩ := buildInverted_shards c shard m ((nd.shards shard).createSeriesID m) tags
        (nd.setShard shard { nd.shards shard with
            series := (nd.shards shard).series.insert m ts ((nd.shards shard).createSeriesID m),
            seqCache := fun j => if j = m then some ((nd.shards shard).createSeriesID m) else (nd.shards shard).seqCache j,
            minv := (nd.shards shard).minv.put (m, (nd.shards shard).createSeriesID m) }) k
      exact coverInv_congr e1 e2 e3 (nodeCover_setShard inv shard (coverInv_created (inv shard) m ts) k)

/-! ### the meta operations leave the shards alone -/

theorem genMetric_shards (c : Cfg) (nd : Node) (nb ns name : Nat) : (nd.genMetric c nb ns name).1.shards = nd.shards := by
  unfold Node.genMetric
  simp only []
  split
  · simp [afterAlloc_shards]
  · split <;> simp [afterAlloc_shards]

theorem genFieldID_shards (c : Cfg) (nd : Node) (m f : Nat) : (nd.genFieldID c m f).1.shards = nd.shards := rfl

theorem genTagKeyID_shards (c : Cfg) (nd : Node) (m k : Nat) : (nd.genTagKeyID c m k).1.shards = nd.shards := by
  unfold Node.genTagKeyID; simp only []; rw [afterAlloc_shards]

theorem genTagValueID_shards (c : Cfg) (nd : Node) (tk v : Nat) : (nd.genTagValueID c tk v).1.shards = nd.shards := by
  unfold Node.genTagValueID; simp only []
  split <;> simp [afterAlloc_shards]

theorem nodeCover_recover {nd : Node} (inv : NodeCover nd) : NodeCover nd.recover :=
  fun k => coverInv_recover (inv k)

theorem metaFlushPrefix_shards' (nd : Node) (k : Nat) : (nd.metaFlushPrefix k).shards = nd.shards := by
  induction k with
  | zero => rfl
  | succ k ih => rw [metaFlushPrefix_succ, (metaFlushStep_frame _ k).1, ih]

theorem metaPrepareE_shards (nd : Node) (se : Bool) : (nd.metaPrepareE se).shards = nd.shards := by
  cases se <;> rfl

/-- one operation of the sequential model (for the shape of PrepareFlush and the series limit lindb has now) -/
theorem nodeCover_step {c : Cfg} (hc : c.seriesLimitFirst = true) (hp : c.prepareSwapsEmpty = true)
    {nd : Node} (inv : NodeCover nd) (op : Op) : NodeCover (step c nd op).1 := by
  cases op with
  | metric nb ns name => exact nodeCover_of_shards (genMetric_shards c nd nb ns name) inv
  | field m f => exact nodeCover_of_shards (genFieldID_shards c nd m f) inv
  | tagKey m k => exact nodeCover_of_shards (genTagKeyID_shards c nd m k) inv
  | tagValue tk v => exact nodeCover_of_shards (genTagValueID_shards c nd tk v) inv
  | series sh m ts tags => exact nodeCover_genSeries hc inv sh m ts tags
  | metaPrepare => exact nodeCover_of_shards (metaPrepareE_shards nd _) inv
  | metaFlush => exact nodeCover_of_shards (metaFlushPrefix_shards' nd 5) inv
  | indexPrepare sh =>
    show NodeCover (nd.indexPrepareE sh c.prepareSwapsEmpty)
    rw [hp]
    intro k
    by_cases hk : k = sh
    · have e : (nd.indexPrepareE sh true).shards k = (nd.shards sh).prepareFlushE true := by
        simp [Node.indexPrepareE, Node.indexDropEmpty, Node.indexPrepare, Node.setShard, hk, Shard.prepareFlushE]
      rw [e]; exact coverInv_prepare (inv sh)
    · have e : (nd.indexPrepareE sh true).shards k = nd.shards k := by
        simp [Node.indexPrepareE, Node.indexDropEmpty, Node.indexPrepare, Node.setShard, hk]
      rw [e]; exact inv k
  | indexFlush sh => exact nodeCover_setShard inv sh (coverInv_prefix (inv sh) 4)
  | reopen => exact nodeCover_recover inv
  | metaFlushCrash k => exact nodeCover_recover (nodeCover_of_shards (metaFlushPrefix_shards' nd k) inv)
  | indexFlushCrash sh k => exact nodeCover_recover (nodeCover_setShard inv sh (coverInv_prefix (inv sh) k))
  | metaFlushFail k => exact nodeCover_of_shards (metaFlushPrefix_shards' nd k) inv

/-! ### GenMetricID under the namespace / metric-name limits -/

theorem KvStore.lookup_refused (s : KvStore) (b n : Nat) : s.refused.lookup b n = s.lookup b n := rfl

theorem seqInv_refused {s : KvStore} {a b : Nat} (h : SeqInv s a b) : SeqInv s.refused a b :=
  ⟨h.snapDisk, h.immSub, h.diskSub, h.bnd, h.dbnd, h.inj, fun hh => by simp [KvStore.refused] at hh, h.immE⟩

/-- with both limits off (the default) `GenMetricID` is the unlimited one -/
theorem genMetricLim_off (c : Cfg) (nd : Node) (nb ns name : Nat) (h1 : nd.lim.maxNamespaces = 0) (h2 : nd.lim.maxMetrics = 0) :
    nd.genMetricLim c nb ns name = ((nd.genMetric c nb ns name).1, .out (nd.genMetric c nb ns name).2) := by
  unfold Node.genMetricLim
  have n1 : ¬ ((nd.ns.lookup nb ns).isNone = true ∧ nd.lim.maxNamespaces > 0 ∧ nd.lim.maxNamespaces < nd.seqMem.ns) := by
    intro h; omega
  rw [if_neg n1]
  simp only []
  cases hr : (getOrCreate c.kv nd.ns nd.seqMem.ns nb ns).2.2 with
  | none =>
    simp only []
    unfold Node.genMetric
    simp only [hr]
  | some nsID =>
    simp only []
    rw [if_neg (by intro h; omega)]

theorem genMetricLim_shards (c : Cfg) (nd : Node) (nb ns name : Nat) : (nd.genMetricLim c nb ns name).1.shards = nd.shards := by
  unfold Node.genMetricLim
  split
  · rfl
  · simp only []
    split
    · simp [afterAlloc_shards]
    · split
      · simp [afterAlloc_shards]
      · exact genMetric_shards c nd nb ns name

/-- **a refused name changes no id**: when `GenMetricID` answers ErrTooManyNamespace / ErrTooManyMetric the
metadata invariant still holds, every name that had an id keeps it, the shards are untouched — and nothing is
stored under the refused name (a later lookup does not find it) -/
theorem genMetricLim_refused {nd : Node} (c : Cfg) (inv : MetaInv nd) (nb ns name : Nat)
    (href : (nd.genMetricLim c nb ns name).2 = .tooManyNamespaces ∨ (nd.genMetricLim c nb ns name).2 = .tooManyMetrics) :
    MetaInv (nd.genMetricLim c nb ns name).1 ∧ MonoMeta nd (nd.genMetricLim c nb ns name).1 ∧
    (nd.genMetricLim c nb ns name).1.mview (.metric nb ns name) = none := by
  unfold Node.genMetricLim at href ⊢
  by_cases h1 : (nd.ns.lookup nb ns).isNone = true ∧ nd.lim.maxNamespaces > 0 ∧ nd.lim.maxNamespaces < nd.seqMem.ns
  · rw [if_pos h1]
    refine ⟨⟨inv.le, seqInv_refused inv.ns, inv.metric, inv.tagValue, inv.schema⟩, ?_, ?_⟩
    · intro k j hj
      cases k <;> exact hj
    · show (match nd.ns.refused.lookup nb ns with | none => none | some q => nd.metric.lookup q name) = none
      rw [KvStore.lookup_refused]
      cases hq : nd.ns.lookup nb ns with
      | none => rfl
      | some q => rw [hq] at h1; simp at h1
  · rw [if_neg h1] at href ⊢
    simp only [] at href ⊢
    obtain ⟨inv2, mono2, _, _, nsID, hr, hl⟩ := nsStep_spec c inv nb ns
    simp only [Node.withNs] at inv2 mono2 hr hl
    rw [hr] at href ⊢
    simp only [] at href ⊢
    split at href
    · rename_i h2
      rw [if_pos h2]
      refine ⟨⟨inv2.le, inv2.ns, seqInv_refused inv2.metric, inv2.tagValue, inv2.schema⟩, ?_, ?_⟩
      · intro k j hj
        have := mono2 k j hj
        cases k <;> exact this
      · show (match (Node.afterAlloc c _).ns.lookup nb ns with | none => none | some q => (Node.afterAlloc c _).metric.refused.lookup q name) = none
        rw [hl]
        simp only [KvStore.lookup_refused]
        rw [Option.isNone_iff_eq_none.1 h2.1]
    · rcases href with h | h <;> cases h

/-- the LRU sequence cache may drop any entry at any time: the cover invariant does not need it -/
theorem coverInv_evictSeq {sh : Shard} (inv : CoverInv sh) (m : Nat) : CoverInv (sh.evictSeq m) := by
  obtain ⟨a, b, c, d, e, f, g⟩ := inv
  refine ⟨a, b, c, d, e, f, ?_⟩
  intro m' c' hc'
  have hc'' : (if m' = m then none else sh.seqCache m') = some c' := hc'
  by_cases hm : m' = m
  · rw [if_pos hm] at hc''; cases hc''
  · rw [if_neg hm] at hc''; exact g m' c' hc''

/-- the cache entry, while it is there, is the largest posting of its metric: `GenSeriesID` adds the new id to
the cache and to the mutable postings in one go, postings only move towards the disk, a crash empties the cache -/
def CacheTight (sh : Shard) : Prop := ∀ m c, sh.seqCache m = some c → (m, c) ∈ sh.minv.all

/-- **eviction does not change the next series id**: with a tight cache entry the
miss branch (`max(postings) + 1`) computes what the hit branch (`cache + 1`) computes -/
theorem evictSeq_same_next {sh : Shard} (inv : CoverInv sh) (ht : CacheTight sh) (m : Nat) :
    (sh.evictSeq m).createSeriesID m = sh.createSeriesID m := by
  unfold Shard.createSeriesID
  have he : (sh.evictSeq m).seqCache m = none := by simp [Shard.evictSeq]
  have hs : (sh.evictSeq m).metricSeries m = sh.metricSeries m := rfl
  rw [he, hs]
  cases hc : sh.seqCache m with
  | none => rfl
  | some c =>
    have hmem : c ∈ sh.metricSeries m := by
      unfold Shard.metricSeries
      exact List.mem_map.2 ⟨(m, c), List.mem_filter.2 ⟨ht m c hc, by simp⟩, rfl⟩
    have hle : ∀ i ∈ sh.metricSeries m, i ≤ c := by
      intro i hi
      unfold Shard.metricSeries at hi
      obtain ⟨⟨m', i'⟩, hf, rfl⟩ := List.mem_map.1 hi
      obtain ⟨hin, hm'⟩ := List.mem_filter.1 hf
      have : m' = m := by simpa using hm'
      subst this
      exact inv.cache _ c hc _ hin
    have hmax : ∀ (l : List Nat), c ∈ l → (∀ i ∈ l, i ≤ c) → maxList l = c := by
      intro l
      induction l with
      | nil => intro h; cases h
      | cons a r ih =>
        intro hin hall
        have ha : a ≤ c := hall a (List.mem_cons_self ..)
        have hr : maxList r ≤ c := by
          clear ih hin
          induction r with
          | nil => exact Nat.zero_le _
          | cons b r' ih' =>
            have hb : b ≤ c := hall b (List.mem_cons_of_mem _ (List.mem_cons_self ..))
            have := ih' (fun i hi => by
              rcases List.mem_cons.1 hi with h | h
              · exact h ▸ ha
              · exact hall i (List.mem_cons_of_mem _ (List.mem_cons_of_mem _ h)))
            show max b (maxList r') ≤ c
            exact Nat.max_le.2 ⟨hb, this⟩
        show max a (maxList r) = c
        rcases List.mem_cons.1 hin with h | h
        · subst h; exact Nat.max_eq_left hr
        · have := ih h (fun i hi => hall i (List.mem_cons_of_mem _ hi))
          rw [this]; exact Nat.max_eq_right ha
    cases hl : sh.metricSeries m with
    | nil => rw [hl] at hmem; cases hmem
    | cons a l =>
      show maxList (a :: l) + 1 = c + 1
      rw [← hl, hmax _ hmem hle]

theorem nodeCover_fstep {c : Cfg} (hc : c.seriesLimitFirst = true) (hp : c.prepareSwapsEmpty = true)
    (ha : c.indexFlushAborts = true) {nd : Node} (inv : NodeCover nd) (op : FOp) :
    NodeCover (fstep c [0, 1, 2, 3] nd op) := by
  cases op with
  | op o => exact nodeCover_step hc hp inv o
  | indexFlushFault sh k =>
    show NodeCover (nd.setShard sh (Node.flushFaultGo c.indexFlushAborts k [0, 1, 2, 3] (nd.shards sh)).1)
    rw [ha]
    exact nodeCover_setShard inv sh (coverInv_flushFault (inv sh) k)
  | metricLim nb ns name => exact nodeCover_of_shards (genMetricLim_shards c nd nb ns name) inv
  | evictSeq sh m => exact nodeCover_setShard inv sh (coverInv_evictSeq (inv sh) m)

theorem nodeCover_frun {c : Cfg} (hc : c.seriesLimitFirst = true) (hp : c.prepareSwapsEmpty = true)
    (ha : c.indexFlushAborts = true) (ops : List FOp) : ∀ {nd : Node}, NodeCover nd → NodeCover (frun c [0, 1, 2, 3] nd ops) := by
  induction ops with
  | nil => intro nd inv; exact inv
  | cons op rest ih => intro nd inv; exact ih (nodeCover_fstep hc hp ha inv op)

theorem nodeCover_init (lim : Limits) (n : Nat) : NodeCover { lim := lim, nShards := n } :=
  fun _ => coverInv_init

/-! ### the cache entry is one of the metric's postings, after every history -/

def NodeTight (nd : Node) : Prop := ∀ k, CacheTight (nd.shards k)

theorem tight_congr {s s' : Shard} (h2 : s'.seqCache = s.seqCache) (h3 : ∀ a, a ∈ s.minv.all → a ∈ s'.minv.all)
    (ht : CacheTight s) : CacheTight s' := by
  intro m c hc
  rw [h2] at hc
  exact h3 _ (ht m c hc)

theorem Layers.all_dropEmpty {α : Type} (l : Layers α) (a : α) : a ∈ l.dropEmpty.all ↔ a ∈ l.all := by
  obtain ⟨cur, frz, disk⟩ := l
  cases frz with
  | none => exact Iff.rfl
  | some f =>
    cases f with
    | nil => simp [Layers.dropEmpty, Layers.all]
    | cons b r => exact Iff.rfl

theorem Layers.all_prepareFlush {α : Type} (l : Layers α) (a : α) : a ∈ l.prepareFlush.all ↔ a ∈ l.all := by
  obtain ⟨cur, frz, disk⟩ := l
  cases frz with
  | none => simp [Layers.prepareFlush, Layers.all]
  | some f => exact Iff.rfl

theorem Layers.all_flush {α : Type} (l : Layers α) (a : α) : a ∈ l.flush.all ↔ a ∈ l.all := by
  obtain ⟨cur, frz, disk⟩ := l
  cases frz with
  | none => exact Iff.rfl
  | some f =>
    cases f with
    | nil => exact Iff.rfl
    | cons b r => simp [Layers.flush, Layers.all, or_assoc]

theorem tight_init : CacheTight {} := by
  intro m c hc; cases hc

theorem tight_prepare {sh : Shard} (ht : CacheTight sh) : CacheTight (sh.prepareFlushE true) := by
  have e : sh.prepareFlushE true =
      { sh with minv := sh.minv.dropEmpty.prepareFlush, fwd := sh.fwd.dropEmpty.prepareFlush,
                inv := sh.inv.dropEmpty.prepareFlush, series := sh.series.dropEmpty.prepareFlush } := rfl
  rw [e]
  refine tight_congr (s := sh) rfl ?_ ht
  intro a ha
  exact (Layers.all_prepareFlush _ a).2 ((Layers.all_dropEmpty _ a).2 ha)

theorem tight_flushStep {sh : Shard} (ht : CacheTight sh) (k : Nat) : CacheTight (sh.flushStep k) := by
  match k with
  | 0 => exact tight_congr (s := sh) rfl (fun a ha => (Layers.all_flush _ a).2 ha) ht
  | 1 => exact tight_congr (s := sh) rfl (fun _ ha => ha) ht
  | 2 => exact tight_congr (s := sh) rfl (fun _ ha => ha) ht
  | 3 => exact tight_congr (s := sh) rfl (fun _ ha => ha) ht
  | _ + 4 => exact ht

theorem tight_prefix {sh : Shard} (ht : CacheTight sh) (j : Nat) : CacheTight ((List.range j).foldl Shard.flushStep sh) := by
  have t0 := tight_flushStep ht 0
  have t1 := tight_flushStep t0 1
  have t2 := tight_flushStep t1 2
  have t3 := tight_flushStep t2 3
  rcases flushPrefix_cases sh j with h | h | h | h | h <;> rw [h]
  · exact ht
  · exact t0
  · exact t1
  · exact t2
  · exact t3

theorem tight_flushFault {sh : Shard} (ht : CacheTight sh) (k : Nat) :
    CacheTight (Node.flushFaultGo true k [0, 1, 2, 3] sh).1 := by
  obtain ⟨j, _, e, _⟩ := flushFault_abort_is_prefix sh k
  rw [e]; exact tight_prefix ht j

theorem tight_recover (sh : Shard) : CacheTight sh.recover := by
  intro m c hc; cases hc

theorem tight_evictSeq {sh : Shard} (ht : CacheTight sh) (m : Nat) : CacheTight (sh.evictSeq m) := by
  intro m' c' hc'
  have hc'' : (if m' = m then none else sh.seqCache m') = some c' := hc'
  by_cases hm : m' = m
  · rw [if_pos hm] at hc''; cases hc''
  · rw [if_neg hm] at hc''; exact ht m' c' hc''

theorem tight_created {sh : Shard} (ht : CacheTight sh) (m ts : Nat) :
    CacheTight { sh with series := sh.series.insert m ts (sh.createSeriesID m),
                         seqCache := fun j => if j = m then some (sh.createSeriesID m) else sh.seqCache j,
                         minv := sh.minv.put (m, sh.createSeriesID m) } := by
  have hall : ∀ a, a ∈ (sh.minv.put (m, sh.createSeriesID m)).all ↔ a = (m, sh.createSeriesID m) ∨ a ∈ sh.minv.all := by
    intro a; simp [Layers.all, Layers.put]
  intro m' c hc
  have hc' : (if m' = m then some (sh.createSeriesID m) else sh.seqCache m') = some c := hc
  by_cases hm : m' = m
  · subst hm
    rw [if_pos rfl] at hc'; cases hc'
    exact (hall _).2 (Or.inl rfl)
  · rw [if_neg hm] at hc'
    exact (hall _).2 (Or.inr (ht m' c hc'))

theorem nodeTight_of_shards {nd nd' : Node} (h : nd'.shards = nd.shards) (inv : NodeTight nd) : NodeTight nd' :=
  fun k => by rw [h]; exact inv k

theorem nodeTight_setShard {nd : Node} (inv : NodeTight nd) (shard : Nat) {sh : Shard} (h : CacheTight sh) :
    NodeTight (nd.setShard shard sh) := by
  intro k
  unfold Node.setShard
  by_cases hk : k = shard
  · simp [hk]; exact h
  · simp [hk]; exact inv k

theorem nodeTight_genSeries {c : Cfg} (hc : c.seriesLimitFirst = true) {nd : Node} (inv : NodeTight nd)
    (shard m ts : Nat) (tags : List (Nat × Nat)) : NodeTight (nd.genSeries c shard m ts tags).1 := by
  unfold Node.genSeries
  simp only []
  cases hl : (nd.shards shard).series.lookup m ts with
  | some i => exact inv
  | none =>
    simp only []
    by_cases over : nd.lim.maxSeries > 0 ∧ nd.lim.maxSeries < (nd.shards shard).createSeriesID m
    · rw [if_pos ⟨hc, over⟩]
      apply nodeTight_setShard inv
      exact tight_congr (s := nd.shards shard) rfl (fun _ ha => ha) (inv shard)
    · rw [if_neg (fun h => over h.2), if_neg over]
      intro k
      obtain ⟨_, e2, e3⟩ := buildInverted_shards c shard m ((nd.shards shard).createSeriesID m) tags
        (nd.setShard shard { nd.shards shard with
            series := (nd.shards shard).series.insert m ts ((nd.shards shard).createSeriesID m),
            seqCache := fun j => if j = m then some ((nd.shards shard).createSeriesID m) else (nd.shards shard).seqCache j,
            minv := (nd.shards shard).minv.put (m, (nd.shards shard).createSeriesID m) }) k
      exact tight_congr e2 (fun a ha => by rw [e3]; exact ha) (nodeTight_setShard inv shard (tight_created (inv shard) m ts) k)

theorem nodeTight_recover (nd : Node) : NodeTight nd.recover :=
  fun k => tight_recover (nd.shards k)

theorem nodeTight_step {c : Cfg} (hc : c.seriesLimitFirst = true) (hp : c.prepareSwapsEmpty = true)
    {nd : Node} (inv : NodeTight nd) (op : Op) : NodeTight (step c nd op).1 := by
  cases op with
  | metric nb ns name => exact nodeTight_of_shards (genMetric_shards c nd nb ns name) inv
  | field m f => exact nodeTight_of_shards (genFieldID_shards c nd m f) inv
  | tagKey m k => exact nodeTight_of_shards (genTagKeyID_shards c nd m k) inv
  | tagValue tk v => exact nodeTight_of_shards (genTagValueID_shards c nd tk v) inv
  | series sh m ts tags => exact nodeTight_genSeries hc inv sh m ts tags
  | metaPrepare => exact nodeTight_of_shards (metaPrepareE_shards nd _) inv
  | metaFlush => exact nodeTight_of_shards (metaFlushPrefix_shards' nd 5) inv
  | indexPrepare sh =>
    show NodeTight (nd.indexPrepareE sh c.prepareSwapsEmpty)
    rw [hp]
    intro k
    by_cases hk : k = sh
    · have e : (nd.indexPrepareE sh true).shards k = (nd.shards sh).prepareFlushE true := by
        simp [Node.indexPrepareE, Node.indexDropEmpty, Node.indexPrepare, Node.setShard, hk, Shard.prepareFlushE]
      rw [e]; exact tight_prepare (inv sh)
    · have e : (nd.indexPrepareE sh true).shards k = nd.shards k := by
        simp [Node.indexPrepareE, Node.indexDropEmpty, Node.indexPrepare, Node.setShard, hk]
      rw [e]; exact inv k
  | indexFlush sh => exact nodeTight_setShard inv sh (tight_prefix (inv sh) 4)
  | reopen => exact nodeTight_recover _
  | metaFlushCrash k => exact nodeTight_recover _
  | indexFlushCrash sh k => exact nodeTight_recover _
  | metaFlushFail k => exact nodeTight_of_shards (metaFlushPrefix_shards' nd k) inv

theorem nodeTight_fstep {c : Cfg} (hc : c.seriesLimitFirst = true) (hp : c.prepareSwapsEmpty = true)
    (ha : c.indexFlushAborts = true) {nd : Node} (inv : NodeTight nd) (op : FOp) :
    NodeTight (fstep c [0, 1, 2, 3] nd op) := by
  cases op with
  | op o => exact nodeTight_step hc hp inv o
  | indexFlushFault sh k =>
    show NodeTight (nd.setShard sh (Node.flushFaultGo c.indexFlushAborts k [0, 1, 2, 3] (nd.shards sh)).1)
    rw [ha]
    exact nodeTight_setShard inv sh (tight_flushFault (inv sh) k)
  | metricLim nb ns name => exact nodeTight_of_shards (genMetricLim_shards c nd nb ns name) inv
  | evictSeq sh m => exact nodeTight_setShard inv sh (tight_evictSeq (inv sh) m)

theorem nodeTight_frun {c : Cfg} (hc : c.seriesLimitFirst = true) (hp : c.prepareSwapsEmpty = true)
    (ha : c.indexFlushAborts = true) (ops : List FOp) : ∀ {nd : Node}, NodeTight nd → NodeTight (frun c [0, 1, 2, 3] nd ops) := by
  induction ops with
  | nil => intro nd inv; exact inv
  | cons op rest ih => intro nd inv; exact ih (nodeTight_fstep hc hp ha inv op)

theorem nodeTight_init (lim : Limits) (n : Nat) : NodeTight { lim := lim, nShards := n } :=
  fun _ => tight_init

end LinVerif.IdAssign
