/-
C08: the two interleaving side models of Model/Replication.lean
  Wake — the suspend / wake-up handshake of `remoteReplicator.IsReady` ‖ `handleNodeStateChangeEvent`
  Tick — the expiry tick of `partition.IsExpire` ‖ the replica loop's sub-steps ‖ appenders
Invariants over ALL step sequences (every interleaving of the atomic steps).
-/
import LinVerif.Model.Replication

namespace LinVerif.Replication

namespace Wake

/-- invariant of the un-buffered shapes as long as no notification was handled between the loop's
liveness test and its mark (`hit = false`); `blocking` only -/
structure InvB (w : W) : Prop where
  tok : w.tok = false
  run : w.lpc = .run → w.hpc ≠ .send ∧ w.susp = false
  seen : w.hit = false → w.lpc = .seen → w.live = false ∧ w.hpc = .idle ∧ w.susp = false
  seen' : w.lpc = .seen → w.hpc ≠ .send ∧ w.susp = false
  wait : w.hit = false → (w.lpc = .marked ∨ w.lpc = .recv) →
    (w.live = false ∧ w.hpc = .idle ∧ w.susp = true) ∨ (w.live = true ∧ w.hpc = .cas ∧ w.susp = true) ∨
    (w.live = true ∧ w.hpc = .send ∧ w.susp = false)
  wait' : (w.lpc = .marked ∨ w.lpc = .recv) → (w.susp = true ∧ w.hpc ≠ .send) ∨ (w.susp = false ∧ w.hpc = .send)

theorem invB_init : InvB W.init := by
  refine ⟨rfl, fun _ => ⟨by decide, rfl⟩, fun _ h => (by cases h), fun h => (by cases h), fun _ h => ?_, fun h => ?_⟩ <;>
    (rcases h with h | h <;> cases h)

theorem invB_step (w : W) (s : Step) (h : InvB w) : InvB (step .blocking w s) := by
  obtain ⟨live, susp, lpc, hpc, tok, hit⟩ := w
  obtain ⟨h1, h2, h3, h3', h4, h4'⟩ := h
  simp only at h1 h2 h3 h3' h4 h4'
  subst h1
  cases s <;> cases lpc <;> cases hpc <;> cases live <;> cases susp <;> cases hit <;>
    simp_all [step] <;> (constructor <;> simp_all)

theorem invB_run (ss : List Step) : InvB (run .blocking ss) := by
  unfold run
  suffices ∀ w, InvB w → InvB (ss.foldl (step .blocking) w) from this _ invB_init
  induction ss with
  | nil => intro w h; exact h
  | cons s t ih => intro w h; exact ih _ (invB_step w s h)

theorem hit_mono (sh : Shape) (w : W) (s : Step) (h : (step sh w s).hit = false) : w.hit = false := by
  obtain ⟨live, susp, lpc, hpc, tok, hit⟩ := w
  cases hit
  · rfl
  · cases s <;> cases sh <;> cases lpc <;> cases hpc <;> cases live <;> cases susp <;> cases tok <;> simp_all [step]

/-- invariant of the buffered shape (no hypothesis on the schedule) -/
structure InvT (w : W) : Prop where
  nosend : w.hpc ≠ .send
  tokd : w.live = true → w.hpc = .idle → (w.lpc = .seen ∨ w.lpc = .marked ∨ w.lpc = .recv) → w.tok = true

theorem invT_init : InvT W.init := ⟨by decide, fun _ _ h => by rcases h with h | h | h <;> cases h⟩

theorem invT_step (w : W) (s : Step) (h : InvT w) : InvT (step .buffered w s) := by
  obtain ⟨live, susp, lpc, hpc, tok, hit⟩ := w
  obtain ⟨h1, h2⟩ := h
  simp only at h1 h2
  cases s <;> cases lpc <;> cases hpc <;> cases live <;> cases susp <;> cases tok <;>
    simp_all [step] <;> (constructor <;> simp_all)

theorem invT_run (ss : List Step) : InvT (run .buffered ss) := by
  unfold run
  suffices ∀ w, InvT w → InvT (ss.foldl (step .buffered) w) from this _ invT_init
  induction ss with
  | nil => intro w h; exact h
  | cons s t ih => intro w h; exact ih _ (invT_step w s h)

end Wake

namespace Tick

structure Inv (t : T) : Prop where
  gc : t.gack ≤ t.cons
  ca : t.cons ≤ t.app
  infl : ∀ i, t.infl = some i → i = t.cons ∧ t.gack < i
  verdict : t.verdict = true → t.late = false → t.app ≤ t.gack

theorem inv_init : Inv T.init := ⟨by decide, by decide, fun i h => (by cases h), fun h => (by cases h)⟩

theorem inv_step (t : T) (s : Step) (h : Inv t) : Inv (step true t s) := by
  obtain ⟨app, cons, gack, infl, verdict, stopped, late, hs⟩ := t
  obtain ⟨h1, h2, h3, h4⟩ := h
  simp only at h1 h2 h3 h4
  cases s
  · -- append
    refine ⟨h1, by show cons ≤ app + 1; omega, h3, ?_⟩
    intro hv hl
    cases verdict
    · cases hv
    · cases late <;> cases hl
  · -- consume
    simp only [step]
    split
    · rename_i hc
      cases hs
      · simp only [Bool.false_eq_true, if_false]
        split
        · refine ⟨by show gack ≤ cons + 1; omega, by show cons + 1 ≤ app; omega, ?_, h4⟩
          intro i hi
          simp only [Option.some.injEq] at hi
          subst hi
          exact ⟨rfl, by show gack < cons + 1; omega⟩
        · exact ⟨h1, h2, fun i hi => (by rw [hc.2] at hi; cases hi), h4⟩
      · simp only [if_true]
        split
        · refine ⟨by show gack ≤ gack + 1; omega, by show gack + 1 ≤ app; omega, ?_, h4⟩
          intro i hi
          simp only [Option.some.injEq] at hi
          subst hi
          exact ⟨rfl, by show gack < gack + 1; omega⟩
        · exact ⟨by show gack ≤ gack; omega, by show gack ≤ app; omega, fun i hi => (by rw [hc.2] at hi; cases hi), h4⟩
    · exact ⟨h1, h2, h3, h4⟩
  · -- ack
    simp only [step]
    cases infl with
    | none => exact ⟨h1, h2, h3, h4⟩
    | some i =>
      have hi := h3 i rfl
      simp only
      split
      · refine ⟨by show i ≤ cons; omega, h2, fun j hj => (by cases hj), ?_⟩
        intro hv hl
        have := h4 hv hl
        show app ≤ i
        omega
      · exact ⟨h1, h2, h3, h4⟩
  · -- lose
    simp only [step]
    cases infl with
    | none => exact ⟨h1, h2, h3, h4⟩
    | some i => exact ⟨h1, h2, fun i hi => (by cases hi), h4⟩
  · -- test
    simp only [step]
    split
    · refine ⟨h1, h2, h3, ?_⟩
      intro hv _
      simpa using hv
    · exact ⟨h1, h2, h3, h4⟩
  · -- stop
    simp only [step]
    split
    · exact ⟨h1, h2, h3, fun hv => (by cases hv)⟩
    · exact ⟨h1, h2, h3, h4⟩

theorem inv_run (ss : List Step) : Inv (run true ss) := by
  unfold run
  suffices ∀ t, Inv t → Inv (ss.foldl (step true) t) from this _ inv_init
  induction ss with
  | nil => intro t h; exact h
  | cons s r ih => intro t h; exact ih _ (inv_step t s h)

end Tick

end LinVerif.Replication
