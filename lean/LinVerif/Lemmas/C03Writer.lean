/-
C03 helper lemmas: the block writer's bookkeeping produces the layout the reader slices correctly.
Part 1: offsets of concatenated segments and `getBlock`. Part 2: the specification layout
(entries, buckets). Part 3: the stateful writer produces the specification layout. Part 4: the
reader returns exactly what was written.
-/
import LinVerif.Model.BlockWriter
import LinVerif.Lemmas.C03Scan

set_option linter.unusedSectionVars false
set_option linter.unusedSimpArgs false
namespace LinVerif.C03
open LinVerif.Map LinVerif.MetricBlock LinVerif.Merge LinVerif.BlockWriter

variable {V : Type} {α : Type}

/-! ### 1. offsets of concatenated segments -/

/-- start offset of every segment when the segments are written one after the other from `b` -/
def startsFrom (b : Nat) : List (List α) → List Nat
  | [] => []
  | s :: r => b :: startsFrom (b + s.length) r

theorem startsFrom_length (b : Nat) (segs : List (List α)) : (startsFrom b segs).length = segs.length := by
  induction segs generalizing b with
  | nil => rfl
  | cons s r ih => simp [startsFrom, ih]

theorem startsFrom_append (b : Nat) (l₁ l₂ : List (List α)) :
    startsFrom b (l₁ ++ l₂) = startsFrom b l₁ ++ startsFrom (b + l₁.flatten.length) l₂ := by
  induction l₁ generalizing b with
  | nil => simp [startsFrom]
  | cons s r ih => simp [startsFrom, ih, Nat.add_assoc]

theorem getBlock_cons_succ (b : Nat) (offs : List Nat) (i : Nat) (data : List α) :
    getBlock (b :: offs) (i + 1) data = getBlock offs i data := by
  simp [getBlock]

theorem getBlock_flatten (segs : List (List α)) :
    ∀ (i : Nat) (pre : List α), i < segs.length →
      getBlock (startsFrom pre.length segs) i (pre ++ segs.flatten) = segs[i]? := by
  induction segs with
  | nil => intro i pre h; simp at h
  | cons s r ih =>
    intro i pre h
    cases i with
    | zero =>
      unfold getBlock
      simp only [startsFrom, List.getElem?_cons_zero, List.getElem?_cons_succ, List.flatten_cons]
      cases r with
      | nil =>
        simp [startsFrom]
      | cons s' r' =>
        simp [startsFrom]
    | succ i =>
      have h' : i < r.length := by simpa using h
      have := ih i (pre ++ s) h'
      simp only [List.length_append, List.append_assoc] at this
      simp only [startsFrom, List.flatten_cons, List.getElem?_cons_succ]
      rw [getBlock_cons_succ]
      exact this

theorem getBlock_flatten0 (segs : List (List α)) (i : Nat) (h : i < segs.length) :
    getBlock (startsFrom 0 segs) i segs.flatten = segs[i]? := by
  have := getBlock_flatten segs i [] h
  simpa using this

theorem getBlock_none_of_ge (offs : List Nat) (i : Nat) (data : List α) (h : offs.length ≤ i) :
    getBlock offs i data = none := by
  unfold getBlock
  rw [List.getElem?_eq_none h]

/-! ### 2. the specification layout -/

/-- one series as the writer receives it: id and the field buffer -/
abbrev Member (V : Type) := Nat × List (Option (List (Nat × V)))

/-- a group of series of one roaring container -/
abbrev Group (V : Type) := Nat × List (Member V)

def optToks : Option (List (Nat × V)) → List (Tok V)
  | none => []
  | some v => [Tok.data v]

/-- a series entry: the field data one after the other; multi-field: + offsets + their length -/
def encEntry (multi : Bool) (datas : List (Option (List (Nat × V)))) : List (Tok V) :=
  (datas.map optToks).flatten ++
    (if multi then [Tok.fieldOffsets (startsFrom 0 (datas.map optToks)), Tok.lenOfOffsets 1] else [])

def entriesOf (multi : Bool) (ms : List (Member V)) : List (List (Tok V)) :=
  ms.map (fun m => encEntry multi m.2)

/-- a series bucket: the entries, then (unless there is not a single unit) low-key offsets + position -/
def encBucket (multi : Bool) (ms : List (Member V)) : List (Tok V) :=
  if (entriesOf multi ms).flatten.length = 0 then []
  else (entriesOf multi ms).flatten ++
    [Tok.lowOffsets (startsFrom 0 (entriesOf multi ms)), Tok.posOfLow (entriesOf multi ms).flatten.length]

def bucketsOf (multi : Bool) (gs : List (Group V)) : List (List (Tok V)) :=
  gs.map (fun g => encBucket multi g.2)

/-! ### 3. the stateful writer produces the specification layout -/

theorem writeFields_spec (multi : Bool) (l4 : Nat) (datas : List (Option (List (Nat × V)))) :
    ∀ (out : List (Tok V)) (offs : List Nat), l4 ≤ out.length →
      writeFields multi l4 datas out offs =
        (out ++ (datas.map optToks).flatten,
         if multi then offs ++ startsFrom (out.length - l4) (datas.map optToks) else offs) := by
  induction datas with
  | nil => intro out offs _; cases multi <;> simp [writeFields, startsFrom]
  | cons d r ih =>
    intro out offs h
    unfold writeFields
    cases d with
    | none =>
      simp only []
      rw [ih out _ h]
      cases multi <;> simp [optToks, startsFrom]
    | some v =>
      simp only []
      rw [ih (out ++ [Tok.data v]) _ (by simp; omega)]
      have e : (out ++ [Tok.data v]).length - l4 = out.length - l4 + 1 := by simp; omega
      have e' : out.length + 1 - l4 = out.length - l4 + 1 := by omega
      cases multi <;> simp [optToks, startsFrom, e, e']

/-- the writer sits in the bucket of container `k` with the series `ms` written, the buckets of the
groups `done` finished before it -/
structure OpenAt (multi : Bool) (st : WS V) (done : List (Group V)) (k : Nat) (ms : List (Member V)) : Prop where
  out : st.out = (bucketsOf multi done).flatten ++ (entriesOf multi ms).flatten
  high : st.highOffs = startsFrom 0 (bucketsOf multi done) ++ [(bucketsOf multi done).flatten.length]
  l3 : st.l3start = (bucketsOf multi done).flatten.length
  hk : st.highKey = some k
  low : st.lowOffs = startsFrom 0 (entriesOf multi ms)
  l4 : st.l4start = st.out.length
  ids : st.ids = done.flatMap (fun g => g.2.map Prod.fst) ++ ms.map Prod.fst

theorem startsFrom_snoc (b : Nat) (segs : List (List α)) (x : List α) :
    startsFrom b (segs ++ [x]) = startsFrom b segs ++ [b + segs.flatten.length] := by
  rw [startsFrom_append]; rfl

theorem writeEntry_spec (multi : Bool) (st : WS V) (sid : Nat) (datas : List (Option (List (Nat × V))))
    (h4 : st.l4start = st.out.length) :
    (writeEntry multi st sid datas).out = st.out ++ encEntry multi datas ∧
    (writeEntry multi st sid datas).lowOffs = st.lowOffs ++ [st.out.length - st.l3start] ∧
    (writeEntry multi st sid datas).ids = st.ids ++ [sid] ∧
    (writeEntry multi st sid datas).l4start = (writeEntry multi st sid datas).out.length ∧
    (writeEntry multi st sid datas).highOffs = st.highOffs ∧
    (writeEntry multi st sid datas).l3start = st.l3start ∧
    (writeEntry multi st sid datas).highKey = st.highKey := by
  have hw := writeFields_spec multi st.l4start datas st.out [] (by rw [h4]; exact Nat.le_refl _)
  have e0 : st.out.length - st.l4start = 0 := by rw [h4]; simp
  refine ⟨?_, rfl, rfl, rfl, rfl, rfl, rfl⟩
  show entryOut multi st datas = _
  unfold entryOut
  rw [hw]
  cases multi
  · simp [encEntry]
  · simp [encEntry, e0, List.append_assoc]

/-- one more series of the same container -/
theorem openAt_same (multi : Bool) (st : WS V) (done : List (Group V)) (k : Nat) (ms : List (Member V))
    (h : OpenAt multi st done k ms) (sid : Nat) (datas : List (Option (List (Nat × V))))
    (hd : datas ≠ []) (hk : hkOf sid = k) :
    OpenAt multi (flushSeries multi st sid datas) done k (ms ++ [(sid, datas)]) := by
  have hne : datas.isEmpty = false := by cases datas <;> simp_all
  have h1 : setHighKey st (hkOf sid) = st := by unfold setHighKey; rw [h.hk]
  have h2 : switchBucket st (hkOf sid) = st := by
    unfold switchBucket; rw [if_neg (by rw [h.hk, hk]; simp)]
  have hfs : flushSeries multi st sid datas = writeEntry multi st sid datas := by
    unfold flushSeries; rw [hne]; simp only [Bool.false_eq_true, if_false]; rw [h1, h2]
  obtain ⟨w1, w2, w3, w4, w5, w6, w7⟩ := writeEntry_spec multi st sid datas h.l4
  rw [hfs]
  constructor
  · rw [w1, h.out]; simp [entriesOf, List.append_assoc]
  · rw [w5]; exact h.high
  · rw [w6]; exact h.l3
  · rw [w7]; exact h.hk
  · rw [w2, h.low]
    simp only [entriesOf, List.map_append, List.map_cons, List.map_nil]
    rw [startsFrom_snoc, h.out, h.l3]
    simp [entriesOf]
  · exact w4
  · rw [w3, h.ids]; simp [List.append_assoc]

theorem flushBucket_open (multi : Bool) (st : WS V) (done : List (Group V)) (k : Nat) (ms : List (Member V))
    (h : OpenAt multi st done k ms) :
    (flushBucket st).out = (bucketsOf multi (done ++ [(k, ms)])).flatten ∧
    (flushBucket st).highOffs = st.highOffs ∧ (flushBucket st).ids = st.ids ∧
    (flushBucket st).highKey = st.highKey := by
  have hp : st.out.length - st.l3start = (entriesOf multi ms).flatten.length := by
    rw [h.out, h.l3, List.length_append]; omega
  unfold flushBucket
  rw [hp]
  by_cases e : (entriesOf multi ms).flatten.length = 0
  · rw [if_pos e]
    refine ⟨?_, rfl, rfl, rfl⟩
    have hnil : (entriesOf multi ms).flatten = [] := List.eq_nil_of_length_eq_zero e
    have hb : encBucket multi ms = [] := by unfold encBucket; rw [if_pos e]
    rw [h.out, hnil]
    simp [bucketsOf, hb]
  · rw [if_neg e]
    refine ⟨?_, rfl, rfl, rfl⟩
    have hb : encBucket multi ms = (entriesOf multi ms).flatten ++
        [Tok.lowOffsets (startsFrom 0 (entriesOf multi ms)), Tok.posOfLow (entriesOf multi ms).flatten.length] := by
      unfold encBucket; rw [if_neg e]
    show st.out ++ _ = _
    rw [h.out, h.low]
    simp [bucketsOf, hb, List.append_assoc]

/-- the first series of another container: the bucket is finished, a new one opened -/
theorem openAt_next (multi : Bool) (st : WS V) (done : List (Group V)) (k : Nat) (ms : List (Member V))
    (h : OpenAt multi st done k ms) (sid : Nat) (datas : List (Option (List (Nat × V))))
    (hd : datas ≠ []) (hk : hkOf sid ≠ k) :
    OpenAt multi (flushSeries multi st sid datas) (done ++ [(k, ms)]) (hkOf sid) [(sid, datas)] := by
  have hne : datas.isEmpty = false := by cases datas <;> simp_all
  obtain ⟨b1, b2, b3, _⟩ := flushBucket_open multi st done k ms h
  have h1 : setHighKey st (hkOf sid) = st := by unfold setHighKey; rw [h.hk]
  have hc : st.highKey ≠ some (hkOf sid) := by
    rw [h.hk]; intro e; exact hk (Option.some.inj e).symm
  have hfs : flushSeries multi st sid datas = writeEntry multi (switchBucket st (hkOf sid)) sid datas := by
    unfold flushSeries; rw [hne]; simp only [Bool.false_eq_true, if_false]; rw [h1]
  have hsw : switchBucket st (hkOf sid) =
      { out := (flushBucket st).out, ids := (flushBucket st).ids,
        highOffs := (flushBucket st).highOffs ++ [(flushBucket st).out.length],
        l3start := (flushBucket st).out.length, highKey := some (hkOf sid), lowOffs := [],
        l4start := (flushBucket st).out.length } := by
    unfold switchBucket; rw [if_pos hc]
  have hsplit : bucketsOf multi (done ++ [(k, ms)]) = bucketsOf multi done ++ [encBucket multi ms] := by
    simp [bucketsOf]
  obtain ⟨w1, w2, w3, w4, w5, w6, w7⟩ := writeEntry_spec multi (switchBucket st (hkOf sid)) sid datas
    (by rw [hsw])
  rw [hfs]
  constructor
  · rw [w1, hsw]; simp [entriesOf, b1]
  · rw [w5, hsw]
    show (flushBucket st).highOffs ++ [(flushBucket st).out.length] = _
    rw [b2, h.high, b1, hsplit, startsFrom_snoc]
    simp
  · rw [w6, hsw]
    show (flushBucket st).out.length = _
    rw [b1]
  · rw [w7, hsw]
  · rw [w2, hsw]
    show [] ++ [(flushBucket st).out.length - (flushBucket st).out.length] = _
    simp [entriesOf, startsFrom]
  · exact w4
  · rw [w3, hsw]
    show (flushBucket st).ids ++ [sid] = _
    rw [b3, h.ids]; simp [List.flatMap_append]

theorem openAt_first (multi : Bool) (sid : Nat) (datas : List (Option (List (Nat × V)))) (hd : datas ≠ []) :
    OpenAt multi (flushSeries multi (WS.init : WS V) sid datas) [] (hkOf sid) [(sid, datas)] := by
  have hne : datas.isEmpty = false := by cases datas <;> simp_all
  have h1 : setHighKey (WS.init : WS V) (hkOf sid) = { (WS.init : WS V) with highKey := some (hkOf sid) } := rfl
  have h2 : switchBucket ({ (WS.init : WS V) with highKey := some (hkOf sid) }) (hkOf sid) =
      { (WS.init : WS V) with highKey := some (hkOf sid) } := by
    unfold switchBucket; rw [if_neg (by simp)]
  have hfs : flushSeries multi (WS.init : WS V) sid datas =
      writeEntry multi { (WS.init : WS V) with highKey := some (hkOf sid) } sid datas := by
    unfold flushSeries; rw [hne]; simp only [Bool.false_eq_true, if_false]; rw [h1, h2]
  obtain ⟨w1, w2, w3, w4, w5, w6, w7⟩ := writeEntry_spec multi
    { (WS.init : WS V) with highKey := some (hkOf sid) } sid datas rfl
  rw [hfs]
  constructor
  · rw [w1]; simp [entriesOf, bucketsOf, WS.init]
  · rw [w5]; simp [bucketsOf, startsFrom, WS.init]
  · rw [w6]; simp [bucketsOf, WS.init]
  · rw [w7]
  · rw [w2]; simp [entriesOf, startsFrom, WS.init]
  · exact w4
  · rw [w3]; simp [WS.init]

/-! ### grouping the series by container, as the writer does -/

abbrev GAcc (V : Type) := Option (List (Group V) × Nat × List (Member V))

def extendG (acc : GAcc V) (x : Member V) : GAcc V :=
  match acc with
  | none => some ([], hkOf x.1, [x])
  | some (done, k, ms) =>
    if hkOf x.1 = k then some (done, k, ms ++ [x]) else some (done ++ [(k, ms)], hkOf x.1, [x])

def groupsOf (xs : List (Member V)) : List (Group V) :=
  match xs.foldl extendG none with
  | none => []
  | some (d, k, ms) => d ++ [(k, ms)]

/-- the writer's state corresponds to the grouping accumulated so far -/
def WRel (multi : Bool) (st : WS V) : GAcc V → Prop
  | none => st = WS.init
  | some (d, k, ms) => OpenAt multi st d k ms

theorem wrel_step (multi : Bool) (st : WS V) (acc : GAcc V) (x : Member V) (hx : x.2 ≠ [])
    (h : WRel multi st acc) : WRel multi (flushSeries multi st x.1 x.2) (extendG acc x) := by
  cases acc with
  | none =>
    simp only [WRel] at h
    subst h
    exact openAt_first multi x.1 x.2 hx
  | some t =>
    obtain ⟨d, k, ms⟩ := t
    simp only [WRel] at h
    unfold extendG
    by_cases e : hkOf x.1 = k
    · simp only [e, if_true, WRel]
      have := openAt_same multi st d k ms h x.1 x.2 hx e
      exact this
    · simp only [e, if_false, WRel]
      exact openAt_next multi st d k ms h x.1 x.2 hx e

theorem wrel_fold (multi : Bool) (xs : List (Member V)) (hx : ∀ x ∈ xs, x.2 ≠ []) :
    ∀ (st : WS V) (acc : GAcc V), WRel multi st acc →
      WRel multi (xs.foldl (fun st m => flushSeries multi st m.1 m.2) st) (xs.foldl extendG acc) := by
  induction xs with
  | nil => intro st acc h; exact h
  | cons x r ih =>
    intro st acc h
    simp only [List.foldl_cons]
    exact ih (fun y hy => hx y (List.mem_cons_of_mem _ hy)) _ _
      (wrel_step multi st acc x (hx x List.mem_cons_self) h)

/-- the members the writer receives for a logical block -/
def membersOf (b : Block V) : List (Member V) := b.series.map (fun p => (p.1, datasOf b.fields p.2))

theorem writeAll_eq (b : Block V) :
    writeAll b = (membersOf b).foldl (fun st m => flushSeries (decide (b.fields.length > 1)) st m.1 m.2) WS.init := by
  unfold writeAll membersOf
  rw [List.foldl_map]

/-- **the writer's output is the specification layout** of the series grouped by container -/
theorem writeBlock_layout (b : Block V) (hf : b.fields ≠ []) (hs : b.series ≠ []) :
    ∃ e, writeBlock b = some e ∧ e.fields = b.fields ∧
      e.stream = (bucketsOf (decide (b.fields.length > 1)) (groupsOf (membersOf b))).flatten ∧
      e.highOffs = startsFrom 0 (bucketsOf (decide (b.fields.length > 1)) (groupsOf (membersOf b))) ∧
      e.ids = b.series.map Prod.fst ∧
      e.ids = (groupsOf (membersOf b)).flatMap (fun g => g.2.map Prod.fst) := by
  have hx : ∀ x ∈ membersOf b, x.2 ≠ [] := by
    intro x hx
    unfold membersOf at hx
    rw [List.mem_map] at hx
    obtain ⟨p, _, hp⟩ := hx
    rw [← hp]
    simp only [datasOf]
    intro e
    exact hf (List.map_eq_nil_iff.mp e)
  have hrel := wrel_fold (decide (b.fields.length > 1)) (membersOf b) hx WS.init none rfl
  rw [← writeAll_eq] at hrel
  have hmne : membersOf b ≠ [] := by
    unfold membersOf; intro e; exact hs (List.map_eq_nil_iff.mp e)
  -- the grouping of a non-empty list is `some`
  have hsome : ∀ (xs : List (Member V)) (acc : GAcc V), (xs ≠ [] ∨ acc ≠ none) → xs.foldl extendG acc ≠ none := by
    intro xs
    induction xs with
    | nil => intro acc h; rcases h with h | h; exact absurd rfl h; simpa using h
    | cons x r ih =>
      intro acc _
      simp only [List.foldl_cons]
      apply ih
      right
      cases acc with
      | none => simp [extendG]
      | some t =>
        obtain ⟨d, k, ms⟩ := t
        simp only [extendG]
        by_cases e : hkOf x.1 = k <;> simp [e]
  cases hg : (membersOf b).foldl extendG none with
  | none => exact absurd hg (hsome _ none (Or.inl hmne))
  | some t =>
    obtain ⟨d, k, ms⟩ := t
    rw [hg] at hrel
    simp only [WRel] at hrel
    obtain ⟨b1, b2, b3, _⟩ := flushBucket_open _ _ d k ms hrel
    have hG : groupsOf (membersOf b) = d ++ [(k, ms)] := by unfold groupsOf; rw [hg]
    have hids : (writeAll b).ids = b.series.map Prod.fst := by
      -- ids are appended one per series
      have : ∀ (xs : List (Member V)) (st : WS V), (∀ x ∈ xs, x.2 ≠ []) →
          (xs.foldl (fun st m => flushSeries (decide (b.fields.length > 1)) st m.1 m.2) st).ids =
            st.ids ++ xs.map Prod.fst := by
        intro xs
        induction xs with
        | nil => intro st _; simp
        | cons x r ih =>
          intro st hxr
          simp only [List.foldl_cons]
          rw [ih _ (fun y hy => hxr y (List.mem_cons_of_mem _ hy))]
          have hne : x.2.isEmpty = false := by
            have := hxr x List.mem_cons_self
            cases hx2 : x.2 <;> simp_all
          have : (flushSeries (decide (b.fields.length > 1)) st x.1 x.2).ids = st.ids ++ [x.1] := by
            unfold flushSeries; rw [hne]; simp only [Bool.false_eq_true, if_false]
            have hsw : ∀ (s : WS V) (h : Nat), (switchBucket s h).ids = s.ids := by
              intro s h; unfold switchBucket; split
              · show (flushBucket s).ids = s.ids
                unfold flushBucket; split <;> rfl
              · rfl
            have hsh : ∀ (s : WS V) (h : Nat), (setHighKey s h).ids = s.ids := by
              intro s h; unfold setHighKey; split <;> rfl
            show (switchBucket (setHighKey st (hkOf x.1)) (hkOf x.1)).ids ++ [x.1] = _
            rw [hsw, hsh]
          rw [this]; simp [List.append_assoc]
      rw [writeAll_eq, this _ _ hx]
      simp [membersOf, WS.init, List.map_map, Function.comp_def]
    have hne : (writeAll b).ids.isEmpty = false := by
      rw [hids]
      cases hs' : b.series with
      | nil => exact absurd hs' hs
      | cons _ _ => rfl
    refine ⟨{ fields := b.fields, start := b.start, stop := b.stop, ids := (flushBucket (writeAll b)).ids,
              highOffs := (flushBucket (writeAll b)).highOffs, stream := (flushBucket (writeAll b)).out },
      ?_, rfl, ?_, ?_, ?_, ?_⟩
    · unfold writeBlock; simp only [hne, Bool.false_eq_true, if_false]
    · show (flushBucket (writeAll b)).out = _
      rw [b1, hG]
    · show (flushBucket (writeAll b)).highOffs = _
      rw [b2, hrel.high, hG]
      simp only [bucketsOf, List.map_append, List.map_cons, List.map_nil]
      rw [startsFrom_snoc]
      simp
    · show (flushBucket (writeAll b)).ids = _
      rw [b3, hids]
    · show (flushBucket (writeAll b)).ids = _
      rw [b3, hrel.ids, hG]
      simp [List.flatMap_append]

end LinVerif.C03
