/-
C02: frame facts of a step that hold for every variant of the model: installed versions, table
contents and the version of an existing snapshot never change; an open snapshot was open before
and keeps the readers it retained; tables leave the directory only in `doRemove`.
-/
import LinVerif.Lemmas.C02Defs
set_option linter.unusedSimpArgs false
set_option linter.unusedVariables false

namespace LinVerif.Lemmas.C02
open LinVerif.VersionSet LinVerif.TableCache

structure Frame (s s' : St) : Prop where
  nextVer_le : s.nextVer ≤ s'.nextVer
  ver_eq : ∀ v, v < s.nextVer → s'.ver v = s.ver v
  nextFile_le : s.nextFile ≤ s'.nextFile
  content_eq : ∀ f, f < s.nextFile → s'.content f = s.content f
  nSnap_le : s.nSnap ≤ s'.nSnap
  snap_ver : ∀ i, i < s.nSnap → (s'.snap i).ver = (s.snap i).ver
  snap_open : ∀ i, i < s.nSnap → (s'.snap i).st = .opened →
    (s.snap i).st = .opened ∧ ∀ f ∈ (s.snap i).held, f ∈ (s'.snap i).held
  hist_grows : ∀ e ∈ s.hist, e ∈ s'.hist

theorem Frame.refl (s : St) : Frame s s := by
  constructor <;> simp

theorem Frame.trans {a b c : St} (h1 : Frame a b) (h2 : Frame b c) : Frame a c := by
  obtain ⟨a1, a2, a3, a4, a5, a6, a7, a8⟩ := h1
  obtain ⟨b1, b2, b3, b4, b5, b6, b7, b8⟩ := h2
  constructor
  · omega
  · intro v hv; rw [b2 v (by omega), a2 v hv]
  · omega
  · intro f hf; rw [b4 f (by omega), a4 f hf]
  · omega
  · intro i hi; rw [b6 i (by omega), a6 i hi]
  · intro i hi ho
    obtain ⟨x1, x2⟩ := b7 i (by omega) ho
    obtain ⟨y1, y2⟩ := a7 i hi x1
    exact ⟨y1, fun f hf => x2 f (y2 f hf)⟩
  · intro e he; exact b8 e (a8 e he)

theorem removeVersion_frame (cfg : Cfg) (s : St) (v : Nat) : Frame s (removeVersion cfg s v) := by
  unfold removeVersion; split <;> constructor <;> simp

theorem removeVersion_snap' (cfg : Cfg) (s : St) (v : Nat) :
    (removeVersion cfg s v).snap = s.snap ∧ (removeVersion cfg s v).nSnap = s.nSnap := by
  unfold removeVersion; split <;> simp

theorem snapGetReader_frame (s : St) (i f : Nat) (keep : Bool) : Frame s (snapGetReader s i f keep) := by
  unfold snapGetReader
  split
  · cases keep <;> constructor <;> simp [St.setSnap, upd] <;> grind
  · exact Frame.refl s

macro "frame_tac" : tactic =>
  `(tactic| (constructor <;>
      simp only [jAlloc, allocFile, jCreate, createFiles, jLock, setLock, jSnap, buildVersion, buildVersionAt, snapAcquire, jSwap,
        swapVersion, noteFlush, jSnapU, cloneVersion, jLockU, jCheck, jUnlock, jUnpend, unpend, setCompacting, doList, doPend, doActive, doRollup, doEvict,
        evictFile, doRemove, removeFile, jFinish, setPc, St.setJob, St.setSnap, snapDec, snapRel, spawnJob, cleanFiles] <;>
      grind [upd]))

theorem frame_setJob (s : St) (j : Nat) (x : Job) : Frame s (s.setJob j x) := by frame_tac
theorem frame_setPc (s : St) (j : Nat) (pc : Pc) : Frame s (setPc s j pc) := by frame_tac
theorem frame_jAlloc (s : St) (j : Nat) (c : Content) (l : Nat) : Frame s (jAlloc s j c l) := by frame_tac
theorem frame_jCreate (cfg : Cfg) (s : St) (j : Nat) : Frame s (jCreate cfg s j) := by frame_tac
theorem frame_jLock (s : St) (j : Nat) : Frame s (jLock s j) := by frame_tac
theorem frame_jSnap (s : St) (j : Nat) (h : (s.job j).nfRead = s.nextFile) : Frame s (jSnap s j) := by frame_tac
theorem frame_jSnapU (s : St) (j : Nat) : Frame s (jSnapU s j) := by frame_tac
theorem frame_jLockU (s : St) (j : Nat) : Frame s (jLockU s j) := by frame_tac
theorem frame_jSwap (s : St) (j : Nat) : Frame s (jSwap s j) := by frame_tac
theorem frame_jCheck (s : St) (j : Nat) : Frame s (jCheck s j) := by frame_tac
theorem frame_jUnlock (s : St) (j : Nat) : Frame s (jUnlock s j) := by frame_tac
theorem frame_jUnpend (s : St) (j : Nat) (pc : Pc) : Frame s (jUnpend s j pc) := by frame_tac
theorem frame_doList (s : St) (j : Nat) : Frame s (doList s j) := by frame_tac
theorem frame_doPend (s : St) (j : Nat) : Frame s (doPend s j) := by frame_tac
theorem frame_doActive (s : St) (j : Nat) : Frame s (doActive s j) := by frame_tac
theorem frame_doRollup (s : St) (j : Nat) : Frame s (doRollup s j) := by frame_tac
theorem frame_doEvict (s : St) (j f : Nat) : Frame s (doEvict s j f) := by frame_tac
theorem frame_doRemove (s : St) (j f : Nat) (r : List Nat) : Frame s (doRemove s j f r) := by frame_tac
theorem frame_jFinish (s : St) (j : Nat) : Frame s (jFinish s j) := by frame_tac
theorem frame_snapAcquire (s : St) (o : Option Nat) : Frame s (snapAcquire s o) := by frame_tac
theorem frame_setCompacting (s : St) (c : Bool) : Frame s (setCompacting s c) := by frame_tac
theorem frame_snapDec (s : St) (i : Nat) : Frame s (snapDec s i) := by frame_tac
theorem frame_snapRel (s : St) (i : Nat) : Frame s (snapRel s i) := by frame_tac
theorem frame_spawn (s : St) (k : JKind) (p : Content) : Frame s (spawnJob s k p) := by frame_tac
theorem frame_cleanFiles (s : St) (fs : List Nat) : Frame s (cleanFiles s fs) := by frame_tac

theorem frame_snapRemove (cfg : Cfg) (s : St) (i : Nat) (z : Bool) : Frame s (snapRemove cfg s i z) := by
  unfold snapRemove
  cases z
  · simp only [Bool.false_eq_true, if_false]; frame_tac
  · simp only [if_true]
    refine Frame.trans (removeVersion_frame cfg s (s.snap i).ver) ?_
    have := removeVersion_snap' cfg s (s.snap i).ver
    constructor <;> simp only [St.setSnap] <;> grind [upd]

theorem frame_jPrevRm (cfg : Cfg) (s : St) (j : Nat) : Frame s (jPrevRm cfg s j) := by
  unfold jPrevRm
  dsimp only
  split
  · exact Frame.trans (frame_setPc s j _) (removeVersion_frame cfg _ _)
  · exact frame_setPc s j _

theorem frame_jStartCompact (cfg : Cfg) (s : St) (j : Nat) : Frame s (jStartCompact cfg s j) := by
  unfold jStartCompact
  dsimp only
  exact Frame.trans (frame_snapAcquire s (some j)) (Frame.trans (frame_setCompacting _ _) (frame_setJob _ j _))

theorem frame_jPicked (s : St) (j : Nat) : Frame s (jPicked s j) := by
  unfold jPicked
  dsimp only
  split <;> exact frame_setJob s j _

theorem frame_jRead (s : St) (j : Nat) : Frame s (jRead s j) := by
  unfold jRead
  dsimp only
  split
  · exact frame_setPc s j _
  · split
    · exact Frame.trans (frame_setJob s j _) (snapGetReader_frame _ _ _ _)
    · exact frame_setPc s j _

theorem frame_jstep {cfg : Cfg} {s s' : St} {j : Nat} (hpf : cfg.pendFirst = true)
    (hnf : ∀ k, k < s.nJob → (s.job k).pc = .cLocked → (s.job k).nfRead = s.nextFile)
    (hs : jstep cfg s j = some s') : Frame s s' := by
  unfold jstep at hs
  simp only [hpf, ↓reduceIte] at hs
  split at hs
  case isFalse => cases hs
  case isTrue hj =>
  try dsimp only at hs
  split at hs
  case h_1 hpc =>
    split at hs
    · split at hs
      · cases hs; exact frame_jAlloc _ _ _ _
      · cases hs
    · split at hs
      · cases hs
      · cases hs; exact frame_jStartCompact _ _ _
    · cases hs; exact frame_setJob _ _ _
    · cases hs; exact frame_setPc _ _ _
    · cases hs; exact frame_setJob _ _ _
  case h_2 hpc => cases hs; exact frame_jPicked _ _
  case h_3 hpc => cases hs; exact frame_jRead _ _
  case h_4 hpc =>
    split at hs
    · cases hs; exact frame_jAlloc _ _ _ _
    · cases hs
  case h_5 hpc => cases hs; exact frame_jCreate _ _ _
  case h_6 hpc =>
    split at hs
    · cases hs; exact frame_setPc _ _ _
    · split at hs
      · split at hs
        · cases hs; exact frame_jLock _ _
        · cases hs
      · cases hs; exact frame_jSnapU _ _
  case h_7 hpc =>
    split at hs
    · cases hs; exact frame_jLockU _ _
    · cases hs
  case h_8 hpc => cases hs; exact frame_jSnap _ _ (hnf j hj hpc)
  case h_9 hpc => cases hs; exact frame_jSwap _ _
  case h_10 hpc => cases hs; exact frame_jCheck _ _
  case h_11 hpc => cases hs; exact frame_jPrevRm _ _ _
  case h_12 hpc =>
    split at hs
    · cases hs; exact Frame.trans (frame_setPc _ _ _) (frame_snapDec _ _)
    · cases hs
  case h_13 hpc =>
    split at hs
    · cases hs; exact Frame.trans (frame_setPc _ _ _) (frame_snapRemove _ _ _ _)
    · cases hs
  case h_14 hpc =>
    split at hs
    · cases hs; exact Frame.trans (frame_setPc _ _ _) (frame_snapRel _ _)
    · cases hs
  case h_15 hpc => cases hs; exact frame_jUnlock _ _
  case h_16 hpc =>
    split at hs
    · cases hs; exact frame_jUnpend _ _ _
    · cases hs; exact frame_jUnpend _ _ _
    · cases hs; exact frame_jUnpend _ _ _
  case h_17 hpc =>
    split at hs
    · cases hs; exact Frame.trans (frame_setPc _ _ _) (frame_snapDec _ _)
    · cases hs
  case h_18 hpc =>
    split at hs
    · cases hs; exact Frame.trans (frame_setPc _ _ _) (frame_snapRemove _ _ _ _)
    · cases hs
  case h_19 hpc =>
    split at hs
    · cases hs; exact Frame.trans (frame_setPc _ _ _) (frame_snapRel _ _)
    · cases hs
  case h_20 hpc =>
    cases hs
    split
    · exact frame_doList _ _
    · constructor <;> simp only [doPendL, St.setJob] <;> grind [upd]
  case h_21 hpc => cases hs; exact frame_doPend _ _
  case h_22 hpc => cases hs; exact frame_doActive _ _
  case h_23 hpc =>
    cases hs
    split
    · exact frame_doRollup _ _
    · constructor <;> simp only [doRollupL, St.setJob] <;> grind [upd]
  case h_24 hpc =>
    split at hs
    · cases hs; exact frame_jFinish _ _
    · cases hs; exact frame_doEvict _ _ _
  case h_25 hpc =>
    split at hs
    · cases hs; exact frame_jFinish _ _
    · cases hs; exact frame_doEvict _ _ _
  case h_26 hpc =>
    split at hs
    · cases hs
    · cases hs; exact frame_doRemove _ _ _ _
  case h_27 hpc => cases hs
  case h_28 hpc => cases hs; constructor <;> simp only [jPendU] <;> grind [upd]
  case h_29 hpc => cases hs; constructor <;> simp only [doListL, St.setJob] <;> grind [upd]

theorem frame_step {cfg : Cfg} {s s' : St} {a : Act} (hpf : cfg.pendFirst = true)
    (hnf : ∀ k, k < s.nJob → (s.job k).pc = .cLocked → (s.job k).nfRead = s.nextFile)
    (hs : step cfg s a = some s') : Frame s s' := by
  cases a with
  | acquire => simp only [step] at hs; cases hs; exact frame_snapAcquire _ _
  | getReader i f =>
    simp only [step] at hs
    split at hs
    · cases hs; exact snapGetReader_frame _ _ _ _
    · cases hs
  | loadFile i f =>
    simp only [step] at hs
    split at hs
    · cases hs; exact snapGetReader_frame _ _ _ _
    · cases hs
  | sDec i =>
    simp only [step] at hs
    split at hs
    · cases hs; exact frame_snapDec _ _
    · cases hs
  | sRemove i =>
    simp only [step] at hs
    split at hs
    · split at hs
      · cases hs; exact frame_snapRemove _ _ _ _
      · cases hs
    · cases hs
  | sRel i =>
    simp only [step] at hs
    split at hs
    · cases hs; exact frame_snapRel _ _
    · cases hs
  | spawn k p => simp only [step] at hs; cases hs; exact frame_spawn _ _ _
  | jstep j => exact frame_jstep hpf hnf hs
  | cleanup fs =>
    simp only [step] at hs
    split at hs
    · cases hs; exact frame_cleanFiles _ _
    · cases hs
  | findErrRelease i fs =>
    simp only [step] at hs
    split at hs
    · cases hs; constructor <;> simp
    · cases hs
  | sDec2 i =>
    simp only [step] at hs
    split at hs
    · cases hs; constructor <;> simp
    · cases hs
  | getReaderNoRetain i f =>
    simp only [step] at hs
    split at hs
    · cases hs; constructor <;> simp only [St.setSnap] <;> grind [upd]
    · cases hs
  | env df dv =>
    simp only [step] at hs
    split at hs
    · cases hs; constructor <;> simp only [envBump] <;> grind
    · cases hs

end LinVerif.Lemmas.C02
