/-
`fanOutQueue.Sync` over arbitrary group sets and arbitrary map iteration orders; the expiry loop of
replica/partition.go `IsExpire` (stop a group only when `IsEmpty`).
-/
import LinVerif.Lemmas.C06Inv
import LinVerif.Model.FanOutRepl

set_option linter.unusedSimpArgs false
set_option linter.unusedVariables false

namespace LinVerif.FanOut
open LinVerif.Map

theorem minAck_cons (a : Int) (k : Nat) (g : Group) (t : List (Nat × Group)) :
    minAck a ((k, g) :: t) = minAck (if g.ack < a then g.ack else a) t := rfl

/-- the loop of `Sync` does not depend on the order in which the map is iterated -/
theorem minAck_perm {l l' : List (Nat × Group)} (h : l.Perm l') : ∀ a, minAck a l = minAck a l' := by
  induction h with
  | nil => intro a; rfl
  | cons x _ ih => intro a; obtain ⟨k, g⟩ := x; simp only [minAck_cons]; exact ih _
  | swap x y l =>
    intro a
    obtain ⟨k, g⟩ := x
    obtain ⟨k', g'⟩ := y
    simp only [minAck_cons]
    congr 1
    repeat' split
    all_goals omega
  | trans _ _ ih1 ih2 => intro a; rw [ih1, ih2]

/-- ... and computes exactly the minimum of the start value and the groups' acks -/
theorem minAck_attained (a : Int) (l : List (Nat × Group)) :
    minAck a l = a ∨ ∃ k g, (k, g) ∈ l ∧ minAck a l = g.ack := by
  induction l generalizing a with
  | nil => left; rfl
  | cons p t ih =>
    obtain ⟨k, g⟩ := p
    rw [minAck_cons]
    rcases ih (if g.ack < a then g.ack else a) with h | ⟨k', g', hm, he⟩
    · by_cases hlt : g.ack < a
      · right; exact ⟨k, g, List.mem_cons_self, by rw [h]; simp [hlt]⟩
      · left; rw [h]; simp [hlt]
    · right; exact ⟨k', g', List.mem_cons_of_mem _ hm, he⟩

theorem isEmpty_perm {α : Type} {l l' : List α} (h : l.Perm l') : l.isEmpty = l'.isEmpty := by
  have := h.length_eq
  cases l <;> cases l' <;> simp_all

/-- `Sync` on a map iterated in any order gives the same queue -/
theorem sync_perm (s : State) (live' : List (Nat × Group)) (h : s.live.Perm live') :
    ({ s with live := live' } : State).sync.q = s.sync.q := by
  unfold State.sync
  simp only [← isEmpty_perm h, ← minAck_perm h]
  split
  · rfl
  · split <;> rfl

/-- a group that has never acknowledged anything (ack < 0, e.g. -1 from a fresh queue) keeps the
queue ack where it is — it is not "unset", it is the minimum -/
theorem sync_blocked_by_negative_ack (s : State) (g : Nat) (grp : Group) (hl : lookup s.live g = some grp)
    (hneg : grp.ack < 0) : s.sync = s := by
  unfold State.sync
  split
  · rfl
  · have := minAck_le_mem s.q.appended s.live g grp (mem_of_lookup hl)
    split
    · omega
    · rfl

/-- the seeded shape c06-20: the running minimum starts at -1 and a negative value means "not set" -/
def minAckUnset : Int → List (Nat × Group) → Int
  | a, [] => a
  | a, (_, g) :: t => minAckUnset (if a < 0 ∨ g.ack < a then g.ack else a) t

/-! ### the expiry loop: stop a group only when it is empty -/

/-- a group with `IsEmpty` (appended ≤ ack) does not contribute to `Sync`'s minimum: stopping it
changes nothing for the queue ack -/
theorem minAck_erase_empty (a : Int) (l : List (Nat × Group)) (g : Nat)
    (h : ∀ grp, (g, grp) ∈ l → a ≤ grp.ack) : minAck a (erase l g) = minAck a l := by
  induction l generalizing a with
  | nil => rfl
  | cons p t ih =>
    obtain ⟨k, x⟩ := p
    rw [erase_cons]
    by_cases hk : k = g
    · subst hk
      simp only [if_true, minAck_cons]
      have hx := h x List.mem_cons_self
      have : ¬ x.ack < a := by omega
      simp only [this, if_false]
      exact ih a (fun grp hm => h grp (List.mem_cons_of_mem _ hm))
    · simp only [hk, if_false, minAck_cons]
      apply ih
      intro grp hm
      have := h grp (List.mem_cons_of_mem _ hm)
      have h2 := minAck_le_start
      split <;> omega

/-! ### crash images of a group meta page -/

/-- `Ack n` (inside the window) is crash-atomic on the meta page: with write-through, whatever
prefix of its two stores has landed, the page holds the old positions or the new ones -/
theorem ack_crash_page (grp : Group) (n : Int) (k : Nat) :
    crashPage { consumed := grp.consumed, ack := grp.ack } (ackStores grp n) k =
      (if k < 2 then { consumed := grp.consumed, ack := grp.ack } else { consumed := grp.consumed, ack := n }) := by
  match k with
  | 0 => rfl
  | 1 => rfl
  | k + 2 =>
    have : ¬ (k + 2 < 2) := by omega
    simp [crashPage, ackStores, Meta.apply, this]

/-- the restore path of `NewConsumerGroup` (with the consumed lift) is idempotent under a crash after
any prefix of its own two stores: re-reading the torn page gives the same positions again -/
theorem newGroup_crash_idem (v : Variant) (hv : v.liftConsumed = true) (qack : Int) (m : Meta) (k : Nat) :
    newGroup v qack (some (crashPage m (newGroupStores v qack (some m)) k)) = newGroup v qack (some m) := by
  match k with
  | 0 => rfl
  | 1 =>
    simp only [crashPage, newGroupStores, List.take, List.foldl, Meta.apply, newGroup, restoredConsumed, restoredAck, hv]
    simp only [Meta.mk.injEq, true_and, and_true]
    repeat' split
    all_goals omega
  | k + 2 =>
    simp only [crashPage, newGroupStores, List.take, List.take_nil, List.foldl, Meta.apply, newGroup, restoredConsumed, restoredAck, hv]
    simp only [Meta.mk.injEq, true_and]
    refine ⟨?_, ?_⟩
    all_goals (repeat' split)
    all_goals omega

/-! ### the expiry loop -/

theorem create_q (v : Variant) (s : State) (g : Nat) : (s.create v g).q = s.q := by
  unfold State.create; split <;> rfl

theorem create_keeps_live (v : Variant) (s : State) (g k : Nat) (grp : Group) (h : lookup s.live k = some grp) :
    lookup (s.create v g).live k = some grp := by
  unfold State.create
  split
  · exact h
  · rename_i hn
    have : g ≠ k := by intro e; subst e; rw [hn] at h; cases h
    show lookup (upsert _ _ _) k = _
    rw [lookup_upsert_ne _ _ _ _ this]; exact h

theorem expireLoop_q (v : Variant) (p : Bool) : ∀ (gs : List Nat) (s : State), (expireLoop v p s gs).q = s.q
  | [], _ => rfl
  | g :: gs, s => by
    simp only [expireLoop]
    split
    · split
      · rw [expireLoop_q v p gs]; exact create_q v s g
      · rw [expireLoop_q v p gs]; exact create_q v s g
    · rw [expireLoop_q v p gs]; exact create_q v s g

/-- the pinned expiry loop (`IsEmpty`) never stops a group that still has something unacknowledged:
it stays live with its positions -/
theorem expireLoop_keeps_nonempty (v : Variant) : ∀ (gs : List Nat) (s : State) (k : Nat) (grp : Group),
    lookup s.live k = some grp → grp.isEmpty s.q.appended = false →
    lookup (expireLoop v false s gs).live k = some grp
  | [], _, _, _, h, _ => h
  | g :: gs, s, k, grp, h, hne => by
    have h1 := create_keeps_live v s g k grp h
    have hq := create_q v s g
    simp only [expireLoop]
    split
    · rename_i grp' hg'
      split
      · rename_i ht
        have hgk : g ≠ k := by
          intro e; subst e
          rw [h1] at hg'; cases hg'
          simp only [expireTest, Bool.false_eq_true, if_false, hq] at ht
          rw [ht] at hne; cases hne
        apply expireLoop_keeps_nonempty v gs _ k grp
        · show lookup (erase _ g) k = _
          rw [lookup_erase_ne _ _ _ hgk]; exact h1
        · show grp.isEmpty (s.create v g).q.appended = false
          rw [hq]; exact hne
      · exact expireLoop_keeps_nonempty v gs _ k grp h1 (by rw [hq]; exact hne)
    · exact expireLoop_keeps_nonempty v gs _ k grp h1 (by rw [hq]; exact hne)

end LinVerif.FanOut
