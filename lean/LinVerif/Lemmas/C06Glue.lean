/-
Helper lemmas for the replicator glue (Model/C06Glue.lean): `k` Consume calls in a row.
-/
import LinVerif.Model.C06Glue
import LinVerif.Lemmas.C06Consume

set_option linter.unusedSimpArgs false
set_option linter.unusedVariables false

namespace LinVerif.FanOut.Glue
open LinVerif.FanOut LinVerif.Map

theorem seqFrom_length (a : Int) : ∀ k, (seqFrom a k).length = k
  | 0 => rfl
  | k + 1 => by simp [seqFrom, seqFrom_length (a + 1) k]

theorem seqFrom_get (k : Nat) : ∀ (a : Int) (i : Nat), i < k → (seqFrom a k)[i]? = some (.val (a + i))
  := by
  induction k with
  | zero => intro a i h; omega
  | succ k ih =>
    intro a i h
    cases i with
    | zero => simp [seqFrom]
    | succ i =>
      simp only [seqFrom, List.getElem?_cons_succ]
      rw [ih (a + 1) i (by omega)]
      congr 2
      omega

/-- `k` Consume calls on a live, un-paused group with at least `k` messages ahead: they hand out
consumed+1 … consumed+k, move only the consumed position of that group, and leave the queue alone -/
theorem consume_replicate (v : Variant) (g : Nat) : ∀ (k : Nat) (s : State) (grp : Group),
    lookup s.live g = some grp → grp.paused = false → grp.consumed + k ≤ s.q.appended →
    results v s (List.replicate k (.consume g)) = seqFrom (grp.consumed + 1) k ∧
    (run v s (List.replicate k (.consume g))).q = s.q ∧
    ∃ grp', lookup (run v s (List.replicate k (.consume g))).live g = some grp' ∧
      grp'.consumed = grp.consumed + k ∧ grp'.ack = grp.ack ∧ grp'.paused = false := by
  intro k
  induction k with
  | zero =>
    intro s grp hl hp hk
    exact ⟨rfl, rfl, grp, hl, by simp, rfl, hp⟩
  | succ k ih =>
    intro s grp hl hp hk
    have hh : grp.consumed + 1 ≤ s.q.appended := by omega
    have hst : step v s (.consume g) = (s.putGroup g { grp with consumed := grp.consumed + 1 }, .val (grp.consumed + 1)) := by
      simp only [FanOut.step, State.consume, hl]
      simp [hp, hh]
    have hl1 := putGroup_live_self s g { grp with consumed := grp.consumed + 1 }
    obtain ⟨h1, h2, grp', h3, h4, h5, h6⟩ := ih (s.putGroup g { grp with consumed := grp.consumed + 1 })
      { grp with consumed := grp.consumed + 1 } hl1 hp (by show grp.consumed + 1 + k ≤ s.q.appended; omega)
    refine ⟨?_, ?_, grp', ?_, ?_, h5, h6⟩
    · simp only [List.replicate_succ, results, hst, seqFrom]
      rw [h1]
    · simp only [List.replicate_succ, run, hst]
      rw [h2]; rfl
    · simp only [List.replicate_succ, run, hst]
      exact h3
    · rw [h4]; show grp.consumed + 1 + (k : Int) = grp.consumed + ((k + 1 : Nat) : Int); omega

end LinVerif.FanOut.Glue
