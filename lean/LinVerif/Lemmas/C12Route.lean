/-
C12 — lemmas about the family iterator model (Model/RowRoute.lean): insertion sort is a sorted
permutation; maximal runs partition a list by family; over a list sorted by timestamp and a
monotone family function the runs' family times increase strictly.
-/
import LinVerif.Model.RowRoute

namespace LinVerif.RowRoute

theorem insTs_perm (r : Row) : ∀ l : List Row, (insTs r l).Perm (r :: l) := by
  intro l
  induction l with
  | nil => exact List.Perm.refl _
  | cons x xs ih =>
    unfold insTs
    by_cases h : r.2 ≤ x.2
    · rw [if_pos h]
    · rw [if_neg h]
      exact ((List.Perm.cons x ih).trans (List.Perm.swap r x xs))

theorem sortTs_cons (a : Row) (l : List Row) : sortTs (a :: l) = insTs a (sortTs l) := rfl

theorem sortTs_perm : ∀ l : List Row, (sortTs l).Perm l := by
  intro l
  induction l with
  | nil => exact List.Perm.refl _
  | cons a l ih =>
    rw [sortTs_cons]
    exact (insTs_perm a (sortTs l)).trans (List.Perm.cons a ih)

theorem insTs_sorted (r : Row) : ∀ l : List Row, l.Pairwise (fun a b => a.2 ≤ b.2) →
    (insTs r l).Pairwise (fun a b => a.2 ≤ b.2) := by
  intro l
  induction l with
  | nil => intro _; simp [insTs]
  | cons x xs ih =>
    intro h
    have hx := List.pairwise_cons.mp h
    unfold insTs
    by_cases hle : r.2 ≤ x.2
    · rw [if_pos hle]
      refine List.pairwise_cons.mpr ⟨?_, h⟩
      intro y hy
      rcases List.mem_cons.mp hy with rfl | hy
      · exact hle
      · exact Nat.le_trans hle (hx.1 y hy)
    · rw [if_neg hle]
      refine List.pairwise_cons.mpr ⟨?_, ih hx.2⟩
      intro y hy
      have hy' : y ∈ r :: xs := (insTs_perm r xs).mem_iff.mp hy
      rcases List.mem_cons.mp hy' with rfl | hy'
      · omega
      · exact hx.1 y hy'

theorem sortTs_sorted : ∀ l : List Row, (sortTs l).Pairwise (fun a b => a.2 ≤ b.2) := by
  intro l
  induction l with
  | nil => simp [sortTs]
  | cons a l ih => rw [sortTs_cons]; exact insTs_sorted a _ ih

theorem runs_cons (fam : Nat → Nat) (r : Row) (rest : List Row) :
    runs fam (r :: rest) =
      match runs fam rest with
      | [] => [(fam r.2, [r])]
      | g :: gs => if fam r.2 = g.1 then (g.1, r :: g.2) :: gs else (fam r.2, [r]) :: g :: gs := by
  first | rfl | (simp only [runs]; rfl)

/-- the runs, concatenated, are the list itself -/
theorem runs_flat (fam : Nat → Nat) : ∀ l : List Row, (runs fam l).flatMap (fun g => g.2) = l := by
  intro l
  induction l with
  | nil => rfl
  | cons r rest ih =>
    rw [runs_cons]
    cases hr : runs fam rest with
    | nil => rw [hr] at ih; simp at ih; subst ih; simp
    | cons g gs =>
      rw [hr] at ih
      simp only
      by_cases hf : fam r.2 = g.1
      · rw [if_pos hf]; simp only [List.flatMap_cons, List.cons_append] at ih ⊢; rw [ih]
      · rw [if_neg hf]; simp only [List.flatMap_cons, List.cons_append, List.nil_append] at ih ⊢; rw [ih]

/-- every run is non-empty and all its rows have the run's family -/
theorem runs_fam (fam : Nat → Nat) : ∀ l : List Row, ∀ g ∈ runs fam l, g.2 ≠ [] ∧ ∀ r ∈ g.2, fam r.2 = g.1 := by
  intro l
  induction l with
  | nil => intro g hg; simp [runs] at hg
  | cons r rest ih =>
    intro g hg
    rw [runs_cons] at hg
    cases hr : runs fam rest with
    | nil =>
      rw [hr] at hg
      simp only [List.mem_singleton] at hg
      subst hg
      exact ⟨by simp, by intro x hx; simp at hx; subst hx; rfl⟩
    | cons g0 gs =>
      rw [hr] at hg ih
      simp only at hg
      by_cases hf : fam r.2 = g0.1
      · rw [if_pos hf] at hg
        rcases List.mem_cons.mp hg with rfl | hg
        · refine ⟨by simp, ?_⟩
          intro x hx
          rcases List.mem_cons.mp hx with rfl | hx
          · exact hf
          · exact (ih g0 (List.mem_cons_self)).2 x hx
        · exact ih g (List.mem_cons_of_mem _ hg)
      · rw [if_neg hf] at hg
        rcases List.mem_cons.mp hg with rfl | hg
        · exact ⟨by simp, by intro x hx; simp at hx; subst hx; rfl⟩
        · exact ih g hg

/-- a run's family is the family of one of the list's rows -/
theorem runs_fam_mem (fam : Nat → Nat) (l : List Row) (g : Nat × List Row) (hg : g ∈ runs fam l) :
    ∃ r ∈ l, fam r.2 = g.1 := by
  obtain ⟨hne, hall⟩ := runs_fam fam l g hg
  cases hg2 : g.2 with
  | nil => exact absurd hg2 hne
  | cons x xs =>
    have hx : x ∈ g.2 := by rw [hg2]; exact List.mem_cons_self
    refine ⟨x, ?_, hall x hx⟩
    have : x ∈ (runs fam l).flatMap (fun g => g.2) := List.mem_flatMap.mpr ⟨g, hg, hx⟩
    rwa [runs_flat] at this

/-- over rows sorted by timestamp and a monotone family function, the runs' family times increase
strictly: no family is handed out twice -/
theorem runs_sorted (fam : Nat → Nat) (hmono : ∀ a b, a ≤ b → fam a ≤ fam b) :
    ∀ l : List Row, l.Pairwise (fun a b => a.2 ≤ b.2) →
      ((runs fam l).map (fun g => g.1)).Pairwise (fun a b => a < b) := by
  intro l
  induction l with
  | nil => intro _; simp [runs]
  | cons r rest ih =>
    intro h
    have hc := List.pairwise_cons.mp h
    have ihr := ih hc.2
    rw [runs_cons]
    cases hr : runs fam rest with
    | nil => simp
    | cons g gs =>
      rw [hr] at ihr
      simp only
      have hge : ∀ g' ∈ g :: gs, fam r.2 ≤ g'.1 := by
        intro g' hg'
        obtain ⟨x, hx, hfx⟩ := runs_fam_mem fam rest g' (by rw [hr]; exact hg')
        rw [← hfx]; exact hmono _ _ (hc.1 x hx)
      by_cases hf : fam r.2 = g.1
      · rw [if_pos hf]; simpa using ihr
      · rw [if_neg hf]
        simp only [List.map_cons] at ihr ⊢
        have hp := List.pairwise_cons.mp ihr
        refine List.pairwise_cons.mpr ⟨?_, ihr⟩
        intro y hy
        have hlt : fam r.2 < g.1 := by
          have := hge g List.mem_cons_self
          omega
        rcases List.mem_cons.mp hy with rfl | hy
        · exact hlt
        · exact Nat.lt_trans hlt (hp.1 y hy)

theorem sameFamily_all (fam : Nat → Nat) (r0 : Row) (rest : List Row)
    (h : sameFamily fam (r0 :: rest) = true) : ∀ r ∈ r0 :: rest, fam r.2 = fam r0.2 := by
  intro r hr
  rcases List.mem_cons.mp hr with rfl | hr
  · rfl
  · have := List.all_eq_true.mp h r hr
    simpa using this

end LinVerif.RowRoute
