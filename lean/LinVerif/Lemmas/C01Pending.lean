/-
C01 helper lemmas: no operation of an open store removes a table that is a pending output
(a table created by an unfinished writer); a junk / partial manifest that CURRENT does not name is harmless.
-/
import LinVerif.Lemmas.C01Reach

namespace LinVerif.Kv
open LinVerif

def FsOp.isRemoveTable : FsOp → Bool
  | .removeTable .. => true
  | _ => false

theorem commitEditLog_shape {m m1 : Mem} {fid : Int} {logs : List Log} {cops : List FsOp}
    (h : commitEditLog m fid logs = some (m1, cops)) :
    m1.fams = m.fams ∧ ∀ o ∈ cops, o.isRemoveTable = false := by
  unfold commitEditLog at h
  by_cases hl : logs = []
  · simp only [hl, if_true, Option.some.injEq, Prod.mk.injEq] at h
    obtain ⟨rfl, rfl⟩ := h
    exact ⟨rfl, by intro o ho; simp at ho⟩
  · simp only [hl, if_false] at h
    split at h
    · simp at h
    · split at h
      · simp at h
      · simp only [Option.some.injEq, Prod.mk.injEq] at h
        obtain ⟨rfl, rfl⟩ := h
        refine ⟨rfl, ?_⟩
        intro o ho
        simp only [List.mem_singleton] at ho
        subst ho; rfl

theorem commitAndClean_removes {m : Mem} {d : Disk} {name : Nat} {fid : Int} {pre : List FsOp} {logs : List Log}
    {kind kind' : String} {m' : Mem} {ops : List FsOp}
    (h : commitAndClean m d name fid pre logs kind = some (m', ops, kind'))
    (hpre : ∀ o ∈ pre, o.isRemoveTable = false) {nm : Nat} {g : Int} (hm : FsOp.removeTable nm g ∈ ops) :
    nm = name ∧ ∃ f', m.fam? name = some f' ∧ g ∉ f'.pending := by
  unfold commitAndClean at h
  cases hc : commitEditLog m fid logs with
  | none => simp [hc] at h
  | some r =>
    obtain ⟨m1, cops⟩ := r
    simp only [hc, Option.some.injEq, Prod.mk.injEq] at h
    obtain ⟨rfl, rfl, _⟩ := h
    obtain ⟨hf, hco⟩ := commitEditLog_shape hc
    simp only [List.mem_append] at hm
    rcases hm with (hm | hm) | hm
    · have := hpre _ hm; simp [FsOp.isRemoveTable] at this
    · have := hco _ hm; simp [FsOp.isRemoveTable] at this
    · unfold cleanupOps at hm
      have hfam : m1.fam? name = m.fam? name := by simp only [Mem.fam?, hf]
      rw [hfam] at hm
      cases hq : m.fam? name with
      | none => simp [hq] at hm
      | some f' =>
        cases hv : m1.vs.verOf fid with
        | none => simp [hq, hv] at hm
        | some v =>
          simp only [hq, hv] at hm
          obtain ⟨g', he, hl⟩ := mem_famObsoleteOps hm
          simp only [FsOp.removeTable.injEq] at he
          obtain ⟨rfl, rfl⟩ := he
          refine ⟨rfl, f', rfl, ?_⟩
          intro hp
          apply hl
          simp only [liveFiles, List.mem_append]
          exact Or.inl hp

/-- **a table created by an unfinished writer is never deleted**: no operation on an open store
removes a table whose number is a pending output of the family that owns the directory (flushers keep
their table's number pending from creation to commit: `Inv.builder`). -/
theorem pending_never_removed {cfg : Cfg} {s s' : St} {m : Mem} {o : Op} {ops : List FsOp}
    (hg : Good cfg s) (hm : s.mem = some m) (ho : runOp cfg s o = some (s', ops))
    {nm : Nat} {g : Int} (hrm : FsOp.removeTable nm g ∈ ops)
    {f : Fam} (hf : f ∈ m.fams) (hfn : f.opt.name = nm) : g ∉ f.pending := by
  obtain ⟨mem, d⟩ := s
  simp only at hm
  subst hm
  obtain ⟨hinv, _⟩ := hg
  have key : ∀ (M : Mem), M.fams = m.fams → ∀ {pre logs kind kind' m' fid},
      commitAndClean M d nm fid pre logs kind = some (m', ops, kind') → (∀ o ∈ pre, o.isRemoveTable = false) →
      g ∉ f.pending := by
    intro M hM pre logs kind kind' m' fid hc hpre
    obtain ⟨_, f', hf', hg'⟩ := commitAndClean_removes hc hpre hrm
    have hf'm : M.fam? nm = some f' := hf'
    obtain ⟨hf'mem, hf'n⟩ := fam?_some hf'm
    rw [hM] at hf'mem
    have : f' = f := names_inj hinv.names hf hf'mem (by rw [hf'n, hfn])
    rw [← this]; exact hg'
  cases o with
  | openS => simp [runOp] at ho
  | close =>
    simp only [runOp, Option.some.injEq, Prod.mk.injEq] at ho
    obtain ⟨_, rfl⟩ := ho
    simp [closeStore] at hrm
  | createFamily name thr =>
    simp only [runOp] at ho
    cases hc : createFamily m d name thr with
    | none => simp [hc] at ho
    | some r =>
      obtain ⟨m', ops'⟩ := r
      simp only [hc, Option.some.injEq, Prod.mk.injEq] at ho
      obtain ⟨_, rfl⟩ := ho
      unfold createFamily at hc
      split at hc
      · simp only [Option.some.injEq, Prod.mk.injEq] at hc
        obtain ⟨_, rfl⟩ := hc
        simp at hrm
      · split at hc
        · simp at hc
        · simp only [Option.some.injEq, Prod.mk.injEq] at hc
          obtain ⟨_, rfl⟩ := hc
          simp at hrm
  | flushStart name kvs seqs =>
    simp only [runOp] at ho
    cases hc : flushStart m name kvs seqs with
    | none => simp [hc] at ho
    | some r =>
      obtain ⟨m', ops'⟩ := r
      simp only [hc, Option.some.injEq, Prod.mk.injEq] at ho
      obtain ⟨_, rfl⟩ := ho
      unfold flushStart at hc
      split at hc
      · simp at hc
      · split at hc
        · simp at hc
        · split at hc
          · simp only [Option.some.injEq, Prod.mk.injEq] at hc
            obtain ⟨_, rfl⟩ := hc
            simp at hrm
          · simp only [Option.some.injEq, Prod.mk.injEq] at hc
            obtain ⟨_, rfl⟩ := hc
            simp at hrm
  | flushCommit name size =>
    simp only [runOp] at ho
    cases hc : flushCommit m name size with
    | none => simp [hc] at ho
    | some r =>
      obtain ⟨m', ops'⟩ := r
      simp only [hc, Option.some.injEq, Prod.mk.injEq] at ho
      obtain ⟨_, rfl⟩ := ho
      cases hff : m.fam? name with
      | none => simp [flushCommit, hff] at hc
      | some f0 =>
        cases hfl : f0.flusher with
        | none => simp [flushCommit, hff, hfl] at hc
        | some fl =>
          rw [flushCommit_eq m name size f0 fl hff hfl] at hc
          cases hce : commitEditLog m f0.opt.id (flushLogs fl m.cfg.rollup size) with
          | none => simp [hce] at hc
          | some r2 =>
            obtain ⟨m1, cops⟩ := r2
            simp only [hce, Option.some.injEq, Prod.mk.injEq] at hc
            obtain ⟨_, rfl⟩ := hc
            obtain ⟨_, hco⟩ := commitEditLog_shape hce
            simp only [List.mem_append] at hrm
            rcases hrm with hrm | hrm
            · cases hb : fl.builder with
              | none => simp [hb] at hrm
              | some p => obtain ⟨n, c⟩ := p; simp [hb] at hrm
            · have := hco _ hrm; simp [FsOp.isRemoveTable] at this
  | flushFail name =>
    simp only [runOp] at ho
    cases hc : flushFail m name with
    | none => simp [hc] at ho
    | some r =>
      obtain ⟨m', ops'⟩ := r
      simp only [hc, Option.some.injEq, Prod.mk.injEq] at ho
      obtain ⟨_, rfl⟩ := ho
      have := (flushFail_ok hinv hc).1
      subst this
      simp at hrm
  | edit name logs =>
    simp only [runOp] at ho
    cases hc : editCommit m name logs with
    | none => simp [hc] at ho
    | some r =>
      obtain ⟨m', ops'⟩ := r
      simp only [hc, Option.some.injEq, Prod.mk.injEq] at ho
      obtain ⟨_, rfl⟩ := ho
      unfold editCommit at hc
      split at hc
      · simp at hc
      · split at hc
        · obtain ⟨_, hco⟩ := commitEditLog_shape hc
          have := hco _ hrm; simp [FsOp.isRemoveTable] at this
        · simp at hc
  | compact name size =>
    simp only [runOp] at ho
    cases hc : compact m d name size with
    | none => simp [hc] at ho
    | some r =>
      obtain ⟨m', ops', kind⟩ := r
      simp only [hc, Option.some.injEq, Prod.mk.injEq] at ho
      obtain ⟨_, rfl⟩ := ho
      unfold compact at hc
      cases hff : m.fam? name with
      | none => simp [hff] at hc
      | some f0 =>
        simp only [hff] at hc
        cases hv : m.vs.verOf f0.opt.id with
        | none => simp [hv] at hc
        | some v =>
          simp only [hv] at hc
          have fin : ∀ {M : Mem} {pre : List FsOp} {logs : List Log} {kd : String},
              commitAndClean M d name f0.opt.id pre logs kd = some (m', ops', kind) → M.fams = m.fams →
              (∀ o ∈ pre, o.isRemoveTable = false) → g ∉ f.pending := by
            intro M pre logs kd hcc hM hp
            have e := (commitAndClean_removes hcc hp hrm).1
            subst e
            exact key M hM hcc hp
          split at hc
          · exact fin hc rfl (by intro o ho; first | (simp at ho; done) | (simp only [List.mem_cons, List.not_mem_nil, or_false] at ho; rcases ho with rfl | rfl <;> rfl))
          · split at hc
            · exact fin hc rfl (by intro o ho; first | (simp at ho; done) | (simp only [List.mem_cons, List.not_mem_nil, or_false] at ho; rcases ho with rfl | rfl <;> rfl))
            · split at hc
              · exact fin hc rfl (by intro o ho; first | (simp at ho; done) | (simp only [List.mem_cons, List.not_mem_nil, or_false] at ho; rcases ho with rfl | rfl <;> rfl))
              · split at hc
                · exact fin hc rfl (by intro o ho; first | (simp at ho; done) | (simp only [List.mem_cons, List.not_mem_nil, or_false] at ho; rcases ho with rfl | rfl <;> rfl))
                · exact fin hc rfl (by intro o ho; first | (simp at ho; done) | (simp only [List.mem_cons, List.not_mem_nil, or_false] at ho; rcases ho with rfl | rfl <;> rfl))

/-- a manifest file that CURRENT does not name can hold anything (an earlier crashed roll-over, a
partial record, a torn tail): the disk stays consistent with the same committed state -/
theorem Consistent.junk_manifest (cfg : Cfg) {d : Disk} {a : Abs} (h : Consistent cfg d a) (n : Int) (mf : Manifest)
    (hn : d.current ≠ some n) :
    Consistent cfg { d with manifests := Map.upsert d.manifests n mf } a := by
  refine h.of_same cfg (d' := { d with manifests := Map.upsert d.manifests n mf }) rfl rfl ?_ ?_
  · intro j hj
    have : n ≠ j := by intro e; subst e; exact hn hj
    exact Map.lookup_upsert_ne _ _ _ _ this
  · intro name f _; rfl

end LinVerif.Kv
