/-
Lemmas for the pending-load protocol (`Model/C11Pending.lean`): the invariants of the deferred
variant (counter = loads that have not finished) and of the variant without the defer (the counter
never drops below the number of early returns).
-/
import LinVerif.Model.C11Pending

namespace LinVerif.Lemmas.C11Pending
open LinVerif.C11Pending

/-- a per-stage measure summed over the stages. -/
def sumM (m : Stage → Nat) : List Stage → Nat
  | [] => 0
  | g :: gs => m g + sumM m gs

theorem remaining_eq (l : List Stage) : remaining l = sumM (fun g => g.loads.length) l := by
  induction l with
  | nil => rfl
  | cons g gs ih => simp [remaining, sumM, ih]

theorem sumM_set (m : Stage → Nat) : ∀ (l : List Stage) (t : Nat) (g g' : Stage), l[t]? = some g →
    sumM m (l.set t g') + m g = sumM m l + m g'
  | [], _, _, _, h => by simp at h
  | a :: l, 0, g, g', h => by
    simp at h; subst h
    simp [sumM]; omega
  | a :: l, t + 1, g, g', h => by
    have := sumM_set m l t g g' (by simpa using h)
    simp [sumM]; omega

theorem sumM_zero (m : Stage → Nat) : ∀ (l : List Stage), (∀ (i : Nat) (g : Stage), l[i]? = some g → m g = 0) → sumM m l = 0
  | [], _ => rfl
  | a :: l, h => by
    have h0 := h 0 a (by simp)
    have := sumM_zero m l (fun i g hg => h (i + 1) g (by simpa using hg))
    simp [sumM, h0, this]

/-- the invariant of the deferred variant. -/
structure Inv (s : St) : Prop where
  counter : s.counter = (remaining s.stages : Int)
  notPremature : s.premature = false
  order : ∀ (i : Nat) (g : Stage), s.stages[i]? = some g → g.checked = true → g.loads = []
  fires : s.stages ≠ [] → (∀ (i : Nat) (g : Stage), s.stages[i]? = some g → g.checked = true) → 1 ≤ s.fired

theorem inv_init (stages : List (List Outcome)) : Inv (init stages) := by
  refine ⟨rfl, rfl, ?_, ?_⟩
  · intro i g hg hc
    simp [init] at hg
    obtain ⟨l, _, rfl⟩ := hg
    simp at hc
  · intro hne hall
    cases stages with
    | nil => simp [init] at hne
    | cons l ls =>
      have := hall 0 { loads := l } (by simp [init])
      simp at this

theorem inv_step (s : St) (t : Nat) (h : Inv s) : Inv (step true s t) := by
  unfold step
  cases hg : s.stages[t]? with
  | none => exact h
  | some g =>
    simp only
    have hlt : t < s.stages.length := (List.getElem?_eq_some_iff.mp hg).1
    cases hl : g.loads with
    | cons o rest =>
      simp only [decs, Bool.true_or, if_true]
      have hs := sumM_set (fun g => g.loads.length) s.stages t g { g with loads := rest } hg
      simp only [hl, List.length_cons] at hs
      have hnc : g.checked = false := by
        cases hc : g.checked with
        | false => rfl
        | true => have := h.order t g hg hc; rw [hl] at this; simp at this
      refine ⟨?_, h.notPremature, ?_, ?_⟩
      · show s.counter - 1 = (remaining (s.stages.set t { g with loads := rest }) : Int)
        rw [h.counter, remaining_eq, remaining_eq]
        omega
      · intro i g' hg' hc'
        show g'.loads = []
        have hg'' : (s.stages.set t { g with loads := rest })[i]? = some g' := hg'
        rw [List.getElem?_set] at hg''
        by_cases hit : t = i
        · subst hit
          simp [hlt] at hg''
          subst hg''
          simp [hnc] at hc'
        · simp [hit] at hg''
          exact h.order i g' hg'' hc'
      · intro _ hall
        have := hall t { g with loads := rest } (by
          show (s.stages.set t { g with loads := rest })[t]? = _
          rw [List.getElem?_set]; simp [hlt])
        simp [hnc] at this
    | nil =>
      by_cases hc : g.checked = true
      · simp only [hc, if_true]; exact h
      · simp only [hc, Bool.false_eq_true, if_false]
        have hs := sumM_set (fun g => g.loads.length) s.stages t g { loads := [], checked := true } hg
        simp only [hl, List.length_nil] at hs
        have hrem : remaining (s.stages.set t { loads := [], checked := true }) = remaining s.stages := by
          rw [remaining_eq, remaining_eq]; omega
        refine ⟨?_, ?_, ?_, ?_⟩
        · show s.counter = (remaining (s.stages.set t { loads := [], checked := true }) : Int)
          rw [hrem]; exact h.counter
        · show (s.premature || (decide (s.counter = 0) && decide (remaining s.stages ≠ 0))) = false
          rw [h.notPremature, h.counter]
          by_cases hz : remaining s.stages = 0
          · simp [hz]
          · have : ¬ ((remaining s.stages : Int) = 0) := by omega
            simp [this]
        · intro i g' hg' hc'
          have hg'' : (s.stages.set t { loads := [], checked := true })[i]? = some g' := hg'
          rw [List.getElem?_set] at hg''
          by_cases hit : t = i
          · subst hit
            simp [hlt] at hg''
            subst hg''
            rfl
          · simp [hit] at hg''
            exact h.order i g' hg'' hc'
        · intro _ hall
          -- every stage is checked now: every load has finished, the counter is 0, this check fires
          have hz : remaining s.stages = 0 := by
            rw [remaining_eq]
            apply sumM_zero
            intro i g' hg'
            by_cases hit : t = i
            · subst hit
              rw [hg] at hg'; simp at hg'; subst hg'
              simp [hl]
            · have h1 : (s.stages.set t { loads := [], checked := true })[i]? = some g' := by
                rw [List.getElem?_set]; simp [hit]; exact hg'
              have := h.order i g' hg' (hall i g' h1)
              simp [this]
          have hc0 : s.counter = 0 := by rw [h.counter, hz]; rfl
          show 1 ≤ (if s.counter = 0 then s.fired + 1 else s.fired)
          simp [hc0]

theorem inv_run (sched : List Nat) : ∀ (s : St), Inv s → Inv (run true s sched) := by
  induction sched with
  | nil => intro s h; exact h
  | cons t rest ih => intro s h; exact ih _ (inv_step s t h)

/-! ### without the defer -/

/-- loads that will decrement when they run (the normal end). -/
def cnt (p : Outcome → Bool) : List Outcome → Nat
  | [] => 0
  | o :: os => (if p o then 1 else 0) + cnt p os
def normalLeft (g : Stage) : Nat := cnt (· == Outcome.loaded) g.loads
/-- loads that will return early. -/
def earlyLeft (g : Stage) : Nat := cnt (· != Outcome.loaded) g.loads

/-- without the defer the counter is the normal loads still to run plus ALL early returns, past
and future — a constant `E` — and nothing ever fires while `E > 0`. -/
structure InvN (E : Nat) (s : St) : Prop where
  counter : s.counter = (sumM normalLeft s.stages : Int) + E
  fired : s.fired = 0

theorem invN_step (E : Nat) (hE : 1 ≤ E) (s : St) (t : Nat) (h : InvN E s) : InvN E (step false s t) := by
  unfold step
  cases hg : s.stages[t]? with
  | none => exact h
  | some g =>
    simp only
    have hc := h.counter
    cases hl : g.loads with
    | cons o rest =>
      have hs := sumM_set normalLeft s.stages t g { g with loads := rest } hg
      simp only [normalLeft, hl] at hs
      cases o with
      | loaded =>
        simp only [decs, Bool.false_or, beq_self_eq_true, if_true]
        simp [cnt] at hs
        refine ⟨?_, h.fired⟩
        show s.counter - 1 = (sumM normalLeft (s.stages.set t { g with loads := rest }) : Int) + E
        omega
      | noSeries =>
        have hd : decs false Outcome.noSeries = false := rfl
        simp only [hd, Bool.false_eq_true, if_false]
        simp [cnt] at hs
        refine ⟨?_, h.fired⟩
        show s.counter = (sumM normalLeft (s.stages.set t { g with loads := rest }) : Int) + E
        omega
      | nilLoader =>
        have hd : decs false Outcome.nilLoader = false := rfl
        simp only [hd, Bool.false_eq_true, if_false]
        simp [cnt] at hs
        refine ⟨?_, h.fired⟩
        show s.counter = (sumM normalLeft (s.stages.set t { g with loads := rest }) : Int) + E
        omega
    | nil =>
      by_cases hck : g.checked = true
      · simp only [hck, if_true]; exact h
      · simp only [hck, Bool.false_eq_true, if_false]
        have hs := sumM_set normalLeft s.stages t g { loads := [], checked := true } hg
        simp only [normalLeft, hl, cnt] at hs
        have hne : ¬ s.counter = 0 := by omega
        refine ⟨?_, ?_⟩
        · show s.counter = (sumM normalLeft (s.stages.set t { loads := [], checked := true }) : Int) + E
          omega
        · show (if s.counter = 0 then s.fired + 1 else s.fired) = 0
          simp [hne, h.fired]

theorem invN_run (E : Nat) (hE : 1 ≤ E) (sched : List Nat) : ∀ (s : St), InvN E s → InvN E (run false s sched) := by
  induction sched with
  | nil => intro s h; exact h
  | cons t rest ih => intro s h; exact ih _ (invN_step E hE s t h)

theorem split_loads (l : List Stage) :
    remaining l = sumM normalLeft l + sumM earlyLeft l := by
  induction l with
  | nil => rfl
  | cons g gs ih =>
    have : g.loads.length = normalLeft g + earlyLeft g := by
      unfold normalLeft earlyLeft
      induction g.loads with
      | nil => rfl
      | cons o os ih2 => cases o <;> simp [cnt] at * <;> omega
    simp [remaining, sumM, ih]; omega

/-! ### either variant: the number of stages is fixed, at most one `Reduce` per `leafReduce` -/

theorem step_len (d : Bool) (s : St) (t : Nat) : (step d s t).stages.length = s.stages.length := by
  unfold step
  cases s.stages[t]? with
  | none => rfl
  | some g =>
    simp only
    cases g.loads with
    | cons o rest => simp
    | nil => by_cases hc : g.checked = true <;> simp [hc]

theorem run_len (d : Bool) (sched : List Nat) : ∀ (s : St), (run d s sched).stages.length = s.stages.length := by
  induction sched with
  | nil => intro s; rfl
  | cons t rest ih => intro s; exact (ih _).trans (step_len d s t)

def checkedCnt (g : Stage) : Nat := if g.checked then 1 else 0

theorem fired_le_step (d : Bool) (s : St) (t : Nat) (h : s.fired ≤ sumM checkedCnt s.stages) :
    (step d s t).fired ≤ sumM checkedCnt (step d s t).stages := by
  unfold step
  cases hg : s.stages[t]? with
  | none => exact h
  | some g =>
    simp only
    cases hl : g.loads with
    | cons o rest =>
      have hs := sumM_set checkedCnt s.stages t g { g with loads := rest } hg
      simp only [checkedCnt] at hs
      show s.fired ≤ sumM checkedCnt (s.stages.set t { g with loads := rest })
      omega
    | nil =>
      by_cases hc : g.checked = true
      · simp only [hc, if_true]; exact h
      · simp only [hc, Bool.false_eq_true, if_false]
        have hs := sumM_set checkedCnt s.stages t g { loads := [], checked := true } hg
        simp [checkedCnt, hc] at hs
        show (if s.counter = 0 then s.fired + 1 else s.fired) ≤ sumM checkedCnt (s.stages.set t { loads := [], checked := true })
        split <;> omega

theorem fired_le_run (d : Bool) (sched : List Nat) : ∀ (s : St), s.fired ≤ sumM checkedCnt s.stages →
    (run d s sched).fired ≤ sumM checkedCnt (run d s sched).stages := by
  induction sched with
  | nil => intro s h; exact h
  | cons t rest ih => intro s h; exact ih _ (fired_le_step d s t h)

theorem sumM_le_length (l : List Stage) : sumM checkedCnt l ≤ l.length := by
  induction l with
  | nil => simp [sumM]
  | cons g gs ih => simp [sumM, checkedCnt]; split <;> omega

end LinVerif.Lemmas.C11Pending
