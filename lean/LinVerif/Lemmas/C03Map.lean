/-
C03 helper lemmas about association lists (`LinVerif.Map`) beyond the shared ones.
-/
import LinVerif.Util.Map

set_option linter.unusedSectionVars false
set_option linter.unusedSimpArgs false
namespace LinVerif.C03
open LinVerif.Map

variable {κ : Type} [DecidableEq κ] {ν μ : Type}

theorem lookup_cons (k' : κ) (v : ν) (t : List (κ × ν)) (k : κ) :
    lookup ((k', v) :: t) k = if k' = k then some v else lookup t k := rfl

theorem lookup_eq_none_iff (m : List (κ × ν)) (k : κ) : lookup m k = none ↔ k ∉ keys m := by
  induction m with
  | nil => simp [keys]
  | cons p t ih =>
    obtain ⟨k', v⟩ := p
    by_cases h : k' = k
    · simp [lookup_cons, h, keys]
    · simp only [lookup_cons, h, if_false, ih, keys, List.map_cons, List.mem_cons, not_or]
      constructor
      · intro h1; exact ⟨fun e => h e.symm, h1⟩
      · intro h1; exact h1.2

theorem lookup_isSome_iff (m : List (κ × ν)) (k : κ) : (lookup m k).isSome ↔ k ∈ keys m := by
  have h := lookup_eq_none_iff m k
  cases hl : lookup m k with
  | none => rw [hl] at h; simpa using h.mp rfl
  | some v =>
    rw [hl] at h
    simp only [Option.isSome_some, true_iff]
    exact Classical.byContradiction fun hn => by simpa using h.mpr hn

theorem lookup_mem {m : List (κ × ν)} {k : κ} {v : ν} (h : lookup m k = some v) : (k, v) ∈ m := by
  induction m with
  | nil => simp [lookup] at h
  | cons p t ih =>
    obtain ⟨k', v'⟩ := p
    by_cases h1 : k' = k
    · simp only [lookup_cons, h1, if_true, Option.some.injEq] at h
      subst h1; subst h; exact List.mem_cons_self
    · simp only [lookup_cons, h1, if_false] at h
      exact List.mem_cons_of_mem _ (ih h)

/-- lookup in a list built from its keys -/
theorem lookup_map_keys (l : List κ) (g : κ → ν) (k : κ) :
    lookup (l.map (fun x => (x, g x))) k = if k ∈ l then some (g k) else none := by
  induction l with
  | nil => simp
  | cons x t ih =>
    by_cases h : x = k
    · subst h; simp [lookup_cons]
    · have h' : ¬ k = x := fun e => h e.symm
      simp [lookup_cons, h, h', ih]

/-- lookup after mapping the values (key preserved) -/
theorem lookup_map_vals (l : List (κ × ν)) (g : κ → ν → μ) (k : κ) :
    lookup (l.map (fun p => (p.1, g p.1 p.2))) k = (lookup l k).map (g k) := by
  induction l with
  | nil => simp
  | cons p t ih =>
    obtain ⟨k', v⟩ := p
    by_cases h : k' = k
    · subst h; simp [lookup_cons]
    · simp [lookup_cons, h, ih]

theorem lookup_append (a b : List (κ × ν)) (k : κ) :
    lookup (a ++ b) k = match lookup a k with | some v => some v | none => lookup b k := by
  induction a with
  | nil => simp
  | cons p t ih =>
    obtain ⟨k', v⟩ := p
    by_cases h : k' = k
    · simp [lookup_cons, h]
    · simp [lookup_cons, h, ih]

theorem keys_append (a b : List (κ × ν)) : keys (a ++ b) = keys a ++ keys b := by
  simp [keys]

theorem keys_cons (p : κ × ν) (t : List (κ × ν)) : keys (p :: t) = p.1 :: keys t := rfl

theorem keys_upsert_mem (m : List (κ × ν)) (k : κ) (v : ν) (x : κ) :
    x ∈ keys (upsert m k v) ↔ x = k ∨ x ∈ keys m := by
  induction m with
  | nil => simp [upsert, keys]
  | cons p t ih =>
    obtain ⟨k', v'⟩ := p
    by_cases h : k' = k
    · subst h; simp [upsert, keys]
    · simp only [upsert, h, if_false, keys_cons, List.mem_cons, ih]
      constructor
      · rintro (h1 | h1 | h1)
        · right; left; exact h1
        · left; exact h1
        · right; right; exact h1
      · rintro (h1 | h1 | h1)
        · right; left; exact h1
        · left; exact h1
        · right; right; exact h1

/-- entries with key `k` of a list with distinct keys: exactly what `lookup` finds -/
theorem filter_key_eq_lookup (m : List (κ × ν)) (hn : (keys m).Nodup) (k : κ) :
    (m.filter (fun p => decide (p.1 = k))).map Prod.snd = (lookup m k).toList := by
  induction m with
  | nil => simp
  | cons p t ih =>
    obtain ⟨k', v⟩ := p
    simp only [keys_cons, List.nodup_cons] at hn
    by_cases h : k' = k
    · subst h
      have hnone : t.filter (fun p => decide (p.1 = k')) = [] := by
        rw [List.filter_eq_nil_iff]
        intro p hp
        simp only [decide_eq_true_eq]
        intro e
        apply hn.1
        rw [← e]
        exact List.mem_map_of_mem hp
      simp [lookup_cons, List.filter_cons, hnone]
    · simp [lookup_cons, h, List.filter_cons, ih hn.2]

end LinVerif.C03
