/-
C04 (round 10) — C13's zone contract `ZoneOK` + `HourAligned` PROVED for daylight-saving zones given by
one transition, generically over the transition (no `decide` on sample days): any offsets, any transition
instant, provided the wall clock just before and just after the transition lies strictly inside ONE local
day (no local midnight is skipped or repeated — true of every zone that changes its clock between 00:00
and 24:00 local time exclusive) and the clock moves by a whole number of hours.

Covered: `Zone.oneTransition before after at_` (Model/IntervalZone.lean) and the driver's constructor
`Zone.ofTransitions before [(at_, after)]` (a transition TABLE with one row; its `time.Date` resolution
differs from `oneTransition` on ambiguous wall-clock seconds, not on local midnights).
-/
import LinVerif.Lemmas.C13ZoneContract

set_option linter.unusedSimpArgs false
namespace LinVerif.Lemmas.C04
open LinVerif.Interval LinVerif.Lemmas.C13

/-- the hypotheses on ONE transition `(at_, before → after)` (UTC second, offsets in seconds east): the
wall clock just before (`at_ + before`) and just after (`at_ + after`) the transition both lie strictly
inside local day `d`, and the clock moves by a whole number of hours -/
structure TransOK (before after at_ d : Int) : Prop where
  b0 : d * 86400 < at_ + before
  a0 : d * 86400 < at_ + after
  b1 : at_ + before < (d + 1) * 86400
  a1 : at_ + after < (d + 1) * 86400
  hours : (after - before) % 3600 = 0

/-- closed form of the local midnights: the old offset up to the day of the transition, the new one after -/
theorem one_midnight (before after at_ d : Int) (h : TransOK before after at_ d) (n : Int) :
    midnightOf (Zone.oneTransition before after at_) n =
      if n ≤ d then (n * 86400 - before) * 1000 else (n * 86400 - after) * 1000 := by
  obtain ⟨b0, a0, b1, a1, _⟩ := h
  simp only [midnightOf, Zone.oneTransition]
  by_cases hn : n ≤ d
  · have : n * 86400 - before < at_ := by omega
    simp [this, hn]
  · have : ¬ (n * 86400 - before < at_) := by omega
    simp [this, hn]

theorem one_localDay (before after at_ : Int) (t : Int) (h0 : 0 ≤ t) :
    localDay (Zone.oneTransition before after at_) t =
      if t / 1000 < at_ then (t / 1000 + before) / 86400 else (t / 1000 + after) / 86400 := by
  simp only [localDay, Zone.oneTransition, Int.tdiv_eq_ediv_of_nonneg h0]
  split <;> rfl

/-- every one-transition zone satisfying `TransOK` satisfies C13's contract: the day of the transition
has `24 h - (after - before)` hours (23 or 25 for the usual DST rules) -/
theorem oneTransition_ok (before after at_ d : Int) (h : TransOK before after at_ d) :
    ZoneOK (Zone.oneTransition before after at_) ∧ HourAligned (Zone.oneTransition before after at_) := by
  have hm := one_midnight before after at_ d h
  obtain ⟨b0, a0, b1, a1, hh⟩ := h
  refine ⟨⟨?_, ?_, ?_⟩, ?_⟩
  · intro n
    rw [hm, hm]
    by_cases h1 : n ≤ d <;> by_cases h2 : n + 1 ≤ d <;> simp only [h1, h2, if_true, if_false] <;> omega
  · intro t h0
    rw [hm, hm, one_localDay _ _ _ _ h0]
    by_cases hs : t / 1000 < at_
    · simp only [hs, if_true]
      by_cases h1 : (t / 1000 + before) / 86400 ≤ d <;>
        by_cases h2 : (t / 1000 + before) / 86400 + 1 ≤ d <;> simp only [h1, h2, if_true, if_false] <;> omega
    · simp only [hs, if_false]
      by_cases h1 : (t / 1000 + after) / 86400 ≤ d <;>
        by_cases h2 : (t / 1000 + after) / 86400 + 1 ≤ d <;> simp only [h1, h2, if_true, if_false] <;> omega
  · intro n
    simp only [localDay, hm]
    by_cases h1 : n ≤ d
    · simp only [h1, if_true, Int.mul_tdiv_cancel _ (by decide : (1000 : Int) ≠ 0), Zone.oneTransition]
      have : n * 86400 - before < at_ := by omega
      simp only [this, if_true]; omega
    · simp only [h1, if_false, Int.mul_tdiv_cancel _ (by decide : (1000 : Int) ≠ 0), Zone.oneTransition]
      have : ¬ (n * 86400 - after < at_) := by omega
      simp only [this, if_false]; omega
  · intro n
    rw [hm, hm]
    by_cases h1 : n ≤ d <;> by_cases h2 : n + 1 ≤ d <;> simp only [h1, h2, if_true, if_false] <;> omega

/-- `ZoneOK` / `HourAligned` only look at `offUTC` and at `offLocal` of local midnights -/
theorem zoneOK_congr (z z' : Zone) (h1 : ∀ s, z.offUTC s = z'.offUTC s)
    (h2 : ∀ n : Int, z.offLocal (n * 86400) = z'.offLocal (n * 86400))
    (h : ZoneOK z' ∧ HourAligned z') : ZoneOK z ∧ HourAligned z := by
  have em : ∀ n, midnightOf z n = midnightOf z' n := fun n => by simp only [midnightOf, h2]
  have el : ∀ t, localDay z t = localDay z' t := fun t => by simp only [localDay, h1]
  obtain ⟨⟨a, b, c⟩, e⟩ := h
  refine ⟨⟨?_, ?_, ?_⟩, ?_⟩
  · intro n; rw [em, em]; exact a n
  · intro t h0; rw [el, em, em]; exact b t h0
  · intro n; rw [em, el]; exact c n
  · intro n; rw [em, em]; exact e n

theorem ofTrans1_offUTC (before after at_ s : Int) :
    (Zone.ofTransitions before [(at_, after)]).offUTC s = (Zone.oneTransition before after at_).offUTC s := by
  simp only [Zone.ofTransitions, Zone.oneTransition, List.foldl_cons, List.foldl_nil]
  by_cases h : at_ ≤ s
  · have : ¬ s < at_ := by omega
    simp [h, this]
  · have : s < at_ := by omega
    simp [h, this]

/-- the table's two-step `time.Date` resolution gives, for every local midnight, the offset of the side
the midnight lies on (also when the midnight read as a UTC second lies on the other side of the
transition: zones east of UTC) -/
theorem ofTrans1_offLocal (before after at_ d : Int) (h : TransOK before after at_ d) (n : Int) :
    (Zone.ofTransitions before [(at_, after)]).offLocal (n * 86400) =
      (Zone.oneTransition before after at_).offLocal (n * 86400) := by
  obtain ⟨b0, a0, b1, a1, _⟩ := h
  simp only [Zone.ofTransitions, Zone.oneTransition, List.foldl_cons, List.foldl_nil, List.filter_cons,
    List.filter_nil]
  by_cases hn : n ≤ d
  · have c1 : n * 86400 - before < at_ := by omega
    by_cases hw : at_ ≤ n * 86400
    · have c3 : ¬ (at_ ≤ n * 86400 - after) := by omega
      simp [hw, c1, c3]
    · have c3 : ¬ (at_ ≤ n * 86400 - before) := by omega
      simp [hw, c1, c3]
  · have c1 : ¬ (n * 86400 - before < at_) := by omega
    have c2 : at_ ≤ n * 86400 - after := by omega
    by_cases hw : at_ ≤ n * 86400
    · simp [hw, c1, c2]
    · have c3 : at_ ≤ n * 86400 - before := by omega
      simp [hw, c1, c3, c2]

theorem ofTransitions_one_ok (before after at_ d : Int) (h : TransOK before after at_ d) :
    ZoneOK (Zone.ofTransitions before [(at_, after)]) ∧ HourAligned (Zone.ofTransitions before [(at_, after)]) :=
  zoneOK_congr _ _ (ofTrans1_offUTC before after at_) (ofTrans1_offLocal before after at_ d h)
    (oneTransition_ok before after at_ d h)

end LinVerif.Lemmas.C04
