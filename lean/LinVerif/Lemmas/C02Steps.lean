import LinVerif.Lemmas.C02Defs
set_option linter.unusedSimpArgs false

namespace LinVerif.Lemmas.C02
open LinVerif.VersionSet LinVerif.TableCache

theorem safe_init (v0 f0 : Nat) : Safe (St.init v0 f0) := by
  refine ⟨?_, ?_, ?_, ?_, ?_, ?_, ?_, ?_, ?_, ?_, ?_, ?_, ?_, ?_⟩ <;> simp [St.init, cntOpen, VData.nos, VData.rollupFiles, holdSum]

theorem ownRange_of_edit {pc : Pc} (h : editRange pc = true) : ownRange pc = true := by
  cases pc <;> simp_all [editRange, ownRange]

theorem pc_facts (b : Job) :
    (editRange b.pc = true → ownRange b.pc = true) ∧
    (b.pc = .reading → compactOnly b.pc = true ∧ ownRange b.pc = true) ∧
    (b.pc = .picked → compactOnly b.pc = true ∧ ownRange b.pc = true) := by
  refine ⟨ownRange_of_edit, ?_, ?_⟩ <;>
  · intro h; rw [h]; exact ⟨rfl, rfl⟩

theorem jobOk_acquire {s : St} {o : Option Nat} {k : Nat} {b : Job} (h : JobOk s k b) :
    JobOk (snapAcquire s o) k b := by
  obtain ⟨h0, hn0, hn0b, hn0c, hn1, hn2, h1, h2, h3, h4, h5, h6, h7, h8, h9, h10, hrec, hnf, hrd, h11, h12, h13, h14⟩ := h
  obtain ⟨e1, e2, e3⟩ := pc_facts b
  constructor <;> simp only [snapAcquire, PastPending, Dead, DeadR] at * 
  case edit => grind [upd]
  case reading => grind [upd]
  all_goals grind [upd]


theorem safe_acquire {s : St} (o : Option Nat) (h : Safe s) : Safe (snapAcquire s o) := by
  obtain ⟨a1, a2, a3, a4, b1, b2, b3, bj, bd, c1, c2, c3, c4, d1⟩ := h
  constructor
  case jobs => intro k hk; exact jobOk_acquire (bj k hk)
  case ref_count =>
    intro v
    simp only [snapAcquire, cntOpen]
    rw [cntOpen_upd_ge _ _ _ _ _ (Nat.le_refl _)]
    have := a2 v
    simp only [openOn, upd]
    grind
  case hold_count =>
    intro f r hr
    simp only [snapAcquire, holdSum] at *
    rw [holdSum_upd_ge _ _ _ _ _ (Nat.le_refl _)]
    have := c3 f r hr
    simp [upd]
    exact this
  all_goals (simp only [snapAcquire, PastPending, Dead, DeadR] at *; grind [upd])


theorem holdSum_zero (snap : Nat → Snap) (f n : Nat) (h : ∀ k, k < n → f ∉ (snap k).held) :
    holdSum snap f n = 0 := by
  induction n with
  | zero => rfl
  | succ k ih =>
    have h1 := ih (fun k' hk' => h k' (by omega))
    have h2 := h k (by omega)
    simp [holdSum, h1, List.count_eq_zero.mpr h2]

theorem jobOk_cref {s : St} {c : Cache} {k : Nat} {b : Job} (h : JobOk s k b) :
    JobOk { s with cref := c } k b := by
  obtain ⟨h0, hn0, hn0b, hn0c, hn1, hn2, h1, h2, h3, h4, h5, h6, h7, h8, h9, h10, hrec, hnf, hrd, h11, h12, h13, h14⟩ := h
  constructor <;> simp only [PastPending, Dead, DeadR] at * <;> grind

theorem jobOk_held {s : St} {i : Nat} {l : List Nat} {k : Nat} {b : Job} (h : JobOk s k b) :
    JobOk (s.setSnap i { s.snap i with held := l }) k b := by
  obtain ⟨h0, hn0, hn0b, hn0c, hn1, hn2, h1, h2, h3, h4, h5, h6, h7, h8, h9, h10, hrec, hnf, hrd, h11, h12, h13, h14⟩ := h
  constructor <;> simp only [St.setSnap, PastPending, Dead, DeadR] at * <;> grind [upd]

/-- the cache part of GetReader (no reader recorded: `Snapshot.Load`) -/
theorem safe_cacheRetain {s : St} {i f : Nat} {c : Cache} (h : Safe s)
    (hi : i < s.nSnap) (ho : (s.snap i).st = .opened) (hf : f ∈ (s.ver (s.snap i).ver).nos)
    (hc : getReader s.cref s.disk f = some c) : Safe { s with cref := c } := by
  obtain ⟨a1, a2, a3, a4, b1, b2, b3, bj, bd, c1, c2, c3, c4, d1⟩ := h
  have hact := a3 i hi ho
  have hz : s.cref f = none → holdSum s.snap f s.nSnap = 0 := by
    intro hn
    apply holdSum_zero
    intro k hk hmem
    by_cases hko : (s.snap k).st = .opened
    · exact c1 k hk hko f hmem hn
    · exact (c4 k hk hko f hmem hn).2.2 _ hact hf
  constructor
  case jobs => intro k hk; exact jobOk_cref (bj k hk)
  case hold_count =>
    intro g r hr
    simp only [getReader] at hc
    simp only at hr ⊢
    cases hcf : s.cref f with
    | some r0 =>
      simp [hcf] at hc
      subst hc
      by_cases hg : g = f
      · subst hg; simp [upd] at hr; have := c3 g r0 hcf; omega
      · simp [upd, hg] at hr; exact c3 g r hr
    | none =>
      simp [hcf] at hc
      obtain ⟨_, hc⟩ := hc
      subst hc
      by_cases hg : g = f
      · subst hg; simp [upd] at hr; have := hz hcf; omega
      · simp [upd, hg] at hr; exact c3 g r hr
  case held_mapped =>
    intro k hk hko g hg
    have h0 := c1 k hk hko g hg
    have hcg : ∀ g, s.cref g ≠ none → c g ≠ none := by
      intro g hgn
      simp only [getReader] at hc
      cases hcf : s.cref f with
      | some r0 => simp [hcf] at hc; subst hc; by_cases hg : g = f <;> simp [upd, hg, hgn]
      | none => simp [hcf] at hc; obtain ⟨_, hc⟩ := hc; subst hc; by_cases hg : g = f <;> simp [upd, hg, hgn]
    exact hcg g h0
  case held_dead =>
    intro k hk hko g hg hn
    have hcg : c g = none → s.cref g = none := by
      intro hgn
      simp only [getReader] at hc
      cases hcf : s.cref f with
      | some r0 =>
        simp [hcf] at hc; subst hc
        by_cases hg : g = f
        · subst hg; simp [upd] at hgn
        · simpa [upd, hg] using hgn
      | none =>
        simp [hcf] at hc; obtain ⟨_, hc⟩ := hc; subst hc
        by_cases hg : g = f
        · subst hg; simp [upd] at hgn
        · simpa [upd, hg] using hgn
    have := c4 k hk hko g hg (hcg hn)
    simpa [Dead] using this
  all_goals (simp only [PastPending, Dead, DeadR] at *; grind)

theorem safe_hold {s : St} {i f : Nat} (h : Safe s) (hi : i < s.nSnap) (ho : (s.snap i).st = .opened)
    (hf : f ∈ (s.ver (s.snap i).ver).nos) (hm : ∃ r, s.cref f = some r ∧ (holdSum s.snap f s.nSnap : Int) + 1 ≤ r) :
    Safe (s.setSnap i { s.snap i with held := f :: (s.snap i).held }) := by
  obtain ⟨a1, a2, a3, a4, b1, b2, b3, bj, bd, c1, c2, c3, c4, d1⟩ := h
  obtain ⟨r0, hr0, hle⟩ := hm
  constructor
  case jobs => intro k hk; exact jobOk_held (bj k hk)
  case ref_count =>
    intro v
    simp only [St.setSnap]
    have := cntOpen_upd_lt s.snap v i { s.snap i with held := f :: (s.snap i).held } s.nSnap hi
    have := a2 v
    simp only [openOn] at *
    grind
  case hold_count =>
    intro g r hr
    simp only [St.setSnap] at *
    have := holdSum_upd_lt s.snap g i { s.snap i with held := f :: (s.snap i).held } s.nSnap hi
    have := c3 g r hr
    by_cases hg : g = f
    · subst hg; simp at *; grind
    · have : List.count g (f :: (s.snap i).held) = List.count g (s.snap i).held := by
        simp [List.count_cons, Ne.symm hg]
      simp at *; grind
  all_goals (simp only [St.setSnap, PastPending, Dead, DeadR] at *; grind [upd])


theorem retain_room {s : St} {i f : Nat} {c : Cache} (h : Safe s)
    (hi : i < s.nSnap) (ho : (s.snap i).st = .opened) (hf : f ∈ (s.ver (s.snap i).ver).nos)
    (hc : getReader s.cref s.disk f = some c) :
    ∃ r, c f = some r ∧ (holdSum s.snap f s.nSnap : Int) + 1 ≤ r := by
  have hact := h.open_active i hi ho
  simp only [getReader] at hc
  cases hcf : s.cref f with
  | some r0 =>
    simp [hcf] at hc; subst hc
    exact ⟨r0 + 1, by simp [upd], by have := h.hold_count f r0 hcf; omega⟩
  | none =>
    simp [hcf] at hc; obtain ⟨_, hc⟩ := hc; subst hc
    refine ⟨1, by simp [upd], ?_⟩
    have : holdSum s.snap f s.nSnap = 0 := by
      apply holdSum_zero
      intro k hk hmem
      by_cases hko : (s.snap k).st = .opened
      · exact h.held_mapped k hk hko f hmem hcf
      · exact (h.held_dead k hk hko f hmem hcf).2.2 _ hact hf
    omega

theorem safe_getReader {s : St} {i f : Nat} (keep : Bool) (h : Safe s)
    (hi : i < s.nSnap) (ho : (s.snap i).st = .opened) (hf : f ∈ (s.ver (s.snap i).ver).nos) :
    Safe (snapGetReader s i f keep) := by
  unfold snapGetReader
  cases hc : getReader s.cref s.disk f with
  | none => exact h
  | some c =>
    have h1 := safe_cacheRetain h hi ho hf hc
    cases keep with
    | false => simpa using h1
    | true =>
      simp only [if_true]
      exact safe_hold (s := { s with cref := c }) h1 hi ho hf (by simpa using retain_room h hi ho hf hc)


theorem jobOk_dec {s : St} {i : Nat} {k : Nat} {b : Job} (h : JobOk s k b)
    (hown : b.kind = .compact → ownRange b.pc = true → b.snap ≠ i) :
    JobOk (snapDec s i) k b := by
  obtain ⟨h0, hn0, hn0b, hn0c, hn1, hn2, h1, h2, h3, h4, h5, h6, h7, h8, h9, h10, hrec, hnf, hrd, h11, h12, h13, h14⟩ := h
  obtain ⟨e1, e2, e3⟩ := pc_facts b
  constructor <;> simp only [snapDec, PastPending, Dead, DeadR] at * <;> grind [upd]

theorem safe_dec {s : St} {i : Nat} (h : Safe s) (hi : i < s.nSnap) (ho : (s.snap i).st = .opened)
    (hown : ∀ k, k < s.nJob → (s.job k).kind = .compact → ownRange (s.job k).pc = true → (s.job k).snap ≠ i) :
    Safe (snapDec s i) := by
  obtain ⟨a1, a2, a3, a4, b1, b2, b3, bj, bd, c1, c2, c3, c4, d1⟩ := h
  constructor
  case jobs => intro k hk; exact jobOk_dec (bj k hk) (hown k hk)
  case ref_count =>
    intro v
    simp only [snapDec]
    have h1 := cntOpen_upd_lt s.snap v i { s.snap i with st := .decd (s.ref (s.snap i).ver - 1 == 0) } s.nSnap hi
    have h2 := a2 v
    simp only [openOn] at h1
    by_cases hv : v = (s.snap i).ver
    · subst hv; simp [upd, ho] at h1 ⊢; omega
    · simp [upd, hv, Ne.symm hv, ho] at h1 ⊢; omega
  case hold_count =>
    intro f r hr
    simp only [snapDec] at *
    have h1 := holdSum_upd_lt s.snap f i { s.snap i with st := .decd (s.ref (s.snap i).ver - 1 == 0) } s.nSnap hi
    have := c3 f r hr
    simp at h1; omega
  all_goals (simp only [snapDec, PastPending, Dead, DeadR] at *; grind [upd])


theorem jobOk_active_sub {s : St} {l : List Nat} {k : Nat} {b : Job} (h : JobOk s k b)
    (hl : ∀ v ∈ l, v ∈ s.active) : JobOk { s with active := l } k b := by
  obtain ⟨h0, hn0, hn0b, hn0c, hn1, hn2, h1, h2, h3, h4, h5, h6, h7, h8, h9, h10, hrec, hnf, hrd, h11, h12, h13, h14⟩ := h
  constructor <;> simp only [PastPending, Dead, DeadR] at * <;> grind

theorem safe_removeVersion {cfg : Cfg} {s : St} (hr : cfg.recheck = true) (v : Nat) (h : Safe s) :
    Safe (removeVersion cfg s v) := by
  unfold removeVersion
  split
  next hc =>
    obtain ⟨hne, hz⟩ := hc
    have hz := hz hr
    obtain ⟨a1, a2, a3, a4, b1, b2, b3, bj, bd, c1, c2, c3, c4, d1⟩ := h
    have hno : ∀ i, i < s.nSnap → (s.snap i).st = .opened → (s.snap i).ver ≠ v := by
      intro i hi ho hv
      have := cntOpen_pos s.snap v i s.nSnap hi ho hv
      have := a2 v
      omega
    constructor
    case jobs => intro k hk; exact jobOk_active_sub (bj k hk) (by intro w hw; exact (List.mem_filter.mp hw).1)
    case open_active =>
      intro i hi ho
      simp only
      exact List.mem_filter.mpr ⟨a3 i hi ho, by simpa using hno i hi ho⟩
    case cur_active => simp only; exact List.mem_filter.mpr ⟨a1, by simpa using Ne.symm hne⟩
    all_goals (simp only [PastPending, Dead, DeadR] at *; grind)
  next => exact h


theorem jobOk_snapSt {s : St} {i : Nat} {x : Snap} {k : Nat} {b : Job} (h : JobOk s k b)
    (hx : x.ver = (s.snap i).ver ∧ x.owner = (s.snap i).owner)
    (hown : b.kind = .compact → ownRange b.pc = true → b.snap ≠ i) :
    JobOk (s.setSnap i x) k b := by
  obtain ⟨h0, hn0, hn0b, hn0c, hn1, hn2, h1, h2, h3, h4, h5, h6, h7, h8, h9, h10, hrec, hnf, hrd, h11, h12, h13, h14⟩ := h
  obtain ⟨e1, e2, e3⟩ := pc_facts b
  constructor <;> simp only [St.setSnap, PastPending, Dead, DeadR] at * <;> grind [upd]

/-- a snapshot that is not open changes its close-state (decd → removed) -/
theorem safe_snapSt {s : St} {i : Nat} (st' : SnapSt) (h : Safe s) (hi : i < s.nSnap)
    (ho : (s.snap i).st ≠ .opened) (ho' : st' ≠ .opened) :
    Safe (s.setSnap i { s.snap i with st := st' }) := by
  obtain ⟨a1, a2, a3, a4, b1, b2, b3, bj, bd, c1, c2, c3, c4, d1⟩ := h
  constructor
  case jobs =>
    intro k hk
    refine jobOk_snapSt (bj k hk) ⟨rfl, rfl⟩ ?_
    intro hc hr heq
    have := ((bj k hk).own hc hr).2.1
    have heq' : (s.job k).snap = i := heq
    rw [heq'] at this; exact ho this
  case ref_count =>
    intro v
    simp only [St.setSnap]
    have h1 := cntOpen_upd_lt s.snap v i { s.snap i with st := st' } s.nSnap hi
    have h2 := a2 v
    simp [openOn, ho, ho'] at h1; omega
  case hold_count =>
    intro f r hr
    simp only [St.setSnap] at *
    have h1 := holdSum_upd_lt s.snap f i { s.snap i with st := st' } s.nSnap hi
    have := c3 f r hr
    simp at h1; omega
  all_goals (simp only [St.setSnap, PastPending, Dead, DeadR] at *; grind [upd])

theorem removeVersion_snap (cfg : Cfg) (s : St) (v : Nat) :
    (removeVersion cfg s v).snap = s.snap ∧ (removeVersion cfg s v).nSnap = s.nSnap ∧
    (removeVersion cfg s v).job = s.job ∧ (removeVersion cfg s v).nJob = s.nJob := by
  unfold removeVersion; split <;> simp

theorem safe_snapRemove {cfg : Cfg} {s : St} {i : Nat} (hr : cfg.recheck = true) (z : Bool) (h : Safe s)
    (hi : i < s.nSnap) (ho : (s.snap i).st ≠ .opened) : Safe (snapRemove cfg s i z) := by
  unfold snapRemove
  cases z with
  | false => simpa using safe_snapSt .removed h hi ho (by simp)
  | true =>
    simp only [if_true]
    have h1 := safe_removeVersion hr (s.snap i).ver h
    obtain ⟨e1, e2, _, _⟩ := removeVersion_snap cfg s (s.snap i).ver
    have := safe_snapSt (s := removeVersion cfg s (s.snap i).ver) (i := i) .removed h1 (by omega) (by rw [e1]; exact ho) (by simp)
    rw [e1] at this
    exact this

theorem jobOk_rel {s : St} {i : Nat} {k : Nat} {b : Job} (h : JobOk s k b)
    (hown : b.kind = .compact → ownRange b.pc = true → b.snap ≠ i) :
    JobOk (snapRel s i) k b := by
  obtain ⟨h0, hn0, hn0b, hn0c, hn1, hn2, h1, h2, h3, h4, h5, h6, h7, h8, h9, h10, hrec, hnf, hrd, h11, h12, h13, h14⟩ := h
  obtain ⟨e1, e2, e3⟩ := pc_facts b
  constructor <;> simp only [snapRel, PastPending, Dead, DeadR] at * <;> grind [upd]

theorem safe_rel {s : St} {i : Nat} (h : Safe s) (hi : i < s.nSnap) (ho : (s.snap i).st ≠ .opened) :
    Safe (snapRel s i) := by
  obtain ⟨a1, a2, a3, a4, b1, b2, b3, bj, bd, c1, c2, c3, c4, d1⟩ := h
  constructor
  case jobs =>
    intro k hk
    refine jobOk_rel (bj k hk) ?_
    intro hc hr heq
    have := ((bj k hk).own hc hr).2.1
    have heq' : (s.job k).snap = i := heq
    rw [heq'] at this; exact ho this
  case ref_count =>
    intro v
    simp only [snapRel]
    have h1 := cntOpen_upd_lt s.snap v i { s.snap i with st := .closed, held := [] } s.nSnap hi
    have h2 := a2 v
    simp [openOn, ho] at h1; omega
  case hold_count =>
    intro f r hr
    simp only [snapRel, releaseAll] at *
    have h1 := holdSum_upd_lt s.snap f i { s.snap i with st := .closed, held := [] } s.nSnap hi
    cases hcf : s.cref f with
    | none => simp [hcf] at hr
    | some r0 =>
      simp [hcf] at hr
      have := c3 f r0 hcf
      simp at h1; omega
  case held_mapped =>
    intro k hk hko f hf
    simp only [snapRel, releaseAll] at *
    by_cases hki : k = i
    · subst hki; simp [upd] at hko
    · simp [upd, hki] at hko hf
      have := c1 k hk hko f hf
      cases hcf : s.cref f <;> simp_all
  case held_dead =>
    intro k hk hko f hf hn
    simp only [snapRel, releaseAll, Dead] at *
    by_cases hki : k = i
    · subst hki; simp [upd] at hf
    · simp [upd, hki] at hko hf
      have hn' : s.cref f = none := by cases hcf : s.cref f <;> simp_all
      exact c4 k hk hko f hf hn'
  all_goals (simp only [snapRel, PastPending, Dead, DeadR] at *; grind [upd])


theorem jobOk_setJob {s : St} {j : Nat} {x : Job} {k : Nat} {b : Job} :
    JobOk (s.setJob j x) k b ↔ JobOk s k b := by
  constructor <;> intro h <;>
  · obtain ⟨h0, hn0, hn0b, hn0c, hn1, hn2, h1, h2, h3, h4, h5, h6, h7, h8, h9, h10, hrec, hnf, hrd, h11, h12, h13, h14⟩ := h
    constructor <;> simp only [St.setJob, PastPending, Dead, DeadR] at * <;> assumption

/-- a job changes only its own record -/
theorem safe_setJob {s : St} {j : Nat} {x : Job} (h : Safe s) (hx : JobOk s j x)
    (hout : outNo x = outNo (s.job j) ∨ ∀ f ∈ outNo x, ∀ k, k < s.nJob → f ∉ outNo (s.job k)) :
    Safe (s.setJob j x) := by
  obtain ⟨a1, a2, a3, a4, b1, b2, b3, bj, bd, c1, c2, c3, c4, d1⟩ := h
  constructor
  case jobs =>
    intro k hk
    rw [jobOk_setJob]
    by_cases hkj : k = j
    · subst hkj; simpa [St.setJob, upd] using hx
    · simpa [St.setJob, upd, hkj] using bj k hk
  case outs_distinct =>
    intro a b ha hb hab f hf
    simp only [St.setJob, upd] at *
    by_cases haj : a = j <;> by_cases hbj : b = j <;> simp_all <;> grind
  all_goals (simp only [St.setJob, PastPending, Dead, DeadR] at *; assumption)

theorem jobOk_alloc {s : St} {c : Content} {k : Nat} {b : Job} (h : JobOk s k b) (hnl : b.pc ≠ .cLocked) :
    JobOk (allocFile s c) k b := by
  obtain ⟨h0, hn0, hn0b, hn0c, hn1, hn2, h1, h2, h3, h4, h5, h6, h7, h8, h9, h10, hrec, hnf, hrd, h11, h12, h13, h14⟩ := h
  constructor <;> simp only [allocFile, PastPending, Dead, DeadR] at * <;> grind

theorem safe_alloc {s : St} (c : Content) (h : Safe s) (hnl : ∀ k, k < s.nJob → (s.job k).pc ≠ .cLocked) :
    Safe (allocFile s c) := by
  obtain ⟨a1, a2, a3, a4, b1, b2, b3, bj, bd, c1, c2, c3, c4, d1⟩ := h
  constructor
  case jobs => intro k hk; exact jobOk_alloc (bj k hk) (hnl k hk)
  all_goals (simp only [allocFile, PastPending, Dead, DeadR] at *; grind)

theorem jobOk_create {s : St} {fs : List Nat} {k : Nat} {b : Job} (h : JobOk s k b) :
    JobOk (createFiles s fs) k b := by
  obtain ⟨h0, hn0, hn0b, hn0c, hn1, hn2, h1, h2, h3, h4, h5, h6, h7, h8, h9, h10, hrec, hnf, hrd, h11, h12, h13, h14⟩ := h
  constructor <;> simp only [createFiles, PastPending, Dead, DeadR] at * <;> grind

theorem safe_create {s : St} {fs : List Nat} (h : Safe s) (hfs : ∀ f ∈ fs, f < s.nextFile) :
    Safe (createFiles s fs) := by
  obtain ⟨a1, a2, a3, a4, b1, b2, b3, bj, bd, c1, c2, c3, c4, d1⟩ := h
  constructor
  case jobs => intro k hk; exact jobOk_create (bj k hk)
  all_goals (simp only [createFiles, PastPending, Dead, DeadR] at *; grind)

theorem safe_setLock {s : St} {l : Option Nat} (h : Safe s)
    (hl : ∀ k, k < s.nJob → inCommit (s.job k).pc = true → l = some k) : Safe (setLock s l) := by
  obtain ⟨a1, a2, a3, a4, b1, b2, b3, bj, bd, c1, c2, c3, c4, d1⟩ := h
  constructor
  case jobs =>
    intro k hk
    obtain ⟨h0, hn0, hn0b, hn0c, hn1, hn2, h1, h2, h3, h4, h5, h6, h7, h8, h9, h10, hrec, hnf, hrd, h11, h12, h13, h14⟩ := bj k hk
    have := hl k hk
    constructor <;> simp only [setLock, PastPending, Dead, DeadR] at * <;> grind
  all_goals (simp only [setLock, PastPending, Dead, DeadR] at *; assumption)

theorem safe_setCompacting {s : St} (c : Bool) (h : Safe s) : Safe (setCompacting s c) := by
  obtain ⟨a1, a2, a3, a4, b1, b2, b3, bj, bd, c1, c2, c3, c4, d1⟩ := h
  constructor
  case jobs =>
    intro k hk
    obtain ⟨h0, hn0, hn0b, hn0c, hn1, hn2, h1, h2, h3, h4, h5, h6, h7, h8, h9, h10, hrec, hnf, hrd, h11, h12, h13, h14⟩ := bj k hk
    constructor <;> simp only [setCompacting, PastPending, Dead, DeadR] at * <;> assumption
  all_goals (simp only [setCompacting, PastPending, Dead, DeadR] at *; assumption)

theorem safe_noteFlush {s : St} (fs : List Nat) (h : Safe s) : Safe (noteFlush s fs) := by
  obtain ⟨a1, a2, a3, a4, b1, b2, b3, bj, bd, c1, c2, c3, c4, d1⟩ := h
  constructor
  case jobs =>
    intro k hk
    obtain ⟨h0, hn0, hn0b, hn0c, hn1, hn2, h1, h2, h3, h4, h5, h6, h7, h8, h9, h10, hrec, hnf, hrd, h11, h12, h13, h14⟩ := bj k hk
    constructor <;> simp only [noteFlush, PastPending, Dead, DeadR] at * <;> assumption
  all_goals (simp only [noteFlush, PastPending, Dead, DeadR] at *; assumption)

theorem safe_spawn {s : St} (k : JKind) (p : Content) (h : Safe s) : Safe (spawnJob s k p) := by
  obtain ⟨a1, a2, a3, a4, b1, b2, b3, bj, bd, c1, c2, c3, c4, d1⟩ := h
  constructor
  case jobs =>
    intro j hj
    simp only [spawnJob] at hj ⊢
    by_cases hjn : j = s.nJob
    · subst hjn
      simp only [upd_same]
      constructor <;> simp [compactOnly, outPending, outOnDisk, outNo, inCommit, ownRange, csnapRange, editRange, delRange, postSwap, preAlloc]
    · obtain ⟨h0, hn0, hn0b, hn0c, hn1, hn2, h1, h2, h3, h4, h5, h6, h7, h8, h9, h10, hrec, hnf, hrd, h11, h12, h13, h14⟩ := bj j (by omega)
      rw [upd_other _ _ _ _ hjn]
      constructor <;> simp only [PastPending, Dead, DeadR] at * <;> assumption
  case outs_distinct =>
    intro a b ha hb hab f hf
    simp only [spawnJob, upd] at *
    by_cases haj : a = s.nJob <;> by_cases hbj : b = s.nJob <;> simp_all [outNo]
    exact bd a b (by omega) (by omega) hab f hf
  all_goals (simp only [spawnJob, PastPending, Dead, DeadR] at *; assumption)


theorem mem_nos_applyEdit {v : VData} {e : Edit} {f : Nat} (h : f ∈ (applyEdit v e).nos) :
    f ∈ v.nos ∨ ∃ m ∈ e.adds, m.no = f := by
  simp only [applyEdit, VData.nos, List.map_append, List.mem_append, List.mem_map, List.mem_filter] at h ⊢
  grind

theorem mem_rollup_applyEdit {v : VData} {e : Edit} {f : Nat} (h : f ∈ (applyEdit v e).rollupFiles) :
    f ∈ v.rollupFiles ∨ f ∈ e.rollAdd.map (·.1) := by
  simp only [applyEdit, VData.rollupFiles, List.map_append, List.mem_append, List.mem_map, List.mem_filter] at h ⊢
  grind

theorem jobOk_build {s : St} {e : Edit} {k : Nat} {b : Job} (h : JobOk s k b)
    (hcur : s.cur < s.nextVer) (hact : ∀ v ∈ s.active, v < s.nextVer)
    (hsn : ∀ i, i < s.nSnap → (s.snap i).ver < s.nextVer) (hnl : b.pc ≠ .cLocked) :
    JobOk (buildVersion s e) k b := by
  obtain ⟨h0, hn0, hn0b, hn0c, hn1, hn2, h1, h2, h3, h4, h5, h6, h7, h8, h9, h10, hrec, hnf, hrd, h11, h12, h13, h14⟩ := h
  obtain ⟨e1, e2, e3⟩ := pc_facts b
  have hne : ∀ v, v < s.nextVer → upd s.ver s.nextVer (applyEdit (s.ver s.cur) e) v = s.ver v := by
    intro v hv; exact upd_other _ _ _ _ (by omega)
  have hsn' : b.kind = .compact → ownRange b.pc = true → (s.snap b.snap).ver < s.nextVer :=
    fun hc hr => hsn _ (h5 hc hr).1
  constructor <;> simp only [buildVersion, PastPending, Dead, DeadR] at *
  case built =>
    intro hp
    obtain ⟨hlt, heq⟩ := h8 hp
    refine ⟨by omega, ?_⟩
    rw [hne _ hlt, hne _ hcur]; exact heq
  case edit =>
    intro hp
    obtain ⟨ha, hb⟩ := h7 hp
    refine ⟨?_, hb⟩
    intro m hm
    rcases ha m hm with h' | ⟨hc, h'⟩
    · exact Or.inl h'
    · right; refine ⟨hc, ?_⟩
      rw [hne _ (hsn' hc (e1 hp))]; exact h'
  case reading =>
    intro hp f hf
    have := e2 hp
    rw [hne _ (hsn' (h0 this.1) this.2)]; exact h9 hp f hf
  case inputs =>
    intro hp m hm
    have := e3 hp
    rw [hne _ (hsn' (h0 this.1) this.2)]; exact h10 hp m hm
  case actived =>
    intro hp f hf hl
    obtain ⟨x1, x2, x3⟩ := h13 hp f hf hl
    refine ⟨by omega, x2, ?_⟩
    intro v hv; rw [hne _ (hact v hv)]; exact x3 v hv
  case deleting =>
    intro hp f hf
    obtain ⟨⟨x1, x2, x3⟩, x4⟩ := h14 hp f hf
    refine ⟨⟨by omega, x2, ?_⟩, ?_⟩
    · intro v hv; rw [hne _ (hact v hv)]; exact x3 v hv
    · rw [hne _ hcur]; exact x4
  all_goals grind

theorem safe_build {s : St} {e : Edit} (h : Safe s)
    (hadds : ∀ m ∈ e.adds, m.no < s.nextFile) (hroll : ∀ f ∈ e.rollAdd.map (·.1), f < s.nextFile)
    (hnl : ∀ k, k < s.nJob → (s.job k).pc ≠ .cLocked) :
    Safe (buildVersion s e) := by
  obtain ⟨a1, a2, a3, a4, b1, b2, b3, bj, bd, c1, c2, c3, c4, d1⟩ := h
  obtain ⟨a4a, a4b, a4c⟩ := a4
  have hne : ∀ v, v < s.nextVer → upd s.ver s.nextVer (applyEdit (s.ver s.cur) e) v = s.ver v := by
    intro v hv; exact upd_other _ _ _ _ (by omega)
  constructor
  case jobs => intro k hk; exact jobOk_build (bj k hk) a4a a4b a4c (hnl k hk)
  case file_bound =>
    obtain ⟨f1, f2, f3, f4⟩ := b3
    simp only [buildVersion]
    refine ⟨?_, ?_, fun f hf => by have := f3 f hf; omega, fun f hf => by have := f4 f hf; omega⟩
    · intro v f hf
      by_cases hv : v = s.nextVer
      · subst hv; rw [upd_same] at hf
        rcases mem_nos_applyEdit hf with h' | ⟨m, hm, rfl⟩
        · have := f1 _ _ h'; omega
        · have := hadds m hm; omega
      · rw [upd_other _ _ _ _ hv] at hf; have := f1 _ _ hf; omega
    · intro v f hf
      by_cases hv : v = s.nextVer
      · subst hv; rw [upd_same] at hf
        rcases mem_rollup_applyEdit hf with h' | h'
        · have := f2 _ _ h'; omega
        · have := hroll f h'; omega
      · rw [upd_other _ _ _ _ hv] at hf; have := f2 _ _ hf; omega
  case ver_bound =>
    simp only [buildVersion]
    exact ⟨by omega, fun v hv => by have := a4b v hv; omega, fun i hi => by have := a4c i hi; omega⟩
  case files_on_disk =>
    intro v hv f hf
    simp only [buildVersion] at *
    rw [hne _ (a4b v hv)] at hf; exact b1 v hv f hf
  case rollup_on_disk =>
    intro f hf
    simp only [buildVersion] at *
    rw [hne _ a4a] at hf; exact b2 f hf
  case held_files =>
    intro i hi f hf
    simp only [buildVersion] at *
    rw [hne _ (a4c i hi)]; exact c2 i hi f hf
  case held_dead =>
    intro i hi ho f hf hn
    obtain ⟨x1, x2, x3⟩ := c4 i hi ho f hf hn
    simp only [buildVersion, Dead] at *
    refine ⟨by omega, x2, ?_⟩
    intro v hv; rw [hne _ (a4b v hv)]; exact x3 v hv
  case history =>
    simp only [buildVersion]
    rw [hne _ a4a]; exact d1
  all_goals (simp only [buildVersion] at *; assumption)


/-- a file that is dead stays dead when version `v` (clone of current + edit) is installed -/
theorem dead_swap {s : St} {v : Nat} {e : Edit} {f : Nat} (heq : s.ver v = applyEdit (s.ver s.cur) e)
    (hcur : s.cur ∈ s.active)
    (hadds : ∀ m ∈ e.adds, m.no ∈ s.pending ∨ ∃ w ∈ s.active, m.no ∈ (s.ver w).nos)
    (hd : Dead s f) : Dead (swapVersion s v e) f := by
  obtain ⟨x1, x2, x3⟩ := hd
  refine ⟨x1, x2, ?_⟩
  intro w hw
  simp only [swapVersion, List.mem_cons] at hw ⊢
  rcases hw with rfl | hw
  · intro hf
    rw [heq] at hf
    rcases mem_nos_applyEdit hf with h' | ⟨m, hm, rfl⟩
    · exact x3 _ hcur h'
    · rcases hadds m hm with h' | ⟨w', hw', h'⟩
      · exact x2 h'
      · exact x3 w' hw' h'
  · exact x3 w hw

theorem deadR_swap {s : St} {v : Nat} {e : Edit} {f : Nat} (heq : s.ver v = applyEdit (s.ver s.cur) e)
    (hcur : s.cur ∈ s.active)
    (hadds : ∀ m ∈ e.adds, m.no ∈ s.pending ∨ ∃ w ∈ s.active, m.no ∈ (s.ver w).nos)
    (hroll : ∀ g ∈ e.rollAdd.map (·.1), g ∈ s.pending)
    (hd : DeadR s f) : DeadR (swapVersion s v e) f := by
  refine ⟨dead_swap heq hcur hadds hd.1, ?_⟩
  have : (swapVersion s v e).ver (swapVersion s v e).cur = s.ver v := rfl
  rw [this, heq]
  intro hf
  rcases mem_rollup_applyEdit hf with h' | h'
  · exact hd.2 h'
  · exact hd.1.2.1 (hroll f h')

theorem jobOk_swap {s : St} {v : Nat} {e : Edit} {k : Nat} {b : Job} (h : JobOk s k b)
    (heq : s.ver v = applyEdit (s.ver s.cur) e) (hcur : s.cur ∈ s.active)
    (hadds : ∀ m ∈ e.adds, m.no ∈ s.pending ∨ ∃ w ∈ s.active, m.no ∈ (s.ver w).nos)
    (hroll : ∀ g ∈ e.rollAdd.map (·.1), g ∈ s.pending)
    (hnob : b.pc ≠ .cSnapped) : JobOk (swapVersion s v e) k b := by
  obtain ⟨h0, hn0, hn0b, hn0c, hn1, hn2, h1, h2, h3, h4, h5, h6, h7, h8, h9, h10, hrec, hnf, hrd, h11, h12, h13, h14⟩ := h
  constructor
  case actived => intro hp f hf hl; exact dead_swap heq hcur hadds (h13 hp f hf hl)
  case deleting => intro hp f hf; exact deadR_swap heq hcur hadds hroll (h14 hp f hf)
  case built => intro hp; exact absurd hp hnob
  case recorded => intro hp; exact List.mem_cons_of_mem _ (hrec hp)
  all_goals (simp only [swapVersion, PastPending] at *; assumption)

theorem safe_swap {s : St} {v : Nat} {e : Edit} (h : Safe s) (hv : v < s.nextVer)
    (heq : s.ver v = applyEdit (s.ver s.cur) e)
    (hadds : ∀ m ∈ e.adds, m.no ∈ s.disk ∧ (m.no ∈ s.pending ∨ ∃ w ∈ s.active, m.no ∈ (s.ver w).nos))
    (hroll : ∀ g ∈ e.rollAdd.map (·.1), g ∈ s.pending ∧ g ∈ s.disk)
    (hnob : ∀ k, k < s.nJob → (s.job k).pc ≠ .cSnapped) : Safe (swapVersion s v e) := by
  obtain ⟨a1, a2, a3, a4, b1, b2, b3, bj, bd, c1, c2, c3, c4, d1⟩ := h
  have hadds' : ∀ m ∈ e.adds, m.no ∈ s.pending ∨ ∃ w ∈ s.active, m.no ∈ (s.ver w).nos :=
    fun m hm => (hadds m hm).2
  have hroll' : ∀ g ∈ e.rollAdd.map (·.1), g ∈ s.pending := fun g hg => (hroll g hg).1
  constructor
  case jobs => intro k hk; exact jobOk_swap (bj k hk) heq a1 hadds' hroll' (hnob k hk)
  case held_dead => intro i hi ho f hf hn; exact dead_swap heq a1 hadds' (c4 i hi ho f hf hn)
  case cur_active => simp [swapVersion]
  case open_active => intro i hi ho; simp only [swapVersion, List.mem_cons]; exact Or.inr (a3 i hi ho)
  case ver_bound =>
    simp only [swapVersion, List.mem_cons]
    refine ⟨hv, ?_, a4.2.2⟩
    rintro w (rfl | hw)
    · exact hv
    · exact a4.2.1 w hw
  case files_on_disk =>
    simp only [swapVersion, List.mem_cons]
    rintro w (rfl | hw) f hf
    · rw [heq] at hf
      rcases mem_nos_applyEdit hf with h' | ⟨m, hm, rfl⟩
      · exact b1 _ a1 _ h'
      · exact (hadds m hm).1
    · exact b1 w hw f hf
  case rollup_on_disk =>
    intro f hf
    have : (swapVersion s v e).ver (swapVersion s v e).cur = s.ver v := rfl
    rw [this, heq] at hf
    rcases mem_rollup_applyEdit hf with h' | h'
    · exact b2 f h'
    · exact (hroll f h').2
  case history =>
    have : (swapVersion s v e).ver (swapVersion s v e).cur = s.ver v := rfl
    rw [this, heq, d1]
    simp [swapVersion]
  all_goals (simp only [swapVersion] at *; assumption)


theorem safe_unpend {s : St} {fs : List Nat} (h : Safe s)
    (hfs : ∀ k, k < s.nJob → outPending (s.job k).pc = true → ∀ f ∈ outNo (s.job k), f ∉ fs) :
    Safe (unpend s fs) := by
  obtain ⟨a1, a2, a3, a4, b1, b2, b3, bj, bd, c1, c2, c3, c4, d1⟩ := h
  constructor
  case jobs =>
    intro k hk
    obtain ⟨h0, hn0, hn0b, hn0c, hn1, hn2, h1, h2, h3, h4, h5, h6, h7, h8, h9, h10, hrec, hnf, hrd, h11, h12, h13, h14⟩ := bj k hk
    have := hfs k hk
    constructor <;> simp only [unpend, PastPending, Dead, DeadR] at * <;> grind
  all_goals (simp only [unpend, PastPending, Dead, DeadR] at *; grind)

theorem jobOk_crefOnly {s : St} {c : Cache} {k : Nat} {b : Job} (h : JobOk s k b) :
    JobOk { s with cref := c } k b := jobOk_cref h

/-- `cache.Evict(f)` for a dead table -/
theorem safe_evict {s : St} {f : Nat} (h : Safe s) (hd : Dead s f) : Safe (evictFile s f) := by
  obtain ⟨a1, a2, a3, a4, b1, b2, b3, bj, bd, c1, c2, c3, c4, d1⟩ := h
  constructor
  case jobs => intro k hk; exact jobOk_cref (bj k hk)
  case held_mapped =>
    intro i hi ho g hg
    simp only [evictFile, evict]
    by_cases hgf : g = f
    · subst hgf
      exact absurd (c2 i hi g hg) (hd.2.2 _ (a3 i hi ho))
    · rw [upd_other _ _ _ _ hgf]; exact c1 i hi ho g hg
  case hold_count =>
    intro g r hr
    simp only [evictFile, evict] at *
    by_cases hgf : g = f
    · subst hgf; simp [upd] at hr
    · rw [upd_other _ _ _ _ hgf] at hr; exact c3 g r hr
  case held_dead =>
    intro i hi ho g hg hn
    simp only [evictFile, evict, Dead] at *
    by_cases hgf : g = f
    · subst hgf; exact hd
    · rw [upd_other _ _ _ _ hgf] at hn; exact c4 i hi ho g hg hn
  all_goals (simp only [evictFile, PastPending, Dead, DeadR] at *; assumption)

/-- `deleteSST(f)` for a dead table that no rollup needs -/
theorem safe_removeFile {s : St} {f : Nat} (h : Safe s) (hd : DeadR s f) : Safe (removeFile s f) := by
  obtain ⟨a1, a2, a3, a4, b1, b2, b3, bj, bd, c1, c2, c3, c4, d1⟩ := h
  obtain ⟨⟨d1', d2', d3'⟩, d4'⟩ := hd
  constructor
  case jobs =>
    intro k hk
    obtain ⟨h0, hn0, hn0b, hn0c, hn1, hn2, h1, h2, h3, h4, h5, h6, h7, h8, h9, h10, hrec, hnf, hrd, h11, h12, h13, h14⟩ := bj k hk
    have hp : outOnDisk (s.job k).pc = true → outPending (s.job k).pc = true := by
      cases (s.job k).pc <;> simp [outOnDisk, outPending]
    constructor <;> simp only [removeFile, PastPending, Dead, DeadR] at * <;> grind
  all_goals (simp only [removeFile, PastPending, Dead, DeadR] at *; grind)

/-- closing an entry nobody references (or that is absent) -/
theorem safe_evictIdle {s : St} {f : Nat} (h : Safe s) (hz : s.cref f = some 0 ∨ s.cref f = none) :
    Safe { s with cref := evict s.cref f } := by
  obtain ⟨a1, a2, a3, a4, b1, b2, b3, bj, bd, c1, c2, c3, c4, d1⟩ := h
  have hnone : ∀ i, i < s.nSnap → (s.snap i).st = .opened → f ∉ (s.snap i).held := by
    intro i hi ho hmem
    rcases hz with hz | hz
    · have h1 := holdSum_ge_count s.snap f i s.nSnap hi
      have h2 := c3 f 0 hz
      have h3 : 0 < (s.snap i).held.count f := List.count_pos_iff.mpr hmem
      omega
    · exact c1 i hi ho f hmem hz
  have hdead : ∀ i, i < s.nSnap → (s.snap i).st ≠ .opened → f ∈ (s.snap i).held → Dead s f := by
    intro i hi ho hmem
    rcases hz with hz | hz
    · have h1 := holdSum_ge_count s.snap f i s.nSnap hi
      have h2 := c3 f 0 hz
      have h3 : 0 < (s.snap i).held.count f := List.count_pos_iff.mpr hmem
      omega
    · exact c4 i hi ho f hmem hz
  constructor
  case jobs => intro k hk; exact jobOk_cref (bj k hk)
  case held_mapped =>
    intro i hi ho g hg
    simp only [evict]
    by_cases hgf : g = f
    · subst hgf; exact absurd hg (hnone i hi ho)
    · rw [upd_other _ _ _ _ hgf]; exact c1 i hi ho g hg
  case hold_count =>
    intro g r hr
    simp only [evict] at *
    by_cases hgf : g = f
    · subst hgf; simp [upd] at hr
    · rw [upd_other _ _ _ _ hgf] at hr; exact c3 g r hr
  case held_dead =>
    intro i hi ho g hg hn
    simp only [evict, Dead] at *
    by_cases hgf : g = f
    · subst hgf; exact hdead i hi ho hg
    · rw [upd_other _ _ _ _ hgf] at hn; exact c4 i hi ho g hg hn
  all_goals (simp only [Dead] at *; assumption)

theorem safe_cleanup_aux {s : St} {fs : List Nat} (h : Safe s)
    (hfs : ∀ f ∈ fs, s.cref f = some 0 ∨ s.cref f = none) :
    Safe { s with cref := fs.foldl evict s.cref } := by
  induction fs generalizing s with
  | nil => simpa using h
  | cons f rest ih =>
    simp only [List.foldl_cons]
    have h1 := safe_evictIdle h (hfs f (by simp))
    have hrest : ∀ g ∈ rest, evict s.cref f g = some 0 ∨ evict s.cref f g = none := by
      intro g hg
      simp only [evict, upd]
      by_cases hgf : g = f
      · simp [hgf]
      · simpa [hgf] using hfs g (by simp [hg])
    exact ih (s := { s with cref := evict s.cref f }) h1 hrest

theorem safe_cleanup {s : St} {fs : List Nat} (h : Safe s) (hfs : fs.all (canClean s.cref) = true) :
    Safe (cleanFiles s fs) := by
  unfold cleanFiles cleanup
  apply safe_cleanup_aux h
  intro f hf
  rw [List.all_eq_true] at hfs
  left; simpa [canClean] using hfs f hf

end LinVerif.Lemmas.C02
