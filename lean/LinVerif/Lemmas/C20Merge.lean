/-
C20 helper lemmas: trie buckets — `TrieBucketBuilder.Write` (sort, cut into blocks, build) and
`TrieBucket.Write` (merge = rebuild from the union of the pending tries).
-/
import LinVerif.Lemmas.C20Get
import LinVerif.Lemmas.C20SeekList
import LinVerif.Model.TrieBucket

set_option linter.unusedSimpArgs false
set_option linter.unusedVariables false

namespace LinVerif.Lemmas.C20
open LinVerif.TrieTree LinVerif.TrieBucket

/-- no key occurs twice -/
def DistinctKeys (l : List KV) : Prop := l.Pairwise (fun a b => a.1 ≠ b.1)

theorem DistinctKeys.perm {l l' : List KV} (h : DistinctKeys l) (hp : l.Perm l') : DistinctKeys l' := by
  unfold DistinctKeys at *
  exact (List.Perm.pairwise_iff (R := fun (a b : KV) => a.1 ≠ b.1) (fun {x y} hxy => Ne.symm hxy) hp).1 h

theorem lookup_eq_some_iff {l : List KV} (hd : DistinctKeys l) (k : Key) (v : Nat) :
    lookup k l = some v ↔ (k, v) ∈ l := by
  induction l with
  | nil => simp [lookup]
  | cons x xs ih =>
    obtain ⟨xk, xv⟩ := x
    have hd' := List.pairwise_cons.1 hd
    by_cases hk : xk = k
    · subst hk
      rw [lookup_cons_eq]
      constructor
      · intro e; cases e; exact List.mem_cons_self ..
      · intro hm
        rcases List.mem_cons.1 hm with e | hm
        · cases e; rfl
        · exact absurd rfl (hd'.1 (xk, v) hm)
    · rw [lookup_cons_ne hk, ih hd'.2]
      constructor
      · intro hm; exact List.mem_cons_of_mem _ hm
      · intro hm
        rcases List.mem_cons.1 hm with e | hm
        · cases e; exact absurd rfl hk
        · exact hm

theorem lookup_perm {l l' : List KV} (hd : DistinctKeys l) (hp : l.Perm l') (k : Key) : lookup k l = lookup k l' := by
  have hd' := hd.perm hp
  cases h : lookup k l with
  | some v =>
    have := (lookup_eq_some_iff hd k v).1 h
    exact ((lookup_eq_some_iff hd' k v).2 (hp.mem_iff.1 this)).symm
  | none =>
    cases h' : lookup k l' with
    | none => rfl
    | some v =>
      have := (lookup_eq_some_iff hd' k v).1 h'
      have := (lookup_eq_some_iff hd k v).2 (hp.mem_iff.2 this)
      rw [h] at this; cases this

theorem Sorted.distinct {l : List KV} (h : Sorted l) : DistinctKeys l :=
  List.Pairwise.imp (fun {a b} hab => keyLt_ne hab) h

/-! ### sorting -/

theorem kvLe_total (a b : KV) : (kvLe a b || kvLe b a) = true := by
  unfold kvLe
  cases h : keyLt b.1 a.1 with
  | false => simp
  | true => simp [keyLt_asymm h]

theorem kvLe_trans (a b c : KV) (h1 : kvLe a b = true) (h2 : kvLe b c = true) : kvLe a c = true := by
  unfold kvLe at *
  simp only [Bool.not_eq_true'] at *
  cases h : keyLt c.1 a.1 with
  | false => rfl
  | true =>
    rcases keyLt_total a.1 b.1 with hab | hab | hab
    · have := keyLt_trans h hab; rw [this] at h2; cases h2
    · rw [hab] at h; rw [h] at h2; cases h2
    · rw [hab] at h1; cases h1

/-- sorting pairs with distinct keys gives strictly increasing keys -/
theorem sortKVs_sorted {l : List KV} (hd : DistinctKeys l) : Sorted (sortKVs l) := by
  have hle := List.pairwise_mergeSort kvLe_trans kvLe_total l
  have hd' : DistinctKeys (sortKVs l) := hd.perm (List.mergeSort_perm l kvLe).symm
  unfold Sorted
  refine List.Pairwise.imp₂ ?_ hle hd'
  intro a b h1 h2
  unfold kvLe at h1
  simp only [Bool.not_eq_true'] at h1
  rcases keyLt_total a.1 b.1 with h | h | h
  · exact h
  · exact absurd h h2
  · rw [h] at h1; cases h1

theorem sortKVs_perm (l : List KV) : (sortKVs l).Perm l := List.mergeSort_perm l kvLe

/-! ### blocks -/

theorem chunks_flatten (bs : Nat) (hbs : 1 ≤ bs) : ∀ (fuel : Nat) (l : List KV), l.length ≤ fuel →
    (chunks bs fuel l).flatten = l
  | 0, l, h => by
    have : l = [] := List.length_eq_zero_iff.1 (by omega)
    subst this; simp [chunks]
  | fuel + 1, [], _ => by simp [chunks]
  | fuel + 1, k :: ks, h => by
    simp only [chunks, List.flatten_cons]
    rw [chunks_flatten bs hbs fuel _ (by simp only [List.length_drop, List.length_cons] at *; omega)]
    exact List.take_append_drop _ _

theorem chunks_mem (bs : Nat) (hbs : 1 ≤ bs) : ∀ (fuel : Nat) (l : List KV), ∀ c ∈ chunks bs fuel l,
    c ≠ [] ∧ c.Sublist l ∧ (c = l.take bs ∨ ∀ y ∈ c, y ∈ l.drop bs)
  | 0, l, c, h => by simp [chunks] at h
  | fuel + 1, [], c, h => by simp [chunks] at h
  | fuel + 1, k :: ks, c, h => by
    simp only [chunks, List.mem_cons] at h
    rcases h with rfl | h
    · refine ⟨?_, List.take_sublist _ _, Or.inl rfl⟩
      obtain ⟨m, rfl⟩ : ∃ m, bs = m + 1 := ⟨bs - 1, by omega⟩
      simp
    · obtain ⟨h1, h2, h3⟩ := chunks_mem bs hbs fuel _ c h
      refine ⟨h1, h2.trans (List.drop_sublist _ _), Or.inr ?_⟩
      intro y hy
      exact h2.subset hy

/-- in a sorted list only the first block can contain the empty key -/
theorem chunk_first_or_nonempty {bs : Nat} (hbs : 1 ≤ bs) {fuel : Nat} {l : List KV} (hs : Sorted l)
    {c : List KV} (hc : c ∈ chunks bs fuel l) : c = l.take bs ∨ ∀ y ∈ c, y.1 ≠ [] := by
  obtain ⟨_, _, h3⟩ := chunks_mem bs hbs fuel l c hc
  rcases h3 with h3 | h3
  · exact Or.inl h3
  · right
    intro y hy e
    have hyd := h3 y hy
    cases l with
    | nil => simp at hyd
    | cons k ks =>
      obtain ⟨m, rfl⟩ : ∃ m, bs = m + 1 := ⟨bs - 1, by omega⟩
      rw [List.drop_succ_cons] at hyd
      have := hs.head_lt y (List.mem_of_mem_drop hyd)
      rw [e, keyLt_nil_right] at this
      cases this

/-! ### building every block -/

theorem buildAll_spec : ∀ (cs : List (List KV)), (∀ c ∈ cs, Buildable c) →
    ∃ r, buildAll cs = some r ∧ r.flatMap iter = cs.flatten ∧
      (∀ t ∈ r, ∃ kvs, Buildable kvs ∧ build kvs = some t)
  | [], _ => ⟨[], rfl, rfl, by simp⟩
  | c :: cs, h => by
    obtain ⟨t, ht, hit, _⟩ := build_spec (h c (List.mem_cons_self ..))
    obtain ⟨r, hr1, hr2, hr3⟩ := buildAll_spec cs (fun x hx => h x (List.mem_cons_of_mem _ hx))
    refine ⟨t :: r, by simp [buildAll, ht, hr1], by simp [hit, hr2], ?_⟩
    intro t' ht'
    rcases List.mem_cons.1 ht' with rfl | ht'
    · exact ⟨c, h c (List.mem_cons_self ..), ht⟩
    · exact hr3 t' ht'

/-- the iteration of a built trie with the empty prefix (what `TrieBucket.Write` reads back) -/
theorem prefixIter_nil_of_built {step : Bool} {t : Node} (h : ∃ kvs, Buildable kvs ∧ build kvs = some t) :
    prefixIter step t [] = iter t := by
  obtain ⟨kvs, hb, ht⟩ := h
  obtain ⟨t', ht', hit, hwf, _⟩ := build_spec hb
  rw [ht] at ht'; cases ht'
  have hs := seekNode_spec t [] [] hwf
  simp only [List.nil_append] at hs
  have hS := seekOK_nil hs
  have hadv : seekLB t [] = advance [] (seekNode [] t []).2 := by
    unfold seekLB seek advance
    cases (seekNode [] t []).2 <;> rfl
  unfold prefixIter seekCur
  simp only [List.isEmpty_nil, if_true]
  cases step with
  | false => simp only [Bool.false_eq_true, if_false, seek]; rw [hS]; rfl
  | true => simp only [if_true]; rw [hadv, advance_nil_probe, hS]; rfl

/-- `TrieBucket.GetValue` over tries each of which answers like its own pair list -/
theorem bucketGet_spec (eon : Bool) : ∀ (r : List Node) (key : Key),
    (∀ t ∈ r, getNode eon t key = lookup key (iter t)) → bucketGet eon r key = lookup key (r.flatMap iter)
  | [], key, _ => by simp [bucketGet, lookup]
  | t :: r, key, h => by
    simp only [bucketGet, List.flatMap_cons, lookup_append]
    rw [h t (List.mem_cons_self ..)]
    cases lookup key (iter t) with
    | some v => rfl
    | none => exact bucketGet_spec eon r key (fun t' ht' => h t' (List.mem_cons_of_mem _ ht'))

/-- a trie that came out of `Build` -/
def Built (t : Node) : Prop := ∃ kvs, Buildable kvs ∧ build kvs = some t

theorem Built.iter_ne_nil {t : Node} (h : Built t) : iter t ≠ [] := by
  obtain ⟨kvs, hb, ht⟩ := h
  obtain ⟨t', ht', hit, _⟩ := build_spec hb
  rw [ht] at ht'; cases ht'
  rw [hit]; exact hb.nonempty

theorem Built.bytesOK {t : Node} (h : Built t) : BytesOK (iter t) := by
  obtain ⟨kvs, hb, ht⟩ := h
  obtain ⟨t', ht', hit, _⟩ := build_spec hb
  rw [ht] at ht'; cases ht'
  rw [hit]; exact (bytesOK_iff kvs).1 hb.bytes

/-- `TrieBucketBuilder.Write`: the tries written hold exactly the sorted pairs -/
theorem builder_write_spec {bs : Nat} (hbs : 1 ≤ bs) {kvs : List KV} (hd : DistinctKeys kvs) (hb : BytesOK kvs)
    (hE : (∀ v, ([], v) ∉ kvs) ∨ (2 ≤ bs ∧ 2 ≤ kvs.length)) :
    ∃ r, buildAll (writeBlocks bs kvs) = some r ∧ (∀ t ∈ r, Built t) ∧ r.flatMap iter = sortKVs kvs := by
  have hS := sortKVs_sorted hd
  have hperm := sortKVs_perm kvs
  have hlen : (sortKVs kvs).length = kvs.length := hperm.length_eq
  have hall : ∀ c ∈ writeBlocks bs kvs, Buildable c := by
    intro c hc
    unfold writeBlocks at hc
    obtain ⟨hne, hsub, _⟩ := chunks_mem bs hbs _ _ c hc
    have hsorted : Sorted c := List.Pairwise.sublist hsub hS
    refine ⟨(sortedKeys_iff c).2 hsorted, (bytesOK_iff c).2 ?_, hne, ?_⟩
    · intro kv hkv
      exact hb kv (hperm.mem_iff.1 (hsub.subset hkv))
    · intro v e
      rcases chunk_first_or_nonempty hbs hS hc with h1 | h1
      · rcases hE with hE | ⟨hE1, hE2⟩
        · exact hE v (hperm.mem_iff.1 (hsub.subset (by rw [e]; exact List.mem_cons_self ..)))
        · have := congrArg List.length h1
          rw [e, List.length_take, hlen] at this
          simp at this
          omega
      · exact h1 ([], v) (by rw [e]; exact List.mem_cons_self ..) rfl
  obtain ⟨r, hr1, hr2, hr3⟩ := buildAll_spec _ hall
  refine ⟨r, hr1, hr3, ?_⟩
  rw [hr2]
  unfold writeBlocks
  exact chunks_flatten bs hbs _ _ (by rw [hlen]; exact Nat.le_refl _)

theorem flatMap_congr_mem {α β} {l : List α} {f g : α → List β} (h : ∀ x ∈ l, f x = g x) :
    l.flatMap f = l.flatMap g := by
  induction l with
  | nil => rfl
  | cons x xs ih =>
    simp only [List.flatMap_cons]
    rw [h x (List.mem_cons_self ..), ih (fun y hy => h y (List.mem_cons_of_mem _ hy))]

theorem length_flatMap_ge {ts : List Node} (h : ∀ t ∈ ts, iter t ≠ []) : ts.length ≤ (ts.flatMap iter).length := by
  induction ts with
  | nil => simp
  | cons t r ih =>
    have h1 : 1 ≤ (iter t).length := by
      cases hi : iter t with
      | nil => exact absurd hi (h t (List.mem_cons_self ..))
      | cons _ _ => simp
    have := ih (fun x hx => h x (List.mem_cons_of_mem _ hx))
    simp only [List.flatMap_cons, List.length_append, List.length_cons]
    omega

/-- `TrieBucket.Write`: the merged bucket consists of built tries holding exactly the pairs of
the input tries -/
theorem merge_spec {step : Bool} {bs : Nat} (hbs : 1 ≤ bs) {ts : List Node} (hts : ∀ t ∈ ts, Built t)
    (hd : DistinctKeys (ts.flatMap iter)) (hE : (∀ v, ([], v) ∉ ts.flatMap iter) ∨ 2 ≤ bs) :
    ∃ r, mergeTries step bs ts = some r ∧ (∀ t ∈ r, Built t) ∧ (r.flatMap iter).Perm (ts.flatMap iter) := by
  unfold mergeTries
  simp only []
  have hsplit := List.filter_append_perm (fun t => decide (trieSize t ≥ bs)) ts
  generalize hbig : ts.filter (fun t => decide (trieSize t ≥ bs)) = big at *
  generalize hpend : ts.filter (fun t => !decide (trieSize t ≥ bs)) = pending at *
  have hbig_mem : ∀ t ∈ big, t ∈ ts := by
    intro t ht; rw [← hbig] at ht; exact (List.mem_filter.1 ht).1
  have hpend_mem : ∀ t ∈ pending, t ∈ ts := by
    intro t ht; rw [← hpend] at ht; exact (List.mem_filter.1 ht).1
  have hU : (big.flatMap iter ++ pending.flatMap iter).Perm (ts.flatMap iter) := by
    rw [← List.flatMap_append]
    exact List.Perm.flatMap_right iter hsplit
  match pending, hpend_mem, hU, hsplit with
  | [], _, hU, hsplit =>
    refine ⟨big, rfl, fun t ht => hts t (hbig_mem t ht), ?_⟩
    simpa using hU
  | [p], _, hU, hsplit =>
    refine ⟨big ++ [p], rfl, ?_, ?_⟩
    · intro t ht
      exact hts t (hsplit.mem_iff.1 ht)
    · rw [List.flatMap_append]; exact hU
  | p :: q :: rest, hpm, hU, hsplit =>
    simp only
    have hbuilt : ∀ t ∈ p :: q :: rest, Built t := fun t ht => hts t (hpm t ht)
    have hpi : (p :: q :: rest).flatMap (fun t => prefixIter step t []) = (p :: q :: rest).flatMap iter :=
      flatMap_congr_mem (fun t ht => prefixIter_nil_of_built (hbuilt t ht))
    rw [hpi]
    have hdU : DistinctKeys (big.flatMap iter ++ (p :: q :: rest).flatMap iter) := hd.perm hU.symm
    have hdP : DistinctKeys ((p :: q :: rest).flatMap iter) := (List.pairwise_append.1 hdU).2.1
    have hbP : BytesOK ((p :: q :: rest).flatMap iter) := by
      intro kv hkv
      obtain ⟨t, ht, hkt⟩ := List.mem_flatMap.1 hkv
      exact (hbuilt t ht).bytesOK kv hkt
    have hlenP : 2 ≤ ((p :: q :: rest).flatMap iter).length := by
      have := length_flatMap_ge (ts := p :: q :: rest) (fun t ht => (hbuilt t ht).iter_ne_nil)
      simp only [List.length_cons] at this ⊢
      omega
    have hEP : (∀ v, ([], v) ∉ (p :: q :: rest).flatMap iter) ∨ (2 ≤ bs ∧ 2 ≤ ((p :: q :: rest).flatMap iter).length) := by
      rcases hE with hE | hE
      · left
        intro v hv
        exact hE v (hU.mem_iff.1 (List.mem_append_right _ hv))
      · right; exact ⟨hE, hlenP⟩
    obtain ⟨r, hr1, hr2, hr3⟩ := builder_write_spec hbs hdP hbP hEP
    refine ⟨big ++ r, by rw [hr1]; rfl, ?_, ?_⟩
    · intro t ht
      rcases List.mem_append.1 ht with ht | ht
      · exact hts t (hbig_mem t ht)
      · exact hr2 t ht
    · rw [List.flatMap_append, hr3]
      exact (List.Perm.append (List.Perm.refl _) (sortKVs_perm _)).trans hU

end LinVerif.Lemmas.C20
