/-
C15 — the container-structured `Rank`/`Contains`/`GetCardinality` of the key bitmap meet the flat
contract (`KeySetOps.Lawful.rank_eq`, `contains_iff`, `card_eq`) for EVERY well-formed container
layout: any number of containers, any mix of array / bitmap / run containers, any high keys.
-/
import LinVerif.Model.C15Roaring
import LinVerif.Lemmas.C15Table

namespace LinVerif.C15Roaring

/-! ## single containers -/

theorem countP_range'_le : ∀ (n s x : Nat),
    (List.range' s n).countP (fun m => decide (m ≤ x)) = min n (x + 1 - s) := by
  intro n
  induction n with
  | zero => intro s x; simp
  | succ n ih =>
    intro s x
    rw [List.range'_succ, List.countP_cons, ih (s + 1) x]
    by_cases h : s ≤ x
    · simp [h]; omega
    · simp [h]; omega

theorem arr_spec : ∀ (c : List Nat), c.Pairwise (· < ·) → ∀ x,
    arrRank c x = c.countP (fun m => decide (m ≤ x)) ∧ (arrContains c x = true ↔ x ∈ c) := by
  intro c
  induction c with
  | nil => intro _ x; simp [arrRank, arrContains]
  | cons a t ih =>
    intro hp x
    obtain ⟨h1, h2⟩ := List.pairwise_cons.mp hp
    obtain ⟨ih1, ih2⟩ := ih h2 x
    constructor
    · by_cases h : a ≤ x
      · simp [arrRank, h, ih1]; omega
      · have : t.countP (fun m => decide (m ≤ x)) = 0 := by
          apply List.countP_eq_zero.mpr
          intro m hm; have := h1 m hm; simp; omega
        simp [arrRank, h, this]
    · by_cases h : a < x
      · simp only [arrContains, h, if_true, ih2, List.mem_cons]
        constructor
        · intro hx; exact Or.inr hx
        · intro hx; rcases hx with hx | hx
          · omega
          · exact hx
      · simp only [arrContains, h, if_false, decide_eq_true_eq, List.mem_cons]
        constructor
        · intro hx; exact Or.inl hx.symm
        · intro hx; rcases hx with hx | hx
          · exact hx.symm
          · have := h1 x hx; omega

theorem run_spec : ∀ (iv : List (Nat × Nat)) (lo : Nat), runsOK iv lo →
    (∀ m ∈ runMembers iv, lo ≤ m ∧ m < 65536) ∧ (runMembers iv).Pairwise (· < ·) ∧
    runCard iv = (runMembers iv).length ∧
    ∀ x, runRank iv x = (runMembers iv).countP (fun m => decide (m ≤ x)) ∧
      (runContains iv x = true ↔ x ∈ runMembers iv) := by
  intro iv
  induction iv with
  | nil => intro lo _; simp [runMembers, runCard, runRank, runContains]
  | cons p t ih =>
    intro lo h
    obtain ⟨s, l⟩ := p
    obtain ⟨h1, h2, h3⟩ := h
    obtain ⟨i1, i2, i3, i4⟩ := ih (s + l + 1) h3
    have hr : ∀ m ∈ List.range' s (l + 1), s ≤ m ∧ m ≤ s + l := by
      intro m hm; have := List.mem_range'_1.mp hm; omega
    refine ⟨?_, ?_, ?_, ?_⟩
    · intro m hm
      simp only [runMembers, List.mem_append] at hm
      rcases hm with hm | hm
      · have := hr m hm; omega
      · have := i1 m hm; omega
    · simp only [runMembers]
      rw [List.pairwise_append]
      refine ⟨?_, i2, ?_⟩
      · exact List.pairwise_lt_range'
      · intro a ha b hb; have := hr a ha; have := i1 b hb; omega
    · simp [runMembers, runCard, i3]
    · intro x
      obtain ⟨j1, j2⟩ := i4 x
      constructor
      · simp only [runRank, runMembers, List.countP_append, countP_range'_le]
        by_cases c1 : x < s
        · have : (runMembers t).countP (fun m => decide (m ≤ x)) = 0 := by
            apply List.countP_eq_zero.mpr
            intro m hm; have := i1 m hm; simp; omega
          simp [c1, this]; omega
        · by_cases c2 : x ≤ s + l
          · have : (runMembers t).countP (fun m => decide (m ≤ x)) = 0 := by
              apply List.countP_eq_zero.mpr
              intro m hm; have := i1 m hm; simp; omega
            simp [c1, c2, this]; omega
          · simp [c1, c2, j1]; omega
      · simp only [runContains, runMembers, List.mem_append, List.mem_range'_1]
        by_cases c1 : x < s
        · simp only [c1, if_true]
          constructor
          · intro hx; exact absurd hx (by simp)
          · intro hx; rcases hx with hx | hx
            · omega
            · have := i1 x hx; omega
        · by_cases c2 : x ≤ s + l
          · simp only [c1, c2, if_false, if_true, true_iff]
            left; omega
          · simp only [c1, c2, if_false, j2]
            constructor
            · intro hx; exact Or.inr hx
            · intro hx; rcases hx with hx | hx
              · omega
              · exact hx

/-- every kind of container meets the per-container contract -/
theorem cont_spec (c : Cont) (h : c.WF) :
    (∀ m ∈ c.members, m < 65536) ∧ c.members.Pairwise (· < ·) ∧ c.card = c.members.length ∧
    ∀ x, c.rank x = c.members.countP (fun m => decide (m ≤ x)) ∧ (c.contains x = true ↔ x ∈ c.members) := by
  cases c with
  | array c => exact ⟨h.2, h.1, rfl, fun x => arr_spec c h.1 x⟩
  | bitmap c => exact ⟨h.2, h.1, rfl, fun x => arr_spec c h.1 x⟩
  | run iv =>
    obtain ⟨h1, h2, h3, h4⟩ := run_spec iv 0 h
    exact ⟨fun m hm => (h1 m hm).2, h2, h3, h4⟩

/-! ## the whole bitmap -/

theorem members_cons (key : Nat) (c : Cont) (rest : Layout) :
    members ((key, c) :: rest) = c.members.map (fun low => key * 65536 + low) ++ members rest := by
  simp [members]

theorem wf_tail {p : Nat × Cont} {rest : Layout} (h : WF (p :: rest)) : WF rest :=
  ⟨(List.pairwise_cons.mp h.keysAsc).2, fun q hq => h.conts q (List.mem_cons_of_mem _ hq)⟩

/-- members of a layout whose keys are all ≥ kmin are ≥ kmin·65536 -/
theorem members_ge (L : Layout) (kmin : Nat) (hk : ∀ p ∈ L, kmin ≤ p.1) :
    ∀ m ∈ members L, kmin * 65536 ≤ m := by
  intro m hm
  simp only [members, List.mem_flatMap, List.mem_map] at hm
  obtain ⟨p, hp, low, _, rfl⟩ := hm
  have := hk p hp
  omega

theorem tail_keys_gt {key : Nat} {c : Cont} {rest : Layout} (h : WF ((key, c) :: rest)) :
    ∀ p ∈ rest, key + 1 ≤ p.1 := by
  intro p hp
  have hlt : key < p.1 := (List.pairwise_cons.mp h.keysAsc).1 p.1 (List.mem_map_of_mem hp)
  omega

theorem countP_zero_of_gt (l : List Nat) (x : Nat) (h : ∀ m ∈ l, x < m) :
    l.countP (fun m => decide (m ≤ x)) = 0 := by
  apply List.countP_eq_zero.mpr
  intro m hm; have := h m hm; simp; omega

/-- **the loop of `Bitmap.Rank`** adds to `size` exactly the number of members ≤ x -/
theorem rankLoop_spec : ∀ (L : Layout), WF L → ∀ (x size : Nat),
    rankLoop L x size = size + (members L).countP (fun m => decide (m ≤ x)) := by
  intro L
  induction L with
  | nil => intro _ x size; simp [rankLoop, members]
  | cons p rest ih =>
    intro h x size
    obtain ⟨key, c⟩ := p
    obtain ⟨c1, c2, c3, c4⟩ := cont_spec c (h.conts _ (List.mem_cons_self))
    have hx := Nat.div_add_mod x 65536
    have hxm := Nat.mod_lt x (show 65536 > 0 by decide)
    have hrest := members_ge rest (key + 1) (tail_keys_gt h)
    have hhb : highbits x = x / 65536 := rfl
    have hlb : lowbits x = x % 65536 := rfl
    rw [members_cons, List.countP_append, List.countP_map]
    simp only [rankLoop]
    by_cases g1 : key > highbits x
    · have z1 : c.members.countP ((fun m => decide (m ≤ x)) ∘ fun low => key * 65536 + low) = 0 := by
        apply List.countP_eq_zero.mpr
        intro m _; simp; omega
      have z2 := countP_zero_of_gt (members rest) x (by intro m hm; have := hrest m hm; omega)
      rw [if_pos g1, z1, z2]; omega
    · by_cases g2 : key < highbits x
      · have z1 : c.members.countP ((fun m => decide (m ≤ x)) ∘ fun low => key * 65536 + low) = c.members.length := by
          apply List.countP_eq_length.mpr
          intro m hm; have := c1 m hm; simp; omega
        rw [if_neg g1, if_pos g2, ih (wf_tail h), z1, c3]; omega
      · have hk : key = x / 65536 := by omega
        have z1 : c.members.countP ((fun m => decide (m ≤ x)) ∘ fun low => key * 65536 + low) =
            c.members.countP (fun m => decide (m ≤ x % 65536)) := by
          apply List.countP_congr
          intro m hm; have := c1 m hm; simp; omega
        have z2 := countP_zero_of_gt (members rest) x (by intro m hm; have := hrest m hm; omega)
        rw [if_neg g1, if_neg g2, z1, z2, (c4 (lowbits x)).1, hlb]; omega

theorem rank_spec (L : Layout) (h : WF L) (x : Nat) :
    rank L x = (members L).countP (fun m => decide (m ≤ x)) := by
  unfold rank; rw [rankLoop_spec L h]; omega

/-- `Iterator()` of any well-formed layout is strictly ascending -/
theorem members_asc : ∀ (L : Layout), WF L → (members L).Pairwise (· < ·) := by
  intro L
  induction L with
  | nil => intro _; simp [members]
  | cons p rest ih =>
    intro h
    obtain ⟨key, c⟩ := p
    obtain ⟨c1, c2, _, _⟩ := cont_spec c (h.conts _ (List.mem_cons_self))
    have hrest := members_ge rest (key + 1) (tail_keys_gt h)
    rw [members_cons, List.pairwise_append]
    refine ⟨?_, ih (wf_tail h), ?_⟩
    · rw [List.pairwise_map]
      exact c2.imp (by intro a b hab; omega)
    · intro a ha b hb
      obtain ⟨low, hl, rfl⟩ := List.mem_map.mp ha
      have := c1 low hl; have := hrest b hb; omega

theorem card_spec : ∀ (L : Layout), WF L → card L = (members L).length := by
  intro L
  induction L with
  | nil => intro _; simp [card, members]
  | cons p rest ih =>
    intro h
    obtain ⟨key, c⟩ := p
    obtain ⟨_, _, c3, _⟩ := cont_spec c (h.conts _ (List.mem_cons_self))
    have := ih (wf_tail h)
    rw [members_cons]
    simp only [card, List.map_cons, List.sum_cons, List.length_append, List.length_map] at *
    omega

/-- `Bitmap.Contains` on any well-formed layout = membership -/
theorem contains_spec : ∀ (L : Layout), WF L → ∀ x, contains L x = true ↔ x ∈ members L := by
  intro L
  induction L with
  | nil => intro _ x; simp [contains, getContainer, members]
  | cons p rest ih =>
    intro h x
    obtain ⟨key, c⟩ := p
    obtain ⟨c1, _, _, c4⟩ := cont_spec c (h.conts _ (List.mem_cons_self))
    have hx := Nat.div_add_mod x 65536
    have hxm := Nat.mod_lt x (show 65536 > 0 by decide)
    have hrest := members_ge rest (key + 1) (tail_keys_gt h)
    have ihx := ih (wf_tail h) x
    rw [members_cons, List.mem_append, List.mem_map]
    have hhb : highbits x = x / 65536 := rfl
    have hlb : lowbits x = x % 65536 := rfl
    unfold contains at ihx ⊢
    simp only [getContainer]
    by_cases g1 : key = highbits x
    · rw [if_pos g1]
      simp only [(c4 (lowbits x)).2]
      constructor
      · intro hm; exact Or.inl ⟨x % 65536, hm, by omega⟩
      · intro hm
        rcases hm with ⟨low, hl, he⟩ | hm
        · have := c1 low hl
          have : low = lowbits x := by omega
          rw [← this]; exact hl
        · have := hrest x hm; omega
    · rw [if_neg g1]
      by_cases g2 : key > highbits x
      · rw [if_pos g2]
        constructor
        · intro hm; exact absurd hm (by simp)
        · intro hm
          rcases hm with ⟨low, hl, he⟩ | hm
          · have := c1 low hl; omega
          · have := hrest x hm; omega
      · rw [if_neg g2, ihx]
        constructor
        · intro hm; exact Or.inr hm
        · intro hm
          rcases hm with ⟨low, hl, he⟩ | hm
          · have := c1 low hl; omega
          · exact hm

/-- **Get's offset index.** In any well-formed container layout the i-th key of the iteration has
`Rank` = i + 1, so `getBlock(int(Rank(key)) - 1)` addresses the i-th block. -/
theorem rank_of_ith (L : Layout) (h : WF L) (i k : Nat) (hk : (members L)[i]? = some k) :
    rank L k = i + 1 := by
  rw [rank_spec L h]
  exact LinVerif.Table.countP_le_of_asc _ i k (members_asc L h) hk

/-! ## the cached per-container base -/

theorem indexOfKey_spec : ∀ (L : Layout) (hb i : Nat), indexOfKey L hb = some i →
    ∃ c, L[i]? = some (hb, c) ∧ ∀ p ∈ L.take i, p.1 < hb ∨ p.1 > hb := by
  intro L
  induction L with
  | nil => intro hb i h; simp [indexOfKey] at h
  | cons p rest ih =>
    intro hb i h
    obtain ⟨key, c⟩ := p
    simp only [indexOfKey] at h
    by_cases g1 : key = hb
    · rw [if_pos g1] at h
      have : i = 0 := by simpa using h.symm
      subst this; subst g1
      exact ⟨c, rfl, by simp⟩
    · rw [if_neg g1] at h
      by_cases g2 : key > hb
      · rw [if_pos g2] at h; simp at h
      · rw [if_neg g2] at h
        cases hr : indexOfKey rest hb with
        | none => rw [hr] at h; simp at h
        | some j =>
          rw [hr] at h
          have : i = j + 1 := by simpa using h.symm
          subst this
          obtain ⟨c', h1, h2⟩ := ih hb j hr
          refine ⟨c', by simpa using h1, ?_⟩
          intro q hq
          simp only [List.take_succ_cons, List.mem_cons] at hq
          rcases hq with rfl | hq
          · left; simp only; omega
          · exact h2 q hq

/-- the loop of `Rank`, stopped in front of container i whose key is x's high key, has summed the
cardinalities of containers 0..i-1 -/
theorem rankLoop_at_index : ∀ (L : Layout), WF L → ∀ (x i size : Nat) (c : Cont),
    L[i]? = some (highbits x, c) →
    rankLoop L x size = size + baseAt L i + c.rank (lowbits x) := by
  intro L
  induction L with
  | nil => intro _ x i size c h; simp at h
  | cons p rest ih =>
    intro h x i size c hi
    obtain ⟨key, c0⟩ := p
    cases i with
    | zero =>
      simp only [List.getElem?_cons_zero, Option.some.injEq, Prod.mk.injEq] at hi
      obtain ⟨rfl, rfl⟩ := hi
      simp [rankLoop, baseAt]
    | succ j =>
      simp only [List.getElem?_cons_succ] at hi
      have hmem : (highbits x, c) ∈ rest := List.mem_of_getElem? hi
      have hlt : key + 1 ≤ highbits x := tail_keys_gt h _ hmem
      have g1 : ¬ key > highbits x := by omega
      have g2 : key < highbits x := by omega
      simp only [rankLoop, if_neg g1, if_pos g2]
      rw [ih (wf_tail h) x j (size + c0.card) c hi]
      simp only [baseAt, List.take_succ_cons, List.map_cons, List.sum_cons]
      omega

/-- **cached base = `Rank`.** For a key whose container exists, `base[idx] + container.rank(low)`
with `base[idx]` = the cardinalities of the containers before it is exactly `Bitmap.Rank`. -/
theorem rankCached_spec (L : Layout) (h : WF L) (x r : Nat) (hr : rankCached L x = some r) :
    r = rank L x := by
  unfold rankCached at hr
  cases hi : indexOfKey L (highbits x) with
  | none => rw [hi] at hr; simp at hr
  | some i =>
    rw [hi] at hr
    obtain ⟨c, h1, _⟩ := indexOfKey_spec L (highbits x) i hi
    simp only [h1] at hr
    have := rankLoop_at_index L h x i 0 c h1
    unfold rank
    rw [this]
    simp at hr
    omega

end LinVerif.C15Roaring
