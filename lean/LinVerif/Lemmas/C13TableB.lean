import LinVerif.Lemmas.C13Table
/-! C13 era table, days `[32768, 65536)` of the era. -/
namespace LinVerif.Lemmas.C13
theorem tableB : checkRange okN 15 32768 = true := by decide +kernel
end LinVerif.Lemmas.C13
