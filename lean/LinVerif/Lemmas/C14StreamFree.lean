/-
C14 — `stream.Reader` under FREE-FORM read sequences, error branches included (pkg/stream/reader.go).
Until Round 9 these were correspondence-only. Here: every read, whatever error it hits (EOF, varint overflow,
negative length, a pending error), consumes a PREFIX of the unread bytes — nothing is skipped, read twice or
reordered —, the unread part always is a suffix of the buffer (so `Position()` is inside the buffer and
`original[Position():]` is well-defined), the slice-returning reads return exactly what they consumed, and
`ReadAt` / `Reset` reposition from ANY state.
-/
import LinVerif.Model.StreamExt

namespace LinVerif.Stream
open LinVerif.Varint

/-- one call on a `stream.Reader` -/
inductive RdOp
  | byte | uv64 | uv32 | sv64 | sv32
  | uintN (k : Nat)            -- ReadUint16/32/64 (k = 2, 4, 8), ReadInt16/32/64
  | slice (n : Int) | bytes (n : Int) | until (c : Nat)
  | unread
  | at (p : Int) | reset (data : List Nat)
  deriving Repr

/-- the reads that move forward only (everything but `ReadAt` / `SeekStart` / `Reset`) -/
def RdOp.sequential : RdOp → Bool
  | .at _ | .reset _ => false
  | _ => true

/-- the reads that hand out bytes of the buffer -/
def RdOp.returnsBytes : RdOp → Bool
  | .slice _ | .bytes _ | .until _ => true
  | _ => false

/-- the call: (bytes handed out — `[]` for the numeric reads —, reader afterwards) -/
def Reader.step (r : Reader) : RdOp → List Nat × Reader
  | .byte => ([], r.readByte.2)
  | .uv64 => ([], r.readUvarint64.2)
  | .uv32 => ([], r.readUvarint32.2)
  | .sv64 => ([], r.readVarint64.2)
  | .sv32 => ([], r.readVarint32.2)
  | .uintN k => ([], (r.readUintN k).2)
  | .slice n => r.readSlice n
  | .bytes n => r.readBytes n
  | .until c => r.readUntil c
  | .unread => ([], r)
  | .at p => ([], r.readAt p)
  | .reset d => ([], r.reset d)

/-- a history of calls: the byte strings handed out, in order, and the reader afterwards -/
def Reader.run (r : Reader) : List RdOp → List (List Nat) × Reader
  | [] => ([], r)
  | op :: ops =>
    let (o, r1) := r.step op
    let (os, r2) := Reader.run r1 ops
    (o :: os, r2)

/-- the unread part is a suffix of the buffer -/
def Reader.Wf (r : Reader) : Prop := ∃ pre, pre ++ r.rem = r.orig

theorem readUvarintAux_consumes : ∀ (bs : List Nat) (i s x : Nat),
    ∃ c, c ++ (readUvarintAux bs i s x).2.1 = bs := by
  intro bs
  induction bs with
  | nil => intro i s x; exact ⟨[], by simp [readUvarintAux]⟩
  | cons b rest ih =>
    intro i s x
    unfold readUvarintAux
    by_cases hb : b < 128
    · by_cases ho : i > 9 ∨ (i = 9 ∧ b > 1)
      · exact ⟨[b], by simp [hb, ho]⟩
      · exact ⟨[b], by simp [hb, ho]⟩
    · obtain ⟨c, hc⟩ := ih (i + 1) (s + 7) (x ||| (((b % 128) <<< s) % two64))
      refine ⟨b :: c, ?_⟩
      simp only [hb, if_false]
      simp [hc]

theorem readUvarint_consumes (bs : List Nat) : ∃ c, c ++ (readUvarint bs).2.1 = bs :=
  readUvarintAux_consumes bs 0 0 0

theorem readVarint_consumes (bs : List Nat) : ∃ c, c ++ (readVarint bs).2.1 = bs := by
  obtain ⟨c, hc⟩ := readUvarint_consumes bs
  exact ⟨c, by simpa [readVarint] using hc⟩

/-- `ReadSlice(n)`: what is handed out is exactly what is consumed, in every branch (negative length, pending
error, short read, full read); `orig` is untouched -/
theorem Reader.readSlice_conserves (r : Reader) (n : Int) :
    (r.readSlice n).1 ++ (r.readSlice n).2.rem = r.rem ∧ (r.readSlice n).2.orig = r.orig := by
  unfold Reader.readSlice
  by_cases h1 : n < 0
  · simp [h1]
  · by_cases h2 : r.err ≠ .none
    · simp [h1, h2]
    · by_cases h3 : n.toNat > r.rem.length
      · simp [h1, h2, h3]
      · simp [h1, h2, h3]

theorem Reader.readByte_conserves (r : Reader) :
    (∃ c, c ++ r.readByte.2.rem = r.rem) ∧ r.readByte.2.orig = r.orig := by
  unfold Reader.readByte
  cases h : r.rem with
  | nil => exact ⟨⟨[], by simp⟩, rfl⟩
  | cons b rest => exact ⟨⟨[b], by simp⟩, rfl⟩

/-- the loop of `ReadBytes`: the accumulator grows by exactly the bytes taken from the front -/
theorem Reader.readBytesLoop_conserves : ∀ (k : Nat) (r : Reader) (acc : List Nat),
    ∃ c, (Reader.readBytesLoop k r acc).1 = acc ++ c ∧ c ++ (Reader.readBytesLoop k r acc).2.rem = r.rem ∧
      (Reader.readBytesLoop k r acc).2.orig = r.orig := by
  intro k
  induction k with
  | zero => intro r acc; exact ⟨[], by simp [Reader.readBytesLoop]⟩
  | succ k ih =>
    intro r acc
    unfold Reader.readBytesLoop
    cases h : r.rem with
    | nil => exact ⟨[], by simp [Reader.readByte, h]⟩
    | cons b rest =>
      obtain ⟨c, hc1, hc2, hc3⟩ := ih { r with rem := rest, err := .none } (acc ++ [b])
      refine ⟨b :: c, ?_⟩
      simp only [Reader.readByte, h]
      simp only [ne_eq, not_true_eq_false, if_false]
      refine ⟨by rw [hc1]; simp, ?_, hc3⟩
      simpa using hc2

theorem Reader.readBytes_conserves (r : Reader) (n : Int) :
    (r.readBytes n).1 ++ (r.readBytes n).2.rem = r.rem ∧ (r.readBytes n).2.orig = r.orig := by
  unfold Reader.readBytes
  by_cases h1 : n < 0
  · simp [h1]
  · obtain ⟨c, hc1, hc2, hc3⟩ := Reader.readBytesLoop_conserves n.toNat r []
    simp only [h1, if_false]
    rw [hc1]
    exact ⟨by simpa using hc2, hc3⟩

/-- every forward read consumes a prefix of the unread bytes and leaves the buffer alone; a read that hands out
bytes hands out exactly that prefix -/
theorem Reader.step_conserves (r : Reader) (op : RdOp) (hs : op.sequential = true) :
    (∃ c, c ++ (r.step op).2.rem = r.rem ∧ (op.returnsBytes = true → (r.step op).1 = c)) ∧
    (r.step op).2.orig = r.orig := by
  cases op with
  | byte => obtain ⟨⟨c, hc⟩, ho⟩ := r.readByte_conserves; exact ⟨⟨c, hc, by simp [RdOp.returnsBytes]⟩, ho⟩
  | uv64 =>
    obtain ⟨c, hc⟩ := readUvarint_consumes r.rem
    exact ⟨⟨c, by simpa [Reader.step, Reader.readUvarint64] using hc, by simp [RdOp.returnsBytes]⟩, rfl⟩
  | uv32 =>
    obtain ⟨c, hc⟩ := readUvarint_consumes r.rem
    exact ⟨⟨c, by simpa [Reader.step, Reader.readUvarint32, Reader.readUvarint64] using hc, by simp [RdOp.returnsBytes]⟩, rfl⟩
  | sv64 =>
    obtain ⟨c, hc⟩ := readVarint_consumes r.rem
    exact ⟨⟨c, by simpa [Reader.step, Reader.readVarint64] using hc, by simp [RdOp.returnsBytes]⟩, rfl⟩
  | sv32 =>
    obtain ⟨c, hc⟩ := readVarint_consumes r.rem
    exact ⟨⟨c, by simpa [Reader.step, Reader.readVarint32, Reader.readVarint64] using hc, by simp [RdOp.returnsBytes]⟩, rfl⟩
  | uintN k =>
    obtain ⟨h1, h2⟩ := r.readSlice_conserves k
    exact ⟨⟨(r.readSlice k).1, by simpa [Reader.step, Reader.readUintN] using h1, by simp [RdOp.returnsBytes]⟩,
      by simpa [Reader.step, Reader.readUintN] using h2⟩
  | slice n => obtain ⟨h1, h2⟩ := r.readSlice_conserves n; exact ⟨⟨_, h1, fun _ => rfl⟩, h2⟩
  | bytes n => obtain ⟨h1, h2⟩ := r.readBytes_conserves n; exact ⟨⟨_, h1, fun _ => rfl⟩, h2⟩
  | «until» c =>
    unfold Reader.step Reader.readUntil
    obtain ⟨h1, h2⟩ := r.readSlice_conserves ((match r.unreadSlice.findIdx? (· == c) with | some i => (i : Int) | none => -1) + 1)
    exact ⟨⟨_, h1, fun _ => rfl⟩, h2⟩
  | unread => exact ⟨⟨[], by simp [Reader.step], by simp [RdOp.returnsBytes]⟩, rfl⟩
  | «at» p => simp [RdOp.sequential] at hs
  | reset d => simp [RdOp.sequential] at hs

/-- the unread part stays a suffix of the buffer under EVERY call, repositioning included -/
theorem Reader.step_wf (r : Reader) (op : RdOp) (h : r.Wf) : (r.step op).2.Wf := by
  by_cases hs : op.sequential = true
  · obtain ⟨⟨c, hc, _⟩, ho⟩ := r.step_conserves op hs
    obtain ⟨pre, hp⟩ := h
    refine ⟨pre ++ c, ?_⟩
    rw [ho, ← hp, ← hc]; simp
  · cases op with
    | «at» p =>
      unfold Reader.step Reader.readAt
      by_cases h1 : p < 0
      · obtain ⟨pre, hp⟩ := h; exact ⟨pre, by simpa [h1] using hp⟩
      · by_cases h2 : p.toNat > r.orig.length
        · exact ⟨r.orig, by simp [h1, h2]⟩
        · exact ⟨r.orig.take p.toNat, by simp [h1, h2]⟩
    | reset d => exact ⟨[], by simp [Reader.step, Reader.reset]⟩
    | _ => simp [RdOp.sequential] at hs

theorem Reader.run_wf : ∀ (ops : List RdOp) (r : Reader), r.Wf → (r.run ops).2.Wf := by
  intro ops
  induction ops with
  | nil => intro r h; simpa [Reader.run] using h
  | cons op ops ih =>
    intro r h
    simp only [Reader.run]
    exact ih _ (r.step_wf op h)

/-- forward-only histories: the bytes handed out by the slice-returning calls, concatenated with what the numeric
reads consumed in between, are exactly the consumed prefix; in particular when every call is slice-returning the
outputs concatenated ARE the consumed prefix -/
theorem Reader.run_conserves : ∀ (ops : List RdOp) (r : Reader), (∀ op ∈ ops, op.sequential = true) →
    (∃ c, c ++ (r.run ops).2.rem = r.rem) ∧ (r.run ops).2.orig = r.orig ∧
    ((∀ op ∈ ops, op.returnsBytes = true) → (r.run ops).1.flatten ++ (r.run ops).2.rem = r.rem) := by
  intro ops
  induction ops with
  | nil => intro r _; exact ⟨⟨[], by simp [Reader.run]⟩, rfl, fun _ => by simp [Reader.run]⟩
  | cons op ops ih =>
    intro r hs
    have hop := hs op (by simp)
    obtain ⟨⟨c, hc, hout⟩, ho⟩ := r.step_conserves op hop
    obtain ⟨⟨c2, hc2⟩, ho2, hall⟩ := ih (r.step op).2 (fun o ho => hs o (by simp [ho]))
    simp only [Reader.run]
    refine ⟨⟨c ++ c2, ?_⟩, by rw [ho2, ho], ?_⟩
    · rw [← hc, ← hc2]; simp
    · intro hb
      have h1 := hout (hb op (by simp))
      have h2 := hall (fun o ho => hb o (by simp [ho]))
      simp only [List.flatten_cons, List.append_assoc]
      rw [h2, h1, hc]

/-- `ReadAt(p)` with `0 ≤ p ≤ len` from ANY state (pending error, EOF, mid-buffer): error cleared, the unread part is
the buffer from `p` on, `Position() = p` -/
theorem Reader.readAt_repositions (r : Reader) (p : Nat) (hp : p ≤ r.orig.length) :
    r.readAt p = { orig := r.orig, rem := r.orig.drop p, err := .none } ∧
    (r.readAt p).position = p ∧ (r.readAt p).unreadSlice = r.orig.drop p := by
  have h1 : ¬ ((p : Int) < 0) := by omega
  have h2 : ¬ ((p : Int).toNat > r.orig.length) := by simp; omega
  have e : r.readAt p = { orig := r.orig, rem := r.orig.drop p, err := .none } := by
    simp [Reader.readAt, h1, h2, hp]
  rw [e]
  refine ⟨rfl, ?_, by simp [Reader.unreadSlice]⟩
  simp [Reader.position]; omega

end LinVerif.Stream
