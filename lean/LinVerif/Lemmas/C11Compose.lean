/-
C11 helper lemmas, part 5: composition — the leaf answer of a group over several series,
families and sources equals the bucket-wise fold of the shard's abstraction `storeView`
(commutative aggregate), hence the naive reference.
-/
import LinVerif.Lemmas.C11Refine
import LinVerif.Lemmas.C11Query

namespace LinVerif.Lemmas.C11
open LinVerif LinVerif.NaiveQuery LinVerif.MemDB

/-! ### more `fsum` -/

theorem fsum_nil {ι : Type} (A : AggType) (f : ι → Option Int) : fsum A [] f = none := rfl

theorem fsum_append {ι : Type} (A : AggType) (l1 l2 : List ι) (f : ι → Option Int) :
    fsum A (l1 ++ l2) f = ocomb A (fsum A l1 f) (fsum A l2 f) := by
  induction l1 with
  | nil => simp [fsum_nil]
  | cons x rest ih => simp only [List.cons_append, fsum_cons, ih, ocomb_assoc]

theorem fsum_flatMap {ι κ : Type} (A : AggType) (l : List ι) (g : ι → List κ) (f : κ → Option Int) :
    fsum A (l.flatMap g) f = fsum A l (fun i => fsum A (g i) f) := by
  induction l with
  | nil => rfl
  | cons x rest ih => simp only [List.flatMap_cons, fsum_append, fsum_cons, ih]

theorem fsum_const_none {ι : Type} (A : AggType) (l : List ι) : fsum A l (fun _ => (none : Option Int)) = none :=
  fsum_all_none A l _ (fun _ _ => rfl)

theorem fsum_swap {ι κ : Type} {A : AggType} (hc : AggComm A) (l1 : List ι) (l2 : List κ) (f : ι → κ → Option Int) :
    fsum A l1 (fun i => fsum A l2 (fun j => f i j)) = fsum A l2 (fun j => fsum A l1 (fun i => f i j)) := by
  induction l1 with
  | nil => simp [fsum_nil, fsum_const_none]
  | cons x rest ih =>
    rw [fsum_cons, ih]
    rw [← fsum_add hc]
    apply fsum_congr
    intro j _
    rw [fsum_cons]

theorem fsum_filter {ι : Type} (A : AggType) (l : List ι) (p : ι → Bool) (f : ι → Option Int)
    (h : ∀ i ∈ l, p i = false → f i = none) : fsum A (l.filter p) f = fsum A l f := by
  induction l with
  | nil => rfl
  | cons x rest ih =>
    have ih' := ih (fun i hi => h i (by simp [hi]))
    cases hp : p x with
    | true =>
      rw [List.filter_cons_of_pos (by simpa using hp), fsum_cons, fsum_cons, ih']
    | false =>
      rw [List.filter_cons_of_neg (by simp [hp]), fsum_cons, ih', h x (by simp) hp]
      simp

theorem range'_split (a k1 k2 : Nat) :
    List.range' a (k1 + k2) = List.range' a k1 ++ List.range' (a + k1) k2 :=
  (List.range'_append_1 (s := a) (m := k1) (n := k2)).symm

theorem range'_three (lo k1 k2 : Nat) :
    List.range' 0 (lo + (k1 + k2)) = List.range' 0 lo ++ (List.range' lo k1 ++ List.range' (lo + k1) k2) := by
  rw [range'_split, range'_split]; simp

/-- slots of a source range vs. slots of the family: a function that vanishes outside
`[lo, hi] ∩ [0, n)` has the same fold over both. -/
theorem fsum_slots_eq_range (A : AggType) (lo hi n : Nat) (h : Nat → Option Int)
    (hv : ∀ s, h s ≠ none → lo ≤ s ∧ s ≤ hi ∧ s < n) :
    fsum A (slotsOf lo hi) h = fsum A (List.range n) h := by
  have hnone : ∀ s, ¬(lo ≤ s ∧ s ≤ hi ∧ s < n) → h s = none := by
    intro s hs
    cases hh : h s with
    | none => rfl
    | some x => exact absurd (hv s (by simp [hh])) hs
  have hslots : slotsOf lo hi = List.range' lo (hi + 1 - lo) := by
    unfold slotsOf
    rw [List.range_eq_range', List.map_add_range']
    simp
  rw [hslots, List.range_eq_range']
  by_cases hlh : lo ≤ hi
  · -- both equal the fold over range' 0 M for an M beyond both
    obtain ⟨M, hM1, hM2⟩ : ∃ M, hi + 1 ≤ M ∧ n ≤ M := ⟨hi + 1 + n, by omega, by omega⟩
    have e1 : List.range' 0 M = List.range' 0 lo ++ (List.range' lo (hi + 1 - lo) ++ List.range' (hi + 1) (M - (hi + 1))) := by
      have h3 := range'_three lo (hi + 1 - lo) (M - (hi + 1))
      have hM : lo + (hi + 1 - lo + (M - (hi + 1))) = M := by omega
      have h2 : lo + (hi + 1 - lo) = hi + 1 := by omega
      rw [hM, h2] at h3
      exact h3
    have e2 : List.range' 0 M = List.range' 0 n ++ List.range' n (M - n) := by
      have h3 := range'_split 0 n (M - n)
      have hM : n + (M - n) = M := by omega
      rw [hM] at h3
      simpa using h3
    have a1 : fsum A (List.range' 0 M) h = fsum A (List.range' lo (hi + 1 - lo)) h := by
      rw [e1, fsum_append, fsum_append]
      rw [fsum_all_none A (List.range' 0 lo) h (by
        intro s hs; apply hnone; rw [List.mem_range'_1] at hs; omega)]
      rw [fsum_all_none A (List.range' (hi + 1) (M - (hi + 1))) h (by
        intro s hs; apply hnone; rw [List.mem_range'_1] at hs; omega)]
      simp
    have a2 : fsum A (List.range' 0 M) h = fsum A (List.range' 0 n) h := by
      rw [e2, fsum_append]
      rw [fsum_all_none A (List.range' n (M - n)) h (by
        intro s hs; apply hnone; rw [List.mem_range'_1] at hs; omega)]
      simp
    rw [← a1, a2]
  · -- empty source range: the function vanishes everywhere
    have hz : hi + 1 - lo = 0 := by omega
    rw [hz]
    simp only [List.range'_zero, fsum_nil]
    symm
    apply fsum_all_none
    intro s _
    apply hnone
    omega

/-! ### bucket condition -/

theorem cond_iff_bucketOf (q : Query) (fam tLo tHi s t : Nat) (ht : familyTarget q fam = some (tLo, tHi)) (hs : s < q.spf) :
    (tLo ≤ s ∧ s ≤ tHi ∧ (fam * q.spf + s - q.qs) / q.ratio = t) ↔ bucketOf q fam s = some t := by
  unfold familyTarget at ht
  simp only at ht
  split at ht
  · cases ht
  · rename_i hov
    simp only [Option.some.injEq, Prod.mk.injEq] at ht
    obtain ⟨h1, h2⟩ := ht
    unfold bucketOf
    simp only
    constructor
    · intro ⟨a, b, c⟩
      have hin : q.qs ≤ fam * q.spf + s ∧ fam * q.spf + s ≤ q.qe := by
        constructor
        · rw [← h1] at a; split at a <;> omega
        · rw [← h2] at b; split at b <;> omega
      simp [hin, c]
    · intro hb
      split at hb
      · rename_i hin
        simp only [Option.some.injEq] at hb
        refine ⟨?_, ?_, hb⟩
        · rw [← h1]; split <;> omega
        · rw [← h2]; split <;> omega
      · cases hb

theorem bucketOf_none_of_target_none (q : Query) (fam s : Nat) (ht : familyTarget q fam = none) (hs : s < q.spf) :
    bucketOf q fam s = none := by
  unfold familyTarget at ht
  simp only at ht
  split at ht
  · rename_i hov
    unfold bucketOf
    simp only
    have : ¬(q.qs ≤ fam * q.spf + s ∧ fam * q.spf + s ≤ q.qe) := by omega
    simp [this]
  · cases ht

theorem target_hi_lt (q : Query) (fam tLo tHi : Nat) (ht : familyTarget q fam = some (tLo, tHi)) (hspf : 0 < q.spf) :
    tHi < q.spf := by
  unfold familyTarget at ht
  simp only at ht
  split at ht
  · cases ht
  · simp only [Option.some.injEq, Prod.mk.injEq] at ht
    rw [← ht.2]; split <;> omega

/-- a `cond`-fold over a source range as a `bucketOf`-fold over the family's slots. -/
theorem fsum_cond_eq_bucket (A : AggType) (q : Query) (fam tLo tHi lo hi t : Nat) (V : Nat → Option Int)
    (ht : familyTarget q fam = some (tLo, tHi)) (hspf : 0 < q.spf)
    (hcov : ∀ s, tLo ≤ s → s ≤ tHi → V s ≠ none → lo ≤ s ∧ s ≤ hi) :
    fsum A (slotsOf lo hi)
      (fun s => if tLo ≤ s ∧ s ≤ tHi ∧ (fam * q.spf + s - q.qs) / q.ratio = t then V s else none) =
    fsum A (List.range q.spf) (fun s => if bucketOf q fam s = some t then V s else none) := by
  have hth := target_hi_lt q fam tLo tHi ht hspf
  rw [fsum_slots_eq_range A lo hi q.spf]
  · apply fsum_congr
    intro s hs
    rw [List.mem_range] at hs
    by_cases hc : tLo ≤ s ∧ s ≤ tHi ∧ (fam * q.spf + s - q.qs) / q.ratio = t
    · simp [hc, (cond_iff_bucketOf q fam tLo tHi s t ht hs).mp hc]
    · have : ¬(bucketOf q fam s = some t) := fun hb => hc ((cond_iff_bucketOf q fam tLo tHi s t ht hs).mpr hb)
      simp [hc, this]
  · intro s hne
    by_cases hc : tLo ≤ s ∧ s ≤ tHi ∧ (fam * q.spf + s - q.qs) / q.ratio = t
    · simp only [hc, and_self, if_true] at hne
      have := hcov s hc.1 hc.2.1 hne
      exact ⟨this.1, this.2, by omega⟩
    · simp [hc] at hne

/-! ### well-formedness of all calls -/

theorem memCalls_wf (s : Shard) (q : Query) (A : AggType) (md : MemDB) (fam : Nat) (group : List Nat) :
    ∀ c ∈ memCalls s q [A] md fam group, WF1 A c := by
  intro c hc
  unfold memCalls at hc
  split at hc
  · split at hc
    · rw [List.mem_flatMap] at hc
      obtain ⟨ser, _, hser⟩ := hc
      split at hser
      · simp at hser
      · exact pageCalls_wf A _ _ _ _ _ _ _ _ c hser
    · simp at hc
  · simp at hc

theorem fileCalls_wf (s : Shard) (q : Query) (sc : Scope) (A : AggType) (blk : Block) (fam : Nat) (group : List Nat) :
    ∀ c ∈ fileCalls s q sc [A] blk fam group, WF1 A c := by
  intro c hc
  unfold fileCalls at hc
  split at hc
  · split at hc
    · rw [List.mem_flatMap] at hc
      obtain ⟨ser, _, hser⟩ := hc
      split at hser
      · simp at hser
      · simp at hser; subst hser; exact dsCall_wf A _ _ _ _ _ _ _ _
    · simp at hc
  · simp at hc

theorem familyCalls_wf (s : Shard) (q : Query) (sc : Scope) (A : AggType) (fam : Nat) (group : List Nat) :
    ∀ c ∈ familyCalls s q sc [A] fam group, WF1 A c := by
  intro c hc
  unfold familyCalls at hc
  cases hmr : memResult s q sc [A] fam group with
  | none => simp [hmr] at hc
  | some mem =>
    rw [hmr] at hc
    simp only at hc
    have hm : ∀ c ∈ mem, WF1 A c := by
      intro c' hc'
      unfold memResult at hmr
      cases hmu : (s.family fam).mutable_ with
      | none => rw [hmu] at hmr; simp at hmr; subst hmr; simp at hc'
      | some md =>
        rw [hmu] at hmr
        simp only at hmr
        cases hf : memFilter s q sc md fam with
        | none => rw [hf] at hmr; simp at hmr
        | some bb =>
          rw [hf] at hmr
          cases bb with
          | true => simp at hmr; subst hmr; exact memCalls_wf s q A md fam group c' hc'
          | false => simp at hmr; subst hmr; simp at hc'
    unfold combineCalls at hc
    split at hc
    · exact hm c hc
    · split at hc
      · simp at hc
      · rw [List.mem_append] at hc
        rcases hc with h | h
        · exact hm c h
        · rw [List.mem_flatMap] at h
          obtain ⟨blk, _, hb⟩ := h
          exact fileCalls_wf s q sc A blk fam group c hb

/-! ### the calls of one source as a bucket fold -/

theorem overlap_of_common (a b c d s : Nat) (h1 : a ≤ s) (h2 : s ≤ b) (h3 : c ≤ s) (h4 : s ≤ d) :
    overlap a b c d = true := by
  unfold overlap
  by_cases h : c ≥ a
  · simp [h]; omega
  · simp; right; omega

theorem pageCalls_fsum {w : Nat} {A : AggType} (hc : AggComm A) (b : Buf) (hi' : BufInv w b)
    (lo hi tLo tHi g0 qs ratio t : Nat) :
    fsum A (pageCalls [A] b lo hi tLo tHi g0 qs ratio) (fun c => arrGet c A t) =
      fsum A (slotsOf lo hi)
        (fun s => if tLo ≤ s ∧ s ≤ tHi ∧ (g0 + s - qs) / ratio = t then memView A b s else none) := by
  rw [← reduce_spec A _ (pageCalls_wf A b lo hi tLo tHi g0 qs ratio) t]
  exact pageCalls_spec hc b hi' lo hi tLo tHi g0 qs ratio t

/-- the bucket fold of a family-local view over a group. -/
def famBucket (A : AggType) (q : Query) (fam t : Nat) (group : List Nat) (V : Nat → Nat → Option Int) : Option Int :=
  fsum A group (fun ser => fsum A (List.range q.spf) (fun slot => if bucketOf q fam slot = some t then V ser slot else none))

theorem famBucket_none (A : AggType) (q : Query) (fam t : Nat) (group : List Nat) (V : Nat → Nat → Option Int)
    (h : ∀ ser slot, slot < q.spf → bucketOf q fam slot = some t → V ser slot = none) :
    famBucket A q fam t group V = none := by
  unfold famBucket
  apply fsum_all_none
  intro ser _
  apply fsum_all_none
  intro slot hs
  rw [List.mem_range] at hs
  by_cases hb : bucketOf q fam slot = some t
  · simp [hb, h ser slot hs hb]
  · simp [hb]

/-- the memory database's calls = bucket fold of `pageView`. -/
theorem memCalls_fsum (s : Shard) (pts : List Point) (hinv : Inv s pts) (q : Query) (hspf : 0 < q.spf)
    (hc : AggComm (s.fieldAgg q.field)) (fam : Nat) (md : MemDB) (hm : (s.family fam).mutable_ = some md)
    (group : List Nat) (t : Nat) :
    fsum (s.fieldAgg q.field) (memCalls s q [s.fieldAgg q.field] md fam group) (fun c => arrGet c (s.fieldAgg q.field) t) =
      famBucket (s.fieldAgg q.field) q fam t group (fun ser slot => pageView s fam ser q.field slot) := by
  obtain ⟨lo, hi, hr, hb⟩ := hinv.pages fam md hm
  have hpv : ∀ ser slot, pageView s fam ser q.field slot =
      (match Map.lookup md.pages (ser, q.field) with
        | none => none
        | some b => memView (s.fieldAgg q.field) b slot) := by
    intro ser slot; simp only [pageView, hm]; rfl
  unfold memCalls
  rw [hr]
  cases ht : familyTarget q fam with
  | none =>
    simp only [fsum_nil]
    symm
    apply famBucket_none
    intro ser slot hs hbk
    rw [bucketOf_none_of_target_none q fam slot ht hs] at hbk
    cases hbk
  | some tr =>
    obtain ⟨tLo, tHi⟩ := tr
    simp only
    by_cases hov : overlap lo hi tLo tHi = true
    · simp only [hov, if_true]
      rw [fsum_flatMap]
      unfold famBucket
      apply fsum_congr
      intro ser _
      cases hp : Map.lookup md.pages (ser, q.field) with
      | none =>
        simp only [fsum_nil]
        symm
        apply fsum_all_none
        intro slot _
        rw [hpv, hp]; simp
      | some b =>
        simp only
        obtain ⟨hbi, hbc⟩ := hb (ser, q.field) b hp
        rw [pageCalls_fsum hc b hbi]
        rw [fsum_cond_eq_bucket _ q fam tLo tHi lo hi t (memView (s.fieldAgg q.field) b) ht hspf
          (fun s' _ _ hne => hbc s' hne)]
        apply fsum_congr
        intro slot _
        rw [hpv, hp]
    · simp only [hov, Bool.false_eq_true, if_false, fsum_nil]
      symm
      apply famBucket_none
      intro ser slot hs hbk
      rw [hpv]
      cases hp : Map.lookup md.pages (ser, q.field) with
      | none => rfl
      | some b =>
        simp only
        cases hv : memView (s.fieldAgg q.field) b slot with
        | none => rfl
        | some x =>
          exfalso
          obtain ⟨h1, h2⟩ := (hb (ser, q.field) b hp).2 slot (by simp [hv])
          have := (cond_iff_bucketOf q fam tLo tHi slot t ht hs).mpr hbk
          exact hov (overlap_of_common lo hi tLo tHi slot h1 h2 this.1 this.2.1)

theorem cell_range (blk : Block) (k : PageKey) (slot : Nat) (h : blk.cell k slot ≠ none) :
    blk.lo ≤ slot ∧ slot ≤ blk.hi := by
  by_cases hr : slot < blk.lo ∨ slot > blk.hi
  · exact absurd (cell_none_of_out blk k slot hr) h
  · omega

/-- a block that does not overlap the family's query range contributes nothing. -/
theorem block_nonoverlap_none (A : AggType) (q : Query) (fam tLo tHi t : Nat) (blk : Block) (group : List Nat) (fld : Nat)
    (ht : familyTarget q fam = some (tLo, tHi)) (hov : overlap blk.lo blk.hi tLo tHi = false) :
    famBucket A q fam t group (fun ser slot => blk.cell (ser, fld) slot) = none := by
  apply famBucket_none
  intro ser slot hs hbk
  cases hv : blk.cell (ser, fld) slot with
  | none => rfl
  | some x =>
    exfalso
    obtain ⟨h1, h2⟩ := cell_range blk (ser, fld) slot (by simp [hv])
    have := (cond_iff_bucketOf q fam tLo tHi slot t ht hs).mpr hbk
    rw [overlap_of_common blk.lo blk.hi tLo tHi slot h1 h2 this.1 this.2.1] at hov
    cases hov

/-- a file's calls = bucket fold of its cells (when the block feeds the queried field). -/
theorem fileCalls_fsum (s : Shard) (q : Query) (sc : Scope) (A : AggType) (hspf : 0 < q.spf) (blk : Block) (fam : Nat)
    (hsrc : blockSourceField s q sc blk = some q.field) (group : List Nat) (t : Nat) :
    fsum A (fileCalls s q sc [A] blk fam group) (fun c => arrGet c A t) =
      famBucket A q fam t group (fun ser slot => blk.cell (ser, q.field) slot) := by
  unfold fileCalls
  rw [hsrc]
  cases ht : familyTarget q fam with
  | none =>
    simp only [fsum_nil]
    symm
    apply famBucket_none
    intro ser slot hs hbk
    rw [bucketOf_none_of_target_none q fam slot ht hs] at hbk
    cases hbk
  | some tr =>
    obtain ⟨tLo, tHi⟩ := tr
    simp only
    by_cases hov : overlap blk.lo blk.hi tLo tHi = true
    · simp only [hov, if_true]
      rw [fsum_flatMap]
      unfold famBucket
      apply fsum_congr
      intro ser _
      cases hp : Map.lookup blk.pages (ser, q.field) with
      | none =>
        simp only [fsum_nil]
        symm
        apply fsum_all_none
        intro slot _
        simp [Block.cell, hp]
      | some cells =>
        simp only
        rw [fsum_cons, fsum_nil, ocomb_none_right, dsCall_spec]
        have hcell : ∀ slot, blk.cell (ser, q.field) slot =
            (if slot < blk.lo ∨ slot > blk.hi then none else cellAt cells (slot - blk.lo)) := by
          intro slot; simp [Block.cell, hp]
        rw [fsum_cond_eq_bucket A q fam tLo tHi blk.lo blk.hi t
          (fun slot => if slot < blk.lo ∨ slot > blk.hi then none else cellAt cells (slot - blk.lo)) ht hspf
          (fun s' _ _ hne => by
            by_cases hr : s' < blk.lo ∨ s' > blk.hi
            · simp [hr] at hne
            · omega)]
        apply fsum_congr
        intro slot _
        rw [hcell]
    · have hov' : overlap blk.lo blk.hi tLo tHi = false := by
        cases h : overlap blk.lo blk.hi tLo tHi <;> simp_all
      simp only [hov', Bool.false_eq_true, if_false, fsum_nil]
      exact (block_nonoverlap_none A q fam tLo tHi t blk group q.field ht hov').symm

/-! ### algebra of `famBucket` -/

theorem famBucket_congr (A : AggType) (q : Query) (fam t : Nat) (group : List Nat) (V W : Nat → Nat → Option Int)
    (h : ∀ ser slot, slot < q.spf → bucketOf q fam slot = some t → V ser slot = W ser slot) :
    famBucket A q fam t group V = famBucket A q fam t group W := by
  unfold famBucket
  apply fsum_congr
  intro ser _
  apply fsum_congr
  intro slot hs
  rw [List.mem_range] at hs
  by_cases hb : bucketOf q fam slot = some t
  · simp [hb, h ser slot hs hb]
  · simp [hb]

theorem famBucket_add {A : AggType} (hc : AggComm A) (q : Query) (fam t : Nat) (group : List Nat)
    (V W : Nat → Nat → Option Int) :
    ocomb A (famBucket A q fam t group V) (famBucket A q fam t group W) =
      famBucket A q fam t group (fun ser slot => ocomb A (V ser slot) (W ser slot)) := by
  unfold famBucket
  rw [← fsum_add hc]
  apply fsum_congr
  intro ser _
  rw [← fsum_add hc]
  apply fsum_congr
  intro slot _
  by_cases hb : bucketOf q fam slot = some t <;> simp [hb]

theorem famBucket_fsum {ι : Type} {A : AggType} (hc : AggComm A) (q : Query) (fam t : Nat) (group : List Nat)
    (l : List ι) (V : ι → Nat → Nat → Option Int) :
    fsum A l (fun i => famBucket A q fam t group (V i)) =
      famBucket A q fam t group (fun ser slot => fsum A l (fun i => V i ser slot)) := by
  induction l with
  | nil =>
    simp only [fsum_nil]
    symm
    exact famBucket_none A q fam t group _ (fun _ _ _ _ => rfl)
  | cons x rest ih =>
    rw [fsum_cons, ih, famBucket_add hc]
    apply famBucket_congr
    intro ser slot _ _
    rw [fsum_cons]

theorem filesView_eq_fsum (A : AggType) (bs : List Block) (k : PageKey) (t : Nat) :
    filesView A bs k t = fsum A bs (fun blk => blk.cell k t) := rfl

theorem readers_eq_chron {A : AggType} (hc : AggComm A) (f : Family) (k : PageKey) (t : Nat) :
    fsum A f.readers (fun blk => blk.cell k t) = filesView A f.chron k t := by
  rw [filesView_eq_fsum]
  unfold Family.readers Family.chron
  rw [fsum_append, fsum_append]
  exact ocomb_comm hc _ _

/-! ### one family -/

/-- the query does not hit a not-found rule in this family and every overlapping file feeds the
queried field. -/
def FamilyOK (s : Shard) (q : Query) (sc : Scope) (fam : Nat) : Prop :=
  (∀ md, (s.family fam).mutable_ = some md → memFilter s q sc md fam ≠ none) ∧
  (∀ blk ∈ (s.family fam).readers, ∀ tLo tHi, familyTarget q fam = some (tLo, tHi) →
      overlap blk.lo blk.hi tLo tHi = true →
      blockMatches sc blk = true ∧ blockSourceField s q sc blk = some q.field)

theorem memCalls_nil_of_filter_false (s : Shard) (q : Query) (sc : Scope) (L : List AggType) (md : MemDB) (fam : Nat)
    (group : List Nat) (h : memFilter s q sc md fam = some false) : memCalls s q L md fam group = [] := by
  unfold memFilter at h
  unfold memCalls
  cases ht : familyTarget q fam with
  | none => rfl
  | some tr =>
    obtain ⟨tLo, tHi⟩ := tr
    cases hr : Map.lookup s.ranges md.created with
    | none => rfl
    | some rg =>
      obtain ⟨lo, hi⟩ := rg
      rw [ht, hr] at h
      simp only at h ⊢
      by_cases hov : overlap lo hi tLo tHi = true
      · simp only [hov, if_true] at h
        split at h
        · cases h
        · split at h <;> cases h
      · simp [hov]

theorem memResult_fsum (s : Shard) (pts : List Point) (hinv : Inv s pts) (q : Query) (sc : Scope) (hspf : 0 < q.spf)
    (hc : AggComm (s.fieldAgg q.field)) (fam : Nat)
    (hokm : ∀ md, (s.family fam).mutable_ = some md → memFilter s q sc md fam ≠ none) (group : List Nat) (t : Nat) :
    ∃ mem, memResult s q sc [s.fieldAgg q.field] fam group = some mem ∧
      fsum (s.fieldAgg q.field) mem (fun c => arrGet c (s.fieldAgg q.field) t) =
        famBucket (s.fieldAgg q.field) q fam t group (fun ser slot => pageView s fam ser q.field slot) := by
  unfold memResult
  cases hm : (s.family fam).mutable_ with
  | none =>
    refine ⟨[], rfl, ?_⟩
    simp only [fsum_nil]
    symm
    apply famBucket_none
    intro ser slot _ _
    simp [pageView, hm]
  | some md =>
    have hnn := hokm md hm
    simp only
    cases hf : memFilter s q sc md fam with
    | none => exact absurd hf hnn
    | some bb =>
      cases bb with
      | true => exact ⟨_, rfl, memCalls_fsum s pts hinv q hspf hc fam md hm group t⟩
      | false =>
        refine ⟨[], rfl, ?_⟩
        rw [← memCalls_fsum s pts hinv q hspf hc fam md hm group t,
          memCalls_nil_of_filter_false s q sc _ md fam group hf]

theorem combineCalls_fsum (A : AggType) (sc : Scope) (mem : List Arrays) (readers : List Block)
    (callsOf : Block → List Arrays) (hall : ∀ blk ∈ readers, blockMatches sc blk = true) (f : Arrays → Option Int) :
    fsum A (combineCalls sc mem readers callsOf) f =
      ocomb A (fsum A mem f) (fsum A readers (fun blk => fsum A (callsOf blk) f)) := by
  unfold combineCalls
  have hfilt : readers.filter (blockMatches sc) = readers := by
    rw [List.filter_eq_self]
    intro blk hb; exact hall blk hb
  rw [hfilt]
  cases readers with
  | nil => simp [fsum_nil]
  | cons b0 rest =>
    simp only [List.isEmpty_cons, Bool.false_eq_true, if_false]
    rw [fsum_append, fsum_flatMap]

theorem familyCalls_fsum (s : Shard) (pts : List Point) (hinv : Inv s pts) (q : Query) (sc : Scope) (hspf : 0 < q.spf)
    (hc : AggComm (s.fieldAgg q.field)) (fam : Nat) (hok : FamilyOK s q sc fam) (group : List Nat) (t : Nat) :
    fsum (s.fieldAgg q.field) (familyCalls s q sc [s.fieldAgg q.field] fam group)
        (fun c => arrGet c (s.fieldAgg q.field) t) =
      famBucket (s.fieldAgg q.field) q fam t group (fun ser slot => storeView s fam ser q.field slot) := by
  obtain ⟨hokm, hokf⟩ := hok
  obtain ⟨mem, hmemEq, hmemSum⟩ := memResult_fsum s pts hinv q sc hspf hc fam hokm group t
  unfold familyCalls
  rw [hmemEq]
  simp only
  -- every overlapping reader matches and feeds the queried field
  have hall : ∀ blk ∈ familyReaders s q fam,
      blockMatches sc blk = true ∧ blockSourceField s q sc blk = some q.field := by
    intro blk hb
    unfold familyReaders at hb
    cases ht : familyTarget q fam with
    | none => rw [ht] at hb; simp at hb
    | some tr =>
      obtain ⟨tLo, tHi⟩ := tr
      rw [ht] at hb
      simp only at hb
      rw [List.mem_filter] at hb
      exact hokf blk hb.1 tLo tHi ht hb.2
  rw [combineCalls_fsum _ sc mem _ _ (fun blk hb => (hall blk hb).1), hmemSum]
  -- the files' calls as bucket folds of their cells
  have hfiles : fsum (s.fieldAgg q.field) (familyReaders s q fam)
      (fun blk => fsum (s.fieldAgg q.field) (fileCalls s q sc [s.fieldAgg q.field] blk fam group)
        (fun c => arrGet c (s.fieldAgg q.field) t)) =
      fsum (s.fieldAgg q.field) (s.family fam).readers
        (fun blk => famBucket (s.fieldAgg q.field) q fam t group (fun ser slot => blk.cell (ser, q.field) slot)) := by
    have h1 : fsum (s.fieldAgg q.field) (familyReaders s q fam)
        (fun blk => fsum (s.fieldAgg q.field) (fileCalls s q sc [s.fieldAgg q.field] blk fam group)
          (fun c => arrGet c (s.fieldAgg q.field) t)) =
        fsum (s.fieldAgg q.field) (familyReaders s q fam)
          (fun blk => famBucket (s.fieldAgg q.field) q fam t group (fun ser slot => blk.cell (ser, q.field) slot)) := by
      apply fsum_congr
      intro blk hb
      exact fileCalls_fsum s q sc _ hspf blk fam (hall blk hb).2 group t
    rw [h1]
    unfold familyReaders
    cases ht : familyTarget q fam with
    | none =>
      simp only [fsum_nil]
      symm
      apply fsum_all_none
      intro blk _
      apply famBucket_none
      intro ser slot hs hbk
      rw [bucketOf_none_of_target_none q fam slot ht hs] at hbk
      cases hbk
    | some tr =>
      obtain ⟨tLo, tHi⟩ := tr
      simp only
      apply fsum_filter
      intro blk _ hov
      exact block_nonoverlap_none _ q fam tLo tHi t blk group q.field ht hov
  rw [hfiles, famBucket_fsum hc, famBucket_add hc]
  apply famBucket_congr
  intro ser slot _ _
  unfold storeView
  rw [readers_eq_chron hc]
  exact ocomb_comm hc _ _

/-- `FamilyOK`, executable. -/
def familyOKB (s : Shard) (q : Query) (sc : Scope) (fam : Nat) : Bool :=
  (match (s.family fam).mutable_ with
    | some md => (memFilter s q sc md fam).isSome
    | none => true) &&
  (match familyTarget q fam with
    | some (tLo, tHi) => (s.family fam).readers.all (fun (blk : Block) =>
        !overlap blk.lo blk.hi tLo tHi || (blockMatches sc blk && (blockSourceField s q sc blk == some q.field)))
    | none => true)

theorem familyOK_of_B (s : Shard) (q : Query) (sc : Scope) (fam : Nat) (h : familyOKB s q sc fam = true) :
    FamilyOK s q sc fam := by
  unfold familyOKB at h
  rw [Bool.and_eq_true] at h
  obtain ⟨h1, h2⟩ := h
  constructor
  · intro md hm hnone
    rw [hm] at h1
    simp [hnone] at h1
  · intro blk hb tLo tHi ht hov
    rw [ht] at h2
    simp only at h2
    rw [List.all_eq_true] at h2
    have := h2 blk hb
    simp only [hov, Bool.not_true, Bool.false_or, Bool.and_eq_true, beq_iff_eq] at this
    exact this

/-! ### all families, and the reference in the same form -/

theorem leafGroup_eq_fsum (s : Shard) (pts : List Point) (hinv : Inv s pts) (q : Query) (sc : Scope) (hspf : 0 < q.spf)
    (hc : AggComm (s.fieldAgg q.field)) (fams group : List Nat) (hok : ∀ fam ∈ fams, FamilyOK s q sc fam) (t : Nat) :
    arrGet (leafGroup s q sc [s.fieldAgg q.field] fams group) (s.fieldAgg q.field) t =
      fsum (s.fieldAgg q.field) group (fun ser => fsum (s.fieldAgg q.field) fams (fun fam =>
        fsum (s.fieldAgg q.field) (List.range q.spf) (fun slot =>
          if bucketOf q fam slot = some t then storeView s fam ser q.field slot else none))) := by
  unfold leafGroup
  rw [reduce_spec _ _ (by
    intro c hcm
    rw [List.mem_flatMap] at hcm
    obtain ⟨fam, _, hf⟩ := hcm
    exact familyCalls_wf s q sc _ fam group c hf) t]
  rw [fsum_flatMap]
  have h1 : fsum (s.fieldAgg q.field) fams (fun fam =>
      fsum (s.fieldAgg q.field) (familyCalls s q sc [s.fieldAgg q.field] fam group)
        (fun c => arrGet c (s.fieldAgg q.field) t)) =
      fsum (s.fieldAgg q.field) fams (fun fam =>
        famBucket (s.fieldAgg q.field) q fam t group (fun ser slot => storeView s fam ser q.field slot)) := by
    apply fsum_congr
    intro fam hf
    exact familyCalls_fsum s pts hinv q sc hspf hc fam (hok fam hf) group t
  rw [h1]
  unfold famBucket
  exact fsum_swap hc fams group _

theorem naiveSeriesFamily_eq (q : Query) (ps : List Point) (ser fam t : Nat) (acc : Option Int) :
    naiveSeriesFamily q ps ser fam t acc =
      ocomb q.funcAgg acc (fsum q.funcAgg (List.range q.spf) (fun slot =>
        if bucketOf q fam slot = some t then refCell q.fieldAgg ps fam ser q.field slot else none)) := by
  unfold naiveSeriesFamily
  rw [← foldl_ocomb_acc]
  congr 1
  funext acc slot
  by_cases hb : bucketOf q fam slot = some t <;> simp [hb]

theorem naiveBucket_eq_fsum (q : Query) (ps : List Point) (group fams : List Nat) (t : Nat) :
    naiveBucket q ps group fams t =
      fsum q.funcAgg group (fun ser => fsum q.funcAgg fams (fun fam =>
        fsum q.funcAgg (List.range q.spf) (fun slot =>
          if bucketOf q fam slot = some t then refCell q.fieldAgg ps fam ser q.field slot else none))) := by
  unfold naiveBucket
  have hin : ∀ (ser : Nat) (acc : Option Int),
      fams.foldl (fun acc fam => naiveSeriesFamily q ps ser fam t acc) acc =
        ocomb q.funcAgg acc (fsum q.funcAgg fams (fun fam =>
          fsum q.funcAgg (List.range q.spf) (fun slot =>
            if bucketOf q fam slot = some t then refCell q.fieldAgg ps fam ser q.field slot else none))) := by
    intro ser acc
    rw [← foldl_ocomb_acc]
    congr 1
    funext acc fam
    exact naiveSeriesFamily_eq q ps ser fam t acc
  have : (fun acc ser => fams.foldl (fun acc fam => naiveSeriesFamily q ps ser fam t acc) acc) =
      (fun acc ser => ocomb q.funcAgg acc (fsum q.funcAgg fams (fun fam =>
          fsum q.funcAgg (List.range q.spf) (fun slot =>
            if bucketOf q fam slot = some t then refCell q.fieldAgg ps fam ser q.field slot else none)))) := by
    funext acc ser
    exact hin ser acc
  rw [this, foldl_ocomb_acc]
  simp

end LinVerif.Lemmas.C11
