/-
C11 helper lemmas, part 5: composition — the leaf answer of a group over several series,
families and sources equals the bucket-wise fold of the shard's abstraction `storeView`
(commutative aggregate), hence the naive reference.
-/
import LinVerif.Lemmas.C11Refine
import LinVerif.Lemmas.C11Query

namespace LinVerif.Lemmas.C11
open LinVerif LinVerif.NaiveQuery LinVerif.MemDB

/-! ### more `fsum` -/

theorem fsum_nil {ι : Type} (A : AggType) (f : ι → Option Int) : fsum A [] f = none := rfl

theorem fsum_append {ι : Type} (A : AggType) (l1 l2 : List ι) (f : ι → Option Int) :
    fsum A (l1 ++ l2) f = ocomb A (fsum A l1 f) (fsum A l2 f) := by
  induction l1 with
  | nil => simp [fsum_nil]
  | cons x rest ih => simp only [List.cons_append, fsum_cons, ih, ocomb_assoc]

theorem fsum_flatMap {ι κ : Type} (A : AggType) (l : List ι) (g : ι → List κ) (f : κ → Option Int) :
    fsum A (l.flatMap g) f = fsum A l (fun i => fsum A (g i) f) := by
  induction l with
  | nil => rfl
  | cons x rest ih => simp only [List.flatMap_cons, fsum_append, fsum_cons, ih]

theorem fsum_const_none {ι : Type} (A : AggType) (l : List ι) : fsum A l (fun _ => (none : Option Int)) = none :=
  fsum_all_none A l _ (fun _ _ => rfl)

theorem fsum_swap {ι κ : Type} {A : AggType} (hc : AggComm A) (l1 : List ι) (l2 : List κ) (f : ι → κ → Option Int) :
    fsum A l1 (fun i => fsum A l2 (fun j => f i j)) = fsum A l2 (fun j => fsum A l1 (fun i => f i j)) := by
  induction l1 with
  | nil => simp [fsum_nil, fsum_const_none]
  | cons x rest ih =>
    rw [fsum_cons, ih]
    rw [← fsum_add hc]
    apply fsum_congr
    intro j _
    rw [fsum_cons]

theorem fsum_filter {ι : Type} (A : AggType) (l : List ι) (p : ι → Bool) (f : ι → Option Int)
    (h : ∀ i ∈ l, p i = false → f i = none) : fsum A (l.filter p) f = fsum A l f := by
  induction l with
  | nil => rfl
  | cons x rest ih =>
    have ih' := ih (fun i hi => h i (by simp [hi]))
    cases hp : p x with
    | true =>
      rw [List.filter_cons_of_pos (by simpa using hp), fsum_cons, fsum_cons, ih']
    | false =>
      rw [List.filter_cons_of_neg (by simp [hp]), fsum_cons, ih', h x (by simp) hp]
      simp

theorem range'_split (a k1 k2 : Nat) :
    List.range' a (k1 + k2) = List.range' a k1 ++ List.range' (a + k1) k2 :=
  (List.range'_append_1 (s := a) (m := k1) (n := k2)).symm

theorem range'_three (lo k1 k2 : Nat) :
    List.range' 0 (lo + (k1 + k2)) = List.range' 0 lo ++ (List.range' lo k1 ++ List.range' (lo + k1) k2) := by
  rw [range'_split, range'_split]; simp

/-- slots of a source range vs. slots of the family: a function that vanishes outside
`[lo, hi] ∩ [0, n)` has the same fold over both. -/
theorem fsum_slots_eq_range (A : AggType) (lo hi n : Nat) (h : Nat → Option Int)
    (hv : ∀ s, h s ≠ none → lo ≤ s ∧ s ≤ hi ∧ s < n) :
    fsum A (slotsOf lo hi) h = fsum A (List.range n) h := by
  have hnone : ∀ s, ¬(lo ≤ s ∧ s ≤ hi ∧ s < n) → h s = none := by
    intro s hs
    cases hh : h s with
    | none => rfl
    | some x => exact absurd (hv s (by simp [hh])) hs
  have hslots : slotsOf lo hi = List.range' lo (hi + 1 - lo) := by
    unfold slotsOf
    rw [List.range_eq_range', List.map_add_range']
    simp
  rw [hslots, List.range_eq_range']
  by_cases hlh : lo ≤ hi
  · -- both equal the fold over range' 0 M for an M beyond both
    obtain ⟨M, hM1, hM2⟩ : ∃ M, hi + 1 ≤ M ∧ n ≤ M := ⟨hi + 1 + n, by omega, by omega⟩
    have e1 : List.range' 0 M = List.range' 0 lo ++ (List.range' lo (hi + 1 - lo) ++ List.range' (hi + 1) (M - (hi + 1))) := by
      have h3 := range'_three lo (hi + 1 - lo) (M - (hi + 1))
      have hM : lo + (hi + 1 - lo + (M - (hi + 1))) = M := by omega
      have h2 : lo + (hi + 1 - lo) = hi + 1 := by omega
      rw [hM, h2] at h3
      exact h3
    have e2 : List.range' 0 M = List.range' 0 n ++ List.range' n (M - n) := by
      have h3 := range'_split 0 n (M - n)
      have hM : n + (M - n) = M := by omega
      rw [hM] at h3
      simpa using h3
    have a1 : fsum A (List.range' 0 M) h = fsum A (List.range' lo (hi + 1 - lo)) h := by
      rw [e1, fsum_append, fsum_append]
      rw [fsum_all_none A (List.range' 0 lo) h (by
        intro s hs; apply hnone; rw [List.mem_range'_1] at hs; omega)]
      rw [fsum_all_none A (List.range' (hi + 1) (M - (hi + 1))) h (by
        intro s hs; apply hnone; rw [List.mem_range'_1] at hs; omega)]
      simp
    have a2 : fsum A (List.range' 0 M) h = fsum A (List.range' 0 n) h := by
      rw [e2, fsum_append]
      rw [fsum_all_none A (List.range' n (M - n)) h (by
        intro s hs; apply hnone; rw [List.mem_range'_1] at hs; omega)]
      simp
    rw [← a1, a2]
  · -- empty source range: the function vanishes everywhere
    have hz : hi + 1 - lo = 0 := by omega
    rw [hz]
    simp only [List.range'_zero, fsum_nil]
    symm
    apply fsum_all_none
    intro s _
    apply hnone
    omega

/-! ### bucket condition -/

theorem cond_iff_bucketOf (q : Query) (fam tLo tHi s t : Nat) (ht : familyTarget q fam = some (tLo, tHi)) (hs : s < q.spf) :
    (tLo ≤ s ∧ s ≤ tHi ∧ (fam * q.spf + s - q.qs) / q.ratio = t) ↔ bucketOf q fam s = some t := by
  unfold familyTarget at ht
  simp only at ht
  split at ht
  · cases ht
  · rename_i hov
    simp only [Option.some.injEq, Prod.mk.injEq] at ht
    obtain ⟨h1, h2⟩ := ht
    unfold bucketOf
    simp only
    constructor
    · intro ⟨a, b, c⟩
      have hin : q.qs ≤ fam * q.spf + s ∧ fam * q.spf + s ≤ q.qe := by
        constructor
        · rw [← h1] at a; split at a <;> omega
        · rw [← h2] at b; split at b <;> omega
      simp [hin, c]
    · intro hb
      split at hb
      · rename_i hin
        simp only [Option.some.injEq] at hb
        refine ⟨?_, ?_, hb⟩
        · rw [← h1]; split <;> omega
        · rw [← h2]; split <;> omega
      · cases hb

theorem bucketOf_none_of_target_none (q : Query) (fam s : Nat) (ht : familyTarget q fam = none) (hs : s < q.spf) :
    bucketOf q fam s = none := by
  unfold familyTarget at ht
  simp only at ht
  split at ht
  · rename_i hov
    unfold bucketOf
    simp only
    have : ¬(q.qs ≤ fam * q.spf + s ∧ fam * q.spf + s ≤ q.qe) := by omega
    simp [this]
  · cases ht

theorem target_hi_lt (q : Query) (fam tLo tHi : Nat) (ht : familyTarget q fam = some (tLo, tHi)) (hspf : 0 < q.spf) :
    tHi < q.spf := by
  unfold familyTarget at ht
  simp only at ht
  split at ht
  · cases ht
  · simp only [Option.some.injEq, Prod.mk.injEq] at ht
    rw [← ht.2]; split <;> omega

/-- a `cond`-fold over a source range as a `bucketOf`-fold over the family's slots. -/
theorem fsum_cond_eq_bucket (A : AggType) (q : Query) (fam tLo tHi lo hi t : Nat) (V : Nat → Option Int)
    (ht : familyTarget q fam = some (tLo, tHi)) (hspf : 0 < q.spf)
    (hcov : ∀ s, tLo ≤ s → s ≤ tHi → V s ≠ none → lo ≤ s ∧ s ≤ hi) :
    fsum A (slotsOf lo hi)
      (fun s => if tLo ≤ s ∧ s ≤ tHi ∧ (fam * q.spf + s - q.qs) / q.ratio = t then V s else none) =
    fsum A (List.range q.spf) (fun s => if bucketOf q fam s = some t then V s else none) := by
  have hth := target_hi_lt q fam tLo tHi ht hspf
  rw [fsum_slots_eq_range A lo hi q.spf]
  · apply fsum_congr
    intro s hs
    rw [List.mem_range] at hs
    by_cases hc : tLo ≤ s ∧ s ≤ tHi ∧ (fam * q.spf + s - q.qs) / q.ratio = t
    · simp [hc, (cond_iff_bucketOf q fam tLo tHi s t ht hs).mp hc]
    · have : ¬(bucketOf q fam s = some t) := fun hb => hc ((cond_iff_bucketOf q fam tLo tHi s t ht hs).mpr hb)
      simp [hc, this]
  · intro s hne
    by_cases hc : tLo ≤ s ∧ s ≤ tHi ∧ (fam * q.spf + s - q.qs) / q.ratio = t
    · simp only [hc, and_self, if_true] at hne
      have := hcov s hc.1 hc.2.1 hne
      exact ⟨this.1, this.2, by omega⟩
    · simp [hc] at hne

/-! ### well-formedness of all calls -/

theorem memCallsR_wf (q : Query) (L : List AggType) (hL : L.Nodup) (pages : List (PageKey × Buf)) (rng : Option (Nat × Nat))
    (fam : Nat) (group : List Nat) : ∀ c ∈ memCallsR q L pages rng fam group, WFL L c := by
  intro c hc
  unfold memCallsR at hc
  split at hc
  · split at hc
    · rw [List.mem_flatMap] at hc
      obtain ⟨ser, _, hser⟩ := hc
      split at hser
      · simp at hser
      · exact pageCalls_wf L hL _ _ _ _ _ _ _ _ c hser
    · simp at hc
  · simp at hc

theorem memCalls_wf (s : Shard) (q : Query) (L : List AggType) (hL : L.Nodup) (md : MemDB) (fam : Nat) (group : List Nat) :
    ∀ c ∈ memCalls s q L md fam group, WFL L c :=
  memCallsR_wf q L hL md.pages _ fam group

theorem fileCalls_wf (s : Shard) (q : Query) (sc : Scope) (L : List AggType) (hL : L.Nodup) (blk : Block) (fam : Nat) (group : List Nat) :
    ∀ c ∈ fileCalls s q sc L blk fam group, WFL L c := by
  intro c hc
  unfold fileCalls at hc
  split at hc
  · split at hc
    · rw [List.mem_flatMap] at hc
      obtain ⟨ser, _, hser⟩ := hc
      split at hser
      · simp at hser
      · simp at hser; subst hser; exact dsCall_wf L hL _ _ _ _ _ _ _ _
    · simp at hc
  · simp at hc

theorem memResult_wf (s : Shard) (q : Query) (sc : Scope) (L : List AggType) (hL : L.Nodup) (fam : Nat) (group : List Nat)
    (mem : List Arrays) (hmr : memResult s q sc L fam group = some mem) : ∀ c ∈ mem, WFL L c := by
  intro c' hc'
  unfold memResult at hmr
  cases hmu : (s.family fam).mutable_ with
  | none => rw [hmu] at hmr; simp at hmr; subst hmr; simp at hc'
  | some md =>
    rw [hmu] at hmr
    simp only at hmr
    cases hf : memFilter s q sc md fam with
    | none =>
      rw [hf] at hmr
      simp only at hmr
      split at hmr
      · cases hmr; simp at hc'
      · cases hmr
    | some bb =>
      rw [hf] at hmr
      cases bb with
      | true => simp at hmr; subst hmr; exact memCalls_wf s q L hL md fam group c' hc'
      | false => simp at hmr; subst hmr; simp at hc'

theorem familyCalls_wf (s : Shard) (q : Query) (sc : Scope) (L : List AggType) (hL : L.Nodup) (fam : Nat) (group : List Nat) :
    ∀ c ∈ familyCalls s q sc L fam group, WFL L c := by
  intro c hc
  unfold familyCalls at hc
  cases hmr : memResult s q sc L fam group with
  | none => simp [hmr] at hc
  | some mem =>
    rw [hmr] at hc
    simp only at hc
    have hm := memResult_wf s q sc L hL fam group mem hmr
    unfold combineCalls at hc
    split at hc
    · exact hm c hc
    · split at hc
      · split at hc
        · exact hm c hc
        · simp at hc
      · rw [List.mem_append] at hc
        rcases hc with h | h
        · exact hm c h
        · rw [List.mem_flatMap] at h
          obtain ⟨blk, _, hb⟩ := h
          exact fileCalls_wf s q sc L hL blk fam group c hb

/-! ### the calls of one source as a bucket fold -/

theorem overlap_of_common (a b c d s : Nat) (h1 : a ≤ s) (h2 : s ≤ b) (h3 : c ≤ s) (h4 : s ≤ d) :
    overlap a b c d = true := by
  unfold overlap
  by_cases h : c ≥ a
  · simp [h]; omega
  · simp; right; omega

theorem pageCalls_fsum {w : Nat} {A : AggType} {L : List AggType} (hL : L.Nodup) (hAL : A ∈ L) (hc : AggComm A) (b : Buf) (hi' : BufInv w b)
    (lo hi tLo tHi g0 qs ratio t : Nat) :
    fsum A (pageCalls L b lo hi tLo tHi g0 qs ratio) (fun c => arrGet c A t) =
      fsum A (slotsOf lo hi)
        (fun s => if tLo ≤ s ∧ s ≤ tHi ∧ (g0 + s - qs) / ratio = t then memView A b s else none) := by
  rw [← reduce_spec L hL A hAL _ (pageCalls_wf L hL b lo hi tLo tHi g0 qs ratio) t]
  exact pageCalls_spec hc L hL hAL b hi' lo hi tLo tHi g0 qs ratio t

/-- the bucket fold of a family-local view over a group. -/
def famBucket (A : AggType) (q : Query) (fam t : Nat) (group : List Nat) (V : Nat → Nat → Option Int) : Option Int :=
  fsum A group (fun ser => fsum A (List.range q.spf) (fun slot => if bucketOf q fam slot = some t then V ser slot else none))

theorem famBucket_none (A : AggType) (q : Query) (fam t : Nat) (group : List Nat) (V : Nat → Nat → Option Int)
    (h : ∀ ser slot, slot < q.spf → bucketOf q fam slot = some t → V ser slot = none) :
    famBucket A q fam t group V = none := by
  unfold famBucket
  apply fsum_all_none
  intro ser _
  apply fsum_all_none
  intro slot hs
  rw [List.mem_range] at hs
  by_cases hb : bucketOf q fam slot = some t
  · simp [hb, h ser slot hs hb]
  · simp [hb]

/-- what the pages of a memory database hold for (series, field `q.field`, slot). -/
def pagesView (A : AggType) (pages : List (PageKey × Buf)) (fld ser slot : Nat) : Option Int :=
  match Map.lookup pages (ser, fld) with
  | none => none
  | some b => memView A b slot

/-- the calls of one page, folded by the function's aggregate `F`, are the `F`-fold of the page's view
under the field's aggregate `A` (proved for `F = A` commutative — `pageCalls_fsum` — and, for any
`F`, for a page written in time order — `C11Sorted`). -/
def PageFold (F A : AggType) (L : List AggType) (b : Buf) : Prop :=
  ∀ lo hi tLo tHi g0 qs ratio t,
    fsum F (pageCalls L b lo hi tLo tHi g0 qs ratio) (fun c => arrGet c F t) =
      fsum F (slotsOf lo hi)
        (fun s => if tLo ≤ s ∧ s ≤ tHi ∧ (g0 + s - qs) / ratio = t then memView A b s else none)

/-- a memory database's calls = bucket fold of its pages' views (`[lo, hi]` covers the pages). -/
theorem memCallsR_fsum_gen (F A : AggType) {L : List AggType} (q : Query) (hspf : 0 < q.spf)
    (pages : List (PageKey × Buf)) (lo hi : Nat)
    (hb : ∀ ser b, Map.lookup pages (ser, q.field) = some b →
      PageFold F A L b ∧ ∀ t, memView A b t ≠ none → lo ≤ t ∧ t ≤ hi)
    (fam : Nat) (group : List Nat) (t : Nat) :
    fsum F (memCallsR q L pages (some (lo, hi)) fam group) (fun c => arrGet c F t) =
      famBucket F q fam t group (fun ser slot => pagesView A pages q.field ser slot) := by
  unfold memCallsR
  cases ht : familyTarget q fam with
  | none =>
    simp only [fsum_nil]
    symm
    apply famBucket_none
    intro ser slot hs hbk
    rw [bucketOf_none_of_target_none q fam slot ht hs] at hbk
    cases hbk
  | some tr =>
    obtain ⟨tLo, tHi⟩ := tr
    simp only
    by_cases hov : overlap lo hi tLo tHi = true
    · simp only [hov, if_true]
      rw [fsum_flatMap]
      unfold famBucket
      apply fsum_congr
      intro ser _
      cases hp : Map.lookup pages (ser, q.field) with
      | none =>
        simp only [fsum_nil]
        symm
        apply fsum_all_none
        intro slot _
        simp [pagesView, hp]
      | some b =>
        simp only
        obtain ⟨hbi, hbc⟩ := hb ser b hp
        rw [hbi]
        rw [fsum_cond_eq_bucket _ q fam tLo tHi lo hi t (memView A b) ht hspf
          (fun s' _ _ hne => hbc s' hne)]
        apply fsum_congr
        intro slot _
        simp [pagesView, hp]
    · simp only [hov, Bool.false_eq_true, if_false, fsum_nil]
      symm
      apply famBucket_none
      intro ser slot hs hbk
      unfold pagesView
      cases hp : Map.lookup pages (ser, q.field) with
      | none => rfl
      | some b =>
        simp only
        cases hv : memView A b slot with
        | none => rfl
        | some x =>
          exfalso
          obtain ⟨h1, h2⟩ := (hb ser b hp).2 slot (by simp [hv])
          have := (cond_iff_bucketOf q fam tLo tHi slot t ht hs).mpr hbk
          exact hov (overlap_of_common lo hi tLo tHi slot h1 h2 this.1 this.2.1)

theorem memCallsR_fsum {w : Nat} (A : AggType) {L : List AggType} (hL : L.Nodup) (hAL : A ∈ L) (hc : AggComm A) (q : Query) (hspf : 0 < q.spf)
    (pages : List (PageKey × Buf)) (lo hi : Nat)
    (hb : ∀ ser b, Map.lookup pages (ser, q.field) = some b →
      BufInv w b ∧ ∀ t, memView A b t ≠ none → lo ≤ t ∧ t ≤ hi)
    (fam : Nat) (group : List Nat) (t : Nat) :
    fsum A (memCallsR q L pages (some (lo, hi)) fam group) (fun c => arrGet c A t) =
      famBucket A q fam t group (fun ser slot => pagesView A pages q.field ser slot) :=
  memCallsR_fsum_gen A A q hspf pages lo hi
    (fun ser b hp => ⟨fun lo hi tLo tHi g0 qs ratio t => pageCalls_fsum hL hAL hc b (hb ser b hp).1 lo hi tLo tHi g0 qs ratio t,
      (hb ser b hp).2⟩) fam group t

theorem pageView_eq_pagesView (s : Shard) (fam : Nat) (md : MemDB) (hm : (s.family fam).mutable_ = some md)
    (ser fld slot : Nat) : pageView s fam ser fld slot = pagesView (s.fieldAgg fld) md.pages fld ser slot := by
  simp only [pageView, hm, pagesView]
  rfl

/-- the memory database's calls = bucket fold of `pageView`. -/
theorem memCalls_fsum_gen (s : Shard) (pts : List Point) (hinv : Inv s pts) (q : Query) (F : AggType) {L : List AggType} (hspf : 0 < q.spf)
    (fam : Nat) (md : MemDB) (hm : (s.family fam).mutable_ = some md)
    (hP : ∀ ser b, Map.lookup md.pages (ser, q.field) = some b → BufInv s.window b → PageFold F (s.fieldAgg q.field) L b)
    (group : List Nat) (t : Nat) :
    fsum F (memCalls s q L md fam group) (fun c => arrGet c F t) =
      famBucket F q fam t group (fun ser slot => pageView s fam ser q.field slot) := by
  obtain ⟨lo, hi, hr, hb⟩ := hinv.pages fam md hm
  unfold memCalls
  rw [hr, memCallsR_fsum_gen F _ q hspf md.pages lo hi
    (fun ser b hp => ⟨hP ser b hp (hb (ser, q.field) b hp).1, (hb (ser, q.field) b hp).2⟩) fam group t]
  unfold famBucket
  apply fsum_congr
  intro ser _
  apply fsum_congr
  intro slot _
  simp only [pageView_eq_pagesView s fam md hm]

theorem memCalls_fsum (s : Shard) (pts : List Point) (hinv : Inv s pts) (q : Query) {L : List AggType} (hL : L.Nodup) (hAL : s.fieldAgg q.field ∈ L) (hspf : 0 < q.spf)
    (hc : AggComm (s.fieldAgg q.field)) (fam : Nat) (md : MemDB) (hm : (s.family fam).mutable_ = some md)
    (group : List Nat) (t : Nat) :
    fsum (s.fieldAgg q.field) (memCalls s q L md fam group) (fun c => arrGet c (s.fieldAgg q.field) t) =
      famBucket (s.fieldAgg q.field) q fam t group (fun ser slot => pageView s fam ser q.field slot) :=
  memCalls_fsum_gen s pts hinv q _ hspf fam md hm
    (fun ser b _ hbi lo hi tLo tHi g0 qs ratio t => pageCalls_fsum hL hAL hc b hbi lo hi tLo tHi g0 qs ratio t) group t

theorem cell_range (blk : Block) (k : PageKey) (slot : Nat) (h : blk.cell k slot ≠ none) :
    blk.lo ≤ slot ∧ slot ≤ blk.hi := by
  by_cases hr : slot < blk.lo ∨ slot > blk.hi
  · exact absurd (cell_none_of_out blk k slot hr) h
  · omega

/-- a block that does not overlap the family's query range contributes nothing. -/
theorem block_nonoverlap_none (A : AggType) (q : Query) (fam tLo tHi t : Nat) (blk : Block) (group : List Nat) (fld : Nat)
    (ht : familyTarget q fam = some (tLo, tHi)) (hov : overlap blk.lo blk.hi tLo tHi = false) :
    famBucket A q fam t group (fun ser slot => blk.cell (ser, fld) slot) = none := by
  apply famBucket_none
  intro ser slot hs hbk
  cases hv : blk.cell (ser, fld) slot with
  | none => rfl
  | some x =>
    exfalso
    obtain ⟨h1, h2⟩ := cell_range blk (ser, fld) slot (by simp [hv])
    have := (cond_iff_bucketOf q fam tLo tHi slot t ht hs).mpr hbk
    rw [overlap_of_common blk.lo blk.hi tLo tHi slot h1 h2 this.1 this.2.1] at hov
    cases hov

/-- a file's calls = bucket fold of its cells (when the block feeds the queried field). -/
theorem fileCalls_fsum (s : Shard) (q : Query) (sc : Scope) (A : AggType) {L : List AggType} (hL : L.Nodup) (hAL : A ∈ L) (hspf : 0 < q.spf) (blk : Block) (fam : Nat)
    (hsrc : blockSourceField s q sc blk = some q.field) (group : List Nat) (t : Nat) :
    fsum A (fileCalls s q sc L blk fam group) (fun c => arrGet c A t) =
      famBucket A q fam t group (fun ser slot => blk.cell (ser, q.field) slot) := by
  unfold fileCalls
  rw [hsrc]
  cases ht : familyTarget q fam with
  | none =>
    simp only [fsum_nil]
    symm
    apply famBucket_none
    intro ser slot hs hbk
    rw [bucketOf_none_of_target_none q fam slot ht hs] at hbk
    cases hbk
  | some tr =>
    obtain ⟨tLo, tHi⟩ := tr
    simp only
    by_cases hov : overlap blk.lo blk.hi tLo tHi = true
    · simp only [hov, if_true]
      rw [fsum_flatMap]
      unfold famBucket
      apply fsum_congr
      intro ser _
      cases hp : Map.lookup blk.pages (ser, q.field) with
      | none =>
        simp only [fsum_nil]
        symm
        apply fsum_all_none
        intro slot _
        simp [Block.cell, hp]
      | some cells =>
        simp only
        rw [fsum_cons, fsum_nil, ocomb_none_right, dsCall_spec L hL A hAL]
        have hcell : ∀ slot, blk.cell (ser, q.field) slot =
            (if slot < blk.lo ∨ slot > blk.hi then none else cellAt cells (slot - blk.lo)) := by
          intro slot; simp [Block.cell, hp]
        rw [fsum_cond_eq_bucket A q fam tLo tHi blk.lo blk.hi t
          (fun slot => if slot < blk.lo ∨ slot > blk.hi then none else cellAt cells (slot - blk.lo)) ht hspf
          (fun s' _ _ hne => by
            by_cases hr : s' < blk.lo ∨ s' > blk.hi
            · simp [hr] at hne
            · omega)]
        apply fsum_congr
        intro slot _
        rw [hcell]
    · have hov' : overlap blk.lo blk.hi tLo tHi = false := by
        cases h : overlap blk.lo blk.hi tLo tHi <;> simp_all
      simp only [hov', Bool.false_eq_true, if_false, fsum_nil]
      exact (block_nonoverlap_none A q fam tLo tHi t blk group q.field ht hov').symm

/-! ### algebra of `famBucket` -/

theorem famBucket_congr (A : AggType) (q : Query) (fam t : Nat) (group : List Nat) (V W : Nat → Nat → Option Int)
    (h : ∀ ser slot, slot < q.spf → bucketOf q fam slot = some t → V ser slot = W ser slot) :
    famBucket A q fam t group V = famBucket A q fam t group W := by
  unfold famBucket
  apply fsum_congr
  intro ser _
  apply fsum_congr
  intro slot hs
  rw [List.mem_range] at hs
  by_cases hb : bucketOf q fam slot = some t
  · simp [hb, h ser slot hs hb]
  · simp [hb]

theorem famBucket_add {A : AggType} (hc : AggComm A) (q : Query) (fam t : Nat) (group : List Nat)
    (V W : Nat → Nat → Option Int) :
    ocomb A (famBucket A q fam t group V) (famBucket A q fam t group W) =
      famBucket A q fam t group (fun ser slot => ocomb A (V ser slot) (W ser slot)) := by
  unfold famBucket
  rw [← fsum_add hc]
  apply fsum_congr
  intro ser _
  rw [← fsum_add hc]
  apply fsum_congr
  intro slot _
  by_cases hb : bucketOf q fam slot = some t <;> simp [hb]

theorem famBucket_fsum {ι : Type} {A : AggType} (hc : AggComm A) (q : Query) (fam t : Nat) (group : List Nat)
    (l : List ι) (V : ι → Nat → Nat → Option Int) :
    fsum A l (fun i => famBucket A q fam t group (V i)) =
      famBucket A q fam t group (fun ser slot => fsum A l (fun i => V i ser slot)) := by
  induction l with
  | nil =>
    simp only [fsum_nil]
    symm
    exact famBucket_none A q fam t group _ (fun _ _ _ _ => rfl)
  | cons x rest ih =>
    rw [fsum_cons, ih, famBucket_add hc]
    apply famBucket_congr
    intro ser slot _ _
    rw [fsum_cons]

theorem filesView_eq_fsum (A : AggType) (bs : List Block) (k : PageKey) (t : Nat) :
    filesView A bs k t = fsum A bs (fun blk => blk.cell k t) := rfl

theorem readers_eq_chron {A : AggType} (hc : AggComm A) (f : Family) (k : PageKey) (t : Nat) :
    fsum A f.readers (fun blk => blk.cell k t) = filesView A f.chron k t := by
  rw [filesView_eq_fsum]
  unfold Family.readers Family.chron
  rw [fsum_append, fsum_append]
  exact ocomb_comm hc _ _

/-! ### a second invariant: pages' series are known, blocks list their pages' fields and series -/

structure Inv2 (s : Shard) : Prop where
  known : ∀ fam md k b, (s.family fam).mutable_ = some md → Map.lookup md.pages k = some b → k.1 ∈ s.known
  blocks : ∀ fam, ∀ blk ∈ (s.family fam).readers, ∀ k, k ∈ blk.pages.map Prod.fst →
    k.2 ∈ blk.fields ∧ k.1 ∈ blk.series

theorem lookup_some_of_mem_keys {κ : Type} [DecidableEq κ] {α : Type} (m : List (κ × α)) (k : κ)
    (h : k ∈ m.map Prod.fst) : ∃ v, Map.lookup m k = some v := by
  induction m with
  | nil => simp at h
  | cons p rest ih =>
    obtain ⟨k', v'⟩ := p
    by_cases h1 : k' = k
    · exact ⟨v', by simp [Map.lookup, h1]⟩
    · simp only [List.map_cons, List.mem_cons] at h
      rcases h with e | e
      · exact absurd e.symm h1
      · obtain ⟨v, hv⟩ := ih e
        exact ⟨v, by simp [Map.lookup, h1, hv]⟩

theorem write_known_mono (s : Shard) (tick fam ser fld : Nat) (ft : FieldType) (slot : Nat) (v : Int) (x : Nat)
    (h : x ∈ s.known ∨ x = ser) : x ∈ (s.write tick fam ser fld ft slot v).known := by
  show x ∈ (if s.known.contains ser then s.known else s.known ++ [ser])
  split
  · rename_i hc
    rcases h with h | h
    · exact h
    · subst h; simpa using hc
  · rcases h with h | h
    · simp [h]
    · simp [h]

theorem inv2_write (s : Shard) (h2 : Inv2 s) (tick fam ser fld : Nat) (ft : FieldType) (slot : Nat) (v : Int) :
    Inv2 (s.write tick fam ser fld ft slot v) := by
  constructor
  · intro fam2 md2 k b hm hk
    by_cases hf : fam = fam2
    · subst hf
      rw [write_family_self] at hm
      simp only [Option.some.injEq] at hm
      subst hm
      simp only at hk
      by_cases hkey : (ser, fld) = k
      · subst hkey
        exact write_known_mono s tick fam ser fld ft slot v ser (Or.inr rfl)
      · rw [Map.lookup_upsert_ne _ _ _ _ hkey] at hk
        cases hmu : (s.family fam).mutable_ with
        | none => simp [curMem, hmu, Map.lookup] at hk
        | some md =>
          simp only [curMem, hmu] at hk
          exact write_known_mono s tick fam ser fld ft slot v k.1 (Or.inl (h2.known fam md k b hmu hk))
    · rw [write_family_ne s tick fam ser fld ft slot v fam2 hf] at hm
      exact write_known_mono s tick fam ser fld ft slot v k.1 (Or.inl (h2.known fam2 md2 k b hm hk))
  · intro fam2 blk hb k hk
    by_cases hf : fam = fam2
    · subst hf
      have : ((s.write tick fam ser fld ft slot v).family fam).readers = (s.family fam).readers := by
        rw [write_family_self]; rfl
      rw [this] at hb
      exact h2.blocks fam blk hb k hk
    · rw [write_family_ne s tick fam ser fld ft slot v fam2 hf] at hb
      exact h2.blocks fam2 blk hb k hk

theorem flush_known (s : Shard) (fam : Nat) : (s.flush fam).known = s.known := by
  cases h : (s.family fam).mutable_ with
  | none => rw [flush_none s fam h]
  | some md => rw [flush_some s fam md h]

theorem inv2_flush (s : Shard) (h2 : Inv2 s) (fam : Nat) : Inv2 (s.flush fam) := by
  cases hm : (s.family fam).mutable_ with
  | none => rw [flush_none s fam hm]; exact h2
  | some md =>
    constructor
    · intro fam2 md2 k b hm2 hk
      rw [flush_known]
      by_cases hf : fam = fam2
      · subst hf
        rw [flush_some_family_self s fam md hm] at hm2
        simp at hm2
      · rw [flush_some_family_ne s fam fam2 md hm hf] at hm2
        exact h2.known fam2 md2 k b hm2 hk
    · intro fam2 blk hb k hk
      by_cases hf : fam = fam2
      · subst hf
        rw [flush_some_family_self s fam md hm] at hb
        simp only [Family.readers] at hb
        cases hfm : flushMemDB s md with
        | none =>
          rw [hfm] at hb
          exact h2.blocks fam blk (by simpa [Family.readers] using hb) k hk
        | some nb =>
          rw [hfm] at hb
          simp only [List.append_assoc, List.mem_append, List.mem_singleton] at hb
          by_cases hold : blk ∈ (s.family fam).readers
          · exact h2.blocks fam blk hold k hk
          · have hnb : blk = nb := by
              rcases hb with h | h | h
              · exact absurd (by simp [Family.readers, h]) hold
              · exact h
              · exact absurd (by simp only [Family.readers, List.mem_append]; exact Or.inr h) hold
            subst hnb
            -- the new block
            unfold flushMemDB at hfm
            cases hr : Map.lookup s.ranges md.created with
            | none => rw [hr] at hfm; cases hfm
            | some rg =>
              obtain ⟨lo, hi⟩ := rg
              rw [hr] at hfm
              simp only [Option.some.injEq] at hfm
              subst hfm
              simp only [List.map_map] at hk
              have hk' : k ∈ md.pages.map Prod.fst := by
                simpa [Function.comp] using hk
              constructor
              · simp only
                rw [List.mem_eraseDups]
                rw [List.mem_map] at hk' ⊢
                obtain ⟨p, hp, rfl⟩ := hk'
                exact ⟨p, hp, rfl⟩
              · obtain ⟨b, hb'⟩ := lookup_some_of_mem_keys md.pages k hk'
                exact h2.known fam md k b hm hb'
      · rw [flush_some_family_ne s fam fam2 md hm hf] at hb
        exact h2.blocks fam2 blk hb k hk

theorem mem_readers_iff_chron (f : Family) (blk : Block) : blk ∈ f.chron ↔ blk ∈ f.readers := by
  simp only [Family.chron, Family.readers, List.mem_append]
  exact Or.comm

theorem inv2_compact (s : Shard) (h2 : Inv2 s) (fam : Nat) : Inv2 (s.compact fam) := by
  unfold Shard.compact
  simp only
  split
  · exact h2
  · cases hmb : mergeBlocks s.fieldAgg (s.family fam).chron with
    | none => exact h2
    | some blk =>
      simp only
      have hfs : ∀ fam2, fam ≠ fam2 →
          (Shard.mk s.cfg s.window (Map.upsert s.families fam
            { s.family fam with files := [], base := some blk }) s.ranges s.fieldTypes s.known s.nextTick).family fam2 = s.family fam2 :=
        fun fam2 h => family_upsert_ne s fam fam2 _ _ _ _ _ h
      have hff : (Shard.mk s.cfg s.window (Map.upsert s.families fam
            { s.family fam with files := [], base := some blk }) s.ranges s.fieldTypes s.known s.nextTick).family fam =
            { s.family fam with files := [], base := some blk } := family_upsert_self s fam _ _ _ _ _
      constructor
      · intro fam2 md2 k b hm hk
        show k.1 ∈ s.known
        by_cases hf : fam = fam2
        · subst hf; rw [hff] at hm; exact h2.known fam md2 k b hm hk
        · rw [hfs fam2 hf] at hm; exact h2.known fam2 md2 k b hm hk
      · intro fam2 b' hb k hk
        by_cases hf : fam = fam2
        · subst hf
          rw [hff] at hb
          simp [Family.readers] at hb
          subst hb
          -- the merged block
          cases hch : (s.family fam).chron with
          | nil => rw [hch] at hmb; simp [mergeBlocks] at hmb
          | cons b0 rest =>
            rw [hch] at hmb
            simp only [mergeBlocks, Option.some.injEq] at hmb
            subst hmb
            simp only [List.map_map] at hk
            have hk' : k ∈ ((b0 :: rest).flatMap (fun b => b.pages.map Prod.fst)).eraseDups := by
              simpa [Function.comp] using hk
            rw [List.mem_eraseDups, List.mem_flatMap] at hk'
            obtain ⟨bb, hbb, hkb⟩ := hk'
            have hbr : bb ∈ (s.family fam).readers := by
              rw [← mem_readers_iff_chron, hch]; exact hbb
            obtain ⟨hfld, hser⟩ := h2.blocks fam bb hbr k hkb
            constructor
            · simp only
              rw [List.mem_eraseDups, List.mem_flatMap]; exact ⟨bb, hbb, hfld⟩
            · simp only
              rw [List.mem_eraseDups, List.mem_flatMap]; exact ⟨bb, hbb, hser⟩
        · rw [hfs fam2 hf] at hb; exact h2.blocks fam2 b' hb k hk

theorem flushAll_mutable_none :
    ∀ (l : List Nat) (s : Shard) (fam : Nat), (fam ∈ l ∨ (s.family fam).mutable_ = none) →
      ((flushAll s l).family fam).mutable_ = none := by
  intro l
  induction l with
  | nil =>
    intro s fam h
    rcases h with h | h
    · simp at h
    · exact h
  | cons x rest ih =>
    intro s fam h
    simp only [flushAll, List.foldl_cons]
    apply ih
    by_cases hx : x = fam
    · right
      subst hx
      cases hm : (s.family x).mutable_ with
      | none => rw [flush_none s x hm]; exact hm
      | some md => rw [flush_some_family_self s x md hm]
    · rcases h with h | h
      · left
        rcases List.mem_cons.mp h with e | e
        · exact absurd e.symm hx
        · exact e
      · right
        cases hm : (s.family x).mutable_ with
        | none => rw [flush_none s x hm]; exact h
        | some md => rw [flush_some_family_ne s x fam md hm hx]; exact h

theorem inv2_flushAll : ∀ (l : List Nat) (s : Shard), Inv2 s → Inv2 (flushAll s l) := by
  intro l
  induction l with
  | nil => intro s h; exact h
  | cons x rest ih => intro s h; exact ih (s.flush x) (inv2_flush s h x)

theorem inv2_reopen (s : Shard) (h2 : Inv2 s) : Inv2 s.reopen := by
  unfold Shard.reopen
  have hall : ∀ fam, ((flushAll s (s.families.map Prod.fst)).family fam).mutable_ = none := by
    intro fam
    apply flushAll_mutable_none
    by_cases hm : fam ∈ s.families.map Prod.fst
    · exact Or.inl hm
    · right
      simp [Shard.family, lookup_none_of_not_mem s.families fam hm, Family.empty]
  have h3 := inv2_flushAll (s.families.map Prod.fst) s h2
  constructor
  · intro fam md k b hm _
    have := hall fam
    change ((flushAll s (s.families.map Prod.fst)).family fam).mutable_ = some md at hm
    rw [this] at hm; cases hm
  · intro fam blk hb k hk
    exact h3.blocks fam blk hb k hk

theorem inv2_runOps : ∀ (ops : List Op) (s : Shard), Inv2 s → Inv2 (runOps s ops) := by
  intro ops
  induction ops with
  | nil => intro s h; exact h
  | cons op rest ih =>
    intro s h
    simp only [runOps, List.foldl_cons]
    apply ih
    cases op with
    | write tick fam ser fld ft slot v => exact inv2_write s h tick fam ser fld ft slot v
    | flush fam => exact inv2_flush s h fam
    | compact fam => exact inv2_compact s h fam
    | reopen => exact inv2_reopen s h

theorem inv2_init (w : Nat) (sch : List (Nat × FieldType)) : Inv2 { Shard.init w with fieldTypes := sch } := by
  constructor
  · intro fam md k b hm; simp [Shard.family, Shard.init, Map.lookup, Family.empty] at hm
  · intro fam blk hb; simp [Shard.family, Shard.init, Map.lookup, Family.empty, Family.readers] at hb

/-! ### one family -/

/-- the scope of the query covers the queried field and the series of the group (it is built
from all selected fields and all series that satisfy the condition). -/
def ScopeOK (q : Query) (sc : Scope) (group : List Nat) : Prop :=
  q.field ∈ sc.fields ∧ ∀ ser ∈ group, ser ∈ sc.series

theorem memCallsR_nil_of_filter_false (known : List Nat) (q : Query) (sc : Scope) (L : List AggType)
    (pages : List (PageKey × Buf)) (rng : Option (Nat × Nat)) (fam : Nat) (group : List Nat)
    (h : memFilterR known q sc pages rng fam = some false) : memCallsR q L pages rng fam group = [] := by
  unfold memFilterR at h
  unfold memCallsR
  cases ht : familyTarget q fam with
  | none => rfl
  | some tr =>
    obtain ⟨tLo, tHi⟩ := tr
    cases hr : rng with
    | none => rfl
    | some rg =>
      obtain ⟨lo, hi⟩ := rg
      rw [ht, hr] at h
      simp only at h ⊢
      by_cases hov : overlap lo hi tLo tHi = true
      · simp only [hov, if_true] at h
        split at h
        · cases h
        · split at h <;> cases h
      · simp [hov]

theorem memCalls_nil_of_filter_false (s : Shard) (q : Query) (sc : Scope) (L : List AggType) (md : MemDB) (fam : Nat)
    (group : List Nat) (h : memFilter s q sc md fam = some false) : memCalls s q L md fam group = [] :=
  memCallsR_nil_of_filter_false s.known q sc L md.pages _ fam group h

/-- pages whose filter answers not-found hold nothing for the group and the field. -/
theorem pagesView_none_of_filter_none (A : AggType) (known : List Nat) (q : Query) (sc : Scope) (group : List Nat)
    (hsc : q.field ∈ sc.fields ∧ ∀ ser ∈ group, ser ∈ sc.series)
    (pages : List (PageKey × Buf)) (hk : ∀ k b, Map.lookup pages k = some b → k.1 ∈ known)
    (rng : Option (Nat × Nat)) (fam : Nat)
    (hf : memFilterR known q sc pages rng fam = none) (ser : Nat) (hser : ser ∈ group) (slot : Nat) :
    pagesView A pages q.field ser slot = none := by
  unfold pagesView
  cases hp : Map.lookup pages (ser, q.field) with
  | none => rfl
  | some b =>
    exfalso
    unfold memFilterR at hf
    split at hf
    · split at hf
      · split at hf
        · rename_i hnf
          have hmem := mem_of_lookup pages (ser, q.field) b hp
          have : (sc.fields.any fun f => pages.any fun (p : PageKey × Buf) => decide (p.1.2 = f)) = true := by
            rw [List.any_eq_true]
            refine ⟨q.field, hsc.1, ?_⟩
            rw [List.any_eq_true]
            exact ⟨((ser, q.field), b), hmem, by simp⟩
          simp [this] at hnf
        · split at hf
          · rename_i hns
            have hk' := hk (ser, q.field) b hp
            have : (sc.series.any fun x => known.contains x) = true := by
              rw [List.any_eq_true]
              exact ⟨ser, hsc.2 ser hser, by simpa using hk'⟩
            rw [this] at hns
            simp at hns
          · cases hf
      · cases hf
    · cases hf

/-- a memory database whose filter answers not-found holds nothing for the group and the field. -/
theorem pageView_none_of_filter_none (s : Shard) (h2 : Inv2 s) (q : Query) (sc : Scope) (group : List Nat)
    (hsc : ScopeOK q sc group) (fam : Nat) (md : MemDB) (hm : (s.family fam).mutable_ = some md)
    (hf : memFilter s q sc md fam = none) (ser : Nat) (hser : ser ∈ group) (slot : Nat) :
    pageView s fam ser q.field slot = none := by
  rw [pageView_eq_pagesView s fam md hm]
  exact pagesView_none_of_filter_none _ s.known q sc group hsc md.pages
    (fun k b hk => h2.known fam md k b hm hk) _ fam hf ser hser slot

theorem memResult_fsum_gen (s : Shard) (pts : List Point) (hinv : Inv s pts) (h2 : Inv2 s) (q : Query) (F : AggType) {L : List AggType} (sc : Scope)
    (fam : Nat) (group : List Nat)
    (hsc : ScopeOK q sc group) (t : Nat)
    (hM : ∀ md, (s.family fam).mutable_ = some md →
      fsum F (memCalls s q L md fam group) (fun c => arrGet c F t) =
        famBucket F q fam t group (fun ser slot => pageView s fam ser q.field slot)) :
    ∃ mem, memResult s q sc L fam group = some mem ∧
      fsum F mem (fun c => arrGet c F t) =
        famBucket F q fam t group (fun ser slot => pageView s fam ser q.field slot) := by
  unfold memResult
  cases hm : (s.family fam).mutable_ with
  | none =>
    refine ⟨[], rfl, ?_⟩
    simp only [fsum_nil]
    symm
    apply famBucket_none
    intro ser slot _ _
    simp [pageView, hm]
  | some md =>
    simp only
    cases hf : memFilter s q sc md fam with
    | none =>
      have hni : s.cfg.notFoundIgnored = true := by rw [hinv.cfgFixed]; rfl
      simp only [hni, if_true]
      refine ⟨[], rfl, ?_⟩
      simp only [fsum_nil]
      symm
      unfold famBucket
      apply fsum_all_none
      intro ser hser
      apply fsum_all_none
      intro slot _
      have := pageView_none_of_filter_none s h2 q sc group hsc fam md hm hf ser hser slot
      simp [this]
    | some bb =>
      cases bb with
      | true => exact ⟨_, rfl, hM md hm⟩
      | false =>
        refine ⟨[], rfl, ?_⟩
        rw [← hM md hm,
          memCalls_nil_of_filter_false s q sc _ md fam group hf]

theorem memResult_fsum (s : Shard) (pts : List Point) (hinv : Inv s pts) (h2 : Inv2 s) (q : Query) {L : List AggType} (hL : L.Nodup) (hAL : s.fieldAgg q.field ∈ L) (sc : Scope)
    (hspf : 0 < q.spf) (hc : AggComm (s.fieldAgg q.field)) (fam : Nat) (group : List Nat)
    (hsc : ScopeOK q sc group) (t : Nat) :
    ∃ mem, memResult s q sc L fam group = some mem ∧
      fsum (s.fieldAgg q.field) mem (fun c => arrGet c (s.fieldAgg q.field) t) =
        famBucket (s.fieldAgg q.field) q fam t group (fun ser slot => pageView s fam ser q.field slot) :=
  memResult_fsum_gen s pts hinv h2 q _ sc fam group hsc t
    (fun md hm => memCalls_fsum s pts hinv q hL hAL hspf hc fam md hm group t)

/-- with not-found ignored the family's calls are the memory calls followed by the calls of the
matching readers. -/
theorem combineCalls_fsum (A : AggType) (sc : Scope) (mem : List Arrays) (readers : List Block)
    (callsOf : Block → List Arrays) (f : Arrays → Option Int) :
    fsum A (combineCalls true sc mem readers callsOf) f =
      ocomb A (fsum A mem f) (fsum A (readers.filter (blockMatches sc)) (fun blk => fsum A (callsOf blk) f)) := by
  unfold combineCalls
  cases hr : readers with
  | nil => simp [fsum_nil]
  | cons b0 rest =>
    simp only [List.isEmpty_cons, Bool.false_eq_true, if_false]
    cases hmt : (b0 :: rest).filter (blockMatches sc) with
    | nil => simp [fsum_nil]
    | cons m0 mrest =>
      simp only [List.isEmpty_cons, Bool.false_eq_true, if_false]
      rw [fsum_append, fsum_flatMap]

/-- a reader's cells for the group and the field, whether it matches the scope and lists the
field or not. -/
theorem fileCalls_fsum_any (s : Shard) (pts : List Point) (hinv : Inv s pts) (h2 : Inv2 s) (q : Query) {L : List AggType} (hL : L.Nodup) (sc : Scope)
    (A : AggType) (hAL : A ∈ L) (hspf : 0 < q.spf) (fam : Nat) (blk : Block) (hb : blk ∈ (s.family fam).readers)
    (group : List Nat) (t : Nat) :
    fsum A (fileCalls s q sc L blk fam group) (fun c => arrGet c A t) =
      famBucket A q fam t group (fun ser slot => blk.cell (ser, q.field) slot) := by
  have hsf : s.cfg.singleFieldByIndex = true := by rw [hinv.cfgFixed]; rfl
  by_cases hcont : blk.fields.contains q.field = true
  · exact fileCalls_fsum s q sc A hL hAL hspf blk fam (by simp only [blockSourceField, hsf, if_true, hcont]) group t
  · -- the block does not list the field: it holds no page of it
    have hcf : blk.fields.contains q.field = false := by
      cases h : blk.fields.contains q.field <;> simp_all
    have hsrc : blockSourceField s q sc blk = none := by
      simp only [blockSourceField, hsf, if_true, hcf, Bool.false_eq_true, if_false]
    have hnil : fileCalls s q sc L blk fam group = [] := by
      unfold fileCalls
      rw [hsrc]
      cases familyTarget q fam with
      | none => rfl
      | some tr => obtain ⟨a, b⟩ := tr; rfl
    rw [hnil, fsum_nil]
    symm
    apply famBucket_none
    intro ser slot _ _
    unfold Block.cell
    cases hp : Map.lookup blk.pages (ser, q.field) with
    | none => rfl
    | some cells =>
      exfalso
      have := (h2.blocks fam blk hb (ser, q.field) (mem_keys_of_lookup_some blk.pages _ cells hp)).1
      rw [List.contains_eq_mem] at hcf
      simp [this] at hcf

theorem familyCalls_fsum_raw (s : Shard) (pts : List Point) (hinv : Inv s pts) (h2 : Inv2 s) (q : Query) (F : AggType) {L : List AggType} (hL : L.Nodup) (hAL : F ∈ L) (sc : Scope)
    (hspf : 0 < q.spf) (fam : Nat) (group : List Nat)
    (hsc : ScopeOK q sc group) (t : Nat)
    (hM : ∀ md, (s.family fam).mutable_ = some md →
      fsum F (memCalls s q L md fam group) (fun c => arrGet c F t) =
        famBucket F q fam t group (fun ser slot => pageView s fam ser q.field slot)) :
    fsum F (familyCalls s q sc L fam group)
        (fun c => arrGet c F t) =
      ocomb F
        (famBucket F q fam t group (fun ser slot => pageView s fam ser q.field slot))
        (fsum F (s.family fam).readers
          (fun blk => famBucket F q fam t group (fun ser slot => blk.cell (ser, q.field) slot))) := by
  obtain ⟨mem, hmemEq, hmemSum⟩ := memResult_fsum_gen s pts hinv h2 q F sc fam group hsc t hM
  have hni : s.cfg.notFoundIgnored = true := by rw [hinv.cfgFixed]; rfl
  unfold familyCalls
  rw [hmemEq, hni]
  simp only
  rw [combineCalls_fsum, hmemSum]
  -- the matching overlapping readers → all readers
  have hfiles : fsum F ((familyReaders s q fam).filter (blockMatches sc))
      (fun blk => fsum F (fileCalls s q sc L blk fam group)
        (fun c => arrGet c F t)) =
      fsum F (s.family fam).readers
        (fun blk => famBucket F q fam t group (fun ser slot => blk.cell (ser, q.field) slot)) := by
    have hsub : ∀ blk ∈ familyReaders s q fam, blk ∈ (s.family fam).readers := by
      intro blk hb
      unfold familyReaders at hb
      cases ht : familyTarget q fam with
      | none => rw [ht] at hb; simp at hb
      | some tr =>
        obtain ⟨tLo, tHi⟩ := tr
        rw [ht] at hb
        simp only at hb
        exact (List.mem_filter.mp hb).1
    have h1 : fsum F ((familyReaders s q fam).filter (blockMatches sc))
        (fun blk => fsum F (fileCalls s q sc L blk fam group)
          (fun c => arrGet c F t)) =
        fsum F ((familyReaders s q fam).filter (blockMatches sc))
          (fun blk => famBucket F q fam t group (fun ser slot => blk.cell (ser, q.field) slot)) := by
      apply fsum_congr
      intro blk hb
      exact fileCalls_fsum_any s pts hinv h2 q hL sc _ hAL hspf fam blk (hsub blk (List.mem_filter.mp hb).1) group t
    rw [h1]
    -- a reader that does not match the scope holds nothing for the group and the field
    rw [fsum_filter _ _ (blockMatches sc) _ (by
      intro blk hb hnm
      have hbr := hsub blk hb
      unfold famBucket
      apply fsum_all_none
      intro ser hser
      apply fsum_all_none
      intro slot _
      have hcell : blk.cell (ser, q.field) slot = none := by
        unfold Block.cell
        cases hp : Map.lookup blk.pages (ser, q.field) with
        | none => rfl
        | some cells =>
          exfalso
          obtain ⟨hf, hs⟩ := h2.blocks fam blk hbr (ser, q.field) (mem_keys_of_lookup_some blk.pages _ cells hp)
          have hmatch : blockMatches sc blk = true := by
            unfold blockMatches
            rw [Bool.and_eq_true, List.any_eq_true, List.any_eq_true]
            exact ⟨⟨q.field, hsc.1, by simpa using hf⟩, ⟨ser, hsc.2 ser hser, by simpa using hs⟩⟩
          rw [hmatch] at hnm
          cases hnm
      simp [hcell])]
    -- readers that do not overlap the query range hold nothing in it
    unfold familyReaders
    cases ht : familyTarget q fam with
    | none =>
      simp only [fsum_nil]
      symm
      apply fsum_all_none
      intro blk _
      apply famBucket_none
      intro ser slot hs hbk
      rw [bucketOf_none_of_target_none q fam slot ht hs] at hbk
      cases hbk
    | some tr =>
      obtain ⟨tLo, tHi⟩ := tr
      simp only
      apply fsum_filter
      intro blk _ hov
      exact block_nonoverlap_none _ q fam tLo tHi t blk group q.field ht hov
  rw [hfiles]

/-- one family, commutative aggregate: memory and files in any order. -/
theorem familyCalls_fsum (s : Shard) (pts : List Point) (hinv : Inv s pts) (h2 : Inv2 s) (q : Query) {L : List AggType} (hL : L.Nodup) (hAL : s.fieldAgg q.field ∈ L) (sc : Scope)
    (hspf : 0 < q.spf) (hc : AggComm (s.fieldAgg q.field)) (fam : Nat) (group : List Nat)
    (hsc : ScopeOK q sc group) (t : Nat) :
    fsum (s.fieldAgg q.field) (familyCalls s q sc L fam group)
        (fun c => arrGet c (s.fieldAgg q.field) t) =
      famBucket (s.fieldAgg q.field) q fam t group (fun ser slot => storeView s fam ser q.field slot) := by
  rw [familyCalls_fsum_raw s pts hinv h2 q _ hL hAL sc hspf fam group hsc t
    (fun md hm => memCalls_fsum s pts hinv q hL hAL hspf hc fam md hm group t)]
  rw [famBucket_fsum hc, famBucket_add hc]
  apply famBucket_congr
  intro ser slot _ _
  unfold storeView
  rw [readers_eq_chron hc]
  exact ocomb_comm hc _ _

/-! ### all families, and the reference in the same form -/

theorem leafGroup_eq_fsum (s : Shard) (pts : List Point) (hinv : Inv s pts) (h2 : Inv2 s) (q : Query) {L : List AggType} (hL : L.Nodup) (hAL : s.fieldAgg q.field ∈ L) (sc : Scope)
    (hspf : 0 < q.spf) (hc : AggComm (s.fieldAgg q.field)) (fams group : List Nat) (hsc : ScopeOK q sc group) (t : Nat) :
    arrGet (leafGroup s q sc L fams group) (s.fieldAgg q.field) t =
      fsum (s.fieldAgg q.field) group (fun ser => fsum (s.fieldAgg q.field) fams (fun fam =>
        fsum (s.fieldAgg q.field) (List.range q.spf) (fun slot =>
          if bucketOf q fam slot = some t then storeView s fam ser q.field slot else none))) := by
  unfold leafGroup
  have hab : s.cfg.aggregateByType = true := by rw [hinv.cfgFixed]; rfl
  rw [hab]
  simp only [if_true]
  rw [reduce_spec L hL _ hAL _ (by
    intro c hcm
    rw [List.mem_flatMap] at hcm
    obtain ⟨fam, _, hf⟩ := hcm
    exact familyCalls_wf s q sc L hL fam group c hf) t]
  rw [fsum_flatMap]
  have h1 : fsum (s.fieldAgg q.field) fams (fun fam =>
      fsum (s.fieldAgg q.field) (familyCalls s q sc L fam group)
        (fun c => arrGet c (s.fieldAgg q.field) t)) =
      fsum (s.fieldAgg q.field) fams (fun fam =>
        famBucket (s.fieldAgg q.field) q fam t group (fun ser slot => storeView s fam ser q.field slot)) := by
    apply fsum_congr
    intro fam _
    exact familyCalls_fsum s pts hinv h2 q hL hAL sc hspf hc fam group hsc t
  rw [h1]
  unfold famBucket
  exact fsum_swap hc fams group _

theorem naiveSeriesFamily_eq (q : Query) (ps : List Point) (ser fam t : Nat) (acc : Option Int) :
    naiveSeriesFamily q ps ser fam t acc =
      ocomb q.funcAgg acc (fsum q.funcAgg (List.range q.spf) (fun slot =>
        if bucketOf q fam slot = some t then refCell q.fieldAgg ps fam ser q.field slot else none)) := by
  unfold naiveSeriesFamily
  rw [← foldl_ocomb_acc]
  congr 1
  funext acc slot
  by_cases hb : bucketOf q fam slot = some t <;> simp [hb]

theorem naiveBucket_eq_fsum (q : Query) (ps : List Point) (group fams : List Nat) (t : Nat) :
    naiveBucket q ps group fams t =
      fsum q.funcAgg group (fun ser => fsum q.funcAgg fams (fun fam =>
        fsum q.funcAgg (List.range q.spf) (fun slot =>
          if bucketOf q fam slot = some t then refCell q.fieldAgg ps fam ser q.field slot else none))) := by
  unfold naiveBucket
  have hin : ∀ (ser : Nat) (acc : Option Int),
      fams.foldl (fun acc fam => naiveSeriesFamily q ps ser fam t acc) acc =
        ocomb q.funcAgg acc (fsum q.funcAgg fams (fun fam =>
          fsum q.funcAgg (List.range q.spf) (fun slot =>
            if bucketOf q fam slot = some t then refCell q.fieldAgg ps fam ser q.field slot else none))) := by
    intro ser acc
    rw [← foldl_ocomb_acc]
    congr 1
    funext acc fam
    exact naiveSeriesFamily_eq q ps ser fam t acc
  have : (fun acc ser => fams.foldl (fun acc fam => naiveSeriesFamily q ps ser fam t acc) acc) =
      (fun acc ser => ocomb q.funcAgg acc (fsum q.funcAgg fams (fun fam =>
          fsum q.funcAgg (List.range q.spf) (fun slot =>
            if bucketOf q fam slot = some t then refCell q.fieldAgg ps fam ser q.field slot else none)))) := by
    funext acc ser
    exact hin ser acc
  rw [this, foldl_ocomb_acc]
  simp

/-! ### a flush in progress -/

/-- the overlapping ones of a list of readers. -/
def overlapOf (q : Query) (fam : Nat) (rs : List Block) : List Block :=
  match familyTarget q fam with
  | some (tLo, tHi) => rs.filter (fun (blk : Block) => overlap blk.lo blk.hi tLo tHi)
  | none => []

/-- the calls of the matching overlapping ones of some of the family's readers = the bucket folds
of all of them. -/
theorem readersCalls_fsum (s : Shard) (pts : List Point) (hinv : Inv s pts) (h2 : Inv2 s) (q : Query) {L : List AggType} (hL : L.Nodup) (hAL : s.fieldAgg q.field ∈ L) (sc : Scope)
    (hspf : 0 < q.spf) (fam : Nat) (group : List Nat) (hsc : ScopeOK q sc group) (t : Nat)
    (rs : List Block) (hsubr : ∀ blk ∈ rs, blk ∈ (s.family fam).readers) :
    fsum (s.fieldAgg q.field) ((overlapOf q fam rs).filter (blockMatches sc))
      (fun blk => fsum (s.fieldAgg q.field) (fileCalls s q sc L blk fam group)
        (fun c => arrGet c (s.fieldAgg q.field) t)) =
    fsum (s.fieldAgg q.field) rs
      (fun blk => famBucket (s.fieldAgg q.field) q fam t group (fun ser slot => blk.cell (ser, q.field) slot)) := by
  have hsub : ∀ blk ∈ overlapOf q fam rs, blk ∈ (s.family fam).readers := by
    intro blk hb
    unfold overlapOf at hb
    cases ht : familyTarget q fam with
    | none => rw [ht] at hb; simp at hb
    | some tr =>
      obtain ⟨tLo, tHi⟩ := tr
      rw [ht] at hb
      simp only at hb
      exact hsubr blk (List.mem_filter.mp hb).1
  have h1 : fsum (s.fieldAgg q.field) ((overlapOf q fam rs).filter (blockMatches sc))
      (fun blk => fsum (s.fieldAgg q.field) (fileCalls s q sc L blk fam group)
        (fun c => arrGet c (s.fieldAgg q.field) t)) =
      fsum (s.fieldAgg q.field) ((overlapOf q fam rs).filter (blockMatches sc))
        (fun blk => famBucket (s.fieldAgg q.field) q fam t group (fun ser slot => blk.cell (ser, q.field) slot)) := by
    apply fsum_congr
    intro blk hb
    exact fileCalls_fsum_any s pts hinv h2 q hL sc _ hAL hspf fam blk (hsub blk (List.mem_filter.mp hb).1) group t
  rw [h1]
  rw [fsum_filter _ _ (blockMatches sc) _ (by
    intro blk hb hnm
    have hbr := hsub blk hb
    unfold famBucket
    apply fsum_all_none
    intro ser hser
    apply fsum_all_none
    intro slot _
    have hcell : blk.cell (ser, q.field) slot = none := by
      unfold Block.cell
      cases hp : Map.lookup blk.pages (ser, q.field) with
      | none => rfl
      | some cells =>
        exfalso
        obtain ⟨hf, hs⟩ := h2.blocks fam blk hbr (ser, q.field) (mem_keys_of_lookup_some blk.pages _ cells hp)
        have hmatch : blockMatches sc blk = true := by
          unfold blockMatches
          rw [Bool.and_eq_true, List.any_eq_true, List.any_eq_true]
          exact ⟨⟨q.field, hsc.1, by simpa using hf⟩, ⟨ser, hsc.2 ser hser, by simpa using hs⟩⟩
        rw [hmatch] at hnm
        cases hnm
    simp [hcell])]
  unfold overlapOf
  cases ht : familyTarget q fam with
  | none =>
    simp only [fsum_nil]
    symm
    apply fsum_all_none
    intro blk _
    apply famBucket_none
    intro ser slot hs hbk
    rw [bucketOf_none_of_target_none q fam slot ht hs] at hbk
    cases hbk
  | some tr =>
    obtain ⟨tLo, tHi⟩ := tr
    simp only
    apply fsum_filter
    intro blk _ hov
    exact block_nonoverlap_none _ q fam tLo tHi t blk group q.field ht hov

/-- the immutable memory database's result sets = bucket fold of its pages' views. -/
theorem immResult_fsum {w : Nat} (s : Shard) (hcfg : s.cfg = Cfg.fixed) (q : Query) {L : List AggType} (hL : L.Nodup) (hAL : s.fieldAgg q.field ∈ L) (sc : Scope) (hspf : 0 < q.spf)
    (hc : AggComm (s.fieldAgg q.field)) (W : Window) (lo hi : Nat) (hrng : W.rng = some (lo, hi))
    (hb : ∀ ser b, Map.lookup W.imm.pages (ser, q.field) = some b →
      BufInv w b ∧ ∀ t, memView (s.fieldAgg q.field) b t ≠ none → lo ≤ t ∧ t ≤ hi)
    (hk : ∀ k b, Map.lookup W.imm.pages k = some b → k.1 ∈ s.known)
    (group : List Nat) (hsc : ScopeOK q sc group) (t : Nat) :
    ∃ imm, immResult s q sc L W group = some imm ∧
      (∀ c ∈ imm, WFL L c) ∧
      fsum (s.fieldAgg q.field) imm (fun c => arrGet c (s.fieldAgg q.field) t) =
        famBucket (s.fieldAgg q.field) q W.fam t group
          (fun ser slot => pagesView (s.fieldAgg q.field) W.imm.pages q.field ser slot) := by
  unfold immResult
  cases hf : memFilterR s.known q sc W.imm.pages W.rng W.fam with
  | none =>
    have hni : s.cfg.notFoundIgnored = true := by rw [hcfg]; rfl
    simp only [hni, if_true]
    refine ⟨[], rfl, by simp, ?_⟩
    simp only [fsum_nil]
    symm
    unfold famBucket
    apply fsum_all_none
    intro ser hser
    apply fsum_all_none
    intro slot _
    have := pagesView_none_of_filter_none (s.fieldAgg q.field) s.known q sc group hsc W.imm.pages hk W.rng W.fam hf ser hser slot
    simp [this]
  | some bb =>
    cases bb with
    | true =>
      refine ⟨_, rfl, memCallsR_wf q L hL W.imm.pages W.rng W.fam group, ?_⟩
      rw [hrng]
      exact memCallsR_fsum (w := w) _ hL hAL hc q hspf W.imm.pages lo hi hb W.fam group t
    | false =>
      refine ⟨[], rfl, by simp, ?_⟩
      have hnil := memCallsR_nil_of_filter_false s.known q sc L W.imm.pages W.rng W.fam group hf
      rw [← memCallsR_fsum (w := w) _ hL hAL hc q hspf W.imm.pages lo hi hb W.fam group t, ← hrng, hnil]

/-- the family that is being flushed: its calls in the window = the bucket fold of the shard's
abstraction once the file is committed. `blk` is the block being written (the last level-0 file
of the completed state), whose cells are the immutable memory database's views. -/
theorem familyCallsW_fsum {w : Nat} (s : Shard) (pts : List Point) (hinv : Inv s pts) (h2 : Inv2 s) (q : Query) {L : List AggType} (hL : L.Nodup) (hAL : s.fieldAgg q.field ∈ L)
    (sc : Scope) (hspf : 0 < q.spf) (hc : AggComm (s.fieldAgg q.field)) (W : Window) (lo hi : Nat)
    (hrng : W.rng = some (lo, hi))
    (hb : ∀ ser b, Map.lookup W.imm.pages (ser, q.field) = some b →
      BufInv w b ∧ ∀ t, memView (s.fieldAgg q.field) b t ≠ none → lo ≤ t ∧ t ≤ hi)
    (hk : ∀ k b, Map.lookup W.imm.pages k = some b → k.1 ∈ s.known)
    (fs : List Block) (blk : Block) (hfiles : (s.family W.fam).files = fs ++ [blk])
    (hblk : ∀ ser slot, blk.cell (ser, q.field) slot = pagesView (s.fieldAgg q.field) W.imm.pages q.field ser slot)
    (group : List Nat) (hsc : ScopeOK q sc group) (t : Nat) :
    (∀ c ∈ familyCallsW s q sc L W group, WFL L c) ∧
    fsum (s.fieldAgg q.field) (familyCallsW s q sc L W group)
        (fun c => arrGet c (s.fieldAgg q.field) t) =
      famBucket (s.fieldAgg q.field) q W.fam t group (fun ser slot => storeView s W.fam ser q.field slot) := by
  obtain ⟨mem, hmemEq, hmemSum⟩ := memResult_fsum s pts hinv h2 q hL hAL sc hspf hc W.fam group hsc t
  obtain ⟨imm, himmEq, himmWF, himmSum⟩ := immResult_fsum (w := w) s hinv.cfgFixed q hL hAL sc hspf hc W lo hi hrng hb hk group hsc t
  have hni : s.cfg.notFoundIgnored = true := by rw [hinv.cfgFixed]; rfl
  have hmemWF := memResult_wf s q sc L hL W.fam group mem hmemEq
  -- the committed readers
  have hrs : windowReaders s q W.fam = overlapOf q W.fam (fs ++ (match (s.family W.fam).base with | some b => [b] | none => [])) := by
    unfold windowReaders overlapOf
    simp only [Family.readers, hfiles, List.dropLast_concat]
    cases familyTarget q W.fam with
    | none => rfl
    | some tr => rfl
  have hsubr : ∀ b' ∈ fs ++ (match (s.family W.fam).base with | some b => [b] | none => []), b' ∈ (s.family W.fam).readers := by
    intro b' hb'
    simp only [Family.readers, hfiles, List.mem_append] at hb' ⊢
    rcases hb' with h | h
    · exact Or.inl (Or.inl h)
    · exact Or.inr h
  unfold familyCallsW
  rw [hmemEq, himmEq, hni]
  simp only
  constructor
  · intro c hcm
    unfold combineCalls at hcm
    have hmi : ∀ c ∈ mem ++ imm, WFL L c := by
      intro c hc'
      rcases List.mem_append.mp hc' with h | h
      · exact hmemWF c h
      · exact himmWF c h
    split at hcm
    · exact hmi c hcm
    · split at hcm
      · simp only [if_true] at hcm; exact hmi c hcm
      · rcases List.mem_append.mp hcm with h | h
        · exact hmi c h
        · rw [List.mem_flatMap] at h
          obtain ⟨b', _, hb'⟩ := h
          exact fileCalls_wf s q sc L hL b' W.fam group c hb'
  · rw [combineCalls_fsum, fsum_append, hmemSum, himmSum, hrs,
      readersCalls_fsum s pts hinv h2 q hL hAL sc hspf W.fam group hsc t _ hsubr]
    rw [famBucket_fsum hc, famBucket_add hc, famBucket_add hc]
    apply famBucket_congr
    intro ser slot _ _
    unfold storeView
    rw [filesView_eq_fsum]
    simp only [Family.chron, hfiles]
    rw [← List.append_assoc, fsum_append, fsum_append, fsum_append]
    simp only [fsum_cons, fsum_nil, ocomb_none_right]
    rw [hblk ser slot]
    -- rearrange: (page ⊕ imm) ⊕ (fs ⊕ base)  =  ((base ⊕ fs) ⊕ imm) ⊕ page
    generalize pageView s W.fam ser q.field slot = P
    generalize pagesView (s.fieldAgg q.field) W.imm.pages q.field ser slot = I
    generalize fsum (s.fieldAgg q.field) fs (fun b' => b'.cell (ser, q.field) slot) = F
    generalize fsum (s.fieldAgg q.field) (match (s.family W.fam).base with | some b => [b] | none => [])
      (fun b' => b'.cell (ser, q.field) slot) = B
    rw [ocomb_comm hc (ocomb (s.fieldAgg q.field) (ocomb (s.fieldAgg q.field) B F) I) P]
    rw [ocomb_comm hc B F, ocomb_assoc, ocomb_comm hc I (ocomb (s.fieldAgg q.field) F B)]

def Op.isWrite : Op → Bool
  | .write .. => true
  | _ => false

theorem runOps_append (s : Shard) (a b : List Op) : runOps s (a ++ b) = runOps (runOps s a) b := by
  simp [runOps, List.foldl_append]

theorem goodOps_append : ∀ (a b : List Op) (s : Shard),
    goodOps s (a ++ b) = (goodOps s a && goodOps (runOps s a) b) := by
  intro a
  induction a with
  | nil => intro b s; simp [goodOps, runOps]
  | cons x rest ih =>
    intro b s
    simp only [List.cons_append, goodOps, ih, runOps, List.foldl_cons, Bool.and_assoc]

/-- writes leave the files of every family alone and only add to the known series. -/
theorem writes_keep_files : ∀ (during : List Op) (s : Shard), (∀ op ∈ during, Op.isWrite op = true) →
    (∀ fam, ((runOps s during).family fam).files = (s.family fam).files ∧
            ((runOps s during).family fam).base = (s.family fam).base) ∧
    (∀ x, x ∈ s.known → x ∈ (runOps s during).known) := by
  intro during
  induction during with
  | nil => intro s _; exact ⟨fun _ => ⟨rfl, rfl⟩, fun _ h => h⟩
  | cons op rest ih =>
    intro s hall
    have hop := hall op (by simp)
    cases op with
    | write tick fam ser fld ft slot v =>
      obtain ⟨h1, h2⟩ := ih (s.write tick fam ser fld ft slot v) (fun o ho => hall o (by simp [ho]))
      simp only [runOps, List.foldl_cons, applyOp] at h1 h2 ⊢
      constructor
      · intro fam2
        obtain ⟨a, b⟩ := h1 fam2
        rw [a, b]
        by_cases hf : fam = fam2
        · subst hf; rw [write_family_self]; exact ⟨rfl, rfl⟩
        · rw [write_family_ne s tick fam ser fld ft slot v fam2 hf]; exact ⟨rfl, rfl⟩
      · intro x hx
        exact h2 x (write_known_mono s tick fam ser fld ft slot v x (Or.inl hx))
    | flush fam => simp [Op.isWrite] at hop
    | compact fam => simp [Op.isWrite] at hop
    | reopen => simp [Op.isWrite] at hop

/-- the cells of the block a flush writes are the views of the flushed pages. -/
theorem flushBlock_cell (s : Shard) (hcfg : s.cfg = Cfg.fixed) (md : MemDB) (lo hi : Nat)
    (hr : Map.lookup s.ranges md.created = some (lo, hi))
    (hb : ∀ k b, Map.lookup md.pages k = some b →
      BufInv s.window b ∧ ∀ t, memView (s.fieldAgg k.2) b t ≠ none → lo ≤ t ∧ t ≤ hi)
    (blk : Block) (hblk : flushMemDB s md = some blk) (ser fld slot : Nat) :
    blk.cell (ser, fld) slot = pagesView (s.fieldAgg fld) md.pages fld ser slot := by
  have hfc : flushCellsV s.cfg = flushCells := by rw [hcfg]; exact flushCellsV_fixed Cfg.fixed rfl
  simp only [flushMemDB, hr, hfc, Option.some.injEq] at hblk
  subst hblk
  unfold Block.cell pagesView
  simp only
  rw [lookup_map_val md.pages (fun k b => flushCells (s.fieldAgg k.2) b lo hi) (ser, fld)]
  cases hp : Map.lookup md.pages (ser, fld) with
  | none => rfl
  | some b =>
    simp only [Option.map_some]
    obtain ⟨hbi, hbc⟩ := hb (ser, fld) b hp
    exact flushCell_eq_memView (s.fieldAgg fld) hbi lo hi slot hbc

theorem leafGroupW_eq_fsum {w : Nat} (s : Shard) (pts : List Point) (hinv : Inv s pts) (h2 : Inv2 s) (q : Query) {L : List AggType} (hL : L.Nodup) (hAL : s.fieldAgg q.field ∈ L)
    (sc : Scope) (hspf : 0 < q.spf) (hc : AggComm (s.fieldAgg q.field)) (W : Window) (lo hi : Nat)
    (hrng : W.rng = some (lo, hi))
    (hb : ∀ ser b, Map.lookup W.imm.pages (ser, q.field) = some b →
      BufInv w b ∧ ∀ t, memView (s.fieldAgg q.field) b t ≠ none → lo ≤ t ∧ t ≤ hi)
    (hk : ∀ k b, Map.lookup W.imm.pages k = some b → k.1 ∈ s.known)
    (fs : List Block) (blk : Block) (hfiles : (s.family W.fam).files = fs ++ [blk])
    (hblk : ∀ ser slot, blk.cell (ser, q.field) slot = pagesView (s.fieldAgg q.field) W.imm.pages q.field ser slot)
    (fams group : List Nat) (hsc : ScopeOK q sc group) (t : Nat) :
    arrGet (leafGroupW s q sc L W fams group) (s.fieldAgg q.field) t =
      fsum (s.fieldAgg q.field) group (fun ser => fsum (s.fieldAgg q.field) fams (fun fam =>
        fsum (s.fieldAgg q.field) (List.range q.spf) (fun slot =>
          if bucketOf q fam slot = some t then storeView s fam ser q.field slot else none))) := by
  have hW := familyCallsW_fsum (w := w) s pts hinv h2 q hL hAL sc hspf hc W lo hi hrng hb hk fs blk hfiles hblk group hsc
  unfold leafGroupW
  have hab : s.cfg.aggregateByType = true := by rw [hinv.cfgFixed]; rfl
  rw [hab]
  simp only [if_true]
  rw [reduce_spec L hL _ hAL _ (by
    intro c hcm
    rw [List.mem_flatMap] at hcm
    obtain ⟨fam, _, hf⟩ := hcm
    split at hf
    · exact (hW t).1 c hf
    · exact familyCalls_wf s q sc L hL fam group c hf) t]
  rw [fsum_flatMap]
  have h1 : fsum (s.fieldAgg q.field) fams (fun fam =>
      fsum (s.fieldAgg q.field)
        (if fam = W.fam then familyCallsW s q sc L W group
          else familyCalls s q sc L fam group)
        (fun c => arrGet c (s.fieldAgg q.field) t)) =
      fsum (s.fieldAgg q.field) fams (fun fam =>
        famBucket (s.fieldAgg q.field) q fam t group (fun ser slot => storeView s fam ser q.field slot)) := by
    apply fsum_congr
    intro fam _
    by_cases hf : fam = W.fam
    · simp only [hf, if_true]
      exact (hW t).2
    · simp only [hf, if_false]
      exact familyCalls_fsum s pts hinv h2 q hL hAL sc hspf hc fam group hsc t
  rw [h1]
  unfold famBucket
  exact fsum_swap hc fams group _

end LinVerif.Lemmas.C11
