/-
C05 helper lemmas, part 9: the live-page lists of the queue model never hold a page id twice
(they are the key sets of the factories' maps) — preserved by every primitive and hence by every
operation of the sequential alphabet. This makes the factory refinement (`C05Fct`) apply to
every reachable state.
-/
import LinVerif.Lemmas.C05Part

namespace LinVerif.Queue

def LiveOK (mem : Mem) : Prop := mem.dataLive.Nodup ∧ mem.indexLive.Nodup

theorem liveOK_ite {c : Prop} [Decidable c] {a b : Mem} (h1 : LiveOK a) (h2 : LiveOK b) :
    LiveOK (if c then a else b) := by
  split
  · exact h1
  · exact h2

theorem liveOK_acquireData {mem : Mem} (h : LiveOK mem) (pg : Nat) : LiveOK (acquireData mem pg) := by
  unfold acquireData; split
  · exact h
  · rename_i hn; exact ⟨List.nodup_cons.mpr ⟨hn, h.1⟩, h.2⟩

theorem liveOK_acquireIndex {mem : Mem} (h : LiveOK mem) (pg : Nat) : LiveOK (acquireIndex mem pg) := by
  unfold acquireIndex; split
  · exact h
  · rename_i hn; exact ⟨h.1, List.nodup_cons.mpr ⟨hn, h.2⟩⟩

theorem liveOK_setIndex {mem : Mem} (h : LiveOK mem) (pg off v : Nat) : LiveOK (setIndex mem pg off v) :=
  ⟨h.1, h.2⟩

theorem liveOK_setMeta {mem : Mem} (h : LiveOK mem) (off : Nat) (v : Int) : LiveOK (setMeta mem off v) :=
  ⟨h.1, h.2⟩

theorem liveOK_writeData {mem : Mem} (h : LiveOK mem) (pg off : Nat) (m : Msg) (k : Nat) :
    LiveOK (writeData mem pg off m k) := ⟨h.1, h.2⟩

theorem liveOK_truncateData {mem : Mem} (h : LiveOK mem) (b : Nat) : LiveOK (truncateData mem b) :=
  ⟨h.1.filter _, h.2⟩

theorem liveOK_truncateIndex {mem : Mem} (h : LiveOK mem) (b : Nat) : LiveOK (truncateIndex mem b) :=
  ⟨h.1, h.2.filter _⟩

theorem liveOK_alloc {mem : Mem} (h : LiveOK mem) (q : Q) (len : Nat) : LiveOK (alloc mem q len).mem := by
  unfold alloc; split
  · exact liveOK_acquireData h _
  · exact h

theorem liveOK_persistStores {mem : Mem} (h : LiveOK mem) (q : Q) (pg off len j : Nat) :
    LiveOK (persistStores mem q pg off len j) := by
  unfold persistStores
  dsimp only
  have ha := liveOK_acquireIndex h (nextSeq q / indexItemsPerPage)
  repeat' split
  all_goals first | exact ⟨h.1, h.2⟩ | exact ⟨ha.1, ha.2⟩

theorem liveOK_putStores {a : Alloc} (h : LiveOK a.mem) (m : Msg) (k : Nat) : LiveOK (putStores a m k) := by
  unfold putStores; split
  · exact liveOK_writeData h _ _ _ _
  · exact liveOK_persistStores (liveOK_writeData h _ _ _ _) _ _ _ _ _

theorem liveOK_put {st : St} (h : LiveOK st.mem) (m : Msg) : LiveOK (put st m).1.mem := by
  unfold put; split
  · exact h
  · exact liveOK_putStores (liveOK_alloc h _ _) _ _

theorem liveOK_initDataPageIndex {mem : Mem} (h : LiveOK mem) (a k : Int) : LiveOK (initDataPageIndex mem a k).mem := by
  unfold initDataPageIndex; split
  · exact liveOK_acquireIndex (liveOK_acquireData h _) _
  · exact liveOK_acquireData (liveOK_acquireIndex h _) _

theorem liveOK_openQ {mem : Mem} (h : LiveOK mem) : LiveOK (openQ mem).mem := by
  unfold openQ; split
  · exact liveOK_initDataPageIndex h _ _
  · have h' : LiveOK (setMeta (setMeta { mem with hasMeta := true } queueAppendedSeqOffset (-1))
        queueAcknowledgedSeqOffset (-1)) := ⟨h.1, h.2⟩
    exact liveOK_initDataPageIndex h' _ _

theorem liveOK_step {st : St} (h : LiveOK st.mem) (op : Op) : LiveOK (step st op).mem := by
  cases op with
  | put m => exact liveOK_put h m
  | get s => exact h
  | ack s =>
    show LiveOK (ack st s).mem
    unfold ack; split
    · exact liveOK_setMeta h _ _
    · exact h
  | gc =>
    show LiveOK (gc st).mem
    unfold gc; split
    · exact h
    · dsimp only; split
      · exact h
      · exact liveOK_truncateIndex (liveOK_truncateData h _) _
  | reopen => exact liveOK_openQ h
  | crashPut m k =>
    show LiveOK (crashPut st m k).mem
    unfold crashPut; split
    · exact liveOK_openQ h
    · exact liveOK_openQ (liveOK_putStores (liveOK_alloc h _ _) _ _)
  | putFail m =>
    show LiveOK (putF st m).1.mem
    unfold putF; split
    · exact h
    · split
      · exact h
      · exact liveOK_put h m
  | setAppended s => exact liveOK_setMeta (liveOK_setMeta h _ _) _ _
  | putFailIdx m =>
    show LiveOK (putFI st m).1.mem
    unfold putFI; split
    · exact h
    · dsimp only; split
      · exact liveOK_writeData (liveOK_alloc h _ _) _ _ _ _
      · exact liveOK_put h m

theorem liveOK_init : LiveOK St.init.mem := by
  apply liveOK_openQ
  exact ⟨List.nodup_nil, List.nodup_nil⟩

theorem liveOK_run {st : St} (h : LiveOK st.mem) (ops : List Op) : LiveOK (run st ops).mem := by
  induction ops generalizing st with
  | nil => exact h
  | cons op ops ih => exact ih (liveOK_step h op)

end LinVerif.Queue
