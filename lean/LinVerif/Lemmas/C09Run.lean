/-
C09, sequential histories of the whole node: the invariant, what one operation does to the views of
all six kinds of names, and the run-level consequences used by Props/C09.
-/
import LinVerif.Lemmas.C09Node
import LinVerif.Lemmas.C09Shard

namespace LinVerif.IdAssign

structure NodeInv (nd : Node) : Prop where
  md : MetaInv nd
  sh : ∀ k, ShardInv (nd.shards k)

/-- a name of any kind with its scope -/
inductive NameKey
  | md (k : MetaKey)
  | series (shard m ts : Nat)   -- scope: shard and metric id; `ts` = the tag set (its hash)
  deriving DecidableEq, Repr

def Node.view (nd : Node) : NameKey → Option Nat
  | .md k => nd.mview k
  | .series sh m ts => (nd.shards sh).series.lookup m ts

def NameKey.sameScope : NameKey → NameKey → Prop
  | .md k, .md k' => k.sameScope k'
  | .series sh m _, .series sh' m' _ => sh = sh' ∧ m = m'
  | _, _ => False

def Mono (nd nd' : Node) : Prop := ∀ k i, nd.view k = some i → nd'.view k = some i

theorem Mono.refl (nd : Node) : Mono nd nd := fun _ _ h => h
theorem Mono.trans {a b c : Node} (h1 : Mono a b) (h2 : Mono b c) : Mono a c := fun k i h => h2 k i (h1 k i h)

theorem mono_of {nd nd' : Node} (hm : MonoMeta nd nd')
    (hs : ∀ sh m ts i, (nd.shards sh).series.lookup m ts = some i → (nd'.shards sh).series.lookup m ts = some i) :
    Mono nd nd' := by
  intro k i h
  cases k with
  | md k => exact hm k i h
  | series sh m ts => exact hs sh m ts i h

theorem nodeInv_init (lim : Limits) (n : Nat) : NodeInv { lim := lim, nShards := n } :=
  ⟨metaInv_init lim n, fun _ => shardInv_init⟩

theorem view_inj {nd : Node} (inv : NodeInv nd) {k k' : NameKey} {i : Nat} (hs : k.sameScope k')
    (h1 : nd.view k = some i) (h2 : nd.view k' = some i) : k = k' := by
  cases k with
  | md a =>
    cases k' with
    | md b => rw [mview_inj inv.md hs h1 h2]
    | series _ _ _ => cases hs
  | series sh m ts =>
    cases k' with
    | md _ => cases hs
    | series sh' m' ts' =>
      obtain ⟨rfl, rfl⟩ := hs
      rw [(inv.sh sh).inj _ _ _ _ h1 h2]

/-! ### the series part of a shard is all that `ShardInv` talks about -/

theorem shardInv_congr {s s' : Shard} (h1 : s'.series = s.series) (h2 : s'.seqCache = s.seqCache) (h3 : s'.minv = s.minv)
    (inv : ShardInv s) : ShardInv s' := by
  exact shardInv_of_parts h1 h2 h3 inv

theorem buildInverted_shards (c : Cfg) (shard m sid : Nat) (tags : List (Nat × Nat)) :
    ∀ nd : Node, ∀ k, ((Node.buildInverted c shard m sid nd tags).shards k).series = (nd.shards k).series ∧
      ((Node.buildInverted c shard m sid nd tags).shards k).seqCache = (nd.shards k).seqCache ∧
      ((Node.buildInverted c shard m sid nd tags).shards k).minv = (nd.shards k).minv := by
  induction tags with
  | nil => intro nd k; exact ⟨rfl, rfl, rfl⟩
  | cons kv rest ih =>
    intro nd k
    obtain ⟨tkn, tvn⟩ := kv
    have s1 : (nd.genTagKeyID c m tkn).1.shards = nd.shards := by
      unfold Node.genTagKeyID; simp only []; rw [afterAlloc_shards]
    cases h1 : (nd.genTagKeyID c m tkn).2 with
    | id tk =>
      have s2 : ((nd.genTagKeyID c m tkn).1.genTagValueID c tk tvn).1.shards = nd.shards := by
        rw [← s1]
        unfold Node.genTagValueID; simp only []
        cases (getOrCreate c.kv (nd.genTagKeyID c m tkn).1.tagValue (nd.genTagKeyID c m tkn).1.seqMem.tagValue tk tvn).2.2 <;>
          simp only [] <;> rw [afterAlloc_shards]
      cases h2 : ((nd.genTagKeyID c m tkn).1.genTagValueID c tk tvn).2 with
      | id tv =>
        simp only [Node.buildInverted, h1, h2]
        have := ih (((nd.genTagKeyID c m tkn).1.genTagValueID c tk tvn).1.setShard shard
            { ((nd.genTagKeyID c m tkn).1.genTagValueID c tk tvn).1.shards shard with
              inv := (((nd.genTagKeyID c m tkn).1.genTagValueID c tk tvn).1.shards shard).inv.put (tv, sid),
              fwd := (((nd.genTagKeyID c m tkn).1.genTagValueID c tk tvn).1.shards shard).fwd.put (tk, tv, sid) }) k
        obtain ⟨a, b, d⟩ := this
        rw [a, b, d]
        unfold Node.setShard
        by_cases hk : k = shard
        · subst hk; simp [s2]
        · simp [hk, s2]
      | tooManyFields | tooManyTags | tooManySeries | stuck =>
        simp only [Node.buildInverted, h1, h2]
        have := ih ((nd.genTagKeyID c m tkn).1.genTagValueID c tk tvn).1 k
        rw [s2] at this; exact this
    | tooManyFields | tooManyTags | tooManySeries | stuck =>
      simp only [Node.buildInverted, h1]
      have := ih (nd.genTagKeyID c m tkn).1 k
      rw [s1] at this; exact this

/-! ### one operation -/

def Op.isRecover : Op → Bool
  | .reopen | .metaFlushCrash _ | .indexFlushCrash _ _ => true
  | _ => false

/-- the name a get-or-create operation asks for -/
def Op.key : Op → Option NameKey
  | .metric nb ns name => some (.md (.metric nb ns name))
  | .field m f => some (.md (.field m f))
  | .tagKey m k => some (.md (.tagKey m k))
  | .tagValue tk v => some (.md (.tagValue tk v))
  | .series sh m ts _ => some (.series sh m ts)
  | _ => none

theorem mono_meta_frame {nd nd' : Node} (hm : MonoMeta nd nd') (hs : nd'.shards = nd.shards) : Mono nd nd' :=
  mono_of hm (fun sh m ts i h => by rw [hs]; exact h)

theorem metaGen_node {nd nd' : Node} {key : MetaKey} {out : GenOut} (inv : NodeInv nd) (g : MetaGenSpec nd key nd' out) :
    NodeInv nd' ∧ Mono nd nd' ∧ (∀ i, out = .id i → nd'.view (.md key) = some i) ∧
    (∀ j, nd.view (.md key) = some j → out = .id j) :=
  ⟨⟨g.inv, fun k => by rw [g.shards]; exact inv.sh k⟩, mono_meta_frame g.mono g.shards, g.ret, g.hit⟩

theorem genSeries_node {nd : Node} (c : Cfg) (inv : NodeInv nd) (shard m ts : Nat) (tags : List (Nat × Nat))
    (hno : (nd.genSeries c shard m ts tags).2 ≠ .tooManySeries) :
    NodeInv (nd.genSeries c shard m ts tags).1 ∧ Mono nd (nd.genSeries c shard m ts tags).1 ∧
    (∀ i, (nd.genSeries c shard m ts tags).2 = .id i → (nd.genSeries c shard m ts tags).1.view (.series shard m ts) = some i) ∧
    (∀ j, nd.view (.series shard m ts) = some j → (nd.genSeries c shard m ts tags).2 = .id j) := by
  obtain ⟨mi, mm, _⟩ := genSeries_meta c inv.md shard m ts tags
  cases hl : (nd.shards shard).series.lookup m ts with
  | some i =>
    have e : nd.genSeries c shard m ts tags = (nd, .id i) := by unfold Node.genSeries; simp only [hl]
    rw [e]
    refine ⟨inv, Mono.refl _, ?_, ?_⟩
    · intro i' h; cases h; exact hl
    · intro j hj
      have : (nd.shards shard).series.lookup m ts = some j := hj
      rw [hl] at this; cases this; rfl
  | none =>
    by_cases hover : nd.lim.maxSeries > 0 ∧ nd.lim.maxSeries < (nd.shards shard).createSeriesID m
    · -- refused: excluded by the hypothesis
      exfalso
      apply hno
      unfold Node.genSeries
      simp only [hl]
      by_cases hc : c.seriesLimitFirst = true
      · simp [hc, hover]
      · simp [hc, hover]
    · have e : nd.genSeries c shard m ts tags =
          (Node.buildInverted c shard m ((nd.shards shard).createSeriesID m)
            (nd.setShard shard ((nd.shards shard).created m ts ((nd.shards shard).createSeriesID m))) tags,
           .id ((nd.shards shard).createSeriesID m)) := by
        unfold Node.genSeries
        simp only [hl]
        have h1 : ¬ (c.seriesLimitFirst = true ∧ (nd.lim.maxSeries > 0 ∧ nd.lim.maxSeries < (nd.shards shard).createSeriesID m)) :=
          fun h => hover h.2
        simp only [h1, hover, if_false, and_false]
        rfl
      rw [e] at mi mm ⊢
      have bs := buildInverted_shards c shard m ((nd.shards shard).createSeriesID m) tags
        (nd.setShard shard ((nd.shards shard).created m ts ((nd.shards shard).createSeriesID m)))
      have hcreated := shardInv_created (inv.sh shard) hl
      -- the series view after the operation
      have sview : ∀ k m' ts', ((Node.buildInverted c shard m ((nd.shards shard).createSeriesID m)
            (nd.setShard shard ((nd.shards shard).created m ts ((nd.shards shard).createSeriesID m))) tags).shards k).series.lookup m' ts' =
          if k = shard then ((nd.shards shard).series.insert m ts ((nd.shards shard).createSeriesID m)).lookup m' ts'
          else (nd.shards k).series.lookup m' ts' := by
        intro k m' ts'
        rw [(bs k).1]
        unfold Node.setShard
        by_cases hk : k = shard
        · subst hk; simp [Shard.created]
        · simp [hk]
      refine ⟨⟨mi, ?_⟩, ?_, ?_, ?_⟩
      · intro k
        obtain ⟨a, b, d⟩ := bs k
        apply shardInv_congr a b d
        unfold Node.setShard
        by_cases hk : k = shard
        · subst hk; simpa using hcreated
        · simp [hk]; exact inv.sh k
      · apply mono_of mm
        intro k m' ts' i h
        rw [sview]
        by_cases hk : k = shard
        · subst hk
          simp only [if_true]
          rw [lookup_insert]
          by_cases hkk : m' = m ∧ ts' = ts
          · obtain ⟨rfl, rfl⟩ := hkk; rw [hl] at h; cases h
          · simp [hkk, h]
        · simp [hk, h]
      · intro i h; cases h
        show ((Node.buildInverted c shard m _ _ tags).shards shard).series.lookup m ts = _
        rw [sview]; simp [lookup_insert]
      · intro j hj
        have : (nd.shards shard).series.lookup m ts = some j := hj
        rw [hl] at this; cases this

theorem indexFlushPrefix_shards (nd : Node) (shard k j : Nat) :
    (nd.indexFlushPrefix shard k).shards j =
      if j = shard then (List.range k).foldl Shard.flushStep (nd.shards shard) else nd.shards j := rfl

/-- `step` on an operation that is not a reopen / crash and (for a series) is not refused -/
theorem step_spec {nd : Node} (c : Cfg) (inv : NodeInv nd) (op : Op) (hr : op.isRecover = false)
    (hno : (step c nd op).2 ≠ some .tooManySeries) :
    NodeInv (step c nd op).1 ∧ Mono nd (step c nd op).1 ∧
    (∀ key i, op.key = some key → (step c nd op).2 = some (.id i) → (step c nd op).1.view key = some i) ∧
    (∀ key j, op.key = some key → nd.view key = some j → (step c nd op).2 = some (.id j)) := by
  cases op with
  | metric nb ns name =>
    obtain ⟨a, b, r, h⟩ := metaGen_node inv (genMetric_spec c inv.md nb ns name)
    refine ⟨a, b, ?_, ?_⟩
    · intro key i hk ho; cases hk; simp only [step] at ho ⊢; exact r i (by simpa using ho)
    · intro key j hk hv; cases hk; simp only [step]; rw [h j hv]
  | field m f =>
    obtain ⟨a, b, r, h⟩ := metaGen_node inv (genFieldID_spec c inv.md m f)
    refine ⟨a, b, ?_, ?_⟩
    · intro key i hk ho; cases hk; simp only [step] at ho ⊢; exact r i (by simpa using ho)
    · intro key j hk hv; cases hk; simp only [step]; rw [h j hv]
  | tagKey m k =>
    obtain ⟨a, b, r, h⟩ := metaGen_node inv (genTagKeyID_spec c inv.md m k)
    refine ⟨a, b, ?_, ?_⟩
    · intro key i hk ho; cases hk; simp only [step] at ho ⊢; exact r i (by simpa using ho)
    · intro key j hk hv; cases hk; simp only [step]; rw [h j hv]
  | tagValue tk v =>
    obtain ⟨a, b, r, h⟩ := metaGen_node inv (genTagValueID_spec c inv.md tk v)
    refine ⟨a, b, ?_, ?_⟩
    · intro key i hk ho; cases hk; simp only [step] at ho ⊢; exact r i (by simpa using ho)
    · intro key j hk hv; cases hk; simp only [step]; rw [h j hv]
  | series sh m ts tags =>
    have hno' : (nd.genSeries c sh m ts tags).2 ≠ .tooManySeries := by
      intro h; apply hno; simp only [step]; rw [h]
    obtain ⟨a, b, r, h⟩ := genSeries_node c inv sh m ts tags hno'
    refine ⟨a, b, ?_, ?_⟩
    · intro key i hk ho; cases hk; simp only [step] at ho ⊢; exact r i (by simpa using ho)
    · intro key j hk hv; cases hk; simp only [step]; rw [h j hv]
  | metaPrepare =>
    obtain ⟨a, v, sh, _, _⟩ := metaPrepareE_spec inv.md c.prepareSwapsEmpty
    refine ⟨⟨a, fun k => by show ShardInv ((nd.metaPrepareE c.prepareSwapsEmpty).shards k); rw [sh]; exact inv.sh k⟩, ?_,
      fun _ _ h _ => (by cases h), fun _ _ h _ => (by cases h)⟩
    exact mono_meta_frame (fun k i h => by show (nd.metaPrepareE c.prepareSwapsEmpty).mview k = some i; rw [v]; exact h) sh
  | metaFlush =>
    obtain ⟨a, _, v, s, _⟩ := metaFlushPrefix_spec inv.md 5
    refine ⟨⟨a, fun k => by show ShardInv ((nd.metaFlushPrefix 5).shards k); rw [s]; exact inv.sh k⟩, ?_,
      fun _ _ h _ => (by cases h), fun _ _ h _ => (by cases h)⟩
    exact mono_meta_frame (fun k i h => by show (nd.metaFlushPrefix 5).mview k = some i; rw [v]; exact h) s
  | indexPrepare shard =>
    have e : (step c nd (.indexPrepare shard)).1 = nd.setShard shard ((nd.shards shard).prepareFlushE c.prepareSwapsEmpty) := by
      simp only [step, Node.indexPrepareE, Node.indexPrepare, Node.indexDropEmpty, Shard.prepareFlushE]
      cases c.prepareSwapsEmpty with
      | false => simp
      | true =>
        simp only [if_true]
        unfold Node.setShard
        simp only []
        congr 1
        funext j
        by_cases hj : j = shard
        · subst hj; simp
        · simp [hj]
    rw [e]
    refine ⟨⟨metaInv_setShard inv.md _ _, ?_⟩, ?_, fun _ _ h _ => (by cases h), fun _ _ h _ => (by cases h)⟩
    · intro k
      unfold Node.setShard
      by_cases hk : k = shard
      · subst hk; simpa using shardInv_prepareE (inv.sh k) c.prepareSwapsEmpty
      · simp [hk]; exact inv.sh k
    · apply mono_of (fun k i h => by rw [mview_setShard]; exact h)
      intro k m ts i h
      unfold Node.setShard
      by_cases hk : k = shard
      · subst hk; simp [series_lookup_prepareE (inv.sh k), h]
      · simp [hk, h]
  | indexFlush shard =>
    refine ⟨⟨metaInv_setShard inv.md _ _, ?_⟩, ?_, fun _ _ h _ => (by cases h), fun _ _ h _ => (by cases h)⟩
    · intro k
      show ShardInv ((nd.indexFlushPrefix shard 4).shards k)
      rw [indexFlushPrefix_shards]
      by_cases hk : k = shard
      · simp [hk]; exact shardInv_flush (inv.sh shard)
      · simp [hk]; exact inv.sh k
    · apply mono_of (fun k i h => by show (nd.setShard _ _).mview k = some i; rw [mview_setShard]; exact h)
      intro k m ts i h
      show ((nd.indexFlushPrefix shard 4).shards k).series.lookup m ts = some i
      rw [indexFlushPrefix_shards]
      by_cases hk : k = shard
      · subst hk
        simp only [if_true]
        have e : ((List.range 4).foldl Shard.flushStep (nd.shards k)).series = (nd.shards k).series.flush := by
          simp [List.range, List.range.loop, Shard.flushStep]
        rw [e, lookup_flush _ (inv.sh k).snapDisk]; exact h
      · simp [hk, h]
  | reopen => cases hr
  | metaFlushCrash k => cases hr
  | indexFlushCrash sh k => cases hr
  | metaFlushFail k =>
    obtain ⟨a, _, v, s, _⟩ := metaFlushPrefix_spec inv.md k
    refine ⟨⟨a, fun j => by show ShardInv ((nd.metaFlushPrefix k).shards j); rw [s]; exact inv.sh j⟩, ?_,
      fun _ _ h _ => (by cases h), fun _ _ h _ => (by cases h)⟩
    exact mono_meta_frame (fun key i h => by show (nd.metaFlushPrefix k).mview key = some i; rw [v]; exact h) s

/-- reopen, or a crash after a prefix of a metadata / index flush, followed by recovery -/
theorem recover_step_spec {nd : Node} (c : Cfg) (inv : NodeInv nd) (op : Op) (hr : op.isRecover = true) :
    NodeInv (step c nd op).1 ∧ (∀ key i, (step c nd op).1.view key = some i → nd.view key = some i) := by
  have base : ∀ nd0 : Node, NodeInv nd0 → ∀ sh k,
      NodeInv (nd0.indexFlushPrefix sh k).recover ∧
      (∀ key i, (nd0.indexFlushPrefix sh k).recover.view key = some i → nd0.view key = some i) := by
    intro nd0 inv0 sh k
    have mi : MetaInv (nd0.indexFlushPrefix sh k) := metaInv_setShard inv0.md _ _
    obtain ⟨ri, rv⟩ := recover_spec mi
    refine ⟨⟨ri, ?_⟩, ?_⟩
    · intro j
      show ShardInv ((nd0.indexFlushPrefix sh k).shards j).recover
      rw [indexFlushPrefix_shards]
      by_cases hj : j = sh
      · simp [hj]; exact shardInv_recover_prefix (inv0.sh sh) k
      · simp [hj]; exact shardInv_recover_prefix (inv0.sh j) 0
    · intro key i h
      cases key with
      | md mk =>
        have := rv mk i h
        rw [show (nd0.indexFlushPrefix sh k).mview mk = nd0.mview mk from mview_setShard _ _ _ _] at this
        exact this
      | series j m ts =>
        have h' : ((nd0.indexFlushPrefix sh k).shards j).recover.series.lookup m ts = some i := h
        rw [indexFlushPrefix_shards] at h'
        show (nd0.shards j).series.lookup m ts = some i
        by_cases hj : j = sh
        · subst hj; simp only [if_true] at h'; exact shard_recover_view (inv0.sh j) k m ts i h'
        · simp only [hj, if_false] at h'; exact shard_recover_view (inv0.sh j) 0 m ts i h'
  have e0 : ∀ nd0 : Node, nd0.indexFlushPrefix 0 0 = nd0.setShard 0 (nd0.shards 0) := fun _ => rfl
  have hset : ∀ nd0 : Node, (nd0.setShard 0 (nd0.shards 0)).recover = nd0.recover := by
    intro nd0
    unfold Node.recover Node.setShard
    simp only []
    congr 1
    funext k
    by_cases hk : k = 0
    · subst hk; simp
    · simp [hk]
  cases op with
  | reopen =>
    have := base nd inv 0 0
    rw [e0, hset] at this
    exact this
  | indexFlushCrash sh k => exact base nd inv sh k
  | metaFlushCrash k =>
    obtain ⟨a, _, v, s, _⟩ := metaFlushPrefix_spec inv.md k
    have inv1 : NodeInv (nd.metaFlushPrefix k) := ⟨a, fun j => by rw [s]; exact inv.sh j⟩
    have := base (nd.metaFlushPrefix k) inv1 0 0
    rw [e0, hset] at this
    refine ⟨this.1, ?_⟩
    intro key i h
    have h2 := this.2 key i h
    cases key with
    | md mk => have : (nd.metaFlushPrefix k).mview mk = some i := h2; rw [v] at this; exact this
    | series j m ts =>
      have : ((nd.metaFlushPrefix k).shards j).series.lookup m ts = some i := h2
      rw [s] at this; exact this
  | metric _ _ _ => cases hr
  | field _ _ => cases hr
  | tagKey _ _ => cases hr
  | tagValue _ _ => cases hr
  | series _ _ _ _ => cases hr
  | metaPrepare => cases hr
  | metaFlush => cases hr
  | indexPrepare _ => cases hr
  | indexFlush _ => cases hr
  | metaFlushFail _ => cases hr

end LinVerif.IdAssign
