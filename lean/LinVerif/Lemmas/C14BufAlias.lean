/-
Lemmas about Model/BufAlias.lean: a copying writer produces exactly the rows as they were at `Write` time
whatever the caller does to its buffers afterwards; a retaining writer does so only under the caller
discipline "no write to a handed-over buffer before the chunk is cut".
-/
import LinVerif.Model.BufAlias

namespace LinVerif.BufAlias
open LinVerif

/-- every staged piece is a private copy -/
def AllLit (st : List Piece) : Prop := ∀ p ∈ st, ∃ bs, p = .lit bs

/-- every staged reference points into a buffer the caller has promised not to touch -/
def RefsIn (busy : List Nat) (st : List Piece) : Prop := ∀ p ∈ st, ∀ b n, p = .ref b n → b ∈ busy

theorem flatten_resolve_congr (st : List Piece) (m1 m2 : List (Nat × List Nat))
    (h : ∀ p ∈ st, resolve m1 p = resolve m2 p) :
    (st.map (resolve m1)).flatten = (st.map (resolve m2)).flatten := by
  congr 1
  exact List.map_congr_left h

theorem resolve_lit_irrel (m1 m2 : List (Nat × List Nat)) (p : Piece) (h : ∃ bs, p = .lit bs) :
    resolve m1 p = resolve m2 p := by
  obtain ⟨bs, rfl⟩ := h; rfl

theorem plain_append (w : World) (p : Piece) :
    ({ w with staged := w.staged ++ [p] } : World).plain = w.plain ++ resolve w.mem p := by
  simp [World.plain]

theorem read_upsert_self (m : List (Nat × List Nat)) (b : Nat) (v : List Nat) : read (Map.upsert m b v) b = v := by
  simp [read, Map.lookup_upsert_self]

theorem read_upsert_ne (m : List (Nat × List Nat)) (b b2 : Nat) (v : List Nat) (h : b ≠ b2) :
    read (Map.upsert m b v) b2 = read m b2 := by
  simp [read, Map.lookup_upsert_ne _ _ _ _ h]

/-- **copying writer = specification**, for every history and every writer state made of copies -/
theorem run_copies_eq_spec (ops : List Op) :
    ∀ w : World, AllLit w.staged → run .copies w ops = spec w.mem w.plain ops := by
  induction ops with
  | nil => intro w _; rfl
  | cons op t ih =>
    intro w hl
    cases op with
    | fill b bs =>
      simp only [run, spec]
      rw [ih (w.fill b bs) hl]
      have hp : (w.fill b bs).plain = w.plain :=
        flatten_resolve_congr _ _ _ (fun p hp => resolve_lit_irrel _ _ p (hl p hp))
      rw [hp]; rfl
    | write b n =>
      simp only [run, spec, World.write]
      by_cases hn : n ≤ (read w.mem b).length
      · simp only [hn, if_true]
        rw [ih _ (by
          intro p hp
          simp only [List.mem_append, List.mem_singleton] at hp
          rcases hp with hp | hp
          · exact hl p hp
          · exact ⟨_, hp⟩)]
        rw [plain_append]; rfl
      · simp [hn]
    | cut =>
      simp only [run, spec, World.cut]
      rw [ih _ (by intro p hp; simp at hp)]
      simp [World.plain]

/-- **retaining writer = specification only for disciplined callers** -/
theorem run_retains_eq_spec_of_disciplined (ops : List Op) :
    ∀ (w : World) (busy : List Nat), RefsIn busy w.staged → disciplined busy ops = true →
      run .retains w ops = spec w.mem w.plain ops := by
  induction ops with
  | nil => intro w _ _ _; rfl
  | cons op t ih =>
    intro w busy hr hd
    cases op with
    | fill b bs =>
      simp only [disciplined, Bool.and_eq_true, Bool.not_eq_true', List.contains_eq_mem, decide_eq_false_iff_not] at hd
      simp only [run, spec]
      rw [ih (w.fill b bs) busy hr hd.2]
      have hp : (w.fill b bs).plain = w.plain := by
        apply flatten_resolve_congr
        intro p hp
        cases p with
        | lit bs' => rfl
        | ref b' n' =>
          have hb : b' ∈ busy := hr _ hp b' n' rfl
          have hne : b ≠ b' := fun e => hd.1 (e ▸ hb)
          simp [resolve, World.fill, read_upsert_ne _ _ _ _ hne]
      rw [hp]; rfl
    | write b n =>
      simp only [disciplined] at hd
      simp only [run, spec, World.write]
      by_cases hn : n ≤ (read w.mem b).length
      · simp only [hn, if_true]
        rw [ih _ (b :: busy) (by
          intro p hp b' n' e
          simp only [List.mem_append, List.mem_singleton] at hp
          rcases hp with hp | hp
          · exact List.mem_cons_of_mem _ (hr p hp b' n' e)
          · rw [hp] at e; cases e; exact List.mem_cons_self ..) hd]
        rw [plain_append]; rfl
      · simp [hn]
    | cut =>
      simp only [disciplined] at hd
      simp only [run, spec, World.cut]
      rw [ih _ [] (by intro p hp; simp at hp) hd]
      simp [World.plain]

end LinVerif.BufAlias
