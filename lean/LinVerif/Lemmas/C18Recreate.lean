/-
Helper lemmas for C18, round 12: what the manager holds for ONE database is a function of that
database's own events (config seen / payload delivered / drop), whatever happened to other databases
and to the nodes — in particular across a drop and a re-creation under the same name.
-/
import LinVerif.Model.C18State
import LinVerif.Lemmas.C18Master

namespace LinVerif.Lemmas.C18
open LinVerif LinVerif.Assign LinVerif.Master

/-- what the events naming database `db` say: is its config known to the manager
(`stateManager.databases`), and which assignment payload is held for it -/
structure DbView where
  known : Bool
  held : Option Assignment

/-- one event seen through the eyes of database `db`: its config makes it known, a payload for it is
held from then on, a drop of a KNOWN database forgets both (`onDatabaseCfgDelete` returns
ErrDatabaseNotFound for an unknown name and touches nothing); node events and other databases'
events change nothing -/
def dbViewStep (db : Nat) (v : DbView) : Event → DbView
  | .dbCfg d => if d = db then { v with known := true } else v
  | .assignChanged d a => if d = db then { v with held := some a } else v
  | .dropDb d => if d = db ∧ v.known = true then { known := false, held := none } else v
  | .nodeUp _ => v
  | .nodeDown _ => v

/-- the history of database `db` alone -/
def dbView (db : Nat) (es : List Event) : DbView := es.foldl (dbViewStep db) ⟨false, none⟩

/-- what the manager's state says about `db` -/
def viewOf (st : St) (db : Nat) : DbView := ⟨st.dbs.contains db, Map.lookup st.asg db⟩

/-- events that name the assignment of `db`: a payload for it or its drop -/
def NamesAsg (db : Nat) : Event → Prop
  | .assignChanged d _ => d = db
  | .dropDb d => d = db
  | _ => False

theorem viewOf_step (st : St) (db : Nat) (e : Event) :
    viewOf (step st e) db = dbViewStep db (viewOf st db) e := by
  cases e with
  | nodeUp id => simp [step, viewOf, dbViewStep]
  | nodeDown id => simp [step, viewOf, dbViewStep]
  | assignChanged d a =>
    by_cases h : d = db
    · subst h; simp [step, viewOf, dbViewStep, Map.lookup_upsert_self]
    · simp [step, viewOf, dbViewStep, h, Map.lookup_upsert_ne _ _ _ _ h]
  | dbCfg d =>
    by_cases h : d = db
    · subst h
      by_cases hc : d ∈ st.dbs
      · simp [step, viewOf, dbViewStep, hc]
      · simp [step, viewOf, dbViewStep, hc]
    · have h' : db ≠ d := fun x => h x.symm
      by_cases hc : d ∈ st.dbs
      · simp [step, viewOf, dbViewStep, hc, h]
      · simp [step, viewOf, dbViewStep, hc, h, h']
  | dropDb d =>
    by_cases h : d = db
    · subst h
      by_cases hc : d ∈ st.dbs
      · simp [step, viewOf, dbViewStep, hc, Map.lookup_erase_self]
      · simp [step, viewOf, dbViewStep, hc]
    · have h' : db ≠ d := fun x => h x.symm
      by_cases hc : d ∈ st.dbs
      · simp [step, viewOf, dbViewStep, hc, h, h', Map.lookup_erase_ne _ _ _ h]
      · simp [step, viewOf, dbViewStep, hc, h]

theorem viewOf_run (st : St) (db : Nat) (es : List Event) :
    viewOf (run st es) db = es.foldl (dbViewStep db) (viewOf st db) := by
  induction es generalizing st with
  | nil => rfl
  | cons e t ih =>
    show viewOf (run (step st e) t) db = _
    rw [ih, viewOf_step]
    rfl

theorem viewOf_init (db : Nat) : viewOf St.init db = ⟨false, none⟩ := by
  simp [viewOf, St.init]

theorem dbView_append (db : Nat) (es fs : List Event) :
    dbView db (es ++ fs) = fs.foldl (dbViewStep db) (dbView db es) := by
  simp [dbView, List.foldl_append]

/-- events that do not name the assignment of `db` leave the held payload as it is -/
theorem held_foldl_of_not_names (db : Nat) (ns : List Event) (v : DbView)
    (h : ∀ e ∈ ns, ¬ NamesAsg db e) : (ns.foldl (dbViewStep db) v).held = v.held := by
  induction ns generalizing v with
  | nil => rfl
  | cons e t ih =>
    have ht : ∀ e ∈ t, ¬ NamesAsg db e := fun x hx => h x (List.mem_cons_of_mem _ hx)
    have he : ¬ NamesAsg db e := h e List.mem_cons_self
    show (t.foldl (dbViewStep db) (dbViewStep db v e)).held = v.held
    rw [ih _ ht]
    cases e with
    | nodeUp id => rfl
    | nodeDown id => rfl
    | assignChanged d a => simp [NamesAsg] at he; simp [dbViewStep, he]
    | dbCfg d => by_cases hd : d = db <;> simp [dbViewStep, hd]
    | dropDb d => simp [NamesAsg] at he; simp [dbViewStep, he]

/-- drop + payload: whatever was known or held before, the payload is what is held afterwards -/
theorem held_after_drop_create (db : Nat) (v : DbView) (a : Assignment) :
    (dbViewStep db (dbViewStep db v (.dropDb db)) (.assignChanged db a)).held = some a := by
  simp [dbViewStep]

/-- after a drop of `db` and a payload `a` for it, followed by events that do not name `db`'s assignment,
`a` is what `db`'s history holds — whatever came before -/
theorem dbView_after_recreate (db : Nat) (a : Assignment) (es ns : List Event)
    (hns : ∀ e ∈ ns, ¬ NamesAsg db e) :
    (dbView db (es ++ [.dropDb db, .assignChanged db a] ++ ns)).held = some a := by
  rw [dbView_append, dbView_append, held_foldl_of_not_names db ns _ hns]
  exact held_after_drop_create db _ a

/-! NOT the code — what a slip would compute (see the `example` in Props/C18.lean): `ReplicasOnNode`
answered through a per-database index that is rebuilt only when the database's shard count changes and
that `DropDatabase` leaves behind. `idx` = for each database the assignment its index was built from. -/
def indexedView (idx asg : List (Nat × Assignment)) : List (Nat × Assignment) :=
  asg.map (fun (e : Nat × Assignment) =>
    match Map.lookup idx e.1 with
    | some b => if b.length = e.2.length then (e.1, b) else e
    | none => e)

end LinVerif.Lemmas.C18
