/-
C16 — the pooled protobuf converter (`Model/C16ProtoConv.lean`) refines the stateless `C16Ident.convertF`.
-/
import LinVerif.Model.C16ProtoConv

namespace LinVerif.Lemmas.C16
open LinVerif.Row LinVerif.C16Ident LinVerif.C16ProtoConv

theorem builtFields_self (fs : List SField) :
    builtFields fs (fs.map SField.name) = fs.map (fun f => { f with ftype := mapType f.ftype }) := by
  induction fs with
  | nil => rfl
  | cons f rest ih =>
    simp only [builtFields, List.map_cons, List.zipWith_cons_cons] at ih ⊢
    rw [ih]

/-- the request context survives a conversion -/
theorem marshal_cfg (fn fs : NameFlow) (tb : Bool) (sort : List Tag → List Tag) (H : String → Nat) (now : Int)
    (pc : PC) (m : Option PMetric) : (pc.marshal fn fs tb sort H now m).1.cfg now = pc.cfg now := by
  cases m with
  | none => rfl
  | some m =>
    simp only [PC.marshal]
    cases validate (pc.resetForNext.cfg now) (some m) <;> rfl

/-- one conversion, whatever state the converter is in: the result is `convertF` of the metric alone -/
theorem marshal_result (fn fs : NameFlow) (tb : Bool) (sort : List Tag → List Tag) (H : String → Nat) (now : Int)
    (pc : PC) (m : Option PMetric) :
    (pc.marshal fn fs tb sort H now m).2 = convertF fn fs tb sort H (pc.cfg now) m := by
  cases m with
  | none => rfl
  | some m =>
    simp only [PC.marshal, convertF]
    have hc : pc.resetForNext.cfg now = pc.cfg now := rfl
    rw [hc]
    cases hv : validate (pc.cfg now) (some m) with
    | error e => rfl
    | ok v =>
      simp only [PC.resetForNext, List.nil_append, builtFields_self, build, NameFlow.stored, NameFlow.hashed]

theorem marshalAll_result (fn fs : NameFlow) (tb : Bool) (sort : List Tag → List Tag) (H : String → Nat) (now : Int)
    (pc : PC) (ms : List (Option PMetric)) :
    (PC.marshalAll fn fs tb sort H now pc ms).2 = ms.map (convertF fn fs tb sort H (pc.cfg now)) ∧
    (PC.marshalAll fn fs tb sort H now pc ms).1.cfg now = pc.cfg now := by
  induction ms generalizing pc with
  | nil => exact ⟨rfl, rfl⟩
  | cons m rest ih =>
    simp only [PC.marshalAll, List.map_cons]
    obtain ⟨h1, h2⟩ := ih (pc.marshal fn fs tb sort H now m).1
    rw [marshal_cfg] at h1 h2
    exact ⟨by rw [h1, marshal_result], h2⟩

theorem newFor_cfg (pc : PC) (rq : Req) (now : Int) :
    (pc.newFor rq.ns rq.enriched rq.limits).cfg now = rq.cfg now := rfl

theorem history_result (fn fs : NameFlow) (tb : Bool) (sort : List Tag → List Tag) (H : String → Nat) (now : Int)
    (pc : PC) (reqs : List Req) :
    (PC.history fn fs tb sort H now pc reqs).2 =
      reqs.map (fun rq => rq.metrics.map (convertF fn fs tb sort H (rq.cfg now))) := by
  induction reqs generalizing pc with
  | nil => rfl
  | cons rq rest ih =>
    simp only [PC.history, List.map_cons]
    rw [ih, (marshalAll_result fn fs tb sort H now _ rq.metrics).1, newFor_cfg]

end LinVerif.Lemmas.C16
