/-
C16 — lemmas about the stored identity (`Model/C16Ident.lean`): the sanitiser is idempotent, keeps the
byte length and emptiness; `convertF` under the flow of the code as it stands is `Row.convert`; under a
sound flow the row is stored under the sanitised spelling and the name hash is the hash of that spelling.
-/
import LinVerif.Model.C16Ident
import LinVerif.Lemmas.C16FlatAgree

namespace LinVerif.Lemmas.C16
open LinVerif.Row LinVerif.C16Ident

/-- the character map of SanitizeMetricName / SanitizeNamespace -/
def sanChar (c : Char) : Char := if c = '|' then '_' else c

theorem sanChar_idem (c : Char) : sanChar (sanChar c) = sanChar c := by
  unfold sanChar
  by_cases h : c = '|'
  · simp [h]
  · simp [h]

theorem sanChar_size (c : Char) : (sanChar c).utf8Size = c.utf8Size := by
  unfold sanChar
  by_cases h : c = '|'
  · subst h; decide
  · simp [h]

theorem sanitizeName_eq (s : String) : sanitizeName s = String.ofList (s.toList.map sanChar) := rfl

/-- sanitising twice = sanitising once -/
theorem sanitizeName_idem (s : String) : sanitizeName (sanitizeName s) = sanitizeName s := by
  simp only [sanitizeName_eq, String.toList_ofList, List.map_map]
  congr 1
  apply List.map_congr_left
  intro c _
  exact sanChar_idem c

theorem utf8ByteSize_ofList (l : List Char) :
    (String.ofList l).utf8ByteSize = (l.map Char.utf8Size).sum := by
  induction l with
  | nil => simp
  | cons c l ih =>
    rw [String.ofList_cons, String.utf8ByteSize_append, String.utf8ByteSize_singleton, ih]
    simp

/-- '|' and '_' are both one byte: Go's `len` does not change -/
theorem blen_sanitizeName (s : String) : blen (sanitizeName s) = blen s := by
  have h : s = String.ofList s.toList := by simp
  unfold blen
  rw [sanitizeName_eq, utf8ByteSize_ofList]
  conv => rhs; rw [h, utf8ByteSize_ofList]
  rw [List.map_map]
  congr 1
  apply List.map_congr_left
  intro c _
  exact sanChar_size c

/-- a string without the delimiter is left alone -/
theorem sanitizeName_of_clean (s : String) (h : '|' ∉ s.toList) : sanitizeName s = s := by
  have hs : s = String.ofList s.toList := by simp
  rw [sanitizeName_eq]
  conv => rhs; rw [hs]
  congr 1
  conv => rhs; rw [← List.map_id s.toList]
  apply List.map_congr_left
  intro c hc
  unfold sanChar
  have : c ≠ '|' := fun e => h (e ▸ hc)
  simp [this]

/-- the stored string never contains the delimiter -/
theorem sanitizeName_clean (s : String) : '|' ∉ (sanitizeName s).toList := by
  rw [sanitizeName_eq, String.toList_ofList]
  intro h
  obtain ⟨c, _, hc⟩ := List.mem_map.1 h
  unfold sanChar at hc
  by_cases h' : c = '|'
  · simp [h'] at hc
  · simp [h'] at hc

/-! ### flows -/

theorem stored_of_sound (fl : NameFlow) (h : fl.sound = true) (raw : String) :
    fl.stored raw = sanitizeName raw := by
  obtain ⟨v, s, hh⟩ := fl
  cases v <;> cases s <;> cases hh <;>
    simp_all [NameFlow.sound, NameFlow.stored, san, sanitizeName_idem]

theorem hashed_of_sound (fl : NameFlow) (h : fl.sound = true) (raw : String) :
    fl.hashed raw = fl.stored raw := by
  obtain ⟨v, s, hh⟩ := fl
  cases v <;> cases s <;> cases hh <;>
    simp_all [NameFlow.sound, NameFlow.stored, NameFlow.hashed, san, sanitizeName_idem]

/-- the flow of the code as it stands is `Row.convert` -/
theorem convertF_current (tb : Bool) (sort : List Tag → List Tag) (H : String → Nat) (c : Cfg)
    (m : Option PMetric) :
    convertF NameFlow.current NameFlow.current tb sort H c m = convert tb sort H c m := by
  cases m with
  | none => rfl
  | some m =>
    simp only [convertF, convert]
    cases hv : validate c (some m) with
    | error e => rfl
    | ok v =>
      obtain ⟨_, rfl⟩ := valid_of_validate c m v hv
      simp [NameFlow.current, NameFlow.stored, NameFlow.hashed, san, build, vmetricOf, rawNs]

/-- under sound flows `convertF` is `Row.convert`, whichever of the sound placements the source uses -/
theorem convertF_sound (fn fs : NameFlow) (hn : fn.sound = true) (hs : fs.sound = true)
    (tb : Bool) (sort : List Tag → List Tag) (H : String → Nat) (c : Cfg) (m : Option PMetric) :
    convertF fn fs tb sort H c m = convert tb sort H c m := by
  cases m with
  | none => rfl
  | some m =>
    simp only [convertF, convert]
    cases hv : validate c (some m) with
    | error e => rfl
    | ok v =>
      obtain ⟨_, rfl⟩ := valid_of_validate c m v hv
      simp only [hashed_of_sound fn hn, hashed_of_sound fs hs, stored_of_sound fn hn, stored_of_sound fs hs]
      simp [build, vmetricOf, rawNs]

end LinVerif.Lemmas.C16
