/-
C19 helper lemmas, part 8: Submit racing Stop — the task ends up rejected, or queued/executed,
exactly once (source as it is: no re-check after the send).
-/
import LinVerif.Model.PoolSubmit

namespace LinVerif.PoolSubmit

/-- the invariant of the source as it is -/
def Inv (s : St) : Prop :=
  s.pc ≠ .recheck ∧ ((s.pc = .check ∨ s.pc = .select) → count s = 0) ∧ (s.pc = .done → count s = 1)

theorem inv_init : Inv init := by
  refine ⟨by decide, fun _ => rfl, fun h => by cases h⟩

theorem inv_step {s s' : St} {e : Ev} (hi : Inv s) (h : step false s e = some s') : Inv s' := by
  obtain ⟨h1, h2, h3⟩ := hi
  cases e <;> simp only [step] at h
  · -- submitCheck
    split at h
    · rename_i hpc
      have h0 := h2 (Or.inl hpc)
      split at h <;> (injection h with h; subst h)
      · refine ⟨by simp, by simp, fun _ => ?_⟩
        simp only [count] at h0 ⊢; omega
      · refine ⟨by simp, fun _ => ?_, by simp⟩
        simpa [count] using h0
    · cases h
  · -- submitSend
    split at h
    · rename_i hpc
      have h0 := h2 (Or.inr hpc)
      injection h with h; subst h
      refine ⟨by simp, by simp, fun _ => ?_⟩
      simp only [count] at h0 ⊢
      split at h0 <;> simp <;> omega
    · cases h
  · -- submitCtx
    split at h
    · rename_i hc
      simp only [Bool.and_eq_true, decide_eq_true_eq] at hc
      have h0 := h2 (Or.inr hc.1)
      injection h with h; subst h
      refine ⟨by simp, by simp, fun _ => ?_⟩
      simp only [count] at h0 ⊢; omega
    · cases h
  · -- submitRecheck
    split at h
    · rename_i hpc; exact absurd hpc h1
    · cases h
  · -- stop
    injection h with h; subst h
    exact ⟨h1, h2, h3⟩
  · -- cancel
    injection h with h; subst h
    exact ⟨h1, h2, h3⟩
  · -- consume
    split at h
    · rename_i hq
      injection h with h; subst h
      refine ⟨h1, fun hp => ?_, fun hp => ?_⟩
      · have := h2 hp; simp [count, hq] at this
      · have := h3 hp; simp [count, hq] at this ⊢; omega
    · cases h

theorem inv_run : ∀ (es : List Ev) (s s' : St), Inv s → run false s es = some s' → Inv s'
  | [], s, s', hi, h => by simp [run] at h; subst h; exact hi
  | e :: es, s, s', hi, h => by
    simp only [run] at h
    cases hs : step false s e with
    | none => simp [hs] at h
    | some s1 =>
      simp only [hs] at h
      exact inv_run es s1 s' (inv_step hi hs) h

theorem count_le_one {s : St} (hi : Inv s) : count s ≤ 1 := by
  obtain ⟨h1, h2, h3⟩ := hi
  cases hpc : s.pc with
  | check => have := h2 (Or.inl hpc); omega
  | select => have := h2 (Or.inr hpc); omega
  | recheck => exact absurd hpc h1
  | done => have := h3 hpc; omega

end LinVerif.PoolSubmit
