/-
C03 helper lemmas: reading back what the block writer wrote. Part A: the grouping by container of
an ascending series list. Part B: the reader's slicing on the specification layout. Part C:
`readField (writeBlock b) = b.fieldData`.
-/
import LinVerif.Lemmas.C03Writer

set_option linter.unusedSectionVars false
set_option linter.unusedSimpArgs false
namespace LinVerif.C03
open LinVerif.Map LinVerif.MetricBlock LinVerif.Merge LinVerif.BlockWriter

variable {V : Type}

/-! ### A. grouping -/

structure GoodGroups (G : List (Group V)) : Prop where
  ne : ∀ g ∈ G, g.2 ≠ []
  hk : ∀ g ∈ G, ∀ m ∈ g.2, hkOf m.1 = g.1
  keys : (G.map Prod.fst).Pairwise (· < ·)

def toGroups : GAcc V → List (Group V)
  | none => []
  | some (d, k, ms) => d ++ [(k, ms)]

theorem groupsOf_eq (xs : List (Member V)) : groupsOf xs = toGroups (xs.foldl extendG none) := by
  unfold groupsOf toGroups
  cases xs.foldl extendG none with
  | none => rfl
  | some t => obtain ⟨d, k, ms⟩ := t; rfl

theorem goodGroups_nil : GoodGroups ([] : List (Group V)) :=
  ⟨(by intro g hg; cases hg), (by intro g hg; cases hg), (by simp)⟩

theorem extendG_good (acc : GAcc V) (x : Member V) (hg : GoodGroups (toGroups acc))
    (hlt : ∀ g ∈ toGroups acc, ∀ m ∈ g.2, m.1 < x.1) :
    GoodGroups (toGroups (extendG acc x)) ∧
    (toGroups (extendG acc x)).flatMap Prod.snd = (toGroups acc).flatMap Prod.snd ++ [x] := by
  cases acc with
  | none =>
    simp only [extendG, toGroups]
    refine ⟨⟨?_, ?_, by simp⟩, by simp⟩
    · intro g hg'; simp at hg'; subst hg'; simp
    · intro g hg' m hm; simp at hg'; subst hg'; simp at hm; subst hm; rfl
  | some t =>
    obtain ⟨d, k, ms⟩ := t
    simp only [toGroups] at hg hlt
    unfold extendG
    by_cases e : hkOf x.1 = k
    · simp only [e, if_true, toGroups]
      refine ⟨⟨?_, ?_, ?_⟩, by simp [List.flatMap_append]⟩
      · intro g hg'
        rcases List.mem_append.mp hg' with h | h
        · exact hg.ne g (List.mem_append_left _ h)
        · simp at h; subst h; simp
      · intro g hg' m hm
        rcases List.mem_append.mp hg' with h | h
        · exact hg.hk g (List.mem_append_left _ h) m hm
        · simp at h; subst h
          rcases List.mem_append.mp hm with h2 | h2
          · exact hg.hk (k, ms) (by simp) m h2
          · simp at h2; subst h2; exact e
      · have := hg.keys; simpa using this
    · simp only [e, if_false, toGroups]
      have hmsne : ms ≠ [] := hg.ne (k, ms) (by simp)
      have hklt : k < hkOf x.1 := by
        cases hms : ms with
        | nil => exact absurd hms hmsne
        | cons m r =>
          have hm : m ∈ ms := by rw [hms]; exact List.mem_cons_self
          have h1 := hlt (k, ms) (by simp) m hm
          have h2 := hg.hk (k, ms) (by simp) m hm
          simp only at h2
          have h3 := hkOf_mono (Nat.le_of_lt h1)
          omega
      refine ⟨⟨?_, ?_, ?_⟩, by simp [List.flatMap_append]⟩
      · intro g hg'
        rcases List.mem_append.mp hg' with h | h
        · exact hg.ne g h
        · simp at h; subst h; simp
      · intro g hg' m hm
        rcases List.mem_append.mp hg' with h | h
        · exact hg.hk g h m hm
        · simp at h; subst h; simp at hm; subst hm; rfl
      · have hk := hg.keys
        simp only [List.map_append, List.map_cons, List.map_nil] at hk ⊢
        rw [List.pairwise_append]
        refine ⟨hk, by simp, ?_⟩
        intro a ha b hb
        simp at hb; subst hb
        rw [List.pairwise_append] at hk
        rcases List.mem_append.mp ha with h | h
        · have := hk.2.2 a h k (by simp); omega
        · simp at h; subst h; exact hklt

theorem foldG_good (xs : List (Member V)) :
    ∀ (acc : GAcc V), GoodGroups (toGroups acc) →
      (∀ g ∈ toGroups acc, ∀ m ∈ g.2, ∀ x ∈ xs, m.1 < x.1) →
      (xs.map Prod.fst).Pairwise (· < ·) →
      GoodGroups (toGroups (xs.foldl extendG acc)) ∧
      (toGroups (xs.foldl extendG acc)).flatMap Prod.snd = (toGroups acc).flatMap Prod.snd ++ xs := by
  induction xs with
  | nil => intro acc hg _ _; exact ⟨hg, by simp⟩
  | cons x r ih =>
    intro acc hg hlt hp
    simp only [List.map_cons, List.pairwise_cons] at hp
    obtain ⟨s1, s2⟩ := extendG_good acc x hg (fun g hg' m hm => hlt g hg' m hm x List.mem_cons_self)
    simp only [List.foldl_cons]
    have hlt' : ∀ g ∈ toGroups (extendG acc x), ∀ m ∈ g.2, ∀ y ∈ r, m.1 < y.1 := by
      intro g hg' m hm y hy
      have hmem : m ∈ (toGroups (extendG acc x)).flatMap Prod.snd := List.mem_flatMap.mpr ⟨g, hg', hm⟩
      rw [s2] at hmem
      rcases List.mem_append.mp hmem with h | h
      · obtain ⟨g0, hg0, hm0⟩ := List.mem_flatMap.mp h
        exact hlt g0 hg0 m hm0 y (List.mem_cons_of_mem _ hy)
      · simp at h; subst h
        exact hp.1 y.1 (List.mem_map_of_mem (f := Prod.fst) hy)
    obtain ⟨t1, t2⟩ := ih (extendG acc x) s1 hlt' hp.2
    exact ⟨t1, by rw [t2, s2]; simp⟩

theorem groupsOf_good (xs : List (Member V)) (hp : (xs.map Prod.fst).Pairwise (· < ·)) :
    GoodGroups (groupsOf xs) ∧ (groupsOf xs).flatMap Prod.snd = xs := by
  rw [groupsOf_eq]
  have := foldG_good xs none goodGroups_nil (fun g hg => by cases hg) hp
  simpa [toGroups] using this

/-! ### B. the reader's slicing on the specification layout -/

theorem indexOf?_mem {l : List Nat} {s r : Nat} (h : indexOf? l s = some r) : s ∈ l := by
  induction l generalizing r with
  | nil => simp [indexOf?] at h
  | cons x t ih =>
    unfold indexOf? at h
    by_cases e : x = s
    · subst e; exact List.mem_cons_self
    · simp only [e, if_false, Option.map_eq_some_iff] at h
      obtain ⟨r', hr', _⟩ := h
      exact List.mem_cons_of_mem _ (ih hr')

theorem indexOf?_append_of_not_mem (pre : List Nat) (s : Nat) (post : List Nat) (h : s ∉ pre) :
    indexOf? (pre ++ s :: post) s = some pre.length := by
  induction pre with
  | nil => simp [indexOf?]
  | cons x t ih =>
    simp only [List.mem_cons, not_or] at h
    have hx : ¬ x = s := fun e => h.1 e.symm
    simp [indexOf?, hx, ih h.2]

theorem indexOf?_none_of_not_mem (l : List Nat) (s : Nat) (h : s ∉ l) : indexOf? l s = none := by
  induction l with
  | nil => rfl
  | cons x t ih =>
    simp only [List.mem_cons, not_or] at h
    have hx : ¬ x = s := fun e => h.1 e.symm
    simp [indexOf?, hx, ih h.2]

/-- `highKeysOf` of the ids of one container followed by other ids -/
theorem highKeysOf_prefix (k : Nat) (ids : List Nat) (hne : ids ≠ []) (hk : ∀ x ∈ ids, hkOf x = k)
    (rest : List Nat) :
    highKeysOf (ids ++ rest) =
      (if (highKeysOf rest).head? = some k then highKeysOf rest else k :: highKeysOf rest) := by
  induction ids with
  | nil => exact absurd rfl hne
  | cons x t ih =>
    have hx : hkOf x = k := hk x List.mem_cons_self
    cases t with
    | nil =>
      simp only [List.cons_append, List.nil_append, highKeysOf]
      cases hr : highKeysOf rest with
      | nil => simp [hx]
      | cons k' ks =>
        by_cases e : k = k'
        · subst e; simp [hx]
        · have e' : ¬ k' = k := fun h => e h.symm
          simp [hx, e, e']
    | cons y t' =>
      have ih' := ih (by simp) (fun z hz => hk z (List.mem_cons_of_mem _ hz))
      have hcons : highKeysOf (x :: ((y :: t') ++ rest)) =
          (match highKeysOf ((y :: t') ++ rest) with
            | [] => [hkOf x]
            | k' :: ks => if hkOf x = k' then k' :: ks else hkOf x :: k' :: ks) := rfl
      rw [List.cons_append, hcons, ih']
      by_cases e : (highKeysOf rest).head? = some k
      · rw [if_pos e]
        cases hr : highKeysOf rest with
        | nil => rw [hr] at e; simp at e
        | cons k' ks =>
          rw [hr] at e
          simp only [List.head?_cons, Option.some.injEq] at e
          subst e; simp [hx]
      · rw [if_neg e]; simp [hx]

theorem highKeysOf_groups (G : List (Group V)) (hg : GoodGroups G) :
    highKeysOf (G.flatMap (fun g => g.2.map Prod.fst)) = G.map Prod.fst := by
  induction G with
  | nil => rfl
  | cons g r ih =>
    have hr : GoodGroups r := ⟨fun g' h => hg.ne g' (List.mem_cons_of_mem _ h),
      fun g' h => hg.hk g' (List.mem_cons_of_mem _ h), by
        have := hg.keys; simp only [List.map_cons, List.pairwise_cons] at this; exact this.2⟩
    simp only [List.flatMap_cons, List.map_cons]
    rw [highKeysOf_prefix g.1 (g.2.map Prod.fst)
      (by intro e; exact hg.ne g List.mem_cons_self (List.map_eq_nil_iff.mp e))
      (by intro x hx; obtain ⟨m, hm, e⟩ := List.mem_map.mp hx; rw [← e]; exact hg.hk g List.mem_cons_self m hm),
      ih hr]
    have hlt := hg.keys
    simp only [List.map_cons, List.pairwise_cons] at hlt
    cases hrk : r.map Prod.fst with
    | nil => simp
    | cons k' ks =>
      have : g.1 < k' := hlt.1 k' (by rw [hrk]; exact List.mem_cons_self)
      have : ¬ k' = g.1 := by omega
      simp [this]

/-- the ids of container `g.1` among all ids are the ids of group `g` -/
theorem filter_container (G : List (Group V)) (hg : GoodGroups G) (pre post : List (Group V)) (g : Group V)
    (hG : G = pre ++ g :: post) :
    (G.flatMap (fun g => g.2.map Prod.fst)).filter (fun x => hkOf x == g.1) = g.2.map Prod.fst := by
  have hkeys := hg.keys
  rw [hG] at hkeys
  simp only [List.map_append, List.map_cons] at hkeys
  rw [List.pairwise_append] at hkeys
  obtain ⟨_, hmid, hx⟩ := hkeys
  simp only [List.pairwise_cons] at hmid
  have hdrop : ∀ (L : List (Group V)), (∀ g' ∈ L, g' ∈ G) → (∀ g' ∈ L, g'.1 ≠ g.1) →
      (L.flatMap (fun g => g.2.map Prod.fst)).filter (fun x => hkOf x == g.1) = [] := by
    intro L hin hne
    rw [List.filter_eq_nil_iff]
    intro x hx'
    obtain ⟨g', hg', hxm⟩ := List.mem_flatMap.mp hx'
    obtain ⟨m, hm, e⟩ := List.mem_map.mp hxm
    have := hg.hk g' (hin g' hg') m hm
    rw [← e, this]
    simpa using hne g' hg'
  have hgin : ∀ g' ∈ pre ++ g :: post, g' ∈ G := by intro g' h; rw [hG]; exact h
  rw [hG]
  simp only [List.flatMap_append, List.flatMap_cons, List.filter_append]
  rw [hdrop pre (fun g' h => hgin g' (List.mem_append_left _ h))
      (fun g' h => by have := hx g'.1 (List.mem_map_of_mem (f := Prod.fst) h) g.1 List.mem_cons_self; omega),
    hdrop post (fun g' h => hgin g' (List.mem_append_right _ (List.mem_cons_of_mem _ h)))
      (fun g' h => by have := hmid.1 g'.1 (List.mem_map_of_mem (f := Prod.fst) h); omega)]
  simp only [List.nil_append, List.append_nil]
  rw [List.filter_eq_self]
  intro x hx'
  obtain ⟨m, hm, e⟩ := List.mem_map.mp hx'
  have := hg.hk g (hgin g (by simp)) m hm
  rw [← e, this]; simp

theorem getElem?_append_cons {α : Type} (pre : List α) (x : α) (post : List α) :
    (pre ++ x :: post)[pre.length]? = some x := by
  simp

/-- slicing one series bucket: the entry of the member at position `mpre.length` -/
theorem bucket_entry (multi : Bool) (ms mpre mpost : List (Member V)) (m : Member V)
    (hms : ms = mpre ++ m :: mpost) (hne : (entriesOf multi ms).flatten.length ≠ 0) :
    let bucket := encBucket multi ms
    ¬ bucket.length ≤ 1 ∧
    bucket.getLast? = some (Tok.posOfLow (entriesOf multi ms).flatten.length) ∧
    ¬ ((entriesOf multi ms).flatten.length + 1 ≥ bucket.length) ∧
    bucket[(entriesOf multi ms).flatten.length]? = some (Tok.lowOffsets (startsFrom 0 (entriesOf multi ms))) ∧
    getBlock (startsFrom 0 (entriesOf multi ms)) mpre.length
      (bucket.take (entriesOf multi ms).flatten.length) = some (encEntry multi m.2) := by
  have hb : encBucket multi ms = (entriesOf multi ms).flatten ++
      [Tok.lowOffsets (startsFrom 0 (entriesOf multi ms)), Tok.posOfLow (entriesOf multi ms).flatten.length] := by
    unfold encBucket; rw [if_neg hne]
  simp only [hb]
  refine ⟨by simp, by simp, by simp, by simp, ?_⟩
  have htake : ((entriesOf multi ms).flatten ++
      [Tok.lowOffsets (startsFrom 0 (entriesOf multi ms)), Tok.posOfLow (entriesOf multi ms).flatten.length]).take
        (entriesOf multi ms).flatten.length = (entriesOf multi ms).flatten := by
    simp
  rw [htake, getBlock_flatten0 _ _ (by rw [hms]; simp [entriesOf])]
  rw [hms]
  simp [entriesOf]

theorem indexOf?_eq_none_iff_lookup (fields : List (Nat × FieldType)) (f : Nat) :
    indexOf? (fields.map Prod.fst) f = none ↔ lookup fields f = none := by
  induction fields with
  | nil => simp [indexOf?]
  | cons p t ih =>
    obtain ⟨x, ty⟩ := p
    by_cases e : x = f
    · simp [indexOf?, lookup_cons, e]
    · simp [indexOf?, lookup_cons, e, ih]

theorem datas_at_index (fields : List (Nat × FieldType)) (ent : Entry V) (f k : Nat)
    (h : indexOf? (fields.map Prod.fst) f = some k) :
    (datasOf fields ent)[k]? = some (lookup ent f) := by
  induction fields generalizing k with
  | nil => simp [indexOf?] at h
  | cons p t ih =>
    obtain ⟨x, ty⟩ := p
    by_cases e : x = f
    · simp only [List.map_cons, indexOf?, e, if_true, Option.some.injEq] at h
      subst h; simp [datasOf, e]
    · simp only [List.map_cons, indexOf?, e, if_false, Option.map_eq_some_iff] at h
      obtain ⟨k', hk', e2⟩ := h
      subst e2
      have := ih k' hk'
      simpa [datasOf] using this

/-- slicing one series entry: the data of the field at position `k` -/
theorem entry_field (datas : List (Option (List (Nat × V)))) (k : Nat) (d : Option (List (Nat × V)))
    (hk : datas[k]? = some d) (h2 : datas.length ≠ 1) (hne : datas ≠ []) :
    let entry := encEntry true datas
    entry.getLast? = some (Tok.lenOfOffsets 1) ∧
    (let fat := entry.length - 1 - 1
     (fat = 0 ∨ fat ≥ entry.length → d = none) ∧
     (¬ (fat = 0 ∨ fat ≥ entry.length) →
       entry[fat]? = some (Tok.fieldOffsets (startsFrom 0 (datas.map optToks))) ∧
       getBlock (startsFrom 0 (datas.map optToks)) k (entry.take fat) = some (optToks d))) := by
  have he : encEntry true datas = (datas.map optToks).flatten ++
      [Tok.fieldOffsets (startsFrom 0 (datas.map optToks)), Tok.lenOfOffsets 1] := by simp [encEntry]
  simp only [he]
  have hlen : ((datas.map optToks).flatten ++
      [Tok.fieldOffsets (startsFrom 0 (datas.map optToks)), Tok.lenOfOffsets 1]).length - 1 - 1 =
        (datas.map optToks).flatten.length := by simp
  refine ⟨by simp, ?_⟩
  simp only [hlen]
  constructor
  · intro h
    rcases h with h | h
    · -- no payload at all: every field is nil
      have hnil : (datas.map optToks).flatten = [] := List.eq_nil_of_length_eq_zero h
      have hmem : optToks d ∈ datas.map optToks := by
        have := List.mem_of_getElem? hk
        exact List.mem_map_of_mem (f := optToks) this
      have : optToks d = [] := by
        have := List.flatten_eq_nil_iff.mp hnil (optToks d) hmem
        exact this
      cases d with
      | none => rfl
      | some v => simp [optToks] at this
    · simp at h; omega
  · intro _
    constructor
    · simp
    · have htake : ((datas.map optToks).flatten ++
          [Tok.fieldOffsets (startsFrom 0 (datas.map optToks)), Tok.lenOfOffsets 1]).take
            (datas.map optToks).flatten.length = (datas.map optToks).flatten := by simp
      rw [htake]
      have hkl : k < (datas.map optToks).length := by
        rw [List.length_map]
        exact (List.getElem?_eq_some_iff.mp hk).1
      rw [getBlock_flatten0 _ _ hkl]
      simp [hk]

/-! ### C. reading back a written block -/

theorem readEntry_of (e : EncBlock V) (s ci p r : Nat) (bucket : List (Tok V)) (lo : List Nat)
    (h1 : indexOf? (highKeysOf e.ids) (hkOf s) = some ci)
    (h2 : getBlock e.highOffs ci e.stream = some bucket)
    (h3 : ¬ bucket.length ≤ 1) (h4 : bucket.getLast? = some (Tok.posOfLow p))
    (h5 : ¬ p + 1 ≥ bucket.length) (h6 : bucket[p]? = some (Tok.lowOffsets lo))
    (h7 : indexOf? (e.ids.filter (fun x => hkOf x == hkOf s)) s = some r) :
    readEntry e s = getBlock lo r (bucket.take p) := by
  unfold readEntry
  simp only [h1, h2, h3, h4, h5, h6, h7, if_false]

theorem readEntry_dead (e : EncBlock V) (s ci : Nat) (bucket : List (Tok V))
    (h1 : indexOf? (highKeysOf e.ids) (hkOf s) = some ci)
    (h2 : getBlock e.highOffs ci e.stream = some bucket) (h3 : bucket.length ≤ 1) :
    readEntry e s = none := by
  unfold readEntry
  simp only [h1, h2, h3, if_true]

theorem readEntry_some_mem (e : EncBlock V) (s : Nat) (x : List (Tok V)) (h : readEntry e s = some x) :
    s ∈ e.ids := by
  unfold readEntry at h
  split at h
  · cases h
  · split at h
    · cases h
    · split at h
      · cases h
      · split at h
        · split at h
          · cases h
          · split at h
            · split at h
              · cases h
              · rename_i r hr
                exact (List.mem_filter.mp (indexOf?_mem hr)).1
            · cases h
        · cases h

theorem readField_none_of_entry (e : EncBlock V) (s f : Nat) (h : readEntry e s = none) :
    readField e s f = none := by
  unfold readField; rw [h]

theorem readField_single (e : EncBlock V) (s f k : Nat) (entry : List (Tok V))
    (h1 : readEntry e s = some entry) (h2 : indexOf? (e.fields.map Prod.fst) f = some k)
    (h3 : e.fields.length = 1) :
    readField e s f = pickData entry := by
  unfold readField
  rw [h1]
  simp only []
  rw [h2]
  simp only [h3, if_true]

theorem readField_multi (e : EncBlock V) (s f k n : Nat) (entry : List (Tok V))
    (h1 : readEntry e s = some entry) (h2 : indexOf? (e.fields.map Prod.fst) f = some k)
    (h3 : ¬ e.fields.length = 1) (h4 : entry.getLast? = some (Tok.lenOfOffsets n)) :
    readField e s f =
      (if entry.length - n - 1 = 0 ∨ entry.length - n - 1 ≥ entry.length then none
       else match entry[entry.length - n - 1]? with
        | some (Tok.fieldOffsets fo) =>
          (match getBlock fo k (entry.take (entry.length - n - 1)) with
            | some blk => pickData blk
            | none => none)
        | _ => none) := by
  unfold readField
  rw [h1]
  simp only []
  rw [h2]
  simp only [h3, if_false]
  rw [h4]
  rfl

theorem optToks_match (d : Option (List (Nat × V))) : pickData (optToks d) = d := by
  cases d <;> rfl

/-- **flush_then_read**: what the reader finds in the block the writer produced is exactly what was
handed to the writer -/
theorem writeBlock_read (b : Block V) (hf : b.fields ≠ []) (hne : b.series ≠ [])
    (hs : b.seriesIds.Pairwise (· < ·)) :
    ∃ e, writeBlock b = some e ∧ e.fields = b.fields ∧ e.ids = b.seriesIds ∧
      ∀ s f, readField e s f = b.fieldData s f := by
  obtain ⟨e, hw, hfields, hstream, hhigh, hids, hidsG⟩ := writeBlock_layout b hf hne
  refine ⟨e, hw, hfields, hids, ?_⟩
  have hmp : ((membersOf b).map Prod.fst).Pairwise (· < ·) := by
    have : (membersOf b).map Prod.fst = b.seriesIds := by
      simp [membersOf, Block.seriesIds, keys, List.map_map, Function.comp_def]
    rw [this]; exact hs
  obtain ⟨hgood, hflat⟩ := groupsOf_good (membersOf b) hmp
  have hnodup : (keys b.series).Nodup := hs.imp (fun h => Nat.ne_of_lt h)
  intro s f
  unfold Block.fieldData
  cases hl : lookup b.series s with
  | none =>
    simp only []
    apply readField_none_of_entry
    cases hr : readEntry e s with
    | none => rfl
    | some x =>
      exfalso
      have := readEntry_some_mem e s x hr
      rw [hids] at this
      exact (lookup_eq_none_iff b.series s).mp hl this
  | some ent =>
    simp only []
    -- the member of `s` and its place in the grouping
    have hmem : ((s, datasOf b.fields ent) : Member V) ∈ membersOf b := by
      unfold membersOf; exact List.mem_map.mpr ⟨(s, ent), lookup_mem hl, rfl⟩
    rw [← hflat] at hmem
    obtain ⟨g, hgG, hmg⟩ := List.mem_flatMap.mp hmem
    obtain ⟨pre, post, hG⟩ := List.append_of_mem hgG
    obtain ⟨mpre, mpost, hms⟩ := List.append_of_mem hmg
    have hhk : hkOf s = g.1 := hgood.hk g hgG _ hmg
    -- ids are distinct: `s` is in no earlier member of its group
    have hidsnd : (e.ids).Nodup := by rw [hids]; exact hnodup
    have hnotpre : s ∉ mpre.map Prod.fst := by
      intro hin
      have hsub : (g.2.map Prod.fst).Sublist e.ids := by
        rw [hidsG, hG]
        simp only [List.flatMap_append, List.flatMap_cons]
        exact (List.sublist_append_left _ _).trans (List.sublist_append_right _ _)
      have hnd := hidsnd.sublist hsub
      rw [hms] at hnd
      simp only [List.map_append, List.map_cons] at hnd
      rw [List.nodup_append] at hnd
      exact hnd.2.2 s hin s List.mem_cons_self rfl
    have hgpre : g.1 ∉ pre.map Prod.fst := by
      intro hin
      have hk := hgood.keys
      rw [hG] at hk
      simp only [List.map_append, List.map_cons] at hk
      rw [List.pairwise_append] at hk
      have := hk.2.2 g.1 hin g.1 List.mem_cons_self
      omega
    have h1 : indexOf? (highKeysOf e.ids) (hkOf s) = some pre.length := by
      rw [hidsG, highKeysOf_groups _ hgood, hG, hhk]
      simp only [List.map_append, List.map_cons]
      have := indexOf?_append_of_not_mem (pre.map Prod.fst) g.1 (post.map Prod.fst) hgpre
      simpa using this
    have h2 : getBlock e.highOffs pre.length e.stream =
        some (encBucket (decide (b.fields.length > 1)) g.2) := by
      rw [hhigh, hstream, getBlock_flatten0 _ _ (by rw [hG]; simp [bucketsOf])]
      rw [hG]; simp [bucketsOf]
    have hfilter : e.ids.filter (fun x => hkOf x == hkOf s) = g.2.map Prod.fst := by
      rw [hidsG, hhk]; exact filter_container _ hgood pre post g hG
    have h7 : indexOf? (e.ids.filter (fun x => hkOf x == hkOf s)) s = some mpre.length := by
      rw [hfilter, hms]
      simp only [List.map_append, List.map_cons]
      have := indexOf?_append_of_not_mem (mpre.map Prod.fst) s (mpost.map Prod.fst) hnotpre
      simpa using this
    by_cases hdead : (entriesOf (decide (b.fields.length > 1)) g.2).flatten.length = 0
    · -- zero-length bucket: the reader finds nothing, and nothing was written for the series
      have hb : encBucket (decide (b.fields.length > 1)) g.2 = [] := by unfold encBucket; rw [if_pos hdead]
      rw [readField_none_of_entry e s f (readEntry_dead e s _ _ h1 h2 (by rw [hb]; simp))]
      cases hlf : lookup b.fields f with
      | none => rfl
      | some ty =>
        simp only []
        have hnil : (entriesOf (decide (b.fields.length > 1)) g.2).flatten = [] :=
          List.eq_nil_of_length_eq_zero hdead
        have hentry : encEntry (decide (b.fields.length > 1)) (datasOf b.fields ent) = [] := by
          apply List.flatten_eq_nil_iff.mp hnil
          rw [hms]; simp [entriesOf]
        have hk : ∃ k, indexOf? (b.fields.map Prod.fst) f = some k := by
          cases hi : indexOf? (b.fields.map Prod.fst) f with
          | none => rw [(indexOf?_eq_none_iff_lookup b.fields f).mp hi] at hlf; cases hlf
          | some k => exact ⟨k, rfl⟩
        obtain ⟨k, hk⟩ := hk
        have hd := datas_at_index b.fields ent f k hk
        -- every field buffer slot is nil
        have hall : ((datasOf b.fields ent).map optToks).flatten = [] := by
          unfold encEntry at hentry
          exact (List.append_eq_nil_iff.mp hentry).1
        have hmemd : optToks (lookup ent f) ∈ (datasOf b.fields ent).map optToks :=
          List.mem_map_of_mem (f := optToks) (List.mem_of_getElem? hd)
        have := List.flatten_eq_nil_iff.mp hall _ hmemd
        cases hle : lookup ent f with
        | none => rfl
        | some v => rw [hle] at this; simp [optToks] at this
    · obtain ⟨c3, c4, c5, c6, c8⟩ := bucket_entry (decide (b.fields.length > 1)) g.2 mpre mpost _ hms hdead
      have hre : readEntry e s = some (encEntry (decide (b.fields.length > 1)) (datasOf b.fields ent)) := by
        rw [readEntry_of e s pre.length _ mpre.length _ _ h1 h2 c3 c4 c5 c6 h7]
        exact c8
      cases hi : indexOf? (b.fields.map Prod.fst) f with
      | none =>
        rw [(indexOf?_eq_none_iff_lookup b.fields f).mp hi]
        unfold readField
        rw [hre, hfields, hi]
      | some k =>
        have hlf : ∃ ty, lookup b.fields f = some ty := by
          cases hq : lookup b.fields f with
          | none => rw [(indexOf?_eq_none_iff_lookup b.fields f).mpr hq] at hi; cases hi
          | some ty => exact ⟨ty, rfl⟩
        obtain ⟨ty, hty⟩ := hlf
        rw [hty]
        simp only []
        have hd := datas_at_index b.fields ent f k hi
        have hi' : indexOf? (e.fields.map Prod.fst) f = some k := by rw [hfields]; exact hi
        by_cases hone : b.fields.length = 1
        · -- single-field metric: the entry is the bare field data
          have hm : decide (b.fields.length > 1) = false := by simp [hone]
          rw [hm] at hre
          rw [readField_single e s f k _ hre hi' (by rw [hfields]; exact hone)]
          have hdl : (datasOf b.fields ent).length = 1 := by simp [datasOf, hone]
          have hk0 : k = 0 := by
            have := (List.getElem?_eq_some_iff.mp hd).1; omega
          subst hk0
          cases hds : datasOf b.fields ent with
          | nil => rw [hds] at hdl; simp at hdl
          | cons d0 t =>
            rw [hds] at hdl hd
            have ht : t = [] := by cases t with | nil => rfl | cons _ _ => simp at hdl
            subst ht
            simp only [List.getElem?_cons_zero, Option.some.injEq] at hd
            subst hd
            simp only [encEntry, List.map_cons, List.map_nil, List.flatten_cons, List.flatten_nil,
              List.append_nil, Bool.false_eq_true, if_false]
            exact optToks_match _
        · have hm : decide (b.fields.length > 1) = true := by
            have : b.fields.length ≠ 0 := by intro e0; exact hf (List.eq_nil_of_length_eq_zero e0)
            simp; omega
          rw [hm] at hre
          have hdne : datasOf b.fields ent ≠ [] := by
            intro e0; simp [datasOf] at e0; exact hf e0
          obtain ⟨f1, f2, f3⟩ := entry_field (datasOf b.fields ent) k _ hd (by simp [datasOf]; exact hone) hdne
          rw [readField_multi e s f k 1 _ hre hi' (by rw [hfields]; exact hone) f1]
          by_cases hz : (encEntry true (datasOf b.fields ent)).length - 1 - 1 = 0 ∨
              (encEntry true (datasOf b.fields ent)).length - 1 - 1 ≥ (encEntry true (datasOf b.fields ent)).length
          · rw [if_pos hz]; exact (f2 hz).symm
          · rw [if_neg hz]
            obtain ⟨g1, g2⟩ := f3 hz
            rw [g1]
            simp only []
            rw [g2]
            exact optToks_match _

end LinVerif.C03
