/-
The bit writer refines "append to a `List Bool`" (see Lemmas/C14Bits.lean for the vocabulary).
-/
import LinVerif.Lemmas.C14Bits

namespace LinVerif.Bits
open LinVerif.Varint (two64)

/-- bits of the current, not yet emitted byte -/
def Writer.pending (w : Writer) : List Bool := natBits (8 - w.count) (w.cur >>> w.count)

/-- the abstract stream written so far -/
def Writer.bits (w : Writer) : List Bool := bytesBits w.out ++ w.pending

/-- representation invariant of the writer (established by `Reset`, kept by every method) -/
structure Writer.Ok (w : Writer) : Prop where
  pos : 1 ≤ w.count
  le : w.count ≤ 8
  lt : w.cur < 256
  low : ∀ i, i < w.count → w.cur.testBit i = false
  outlt : ∀ x ∈ w.out, x < 256

theorem Writer.fresh_ok : Writer.fresh.Ok :=
  ⟨by decide, by decide, by decide, by intro i _; simp [Writer.fresh], by intro x hx; simp [Writer.fresh] at hx⟩
theorem Writer.reset_ok (w : Writer) (out : List Nat) (hout : ∀ x ∈ out, x < 256) : (w.reset out).Ok :=
  ⟨by simp [Writer.reset], by simp [Writer.reset], by simp [Writer.reset], by intro i _; simp [Writer.reset],
   by simpa [Writer.reset] using hout⟩
@[simp] theorem Writer.fresh_bits : Writer.fresh.bits = [] := by
  simp [Writer.fresh, Writer.bits, Writer.pending, natBits]
@[simp] theorem Writer.reset_bits (w : Writer) : (w.reset []).bits = [] := by
  simp [Writer.reset, Writer.bits, Writer.pending, natBits]

theorem natBits_split8 (k x : Nat) (hk : k ≤ 8) : natBits 8 x = natBits (8 - k) (x >>> k) ++ natBits k x := by
  have := natBits_add (8 - k) k x
  rwa [Nat.sub_add_cancel hk] at this

theorem natBits_split8' (k x : Nat) (hk : k ≤ 8) : natBits 8 x = natBits k (x >>> (8 - k)) ++ natBits (8 - k) x := by
  have := natBits_add k (8 - k) x
  rwa [Nat.add_sub_cancel' hk] at this

/-- key step of `WriteBit`: setting bit `c` of the current byte appends one bit to the pending bits -/
theorem pending_step (cur c : Nat) (b : Bool) (hc : c ≤ 7) (hlow : ∀ i, i < c + 1 → cur.testBit i = false) :
    natBits (8 - c) ((if b then cur ||| (1 <<< c) else cur) >>> c)
      = natBits (8 - (c + 1)) (cur >>> (c + 1)) ++ [b] := by
  have e : 8 - c = (8 - (c + 1)) + 1 := by omega
  rw [e, natBits_add]
  congr 1
  · apply natBits_congr
    intro i _
    rw [← Nat.shiftRight_add]
    cases b
    · simp
    · simp [Nat.testBit_shiftRight, Nat.testBit_or, Nat.one_shiftLeft, Nat.testBit_two_pow]
      omega
  · simp only [natBits, Nat.testBit_shiftRight, Nat.add_zero]
    cases b
    · simp [hlow c (by omega)]
    · simp [Nat.testBit_or, Nat.one_shiftLeft]

theorem writeBit_cur_lt (cur c : Nat) (b : Bool) (hc : c ≤ 7) (h : cur < 256) :
    (if b then cur ||| (1 <<< c) else cur) < 256 := by
  cases b
  · simpa using h
  · simp only [if_true]
    have h1 : (1 <<< c) < 2 ^ 8 := by
      rw [Nat.one_shiftLeft]; exact Nat.pow_lt_pow_right (by omega) (by omega)
    exact Nat.or_lt_two_pow (n := 8) (by omega) h1

theorem writeBit_low (cur c : Nat) (b : Bool) (hlow : ∀ i, i < c + 1 → cur.testBit i = false) :
    ∀ i, i < c → (if b then cur ||| (1 <<< c) else cur).testBit i = false := by
  intro i hi
  cases b
  · simpa using hlow i (by omega)
  · simp [Nat.testBit_or, Nat.one_shiftLeft, Nat.testBit_two_pow, hlow i (by omega)]
    omega

theorem Writer.writeBit_spec (w : Writer) (h : w.Ok) (b : Bool) :
    (w.writeBit b).Ok ∧ (w.writeBit b).bits = w.bits ++ [b] := by
  obtain ⟨hpos, hle, hlt, hlow, hout⟩ := h
  obtain ⟨c, hc⟩ : ∃ c, w.count = c + 1 := ⟨w.count - 1, by omega⟩
  have hc7 : c ≤ 7 := by omega
  have hlow' : ∀ i, i < c + 1 → w.cur.testBit i = false := by rw [← hc]; exact hlow
  have hstep := pending_step w.cur c b hc7 hlow'
  unfold Writer.writeBit
  simp only [hc, Nat.add_sub_cancel]
  by_cases h0 : c = 0
  · subst h0
    simp only [if_true]
    refine ⟨⟨by simp, by simp, by simp, by intro i _; simp, ?_⟩, ?_⟩
    · intro x hx
      simp only [List.mem_append, List.mem_singleton] at hx
      rcases hx with hx | hx
      · exact hout x hx
      · rw [hx]; exact writeBit_cur_lt _ _ _ (by omega) hlt
    simp only [Writer.bits, Writer.pending, bytesBits_append, bytesBits_cons, bytesBits_nil, List.append_nil, hc]
    have := hstep
    simp only [Nat.shiftRight_zero, Nat.sub_zero] at this
    rw [this]
    have e0 : natBits (8 - 8) (0 >>> 8) = [] := rfl
    rw [e0, List.append_nil, List.append_assoc]
  · simp only [if_neg h0]
    refine ⟨⟨by simp; omega, by simp; omega, writeBit_cur_lt _ _ _ hc7 hlt, writeBit_low _ _ _ hlow', hout⟩, ?_⟩
    simp only [Writer.bits, Writer.pending, hc, hstep, List.append_assoc]

theorem Writer.writeBit_ok (w : Writer) (h : w.Ok) (b : Bool) : (w.writeBit b).Ok := (w.writeBit_spec h b).1
theorem Writer.writeBit_bits (w : Writer) (h : w.Ok) (b : Bool) : (w.writeBit b).bits = w.bits ++ [b] :=
  (w.writeBit_spec h b).2

theorem Writer.writeByte_spec (w : Writer) (h : w.Ok) (b : Nat) (hb : b < 256) :
    (w.writeByte b).Ok ∧ (w.writeByte b).bits = w.bits ++ natBits 8 b := by
  obtain ⟨hpos, hle, hlt, hlow, hout⟩ := h
  unfold Writer.writeByte
  refine ⟨⟨hpos, hle, Nat.mod_lt _ (by decide), ?low, ?outlt⟩, ?bits⟩
  case outlt =>
    intro x hx
    dsimp only at hx
    simp only [List.mem_append, List.mem_singleton] at hx
    rcases hx with hx | hx
    · exact hout x hx
    · rw [hx]
      have hs : b >>> (8 - w.count) < 2 ^ 8 := by
        rw [Nat.shiftRight_eq_div_pow]
        exact Nat.lt_of_le_of_lt (Nat.div_le_self _ _) (by simpa using hb)
      exact Nat.or_lt_two_pow (n := 8) (by simpa using hlt) hs
  case low =>
    intro i hi
    dsimp only at hi
    have e : (256:Nat) = 2 ^ 8 := by decide
    simp only [e, Nat.testBit_mod_two_pow, Nat.testBit_shiftLeft]
    simp; omega
  case bits =>
    simp only [Writer.bits, Writer.pending, bytesBits_append, bytesBits_cons, bytesBits_nil, List.append_nil,
      List.append_assoc]
    congr 1
    -- natBits 8 c ++ pending' = pending ++ natBits 8 b
    have hL : natBits 8 (w.cur ||| b >>> (8 - w.count))
        = natBits (8 - w.count) (w.cur >>> w.count) ++ natBits w.count (b >>> (8 - w.count)) := by
      rw [natBits_split8 w.count _ hle]
      congr 1
      · apply natBits_congr
        intro i hi
        simp only [Nat.testBit_shiftRight, Nat.testBit_or]
        rw [testBit_of_lt_256 hb (by omega)]
        simp
      · apply natBits_congr
        intro i hi
        simp only [Nat.testBit_or, hlow i hi, Bool.false_or]
    have hR : natBits 8 b = natBits w.count (b >>> (8 - w.count)) ++ natBits (8 - w.count) b :=
      natBits_split8' w.count b hle
    have hP : natBits (8 - w.count) ((b <<< w.count % 256) >>> w.count) = natBits (8 - w.count) b := by
      apply natBits_congr
      intro i hi
      have e : (256:Nat) = 2 ^ 8 := by decide
      simp only [e, Nat.testBit_shiftRight, Nat.testBit_mod_two_pow, Nat.testBit_shiftLeft]
      have : w.count + i < 8 := by omega
      simp [this]
    rw [hL, hR, hP, List.append_assoc]

/-- the top `k` bits of a 64-bit word -/
def topBits (k u : Nat) : List Bool := natBits k (u >>> (64 - k))

theorem shr63_eq_testBit (u : Nat) (hu : u < two64) : ((u >>> 63) == 1) = u.testBit 63 := by
  rw [Nat.testBit_eq_decide_div_mod_eq, Nat.shiftRight_eq_div_pow]
  simp only [two64] at hu
  have : u / 2 ^ 63 < 2 := by
    apply Nat.div_lt_of_lt_mul
    have : (2:Nat) ^ 63 * 2 = 18446744073709551616 := by decide
    omega
  have h2 : u / 2 ^ 63 % 2 = u / 2 ^ 63 := Nat.mod_eq_of_lt this
  rw [h2]
  by_cases h : u / 2 ^ 63 = 1 <;> simp [h]

theorem Writer.writeTopBits_spec : ∀ (k : Nat) (w : Writer) (u : Nat), w.Ok → u < two64 → k ≤ 64 →
    (w.writeTopBits u k).Ok ∧ (w.writeTopBits u k).bits = w.bits ++ topBits k u := by
  intro k
  induction k with
  | zero => intro w u h _ _; simp [Writer.writeTopBits, topBits, natBits, h]
  | succ k ih =>
    intro w u h hu hk
    simp only [Writer.writeTopBits]
    have hw := w.writeBit_spec h ((u >>> 63) == 1)
    have hu' : (u <<< 1) % two64 < two64 := Nat.mod_lt _ (by decide)
    obtain ⟨ok', hb'⟩ := ih (w.writeBit ((u >>> 63) == 1)) ((u <<< 1) % two64) hw.1 hu' (by omega)
    refine ⟨ok', ?_⟩
    rw [hb', hw.2, shr63_eq_testBit u hu, List.append_assoc]
    congr 1
    simp only [topBits, natBits, List.singleton_append]
    congr 1
    · rw [Nat.testBit_shiftRight]; congr 1; omega
    · apply natBits_congr
      intro i hi
      have e : two64 = 2 ^ 64 := by decide
      simp only [e, Nat.testBit_shiftRight, Nat.testBit_mod_two_pow, Nat.testBit_shiftLeft]
      have h1 : 64 - k + i < 64 := by omega
      have h2 : 64 - k + i ≥ 1 := by omega
      simp only [h1, h2, decide_true, Bool.true_and]
      congr 1; omega

theorem shr56_lt (u : Nat) (hu : u < two64) : u >>> 56 < 256 := by
  rw [Nat.shiftRight_eq_div_pow]
  simp only [two64] at hu
  apply Nat.div_lt_of_lt_mul
  have : (2:Nat) ^ 56 * 256 = 18446744073709551616 := by decide
  omega

theorem Writer.writeTopBytes_spec : ∀ (k : Nat) (w : Writer) (u : Nat), w.Ok → u < two64 → 8 * k ≤ 64 →
    (w.writeTopBytes u k).1.Ok ∧ (w.writeTopBytes u k).1.bits = w.bits ++ topBits (8 * k) u ∧
    (w.writeTopBytes u k).2 = (u <<< (8 * k)) % two64 := by
  intro k
  induction k with
  | zero =>
    intro w u h hu _
    simp [Writer.writeTopBytes, topBits, natBits, h, Nat.mod_eq_of_lt hu]
  | succ k ih =>
    intro w u h hu hk
    simp only [Writer.writeTopBytes]
    have hw := w.writeByte_spec h (u >>> 56) (shr56_lt u hu)
    have hu' : (u <<< 8) % two64 < two64 := Nat.mod_lt _ (by decide)
    obtain ⟨ok', hb', hv'⟩ := ih (w.writeByte (u >>> 56)) ((u <<< 8) % two64) hw.1 hu' (by omega)
    refine ⟨ok', ?_, ?_⟩
    · rw [hb', hw.2, List.append_assoc]
      congr 1
      have e8 : 8 * (k + 1) = 8 + 8 * k := by omega
      simp only [topBits]
      rw [e8, natBits_add]
      congr 1
      · rw [← Nat.shiftRight_add]; congr 2; omega
      · apply natBits_congr
        intro i hi
        have e : two64 = 2 ^ 64 := by decide
        simp only [e, Nat.testBit_shiftRight, Nat.testBit_mod_two_pow, Nat.testBit_shiftLeft]
        have h1 : 64 - 8 * k + i < 64 := by omega
        have h2 : 64 - 8 * k + i ≥ 8 := by omega
        simp only [h1, h2, decide_true, Bool.true_and]
        congr 1; omega
    · rw [hv']
      apply Nat.eq_of_testBit_eq
      intro i
      have e : two64 = 2 ^ 64 := by decide
      simp only [e, Nat.testBit_mod_two_pow, Nat.testBit_shiftLeft]
      by_cases hi : i < 64
      · by_cases hi2 : i ≥ 8 * (k + 1)
        · have h3 : i ≥ 8 * k := by omega
          have h4 : i - 8 * k < 64 := by omega
          have h5 : i - 8 * k ≥ 8 := by omega
          simp only [hi, hi2, h3, h4, h5, decide_true, Bool.true_and]
          congr 1
          try omega
        · by_cases h3 : i ≥ 8 * k
          · have h5 : ¬ (i - 8 * k ≥ 8) := by omega
            simp [hi, hi2, h3, h5]
          · simp [hi, hi2, h3]
      · simp [hi]

theorem Writer.writeBits_spec (w : Writer) (h : w.Ok) (u n : Nat) (hn : n ≤ 64) :
    (w.writeBits u n).Ok ∧ (w.writeBits u n).bits = w.bits ++ natBits n u := by
  unfold Writer.writeBits
  have hn' : ¬ n > 64 := by omega
  simp only [if_neg hn']
  have hu0 : ((u % two64) <<< (64 - n)) % two64 < two64 := Nat.mod_lt _ (by decide)
  obtain ⟨ok1, hb1, hv1⟩ := Writer.writeTopBytes_spec (n / 8) w _ h hu0 (by omega)
  generalize hw1 : w.writeTopBytes (((u % two64) <<< (64 - n)) % two64) (n / 8) = p at ok1 hb1 hv1
  obtain ⟨w1, u1⟩ := p
  simp only at ok1 hb1 hv1 ⊢
  have hu1 : u1 < two64 := by rw [hv1]; exact Nat.mod_lt _ (by decide)
  obtain ⟨ok2, hb2⟩ := Writer.writeTopBits_spec (n % 8) w1 u1 ok1 hu1 (by omega)
  refine ⟨ok2, ?_⟩
  rw [hb2, hb1, List.append_assoc]
  congr 1
  have en : n = 8 * (n / 8) + n % 8 := by omega
  conv => rhs; rw [en]
  rw [natBits_add]
  have e : two64 = 2 ^ 64 := by decide
  congr 1
  · simp only [topBits]
    apply natBits_congr
    intro i hi
    simp only [e, Nat.testBit_shiftRight, Nat.testBit_mod_two_pow, Nat.testBit_shiftLeft]
    have h1 : 64 - 8 * (n / 8) + i < 64 := by omega
    have h2 : 64 - 8 * (n / 8) + i ≥ 64 - n := by omega
    have h3 : 64 - 8 * (n / 8) + i - (64 - n) < 64 := by omega
    simp only [h1, h2, h3, decide_true, Bool.true_and]
    congr 1; omega
  · simp only [topBits, hv1]
    apply natBits_congr
    intro i hi
    simp only [e, Nat.testBit_shiftRight, Nat.testBit_mod_two_pow, Nat.testBit_shiftLeft]
    have h1 : 64 - n % 8 + i < 64 := by omega
    have h2 : 64 - n % 8 + i ≥ 8 * (n / 8) := by omega
    have h3 : 64 - n % 8 + i - 8 * (n / 8) < 64 := by omega
    have h4 : 64 - n % 8 + i - 8 * (n / 8) ≥ 64 - n := by omega
    have h5 : 64 - n % 8 + i - 8 * (n / 8) - (64 - n) < 64 := by omega
    simp only [h1, h2, h3, h4, h5, decide_true, Bool.true_and]
    congr 1; omega

theorem Writer.writeBits_ok (w : Writer) (h : w.Ok) (u n : Nat) (hn : n ≤ 64) : (w.writeBits u n).Ok :=
  (w.writeBits_spec h u n hn).1
theorem Writer.writeBits_bits (w : Writer) (h : w.Ok) (u n : Nat) (hn : n ≤ 64) :
    (w.writeBits u n).bits = w.bits ++ natBits n u := (w.writeBits_spec h u n hn).2

/-- number of zero padding bits `Flush` adds -/
def Writer.pad (w : Writer) : Nat := if w.count = 8 then 0 else w.count

/-- `Flush`: the bytes handed to the underlying buffer are exactly the stream written so far,
padded with zero bits to the next byte boundary. -/
theorem Writer.flush_bits (w : Writer) (h : w.Ok) :
    bytesBits w.flush.out = w.bits ++ List.replicate w.pad false := by
  obtain ⟨hpos, hle, hlt, hlow, hout⟩ := h
  unfold Writer.flush Writer.pad Writer.bits Writer.pending
  by_cases h8 : w.count = 8
  · simp [h8, natBits]
  · simp only [if_pos h8, if_neg h8, bytesBits_append, bytesBits_cons, bytesBits_nil, List.append_nil,
      List.append_assoc]
    congr 1
    rw [natBits_split8 w.count _ hle, natBits_eq_replicate hlow]

theorem Writer.flush_out_lt (w : Writer) (h : w.Ok) : ∀ x ∈ w.flush.out, x < 256 := by
  intro x hx
  unfold Writer.flush at hx
  split at hx
  · simp only [List.mem_append, List.mem_singleton] at hx
    rcases hx with hx | hx
    · exact h.outlt x hx
    · rw [hx]; exact h.lt
  · exact h.outlt x hx

theorem Writer.pad_lt (w : Writer) (h : w.Ok) : w.pad < 8 := by
  unfold Writer.pad; split <;> have := h.le <;> omega

end LinVerif.Bits
