/-
C03 helper lemmas for `Model/MergeAux.lean`: bitmaps by reference (prepare's union), the single TSD
stream (decoder loop = map-based `feed`), the version edit of a compaction.
-/
import LinVerif.Model.MergeAux
import LinVerif.Lemmas.C03Merge

set_option linter.unusedSectionVars false
set_option linter.unusedSimpArgs false
namespace LinVerif.C03
open LinVerif.Map LinVerif.MetricBlock LinVerif.Merge LinVerif.MergeAux

/-! ### A. bitmaps by reference -/
section AliasLemmas
open Alias

theorem deref_store (h : Heap) (r r' : Nat) (v : List Nat) :
    deref (store h r v) r' = if r' = r ∧ r < h.length then v else deref h r' := by
  unfold deref store
  by_cases e : r' = r
  · subst e
    by_cases hl : r' < h.length
    · simp [hl, List.getD_eq_getElem?_getD]
    · have : h.length ≤ r' := Nat.le_of_not_lt hl
      simp [hl, List.getD_eq_getElem?_getD, List.set_eq_of_length_le this]
  · simp [e, List.getD_eq_getElem?_getD, List.getElem?_set_ne (Ne.symm e)]

theorem store_length (h : Heap) (r : Nat) (v : List Nat) : (store h r v).length = h.length := by
  simp [store]

theorem orInto_length (h : Heap) (d s : Nat) : (orInto h d s).length = h.length := by
  simp [orInto, store_length]

theorem orInto_other (h : Heap) (d s r : Nat) (hr : r ≠ d) : deref (orInto h d s) r = deref h r := by
  unfold orInto
  rw [deref_store]
  simp [hr]

theorem orInto_dst (h : Heap) (d s : Nat) (hd : d < h.length) (hs : s ≠ d) (x : Nat) :
    x ∈ deref (orInto h d s) d ↔ x ∈ deref h d ∨ x ∈ deref h s := by
  unfold orInto
  rw [deref_store]
  simp only [hd, and_self, if_true]
  rw [mem_foldl_insertId]

/-- folding `Or` of the blocks' bitmaps into a separate union bitmap `u` -/
theorem fold_or_fresh (refs : List Nat) :
    ∀ (h : Heap) (u : Nat), u < h.length → (∀ r ∈ refs, r ≠ u) →
      (refs.foldl (fun hp r => orInto hp u r) h).length = h.length ∧
      (∀ r, r ≠ u → deref (refs.foldl (fun hp r => orInto hp u r) h) r = deref h r) ∧
      (∀ x, x ∈ deref (refs.foldl (fun hp r => orInto hp u r) h) u ↔ x ∈ deref h u ∨ ∃ r ∈ refs, x ∈ deref h r) := by
  induction refs with
  | nil => intro h u _ _; simp
  | cons r0 rest ih =>
    intro h u hu hne
    simp only [List.foldl_cons]
    have hr0 : r0 ≠ u := hne r0 List.mem_cons_self
    obtain ⟨i1, i2, i3⟩ := ih (orInto h u r0) u (by rw [orInto_length]; exact hu)
      (fun r hr => hne r (List.mem_cons_of_mem _ hr))
    refine ⟨by rw [i1, orInto_length], ?_, ?_⟩
    · intro r hr; rw [i2 r hr, orInto_other h u r0 r hr]
    · intro x
      rw [i3 x, orInto_dst h u r0 hu hr0 x]
      constructor
      · rintro ((h1 | h1) | ⟨r, hr, hx⟩)
        · left; exact h1
        · right; exact ⟨r0, List.mem_cons_self, h1⟩
        · right
          have hru : r ≠ u := hne r (List.mem_cons_of_mem _ hr)
          rw [orInto_other h u r0 r hru] at hx
          exact ⟨r, List.mem_cons_of_mem _ hr, hx⟩
      · rintro (h1 | ⟨r, hr, hx⟩)
        · left; left; exact h1
        · rcases List.mem_cons.mp hr with e | hr'
          · subst e; left; right; exact hx
          · right
            have hru : r ≠ u := hne r (List.mem_cons_of_mem _ hr')
            exact ⟨r, hr', by rw [orInto_other h u r0 r hru]; exact hx⟩

/-- **with a fresh union bitmap `prepare` leaves every input block's id set unchanged**, and the union
holds exactly the ids of the inputs -/
theorem prepareUnion_fresh (h : Heap) (refs : List Nat) (hrefs : ∀ r ∈ refs, r < h.length) :
    (∀ r, r < h.length → deref (prepareUnion true h refs).1 r = deref h r) ∧
    (prepareUnion true h refs).2 = h.length ∧
    (∀ x, x ∈ deref (prepareUnion true h refs).1 (prepareUnion true h refs).2 ↔ ∃ r ∈ refs, x ∈ deref h r) := by
  unfold prepareUnion
  simp only [if_true]
  have hu : h.length < (h ++ [[]]).length := by simp
  have hne : ∀ r ∈ refs, r ≠ h.length := fun r hr => Nat.ne_of_lt (hrefs r hr)
  obtain ⟨_, i2, i3⟩ := fold_or_fresh refs (h ++ [[]]) h.length hu hne
  have hgetold : ∀ r, r < h.length → deref (h ++ [[]]) r = deref h r := by
    intro r hr; unfold deref; simp [List.getD_eq_getElem?_getD, List.getElem?_append_left hr]
  have hgetu : deref (h ++ [[]]) h.length = [] := by
    unfold deref; simp [List.getD_eq_getElem?_getD]
  refine ⟨?_, trivial, ?_⟩
  · intro r hr
    rw [i2 r (Nat.ne_of_lt hr), hgetold r hr]
  · intro x
    rw [i3 x, hgetu]
    simp only [List.not_mem_nil, false_or]
    constructor
    · rintro ⟨r, hr, hx⟩; exact ⟨r, hr, by rw [← hgetold r (hrefs r hr)]; exact hx⟩
    · rintro ⟨r, hr, hx⟩; exact ⟨r, hr, by rw [hgetold r (hrefs r hr)]; exact hx⟩

end AliasLemmas

/-! ### B. the single TSD stream -/
section StreamLemmas
open Stream
variable {V : Type}

/-- **the decoder loop over the one bit stream is the map-based loop**: reading the value right behind
every set bit keeps the reader in step for every aggregate (first/last included), whatever the
position tests decide -/
theorem feedS_eq_feed (keepsOld : Bool) (op : V → V → V) (cfg : Cfg) (tStart len : Nat) (vals : List (Nat × V)) :
    ∀ (n : Nat) (acc : List (Nat × V)) (t : Nat),
      feedS true keepsOld op cfg tStart len (encode vals t n) acc t n = some (feed op cfg tStart len vals acc t n) := by
  intro n
  induction n with
  | zero => intro acc t; rfl
  | succ n ih =>
    intro acc t
    unfold encode feed
    cases hv : lookup vals t with
    | none =>
      simp only [feedS, readBit]
      exact ih acc (t + 1)
    | some v =>
      simp only [feedS, readBit, readVal, if_true]
      split
      · exact ih acc (t + 1)
      · split
        · rfl
        · exact ih _ (t + 1)

end StreamLemmas

/-! ### C. the version edit -/
section EditLemmas
open Edit

theorem levelOf_set (v : Version) (l i : Nat) (x : List Nat) (hl : l < v.length) :
    levelOf (v.set l x) i = if i = l then x else levelOf v i := by
  unfold levelOf
  by_cases e : i = l
  · subst e; simp [List.getD_eq_getElem?_getD, hl]
  · simp [e, List.getD_eq_getElem?_getD, List.getElem?_set_ne (Ne.symm e)]

theorem applyAll_deletes (l : Nat) (fs : List Nat) :
    ∀ (v : Version), l < v.length →
      (applyAll v (fs.map (Rec.delete l))).length = v.length ∧
      ∀ i, levelOf (applyAll v (fs.map (Rec.delete l))) i =
        if i = l then (levelOf v l).filter (fun x => decide (x ∉ fs)) else levelOf v i := by
  induction fs with
  | nil => intro v _; simp [applyAll]
  | cons f r ih =>
    intro v hl
    simp only [List.map_cons, applyAll, List.foldl_cons]
    have hstep : applyRec v (Rec.delete l f) = v.set l ((levelOf v l).filter (· ≠ f)) := by
      simp [applyRec, hl]
    rw [hstep]
    have hl' : l < (v.set l ((levelOf v l).filter (· ≠ f))).length := by simpa using hl
    obtain ⟨i1, i2⟩ := ih _ hl'
    unfold applyAll at i1 i2
    refine ⟨by rw [i1]; simp, ?_⟩
    intro i
    rw [i2 i]
    by_cases e : i = l
    · subst e
      simp only [if_true]
      rw [levelOf_set v i i _ hl]
      simp only [if_true, List.filter_filter]
      apply List.filter_congr
      intro x _
      simp only [List.mem_cons, not_or, ne_eq, Bool.decide_and]
      exact Bool.and_comm _ _
    · simp only [e, if_false]
      rw [levelOf_set v l i _ hl]; simp [e]

theorem applyAll_adds (l : Nat) (fs : List Nat) :
    ∀ (v : Version), l < v.length →
      (applyAll v (fs.map (Rec.add l))).length = v.length ∧
      ∀ i, levelOf (applyAll v (fs.map (Rec.add l))) i = if i = l then levelOf v l ++ fs else levelOf v i := by
  induction fs with
  | nil => intro v _; simp [applyAll]
  | cons f r ih =>
    intro v hl
    simp only [List.map_cons, applyAll, List.foldl_cons]
    have hstep : applyRec v (Rec.add l f) = v.set l (levelOf v l ++ [f]) := by
      simp [applyRec, hl]
    rw [hstep]
    have hl' : l < (v.set l (levelOf v l ++ [f])).length := by simpa using hl
    obtain ⟨i1, i2⟩ := ih _ hl'
    unfold applyAll at i1 i2
    refine ⟨by rw [i1]; simp, ?_⟩
    intro i
    rw [i2 i]
    by_cases e : i = l
    · subst e
      simp only [if_true]
      rw [levelOf_set v i i _ hl]; simp
    · simp only [e, if_false]
      rw [levelOf_set v l i _ hl]; simp [e]

theorem applyAll_append (v : Version) (a b : List Rec) : applyAll v (a ++ b) = applyAll (applyAll v a) b := by
  simp [applyAll, List.foldl_append]

/-- **the version edit of a merge compaction**: exactly the level-`level` inputs leave `level`, exactly the
level-`level+1` inputs leave `level+1`, the outputs are added to `level+1`, nothing else changes -/
theorem install_effect (v : Version) (level : Nat) (ins ups outs : List Nat) (hl : level + 1 < v.length) :
    ∀ i, levelOf (applyAll v (installRecs true level ins ups outs)) i =
      if i = level then (levelOf v level).filter (fun x => decide (x ∉ ins))
      else if i = level + 1 then (levelOf v (level + 1)).filter (fun x => decide (x ∉ ups)) ++ outs
      else levelOf v i := by
  intro i
  unfold installRecs markInputDeletes
  simp only [if_true]
  rw [applyAll_append, applyAll_append]
  obtain ⟨a1, a2⟩ := applyAll_deletes level ins v (by omega)
  obtain ⟨b1, b2⟩ := applyAll_deletes (level + 1) ups (applyAll v (ins.map (Rec.delete level))) (by rw [a1]; exact hl)
  obtain ⟨_, c2⟩ := applyAll_adds (level + 1) outs
    (applyAll (applyAll v (ins.map (Rec.delete level))) (ups.map (Rec.delete (level + 1)))) (by rw [b1, a1]; exact hl)
  rw [c2 i]
  by_cases e1 : i = level
  · subst e1
    have : ¬ (i = i + 1) := by omega
    simp only [this, if_false, if_true]
    rw [b2 i]; simp only [this, if_false]
    rw [a2 i]; simp
  · by_cases e2 : i = level + 1
    · subst e2
      simp only [e1, if_false, if_true]
      rw [b2 (level + 1)]; simp only [if_true]
      rw [a2 (level + 1)]
      have : ¬ (level + 1 = level) := by omega
      simp [this]
    · simp only [e1, e2, if_false]
      rw [b2 i]; simp only [e2, if_false]
      rw [a2 i]; simp [e1]

end EditLemmas

end LinVerif.C03
