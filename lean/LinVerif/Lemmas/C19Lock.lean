/-
C19 helper lemmas, part 10: the lock discipline of completeStage when Complete() hooks panic
(Model/CompleteLock.lean): inductive invariant, no-deadlock / exactly-once for the guarded shape,
termination measure.
-/
import LinVerif.Model.CompleteLock

namespace LinVerif.CompleteLock

/-- a goroutine is inside the critical section and will leave it -/
def inCS : Holder → Nat
  | .hook _ => 1
  | .unlock => 1
  | _ => 0

def panicking : Holder → Nat
  | .hook true => 1
  | _ => 0

/-- the invariant; `m` = number of stages whose hook panics -/
structure Inv (g : Bool) (m : Nat) (s : St) : Prop where
  pend : s.pending = ((s.wOk + s.wPanic + s.wRetry + inCS s.holder + s.atDec : Nat) : Int)
  fire0 : s.pending ≠ 0 → s.atFire = 0 ∧ s.fired = 0
  fire1 : s.pending = 0 → s.atFire + s.fired = 1
  comp : (s.completed = true ↔ s.fired = 1)
  noLeak : g = true → s.holder ≠ .leaked ∧ s.wRetry = 0
  err : g = true → s.firstErr = true ∨ s.wPanic + panicking s.holder = m

theorem inv_init (g : Bool) (n m : Nat) (h : 0 < n + m) : Inv g m (init n m) := by
  refine ⟨?_, ?_, ?_, ?_, ?_, ?_⟩ <;> simp [init, inCS, panicking] <;> omega

theorem inv_step {g : Bool} {m : Nat} {s s' : St} (r : Rule) (hi : Inv g m s)
    (h : step g r s = some s') : Inv g m s' := by
  obtain ⟨h1, h2, h3, h4, h5, h6⟩ := hi
  cases r <;> simp only [step] at h
  · -- lockOk
    split at h
    · rename_i hc
      injection h with h; subst h
      obtain ⟨hf, hw⟩ := hc
      simp only [hf, inCS, panicking] at h1 h5 h6
      refine ⟨?_, ?_, ?_, h4, ?_, ?_⟩ <;> simp only [inCS, panicking]
      · omega
      · exact h2
      · exact h3
      · intro hg; exact ⟨by simp, (h5 hg).2⟩
      · intro hg; simpa using h6 hg
    · cases h
  · -- lockPanic
    split at h
    · rename_i hc
      injection h with h; subst h
      obtain ⟨hf, hw⟩ := hc
      simp only [hf, inCS, panicking] at h1 h5 h6
      refine ⟨?_, ?_, ?_, h4, ?_, ?_⟩ <;> simp only [inCS, panicking]
      · omega
      · exact h2
      · exact h3
      · intro hg; exact ⟨by simp, (h5 hg).2⟩
      · intro hg
        rcases h6 hg with h | h
        · exact Or.inl h
        · right; omega
    · cases h
  · -- lockRetry
    split at h
    · rename_i hc
      injection h with h; subst h
      obtain ⟨hf, hw⟩ := hc
      simp only [hf, inCS, panicking] at h1 h5 h6
      refine ⟨?_, ?_, ?_, h4, ?_, ?_⟩ <;> simp only [inCS, panicking]
      · omega
      · exact h2
      · exact h3
      · intro hg; have := (h5 hg).2; omega
      · intro _; simp
    · cases h
  · -- hook
    split at h
    · -- hook false
      rename_i hh
      injection h with h; subst h
      simp only [hh, inCS, panicking] at h1 h5 h6
      refine ⟨?_, ?_, ?_, h4, ?_, ?_⟩ <;> simp only [inCS, panicking]
      · omega
      · exact h2
      · exact h3
      · intro hg; exact ⟨by simp, (h5 hg).2⟩
      · intro hg; simpa using h6 hg
    · -- hook true
      rename_i hh
      simp only [hh, inCS, panicking] at h1 h5 h6
      split at h
      · rename_i hg
        injection h with h; subst h
        refine ⟨?_, ?_, ?_, h4, ?_, ?_⟩ <;> simp only [inCS, panicking]
        · omega
        · exact h2
        · exact h3
        · intro hg'; exact ⟨by simp, (h5 hg').2⟩
        · intro _; simp
      · rename_i hg
        injection h with h; subst h
        refine ⟨?_, ?_, ?_, h4, ?_, ?_⟩ <;> simp only [inCS, panicking]
        · omega
        · exact h2
        · exact h3
        · intro hg'; exact absurd hg' hg
        · intro hg'; exact absurd hg' hg
    · cases h
  · -- unlock
    split at h
    · rename_i hh
      injection h with h; subst h
      simp only [hh, inCS, panicking] at h1 h5 h6
      refine ⟨?_, ?_, ?_, h4, ?_, ?_⟩ <;> simp only [inCS, panicking]
      · omega
      · exact h2
      · exact h3
      · intro hg; exact ⟨by simp, (h5 hg).2⟩
      · intro hg; simpa using h6 hg
    · cases h
  · -- dec
    split at h
    · rename_i hd
      injection h with h; subst h
      have hp : s.pending ≠ 0 := by omega
      obtain ⟨ha, hf⟩ := h2 hp
      refine ⟨?_, ?_, ?_, h4, h5, h6⟩
      · simp only; omega
      · intro hne; simp only at hne ⊢; simp [hne, ha, hf]
      · intro he; simp only at he ⊢; simp [he, ha, hf]
    · cases h
  · -- fire
    split at h
    · rename_i hf
      injection h with h; subst h
      have hp : s.pending = 0 := by
        by_cases hp : s.pending = 0
        · exact hp
        · have := (h2 hp).1; omega
      have hs := h3 hp
      have hfired : s.fired = 0 := by omega
      have hnc : s.completed = false := by
        cases hc : s.completed with
        | false => rfl
        | true => have := h4.mp hc; omega
      simp only [hnc, Bool.false_eq_true, ↓reduceIte]
      refine ⟨h1, ?_, ?_, ?_, h5, h6⟩
      · intro hne; exact absurd hp hne
      · intro _; simp only; omega
      · simp [hfired]
    · cases h

theorem inv_reachable {g : Bool} {n m : Nat} (h : 0 < n + m) {s : St}
    (hr : Reachable g (init n m) s) : Inv g m s := by
  induction hr with
  | refl => exact inv_init g n m h
  | step r _ hs ih => exact inv_step r ih hs

/-- the guarded shape: a state in which nobody can move is the regular end — the mutex is free, every
stage has decremented `pending`, the callback fired exactly once, and it carries the hook's panic -/
theorem stuck_guarded {m : Nat} {s : St} (hi : Inv true m s) (hs : Stuck true s) :
    s.holder = .free ∧ s.pending = 0 ∧ s.fired = 1 ∧ s.completed = true ∧ (0 < m → s.firstErr = true) := by
  obtain ⟨h1, h2, h3, h4, h5, h6⟩ := hi
  have hl := (h5 rfl)
  have hfree : s.holder = .free := by
    have hh := hs .hook
    have hu := hs .unlock
    simp only [step] at hh hu
    cases hho : s.holder with
    | free => rfl
    | hook p => cases p <;> simp [hho] at hh
    | unlock => simp [hho] at hu
    | leaked => exact absurd hho hl.1
  have hwo : s.wOk = 0 := by
    have := hs .lockOk; simp only [step, hfree, true_and] at this
    by_cases h0 : 0 < s.wOk
    · simp [h0] at this
    · omega
  have hwp : s.wPanic = 0 := by
    have := hs .lockPanic; simp only [step, hfree, true_and] at this
    by_cases h0 : 0 < s.wPanic
    · simp [h0] at this
    · omega
  have hd : s.atDec = 0 := by
    have := hs .dec; simp only [step] at this
    by_cases h0 : 0 < s.atDec
    · simp [h0] at this
    · omega
  have hf : s.atFire = 0 := by
    have := hs .fire; simp only [step] at this
    by_cases h0 : 0 < s.atFire
    · simp [h0] at this
    · omega
  have hp : s.pending = 0 := by
    rw [h1, hwo, hwp, hl.2, hd, hfree]; simp [inCS]
  have hfired : s.fired = 1 := by have := h3 hp; omega
  refine ⟨hfree, hp, hfired, h4.mpr hfired, fun hm => ?_⟩
  rcases h6 rfl with h | h
  · exact h
  · rw [hwp, hfree] at h; simp [panicking] at h; omega

/-- every step decreases the measure: all runs are finite -/
theorem step_measure {g : Bool} {s s' : St} (r : Rule) (h : step g r s = some s') :
    measure s' < measure s := by
  cases r <;> simp only [step] at h
  · split at h
    · rename_i hc; injection h with h; subst h; simp only [measure, hc.1]; omega
    · cases h
  · split at h
    · rename_i hc; injection h with h; subst h; simp only [measure, hc.1]; omega
    · cases h
  · split at h
    · rename_i hc; injection h with h; subst h; simp only [measure, hc.1]; omega
    · cases h
  · split at h
    · rename_i hh; injection h with h; subst h; simp only [measure, hh]; omega
    · rename_i hh
      split at h <;> (injection h with h; subst h; simp only [measure, hh]; omega)
    · cases h
  · split at h
    · rename_i hh; injection h with h; subst h; simp only [measure, hh]; omega
    · cases h
  · split at h
    · rename_i hd; injection h with h; subst h; simp only [measure]
      by_cases hz : s.pending - 1 = 0 <;> simp only [hz, ↓reduceIte] <;> omega
    · cases h
  · split at h
    · rename_i hf; injection h with h; subst h
      split <;> (simp only [measure]; omega)
    · cases h

end LinVerif.CompleteLock
