/-
C09, indexKVStore in sequential histories (get-or-create / PrepareFlush / Flush / reopen as whole
operations): the lookup view, and the invariant that makes it a stable injective dictionary.
-/
import LinVerif.Model.IdAssignConc

namespace LinVerif.IdAssign

/-! ### the uninterrupted get-or-create is "lookup, else create" in every variant -/

theorem getOrCreate_hit (v : KvVariant) (s : KvStore) (ctr b n i : Nat) (h : s.lookup b n = some i) :
    getOrCreate v s ctr b n = (s, ctr, some i) := by
  unfold KvStore.lookup at h
  unfold getOrCreate
  cases hm : s.lookupMem b n with
  | some j =>
    simp [hm] at h; subst h
    simp [krun, kstep, hm]
  | none =>
    simp [hm] at h
    simp [krun, kstep, hm, h]

theorem getOrCreate_miss (v : KvVariant) (s : KvStore) (ctr b n : Nat) (h : s.lookup b n = none) :
    getOrCreate v s ctr b n = (s.insert b n ctr, ctr + 1, some ctr) := by
  unfold KvStore.lookup at h
  unfold getOrCreate
  cases hm : s.lookupMem b n with
  | some j => simp [hm] at h
  | none =>
    simp [hm] at h
    cases v <;> simp [krun, kstep, hm, h]

/-! ### the lookup view under the store operations -/

theorem lookup_eq (s : KvStore) (b n : Nat) :
    s.lookup b n = match s.mutable b n with
      | some i => some i
      | none => match s.immDict b n with
        | some i => some i
        | none => s.snap b n := by
  unfold KvStore.lookup KvStore.lookupMem KvStore.lookupPersisted KvStore.immDict
  cases s.mutable b n with
  | some i => simp
  | none =>
    cases s.immutable with
    | none => simp [Dict.empty]
    | some p => obtain ⟨d, e⟩ := p; rfl

theorem lookup_insert (s : KvStore) (b n i b' n' : Nat) :
    (s.insert b n i).lookup b' n' = if b' = b ∧ n' = n then some i else s.lookup b' n' := by
  rw [lookup_eq, lookup_eq]
  have h1 : (s.insert b n i).mutable b' n' = if b' = b ∧ n' = n then some i else s.mutable b' n' := rfl
  have h2 : (s.insert b n i).immDict = s.immDict := rfl
  have h3 : (s.insert b n i).snap = s.snap := rfl
  rw [h1, h2, h3]
  by_cases hk : b' = b ∧ n' = n <;> simp [hk]

theorem lookup_prepare (s : KvStore) (b n : Nat) : s.prepareFlush.lookup b n = s.lookup b n := by
  cases h : s.immutable with
  | some p => simp [KvStore.prepareFlush, h]
  | none =>
    rw [lookup_eq, lookup_eq]
    simp [KvStore.prepareFlush, h, KvStore.immDict, Dict.empty]

theorem lookup_flush (s : KvStore) (hs : s.snap = s.disk) (b n : Nat) : s.flush.lookup b n = s.lookup b n := by
  unfold KvStore.flush
  cases h : s.immutable with
  | none => simp [KvStore.commit, KvStore.finish, h]
  | some p =>
    obtain ⟨d, e⟩ := p
    cases e with
    | true => simp [KvStore.commit, KvStore.finish, h]
    | false =>
      rw [lookup_eq, lookup_eq]
      simp [KvStore.commit, KvStore.finish, h, KvStore.immDict, Dict.empty, Dict.over, hs]
      rfl

theorem flush_snap (s : KvStore) (hs : s.snap = s.disk) : s.flush.snap = s.flush.disk := by
  unfold KvStore.flush
  cases h : s.immutable with
  | none => simp [KvStore.commit, KvStore.finish, h, hs]
  | some p =>
    obtain ⟨d, e⟩ := p
    cases e <;> simp [KvStore.commit, KvStore.finish, h, hs]

theorem lookup_recover (s : KvStore) (b n : Nat) : s.recover.lookup b n = s.disk b n := by
  rw [lookup_eq]; simp [KvStore.recover, KvStore.immDict, Dict.empty]

/-! ### the sequential invariant -/

/-- `bound` = the in-memory counter (every id handed out is below it);
    `dbound` = the counter in the sequence file (every id in the kv family is below it). -/
structure SeqInv (s : KvStore) (bound dbound : Nat) : Prop where
  snapDisk : s.snap = s.disk
  immSub : ∀ b n i, s.immDict b n = some i → s.lookup b n = some i
  diskSub : ∀ b n i, s.disk b n = some i → s.lookup b n = some i
  bnd : ∀ b n i, s.lookup b n = some i → i < bound
  dbnd : ∀ b n i, s.disk b n = some i → i < dbound
  inj : ∀ b n b' n' i, s.lookup b n = some i → s.lookup b' n' = some i → b = b' ∧ n = n'
  /-- the IsEmpty() flags are accurate -/
  mutE : s.mutEmpty = true → ∀ b n, s.mutable b n = none
  immE : ∀ d, s.immutable = some (d, true) → ∀ b n, d b n = none

theorem seqInv_init (a b : Nat) : SeqInv {} a b := by
  refine ⟨rfl, ?_, ?_, ?_, ?_, ?_, fun _ _ _ => rfl, fun d hd => by cases hd⟩ <;> intro b n <;> simp [lookup_eq, KvStore.immDict, Dict.empty]

theorem seqInv_mono {s : KvStore} {a b a' b' : Nat} (h : SeqInv s a b) (ha : a ≤ a') (hb : b ≤ b') : SeqInv s a' b' :=
  ⟨h.snapDisk, h.immSub, h.diskSub, fun x n i hi => Nat.lt_of_lt_of_le (h.bnd x n i hi) ha,
   fun x n i hi => Nat.lt_of_lt_of_le (h.dbnd x n i hi) hb, h.inj, h.mutE, h.immE⟩

/-- creating a missing key with the counter value -/
theorem seqInv_insert {s : KvStore} {bound dbound b n : Nat} (h : SeqInv s bound dbound) (hm : s.lookup b n = none) :
    SeqInv (s.insert b n bound) (bound + 1) dbound := by
  have keep : ∀ b' n' i, s.lookup b' n' = some i → (s.insert b n bound).lookup b' n' = some i := by
    intro b' n' i this
    rw [lookup_insert]
    by_cases hk : b' = b ∧ n' = n
    · obtain ⟨rfl, rfl⟩ := hk; rw [hm] at this; cases this
    · simp [hk, this]
  refine ⟨h.snapDisk, ?_, ?_, ?_, h.dbnd, ?_, fun hh => absurd hh (by simp [KvStore.insert]), h.immE⟩
  · intro b' n' i hi; exact keep _ _ _ (h.immSub _ _ _ hi)
  · intro b' n' i hi; exact keep _ _ _ (h.diskSub _ _ _ hi)
  · intro b' n' i hi
    rw [lookup_insert] at hi
    by_cases hk : b' = b ∧ n' = n
    · simp [hk] at hi; omega
    · simp [hk] at hi; exact Nat.lt_succ_of_lt (h.bnd _ _ _ hi)
  · intro b1 n1 b2 n2 i h1 h2
    rw [lookup_insert] at h1 h2
    by_cases hk1 : b1 = b ∧ n1 = n <;> by_cases hk2 : b2 = b ∧ n2 = n
    · exact ⟨hk1.1.trans hk2.1.symm, hk1.2.trans hk2.2.symm⟩
    · simp [hk1] at h1; simp [hk2] at h2; subst h1
      exact absurd (h.bnd _ _ _ h2) (Nat.lt_irrefl _)
    · simp [hk1] at h1; simp [hk2] at h2; subst h2
      exact absurd (h.bnd _ _ _ h1) (Nat.lt_irrefl _)
    · simp [hk1] at h1; simp [hk2] at h2; exact h.inj _ _ _ _ _ h1 h2

theorem seqInv_prepare {s : KvStore} {bound dbound : Nat} (h : SeqInv s bound dbound) : SeqInv s.prepareFlush bound dbound := by
  have hd : s.prepareFlush.disk = s.disk := by
    cases hi : s.immutable <;> simp [KvStore.prepareFlush, hi]
  have hsn : s.prepareFlush.snap = s.snap := by
    cases hi : s.immutable <;> simp [KvStore.prepareFlush, hi]
  refine ⟨by rw [hd, hsn]; exact h.snapDisk, ?_, ?_, ?_, ?_, ?_, ?_, ?_⟩
  · intro b n i hi
    rw [lookup_prepare]
    cases him : s.immutable with
    | some p =>
      rw [show s.prepareFlush = s by simp [KvStore.prepareFlush, him]] at hi
      exact h.immSub _ _ _ hi
    | none =>
      have : s.prepareFlush.immDict = s.mutable := by simp [KvStore.prepareFlush, him, KvStore.immDict]
      rw [this] at hi
      rw [lookup_eq]; simp [hi]
  · intro b n i hi; rw [lookup_prepare]; rw [hd] at hi; exact h.diskSub _ _ _ hi
  · intro b n i hi; rw [lookup_prepare] at hi; exact h.bnd _ _ _ hi
  · intro b n i hi; rw [hd] at hi; exact h.dbnd _ _ _ hi
  · intro b n b' n' i h1 h2; rw [lookup_prepare] at h1 h2; exact h.inj _ _ _ _ _ h1 h2
  · intro hm b n
    cases him : s.immutable with
    | some p => rw [show s.prepareFlush = s by simp [KvStore.prepareFlush, him]] at hm ⊢; exact h.mutE hm b n
    | none => simp [KvStore.prepareFlush, him, Dict.empty]
  · intro d' hd' b n
    cases him : s.immutable with
    | some p => rw [show s.prepareFlush = s by simp [KvStore.prepareFlush, him]] at hd'; exact h.immE d' hd' b n
    | none =>
      simp [KvStore.prepareFlush, him] at hd'
      rw [← hd'.1]; exact h.mutE hd'.2 b n

theorem flush_disk_sub {s : KvStore} {bound dbound : Nat} (h : SeqInv s bound dbound) (b n i : Nat)
    (hi : s.flush.disk b n = some i) : s.lookup b n = some i := by
  unfold KvStore.flush at hi
  cases him : s.immutable with
  | none => simp [KvStore.commit, KvStore.finish, him] at hi; exact h.diskSub _ _ _ hi
  | some p =>
    obtain ⟨d, e⟩ := p
    cases e with
    | true => simp [KvStore.commit, KvStore.finish, him] at hi; exact h.diskSub _ _ _ hi
    | false =>
      simp [KvStore.commit, KvStore.finish, him, Dict.over] at hi
      cases hdb : d b n with
      | some k =>
        simp [hdb] at hi; subst hi
        apply h.immSub; simp [KvStore.immDict, him, hdb]
      | none => simp [hdb] at hi; exact h.diskSub _ _ _ hi

theorem flush_immDict (s : KvStore) (b n i : Nat) (hi : s.flush.immDict b n = some i) : s.immDict b n = some i := by
  unfold KvStore.flush at hi
  cases him : s.immutable with
  | none => simp [KvStore.commit, KvStore.finish, him, KvStore.immDict, Dict.empty] at hi
  | some p =>
    obtain ⟨d, e⟩ := p
    cases e with
    | true => simpa [KvStore.commit, KvStore.finish, him, KvStore.immDict] using hi
    | false => simp [KvStore.commit, KvStore.finish, him, KvStore.immDict, Dict.empty] at hi

/-- a flush commits ids that are below the in-memory counter: afterwards the kv family is bounded
by whatever bounds the view (`dbound'`), in particular by a counter synced after the ids were made -/
theorem seqInv_flush {s : KvStore} {bound dbound' : Nat} {dbound : Nat} (h : SeqInv s bound dbound)
    (hb : bound ≤ dbound') : SeqInv s.flush bound dbound' := by
  have hl := lookup_flush s h.snapDisk
  have hmut : s.flush.mutable = s.mutable ∧ s.flush.mutEmpty = s.mutEmpty := by
    cases him : s.immutable with
    | none => simp [KvStore.flush, KvStore.commit, KvStore.finish, him]
    | some p => obtain ⟨d, e⟩ := p; cases e <;> simp [KvStore.flush, KvStore.commit, KvStore.finish, him]
  have himm : ∀ d', s.flush.immutable = some (d', true) → s.immutable = some (d', true) := by
    intro d' hd'
    cases him : s.immutable with
    | none => simp [KvStore.flush, KvStore.commit, KvStore.finish, him] at hd'
    | some p =>
      obtain ⟨d, e⟩ := p
      cases e with
      | true => simpa [KvStore.flush, KvStore.commit, KvStore.finish, him] using hd'
      | false => simp [KvStore.flush, KvStore.commit, KvStore.finish, him] at hd'
  refine ⟨flush_snap s h.snapDisk, ?_, ?_, ?_, ?_, ?_, ?_, ?_⟩
  · intro b n i hi; rw [hl]; exact h.immSub _ _ _ (flush_immDict s b n i hi)
  · intro b n i hi; rw [hl]; exact flush_disk_sub h b n i hi
  · intro b n i hi; rw [hl] at hi; exact h.bnd _ _ _ hi
  · intro b n i hi; exact Nat.lt_of_lt_of_le (h.bnd _ _ _ (flush_disk_sub h b n i hi)) hb
  · intro b n b' n' i h1 h2; rw [hl] at h1 h2; exact h.inj _ _ _ _ _ h1 h2
  · intro hm b n; rw [hmut.1]; rw [hmut.2] at hm; exact h.mutE hm b n
  · intro d' hd'; exact h.immE d' (himm d' hd')

/-- a flush that commits nothing new keeps the kv-family bound -/
theorem flush_disk_old {s : KvStore} (h : s.needFlush = false) : s.flush = s := by
  unfold KvStore.needFlush at h
  cases him : s.immutable with
  | none => simp [KvStore.flush, KvStore.commit, KvStore.finish, him]
  | some p =>
    obtain ⟨d, e⟩ := p
    cases e with
    | true => simp [KvStore.flush, KvStore.commit, KvStore.finish, him]
    | false => simp [him] at h

/-- reopen: the view is the kv family; everything in it was in the view before, with the same id -/
theorem seqInv_recover {s : KvStore} {bound dbound : Nat} (h : SeqInv s bound dbound) : SeqInv s.recover dbound dbound := by
  have hl := lookup_recover s
  have hd : s.recover.disk = s.disk := rfl
  refine ⟨rfl, ?_, ?_, ?_, ?_, ?_, fun _ _ _ => rfl, fun d' hd' => by simp [KvStore.recover] at hd'⟩
  · intro b n i hi; simp [KvStore.recover, KvStore.immDict, Dict.empty] at hi
  · intro b n i hi; rw [hl]; exact hi
  · intro b n i hi; rw [hl] at hi; exact h.dbnd _ _ _ hi
  · intro b n i hi; exact h.dbnd _ _ _ hi
  · intro b n b' n' i h1 h2; rw [hl] at h1 h2
    exact h.inj _ _ _ _ _ (h.diskSub _ _ _ h1) (h.diskSub _ _ _ h2)

/-! ### `PrepareFlush` in the shape that also swaps an empty immutable map -/

theorem lookup_dropEmpty {s : KvStore} (hE : ∀ d, s.immutable = some (d, true) → ∀ b n, d b n = none) (b n : Nat) :
    s.dropEmpty.lookup b n = s.lookup b n := by
  unfold KvStore.dropEmpty
  cases him : s.immutable with
  | none => rfl
  | some p =>
    obtain ⟨d, e⟩ := p
    cases e with
    | false => rfl
    | true =>
      rw [lookup_eq, lookup_eq]
      simp [KvStore.immDict, him, Dict.empty, hE d him b n]

theorem seqInv_dropEmpty {s : KvStore} {bound dbound : Nat} (h : SeqInv s bound dbound) : SeqInv s.dropEmpty bound dbound := by
  have hl := lookup_dropEmpty h.immE
  have hd : s.dropEmpty.disk = s.disk := by
    unfold KvStore.dropEmpty; cases s.immutable with
    | none => rfl
    | some p => obtain ⟨d, e⟩ := p; cases e <;> rfl
  have hsn : s.dropEmpty.snap = s.snap := by
    unfold KvStore.dropEmpty; cases s.immutable with
    | none => rfl
    | some p => obtain ⟨d, e⟩ := p; cases e <;> rfl
  have hmu : s.dropEmpty.mutable = s.mutable ∧ s.dropEmpty.mutEmpty = s.mutEmpty := by
    unfold KvStore.dropEmpty; cases s.immutable with
    | none => exact ⟨rfl, rfl⟩
    | some p => obtain ⟨d, e⟩ := p; cases e <;> exact ⟨rfl, rfl⟩
  have himd : ∀ b n i, s.dropEmpty.immDict b n = some i → s.immDict b n = some i := by
    intro b n i hi
    unfold KvStore.dropEmpty at hi
    cases him : s.immutable with
    | none => simpa [him] using hi
    | some p =>
      obtain ⟨d, e⟩ := p
      cases e with
      | false => simpa [him] using hi
      | true => simp [him, KvStore.immDict, Dict.empty] at hi
  have himm : ∀ d', s.dropEmpty.immutable = some (d', true) → False := by
    intro d' hd'
    unfold KvStore.dropEmpty at hd'
    cases him : s.immutable with
    | none => simp [him] at hd'
    | some p =>
      obtain ⟨d, e⟩ := p
      cases e with
      | false => simp [him] at hd'
      | true => simp [him] at hd'
  refine ⟨by rw [hd, hsn]; exact h.snapDisk, ?_, ?_, ?_, ?_, ?_, ?_, ?_⟩
  · intro b n i hi; rw [hl]; exact h.immSub _ _ _ (himd _ _ _ hi)
  · intro b n i hi; rw [hl]; rw [hd] at hi; exact h.diskSub _ _ _ hi
  · intro b n i hi; rw [hl] at hi; exact h.bnd _ _ _ hi
  · intro b n i hi; rw [hd] at hi; exact h.dbnd _ _ _ hi
  · intro b n b' n' i h1 h2; rw [hl] at h1 h2; exact h.inj _ _ _ _ _ h1 h2
  · intro hm b n; rw [hmu.1]; rw [hmu.2] at hm; exact h.mutE hm b n
  · intro d' hd'; exact absurd (himm d' hd') id

theorem seqInv_prepareE {s : KvStore} {bound dbound : Nat} (h : SeqInv s bound dbound) (se : Bool) :
    SeqInv (s.prepareFlushE se) bound dbound := by
  unfold KvStore.prepareFlushE
  cases se with
  | false => simpa using seqInv_prepare h
  | true => simpa using seqInv_prepare (seqInv_dropEmpty h)

theorem lookup_prepareE {s : KvStore} {bound dbound : Nat} (h : SeqInv s bound dbound) (se : Bool) (b n : Nat) :
    (s.prepareFlushE se).lookup b n = s.lookup b n := by
  unfold KvStore.prepareFlushE
  cases se with
  | false => simp [lookup_prepare]
  | true => simp [lookup_prepare, lookup_dropEmpty h.immE]

end LinVerif.IdAssign
