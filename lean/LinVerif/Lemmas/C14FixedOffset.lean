/-
Fixed-width offset table (Model/FixedOffset.lean): marshal / unmarshal / Get / GetBlock.
-/
import LinVerif.Lemmas.C14Varint
import LinVerif.Model.FixedOffset

namespace LinVerif.FixedOffset
open LinVerif.Varint

/-! ### generic list facts -/

theorem flatMap_length_const {α β : Type} (f : α → List β) (w : Nat) (hf : ∀ a, (f a).length = w) (l : List α) :
    (l.flatMap f).length = l.length * w := by
  induction l with
  | nil => simp
  | cons a t ih => simp [List.flatMap_cons, hf, ih, Nat.add_mul]; omega

theorem flatMap_chunk {α β : Type} (f : α → List β) (w : Nat) (hf : ∀ a, (f a).length = w) :
    ∀ (l : List α) (i : Nat) (h : i < l.length), ((l.flatMap f).drop (i * w)).take w = f l[i] := by
  intro l
  induction l with
  | nil => intro i h; simp at h
  | cons a t ih =>
    intro i h
    cases i with
    | zero => simp [List.flatMap_cons, List.take_left' (hf a)]
    | succ j =>
      have e : (j + 1) * w = (f a).length + j * w := by rw [hf a, Nat.add_mul]; omega
      rw [List.flatMap_cons, e, ← List.drop_drop, List.drop_left]
      simpa using ih j (by simpa using h)

theorem flatMap_congr' {α β : Type} (f g : α → List β) (l : List α) (h : ∀ a ∈ l, f a = g a) :
    l.flatMap f = l.flatMap g := by
  induction l with
  | nil => rfl
  | cons a t ih =>
    rw [List.flatMap_cons, List.flatMap_cons, h a (by simp), ih (fun b hb => h b (by simp [hb]))]

/-! ### maximum -/

def maxFold (m : Int) (vs : List Int) : Int := vs.foldl (fun m v => if m < v then v else m) m

theorem maxFold_ge (vs : List Int) : ∀ m, m ≤ maxFold m vs ∧ ∀ v ∈ vs, v ≤ maxFold m vs := by
  induction vs with
  | nil => intro m; simp [maxFold]
  | cons a t ih =>
    intro m
    simp only [maxFold, List.foldl_cons]
    have h := ih (if m < a then a else m)
    simp only [maxFold] at h
    refine ⟨?_, ?_⟩
    · have := h.1; split at this <;> omega
    · intro v hv
      simp only [List.mem_cons] at hv
      rcases hv with rfl | hv
      · have := h.1; split at this <;> omega
      · exact h.2 v hv

theorem maxFold_lt (vs : List Int) (B : Int) : ∀ m, m < B → (∀ v ∈ vs, v < B) → maxFold m vs < B := by
  induction vs with
  | nil => intro m h _; simpa [maxFold] using h
  | cons a t ih =>
    intro m hm hv
    simp only [maxFold, List.foldl_cons]
    apply ih
    · have := hv a (by simp); split <;> omega
    · intro v hv'; exact hv v (by simp [hv'])

/-! ### one value -/

def decodeLE (bs : List Nat) : Nat := bs.getD 0 0 + 256 * bs.getD 1 0 + 65536 * bs.getD 2 0 + 16777216 * bs.getD 3 0

theorem leBytes_length (w v : Nat) (hw : w ≤ 4) : (leBytes w v).length = w := by
  simp [leBytes]; omega

theorem leBytes_lt (w v : Nat) : ∀ b ∈ leBytes w v, b < 256 := by
  intro b hb
  have := List.mem_of_mem_take hb
  simp only [List.mem_cons, List.mem_nil_iff, or_false] at this
  rcases this with h | h | h | h <;> omega

/-- a value that fits in `w` bytes is recovered from its first `w` little-endian bytes -/
theorem decodeLE_leBytes (w v : Nat) (hw1 : 1 ≤ w) (hw : w ≤ 4) (hv : v < 256 ^ w) : decodeLE (leBytes w v) = v := by
  have hcases : w = 1 ∨ w = 2 ∨ w = 3 ∨ w = 4 := by omega
  rcases hcases with rfl | rfl | rfl | rfl
  · have : v < 256 := by simpa using hv
    simp [decodeLE, leBytes]; omega
  · have : v < 65536 := by simpa using hv
    simp [decodeLE, leBytes]; omega
  · have : v < 16777216 := by simpa using hv
    simp [decodeLE, leBytes]; omega
  · have : v < 4294967296 := by simpa using hv
    simp [decodeLE, leBytes]; omega

theorem lt_pow_minWidth (v m : Nat) (hvm : v ≤ m) (hm : m < 4294967296) : v < 256 ^ uint32MinWidth m := by
  unfold uint32MinWidth
  split
  · simp; omega
  · split
    · simp; omega
    · split
      · simp; omega
      · simp; omega

theorem minWidth_range (m : Nat) : 1 ≤ uint32MinWidth m ∧ uint32MinWidth m ≤ 4 := by
  unfold uint32MinWidth
  split
  · omega
  · split
    · omega
    · split <;> omega

/-! ### the table -/

/-- encoder state holding the offsets `vs` (what `FromValues(vs)` leaves, see `addAll_eq`) -/
def encOf (inc : Bool) (vs : List Nat) : Enc := (Enc.fresh inc).fromValues (vs.map Int.ofNat)

def maxNat (vs : List Nat) : Nat := vs.foldl (fun m v => if m < v then v else m) 0

theorem maxFold_ofNat (vs : List Nat) : ∀ m : Nat,
    maxFold (m : Int) (vs.map Int.ofNat) = ((vs.foldl (fun m v => if m < v then v else m) m : Nat) : Int) := by
  induction vs with
  | nil => intro m; rfl
  | cons a t ih =>
    intro m
    simp only [maxFold, List.map_cons, List.foldl_cons]
    have h := ih (if m < a then a else m)
    simp only [maxFold] at h
    rw [← h]
    congr 1
    by_cases hc : m < a
    · have : (m : Int) < Int.ofNat a := by simpa using hc
      simp [hc, this]
    · have : ¬ (m : Int) < Int.ofNat a := by simpa using hc
      simp [hc, this]

theorem encOf_max (inc : Bool) (vs : List Nat) : (encOf inc vs).max = (maxNat vs : Int) := by
  have := maxFold_ofNat vs 0
  simpa [encOf, Enc.fromValues, maxFold, maxNat] using this

theorem le_maxNat (vs : List Nat) : ∀ v ∈ vs, v ≤ maxNat vs := by
  intro v hv
  have h := (maxFold_ge (vs.map Int.ofNat) 0).2 (Int.ofNat v) (by simpa using ⟨v, hv, rfl⟩)
  have e := maxFold_ofNat vs 0
  simp only [Int.ofNat_eq_natCast, Int.natCast_zero] at e
  have e' : maxFold 0 (vs.map Int.ofNat) = (maxNat vs : Int) := by simpa [maxNat] using e
  rw [e'] at h
  simpa using h

theorem maxNat_lt (vs : List Nat) (B : Nat) (hB : 0 < B) (h : ∀ v ∈ vs, v < B) : maxNat vs < B := by
  have h1 := maxFold_lt (vs.map Int.ofNat) (B : Int) 0 (by omega) (by
    intro v hv
    simp only [List.mem_map] at hv
    obtain ⟨a, ha, rfl⟩ := hv
    have := h a ha
    simp; omega)
  have e := maxFold_ofNat vs 0
  have e' : maxFold 0 (vs.map Int.ofNat) = (maxNat vs : Int) := by simpa [maxNat] using e
  rw [e'] at h1
  omega

theorem toU32_ofNat (v : Nat) (h : v < 4294967296) : toU32 (v : Int) = v := by
  unfold toU32; simp only [two32]; omega

/-- the body of the marshalled table: `w` bytes per offset -/
def body (w : Nat) (vs : List Nat) : List Nat := vs.flatMap (fun v => leBytes w v)

theorem encOf_marshal (inc : Bool) (vs : List Nat) (hne : vs ≠ []) (hlt : ∀ v ∈ vs, v < 4294967296) :
    (encOf inc vs).marshal = [uint32MinWidth (maxNat vs)] ++ putUvarint vs.length ++ body (uint32MinWidth (maxNat vs)) vs := by
  have hm := maxNat_lt vs 4294967296 (by omega) hlt
  have hw : (encOf inc vs).width = uint32MinWidth (maxNat vs) := by
    unfold Enc.width
    rw [encOf_max, toU32_ofNat _ hm]
  unfold Enc.marshal
  rw [hw]
  have hv : (encOf inc vs).values = vs.map Int.ofNat := rfl
  rw [hv]
  have hne' : ¬ (vs.map Int.ofNat = []) := by simpa using hne
  rw [if_neg hne']
  simp only [List.length_map, body, List.flatMap_map]
  congr 1
  exact flatMap_congr' _ _ vs (fun v hv' => by
    simp only [Int.ofNat_eq_natCast]
    rw [toU32_ofNat v (hlt v hv')])

theorem toI64_small (x : Int) (h0 : 0 ≤ x) (h1 : x < 9223372036854775808) : toI64 x = x := by
  unfold toI64; simp only [two63, two64]; omega

/-- `Unmarshal` of a marshalled table followed by arbitrary bytes, on ANY decoder object -/
theorem unmarshal_marshal (d0 : Dec) (w : Nat) (vs : List Nat) (junk : List Nat) (hw1 : 1 ≤ w) (hw : w ≤ 4)
    (hlen : vs.length < 4294967296) :
    d0.unmarshal ([w] ++ putUvarint vs.length ++ body w vs ++ junk)
      = (.ok junk, { block := body w vs, width := (w : Int), size := (vs.length : Int) }) := by
  have hbl : (body w vs).length = vs.length * w := flatMap_length_const _ w (fun v => leBytes_length w v hw) vs
  have hpl := putUvarint_length_pos vs.length
  have hstd := stdUvarint_put vs.length (body w vs ++ junk) (by simp only [two64]; omega)
  generalize hP : putUvarint vs.length = P at hpl hstd
  have hdata : [w] ++ P ++ body w vs ++ junk = w :: (P ++ (body w vs ++ junk)) := by simp
  unfold Dec.unmarshal
  rw [hdata]
  have hl2 : ¬ (w :: (P ++ (body w vs ++ junk))).length < 2 := by simp; omega
  simp only [hl2, if_false, List.getD_cons_zero, List.drop_succ_cons, List.drop_zero, hstd]
  have hwi : ¬ ((w : Int) < 0 ∨ (w : Int) > 4) := by omega
  have hpos : ¬ ((P.length : Int) ≤ 0) := by omega
  simp only [hwi, if_false, hpos]
  have hsz : toI64 (vs.length : Int) = (vs.length : Int) := toI64_small _ (by omega) (by omega)
  rw [hsz]
  have hmul : (w : Int) * (vs.length : Int) = ((vs.length * w : Nat) : Int) := by
    rw [Nat.mul_comm]; simp
  have hwn : vs.length * w ≤ 4 * 4294967296 := by
    have := Nat.mul_le_mul (Nat.le_of_lt hlen) hw
    omega
  rw [hmul]
  generalize hN : vs.length * w = N at hbl hwn ⊢
  have hP10 : P.length ≤ 10 := by
    rw [← hP]; unfold putUvarint
    have : ∀ fuel x, (putUvarintAux fuel x).length ≤ fuel + 1 := by
      intro fuel
      induction fuel with
      | zero => intro x; simp [putUvarintAux]
      | succ f ih =>
        intro x; unfold putUvarintAux; split
        · simp; have := ih (x / 128); omega
        · simp
    exact this 9 _
  rw [toI64_small (N : Int) (by omega) (by omega)]
  have hwant : toI64 (1 + (P.length : Int) + (N : Int)) = ((1 + P.length + N : Nat) : Int) := by
    rw [toI64_small _ (by omega) (by omega)]; simp
  rw [hwant]
  have hc : ¬ (((1 + P.length + N : Nat) : Int) > ((w :: (P ++ (body w vs ++ junk))).length : Nat) ∨
      ((1 + P.length + N : Nat) : Int) < 0 ∨ 1 + (P.length : Int) > ((1 + P.length + N : Nat) : Int)) := by
    simp only [List.length_cons, List.length_append, hbl]
    omega
  simp only [hc, if_false]
  have e1 : (1 + (P.length : Int)).toNat = 1 + P.length := by omega
  have e2 : ((1 + P.length + N : Nat) : Int).toNat = 1 + P.length + N := by omega
  rw [e1, e2]
  have hdrop : (w :: (P ++ (body w vs ++ junk))).drop (1 + P.length + N) = junk := by
    have : 1 + P.length + N = (w :: (P ++ body w vs)).length := by
      simp [hbl]; omega
    rw [this]
    have : w :: (P ++ (body w vs ++ junk)) = (w :: (P ++ body w vs)) ++ junk := by simp
    rw [this, List.drop_left]
  have htake : ((w :: (P ++ (body w vs ++ junk))).take (1 + P.length + N)).drop (1 + P.length) = body w vs := by
    have h1 : 1 + P.length + N = (w :: (P ++ body w vs)).length := by
      simp [hbl]; omega
    have h2 : w :: (P ++ (body w vs ++ junk)) = (w :: (P ++ body w vs)) ++ junk := by simp
    rw [h1, h2, List.take_left]
    have h3 : 1 + P.length = (w :: P).length := by simp; omega
    have h4 : w :: (P ++ body w vs) = (w :: P) ++ body w vs := by simp
    rw [h3, h4, List.drop_left]
  rw [hdrop, htake]

/-- `Get(i)` on the unmarshalled table -/
theorem get_body (w : Nat) (vs : List Nat) (hw1 : 1 ≤ w) (hw : w ≤ 4) (hfit : ∀ v ∈ vs, v < 256 ^ w)
    (i : Nat) (hi : i < vs.length) :
    ({ block := body w vs, width := (w : Int), size := (vs.length : Int) } : Dec).get (i : Int) = some (vs[i] : Int) := by
  have hbl : (body w vs).length = vs.length * w := flatMap_length_const _ w (fun v => leBytes_length w v hw) vs
  have hchunk := flatMap_chunk (fun v => leBytes w v) w (fun v => leBytes_length w v hw) vs i hi
  unfold Dec.get
  simp only
  have hiw : (i : Int) * (w : Int) = ((i * w : Nat) : Int) := by simp
  rw [hiw, hbl]
  have hlt : i * w + w ≤ vs.length * w := by
    have : (i + 1) * w ≤ vs.length * w := Nat.mul_le_mul_right w (by omega)
    rw [Nat.add_mul] at this; omega
  have hc1 : ¬ (((i * w : Nat) : Int) < 0 ∨ vs.length * w = 0 ∨ ((i * w : Nat) : Int) ≥ ((vs.length * w : Nat) : Int) ∨ (w : Int) > 4) := by
    omega
  have hc2 : ¬ (((i * w : Nat) : Int) + (w : Int) > ((vs.length * w : Nat) : Int)) := by omega
  simp only [hc1, if_false, hc2]
  have e1 : ((i * w : Nat) : Int).toNat = i * w := by omega
  have e2 : (w : Int).toNat = w := by omega
  rw [e1, e2]
  have hc : ((body w vs).drop (i * w)).take w = leBytes w vs[i] := hchunk
  rw [hc]
  have := decodeLE_leBytes w vs[i] hw1 hw (hfit _ (List.getElem_mem hi))
  unfold decodeLE at this
  rw [this]

theorem get_body_out (w : Nat) (vs : List Nat) (hw1 : 1 ≤ w) (hw : w ≤ 4) (i : Int)
    (hi : i < 0 ∨ i ≥ (vs.length : Int)) :
    ({ block := body w vs, width := (w : Int), size := (vs.length : Int) } : Dec).get i = none := by
  have hbl : (body w vs).length = vs.length * w := flatMap_length_const _ w (fun v => leBytes_length w v hw) vs
  unfold Dec.get
  simp only
  rw [hbl]
  have hcases : w = 1 ∨ w = 2 ∨ w = 3 ∨ w = 4 := by omega
  have hc1 : (i * (w : Int) < 0 ∨ vs.length * w = 0 ∨ i * (w : Int) ≥ ((vs.length * w : Nat) : Int) ∨ (w : Int) > 4) := by
    rcases hcases with rfl | rfl | rfl | rfl <;> omega
  simp only [hc1, if_true]


/-- `GetBlock(i, dataBlock)` on the unmarshalled table: the bytes between offset `i` and the next
offset (or the end of the data block for the last entry). -/
theorem getBlock_body (w : Nat) (vs : List Nat) (hw1 : 1 ≤ w) (hw : w ≤ 4) (hfit : ∀ v ∈ vs, v < 256 ^ w)
    (data : List Nat) (i : Nat) (hi : i < vs.length)
    (hmono : ∀ (h : i + 1 < vs.length), vs[i] ≤ vs[i + 1])
    (hbound : ∀ v ∈ vs, v ≤ data.length) :
    ({ block := body w vs, width := (w : Int), size := (vs.length : Int) } : Dec).getBlock (i : Int) data
      = .ok ((data.take ((vs[i + 1]?).getD data.length)).drop vs[i]) := by
  unfold Dec.getBlock
  rw [get_body w vs hw1 hw hfit i hi]
  simp only
  have hcast : (i : Int) + 1 = ((i + 1 : Nat) : Int) := by omega
  rw [hcast]
  have hvi : vs[i] ≤ data.length := hbound _ (List.getElem_mem hi)
  by_cases hn : i + 1 < vs.length
  · rw [get_body w vs hw1 hw hfit (i + 1) hn]
    have hv1 : vs[i + 1] ≤ data.length := hbound _ (List.getElem_mem hn)
    have hm := hmono hn
    have hc : ¬ ((vs[i] : Int) < 0 ∨ ((vs[i + 1] : Nat) : Int) < 0 ∨ ((vs[i + 1] : Nat) : Int) < (vs[i] : Int)
        ∨ ((vs[i + 1] : Nat) : Int) > (data.length : Int)) := by omega
    simp only [Option.getD_some, hc, if_false]
    have e1 : ((vs[i + 1] : Nat) : Int).toNat = vs[i + 1] := by omega
    have e2 : ((vs[i] : Nat) : Int).toNat = vs[i] := by omega
    rw [e1, e2, List.getElem?_eq_getElem hn]
    rfl
  · rw [get_body_out w vs hw1 hw _ (Or.inr (by omega))]
    have hc : ¬ ((vs[i] : Int) < 0 ∨ (data.length : Int) < 0 ∨ (data.length : Int) < (vs[i] : Int)
        ∨ (data.length : Int) > (data.length : Int)) := by omega
    simp only [Option.getD_none, hc, if_false]
    have e1 : ((data.length : Nat) : Int).toNat = data.length := by omega
    have e2 : ((vs[i] : Nat) : Int).toNat = vs[i] := by omega
    rw [e1, e2, List.getElem?_eq_none (by omega)]
    rfl

/-! ### building the table with `Add` -/

def Enc.addAll (e : Enc) : List Int → Except AddErr Enc
  | [] => .ok e
  | v :: vs =>
    match e.add v with
    | .ok e' => Enc.addAll e' vs
    | .error x => .error x

/-- `a ≤ v₀ ≤ v₁ ≤ …` -/
def nondecFrom (a : Int) : List Int → Prop
  | [] => True
  | v :: rest => a ≤ v ∧ nondecFrom v rest

theorem addAll_spec : ∀ (vs : List Int) (e : Enc), (∀ v ∈ vs, 0 ≤ v) →
    (e.ensureIncreasing = true → nondecFrom (e.values.getLast?.getD 0) vs) →
    e.addAll vs = .ok { e with values := e.values ++ vs, max := maxFold e.max vs } := by
  intro vs
  induction vs with
  | nil => intro e _ _; simp [Enc.addAll, maxFold]
  | cons v rest ih =>
    intro e hpos hinc
    have hv : 0 ≤ v := hpos v (by simp)
    have hadd : e.add v = .ok { e with values := e.values ++ [v], max := if e.max < v then v else e.max } := by
      unfold Enc.add
      have h1 : ¬ (e.ensureIncreasing = true ∧ e.values ≠ [] ∧ e.values.getLast?.getD 0 > v) := by
        intro ⟨hi, _, hgt⟩
        have := (hinc hi).1
        omega
      have h2 : ¬ v < 0 := by omega
      rw [if_neg h1, if_neg h2]
    simp only [Enc.addAll, hadd]
    rw [ih _ (fun x hx => hpos x (by simp [hx])) (by
      intro hi
      have := (hinc hi).2
      simpa using this)]
    simp [maxFold, List.append_assoc]

theorem nondecFrom_of_sorted (vs : List Nat) (h : ∀ i (hi : i + 1 < vs.length), vs[i] ≤ vs[i + 1]) :
    nondecFrom 0 (vs.map Int.ofNat) := by
  have key : ∀ (l : List Nat) (a : Nat), (∀ i (hi : i + 1 < (a :: l).length), (a :: l)[i] ≤ (a :: l)[i + 1]) →
      nondecFrom (a : Int) (l.map Int.ofNat) := by
    intro l
    induction l with
    | nil => intro a _; trivial
    | cons b t ih =>
      intro a hs
      refine ⟨?_, ?_⟩
      · have := hs 0 (by simp)
        simpa using this
      · apply ih b
        intro i hi
        have := hs (i + 1) (by simpa using hi)
        simpa using this
  cases vs with
  | nil => trivial
  | cons a t =>
    refine ⟨by simp, key t a h⟩

/-- adding non-decreasing (or, without `ensureIncreasing`, arbitrary) non-negative offsets one by
one is accepted and leaves the same encoder state as `FromValues` -/
theorem addAll_eq_encOf (inc : Bool) (vs : List Nat)
    (hs : inc = true → ∀ i (hi : i + 1 < vs.length), vs[i] ≤ vs[i + 1]) :
    (Enc.fresh inc).addAll (vs.map Int.ofNat) = .ok (encOf inc vs) := by
  rw [addAll_spec (vs.map Int.ofNat) (Enc.fresh inc) (by
      intro v hv
      simp only [List.mem_map] at hv
      obtain ⟨a, _, rfl⟩ := hv
      simp) (by
      intro hi
      simp only [Enc.fresh] at hi ⊢
      exact nondecFrom_of_sorted vs (hs hi))]
  simp [Enc.fresh, encOf, Enc.fromValues, maxFold]

end LinVerif.FixedOffset
