/-
Helper lemmas for `Model/C03FastPath.lean` (arm / consume discipline of the pooled decoders).
-/
import LinVerif.Model.C03FastPath
import LinVerif.Lemmas.C03Decoder
import LinVerif.Lemmas.C03Merge

set_option linter.unusedSectionVars false
set_option linter.unusedSimpArgs false
set_option linter.unusedVariables false
namespace LinVerif.C03
open LinVerif LinVerif.Map LinVerif.Merge LinVerif.C03Decoder LinVerif.C03FastPath

variable {V : Type}

/-- the slot loop over a decoder in ANY position (armed and never read, read half-way, exhausted): the moving
slot catches up with the decoder's position, from there on the loop reads to the end or to the `break`; whatever
it added to the accumulator, the decoder is spent afterwards -/
theorem decLoop_heals (op : V → V → V) (cfg : Cfg) (tStart len : Nat) :
    ∀ (n : Nat) (d : Dec V) (acc : List (Nat × V)) (t : Nat), d.start ≤ t → t ≤ d.idx + d.start →
      t + n = d.stop + 1 → Spent cfg tStart len (decLoop op cfg tStart len d acc t n).1 := by
  intro n
  induction n with
  | zero =>
    intro d acc t _ h2 h3 t' v h4 h5 _
    simp only [decLoop] at h4 h5
    omega
  | succ n ih =>
    intro d acc t h1 h2 h3
    by_cases e : t = d.idx + d.start
    · exact (decLoop_any op cfg tStart len (n + 1) d acc t e h3).2
    · have c : ¬ (t < d.start ∨ t > d.stop) := by omega
      have hr : d.read t = (d, none) := by unfold Dec.read; rw [if_neg c, if_neg e]
      unfold decLoop
      rw [hr]
      exact ih d acc (t + 1) (by omega) (by omega) (by omega)

/-- the whole-range loop `DownSamplingMultiSeriesInto` runs over a decoder object, from any position -/
theorem decLoop_heals_whole (op : V → V → V) (cfg : Cfg) (tStart len : Nat) (d : Dec V) (acc : List (Nat × V)) :
    Spent cfg tStart len (decLoop op cfg tStart len d acc d.start (d.stop + 1 - d.start)).1 := by
  by_cases hab : d.start ≤ d.stop + 1
  · exact decLoop_heals op cfg tStart len (d.stop + 1 - d.start) d acc d.start (Nat.le_refl _) (by omega) (by omega)
  · have h0 : d.stop + 1 - d.start = 0 := by omega
    rw [h0]
    intro t v h1 h2 _
    simp only [decLoop] at h1 h2
    omega

/-- `DownSamplingMultiSeriesInto` over ANY slice leaves every decoder spent -/
theorem downAll_heals (op : V → V → V) (cfg : Cfg) (tStart len : Nat) :
    ∀ (ss : List (Option (Dec V))) (acc : List (Nat × V)),
      AllSpent cfg tStart len (downAll op cfg tStart len ss acc).1 := by
  intro ss
  induction ss with
  | nil => intro acc d h; simp [downAll] at h
  | cons s r ih =>
    intro acc
    cases s with
    | none =>
      intro d hd
      simp only [downAll, List.mem_cons, reduceCtorEq, false_or] at hd
      exact ih acc d hd
    | some d0 =>
      intro d hd
      simp only [downAll, List.mem_cons, Option.some.injEq] at hd
      rcases hd with e | hd
      · rw [e]; exact decLoop_heals_whole op cfg tStart len d0 acc
      · exact ih _ d hd

theorem downAll_length (op : V → V → V) (cfg : Cfg) (tStart len : Nat) :
    ∀ (ss : List (Option (Dec V))) (acc : List (Nat × V)),
      (downAll op cfg tStart len ss acc).1.length = ss.length := by
  intro ss
  induction ss with
  | nil => intro acc; rfl
  | cons s r ih =>
    intro acc
    cases s with
    | none => simp only [downAll, List.length_cons, ih]
    | some d0 => simp only [downAll, List.length_cons, ih]

theorem resetStreams_length : ∀ (ds : List (FD V)) (ss : List (Option (Dec V))), ss.length = ds.length →
    (resetStreams ss ds).length = ds.length := by
  intro ds
  induction ds with
  | nil =>
    intro ss h
    cases ss with
    | nil => rfl
    | cons s r => simp at h
  | cons fd ds ih =>
    intro ss h
    cases ss with
    | nil => simp at h
    | cons s r =>
      have hr : r.length = ds.length := by simpa using h
      cases fd with
      | none => simp only [resetStreams, List.length_cons, ih r hr]
      | some x =>
        obtain ⟨v, a, b⟩ := x
        simp only [resetStreams, List.length_cons, ih r hr]

/-- ratio 1, base slot 0, the block's range IS the target range, nothing else contributes: decoding, aggregating into
the empty accumulator and emitting gives back, slot by slot, the content the decoder was armed with -/
theorem single_source_roundtrip (op : V → V → V) (a b : Nat) (vals : List (Nat × V)) (t : Nat)
    (h1 : a ≤ t) (h2 : t ≤ b) :
    lookup (emit (feed op compactCfg a (b + 1 - a) vals [] a (b + 1 - a)) a (b + 1 - a)) t = lookup vals t := by
  rw [lookup_emit]
  have c : a ≤ t ∧ t < a + (b + 1 - a) := by omega
  rw [if_pos c, feed_lookup op a (b + 1 - a) vals (b + 1 - a) [] a (Nat.le_refl _) (Nat.le_refl _) (t - a)]
  have c2 : a ≤ t - a + a ∧ t - a + a < a + (b + 1 - a) := by omega
  have e : t - a + a = t := by omega
  rw [if_pos c2, e]
  cases lookup vals t <;> rfl

/-- a normal step unfolded -/
theorem fieldStepF_normal (cfg : Cfg) (tStart len : Nat) (ss : List (Option (Dec V))) (st : Step V)
    (hp : st.path = .normal) :
    fieldStepF cfg tStart len ss st =
      ((downAll st.op cfg tStart len (resetStreams ss st.fds) []).1,
       some (downAll st.op cfg tStart len (resetStreams ss st.fds) []).2) := by
  unfold fieldStepF
  rw [hp]

end LinVerif.C03
