/-
C07, node level: every lane (leader) of a node is a reachable state of the single-lane model, so the
lane theorems hold per leader.
-/
import LinVerif.Lemmas.C07Replay

namespace LinVerif.NodeRecovery
set_option linter.unusedSimpArgs false
set_option linter.unusedVariables false

/-- every lane is a state the single-lane model reaches from `St.init` -/
def LanesReachable (cfg : Cfg) (n : Node) : Prop := ∀ p ∈ n, ∃ evs : List Ev, p.2 = run cfg St.init evs

theorem run_snoc (cfg : Cfg) (st : St) (evs : List Ev) (e : Ev) :
    run cfg st (evs ++ [e]) = step cfg (run cfg st evs) e := by
  simp [run, List.foldl_append]

theorem lanes_init (cfg : Cfg) (leaders : List Nat) : LanesReachable cfg (Node.init leaders) := by
  intro p hp
  simp [Node.init] at hp
  obtain ⟨l, _, rfl⟩ := hp
  exact ⟨[], rfl⟩

theorem lanes_step (cfg : Cfg) (n : Node) (ne : NEv) (h : LanesReachable cfg n) :
    LanesReachable cfg (stepNode cfg n ne) := by
  intro p hp
  cases ne with
  | shared e =>
    simp [stepNode] at hp
    obtain ⟨a, b, hab, rfl⟩ := hp
    obtain ⟨evs, hevs⟩ := h (a, b) hab
    exact ⟨evs ++ [e], by simp only [run_snoc]; rw [← hevs]⟩
  | lane l e =>
    simp only [stepNode] at hp
    split at hp
    · exact h p hp
    · rename_i src _
      simp at hp
      obtain ⟨a, b, hab, hp⟩ := hp
      obtain ⟨evs, hevs⟩ := h (a, b) hab
      split at hp
      · subst hp; exact ⟨evs ++ [e], by simp only [run_snoc]; rw [← hevs]⟩
      · split at hp
        · rename_i f _
          subst hp; exact ⟨evs ++ [f], by simp only [run_snoc]; rw [← hevs]⟩
        · subst hp; exact ⟨evs, hevs⟩

theorem lanes_run (cfg : Cfg) (nevs : List NEv) {n : Node} (h : LanesReachable cfg n) :
    LanesReachable cfg (runNode cfg n nevs) := by
  induction nevs generalizing n with
  | nil => exact h
  | cons ne rest ih => exact ih (lanes_step cfg n ne h)

end LinVerif.NodeRecovery
