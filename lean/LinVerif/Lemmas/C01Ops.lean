/-
C01 helper lemmas: every store operation keeps `Inv`, and every prefix of its trace is consistent
with the committed state before or after the operation.
-/
import LinVerif.Lemmas.C01Crash

namespace LinVerif.Kv
open LinVerif

/-- the committed state of an open store on its disk -/
def absOf (m : Mem) (d : Disk) : Abs := ⟨m.info, m.vs.fams, d⟩

/-- every prefix of the trace is consistent with the state before or with the state after the
operation; afterwards the invariant holds again -/
structure OpOK (m : Mem) (d : Disk) (m' : Mem) (ops : List FsOp) : Prop where
  prefixes : ∀ k, Consistent m.cfg (applyFsList d (ops.take k)) (absOf m d) ∨
                  Consistent m.cfg (applyFsList d (ops.take k)) (absOf m' (applyFsList d ops))
  inv : Inv m' (applyFsList d ops)
  cfg : m'.cfg = m.cfg

theorem fam?_some {m : Mem} {name : Nat} {f : Fam} (h : m.fam? name = some f) : f ∈ m.fams ∧ f.opt.name = name := by
  unfold Mem.fam? at h
  exact ⟨List.mem_of_find?_eq_some h, by simpa using List.find?_some h⟩

theorem Inv.names {m : Mem} {d : Disk} (h : Inv m d) : (m.fams.map (·.opt.name)).Nodup := by
  have := h.cons.names
  simpa [Mem.info, List.map_map, Function.comp_def] using this

theorem names_inj {m : Mem} (hn : (m.fams.map (·.opt.name)).Nodup) {f g : Fam} (hf : f ∈ m.fams) (hg : g ∈ m.fams)
    (e : g.opt.name = f.opt.name) : g = f :=
  nodup_map_inj hn hg hf e

/-- replacing a family record by one with the same options -/
theorem setFam_fams {m : Mem} (hn : (m.fams.map (·.opt.name)).Nodup) {f f' : Fam} (hf : f ∈ m.fams) (ho : f'.opt = f.opt) :
    (m.setFam f').fams = m.fams.map (fun g => if g = f then f' else g) := by
  simp only [Mem.setFam]
  apply List.map_congr_left
  intro g hg
  by_cases e : g.opt.name = f'.opt.name
  · have : g = f := names_inj hn hf hg (by rw [e, ho])
    subst this
    simp [ho]
  · have : g ≠ f := by intro e'; subst e'; exact e (by rw [ho])
    simp [e, this]

theorem setFam_info {m : Mem} (hn : (m.fams.map (·.opt.name)).Nodup) {f f' : Fam} (hf : f ∈ m.fams) (ho : f'.opt = f.opt) :
    (m.setFam f').info = m.info := by
  simp only [Mem.info, setFam_fams hn hf ho, List.map_map]
  apply List.map_congr_left
  intro g _
  by_cases e : g = f <;> simp [e, ho]

theorem mem_setFam {m : Mem} (hn : (m.fams.map (·.opt.name)).Nodup) {f f' g : Fam} (hf : f ∈ m.fams) (ho : f'.opt = f.opt)
    (hg : g ∈ (m.setFam f').fams) : g = f' ∨ (g ∈ m.fams ∧ g ≠ f) := by
  rw [setFam_fams hn hf ho, List.mem_map] at hg
  obtain ⟨g0, hg0, rfl⟩ := hg
  by_cases e : g0 = f
  · left; simp [e]
  · right; simp [e, hg0]

theorem setFam_ids {m : Mem} (hn : (m.fams.map (·.opt.name)).Nodup) {f f' : Fam} (hf : f ∈ m.fams) (ho : f'.opt = f.opt) :
    (m.setFam f').fams.map (·.opt.id) = m.fams.map (·.opt.id) := by
  have := setFam_info hn hf ho
  simp only [Mem.info] at this
  have h2 := congrArg (List.map (·.id)) this
  simpa [List.map_map, Function.comp_def] using h2

theorem setFam_vs (m : Mem) (f : Fam) : (m.setFam f).vs = m.vs := rfl
theorem setFam_cfg (m : Mem) (f : Fam) : (m.setFam f).cfg = m.cfg := rfl
theorem setFam_journal (m : Mem) (f : Fam) : (m.setFam f).journal = m.journal := rfl

/-- a number at or above `next` is not referenced -/
theorem Inv.not_refs_ge {m : Mem} {d : Disk} (h : Inv m d) (R : Disk) (name : Nat) (n : Int) (hn : m.vs.next ≤ n) :
    ¬ (⟨m.info, m.vs.fams, R⟩ : Abs).refs name n := by
  rintro ⟨o, _, _, fv, hfv, _, e, he, hef⟩
  have := h.nums fv hfv n (by
    simp only [Version.nums, List.mem_append, List.mem_map]
    left; exact ⟨e, he, hef⟩)
  omega

theorem take_nil_disk (d : Disk) (k : Nat) : applyFsList d (([] : List FsOp).take k) = d := by simp [applyFsList]

theorem Consistent.swap_ref (cfg : Cfg) {d : Disk} {info : List FamOpt} {fams : List FamV} {R : Disk}
    (h : Consistent cfg d ⟨info, fams, R⟩) : Consistent cfg d ⟨info, fams, d⟩ := h.reref cfg

/-- NewFlusher + Adds: nothing on disk, or one created (empty) table file with a fresh number -/
theorem flushStart_ok {m : Mem} {d : Disk} {name : Nat} {kvs : List (Nat × Nat)} {seqs : List (Int × Int)}
    {m' : Mem} {ops : List FsOp} (h : Inv m d) (he : flushStart m name kvs seqs = some (m', ops)) :
    OpOK m d m' ops := by
  unfold flushStart at he
  cases hf : m.fam? name with
  | none => simp [hf] at he
  | some f =>
    obtain ⟨hfm, hfn⟩ := fam?_some hf
    simp only [hf] at he
    by_cases hfl : f.flusher.isSome = true
    · simp [hfl] at he
    · simp only [hfl] at he
      have hnone : f.flusher = none := by
        cases hq : f.flusher with
        | none => rfl
        | some x => simp [hq] at hfl
      cases hacc : acceptKeys none kvs with
      | nil =>
        simp only [hacc, Option.some.injEq, Prod.mk.injEq] at he
        obtain ⟨rfl, rfl⟩ := he
        have ho : ({ f with flusher := some ⟨none, seqs⟩ } : Fam).opt = f.opt := rfl
        refine ⟨fun k => Or.inl (by rw [take_nil_disk]; exact h.cons), ?_, rfl⟩
        simp only [applyFsList_nil]
        refine ⟨?_, h.cur, h.jlt, h.nums, h.wf, ?_, ?_, ?_, ?_⟩
        · simp only [setFam_info h.names hfm ho, setFam_vs, setFam_cfg]; exact h.cons
        · rw [setFam_ids h.names hfm ho]; exact h.ids
        · intro g hg x hx
          rcases mem_setFam h.names hfm ho hg with rfl | ⟨hg, _⟩
          · exact h.pend f hfm x hx
          · exact h.pend g hg x hx
        · intro g hg fl hfl' n c hb
          rcases mem_setFam h.names hfm ho hg with rfl | ⟨hg, _⟩
          · simp only [Option.some.injEq] at hfl'
            subst hfl'
            simp at hb
          · exact h.builder g hg fl hfl' n c hb
        · refine ⟨h.seq.1, ?_⟩
          intro g hg
          rcases mem_setFam h.names hfm ho hg with rfl | ⟨hg, _⟩
          · exact h.seq.2 f hfm
          · exact h.seq.2 g hg
      | cons kv acc =>
        simp only [hacc, Option.some.injEq, Prod.mk.injEq] at he
        obtain ⟨rfl, rfl⟩ := he
        let n := m.vs.next
        let m1 : Mem := { m with vs := { m.vs with next := n + 1 } }
        let f' : Fam := { f with pending := f.pending ++ [n], flusher := some ⟨some (n, kv :: acc), seqs⟩ }
        have ho : f'.opt = f.opt := rfl
        have hn1 : (m1.fams.map (·.opt.name)).Nodup := h.names
        have hnr : ∀ R, ¬ (⟨m.info, m.vs.fams, R⟩ : Abs).refs name n := fun R => h.not_refs_ge R name n (Int.le_refl _)
        -- the created table is not referenced: consistency with the same families is kept
        have hstep : Consistent m.cfg (applyFs d (.createTable name n)) (absOf m d) :=
          h.cons.step m.cfg _ (by rw [options_frame _ _ (by intro y; simp)]) (by simp)
            (by intro j _; simp [FsOp.manifestOf])
            (by intro nm g e; simp only [FsOp.touches, Option.some.injEq, Prod.mk.injEq] at e
                obtain ⟨rfl, rfl⟩ := e; exact hnr d)
        show OpOK m d (m1.setFam f') [FsOp.createTable name n]
        refine ⟨?_, ?_, rfl⟩
        · intro k
          left
          cases k with
          | zero => simpa [applyFsList, absOf] using h.cons
          | succ k => simpa [applyFsList] using hstep
        · show Inv (m1.setFam f') (applyFs d (.createTable name n))
          refine ⟨?_, ?_, ?_, ?_, ?_, ?_, ?_, ?_, ?_⟩
          · have : (m1.setFam f').info = m.info := setFam_info hn1 hfm ho
            rw [this]
            exact hstep.reref m.cfg
          · rw [current_frame _ _ (by simp)]; exact h.cur
          · have := h.jlt; show m.journal < n + 1; omega
          · intro g hg x hx
            have := h.nums g hg x hx
            show x < n + 1; omega
          · exact ⟨h.wf.ids_nodup, h.wf.ids_ne_store, h.wf.vers⟩
          · rw [setFam_ids hn1 hfm ho]; exact h.ids
          · intro g hg x hx
            have hver : ∀ id, (m1.setFam f').vs.verOf id = m.vs.verOf id := fun id => rfl
            rcases mem_setFam hn1 hfm ho hg with rfl | ⟨hg, _⟩
            · simp only [f', List.mem_append, List.mem_singleton] at hx
              rcases hx with hx | rfl
              · have := h.pend f hfm x hx
                refine ⟨by show x < n + 1; omega, ?_⟩
                intro v hv; exact this.2 v hv
              · refine ⟨by show n < n + 1; omega, ?_⟩
                intro v hv hmem
                obtain ⟨fv, hfv, _, rfl⟩ := verOf_some hv
                have := h.nums fv hfv _ hmem
                omega
            · have := h.pend g hg x hx
              refine ⟨by show x < n + 1; omega, ?_⟩
              intro v hv; exact this.2 v hv
          · intro g hg fl hfl' n' c hb
            rcases mem_setFam hn1 hfm ho hg with rfl | ⟨hg, _⟩
            · simp only [f', Option.some.injEq] at hfl'
              subst hfl'
              simp only [Option.some.injEq, Prod.mk.injEq] at hb
              simp [f', hb.1.symm]
            · exact h.builder g hg fl hfl' n' c hb
          · refine ⟨h.seq.1, ?_⟩
            intro g hg
            rcases mem_setFam hn1 hfm ho hg with rfl | ⟨hg, _⟩
            · exact h.seq.2 f hfm
            · exact h.seq.2 g hg

theorem Consistent.change_ref (cfg : Cfg) {y z : Disk} {info : List FamOpt} {fams : List FamV} {R : Disk}
    (hy : Consistent cfg y ⟨info, fams, R⟩) (hz : Consistent cfg z ⟨info, fams, R⟩) :
    Consistent cfg y ⟨info, fams, z⟩ := by
  refine ⟨hy.opts, hy.names, hy.recov, ?_⟩
  intro name f hr
  obtain ⟨t, ht⟩ := hy.tables name f hr
  obtain ⟨t', ht'⟩ := hz.tables name f hr
  have : t = t' := by
    have := ht.1.symm.trans ht'.1
    exact Option.some.inj this
  subst this
  exact ⟨t, ht'.2.2, ht.2.1, ht.2.2⟩

/-- allocating a number (NextFileNumber) keeps the invariant -/
theorem Inv.bump {m : Mem} {d : Disk} (h : Inv m d) :
    Inv { m with vs := { m.vs with next := m.vs.next + 1 } } d := by
  refine ⟨h.cons, h.cur, ?_, ?_, ⟨h.wf.ids_nodup, h.wf.ids_ne_store, h.wf.vers⟩, h.ids, ?_, h.builder, h.seq⟩
  · have := h.jlt; show m.journal < m.vs.next + 1; omega
  · intro f hf x hx; have := h.nums f hf x hx; show x < m.vs.next + 1; omega
  · intro f hf x hx
    have := h.pend f hf x hx
    exact ⟨by show x < m.vs.next + 1; omega, this.2⟩

theorem verOf_updFams (fams : List FamV) (mn nx : Int) (fid : Int) (logs : List Log) (id : Int) (v' : Version)
    (h : (⟨updFams fams fid logs, mn, nx⟩ : VS).verOf id = some v') (mn0 nx0 : Int) :
    ∃ v, (⟨fams, mn0, nx0⟩ : VS).verOf id = some v ∧
      (v' = v ∨ (id = fid ∧ v' = logs.foldl applyLog v)) := by
  induction fams with
  | nil => simp [VS.verOf, updFams] at h
  | cons g t ih =>
    simp only [VS.verOf, updFams, List.map_cons, List.find?_cons] at h ⊢
    by_cases hg : g.id = fid
    · simp only [hg, if_true] at h ⊢
      by_cases hid : fid = id
      · simp only [hid, decide_true] at h ⊢
        simp only [Option.some.injEq] at h
        exact ⟨g.ver, rfl, Or.inr ⟨trivial, by rw [← h]⟩⟩
      · simp only [hid, decide_false] at h ⊢
        exact ih h
    · simp only [hg, if_false] at h ⊢
      by_cases hid : g.id = id
      · simp only [hid, decide_true] at h ⊢
        simp only [Option.some.injEq] at h
        exact ⟨g.ver, rfl, Or.inl h.symm⟩
      · simp only [hid, decide_false] at h ⊢
        exact ih h

/-- the table numbers a log adds to the level files -/
def Log.newFiles : Log → List Int
  | .newFile _ f _ _ _ => [f]
  | _ => []

theorem files_applyLog (v : Version) (l : Log) (e : (Int × Int) × FileMeta) (h : e ∈ (applyLog v l).files) :
    e ∈ v.files ∨ e.1.2 ∈ l.newFiles := by
  cases l with
  | newFile lvl f mn mx sz =>
    simp only [applyLog] at h
    split at h
    · rcases Map.mem_upsert h with rfl | h
      · right; simp [Log.newFiles]
      · left; exact h
    · left; exact h
  | deleteFile lvl f =>
    simp only [applyLog] at h
    split at h
    · left; exact (Map.mem_erase h).1
    · left; exact h
  | newReferenceFile st fam f =>
    simp only [applyLog] at h
    left
    split at h
    · exact h
    · split at h <;> exact h
  | _ => left; exact h

theorem files_foldl_applyLog (v : Version) (ls : List Log) (e : (Int × Int) × FileMeta)
    (h : e ∈ (ls.foldl applyLog v).files) : e ∈ v.files ∨ e.1.2 ∈ ls.flatMap Log.newFiles := by
  induction ls generalizing v with
  | nil => left; exact h
  | cons l t ih =>
    simp only [List.foldl_cons] at h
    rcases ih _ h with h | h
    · rcases files_applyLog v l e h with h | h
      · left; exact h
      · right; simp only [List.flatMap_cons, List.mem_append]; left; exact h
    · right; simp only [List.flatMap_cons, List.mem_append]; right; exact h

theorem flatMap_newFiles_snoc (logs : List Log) (x : Int) :
    (logs ++ [Log.nextFileNumber x]).flatMap Log.newFiles = logs.flatMap Log.newFiles := by
  simp [Log.newFiles]

/-- result of `family.commitEditLog` after some table-only operations `pre` -/
structure CommitRes (m : Mem) (d : Disk) (pre cops : List FsOp) (fid : Int) (logs : List Log) (m1 : Mem) : Prop where
  prefixes : ∀ k, Consistent m.cfg (applyFsList d ((pre ++ cops).take k)) (absOf m d) ∨
      Consistent m.cfg (applyFsList d ((pre ++ cops).take k)) ⟨m.info, m1.vs.fams, applyFsList d pre⟩
  final : Consistent m.cfg (applyFsList d (pre ++ cops)) ⟨m.info, m1.vs.fams, applyFsList d pre⟩
  cur : (applyFsList d (pre ++ cops)).current = some m.journal
  mem : m1 = { m with vs := m1.vs }
  next_le : m.vs.next ≤ m1.vs.next
  nums : ∀ f ∈ m1.vs.fams, ∀ y ∈ f.ver.nums, y < m1.vs.next
  wf : m1.vs.WF m.cfg.levels
  ids : m1.vs.fams.map (·.id) = m.vs.fams.map (·.id)
  vers : ∀ id v', m1.vs.verOf id = some v' → ∃ v, m.vs.verOf id = some v ∧
      ∀ y ∈ v'.nums, y ∈ v.nums ∨ (id = fid ∧ y ∈ logs.flatMap Log.newNums)
  tables_same : ∀ a g, (applyFsList d (pre ++ cops)).table a g = (applyFsList d pre).table a g

/-- `pre` only touches tables that the committed state does not reference -/
def TableOnly (a : Abs) (pre : List FsOp) : Prop :=
  ∀ o ∈ pre, (∀ y, o ≠ .writeOptions y) ∧ o ≠ .renameCurrent ∧ o.manifestOf = none ∧
    ∀ name g, o.touches = some (name, g) → ¬ a.refs name g

theorem tableOnly_step (cfg : Cfg) {a : Abs} {pre : List FsOp} (hp : TableOnly a pre) (j : Int) :
    ∀ o ∈ pre, ∀ x, (Consistent cfg x a ∧ x.current = some j) → (Consistent cfg (applyFs x o) a ∧ (applyFs x o).current = some j) := by
  intro o ho x hx
  obtain ⟨h1, h2, h3, h4⟩ := hp o ho
  exact ⟨hx.1.step cfg o (by rw [options_frame _ _ h1]) h2 (by intro j' _; rw [h3]; simp) h4,
    by rw [current_frame _ _ h2]; exact hx.2⟩

theorem commit_ok {m : Mem} {d : Disk} (h : Inv m d) (pre : List FsOp) (fid : Int) (logs : List Log)
    (m1 : Mem) (cops : List FsOp)
    (hpre : TableOnly (absOf m d) pre)
    (hc : commitEditLog m fid logs = some (m1, cops))
    (hnew : ∀ y ∈ logs.flatMap Log.newNums, y < m.vs.next)
    (hnewtab : ∀ o ∈ m.info, o.id = fid → ∀ g ∈ logs.flatMap Log.newFiles,
      ∃ t, (applyFsList d pre).table o.name g = some t ∧ t.complete = true) :
    CommitRes m d pre cops fid logs m1 := by
  let PA : Disk → Prop := fun x => Consistent m.cfg x (absOf m d) ∧ x.current = some m.journal
  have hA0 : PA d := ⟨h.cons, h.cur⟩
  have hApre := tableOnly_step m.cfg hpre m.journal
  have hx : PA (applyFsList d pre) := prefix_inv_full PA pre d hA0 hApre
  unfold commitEditLog at hc
  by_cases hl : logs = []
  · simp only [hl, if_true, Option.some.injEq, Prod.mk.injEq] at hc
    obtain ⟨rfl, rfl⟩ := hc
    refine ⟨fun k => Or.inl (by rw [List.append_nil]; exact (prefix_inv PA pre d hA0 hApre k).1), ?_,
      by rw [List.append_nil]; exact hx.2, rfl, Int.le_refl _, h.nums, h.wf, rfl, ?_, fun _ _ => by rw [List.append_nil]⟩
    · rw [List.append_nil]; exact hx.1.reref m.cfg
    · intro id v' hv; exact ⟨v', hv, fun y hy => Or.inl hy⟩
  · simp only [hl, if_false] at hc
    by_cases hh : m.vs.hasFam fid = true
    · simp only [hh, Bool.not_true, Bool.false_eq_true, if_false] at hc
      cases hap : applyEL m.vs ⟨fid, logs ++ [.nextFileNumber m.vs.next]⟩ with
      | none => simp [hap] at hc
      | some vs' =>
        simp only [hap, Option.some.injEq, Prod.mk.injEq] at hc
        obtain ⟨rfl, rfl⟩ := hc
        have hfid : fid ≠ storeFamilyID := by
          rw [hasFam_iff] at hh
          obtain ⟨g, hg, rfl⟩ := List.mem_map.mp hh
          exact h.wf.ids_ne_store g hg
        have hvs'0 : vs' = ⟨updFams m.vs.fams fid (logs ++ [.nextFileNumber m.vs.next]), m.vs.next, m.vs.next + 1⟩ := by
          rw [applyEL_commit m.vs fid logs m.vs.next hfid hh] at hap
          exact (Option.some.inj hap).symm
        have htab : ∀ name f, (⟨m.info, vs'.fams, applyFsList d pre⟩ : Abs).refs name f →
            ∃ t, (applyFsList d pre).table name f = some t ∧ t.complete = true := by
          rintro name f ⟨o, ho, hon, fv', hfv', hid, e, he, hef⟩
          rw [hvs'0] at hfv'
          obtain ⟨g0, hg0, hid0, hv⟩ := mem_updFams hfv'
          have hold : e ∈ g0.ver.files → ∃ t, (applyFsList d pre).table name f = some t ∧ t.complete = true := by
            intro he0
            obtain ⟨t, ht⟩ := hx.1.tables name f ⟨o, ho, hon, g0, hg0, by rw [← hid0, hid], e, he0, hef⟩
            exact ⟨t, ht.2.2, ht.2.1⟩
          rcases hv with hv | ⟨hg0f, hv⟩
          · rw [hv] at he; exact hold he
          · rw [hv] at he
            rcases files_foldl_applyLog _ _ _ he with he0 | hnewf
            · exact hold he0
            · rw [flatMap_newFiles_snoc, hef] at hnewf
              have := hnewtab o ho (by rw [← hid, hid0, hg0f]) f hnewf
              rw [hon] at this
              exact this
        have hcc := commit_consistent m.cfg (applyFsList d pre) m.info m.vs vs' d (applyFsList d pre) m.journal fid logs
          hx.1 hx.2 h.jlt h.nums h.wf hfid hh hap hnew
          (by intro name f hr
              obtain ⟨t, ht⟩ := htab name f hr
              exact ⟨t, ht.1, ht.2, ht.1⟩)
        obtain ⟨hcons, hmn, hnx, hwf', hnums', hids'⟩ := hcc
        let c := FsOp.appendRec m.journal (marshal ⟨fid, logs ++ [.nextFileNumber m.vs.next]⟩)
        have hfin : applyFsList d (pre ++ [c]) = applyFs (applyFsList d pre) c := by
          rw [applyFsList_append]; rfl
        refine ⟨?_, by rw [hfin]; exact hcons, ?_, rfl, by rw [hnx]; omega, hnums', hwf', hids', ?_, ?_⟩
        · intro k
          have := prefix_two_phase PA (fun y => Consistent m.cfg y ⟨m.info, vs'.fams, applyFsList d pre⟩) pre [] c d hA0 hApre
            (by rw [hfin]; exact hcons) (by intro o ho; simp at ho) k
          rcases this with h1 | h1
          · exact Or.inl h1.1
          · exact Or.inr h1
        · rw [hfin, current_frame _ _ (by simp [c])]; exact hx.2
        · intro id v' hv
          have hvs' : vs' = ⟨updFams m.vs.fams fid (logs ++ [.nextFileNumber m.vs.next]), m.vs.next, m.vs.next + 1⟩ := by
            rw [applyEL_commit m.vs fid logs m.vs.next hfid hh] at hap
            exact (Option.some.inj hap).symm
          rw [hvs'] at hv
          obtain ⟨v, hv0, hor⟩ := verOf_updFams m.vs.fams _ _ fid _ id v' hv m.vs.manifestNo m.vs.next
          refine ⟨v, hv0, ?_⟩
          intro y hy
          rcases hor with rfl | ⟨hidf, rfl⟩
          · exact Or.inl hy
          · rcases nums_foldl_applyLog _ _ _ hy with h1 | h1
            · exact Or.inl h1
            · rw [flatMap_newNums_snoc] at h1; exact Or.inr ⟨hidf, h1⟩
        · intro a g
          rw [hfin]
          exact table_frame _ _ _ _ (by simp [c, FsOp.touches])
    · simp [hh] at hc

theorem ids_of_info {a b : List Fam} (h : a.map (·.opt) = b.map (·.opt)) : a.map (·.opt.id) = b.map (·.opt.id) := by
  have := congrArg (List.map (·.id)) h
  simpa [List.map_map, Function.comp_def] using this

/-- from the commit to the end of the operation: cleanup `post` (tables the new state does not
reference) and the final bookkeeping of pending outputs / flusher -/
theorem finish_ok {m : Mem} {d : Disk} {pre cops : List FsOp} {fid : Int} {logs : List Log} {m1 : Mem} (h : Inv m d)
    (hr : CommitRes m d pre cops fid logs m1) (post : List FsOp)
    (hpost : TableOnly ⟨m.info, m1.vs.fams, applyFsList d pre⟩ post)
    (m' : Mem) (hcfg : m'.cfg = m.cfg) (hvs : m'.vs = m1.vs) (hj : m'.journal = m.journal) (hinfo : m'.info = m.info)
    (hpend : ∀ f ∈ m'.fams, ∀ x ∈ f.pending, x < m'.vs.next ∧ ∀ v, m'.vs.verOf f.opt.id = some v → x ∉ v.nums)
    (hbuilder : ∀ f ∈ m'.fams, ∀ fl, f.flusher = some fl → ∀ n c, fl.builder = some (n, c) → n ∈ f.pending)
    (hseq : m'.familySeq = m.familySeq) :
    OpOK m d m' (pre ++ cops ++ post) := by
  let x := applyFsList d pre
  let PB : Disk → Prop := fun y => Consistent m.cfg y ⟨m.info, m1.vs.fams, x⟩ ∧ y.current = some m.journal
  have hB0 : PB (applyFsList d (pre ++ cops)) := ⟨hr.final, hr.cur⟩
  have hBpost := tableOnly_step m.cfg hpost m.journal
  have hfin : PB (applyFsList d (pre ++ cops ++ post)) := by
    rw [applyFsList_append]; exact prefix_inv_full PB post _ hB0 hBpost
  have habs : absOf m' (applyFsList d (pre ++ cops ++ post)) = ⟨m.info, m1.vs.fams, applyFsList d (pre ++ cops ++ post)⟩ := by
    simp [absOf, hinfo, hvs]
  refine ⟨?_, ?_, hcfg⟩
  · intro k
    rw [habs]
    by_cases hk : k ≤ (pre ++ cops).length
    · rw [List.take_append_of_le_length hk]
      rcases hr.prefixes k with h1 | h1
      · exact Or.inl h1
      · exact Or.inr (h1.change_ref m.cfg hfin.1)
    · right
      obtain ⟨i, rfl⟩ : ∃ i, k = (pre ++ cops).length + i := ⟨k - (pre ++ cops).length, by omega⟩
      rw [List.take_append, List.take_of_length_le (by omega), applyFsList_append]
      have : (pre ++ cops).length + i - (pre ++ cops).length = i := by omega
      rw [this]
      exact ((prefix_inv PB post _ hB0 hBpost i).1).change_ref m.cfg hfin.1
  · refine ⟨?_, ?_, ?_, ?_, ?_, ?_, hpend, hbuilder, ?_⟩
    · rw [hcfg, hinfo, hvs]; exact hfin.1.reref m.cfg
    · rw [hj]; exact hfin.2
    · rw [hj, hvs]; have := h.jlt; have := hr.next_le; omega
    · rw [hvs]; exact hr.nums
    · rw [hvs, hcfg]; exact hr.wf
    · rw [hvs, hr.ids, h.ids]
      exact (ids_of_info hinfo).symm
    · rw [hseq]
      refine ⟨h.seq.1, ?_⟩
      intro f hf
      have hopt : f.opt ∈ m.info := by rw [← hinfo]; simp only [Mem.info, List.mem_map]; exact ⟨f, hf, rfl⟩
      simp only [Mem.info, List.mem_map] at hopt
      obtain ⟨g, hg, hgo⟩ := hopt
      rw [← hgo]; exact h.seq.2 g hg

theorem tableOnly_nil (a : Abs) : TableOnly a [] := by intro o ho; simp at ho

theorem newNums_bookkeeping (logs : List Log) (h : logs.all Log.isBookkeeping = true) :
    logs.flatMap Log.newNums = [] ∧ logs.flatMap Log.newFiles = [] := by
  induction logs with
  | nil => simp
  | cons l t ih =>
    simp only [List.all_cons, Bool.and_eq_true] at h
    have := ih h.2
    cases l <;> simp_all [Log.isBookkeeping, Log.newNums, Log.newFiles]

/-- rollup-bookkeeping commit (DeleteRollupFile / NewReferenceFile / DeleteReferenceFile) -/
theorem editCommit_ok {m : Mem} {d : Disk} {name : Nat} {logs : List Log} {m' : Mem} {ops : List FsOp}
    (h : Inv m d) (he : editCommit m name logs = some (m', ops)) : OpOK m d m' ops := by
  unfold editCommit at he
  cases hf : m.fam? name with
  | none => simp [hf] at he
  | some f =>
    simp only [hf] at he
    by_cases hb : logs.all Log.isBookkeeping = true
    · simp only [hb, if_true] at he
      obtain ⟨hn1, hn2⟩ := newNums_bookkeeping logs hb
      have hr := commit_ok h [] f.opt.id logs m' ops (tableOnly_nil _) he
        (by rw [hn1]; intro y hy; simp at hy) (by rw [hn2]; intro o _ _ g hg; simp at hg)
      have hmem := hr.mem
      have := finish_ok h hr [] (tableOnly_nil _) m' (by rw [hmem]) rfl (by rw [hmem]) (by rw [hmem]; rfl)
        (by
          intro g hg x hx
          have hg' : g ∈ m.fams := by rw [hmem] at hg; exact hg
          have hp := h.pend g hg' x hx
          refine ⟨by have := hr.next_le; omega, ?_⟩
          intro v' hv' hmem'
          obtain ⟨v, hv, hsub⟩ := hr.vers _ _ hv'
          rcases hsub x hmem' with h1 | ⟨_, h1⟩
          · exact hp.2 v hv h1
          · rw [hn1] at h1; simp at h1)
        (by
          intro g hg
          have hg' : g ∈ m.fams := by rw [hmem] at hg; exact hg
          exact h.builder g hg')
        (by rw [hmem])
      simpa using this
    · simp [hb] at he

/-- the edit log a storeFlusher.Commit builds: NewFile, Sequences, NewRollupFiles -/
def flushLogs (fl : Flusher) (rollup : List Int) (size : Nat) : List Log :=
  (match fl.builder with | some (n, c) => [Log.newFile 0 n (minKey c) (maxKey c) size] | none => []) ++
  (fl.seqs.map (fun e => Log.sequence e.1 e.2) ++
  (match fl.builder with | some (n, _) => rollup.map (fun i => Log.newRollupFile n i) | none => []))

theorem flushLogs_newNums (fl : Flusher) (rollup : List Int) (size : Nat) (y : Int)
    (h : y ∈ (flushLogs fl rollup size).flatMap Log.newNums) : ∃ c, fl.builder = some (y, c) := by
  unfold flushLogs at h
  cases hb : fl.builder with
  | none =>
    simp only [hb, List.nil_append, List.append_nil, List.mem_flatMap, List.mem_map] at h
    obtain ⟨l, ⟨e, _, rfl⟩, hy⟩ := h
    simp [Log.newNums] at hy
  | some p =>
    obtain ⟨n, c⟩ := p
    simp only [hb, List.flatMap_append, List.mem_append, List.mem_flatMap, List.mem_map, List.mem_singleton] at h
    rcases h with ⟨l, rfl, hy⟩ | ⟨l, ⟨e, _, rfl⟩, hy⟩ | ⟨l, ⟨i, _, rfl⟩, hy⟩
    · simp only [Log.newNums, List.mem_singleton] at hy; exact ⟨c, by rw [hy]⟩
    · simp [Log.newNums] at hy
    · simp only [Log.newNums, List.mem_singleton] at hy; exact ⟨c, by rw [hy]⟩

theorem flushLogs_newFiles (fl : Flusher) (rollup : List Int) (size : Nat) (y : Int)
    (h : y ∈ (flushLogs fl rollup size).flatMap Log.newFiles) : ∃ c, fl.builder = some (y, c) := by
  unfold flushLogs at h
  cases hb : fl.builder with
  | none =>
    simp only [hb, List.nil_append, List.append_nil, List.mem_flatMap, List.mem_map] at h
    obtain ⟨l, ⟨e, _, rfl⟩, hy⟩ := h
    simp [Log.newFiles] at hy
  | some p =>
    obtain ⟨n, c⟩ := p
    simp only [hb, List.flatMap_append, List.mem_append, List.mem_flatMap, List.mem_map, List.mem_singleton] at h
    rcases h with ⟨l, rfl, hy⟩ | ⟨l, ⟨e, _, rfl⟩, hy⟩ | ⟨l, ⟨i, _, rfl⟩, hy⟩
    · simp only [Log.newFiles, List.mem_singleton] at hy; exact ⟨c, by rw [hy]⟩
    · simp [Log.newFiles] at hy
    · simp [Log.newFiles] at hy

/-- explicit form of storeFlusher.Commit -/
theorem flushCommit_eq (m : Mem) (name : Nat) (size : Nat) (f : Fam) (fl : Flusher)
    (hf : m.fam? name = some f) (hfl : f.flusher = some fl) :
    flushCommit m name size =
      match commitEditLog m f.opt.id (flushLogs fl m.cfg.rollup size) with
      | none => none
      | some (m1, ops) =>
        some (m1.setFam { f with pending := (match fl.builder with | some (n, _) => f.pending.filter (· ≠ n) | none => f.pending),
                                  flusher := none },
              (match fl.builder with | some (n, c) => [FsOp.closeTable name n c] | none => []) ++ ops) := by
  cases hb : fl.builder with
  | none =>
    simp only [flushCommit, hf, hfl, flushLogs, flushCommitSteps, hb]
    simp
    split <;> simp_all
  | some p =>
    obtain ⟨n, c⟩ := p
    simp only [flushCommit, hf, hfl, flushLogs, flushCommitSteps, hb]
    simp
    split <;> simp_all

/-- a pending output is not referenced by the committed state -/
theorem Inv.pending_not_refs {m : Mem} {d : Disk} (h : Inv m d) {f : Fam} (hf : f ∈ m.fams) {n : Int}
    (hn : n ∈ f.pending) (R : Disk) : ¬ (⟨m.info, m.vs.fams, R⟩ : Abs).refs f.opt.name n := by
  rintro ⟨o, ho, hon, fv, hfv, hid, e, he, hef⟩
  simp only [Mem.info, List.mem_map] at ho
  obtain ⟨g, hg, rfl⟩ := ho
  have : g = f := names_inj h.names hf hg hon
  subst this
  have hv := verOf_of_mem h.wf.ids_nodup hfv
  rw [hid] at hv
  exact (h.pend g hf n hn).2 _ hv (by
    simp only [Version.nums, List.mem_append, List.mem_map]
    left; exact ⟨e, he, hef⟩)

theorem Inv.info_id_inj {m : Mem} {d : Disk} (h : Inv m d) {o : FamOpt} {f : Fam} (ho : o ∈ m.info) (hf : f ∈ m.fams)
    (e : o.id = f.opt.id) : o = f.opt := by
  have hn : (m.info.map (·.id)).Nodup := by
    have := h.wf.ids_nodup
    rw [h.ids] at this
    simpa [Mem.info, List.map_map, Function.comp_def] using this
  have hf' : f.opt ∈ m.info := by simp only [Mem.info, List.mem_map]; exact ⟨f, hf, rfl⟩
  exact nodup_map_inj hn ho hf' e

/-- storeFlusher.Commit: the table is closed, then ONE record is appended; a crash before the record
shows the old state (the closed table is an unreferenced orphan), after it the new state. -/
theorem flushCommit_ok {m : Mem} {d : Disk} {name : Nat} {size : Nat} {m' : Mem} {ops : List FsOp}
    (h : Inv m d) (he : flushCommit m name size = some (m', ops)) : OpOK m d m' ops := by
  cases hf : m.fam? name with
  | none => simp [flushCommit, hf] at he
  | some f =>
    obtain ⟨hfm, hfn⟩ := fam?_some hf
    cases hfl : f.flusher with
    | none => simp [flushCommit, hf, hfl] at he
    | some fl =>
      rw [flushCommit_eq m name size f fl hf hfl] at he
      cases hc : commitEditLog m f.opt.id (flushLogs fl m.cfg.rollup size) with
      | none => simp [hc] at he
      | some r =>
        obtain ⟨m1, cops⟩ := r
        simp only [hc, Option.some.injEq, Prod.mk.injEq] at he
        obtain ⟨rfl, rfl⟩ := he
        let pre : List FsOp := match fl.builder with | some (n, c) => [FsOp.closeTable name n c] | none => []
        let f' : Fam := { f with pending := (match fl.builder with | some (n, _) => f.pending.filter (· ≠ n) | none => f.pending), flusher := none }
        have hpre : TableOnly (absOf m d) pre := by
          intro o ho
          cases hb : fl.builder with
          | none => simp [pre, hb] at ho
          | some p =>
            obtain ⟨n, c⟩ := p
            simp only [pre, hb, List.mem_singleton] at ho
            subst ho
            refine ⟨by intro y; simp, by simp, rfl, ?_⟩
            intro nm g e
            simp only [FsOp.touches, Option.some.injEq, Prod.mk.injEq] at e
            obtain ⟨rfl, rfl⟩ := e
            rw [← hfn]
            exact h.pending_not_refs hfm (h.builder f hfm fl hfl n c hb) d
        have hr := commit_ok h pre f.opt.id (flushLogs fl m.cfg.rollup size) m1 cops hpre hc
          (by
            intro y hy
            obtain ⟨c, hb⟩ := flushLogs_newNums _ _ _ _ hy
            exact (h.pend f hfm y (h.builder f hfm fl hfl y c hb)).1)
          (by
            intro o ho hoid g hg
            obtain ⟨c, hb⟩ := flushLogs_newFiles _ _ _ _ hg
            have : o = f.opt := h.info_id_inj ho hfm hoid
            subst this
            rw [hfn]
            refine ⟨⟨true, c⟩, ?_, rfl⟩
            simp only [pre, hb, applyFsList, List.foldl_cons, List.foldl_nil]
            exact table_closeTable d name g c)
        have hm1 : m1.fams = m.fams := by rw [hr.mem]
        have hn1 : (m1.fams.map (·.opt.name)).Nodup := by rw [hm1]; exact h.names
        have hfm1 : f ∈ m1.fams := by rw [hm1]; exact hfm
        have ho : f'.opt = f.opt := rfl
        have := finish_ok h hr [] (tableOnly_nil _) (m1.setFam f') (by rw [setFam_cfg, hr.mem]) rfl
          (by rw [setFam_journal, hr.mem])
          (by rw [setFam_info hn1 hfm1 ho]; simp only [Mem.info, hm1])
          (by
            intro g hg x hx
            have hnx := hr.next_le
            rcases mem_setFam hn1 hfm1 ho hg with rfl | ⟨hg, hgf⟩
            · -- the flushed family: its own output left the pending set
              have hx0 : x ∈ f.pending ∧ ∀ c, fl.builder ≠ some (x, c) := by
                cases hb : fl.builder with
                | none => simp only [f', hb] at hx; exact ⟨hx, by intro c; simp⟩
                | some p =>
                  obtain ⟨n, c⟩ := p
                  simp only [f', hb, List.mem_filter, decide_eq_true_eq] at hx
                  refine ⟨hx.1, ?_⟩
                  intro c' e
                  simp only [Option.some.injEq, Prod.mk.injEq] at e
                  exact hx.2 e.1.symm
              have hp := h.pend f hfm x hx0.1
              refine ⟨by rw [setFam_vs]; omega, ?_⟩
              intro v' hv' hmem'
              rw [setFam_vs] at hv'
              obtain ⟨v, hv, hsub⟩ := hr.vers _ _ hv'
              rcases hsub x hmem' with h1 | ⟨_, h1⟩
              · exact hp.2 v hv h1
              · obtain ⟨c, hb⟩ := flushLogs_newNums _ _ _ _ h1
                exact hx0.2 c hb
            · have hg' : g ∈ m.fams := by rw [← hm1]; exact hg
              have hp := h.pend g hg' x hx
              refine ⟨by rw [setFam_vs]; omega, ?_⟩
              intro v' hv' hmem'
              rw [setFam_vs] at hv'
              obtain ⟨v, hv, hsub⟩ := hr.vers _ _ hv'
              rcases hsub x hmem' with h1 | ⟨hid, _⟩
              · exact hp.2 v hv h1
              · -- a different family has a different id
                have : g = f := by
                  have hn : (m.fams.map (·.opt.id)).Nodup := by rw [← h.ids]; exact h.wf.ids_nodup
                  exact nodup_map_inj hn hg' hfm hid
                exact hgf this)
          (by
            intro g hg fl' hfl' n c hb
            rcases mem_setFam hn1 hfm1 ho hg with rfl | ⟨hg, _⟩
            · simp [f'] at hfl'
            · have hg' : g ∈ m.fams := by rw [← hm1]; exact hg
              exact h.builder g hg' fl' hfl' n c hb)
          (by show m1.familySeq = m.familySeq; rw [hr.mem])
        rw [List.append_nil] at this
        exact this

/-- a Commit whose table close failed: nothing is appended, no version changes; only the pending
output and the flusher go away (the partial table stays on disk, unreferenced) -/
theorem flushFail_ok {m : Mem} {d : Disk} {name : Nat} {m' : Mem} {ops : List FsOp}
    (h : Inv m d) (he : flushFail m name = some (m', ops)) :
    ops = [] ∧ m'.vs = m.vs ∧ m'.info = m.info ∧ OpOK m d m' ops := by
  unfold flushFail at he
  cases hf : m.fam? name with
  | none => simp [hf] at he
  | some f =>
    obtain ⟨hfm, hfn⟩ := fam?_some hf
    simp only [hf] at he
    cases hfl : f.flusher with
    | none => simp [hfl] at he
    | some fl =>
      simp only [hfl] at he
      cases hb : fl.builder with
      | none => simp [hb] at he
      | some p =>
        obtain ⟨n, c⟩ := p
        simp only [hb, Option.some.injEq, Prod.mk.injEq] at he
        obtain ⟨rfl, rfl⟩ := he
        let f' : Fam := { f with pending := f.pending.filter (· ≠ n), flusher := none }
        have ho : f'.opt = f.opt := rfl
        have hinfo : (m.setFam f').info = m.info := setFam_info h.names hfm ho
        refine ⟨rfl, rfl, hinfo, ?_⟩
        refine ⟨fun k => Or.inl (by rw [take_nil_disk]; exact h.cons), ?_, rfl⟩
        show Inv (m.setFam f') d
        refine ⟨?_, h.cur, h.jlt, h.nums, h.wf, ?_, ?_, ?_, ?_⟩
        · rw [hinfo]; exact h.cons
        · rw [setFam_ids h.names hfm ho]; exact h.ids
        · intro g hg x hx
          rcases mem_setFam h.names hfm ho hg with rfl | ⟨hg, _⟩
          · simp only [f', List.mem_filter] at hx
            exact h.pend f hfm x hx.1
          · exact h.pend g hg x hx
        · intro g hg fl' hfl' n' c' hb'
          rcases mem_setFam h.names hfm ho hg with rfl | ⟨hg, _⟩
          · simp [f'] at hfl'
          · exact h.builder g hg fl' hfl' n' c' hb'
        · refine ⟨h.seq.1, ?_⟩
          intro g hg
          rcases mem_setFam h.names hfm ho hg with rfl | ⟨hg, _⟩
          · exact h.seq.2 f hfm
          · exact h.seq.2 g hg

/-! ### createFamily -/

theorem updFams_append_other (fams : List FamV) (g : FamV) (fid : Int) (logs : List Log) (h : g.id ≠ fid) :
    updFams (fams ++ [g]) fid logs = updFams fams fid logs ++ [g] := by
  simp [updFams, h]

theorem foldl_setNumbers_eq (logs : List Log) (s : VS) :
    logs.foldl setNumbers s = ⟨s.fams, (logs.foldl setNumbers s).manifestNo, (logs.foldl setNumbers s).next⟩ := by
  have := foldl_setNumbers_fams s logs
  cases hq : logs.foldl setNumbers s with
  | mk f a b => rw [hq] at this; simp only at this; simp [this]

/-- a family that no record mentions rides along through the replay unchanged -/
theorem replayRecs_extend (g : FamV) (hg : g.id ≠ storeFamilyID) :
    ∀ (recs : List Bytes) (s s1 : VS), replayRecs s recs = (s1, true) → g.id ∉ s.fams.map (·.id) →
      replayRecs ⟨s.fams ++ [g], s.manifestNo, s.next⟩ recs = (⟨s1.fams ++ [g], s1.manifestNo, s1.next⟩, true) := by
  intro recs
  induction recs with
  | nil =>
    intro s s1 h _
    simp only [replayRecs, Prod.mk.injEq, and_true] at h
    subst h; rfl
  | cons r t ih =>
    intro s s1 h hni
    simp only [replayRecs] at h ⊢
    cases hu : unmarshal r with
    | none => simp [hu] at h
    | some el =>
      simp only [hu] at h ⊢
      cases ha : applyEL s el with
      | none => simp [ha] at h
      | some s' =>
        simp only [ha] at h
        have hext : applyEL ⟨s.fams ++ [g], s.manifestNo, s.next⟩ el = some ⟨s'.fams ++ [g], s'.manifestNo, s'.next⟩ := by
          unfold applyEL at ha ⊢
          by_cases h1 : el.fid = storeFamilyID
          · simp only [h1, if_true, Option.some.injEq] at ha ⊢
            subst ha
            rw [foldl_setNumbers_eq el.logs ⟨s.fams ++ [g], s.manifestNo, s.next⟩]
            have hc := foldl_setNumbers_congr el.logs ⟨s.fams ++ [g], s.manifestNo, s.next⟩ s rfl rfl
            rw [hc.1, hc.2, foldl_setNumbers_fams]
          · simp only [h1, if_false] at ha ⊢
            by_cases h2 : s.hasFam el.fid = true
            · have h2' : VS.hasFam ⟨s.fams ++ [g], s.manifestNo, s.next⟩ el.fid = true := by
                rw [hasFam_iff] at h2 ⊢
                simp only [List.map_append, List.mem_append]
                exact Or.inl h2
              simp only [h2, if_true, Option.some.injEq] at ha
              simp only [h2', if_true, Option.some.injEq]
              subst ha
              rw [foldl_applyLogVS, foldl_applyLogVS]
              have hne : g.id ≠ el.fid := by
                intro e
                rw [hasFam_iff] at h2
                exact hni (e ▸ h2)
              have hc := foldl_setNumbers_congr el.logs ⟨s.fams ++ [g], s.manifestNo, s.next⟩ s rfl rfl
              simp only [updFams_append_other _ _ _ _ hne, hc.1, hc.2]
            · simp [h2] at ha
        rw [hext]
        simp only
        have := ih s' s1 h (by rw [applyEL_ids ha]; exact hni)
        exact this

theorem createFamily_consistent (cfg : Cfg) {d : Disk} {info : List FamOpt} {fams : List FamV} (R0 : Disk)
    (h : Consistent cfg d ⟨info, fams, R0⟩) (o : FamOpt)
    (hname : o.name ∉ info.map (·.name)) (hid : o.id ∉ info.map (·.id)) (hst : o.id ≠ storeFamilyID)
    (y R : Disk) (hy1 : y.options.getD [] = info ++ [o]) (hy2 : y.current = d.current)
    (hy3 : ∀ j, d.current = some j → Map.lookup y.manifests j = Map.lookup d.manifests j)
    (hy4 : ∀ name f, y.table name f = d.table name f) (hR : ∀ name f, R.table name f = d.table name f) :
    Consistent cfg y ⟨info ++ [o], fams ++ [⟨o.id, Version.empty cfg.levels⟩], R⟩ := by
  obtain ⟨vs0, hrec, hf0, hwf0, hnx0, hnums0, hcur0⟩ := h.recov
  have hids0 : vs0.fams.map (·.id) = info.map (·.id) := by
    have := recoverVS_ids cfg d
    rw [hrec, h.opts] at this
    exact this
  let g : FamV := ⟨o.id, Version.empty cfg.levels⟩
  have hrec' : recoverVS cfg y = (⟨vs0.fams ++ [g], vs0.manifestNo, vs0.next⟩, true) := by
    have hinit : VS.init cfg.levels ((info ++ [o]).map (·.id)) =
        ⟨(VS.init cfg.levels (info.map (·.id))).fams ++ [g], (VS.init cfg.levels (info.map (·.id))).manifestNo,
          (VS.init cfg.levels (info.map (·.id))).next⟩ := by
      simp [VS.init, g]
    have hgni : g.id ∉ (VS.init cfg.levels (info.map (·.id))).fams.map (·.id) := by
      simpa [VS.init, List.map_map, Function.comp_def, g] using hid
    cases hc : d.current with
    | none =>
      simp only [recoverVS, hy1, hy2, hc, hinit]
      simp only [recoverVS, h.opts, hc, Prod.mk.injEq, and_true] at hrec
      rw [← hrec]
    | some j =>
      obtain ⟨mf, hl, htorn, hrep⟩ := recoverVS_current hc hrec
      rw [h.opts] at hrep
      simp only [recoverVS, hy1, hy2, hc, hy3 j hc, hl, replay, htorn, Bool.and_false, hinit]
      exact replayRecs_extend g hst mf.recs _ _ hrep hgni
  refine ⟨hy1, ?_, ?_, ?_⟩
  · simp only [List.map_append, List.map_cons, List.map_nil]
    rw [List.nodup_append]
    refine ⟨h.names, by simp, ?_⟩
    intro a ha b hb
    simp only [List.mem_singleton] at hb
    subst hb
    intro e; subst e; exact hname ha
  · refine ⟨_, hrec', by simp only [hf0, g], ?_, hnx0, ?_, ?_⟩
    · refine ⟨?_, ?_, ?_⟩
      · simp only [List.map_append, List.map_cons, List.map_nil]
        rw [List.nodup_append]
        refine ⟨hwf0.ids_nodup, by simp, ?_⟩
        intro a ha b hb
        simp only [List.mem_singleton] at hb
        subst hb
        intro e; subst e
        rw [hids0] at ha
        exact hid ha
      · intro f hf
        simp only [List.mem_append, List.mem_singleton] at hf
        rcases hf with hf | rfl
        · exact hwf0.ids_ne_store f hf
        · exact hst
      · intro f hf
        simp only [List.mem_append, List.mem_singleton] at hf
        rcases hf with hf | rfl
        · exact hwf0.vers f hf
        · exact ⟨Version.empty_wf _, rfl⟩
    · intro f hf x hx
      simp only [List.mem_append, List.mem_singleton] at hf
      rcases hf with hf | rfl
      · exact hnums0 f hf x hx
      · simp [Version.nums, Version.empty] at hx
    · intro j hj; rw [hy2] at hj; exact hcur0 j hj
  · rintro name f ⟨o', ho', hon, fv, hfv, hidv, e, he, hef⟩
    simp only [List.mem_append, List.mem_singleton] at hfv
    rcases hfv with hfv | rfl
    · -- an old family: its options entry is an old one
      have ho'' : o' ∈ info := by
        simp only [List.mem_append, List.mem_singleton] at ho'
        rcases ho' with ho' | rfl
        · exact ho'
        · exfalso
          apply hid
          rw [← hids0, ← hidv]
          have hfv' : fv ∈ vs0.fams := by rw [hf0]; exact hfv
          exact List.mem_map.mpr ⟨fv, hfv', rfl⟩
      obtain ⟨t, ht⟩ := h.tables name f ⟨o', ho'', hon, fv, hfv, hidv, e, he, hef⟩
      exact ⟨t, by rw [hR]; exact ht.2.2, ht.2.1, by rw [hy4]; exact ht.2.2⟩
    · simp [Version.empty] at he

theorem OpOK.refl {m : Mem} {d : Disk} (h : Inv m d) : OpOK m d m [] :=
  ⟨fun k => Or.inl (by rw [take_nil_disk]; exact h.cons), h, rfl⟩

/-- store.CreateFamily: OPTIONS is replaced atomically, then the family directory is made -/
theorem createFamily_ok {m : Mem} {d : Disk} {name : Nat} {thr : Int} {m' : Mem} {ops : List FsOp}
    (h : Inv m d) (he : createFamily m d name thr = some (m', ops)) : OpOK m d m' ops := by
  unfold createFamily at he
  cases hf : m.fam? name with
  | some f =>
    simp only [hf, Option.some.injEq, Prod.mk.injEq] at he
    obtain ⟨rfl, rfl⟩ := he
    exact OpOK.refl h
  | none =>
    simp only [hf] at he
    by_cases hdir : (Map.lookup d.famDirs name).isSome = true
    · simp [hdir] at he
    · simp only [hdir, Bool.false_eq_true, if_false, Option.some.injEq, Prod.mk.injEq] at he
      obtain ⟨rfl, rfl⟩ := he
      let id := m.familySeq + 1
      let o : FamOpt := ⟨name, id, thr⟩
      let g : FamV := ⟨id, Version.empty m.cfg.levels⟩
      let m' : Mem := { m with familySeq := id, fams := m.fams ++ [⟨o, [], none⟩],
                               vs := { m.vs with fams := m.vs.fams ++ [g] } }
      have hinfo' : m'.info = m.info ++ [o] := by simp [m', Mem.info]
      let d1 := applyFs d (.writeOptions m'.info)
      let d2 := applyFs d1 (.mkdirFam name)
      show OpOK m d m' [FsOp.writeOptions m'.info, FsOp.mkdirFam name]
      have hname : o.name ∉ m.info.map (·.name) := by
        intro hmem
        simp only [Mem.info, List.map_map, List.mem_map, Function.comp_apply] at hmem
        obtain ⟨f, hfm, hfn⟩ := hmem
        have := List.find?_eq_none.mp hf f hfm
        simp only [decide_eq_true_eq] at this
        exact this hfn
      have hidn : o.id ∉ m.info.map (·.id) := by
        intro hmem
        simp only [Mem.info, List.map_map, List.mem_map, Function.comp_apply] at hmem
        obtain ⟨f, hfm, hfi⟩ := hmem
        have := h.seq.2 f hfm
        simp only [o, id] at hfi
        omega
      have hst : o.id ≠ storeFamilyID := by
        have := h.seq.1
        simp only [o, id, storeFamilyID]; omega
      have hd1t : ∀ nm f, d1.table nm f = d.table nm f := fun nm f => table_frame _ _ _ _ (by simp [FsOp.touches])
      have hd2t : ∀ nm f, d2.table nm f = d.table nm f := fun nm f => by
        rw [← hd1t]; exact table_frame _ _ _ _ (by simp [FsOp.touches])
      have hc1 : Consistent m.cfg d1 ⟨m.info ++ [o], m.vs.fams ++ [g], d2⟩ :=
        createFamily_consistent m.cfg d h.cons o hname hidn hst d1 d2 (by simp [d1, applyFs, hinfo'])
          (current_frame _ _ (by simp)) (fun j _ => manifest_frame _ _ j (by simp [FsOp.manifestOf])) hd1t hd2t
      have hc2 : Consistent m.cfg d2 ⟨m.info ++ [o], m.vs.fams ++ [g], d2⟩ :=
        createFamily_consistent m.cfg d h.cons o hname hidn hst d2 d2
          (by rw [options_frame _ _ (by intro y; simp)]; simp [d1, applyFs, hinfo'])
          (by rw [current_frame _ _ (by simp), current_frame _ _ (by simp)])
          (fun j _ => by rw [manifest_frame _ _ j (by simp [FsOp.manifestOf]), manifest_frame _ _ j (by simp [FsOp.manifestOf])])
          hd2t hd2t
      have habs : absOf m' d2 = ⟨m.info ++ [o], m.vs.fams ++ [g], d2⟩ := by simp [absOf, hinfo', m']
      refine ⟨?_, ?_, rfl⟩
      · intro k
        cases k with
        | zero => left; simpa [applyFsList, absOf] using h.cons
        | succ k =>
          right
          cases k with
          | zero => show Consistent m.cfg d1 (absOf m' d2); rw [habs]; exact hc1
          | succ k =>
            have : applyFsList d (List.take (k + 1 + 1) [FsOp.writeOptions m'.info, FsOp.mkdirFam name]) = d2 := by
              simp [applyFsList, d2, d1]
            rw [this]
            show Consistent m.cfg d2 (absOf m' d2); rw [habs]; exact hc2
      · show Inv m' d2
        obtain ⟨vsr, _, hfr, hwfr, _, _, _⟩ := hc2.recov
        refine ⟨by rw [← habs] at hc2; exact hc2, ?_, h.jlt, ?_, ?_, ?_, ?_, ?_, ?_⟩
        · rw [current_frame _ _ (by simp), current_frame _ _ (by simp)]; exact h.cur
        · intro f hf x hx
          simp only [m', List.mem_append, List.mem_singleton] at hf
          rcases hf with hf | rfl
          · exact h.nums f hf x hx
          · simp [g, Version.nums, Version.empty] at hx
        · have hfe : vsr.fams = m'.vs.fams := hfr
          exact ⟨by rw [← hfe]; exact hwfr.ids_nodup, by rw [← hfe]; exact hwfr.ids_ne_store, by rw [← hfe]; exact hwfr.vers⟩
        · simp only [m', List.map_append, List.map_cons, List.map_nil, h.ids]
          rfl
        · intro f hf x hx
          simp only [m', List.mem_append, List.mem_singleton] at hf
          rcases hf with hf | rfl
          · have := h.pend f hf x hx
            refine ⟨this.1, ?_⟩
            intro v hv
            -- the version of an old family is unchanged
            have : m.vs.verOf f.opt.id = some v := by
              have hne : f.opt.id ≠ id := by have := h.seq.2 f hf; simp only [id]; omega
              simp only [VS.verOf, m', List.find?_append] at hv
              cases hq : m.vs.fams.find? (fun x => decide (x.id = f.opt.id)) with
              | some w => simp only [hq, Option.some_or] at hv; simp [VS.verOf, hq, hv]
              | none =>
                simp only [hq, Option.none_or, List.find?_cons, g] at hv
                have : ¬ (id = f.opt.id) := fun e => hne e.symm
                simp [this] at hv
            exact (h.pend f hf x hx).2 v this
          · simp at hx
        · intro f hf fl hfl
          simp only [m', List.mem_append, List.mem_singleton] at hf
          rcases hf with hf | rfl
          · exact h.builder f hf fl hfl
          · simp at hfl
        · refine ⟨by have := h.seq.1; show 0 ≤ id; simp only [id]; omega, ?_⟩
          intro f hf
          simp only [m', List.mem_append, List.mem_singleton] at hf
          rcases hf with hf | rfl
          · have := h.seq.2 f hf; show f.opt.id ≤ id; simp only [id]; omega
          · show id ≤ id; omega

/-- store.close: only the LOCK file goes away -/
theorem closeStore_ok {m : Mem} {d : Disk} (h : Inv m d) :
    ∀ k, Consistent m.cfg (applyFsList d ((closeStore m).take k)) (absOf m d) := by
  apply prefix_inv (fun x => Consistent m.cfg x (absOf m d))
  · exact h.cons
  · intro o ho x hx
    simp only [closeStore, List.mem_singleton] at ho
    subst ho
    exact hx.step m.cfg _ (by rw [options_frame _ _ (by intro y; simp)]) (by simp)
      (by intro j _; simp [FsOp.manifestOf]) (by intro nm f e; simp [FsOp.touches] at e)

/-! ### compaction -/

theorem Inv.ids_inj {m : Mem} {d : Disk} (h : Inv m d) {f g : Fam} (hf : f ∈ m.fams) (hg : g ∈ m.fams)
    (e : g.opt.id = f.opt.id) : g = f := by
  have hn : (m.fams.map (·.opt.id)).Nodup := by rw [← h.ids]; exact h.wf.ids_nodup
  exact nodup_map_inj hn hg hf e

/-- table operations on unreferenced tables, one commit, then the deferred deleteObsoleteFiles -/
theorem commitAndClean_ok {m : Mem} {d : Disk} (h : Inv m d) {name : Nat} {f : Fam} (hfm : f ∈ m.fams)
    (hfn : f.opt.name = name) (hff : m.fam? name = some f)
    (pre : List FsOp) (logs : List Log) (kind : String) (m' : Mem) (ops : List FsOp) (kind' : String)
    (hpre : TableOnly (absOf m d) pre)
    (he : commitAndClean m d name f.opt.id pre logs kind = some (m', ops, kind'))
    (hnew : ∀ y ∈ logs.flatMap Log.newNums, y < m.vs.next)
    (hnewtab : ∀ g ∈ logs.flatMap Log.newFiles, ∃ t, (applyFsList d pre).table name g = some t ∧ t.complete = true)
    (hpn : ∀ x ∈ f.pending, x ∉ logs.flatMap Log.newNums) :
    OpOK m d m' ops := by
  unfold commitAndClean at he
  cases hc : commitEditLog m f.opt.id logs with
  | none => simp [hc] at he
  | some r =>
    obtain ⟨m1, cops⟩ := r
    simp only [hc, Option.some.injEq, Prod.mk.injEq] at he
    obtain ⟨rfl, rfl, _⟩ := he
    have hr := commit_ok h pre f.opt.id logs m1 cops hpre hc hnew
      (by intro o ho hoid g hg
          have : o = f.opt := h.info_id_inj ho hfm hoid
          subst this
          rw [hfn]; exact hnewtab g hg)
    have hm1 : m1.fams = m.fams := by rw [hr.mem]
    have hpost : TableOnly ⟨m.info, m1.vs.fams, applyFsList d pre⟩ (cleanupOps m1 (applyFsList d (pre ++ cops)) name f.opt.id) := by
      intro o ho
      unfold cleanupOps at ho
      have hff1 : m1.fam? name = some f := by
        simp only [Mem.fam?, hm1]; exact hff
      rw [hff1] at ho
      cases hv : m1.vs.verOf f.opt.id with
      | none => simp [hv] at ho
      | some v' =>
        simp only [hv] at ho
        obtain ⟨g, rfl, hl⟩ := mem_famObsoleteOps ho
        refine ⟨by intro y; simp, by simp, rfl, ?_⟩
        intro nm g' e
        simp only [FsOp.touches, Option.some.injEq, Prod.mk.injEq] at e
        obtain ⟨rfl, rfl⟩ := e
        have hfo : f.opt ∈ m.info := by simp only [Mem.info, List.mem_map]; exact ⟨f, hfm, rfl⟩
        have := not_refs_of_not_live (a := ⟨m.info, m1.vs.fams, applyFsList d pre⟩) (vs := m1.vs)
          h.cons.names hr.wf.ids_nodup rfl hfo hv hl
        rw [hfn] at this
        exact this
    exact finish_ok h hr _ hpost m1 (by rw [hr.mem]) rfl (by rw [hr.mem]) (by simp only [Mem.info, hm1])
      (by
        intro g hg x hx
        have hg' : g ∈ m.fams := by rw [← hm1]; exact hg
        have hp := h.pend g hg' x hx
        refine ⟨by have := hr.next_le; omega, ?_⟩
        intro v' hv' hmem'
        obtain ⟨v, hv, hsub⟩ := hr.vers _ _ hv'
        rcases hsub x hmem' with h1 | ⟨hid, h1⟩
        · exact hp.2 v hv h1
        · have : g = f := h.ids_inj hfm hg' hid
          subst this
          exact hpn x hx h1)
      (by
        intro g hg
        have hg' : g ∈ m.fams := by rw [← hm1]; exact hg
        exact h.builder g hg')
      (by rw [hr.mem])

theorem OpOK.of_bump {m : Mem} {d : Disk} {m' : Mem} {ops : List FsOp}
    (h : OpOK { m with vs := { m.vs with next := m.vs.next + 1 } } d m' ops) : OpOK m d m' ops :=
  ⟨h.prefixes, h.inv, h.cfg⟩

theorem mem_filesAt {v : Version} {lvl : Int} {e : Int × FileMeta} (h : e ∈ filesAt v lvl) :
    ((lvl, e.1), e.2) ∈ v.files := by
  simp only [filesAt, List.mem_map, List.mem_filter, decide_eq_true_eq] at h
  obtain ⟨x, ⟨hx, hl⟩, rfl⟩ := h
  obtain ⟨⟨a, b⟩, c⟩ := x
  simp only at hl
  subst hl
  exact hx

theorem newNums_deletes (l0 up : List (Int × FileMeta)) :
    (l0.map (fun e => Log.deleteFile 0 e.1) ++ up.map (fun e => Log.deleteFile 1 e.1)).flatMap Log.newNums = [] ∧
    (l0.map (fun e => Log.deleteFile 0 e.1) ++ up.map (fun e => Log.deleteFile 1 e.1)).flatMap Log.newFiles = [] := by
  constructor <;>
  · simp only [List.flatMap_append, List.append_eq_nil_iff, List.flatMap_eq_nil_iff, List.mem_map]
    constructor <;> (rintro l ⟨e, _, rfl⟩; rfl)

/-- family.backgroundCompactionJob (trivial move, merge, nothing to do, unreadable input) -/
theorem compact_ok {m : Mem} {d : Disk} {name : Nat} {size : Nat} {m' : Mem} {ops : List FsOp} {kind : String}
    (h : Inv m d) (he : compact m d name size = some (m', ops, kind)) : OpOK m d m' ops := by
  unfold compact at he
  cases hf : m.fam? name with
  | none => simp [hf] at he
  | some f =>
    obtain ⟨hfm, hfn⟩ := fam?_some hf
    simp only [hf] at he
    cases hv : m.vs.verOf f.opt.id with
    | none => simp [hv] at he
    | some v =>
      simp only [hv] at he
      have hnil : ∀ (kd : String), commitAndClean m d name f.opt.id [] [] kd = some (m', ops, kind) → OpOK m d m' ops := by
        intro kd hk
        exact commitAndClean_ok h hfm hfn hf [] [] kd m' ops kind (tableOnly_nil _) hk
          (by intro y hy; simp at hy) (by intro g hg; simp at hg) (by intro x _ hx; simp at hx)
      split at he
      · exact hnil _ he
      · split at he
        · -- trivial move
          rename_i n fm hl0 hup
          have hmem : (n, fm) ∈ filesAt v 0 := by rw [hl0]; simp
          have hfile := mem_filesAt hmem
          obtain ⟨fv, hfv, hfid, hfver⟩ := verOf_some hv
          have hnum : n ∈ v.nums := by
            simp only [Version.nums, List.mem_append, List.mem_map]
            left; exact ⟨_, hfile, rfl⟩
          refine commitAndClean_ok h hfm hfn hf [] _ _ m' ops kind (tableOnly_nil _) he ?_ ?_ ?_
          · intro y hy
            simp only [List.flatMap_cons, List.flatMap_nil, Log.newNums, List.nil_append, List.append_nil,
              List.mem_singleton] at hy
            subst hy
            rw [← hfver] at hnum
            exact h.nums fv hfv _ hnum
          · intro g hg
            simp only [List.flatMap_cons, List.flatMap_nil, Log.newFiles, List.nil_append, List.append_nil,
              List.mem_singleton] at hg
            subst hg
            have hfo : f.opt ∈ m.info := by simp only [Mem.info, List.mem_map]; exact ⟨f, hfm, rfl⟩
            obtain ⟨t, ht⟩ := h.cons.tables name g ⟨f.opt, hfo, hfn, fv, hfv, hfid, _, by rw [hfver]; exact hfile, rfl⟩
            exact ⟨t, ht.2.2, ht.2.1⟩
          · intro x hx hmem'
            simp only [List.flatMap_cons, List.flatMap_nil, Log.newNums, List.nil_append, List.append_nil,
              List.mem_singleton] at hmem'
            subst hmem'
            exact (h.pend f hfm _ hx).2 v hv hnum
        · split at he
          · exact hnil _ he
          · split at he
            · rename_i cs hrd hout
              obtain ⟨hn1, hn2⟩ := newNums_deletes (filesAt v 0)
                ((filesAt v 1).filter (fun e => (filesAt v 0).any (fun lo => overlaps e.2 lo.2.minKey lo.2.maxKey)))
              exact commitAndClean_ok h hfm hfn hf [] _ _ m' ops kind (tableOnly_nil _) he
                (by rw [hn1]; intro y hy; simp at hy) (by rw [hn2]; intro g hg; simp at hg)
                (by rw [hn1]; intro x _ hx; simp at hx)
            · rename_i cs hrd hout
              obtain ⟨hn1, hn2⟩ := newNums_deletes (filesAt v 0)
                ((filesAt v 1).filter (fun e => (filesAt v 0).any (fun lo => overlaps e.2 lo.2.minKey lo.2.maxKey)))
              apply OpOK.of_bump
              have hb := h.bump
              refine commitAndClean_ok hb hfm hfn hf _ _ _ m' ops kind ?_ he ?_ ?_ ?_
              · intro o ho
                simp only [List.mem_cons, List.mem_singleton, List.not_mem_nil, or_false] at ho
                rcases ho with rfl | rfl
                · refine ⟨by intro y; simp, by simp, rfl, ?_⟩
                  intro nm g e
                  simp only [FsOp.touches, Option.some.injEq, Prod.mk.injEq] at e
                  obtain ⟨rfl, rfl⟩ := e
                  exact h.not_refs_ge d _ _ (Int.le_refl _)
                · refine ⟨by intro y; simp, by simp, rfl, ?_⟩
                  intro nm g e
                  simp only [FsOp.touches, Option.some.injEq, Prod.mk.injEq] at e
                  obtain ⟨rfl, rfl⟩ := e
                  exact h.not_refs_ge d _ _ (Int.le_refl _)
              · intro y hy
                rw [List.flatMap_append, hn1] at hy
                simp only [List.nil_append, List.flatMap_cons, List.flatMap_nil, Log.newNums, List.append_nil,
                  List.mem_singleton] at hy
                subst hy
                show m.vs.next < m.vs.next + 1
                omega
              · intro g hg
                rw [List.flatMap_append, hn2] at hg
                simp only [List.nil_append, List.flatMap_cons, List.flatMap_nil, Log.newFiles, List.append_nil,
                  List.mem_singleton] at hg
                subst hg
                refine ⟨⟨true, mergeContents cs⟩, ?_, rfl⟩
                simp only [applyFsList, List.foldl_cons, List.foldl_nil]
                exact table_closeTable _ _ _ _
              · intro x hx hmem'
                rw [List.flatMap_append, hn1] at hmem'
                simp only [List.nil_append, List.flatMap_cons, List.flatMap_nil, Log.newNums, List.append_nil,
                  List.mem_singleton] at hmem'
                subst hmem'
                have := (h.pend f hfm _ hx).1
                omega

end LinVerif.Kv
