/-
Helper lemmas for C18, part 2: the master's storage-state machine
(coordinator/master/state_manager.go) — the invariant and its preservation by every event.
-/
import LinVerif.Model.Master

namespace LinVerif.Lemmas.C18
open LinVerif LinVerif.Assign LinVerif.Master

/-! ### association-list facts used only here -/

section MapFacts
variable {κ : Type} [DecidableEq κ] {ν ν' : Type}

theorem lookup_map_val (g : κ × ν → κ × ν') (hg : ∀ p, (g p).1 = p.1) (k : κ) :
    ∀ (m : List (κ × ν)), Map.lookup (m.map g) k = (Map.lookup m k).map (fun v => (g (k, v)).2)
  | [] => rfl
  | (k', v') :: t => by
    have h1 : g (k', v') = (k', (g (k', v')).2) := by
      have := hg (k', v'); exact Prod.ext this rfl
    rw [List.map_cons, h1]
    by_cases h : k' = k
    · subst h; simp [Map.lookup]
    · simp [Map.lookup, h, lookup_map_val g hg k t]

omit [DecidableEq κ] in
theorem keys_map_val (g : κ × ν → κ × ν') (hg : ∀ p, (g p).1 = p.1) (m : List (κ × ν)) :
    Map.keys (m.map g) = Map.keys m := by
  simp [Map.keys, List.map_map, Function.comp_def, hg]

theorem lookup_none_of_not_mem_keys : ∀ (m : List (κ × ν)) (k : κ), k ∉ Map.keys m →
    Map.lookup m k = none
  | [], _, _ => rfl
  | (k', v') :: t, k, h => by
    simp only [Map.keys, List.map_cons, List.mem_cons, not_or] at h
    have hne : k' ≠ k := fun e => h.1 e.symm
    simp only [Map.lookup, hne, ite_false]
    exact lookup_none_of_not_mem_keys t k h.2

theorem lookup_of_mem : ∀ (m : List (κ × ν)) (k : κ) (v : ν), (Map.keys m).Nodup → (k, v) ∈ m →
    Map.lookup m k = some v
  | [], _, _, _, h => by simp at h
  | (k', v') :: t, k, v, hnd, h => by
    simp only [Map.keys, List.map_cons, List.nodup_cons] at hnd
    rcases List.mem_cons.mp h with heq | hmem
    · cases heq; simp [Map.lookup]
    · have hk : k ∈ Map.keys t := List.mem_map.mpr ⟨(k, v), hmem, rfl⟩
      have hne : k' ≠ k := fun e => hnd.1 (e ▸ hk)
      simp only [Map.lookup, hne, ite_false]
      exact lookup_of_mem t k v hnd.2 hmem

theorem mem_of_lookup : ∀ (m : List (κ × ν)) (k : κ) (v : ν), Map.lookup m k = some v → (k, v) ∈ m
  | [], _, _, h => by simp [Map.lookup] at h
  | (k', v') :: t, k, v, h => by
    by_cases hk : k' = k
    · subst hk; simp [Map.lookup] at h; subst h; exact List.mem_cons_self
    · simp only [Map.lookup, hk, ite_false] at h
      exact List.mem_cons_of_mem _ (mem_of_lookup t k v h)

theorem mem_keys_upsert (m : List (κ × ν)) (k : κ) (v : ν) (x : κ) :
    x ∈ Map.keys (Map.upsert m k v) ↔ x = k ∨ x ∈ Map.keys m := by
  induction m with
  | nil => simp [Map.upsert, Map.keys]
  | cons p t ih =>
    obtain ⟨k', v'⟩ := p
    by_cases h : k' = k
    · subst h; simp [Map.upsert, Map.keys]
    · simp only [Map.upsert, h, ite_false, Map.keys, List.map_cons, List.mem_cons]
      simp only [Map.keys] at ih
      rw [ih]
      constructor
      · rintro (h1 | h1 | h1) <;> simp [h1]
      · rintro (h1 | h1 | h1) <;> simp [h1]

theorem nodup_keys_upsert (m : List (κ × ν)) (k : κ) (v : ν) (h : (Map.keys m).Nodup) :
    (Map.keys (Map.upsert m k v)).Nodup := by
  induction m with
  | nil => simp [Map.upsert, Map.keys]
  | cons p t ih =>
    obtain ⟨k', v'⟩ := p
    have h' : k' ∉ Map.keys t ∧ (Map.keys t).Nodup := by
      simpa [Map.keys, List.nodup_cons] using h
    by_cases hk : k' = k
    · subst hk
      simpa [Map.upsert, Map.keys, List.nodup_cons] using h'
    · have hcons : Map.keys (Map.upsert ((k', v') :: t) k v) = k' :: Map.keys (Map.upsert t k v) := by
        simp [Map.upsert, hk, Map.keys]
      rw [hcons, List.nodup_cons]
      refine ⟨?_, ih h'.2⟩
      rw [mem_keys_upsert]
      rintro (h1 | h1)
      · exact hk h1
      · exact h'.1 h1

theorem nodup_keys_erase (m : List (κ × ν)) (k : κ) (h : (Map.keys m).Nodup) :
    (Map.keys (Map.erase m k)).Nodup := by
  unfold Map.keys Map.erase at *
  exact List.Nodup.sublist (List.Sublist.map _ List.filter_sublist) h

end MapFacts

/-! ### the invariant -/

/-- What the property demands of one reported shard state `s` whose assigned replicas are `rs`. -/
structure ShardOk (live rs : List Nat) (s : ShardState) : Prop where
  /-- online exactly when at least one replica is alive -/
  online_iff : s.state = stOnline ↔ ∃ r, r ∈ rs ∧ r ∈ live
  /-- the leader of an online shard is an alive replica of that shard -/
  leader_ok : s.state = stOnline → ∃ l : Nat, s.leader = (l : Int) ∧ l ∈ live ∧ l ∈ rs
  /-- the only other reported state is offline, without a leader -/
  offline : s.state ≠ stOnline → s.state = stOffline ∧ s.leader = -1
  /-- the replica copy kept in the shard state is the assignment's replica list -/
  replicas_eq : s.replicas = rs

/-- One database: assignment `a` and shard states `ss` describe the same shard ids, without
duplicate keys, and every shard state is `ShardOk`. -/
structure DbOk (live : List Nat) (a : Assignment) (ss : List (Nat × ShardState)) : Prop where
  asg_keys : (Map.keys a).Nodup
  st_keys : (Map.keys ss).Nodup
  shard_ok : ∀ sid s, Map.lookup ss sid = some s → ∃ rs, Map.lookup a sid = some rs ∧ ShardOk live rs s
  reported : ∀ sid rs, Map.lookup a sid = some rs → ∃ s, Map.lookup ss sid = some s

/-- The inductive invariant of the master's storage state. -/
structure Inv (st : St) : Prop where
  asg_keys : (Map.keys st.asg).Nodup
  shards_keys : (Map.keys st.shards).Nodup
  db_ok : ∀ db ss, Map.lookup st.shards db = some ss →
    ∃ a, Map.lookup st.asg db = some a ∧ DbOk st.live a ss
  has_states : ∀ db a, Map.lookup st.asg db = some a → ∃ ss, Map.lookup st.shards db = some ss

/-- Events the discovery layer can deliver: an assignment is a JSON object keyed by shard id
(a Go map), so its keys are distinct. -/
def WellFormed : Event → Prop
  | .assignChanged _ a => (Map.keys a).Nodup
  | _ => True

/-! ### leader election -/

theorem electLeader_none {rs live : List Nat} (h : electLeader rs live = none) :
    ¬ ∃ r, r ∈ rs ∧ r ∈ live := by
  rintro ⟨r, hr, hl⟩
  have := List.find?_eq_none.mp h r hr
  exact this (by simpa using hl)

theorem electLeader_some {rs live : List Nat} {l : Nat} (h : electLeader rs live = some l) :
    l ∈ rs ∧ l ∈ live := by
  refine ⟨List.mem_of_find?_eq_some h, ?_⟩
  have := List.find?_some h
  simpa using this

/-- `ElectLeader` folded into a shard state yields a correct shard state. -/
theorem elected_ok (rs live : List Nat) (old : ShardState) (hrep : old.replicas = rs) :
    ShardOk live rs (elected rs live old) := by
  unfold elected
  cases h : electLeader rs live with
  | none =>
    have hno := electLeader_none h
    exact ⟨by simp [stOnline, stOffline, hno], by simp [stOnline, stOffline],
      by simp [stOnline, stOffline], hrep⟩
  | some l =>
    have ⟨h1, h2⟩ := electLeader_some h
    exact ⟨by simp; exact ⟨l, h1, h2⟩, fun _ => ⟨l, rfl, h2, h1⟩, by simp, hrep⟩

/-! ### shard-assignment change (`initializeShardState`) -/

theorem lookup_initShardStates (a : Assignment) (live : List Nat) (sid : Nat) :
    Map.lookup (initShardStates a live) sid
      = (Map.lookup a sid).map (fun rs => elected rs live { state := stUnknown, leader := 0, replicas := rs }) := by
  unfold initShardStates
  refine lookup_map_val _ ?_ sid a
  intro p; obtain ⟨k, v⟩ := p; rfl

theorem keys_initShardStates (a : Assignment) (live : List Nat) :
    Map.keys (initShardStates a live) = Map.keys a := by
  unfold initShardStates
  refine keys_map_val _ ?_ a
  intro p; obtain ⟨k, v⟩ := p; rfl

theorem initShardStates_ok (a : Assignment) (live : List Nat) (ha : (Map.keys a).Nodup) :
    DbOk live a (initShardStates a live) := by
  refine ⟨ha, ?_, ?_, ?_⟩
  · rw [keys_initShardStates]; exact ha
  · intro sid s hs
    rw [lookup_initShardStates] at hs
    cases hl : Map.lookup a sid with
    | none => simp [hl] at hs
    | some rs =>
      simp only [hl, Option.map_some, Option.some.injEq] at hs
      exact ⟨rs, rfl, hs ▸ elected_ok rs live _ rfl⟩
  · intro sid rs hl
    rw [lookup_initShardStates, hl]
    exact ⟨_, rfl⟩

/-! ### node start-up (`onNodeStartup`) -/

/-- the update `onNodeStartup` applies to one shard state -/
def upState (id : Nat) (s : ShardState) : ShardState :=
  if s.state ≠ stOnline then { s with state := stOnline, leader := (id : Int) } else s

theorem lookup_startupDb (id : Nat) : ∀ (a : Assignment) (ss : List (Nat × ShardState)) (sid : Nat),
    (Map.keys a).Nodup →
    Map.lookup (startupDb id a ss) sid =
      match Map.lookup a sid with
      | some rs => if rs.contains id then some (upState id ((Map.lookup ss sid).getD ShardState.zero))
                   else Map.lookup ss sid
      | none => Map.lookup ss sid
  | [], ss, sid, _ => rfl
  | (k, rs) :: t, ss, sid, hnd => by
    have hnd' : k ∉ Map.keys t ∧ (Map.keys t).Nodup := by
      simpa [Map.keys, List.nodup_cons] using hnd
    have ih := lookup_startupDb id t
    unfold startupDb at ih ⊢
    rw [List.foldl_cons, ih _ sid hnd'.2]
    by_cases hk : k = sid
    · subst hk
      rw [lookup_none_of_not_mem_keys t k hnd'.1]
      simp only [Map.lookup, ite_true]
      by_cases hc : id ∈ rs
      · simp only [List.contains_iff_mem, hc, ite_true, Map.lookup_upsert_self]; rfl
      · simp only [List.contains_iff_mem, hc, ite_false]
    · have hl : Map.lookup ((k, rs) :: t) sid = Map.lookup t sid := by
        simp [Map.lookup, hk]
      rw [hl]
      by_cases hc : id ∈ rs
      · simp only [List.contains_iff_mem, hc, ite_true, Map.lookup_upsert_ne _ k sid _ hk]
      · simp only [List.contains_iff_mem, hc, ite_false]

theorem mem_keys_startupDb (id : Nat) : ∀ (a : Assignment) (ss : List (Nat × ShardState)) (x : Nat),
    x ∈ Map.keys (startupDb id a ss) → x ∈ Map.keys ss ∨ x ∈ Map.keys a
  | [], ss, x, h => Or.inl h
  | (k, rs) :: t, ss, x, h => by
    have ih := mem_keys_startupDb id t
    unfold startupDb at ih h
    rw [List.foldl_cons] at h
    rcases ih _ x h with h1 | h1
    · by_cases hc : rs.contains id
      · simp only [hc, ite_true, mem_keys_upsert] at h1
        rcases h1 with h1 | h1
        · right; simp [Map.keys, h1]
        · left; exact h1
      · simp only [hc] at h1; left; exact h1
    · right; simp only [Map.keys, List.map_cons, List.mem_cons]; right; exact h1

theorem nodup_keys_startupDb (id : Nat) : ∀ (a : Assignment) (ss : List (Nat × ShardState)),
    (Map.keys ss).Nodup → (Map.keys (startupDb id a ss)).Nodup
  | [], ss, h => h
  | (k, rs) :: t, ss, h => by
    have ih := nodup_keys_startupDb id t
    unfold startupDb at ih ⊢
    rw [List.foldl_cons]
    apply ih
    by_cases hc : rs.contains id
    · simp only [hc, ite_true]; exact nodup_keys_upsert _ _ _ h
    · simp only [hc]; exact h

theorem mem_insertLive (live : List Nat) (id r : Nat) : r ∈ insertLive live id ↔ r ∈ live ∨ r = id := by
  unfold insertLive
  by_cases h : id ∈ live
  · simp only [List.contains_iff_mem, h, ite_true]
    constructor
    · exact Or.inl
    · rintro (h1 | h1)
      · exact h1
      · exact h1 ▸ h
  · simp [h]

/-- a shard that does not host the started node keeps a correct state -/
theorem shardOk_insertLive_other {live rs : List Nat} {s : ShardState} {id : Nat}
    (h : ShardOk live rs s) (hid : id ∉ rs) : ShardOk (insertLive live id) rs s := by
  refine ⟨?_, ?_, h.offline, h.replicas_eq⟩
  · rw [h.online_iff]
    constructor
    · rintro ⟨r, h1, h2⟩; exact ⟨r, h1, (mem_insertLive _ _ _).mpr (Or.inl h2)⟩
    · rintro ⟨r, h1, h2⟩
      rcases (mem_insertLive _ _ _).mp h2 with h3 | h3
      · exact ⟨r, h1, h3⟩
      · exact absurd (h3 ▸ h1) hid
  · intro ho
    obtain ⟨l, h1, h2, h3⟩ := h.leader_ok ho
    exact ⟨l, h1, (mem_insertLive _ _ _).mpr (Or.inl h2), h3⟩

/-- a shard hosted on the started node: stays online with its leader, or comes online led by it -/
theorem shardOk_upState {live rs : List Nat} {s : ShardState} {id : Nat}
    (h : ShardOk live rs s) (hid : id ∈ rs) : ShardOk (insertLive live id) rs (upState id s) := by
  have hidl : id ∈ insertLive live id := (mem_insertLive _ _ _).mpr (Or.inr rfl)
  unfold upState
  by_cases ho : s.state = stOnline
  · simp only [ho, ne_eq, not_true_eq_false, ite_false]
    refine ⟨?_, ?_, fun hn => absurd ho hn, h.replicas_eq⟩
    · simp only [ho, true_iff]; exact ⟨id, hid, hidl⟩
    · intro _
      obtain ⟨l, h1, h2, h3⟩ := h.leader_ok ho
      exact ⟨l, h1, (mem_insertLive _ _ _).mpr (Or.inl h2), h3⟩
  · simp only [ne_eq, ho, not_false_eq_true, ite_true]
    refine ⟨?_, fun _ => ⟨id, rfl, hidl, hid⟩, fun hn => absurd rfl hn, h.replicas_eq⟩
    simp only [true_iff]; exact ⟨id, hid, hidl⟩

theorem startupDb_ok {live : List Nat} {a : Assignment} {ss : List (Nat × ShardState)} (id : Nat)
    (h : DbOk live a ss) : DbOk (insertLive live id) a (startupDb id a ss) := by
  refine ⟨h.asg_keys, nodup_keys_startupDb id a ss h.st_keys, ?_, ?_⟩
  · intro sid s hs
    rw [lookup_startupDb id a ss sid h.asg_keys] at hs
    cases hl : Map.lookup a sid with
    | none =>
      simp only [hl] at hs
      obtain ⟨rs, h1, _⟩ := h.shard_ok sid s hs
      rw [hl] at h1; cases h1
    | some rs =>
      simp only [hl] at hs
      obtain ⟨s0, hs0⟩ := h.reported sid rs hl
      obtain ⟨rs', h1, hok⟩ := h.shard_ok sid s0 hs0
      rw [hl] at h1; cases h1
      refine ⟨rs, rfl, ?_⟩
      by_cases hc : id ∈ rs
      · simp only [List.contains_iff_mem, hc, ite_true, hs0, Option.getD_some, Option.some.injEq] at hs
        rw [← hs]
        exact shardOk_upState hok hc
      · simp only [List.contains_iff_mem, hc, ite_false, hs0, Option.some.injEq] at hs
        rw [← hs]
        exact shardOk_insertLive_other hok hc
  · intro sid rs hl
    rw [lookup_startupDb id a ss sid h.asg_keys, hl]
    obtain ⟨s0, hs0⟩ := h.reported sid rs hl
    by_cases hc : id ∈ rs
    · simp [hc]
    · simp [hc, hs0]

/-! ### node failure (`onNodeFailure`) -/

theorem lookup_failureDb (id : Nat) (a : Assignment) (live : List Nat) (ss : List (Nat × ShardState))
    (sid : Nat) :
    Map.lookup (failureDb id a live ss) sid = (Map.lookup ss sid).map (fun s =>
      if s.leader = (id : Int) then elected ((Map.lookup a sid).getD []) live s else s) := by
  unfold failureDb
  rw [lookup_map_val _ (fun p => by obtain ⟨k, s⟩ := p; simp only []; split <;> rfl) sid ss]
  cases Map.lookup ss sid with
  | none => rfl
  | some s =>
    simp only [Option.map_some, Option.some.injEq]
    split <;> rfl

theorem keys_failureDb (id : Nat) (a : Assignment) (live : List Nat) (ss : List (Nat × ShardState)) :
    Map.keys (failureDb id a live ss) = Map.keys ss := by
  unfold failureDb
  exact keys_map_val _ (fun p => by obtain ⟨k, s⟩ := p; simp only []; split <;> rfl) ss

theorem mem_filter_ne (live : List Nat) (id r : Nat) :
    r ∈ live.filter (· ≠ id) ↔ r ∈ live ∧ r ≠ id := by
  simp [List.mem_filter]

/-- a shard not led by the failed node keeps a correct state -/
theorem shardOk_filter_other {live rs : List Nat} {s : ShardState} {id : Nat}
    (h : ShardOk live rs s) (hl : s.leader ≠ (id : Int)) : ShardOk (live.filter (· ≠ id)) rs s := by
  by_cases ho : s.state = stOnline
  · obtain ⟨l, h1, h2, h3⟩ := h.leader_ok ho
    have hne : l ≠ id := by
      intro e; apply hl; rw [h1, e]
    have hl' : l ∈ live.filter (· ≠ id) := (mem_filter_ne _ _ _).mpr ⟨h2, hne⟩
    exact ⟨by simp only [ho, true_iff]; exact ⟨l, h3, hl'⟩, fun _ => ⟨l, h1, hl', h3⟩,
      fun hn => absurd ho hn, h.replicas_eq⟩
  · refine ⟨?_, fun hn => absurd hn ho, h.offline, h.replicas_eq⟩
    constructor
    · intro hn; exact absurd hn ho
    · rintro ⟨r, h1, h2⟩
      exact h.online_iff.mpr ⟨r, h1, ((mem_filter_ne _ _ _).mp h2).1⟩

theorem failureDb_ok {live : List Nat} {a : Assignment} {ss : List (Nat × ShardState)} (id : Nat)
    (h : DbOk live a ss) :
    DbOk (live.filter (· ≠ id)) a (failureDb id a (live.filter (· ≠ id)) ss) := by
  refine ⟨h.asg_keys, by rw [keys_failureDb]; exact h.st_keys, ?_, ?_⟩
  · intro sid s hs
    rw [lookup_failureDb] at hs
    cases hs0 : Map.lookup ss sid with
    | none => simp [hs0] at hs
    | some s0 =>
      obtain ⟨rs, h1, hok⟩ := h.shard_ok sid s0 hs0
      refine ⟨rs, h1, ?_⟩
      simp only [hs0, Option.map_some, Option.some.injEq, h1, Option.getD_some] at hs
      rw [← hs]
      by_cases hl : s0.leader = (id : Int)
      · simp only [hl, ite_true]
        have := elected_ok rs (live.filter (· ≠ id)) s0 hok.replicas_eq
        simpa [hl] using this
      · simp only [hl, ite_false]
        exact shardOk_filter_other hok hl
  · intro sid rs hl
    obtain ⟨s0, hs0⟩ := h.reported sid rs hl
    rw [lookup_failureDb, hs0]
    exact ⟨_, rfl⟩

/-! ### every event preserves the invariant -/

theorem inv_init : Inv St.init :=
  ⟨by simp [St.init, Map.keys], by simp [St.init, Map.keys],
   fun db ss h => by simp [St.init] at h, fun db a h => by simp [St.init] at h⟩

/-- what `step` does to one database's shard states on node start-up -/
def upF (st : St) (id : Nat) (p : Nat × List (Nat × ShardState)) : Nat × List (Nat × ShardState) :=
  (p.1, match Map.lookup st.asg p.1 with
        | some a => startupDb id a p.2
        | none => p.2)

theorem step_nodeUp_shards (st : St) (id : Nat) :
    (step st (.nodeUp id)).shards = st.shards.map (upF st id) := by
  show List.map _ st.shards = _
  apply List.map_congr_left
  rintro ⟨db, ss⟩ _
  simp only [upF]
  cases Map.lookup st.asg db <;> rfl

/-- what `step` does to one database's shard states on node failure -/
def downF (st : St) (id : Nat) (p : Nat × List (Nat × ShardState)) : Nat × List (Nat × ShardState) :=
  (p.1, failureDb id ((Map.lookup st.asg p.1).getD []) (st.live.filter (· ≠ id)) p.2)

theorem step_nodeDown_shards (st : St) (id : Nat) :
    (step st (.nodeDown id)).shards = st.shards.map (downF st id) := by
  show List.map _ st.shards = _
  apply List.map_congr_left
  rintro ⟨db, ss⟩ _
  rfl

theorem inv_nodeUp {st : St} (h : Inv st) (id : Nat) : Inv (step st (.nodeUp id)) := by
  have hlive : (step st (.nodeUp id)).live = insertLive st.live id := rfl
  have hasg : (step st (.nodeUp id)).asg = st.asg := rfl
  have hsh := step_nodeUp_shards st id
  have hg : ∀ p, (upF st id p).1 = p.1 := fun _ => rfl
  refine ⟨h.asg_keys, ?_, ?_, ?_⟩
  · rw [hsh, keys_map_val _ hg]; exact h.shards_keys
  · intro db ss' hs
    rw [hsh, lookup_map_val _ hg] at hs
    rw [hasg, hlive]
    cases hss : Map.lookup st.shards db with
    | none => simp [hss] at hs
    | some ss =>
      obtain ⟨a, ha, hok⟩ := h.db_ok db ss hss
      simp only [hss, Option.map_some, Option.some.injEq, upF, ha] at hs
      exact ⟨a, ha, hs ▸ startupDb_ok id hok⟩
  · intro db a ha
    rw [hasg] at ha
    obtain ⟨ss, hss⟩ := h.has_states db a ha
    rw [hsh, lookup_map_val _ hg, hss]
    exact ⟨_, rfl⟩

theorem inv_nodeDown {st : St} (h : Inv st) (id : Nat) : Inv (step st (.nodeDown id)) := by
  have hlive : (step st (.nodeDown id)).live = st.live.filter (· ≠ id) := rfl
  have hasg : (step st (.nodeDown id)).asg = st.asg := rfl
  have hsh := step_nodeDown_shards st id
  have hg : ∀ p, (downF st id p).1 = p.1 := fun _ => rfl
  refine ⟨h.asg_keys, ?_, ?_, ?_⟩
  · rw [hsh, keys_map_val _ hg]; exact h.shards_keys
  · intro db ss' hs
    rw [hsh, lookup_map_val _ hg] at hs
    rw [hasg, hlive]
    cases hss : Map.lookup st.shards db with
    | none => simp [hss] at hs
    | some ss =>
      obtain ⟨a, ha, hok⟩ := h.db_ok db ss hss
      simp only [hss, Option.map_some, Option.some.injEq, downF, ha, Option.getD_some] at hs
      exact ⟨a, ha, hs ▸ failureDb_ok id hok⟩
  · intro db a ha
    rw [hasg] at ha
    obtain ⟨ss, hss⟩ := h.has_states db a ha
    rw [hsh, lookup_map_val _ hg, hss]
    exact ⟨_, rfl⟩

theorem inv_assignChanged {st : St} (h : Inv st) (db : Nat) (a : Assignment)
    (ha : (Map.keys a).Nodup) : Inv (step st (.assignChanged db a)) := by
  refine ⟨nodup_keys_upsert _ _ _ h.asg_keys, nodup_keys_upsert _ _ _ h.shards_keys, ?_, ?_⟩
  · intro db' ss hs
    change Map.lookup (Map.upsert st.shards db (initShardStates a st.live)) db' = some ss at hs
    change ∃ a', Map.lookup (Map.upsert st.asg db a) db' = some a' ∧ DbOk st.live a' ss
    by_cases hd : db = db'
    · subst hd
      rw [Map.lookup_upsert_self] at hs
      rw [Map.lookup_upsert_self]
      cases hs
      exact ⟨a, rfl, initShardStates_ok a st.live ha⟩
    · rw [Map.lookup_upsert_ne _ _ _ _ hd] at hs
      rw [Map.lookup_upsert_ne _ _ _ _ hd]
      exact h.db_ok db' ss hs
  · intro db' a' ha'
    change Map.lookup (Map.upsert st.asg db a) db' = some a' at ha'
    change ∃ ss, Map.lookup (Map.upsert st.shards db (initShardStates a st.live)) db' = some ss
    by_cases hd : db = db'
    · subst hd; rw [Map.lookup_upsert_self]; exact ⟨_, rfl⟩
    · rw [Map.lookup_upsert_ne _ _ _ _ hd] at ha'
      rw [Map.lookup_upsert_ne _ _ _ _ hd]
      exact h.has_states db' a' ha'

theorem inv_dbCfg {st : St} (h : Inv st) (db : Nat) : Inv (step st (.dbCfg db)) :=
  ⟨h.asg_keys, h.shards_keys, h.db_ok, h.has_states⟩

theorem inv_dropDb {st : St} (h : Inv st) (db : Nat) : Inv (step st (.dropDb db)) := by
  unfold step
  by_cases hc : st.dbs.contains db
  · simp only [hc, ite_true]
    refine ⟨nodup_keys_erase _ _ h.asg_keys, nodup_keys_erase _ _ h.shards_keys, ?_, ?_⟩
    · intro db' ss hs
      simp only [] at hs ⊢
      by_cases hd : db = db'
      · subst hd; rw [Map.lookup_erase_self] at hs; cases hs
      · rw [Map.lookup_erase_ne _ _ _ hd] at hs
        rw [Map.lookup_erase_ne _ _ _ hd]
        exact h.db_ok db' ss hs
    · intro db' a' ha'
      simp only [] at ha' ⊢
      by_cases hd : db = db'
      · subst hd; rw [Map.lookup_erase_self] at ha'; cases ha'
      · rw [Map.lookup_erase_ne _ _ _ hd] at ha'
        rw [Map.lookup_erase_ne _ _ _ hd]
        exact h.has_states db' a' ha'
  · simp only [hc]
    exact h

theorem inv_step {st : St} (h : Inv st) (ev : Event) (hw : WellFormed ev) : Inv (step st ev) := by
  cases ev with
  | nodeUp id => exact inv_nodeUp h id
  | nodeDown id => exact inv_nodeDown h id
  | assignChanged db a => exact inv_assignChanged h db a hw
  | dbCfg db => exact inv_dbCfg h db
  | dropDb db => exact inv_dropDb h db

theorem inv_run : ∀ (es : List Event) (st : St), Inv st → (∀ e ∈ es, WellFormed e) → Inv (run st es)
  | [], _, h, _ => h
  | e :: t, st, h, hw => by
    unfold run
    rw [List.foldl_cons]
    exact inv_run t (step st e) (inv_step h e (hw e List.mem_cons_self))
      (fun e' he' => hw e' (List.mem_cons_of_mem _ he'))

/-! ### the live set is exactly what the start / failure events say -/

/-- is node `r` alive after the events `es`, given whether it was alive before: the last
start-up / failure event that names `r` decides -/
def aliveAfter (r : Nat) : List Event → Bool → Bool
  | [], b => b
  | .nodeUp id :: t, b => aliveAfter r t (if id = r then true else b)
  | .nodeDown id :: t, b => aliveAfter r t (if id = r then false else b)
  | _ :: t, b => aliveAfter r t b

theorem mem_live_step (st : St) (ev : Event) (r : Nat) :
    r ∈ (step st ev).live ↔
      match ev with
      | .nodeUp id => r ∈ st.live ∨ r = id
      | .nodeDown id => r ∈ st.live ∧ r ≠ id
      | _ => r ∈ st.live := by
  cases ev with
  | nodeUp id => exact mem_insertLive st.live id r
  | nodeDown id => exact mem_filter_ne st.live id r
  | assignChanged db a => exact Iff.rfl
  | dbCfg db => exact Iff.rfl
  | dropDb db =>
    unfold step
    by_cases hc : st.dbs.contains db
    · simp only [hc, ite_true]
    · simp only [hc]; exact Iff.rfl

theorem mem_live_run (r : Nat) : ∀ (es : List Event) (st : St),
    r ∈ (run st es).live ↔ aliveAfter r es (decide (r ∈ st.live)) = true
  | [], st => by simp [run, aliveAfter]
  | ev :: t, st => by
    have ih := mem_live_run r t (step st ev)
    unfold run at ih ⊢
    rw [List.foldl_cons, ih]
    have hstep := mem_live_step st ev r
    cases ev with
    | nodeUp id =>
      simp only [aliveAfter]
      by_cases h : id = r
      · subst h; simp [hstep]
      · have h' : r ≠ id := fun e => h e.symm
        simp [hstep, h, h']
    | nodeDown id =>
      simp only [aliveAfter]
      by_cases h : id = r
      · subst h; simp [hstep]
      · have h' : r ≠ id := fun e => h e.symm
        simp [hstep, h, h']
    | assignChanged db a => simp only [aliveAfter]; simp [hstep]
    | dbCfg db => simp only [aliveAfter]; simp [hstep]
    | dropDb db => simp only [aliveAfter]; simp [hstep]

/-! ### assignments produced by the assignment loop are well-formed events -/

theorem nodup_keys_foldl_addReplicaTo (cur : Nat) : ∀ (l : List Nat) (a : Assignment),
    (Map.keys a).Nodup → (Map.keys (l.foldl (fun acc r => addReplicaTo acc cur r) a)).Nodup
  | [], _, h => h
  | r :: t, a, h => by
    rw [List.foldl_cons]
    exact nodup_keys_foldl_addReplicaTo cur t _ (nodup_keys_upsert _ _ _ h)

theorem nodup_keys_assignLoop (nodes : List Nat) (rf start : Nat) :
    ∀ (k shift cur : Nat) (a : Assignment), (Map.keys a).Nodup →
      (Map.keys (assignLoop nodes rf start k shift cur a)).Nodup
  | 0, _, _, _, h => h
  | k + 1, shift, cur, a, h => by
    rw [assignLoop]
    exact nodup_keys_assignLoop nodes rf start k _ _ _ (nodup_keys_foldl_addReplicaTo cur _ a h)

/-! ### the event queue between `EmitEvent` and `processEvent` loses nothing -/

theorem run_append (st : St) (es fs : List Event) : run st (es ++ fs) = run (run st es) fs := by
  simp [run, List.foldl_append]

/-- the state the queue is heading for is the state after ALL emitted events -/
def QInv (q : QSt) : Prop := run q.st q.queue = run St.init q.emitted

theorem qinv_init : QInv QSt.init := rfl

theorem qinv_step (cap : Nat) (q : QSt) (a : QAction) (h : QInv q) : QInv ((qstep cap q a).getD q) := by
  cases a with
  | emit e =>
    unfold qstep
    by_cases hc : q.queue.length < cap
    · simp only [hc, ite_true, Option.getD_some]
      unfold QInv at h ⊢
      simp only [run_append, h]
    · simp only [hc, ite_false, Option.getD_none]; exact h
  | consume =>
    unfold qstep
    cases hq : q.queue with
    | nil => simp only [Option.getD_none]; exact h
    | cons e t =>
      simp only [Option.getD_some]
      unfold QInv at h ⊢
      rw [hq] at h
      simpa [run, List.foldl_cons] using h

theorem qinv_run (cap : Nat) : ∀ (as : List QAction) (q : QSt), QInv q → QInv (qrun cap q as)
  | [], _, h => h
  | a :: t, q, h => by
    unfold qrun
    rw [List.foldl_cons]
    exact qinv_run cap t _ (qinv_step cap q a h)

/-- emitted events that are all well-formed -/
theorem emitted_step (cap : Nat) (q : QSt) (a : QAction) (P : Event → Prop)
    (ha : ∀ e, a = .emit e → P e) (h : ∀ e ∈ q.emitted, P e) :
    ∀ e ∈ ((qstep cap q a).getD q).emitted, P e := by
  cases a with
  | emit e0 =>
    unfold qstep
    by_cases hc : q.queue.length < cap
    · simp only [hc, ite_true, Option.getD_some]
      intro e he
      rcases List.mem_append.mp he with h1 | h1
      · exact h e h1
      · have : e = e0 := by simpa using h1
        exact this ▸ ha e0 rfl
    · simp only [hc, ite_false, Option.getD_none]; exact h
  | consume =>
    unfold qstep
    cases hq : q.queue with
    | nil => simp only [Option.getD_none]; exact h
    | cons e t => simp only [Option.getD_some]; exact h

theorem emitted_run (cap : Nat) (P : Event → Prop) : ∀ (as : List QAction) (q : QSt),
    (∀ e, QAction.emit e ∈ as → P e) → (∀ e ∈ q.emitted, P e) →
    ∀ e ∈ (qrun cap q as).emitted, P e
  | [], _, _, h => h
  | a :: t, q, ha, h => by
    unfold qrun
    rw [List.foldl_cons]
    exact emitted_run cap P t _ (fun e he => ha e (List.mem_cons_of_mem _ he))
      (emitted_step cap q a P (fun e he => ha e (he ▸ List.mem_cons_self)) h)

/-! ### fail-over and watch interleavings -/

theorem mem_live_run_nodeUps (r : Nat) : ∀ (l : List Nat) (st : St),
    r ∈ (run st (l.map Event.nodeUp)).live ↔ r ∈ st.live ∨ r ∈ l
  | [], st => by simp [run]
  | id :: t, st => by
    have ih := mem_live_run_nodeUps r t (step st (.nodeUp id))
    have hs := mem_live_step st (.nodeUp id) r
    simp only [List.map_cons, run, List.foldl_cons] at ih ⊢
    rw [ih, hs]
    simp only [List.mem_cons]
    constructor
    · rintro ((h | h) | h)
      · exact Or.inl h
      · exact Or.inr (Or.inl h)
      · exact Or.inr (Or.inr h)
    · rintro (h | h | h)
      · exact Or.inl (Or.inl h)
      · exact Or.inl (Or.inr h)
      · exact Or.inr h

/-- events that are not node events leave the live set alone -/
theorem mem_live_run_nonnode (r : Nat) : ∀ (es : List Event) (st : St),
    (∀ e ∈ es, ∀ id, e.key ≠ .node id) → (r ∈ (run st es).live ↔ r ∈ st.live)
  | [], _, _ => by simp [run]
  | e :: t, st, h => by
    have ih := mem_live_run_nonnode r t (step st e) (fun e' he' => h e' (List.mem_cons_of_mem _ he'))
    have hs := mem_live_step st e r
    simp only [run, List.foldl_cons] at ih ⊢
    rw [ih, hs]
    have he := h e List.mem_cons_self
    cases e with
    | nodeUp id => exact absurd rfl (he id)
    | nodeDown id => exact absurd rfl (he id)
    | assignChanged db a => exact Iff.rfl
    | dbCfg db => exact Iff.rfl
    | dropDb db => exact Iff.rfl

/-- whether node `r` is alive depends only on the stream of `r`'s own key -/
theorem aliveAfter_streamOf (r : Nat) : ∀ (es : List Event) (b : Bool),
    aliveAfter r es b = aliveAfter r (streamOf (.node r) es) b
  | [], _ => rfl
  | e :: t, b => by
    have ih := aliveAfter_streamOf r t
    cases e with
    | nodeUp id =>
      by_cases h : id = r
      · subst h
        simp only [streamOf, List.filter_cons, Event.key, decide_true, ite_true, aliveAfter]
        exact ih _
      · have hk : ¬ (Key.node id = Key.node r) := fun e => h (Key.node.inj e)
        simp only [streamOf, List.filter_cons, Event.key, hk, decide_false, aliveAfter, h, ite_false]
        exact ih _
    | nodeDown id =>
      by_cases h : id = r
      · subst h
        simp only [streamOf, List.filter_cons, Event.key, decide_true, ite_true, aliveAfter]
        exact ih _
      · have hk : ¬ (Key.node id = Key.node r) := fun e => h (Key.node.inj e)
        simp only [streamOf, List.filter_cons, Event.key, hk, decide_false, aliveAfter, h, ite_false]
        exact ih _
    | assignChanged db a =>
      simp only [streamOf, List.filter_cons, Event.key, aliveAfter]
      have hk : ¬ (Key.asg db = Key.node r) := fun e => Key.noConfusion e
      simp only [hk, decide_false]
      exact ih _
    | dbCfg db =>
      simp only [streamOf, List.filter_cons, Event.key, aliveAfter]
      have hk : ¬ (Key.cfg db = Key.node r) := fun e => Key.noConfusion e
      simp only [hk, decide_false]
      exact ih _
    | dropDb db =>
      simp only [streamOf, List.filter_cons, Event.key, aliveAfter]
      have hk : ¬ (Key.cfg db = Key.node r) := fun e => Key.noConfusion e
      simp only [hk, decide_false]
      exact ih _

end LinVerif.Lemmas.C18
