/-
Helper lemmas for C18, round 10: the replay of the repository's keys in ANY order (master start-up /
fail-over), leader stability, the elect-leader choice function.
-/
import LinVerif.Model.C18State
import LinVerif.Lemmas.C18Master

namespace LinVerif.Lemmas.C18
open LinVerif LinVerif.Assign LinVerif.Master

/-! ### ElectLeader: the first alive replica in replica order -/

theorem electLeader_some_iff (rs live : List Nat) (l : Nat) :
    electLeader rs live = some l ↔
      ∃ pre post, rs = pre ++ l :: post ∧ l ∈ live ∧ ∀ x ∈ pre, x ∉ live := by
  unfold electLeader
  rw [List.find?_eq_some_iff_append]
  constructor
  · rintro ⟨hl, pre, post, hrs, hpre⟩
    refine ⟨pre, post, hrs, by simpa using hl, ?_⟩
    intro x hx; simpa using hpre x hx
  · rintro ⟨pre, post, hrs, hl, hpre⟩
    refine ⟨by simpa using hl, pre, post, hrs, ?_⟩
    intro x hx; simpa using hpre x hx

theorem electLeader_none_iff (rs live : List Nat) :
    electLeader rs live = none ↔ ∀ r ∈ rs, r ∉ live := by
  unfold electLeader
  simp [List.find?_eq_none]

/-- the choice depends on the live set only through the replicas up to and including the chosen one:
any other live set that keeps the leader alive and brings none of the EARLIER replicas up elects the
same leader -/
theorem electLeader_stable (rs live live' : List Nat) (l : Nat) (h : electLeader rs live = some l)
    (hl : l ∈ live') (hpre : ∀ x ∈ rs, x ∈ live' → x ∈ live) : electLeader rs live' = some l := by
  obtain ⟨pre, post, hrs, _, hp⟩ := (electLeader_some_iff rs live l).mp h
  refine (electLeader_some_iff rs live' l).mpr ⟨pre, post, hrs, hl, ?_⟩
  intro x hx hx'
  exact hp x hx (hpre x (by rw [hrs]; exact List.mem_append_left _ hx) hx')

/-! ### leader stability: an online shard keeps its state entry while its leader is not reported
failed and its database's assignment is neither re-delivered nor dropped -/

/-- the events that may change the state entry of a shard of `db` led by `l` -/
def Touches (db l : Nat) : Event → Prop
  | .nodeDown id => id = l
  | .assignChanged db' _ => db' = db
  | .dropDb db' => db' = db
  | _ => False

theorem leader_stable_step (st : St) (h : Inv st) (ev : Event) (db sid l : Nat)
    (ss : List (Nat × ShardState)) (s : ShardState)
    (hss : Map.lookup st.shards db = some ss) (hs : Map.lookup ss sid = some s)
    (hon : s.state = stOnline) (hl : s.leader = (l : Int)) (hev : ¬ Touches db l ev) :
    ∃ ss', Map.lookup (step st ev).shards db = some ss' ∧ Map.lookup ss' sid = some s := by
  obtain ⟨a, ha, hok⟩ := h.db_ok db ss hss
  cases ev with
  | nodeUp id =>
    rw [step_nodeUp_shards, lookup_map_val (upF st id) (fun _ => rfl) db, hss]
    refine ⟨_, rfl, ?_⟩
    simp only [upF, ha]
    rw [lookup_startupDb id a ss sid hok.asg_keys]
    obtain ⟨rs, hrs, _⟩ := hok.shard_ok sid s hs
    rw [hrs]
    simp only [hs, Option.getD_some]
    have : upState id s = s := by simp [upState, hon]
    split <;> simp [this]
  | nodeDown id =>
    have hne : id ≠ l := fun e => hev e
    rw [step_nodeDown_shards, lookup_map_val (downF st id) (fun _ => rfl) db, hss]
    refine ⟨_, rfl, ?_⟩
    simp only [downF]
    rw [lookup_failureDb, hs]
    have : ¬ s.leader = (id : Int) := by rw [hl]; omega
    simp [this]
  | assignChanged db' a' =>
    have hne : db' ≠ db := fun e => hev e
    refine ⟨ss, ?_, hs⟩
    show Map.lookup (Map.upsert st.shards db' _) db = some ss
    rw [Map.lookup_upsert_ne _ _ _ _ hne, hss]
  | dbCfg db' => exact ⟨ss, hss, hs⟩
  | dropDb db' =>
    have hne : db' ≠ db := fun e => hev e
    refine ⟨ss, ?_, hs⟩
    unfold step
    by_cases hc : st.dbs.contains db'
    · simp only [hc, ite_true]
      rw [Map.lookup_erase_ne _ _ _ hne, hss]
    · simp only [hc]; exact hss

theorem leader_stable_run : ∀ (es : List Event) (st : St), Inv st → (∀ e ∈ es, WellFormed e) →
    ∀ (db sid l : Nat) (ss : List (Nat × ShardState)) (s : ShardState),
    Map.lookup st.shards db = some ss → Map.lookup ss sid = some s →
    s.state = stOnline → s.leader = (l : Int) → (∀ e ∈ es, ¬ Touches db l e) →
    ∃ ss', Map.lookup (run st es).shards db = some ss' ∧ Map.lookup ss' sid = some s
  | [], _, _, _, _, _, _, ss, _, hss, hs, _, _, _ => ⟨ss, hss, hs⟩
  | e :: t, st, h, hw, db, sid, l, ss, s, hss, hs, hon, hl, hev => by
    obtain ⟨ss1, h1, h2⟩ := leader_stable_step st h e db sid l ss s hss hs hon hl (hev e List.mem_cons_self)
    have hinv := inv_step h e (hw e List.mem_cons_self)
    simp only [run, List.foldl_cons]
    exact leader_stable_run t (step st e) hinv (fun e' he' => hw e' (List.mem_cons_of_mem _ he'))
      db sid l ss1 s h1 h2 hon hl (fun e' he' => hev e' (List.mem_cons_of_mem _ he'))

/-! ### replaying the keys of a repository in any order -/

theorem aliveAfter_no_down (r : Nat) : ∀ (es : List Event) (b : Bool),
    (∀ e ∈ es, ∀ id, e ≠ .nodeDown id) →
    (aliveAfter r es b = true ↔ b = true ∨ Event.nodeUp r ∈ es)
  | [], b, _ => by simp [aliveAfter]
  | e :: t, b, h => by
    have ht : ∀ e' ∈ t, ∀ id, e' ≠ .nodeDown id := fun e' he' => h e' (List.mem_cons_of_mem _ he')
    cases e with
    | nodeUp id =>
      simp only [aliveAfter]
      rw [aliveAfter_no_down r t _ ht]
      by_cases hid : id = r
      · subst hid; simp
      · have : ¬ r = id := fun e => hid e.symm
        simp [hid, this]
    | nodeDown id => exact absurd rfl (h _ List.mem_cons_self id)
    | assignChanged db a => simp only [aliveAfter]; rw [aliveAfter_no_down r t _ ht]; simp
    | dbCfg db => simp only [aliveAfter]; rw [aliveAfter_no_down r t _ ht]; simp
    | dropDb db => simp only [aliveAfter]; rw [aliveAfter_no_down r t _ ht]; simp

/-- events that leave the assignment entry of `db` alone -/
def LeavesAsg (db : Nat) : Event → Prop
  | .assignChanged db' _ => db' ≠ db
  | .dropDb _ => False
  | _ => True

theorem asg_step_leaves (st : St) (ev : Event) (db : Nat) (h : LeavesAsg db ev) :
    Map.lookup (step st ev).asg db = Map.lookup st.asg db := by
  cases ev with
  | nodeUp id => rfl
  | nodeDown id => rfl
  | assignChanged db' a => exact Map.lookup_upsert_ne _ _ _ _ h
  | dbCfg db' => rfl
  | dropDb db' => exact absurd h id

theorem asg_run_leaves : ∀ (es : List Event) (st : St) (db : Nat), (∀ e ∈ es, LeavesAsg db e) →
    Map.lookup (run st es).asg db = Map.lookup st.asg db
  | [], _, _, _ => rfl
  | e :: t, st, db, h => by
    simp only [run, List.foldl_cons]
    have := asg_run_leaves t (step st e) db (fun e' he' => h e' (List.mem_cons_of_mem _ he'))
    simp only [run] at this
    rw [this, asg_step_leaves st e db (h e List.mem_cons_self)]

/-- if the only assignment payload for `db` among the events is `a` (however often and wherever it
is delivered) and nothing is dropped, the manager ends up holding `a` for `db` -/
theorem asg_run_unique : ∀ (es : List Event) (st : St) (db : Nat) (a : Assignment),
    (∀ e ∈ es, ∀ d, e ≠ .dropDb d) →
    (∀ a', Event.assignChanged db a' ∈ es → a' = a) → Event.assignChanged db a ∈ es →
    Map.lookup (run st es).asg db = some a
  | [], _, _, _, _, _, hin => by simp at hin
  | e :: t, st, db, a, hnd, huniq, hin => by
    simp only [run, List.foldl_cons]
    have hnd' : ∀ e' ∈ t, ∀ d, e' ≠ .dropDb d := fun e' he' => hnd e' (List.mem_cons_of_mem _ he')
    have huniq' : ∀ a', Event.assignChanged db a' ∈ t → a' = a :=
      fun a' h' => huniq a' (List.mem_cons_of_mem _ h')
    by_cases ht : Event.assignChanged db a ∈ t
    · exact asg_run_unique t (step st e) db a hnd' huniq' ht
    · have he : e = .assignChanged db a := by
        rcases List.mem_cons.mp hin with h1 | h1
        · exact h1.symm
        · exact absurd h1 ht
      subst he
      have hleaves : ∀ e' ∈ t, LeavesAsg db e' := by
        intro e' he'
        cases e' with
        | nodeUp id => trivial
        | nodeDown id => trivial
        | dbCfg d => trivial
        | dropDb d => exact absurd rfl (hnd' _ he' d)
        | assignChanged db' a' =>
          show db' ≠ db
          intro hdb; subst hdb
          have := huniq' a' he'; subst this
          exact ht he'
      have := asg_run_leaves t (step st (.assignChanged db a)) db hleaves
      simp only [run] at this
      rw [this]
      exact Map.lookup_upsert_self _ _ _

end LinVerif.Lemmas.C18
