/-
C11 — several sources per family, any function aggregate: the leaf answer as the fold in LOAD order
(families as listed; per family the memory database, then the level-0 files in flush order, then
the compacted file; per source the group's series; per series the slots ascending), and when that
fold is the reference: the sources hold disjoint slots (a commutative function, native or not), or
disjoint buckets (any aggregate, first/last included).
-/
import LinVerif.Lemmas.C11Sorted

set_option linter.unusedSimpArgs false
set_option linter.unusedVariables false

namespace LinVerif.Lemmas.C11
open LinVerif LinVerif.NaiveQuery LinVerif.MemDB

/-! ### folds in which at most one term has a value -/

theorem fsum_eq_none_iff {ι : Type} (A : AggType) (l : List ι) (f : ι → Option Int) :
    fsum A l f = none ↔ ∀ i ∈ l, f i = none := by
  constructor
  · intro h
    induction l with
    | nil => intro i hi; simp at hi
    | cons x rest ih =>
      rw [fsum_cons] at h
      cases hx : f x with
      | some v => rw [hx] at h; cases hr : fsum A rest f <;> rw [hr] at h <;> simp [ocomb] at h
      | none =>
        rw [hx, ocomb_none_left] at h
        intro i hi
        rcases List.mem_cons.mp hi with e | e
        · rw [e]; exact hx
        · exact ih h i e
  · exact fsum_all_none A l f

theorem fsum_map {ι κ : Type} (A : AggType) (l : List ι) (g : ι → κ) (f : κ → Option Int) :
    fsum A (l.map g) f = fsum A l (fun i => f (g i)) := by
  induction l with
  | nil => rfl
  | cons x rest ih => simp only [List.map_cons, fsum_cons, ih]

/-- at most one of the values is present. -/
def Disjoint (l : List (Option Int)) : Prop := l.Pairwise (fun a b => a = none ∨ b = none)

/-- the fold of values of which at most one is present is that value — under any aggregate. -/
theorem osum_of_mem (A : AggType) (l : List (Option Int)) (hd : Disjoint l) (v : Int) (hm : some v ∈ l) :
    fsum A l id = some v := by
  induction l with
  | nil => simp at hm
  | cons x rest ih =>
    rw [Disjoint, List.pairwise_cons] at hd
    rw [fsum_cons]
    rcases List.mem_cons.mp hm with e | e
    · have hrest : fsum A rest id = none := by
        apply fsum_all_none
        intro y hy
        rcases hd.1 y hy with h | h
        · rw [← e] at h; cases h
        · exact h
      rw [hrest, ← e]
      rfl
    · have hx : x = none := by
        rcases hd.1 (some v) e with h | h
        · exact h
        · cases h
      rw [ih hd.2 e, hx]
      rfl

/-- ... hence independent of the aggregate and of the order. -/
theorem osum_perm_any (A B : AggType) (l1 l2 : List (Option Int)) (hp : l1.Perm l2) (hd : Disjoint l1) :
    fsum A l1 id = fsum B l2 id := by
  have hd2 : Disjoint l2 :=
    (List.Perm.pairwise_iff (fun {x y} (h : x = none ∨ y = none) => Or.symm h) hp).mp hd
  cases h1 : fsum A l1 id with
  | none =>
    have hall := (fsum_eq_none_iff A l1 id).mp h1
    symm
    apply fsum_all_none
    intro y hy
    exact hall y (hp.mem_iff.mpr hy)
  | some v =>
    -- some element of l1 is present
    have hex : ∃ w, some w ∈ l1 := by
      apply Classical.byContradiction
      intro hne
      have : fsum A l1 id = none := by
        apply fsum_all_none
        intro y hy
        cases y with
        | none => rfl
        | some w => exact absurd ⟨w, hy⟩ hne
      rw [this] at h1
      cases h1
    obtain ⟨w, hw⟩ := hex
    have e1 := osum_of_mem A l1 hd w hw
    rw [e1] at h1
    rw [← h1]
    exact (osum_of_mem B l2 hd2 w (hp.mem_iff.mp hw)).symm

/-! ### the sources of a family -/

/-- the sources of a family in load order, as views (series, slot) ↦ value of the field: the memory
database, then the files as a snapshot lists them. -/
def srcFns (s : Shard) (fam fld : Nat) : List (Nat → Nat → Option Int) :=
  (fun ser slot => pageView s fam ser fld slot) ::
    (s.family fam).readers.map (fun blk => fun ser slot => blk.cell (ser, fld) slot)

/-- the values the sources hold for one slot of one series. -/
def srcVals (s : Shard) (fam fld ser slot : Nat) : List (Option Int) :=
  (srcFns s fam fld).map (fun X => X ser slot)

theorem perm_sources (a : Option Int) (files : List (Option Int)) (base : List (Option Int)) :
    (a :: (files ++ base)).Perm ((base ++ files) ++ [a]) := by
  have h1 : (a :: (files ++ base)).Perm ((files ++ base) ++ [a]) := List.perm_append_singleton a (files ++ base) |>.symm
  exact h1.trans (List.Perm.append_right [a] List.perm_append_comm)

/-- when at most one source holds the slot, the family's store view (files in write order, then
memory, combined by the field's aggregate) is that value: the fold of the sources in load order
under ANY aggregate. -/
theorem storeView_eq_osum (G : AggType) (s : Shard) (fam ser fld slot : Nat)
    (hd : Disjoint (srcVals s fam fld ser slot)) :
    storeView s fam ser fld slot = fsum G (srcVals s fam fld ser slot) id := by
  unfold storeView
  rw [filesView_eq_fsum]
  have hstore : ocomb (s.fieldAgg fld) (fsum (s.fieldAgg fld) (s.family fam).chron (fun blk => blk.cell (ser, fld) slot))
      (pageView s fam ser fld slot) =
      fsum (s.fieldAgg fld) (((s.family fam).chron.map (fun blk => blk.cell (ser, fld) slot)) ++ [pageView s fam ser fld slot]) id := by
    rw [fsum_append, fsum_map, fsum_cons, fsum_nil, ocomb_none_right]
    rfl
  rw [hstore]
  symm
  apply osum_perm_any G (s.fieldAgg fld) _ _ _ hd
  unfold srcVals srcFns Family.readers Family.chron
  cases hb : (s.family fam).base with
  | none =>
    simp only [List.map_cons, List.map_map, List.map_append, Function.comp_def, List.append_nil, List.nil_append,
      List.map_nil]
    exact (List.perm_append_singleton _ _).symm
  | some b =>
    simp only [List.map_cons, List.map_map, List.map_append, Function.comp_def, List.map_nil]
    exact perm_sources _ _ [_]

/-! ### the leaf answer in load order -/

/-- **The leaf answer, exactly, for the current merge order** — any function aggregate `F` selected
on the field (its own or not, commutative or not), any number of sources per family: the fold, by
`F`, over the families as listed, per family over the sources in load order (memory database, then
the files), per source over the group's series, per series over the bucket's slots ascending, of
the value the source holds (slots of one source already combined by the field's aggregate). -/
theorem leafGroup_load_order (s : Shard) (pts : List Point) (hinv : Inv s pts) (h2 : Inv2 s) (hps : PagesSorted s)
    (q : Query) (F : AggType) {L : List AggType} (hL : L.Nodup) (hAL : F ∈ L) (sc : Scope)
    (hspf : 0 < q.spf) (fams group : List Nat) (hsc : ScopeOK q sc group) (t : Nat) :
    arrGet (leafGroup s q sc L fams group) F t =
      fsum F fams (fun fam => fsum F (srcFns s fam q.field) (fun X => famBucket F q fam t group X)) := by
  unfold leafGroup
  have hab : s.cfg.aggregateByType = true := by rw [hinv.cfgFixed]; rfl
  rw [hab]
  simp only [if_true]
  rw [reduce_spec L hL _ hAL _ (by
    intro c hcm
    rw [List.mem_flatMap] at hcm
    obtain ⟨fam, _, hf⟩ := hcm
    exact familyCalls_wf s q sc L hL fam group c hf) t]
  rw [fsum_flatMap]
  apply fsum_congr
  intro fam _
  rw [familyCalls_fsum_raw s pts hinv h2 q F hL hAL sc hspf fam group hsc t
    (fun md hm => memCalls_fsum_gen s pts hinv q F hspf fam md hm
      (fun ser b hp hbi => pageFold_sorted F _ L hL hAL b hbi (hps fam md hm _ b hp)) group t)]
  unfold srcFns
  rw [fsum_cons, fsum_map]

/-! ### disjoint slots: a commutative function, native or not -/

/-- no slot of the family is held by two sources (no cell was written again after its flush, no
file overlaps another in a cell). -/
def SlotsUnsplit (s : Shard) (fam fld : Nat) : Prop :=
  ∀ ser slot, Disjoint (srcVals s fam fld ser slot)

theorem family_fold_unsplit (s : Shard) (q : Query) (F : AggType) (hc : AggComm F) (fam t : Nat) (group : List Nat)
    (hu : SlotsUnsplit s fam q.field) :
    fsum F (srcFns s fam q.field) (fun X => famBucket F q fam t group X) =
      famBucket F q fam t group (fun ser slot => storeView s fam ser q.field slot) := by
  rw [famBucket_fsum hc]
  apply famBucket_congr
  intro ser slot _ _
  rw [storeView_eq_osum F s fam ser q.field slot (hu ser slot)]
  unfold srcVals
  rw [fsum_map]
  rfl

theorem leafGroup_eq_fsum_unsplit (s : Shard) (pts : List Point) (hinv : Inv s pts) (h2 : Inv2 s) (hps : PagesSorted s)
    (q : Query) (F : AggType) (hc : AggComm F) {L : List AggType} (hL : L.Nodup) (hAL : F ∈ L) (sc : Scope)
    (hspf : 0 < q.spf) (fams group : List Nat) (hu : ∀ fam ∈ fams, SlotsUnsplit s fam q.field)
    (hsc : ScopeOK q sc group) (t : Nat) :
    arrGet (leafGroup s q sc L fams group) F t =
      fsum F group (fun ser => fsum F fams (fun fam =>
        fsum F (List.range q.spf) (fun slot =>
          if bucketOf q fam slot = some t then storeView s fam ser q.field slot else none))) := by
  rw [leafGroup_load_order s pts hinv h2 hps q F hL hAL sc hspf fams group hsc t]
  have h1 : fsum F fams (fun fam => fsum F (srcFns s fam q.field) (fun X => famBucket F q fam t group X)) =
      fsum F fams (fun fam => famBucket F q fam t group (fun ser slot => storeView s fam ser q.field slot)) := by
    apply fsum_congr
    intro fam hf
    exact family_fold_unsplit s q F hc fam t group (hu fam hf)
  rw [h1]
  unfold famBucket
  exact fsum_swap hc fams group _

/-! ### disjoint buckets: any aggregate (first / last) -/

/-- for the bucket `t` of the query and the group, at most one source of the family holds a value. -/
def BucketUnsplit (A : AggType) (s : Shard) (q : Query) (fam t : Nat) (group : List Nat) : Prop :=
  (srcFns s fam q.field).Pairwise (fun V W =>
    famBucket A q fam t group V = none ∨ famBucket A q fam t group W = none)

theorem famBucket_eq_none_iff (A : AggType) (q : Query) (fam t : Nat) (group : List Nat) (V : Nat → Nat → Option Int) :
    famBucket A q fam t group V = none ↔
      ∀ ser ∈ group, ∀ slot, slot < q.spf → bucketOf q fam slot = some t → V ser slot = none := by
  unfold famBucket
  rw [fsum_eq_none_iff]
  constructor
  · intro h ser hs slot hsl hb
    have := (fsum_eq_none_iff A _ _).mp (h ser hs) slot (List.mem_range.mpr hsl)
    simpa [hb] using this
  · intro h ser hs
    apply fsum_all_none
    intro slot hsl
    by_cases hb : bucketOf q fam slot = some t
    · simp [hb, h ser hs slot (List.mem_range.mp hsl) hb]
    · simp [hb]

theorem famBucket_congr_group (A : AggType) (q : Query) (fam t : Nat) (group : List Nat) (V W : Nat → Nat → Option Int)
    (h : ∀ ser ∈ group, ∀ slot, slot < q.spf → bucketOf q fam slot = some t → V ser slot = W ser slot) :
    famBucket A q fam t group V = famBucket A q fam t group W := by
  unfold famBucket
  apply fsum_congr
  intro ser hs
  apply fsum_congr
  intro slot hsl
  by_cases hb : bucketOf q fam slot = some t
  · simp [hb, h ser hs slot (List.mem_range.mp hsl) hb]
  · simp [hb]

/-- a pairwise-disjoint list: one position carries everything. -/
theorem exists_carrier {α : Type} (P : α → Prop) :
    ∀ (l : List α), l ≠ [] → l.Pairwise (fun a b => P a ∨ P b) →
      ∃ pre x post, l = pre ++ x :: post ∧ (∀ y ∈ pre, P y) ∧ (∀ y ∈ post, P y) := by
  intro l
  induction l with
  | nil => intro h; exact absurd rfl h
  | cons x rest ih =>
    intro _ hp
    rw [List.pairwise_cons] at hp
    by_cases hx : P x
    · by_cases hne : rest = []
      · subst hne
        exact ⟨[], x, [], rfl, by simp, by simp⟩
      · obtain ⟨pre, z, post, he, h1, h2⟩ := ih hne hp.2
        refine ⟨x :: pre, z, post, by rw [he]; rfl, ?_, h2⟩
        intro w hw
        rcases List.mem_cons.mp hw with e | e
        · rw [e]; exact hx
        · exact h1 w e
    · refine ⟨[], x, rest, rfl, by simp, ?_⟩
      intro y hy
      rcases hp.1 y hy with h | h
      · exact absurd h hx
      · exact h

theorem family_fold_bucket_unsplit (A : AggType) (s : Shard) (q : Query) (hfa : s.fieldAgg q.field = A) (fam t : Nat) (group : List Nat)
    (hu : BucketUnsplit A s q fam t group) :
    fsum A (srcFns s fam q.field) (fun X => famBucket A q fam t group X) =
      famBucket A q fam t group (fun ser slot => storeView s fam ser q.field slot) := by
  obtain ⟨pre, X0, post, he, hpre, hpost⟩ :=
    exists_carrier (fun V => famBucket A q fam t group V = none) (srcFns s fam q.field) (by simp [srcFns]) hu
  -- the fold over the sources is the carrier's bucket
  have hL : fsum A (srcFns s fam q.field) (fun X => famBucket A q fam t group X) = famBucket A q fam t group X0 := by
    rw [he, fsum_append, fsum_cons, fsum_all_none A pre _ hpre, fsum_all_none A post _ hpost]
    simp
  rw [hL]
  apply famBucket_congr_group
  intro ser hs slot hsl hb
  -- at this slot only the carrier may hold a value
  have hnone : ∀ Y, Y ∈ pre ∨ Y ∈ post → Y ser slot = none := by
    intro Y hY
    have : famBucket A q fam t group Y = none := by
      rcases hY with h | h
      · exact hpre Y h
      · exact hpost Y h
    exact (famBucket_eq_none_iff A q fam t group Y).mp this ser hs slot hsl hb
  have hdis : Disjoint (srcVals s fam q.field ser slot) := by
    unfold srcVals Disjoint
    rw [he, List.map_append, List.map_cons, List.pairwise_append, List.pairwise_cons]
    refine ⟨?_, ⟨?_, ?_⟩, ?_⟩
    · rw [List.pairwise_map]
      exact List.Pairwise.imp_of_mem (fun {a b} ha _ _ => Or.inl (hnone a (Or.inl ha))) (List.pairwise_of_forall (fun _ _ => trivial))
    · intro y hy
      rw [List.mem_map] at hy
      obtain ⟨Y, hY, rfl⟩ := hy
      exact Or.inr (hnone Y (Or.inr hY))
    · rw [List.pairwise_map]
      exact List.Pairwise.imp_of_mem (fun {a b} ha _ _ => Or.inl (hnone a (Or.inr ha))) (List.pairwise_of_forall (fun _ _ => trivial))
    · intro a ha b hb'
      rw [List.mem_map] at ha
      obtain ⟨Y, hY, rfl⟩ := ha
      exact Or.inl (hnone Y (Or.inl hY))
  rw [storeView_eq_osum A s fam ser q.field slot hdis]
  unfold srcVals
  rw [fsum_map, he, fsum_append, fsum_cons]
  simp only [id_eq]
  rw [fsum_all_none A pre _ (fun Y hY => hnone Y (Or.inl hY)),
    fsum_all_none A post _ (fun Y hY => hnone Y (Or.inr hY))]
  simp

theorem leafGroup_eq_fsum_bucket_unsplit (s : Shard) (pts : List Point) (hinv : Inv s pts) (h2 : Inv2 s) (hps : PagesSorted s)
    (q : Query) {L : List AggType} (hL : L.Nodup) (hAL : s.fieldAgg q.field ∈ L) (sc : Scope)
    (hspf : 0 < q.spf) (fams : List Nat) (ser : Nat) (t : Nat)
    (hu : ∀ fam ∈ fams, BucketUnsplit (s.fieldAgg q.field) s q fam t [ser])
    (hsc : ScopeOK q sc [ser]) :
    arrGet (leafGroup s q sc L fams [ser]) (s.fieldAgg q.field) t =
      fsum (s.fieldAgg q.field) fams (fun fam =>
        fsum (s.fieldAgg q.field) (List.range q.spf) (fun slot =>
          if bucketOf q fam slot = some t then storeView s fam ser q.field slot else none)) := by
  rw [leafGroup_load_order s pts hinv h2 hps q _ hL hAL sc hspf fams [ser] hsc t]
  apply fsum_congr
  intro fam hf
  rw [family_fold_bucket_unsplit _ s q rfl fam t [ser] (hu fam hf)]
  unfold famBucket
  rw [fsum_cons, fsum_nil, ocomb_none_right]

end LinVerif.Lemmas.C11
