/-
C05 helper lemmas, part 7: the page factory (Model/QueueFactory.lean) — its invariant, exact
membership after AcquirePage / TruncatePages, inertness when closed, reload — and the symbolic
page geometry (index slots for any items-per-page / item length; alloc for any page size).
-/
import LinVerif.Model.QueueFactory
import LinVerif.Lemmas.C05Mem

namespace LinVerif.Queue

/-! ### factory invariant -/

/-- no page id twice in the map (it is a map), and `size` counts the pages -/
def FInv (f : Fct) : Prop := f.pages.Nodup ∧ f.size = f.pageSize * f.pages.length

theorem acquire_pageSize (f : Fct) (i : Nat) : (f.acquire i).1.pageSize = f.pageSize := by
  unfold Fct.acquire; split
  · rfl
  · split <;> rfl

theorem acquire_closed (f : Fct) (i : Nat) : (f.acquire i).1.closed = f.closed := by
  unfold Fct.acquire; split
  · rfl
  · split <;> rfl

theorem acquire_inv {f : Fct} (h : FInv f) (i : Nat) : FInv (f.acquire i).1 := by
  unfold Fct.acquire; split
  · exact h
  · split
    · exact h
    · rename_i hn
      refine ⟨List.nodup_cons.mpr ⟨hn, h.1⟩, ?_⟩
      show f.size + f.pageSize = f.pageSize * (f.pages.length + 1)
      rw [h.2, Nat.mul_succ]

theorem acquire_mem {f : Fct} (hc : f.closed = false) (i j : Nat) :
    j ∈ (f.acquire i).1.pages ↔ (j = i ∨ j ∈ f.pages) := by
  unfold Fct.acquire
  rw [if_neg (by simp [hc])]
  split
  · rename_i hi
    constructor
    · intro h; exact Or.inr h
    · intro h; rcases h with h | h
      · subst h; exact hi
      · exact h
  · simp

theorem acquire_of_mem {f : Fct} {i : Nat} (hc : f.closed = false) (hi : i ∈ f.pages) :
    f.acquire i = (f, .loaded) := by
  unfold Fct.acquire
  rw [if_neg (by simp [hc]), if_pos hi]

theorem acquire_mono (f : Fct) (i j : Nat) (h : j ∈ f.pages) : j ∈ (f.acquire i).1.pages := by
  unfold Fct.acquire; split
  · exact h
  · split
    · exact h
    · exact List.mem_cons_of_mem _ h

/-- AcquirePage answers exactly: error iff closed; the loaded page iff it was in the map -/
theorem acquire_res (f : Fct) (i : Nat) :
    ((f.acquire i).2 = .closedErr ↔ f.closed = true) ∧
    ((f.acquire i).2 = .loaded ↔ f.closed = false ∧ i ∈ f.pages) ∧
    ((f.acquire i).2 = .created ↔ f.closed = false ∧ i ∉ f.pages) := by
  unfold Fct.acquire
  by_cases hc : f.closed = true
  · simp [hc]
  · have hc' : f.closed = false := by simpa using hc
    by_cases hi : i ∈ f.pages <;> simp [hc', hi]

theorem truncOne_pageSize (b : Nat) (f : Fct) (k : Nat) : (Fct.truncOne b f k).pageSize = f.pageSize := by
  unfold Fct.truncOne; split
  · split <;> rfl
  · rfl

theorem truncOne_closed (b : Nat) (f : Fct) (k : Nat) : (Fct.truncOne b f k).closed = f.closed := by
  unfold Fct.truncOne; split
  · split <;> rfl
  · rfl

theorem truncOne_inv {f : Fct} (h : FInv f) (b k : Nat) : FInv (Fct.truncOne b f k) := by
  unfold Fct.truncOne; split
  · split
    · rename_i hk
      refine ⟨h.1.erase k, ?_⟩
      show f.size - f.pageSize = f.pageSize * (f.pages.erase k).length
      rw [List.length_erase_of_mem hk, h.2, Nat.mul_sub_one]
    · exact h
  · exact h

theorem truncOne_mem {f : Fct} (h : FInv f) (b k j : Nat) :
    j ∈ (Fct.truncOne b f k).pages ↔ (j ∈ f.pages ∧ ¬ (j = k ∧ k < b)) := by
  unfold Fct.truncOne; split
  · rename_i hkb
    split
    · show j ∈ f.pages.erase k ↔ _
      rw [h.1.mem_erase_iff]
      constructor
      · intro ⟨h1, h2⟩; exact ⟨h2, fun ⟨h3, _⟩ => h1 h3⟩
      · intro ⟨h1, h2⟩; exact ⟨fun h3 => h2 ⟨h3, hkb⟩, h1⟩
    · rename_i hk
      constructor
      · intro h1; exact ⟨h1, fun ⟨h2, _⟩ => hk (h2 ▸ h1)⟩
      · intro h1; exact h1.1
  · rename_i hkb
    constructor
    · intro h1; exact ⟨h1, fun ⟨_, h2⟩ => hkb h2⟩
    · intro h1; exact h1.1

theorem truncLoop {b : Nat} (ks : List Nat) : ∀ {f : Fct}, FInv f →
    FInv (ks.foldl (Fct.truncOne b) f) ∧
    (ks.foldl (Fct.truncOne b) f).pageSize = f.pageSize ∧
    (ks.foldl (Fct.truncOne b) f).closed = f.closed ∧
    ∀ j, j ∈ (ks.foldl (Fct.truncOne b) f).pages ↔ (j ∈ f.pages ∧ ¬ (j ∈ ks ∧ j < b)) := by
  induction ks with
  | nil => intro f h; exact ⟨h, rfl, rfl, fun j => by simp⟩
  | cons k ks ih =>
    intro f h
    obtain ⟨i1, i2, i3, i4⟩ := ih (truncOne_inv h b k)
    refine ⟨i1, by rw [List.foldl_cons, i2, truncOne_pageSize], by rw [List.foldl_cons, i3, truncOne_closed], ?_⟩
    intro j
    rw [List.foldl_cons, i4 j, truncOne_mem h]
    constructor
    · intro ⟨⟨h1, h2⟩, h3⟩
      refine ⟨h1, ?_⟩
      intro ⟨h4, h5⟩
      rcases List.mem_cons.mp h4 with h6 | h6
      · exact h2 ⟨h6, h6 ▸ h5⟩
      · exact h3 ⟨h6, h5⟩
    · intro ⟨h1, h2⟩
      refine ⟨⟨h1, ?_⟩, ?_⟩
      · intro ⟨h3, h4⟩; exact h2 ⟨by rw [h3]; exact List.mem_cons_self, h3 ▸ h4⟩
      · intro ⟨h3, h4⟩; exact h2 ⟨List.mem_cons_of_mem _ h3, h4⟩

theorem truncate_inv {f : Fct} (h : FInv f) (b : Nat) : FInv (f.truncate b) := by
  unfold Fct.truncate; split
  · exact h
  · exact (truncLoop f.pages h).1

/-- TruncatePages on an open factory removes a page iff its ID is below the bound -/
theorem truncate_mem {f : Fct} (h : FInv f) (hc : f.closed = false) (b j : Nat) :
    j ∈ (f.truncate b).pages ↔ (j ∈ f.pages ∧ b ≤ j) := by
  unfold Fct.truncate
  rw [if_neg (by simp [hc])]
  rw [(truncLoop f.pages h).2.2.2 j]
  constructor
  · intro ⟨h1, h2⟩; exact ⟨h1, by have : ¬ j < b := fun h3 => h2 ⟨h1, h3⟩; omega⟩
  · intro ⟨h1, h2⟩; exact ⟨h1, fun ⟨_, h3⟩ => by omega⟩

theorem truncate_closed (f : Fct) (b : Nat) : (f.truncate b).closed = f.closed := by
  unfold Fct.truncate; split
  · rfl
  · -- closed is not touched by the loop
    have : ∀ (ks : List Nat) (g : Fct), (ks.foldl (Fct.truncOne b) g).closed = g.closed := by
      intro ks; induction ks with
      | nil => intro g; rfl
      | cons k ks ih => intro g; rw [List.foldl_cons, ih, truncOne_closed]
    exact this _ _

theorem truncate_pageSize (f : Fct) (b : Nat) : (f.truncate b).pageSize = f.pageSize := by
  unfold Fct.truncate; split
  · rfl
  · have : ∀ (ks : List Nat) (g : Fct), (ks.foldl (Fct.truncOne b) g).pageSize = g.pageSize := by
      intro ks; induction ks with
      | nil => intro g; rfl
      | cons k ks ih => intro g; rw [List.foldl_cons, ih, truncOne_pageSize]
    exact this _ _

theorem close_inv {f : Fct} (h : FInv f) : FInv f.close := by
  unfold Fct.close; split
  · exact h
  · exact h

theorem close_pages (f : Fct) : f.close.pages = f.pages := by
  unfold Fct.close; split <;> rfl

/-! ### NewFactory / loadPages -/

theorem newLoop (files : List Nat) : ∀ {f : Fct}, FInv f → f.closed = false →
    FInv (files.foldl (fun f i => (f.acquire i).1) f) ∧
    (files.foldl (fun f i => (f.acquire i).1) f).closed = false ∧
    (files.foldl (fun f i => (f.acquire i).1) f).pageSize = f.pageSize ∧
    ∀ j, j ∈ (files.foldl (fun f i => (f.acquire i).1) f).pages ↔ (j ∈ files ∨ j ∈ f.pages) := by
  induction files with
  | nil => intro f h hc; exact ⟨h, hc, rfl, fun j => by simp⟩
  | cons i is ih =>
    intro f h hc
    have hc' : (f.acquire i).1.closed = false := by rw [acquire_closed]; exact hc
    obtain ⟨i1, i2, i3, i4⟩ := ih (acquire_inv h i) hc'
    refine ⟨i1, i2, by rw [List.foldl_cons, i3, acquire_pageSize], ?_⟩
    intro j
    rw [List.foldl_cons, i4 j, acquire_mem hc, List.mem_cons]
    constructor
    · intro h1; rcases h1 with h1 | h1 | h1
      · exact Or.inl (Or.inr h1)
      · exact Or.inl (Or.inl h1)
      · exact Or.inr h1
    · intro h1; rcases h1 with (h1 | h1) | h1
      · exact Or.inr (Or.inl h1)
      · exact Or.inl h1
      · exact Or.inr (Or.inr h1)

theorem empty_inv (ps : Nat) : FInv { pages := [], closed := false, size := 0, pageSize := ps } :=
  ⟨List.nodup_nil, by simp⟩

theorem new_spec (files : List Nat) (ps : Nat) :
    FInv (Fct.new files ps) ∧ (Fct.new files ps).closed = false ∧ (Fct.new files ps).pageSize = ps ∧
    ∀ j, j ∈ (Fct.new files ps).pages ↔ j ∈ files := by
  obtain ⟨h1, h2, h3, h4⟩ := newLoop files (empty_inv ps) rfl
  exact ⟨h1, h2, h3, fun j => by rw [Fct.new, h4 j]; simp⟩

theorem step_inv_fct {f : Fct} (h : FInv f) (op : FOp) : FInv (f.step op) := by
  cases op with
  | acquire i => exact acquire_inv h i
  | truncate b => exact truncate_inv h b
  | close => exact close_inv h
  | reopen => exact (new_spec _ _).1

theorem run_inv_fct (ops : List FOp) : ∀ {f : Fct}, FInv f → FInv (f.run ops) := by
  induction ops with
  | nil => intro f h; exact h
  | cons op ops ih => intro f h; exact ih (step_inv_fct h op)

/-- a page stays in the map (its file stays on disk) across any factory operations whose
truncation bounds are at or below its id -/
def FOp.keeps (i : Nat) : FOp → Prop
  | .truncate b => b ≤ i
  | _ => True

theorem step_keeps {f : Fct} (h : FInv f) (i : Nat) (hi : i ∈ f.pages) (op : FOp) (hk : op.keeps i) :
    i ∈ (f.step op).pages := by
  cases op with
  | acquire j => exact acquire_mono f j i hi
  | truncate b =>
    show i ∈ (f.truncate b).pages
    by_cases hc : f.closed = true
    · unfold Fct.truncate; rw [if_pos hc]; exact hi
    · exact (truncate_mem h (by simpa using hc) b i).mpr ⟨hi, hk⟩
  | close => show i ∈ f.close.pages; rw [close_pages]; exact hi
  | reopen => exact ((new_spec f.pages f.pageSize).2.2.2 i).mpr hi

theorem run_keeps (ops : List FOp) : ∀ {f : Fct}, FInv f → ∀ i, i ∈ f.pages → (∀ op ∈ ops, op.keeps i) →
    i ∈ (f.run ops).pages := by
  induction ops with
  | nil => intro f _ i hi _; exact hi
  | cons op ops ih =>
    intro f h i hi hk
    exact ih (step_inv_fct h op) i (step_keeps h i hi op (hk op List.mem_cons_self))
      (fun o ho => hk o (List.mem_cons_of_mem _ ho))

/-! ### the queue model's abstraction of a factory is faithful -/

/-- the open factory holding exactly the live pages -/
def Fct.ofLive (live : List Nat) (ps : Nat) : Fct :=
  { pages := live, closed := false, size := ps * live.length, pageSize := ps }

theorem ofLive_inv {live : List Nat} (h : live.Nodup) (ps : Nat) : FInv (Fct.ofLive live ps) := ⟨h, rfl⟩

theorem acquireData_refines (mem : Mem) (pg ps : Nat) :
    (acquireData mem pg).dataLive = ((Fct.ofLive mem.dataLive ps).acquire pg).1.pages := by
  unfold acquireData Fct.acquire Fct.ofLive
  simp only [Bool.false_eq_true, if_false]
  split <;> rfl

theorem acquireIndex_refines (mem : Mem) (pg ps : Nat) :
    (acquireIndex mem pg).indexLive = ((Fct.ofLive mem.indexLive ps).acquire pg).1.pages := by
  unfold acquireIndex Fct.acquire Fct.ofLive
  simp only [Bool.false_eq_true, if_false]
  split <;> rfl

theorem truncateData_refines (mem : Mem) (h : mem.dataLive.Nodup) (b ps j : Nat) :
    j ∈ (truncateData mem b).dataLive ↔ j ∈ ((Fct.ofLive mem.dataLive ps).truncate b).pages := by
  rw [truncate_mem (ofLive_inv h ps) rfl]
  simp [truncateData, Fct.ofLive]

theorem truncateIndex_refines (mem : Mem) (h : mem.indexLive.Nodup) (b ps j : Nat) :
    j ∈ (truncateIndex mem b).indexLive ↔ j ∈ ((Fct.ofLive mem.indexLive ps).truncate b).pages := by
  rw [truncate_mem (ofLive_inv h ps) rfl]
  simp [truncateIndex, Fct.ofLive]

/-! ### symbolic index-slot arithmetic -/

/-- two different sequences never share a byte of an index page, for ANY number `P` of items
per page and any item length `L` (bytes `a`, `b` inside the items) -/
theorem slot_inj (P L : Nat) {n n' : Nat} (h : n ≠ n') (a b : Nat) (ha : a < L) (hb : b < L) :
    ¬ (slotPage P n = slotPage P n' ∧ slotOff P L n + a = slotOff P L n' + b) := by
  unfold slotPage slotOff
  intro ⟨h1, h2⟩
  have hL : 0 < L := by omega
  have e1 : ((n % P) * L + a) / L = n % P := by
    rw [Nat.mul_comm, Nat.mul_add_div hL, Nat.div_eq_of_lt ha]; rfl
  have e2 : ((n' % P) * L + b) / L = n' % P := by
    rw [Nat.mul_comm, Nat.mul_add_div hL, Nat.div_eq_of_lt hb]; rfl
  have hm : n % P = n' % P := by rw [← e1, ← e2, h2]
  have d1 := Nat.div_add_mod n P
  have d2 := Nat.div_add_mod n' P
  rw [h1, hm] at d1
  exact h (by omega)

/-- the item of every sequence lies inside its index page of `P * L` bytes -/
theorem slot_fits (P L : Nat) (hP : 0 < P) (n : Nat) : slotOff P L n + L ≤ P * L := by
  unfold slotOff
  have h : n % P + 1 ≤ P := Nat.mod_lt n hP
  calc (n % P) * L + L = (n % P + 1) * L := by rw [Nat.succ_mul]
    _ ≤ P * L := Nat.mul_le_mul_right L h

/-- the first sequence of index page `k` sits at offset 0 of page `k` -/
theorem slot_first (P L : Nat) (hP : 0 < P) (k : Nat) : slotPage P (k * P) = k ∧ slotOff P L (k * P) = 0 := by
  unfold slotPage slotOff
  rw [Nat.mul_div_cancel k hP, Nat.mul_mod_left]
  exact ⟨rfl, Nat.zero_mul L⟩

/-- the last sequence before that boundary sits in the last slot of page `k` -/
theorem slot_last (P L : Nat) (hP : 0 < P) (k : Nat) :
    slotPage P (k * P + (P - 1)) = k ∧ slotOff P L (k * P + (P - 1)) = (P - 1) * L := by
  unfold slotPage slotOff
  have hlt : P - 1 < P := by omega
  rw [Nat.add_comm, Nat.add_mul_div_right _ _ hP, Nat.div_eq_of_lt hlt, Nat.add_mul_mod_self_right,
    Nat.mod_eq_of_lt hlt]
  exact ⟨Nat.zero_add k, rfl⟩

/-- consecutive sequences: same page and the next slot, or the next page at offset 0 -/
theorem slot_succ (P L : Nat) (hP : 0 < P) (n : Nat) :
    (slotPage P (n + 1) = slotPage P n ∧ slotOff P L (n + 1) = slotOff P L n + L ∧ n % P + 1 < P) ∨
    (slotPage P (n + 1) = slotPage P n + 1 ∧ slotOff P L (n + 1) = 0 ∧ n % P + 1 = P) := by
  unfold slotPage slotOff
  have d := Nat.div_add_mod n P
  have hm := Nat.mod_lt n hP
  by_cases hc : n % P + 1 < P
  · left
    have e : n + 1 = (n % P + 1) + (n / P) * P := by rw [Nat.mul_comm]; omega
    refine ⟨?_, ?_, hc⟩
    · rw [e, Nat.add_mul_div_right _ _ hP, Nat.div_eq_of_lt hc]; omega
    · rw [e, Nat.add_mul_mod_self_right, Nat.mod_eq_of_lt hc, Nat.succ_mul]
  · right
    have hc' : n % P + 1 = P := by omega
    have e : n + 1 = 0 + (n / P + 1) * P := by rw [Nat.succ_mul, Nat.mul_comm]; omega
    refine ⟨?_, ?_, hc'⟩
    · rw [e, Nat.add_mul_div_right _ _ hP]; simp
    · rw [e, Nat.add_mul_mod_self_right, Nat.zero_mod, Nat.zero_mul]

/-- the model's `entry` reads the slot given by this arithmetic at the package constants -/
theorem entry_slot (mem : Mem) (n : Nat) :
    entry mem n =
      { pg := mem.index (slotPage indexItemsPerPage n) (slotOff indexItemsPerPage indexItemLength n + queueDataPageIndexOffset),
        off := mem.index (slotPage indexItemsPerPage n) (slotOff indexItemsPerPage indexItemLength n + messageOffsetOffset),
        len := mem.index (slotPage indexItemsPerPage n) (slotOff indexItemsPerPage indexItemLength n + messageLengthOffset) } := rfl

/-! ### symbolic data page roll-over -/

theorem alloc_eq_allocS : alloc = allocS dataPageSize := rfl

/-- `alloc` for any page size `S`: the region handed out lies inside ONE page (a message is
never split), starts at the old cursor or at offset 0 of the next page — the latter exactly
when it does not fit —, and the cursor ends right behind it, still inside the page. -/
theorem allocS_spec (S : Nat) (mem : Mem) (q : Q) (len : Nat) (hl : len ≤ S) :
    (allocS S mem q len).off + len ≤ S ∧
    (allocS S mem q len).q.messageOffset = (allocS S mem q len).off + len ∧
    (allocS S mem q len).q.dataPageIndex = (allocS S mem q len).pg ∧
    (allocS S mem q len).q.appended = q.appended ∧ (allocS S mem q len).q.acked = q.acked ∧
    (allocS S mem q len).q.indexPageIndex = q.indexPageIndex ∧
    ((q.messageOffset + len ≤ S ∧ (allocS S mem q len).pg = q.dataPageIndex ∧
        (allocS S mem q len).off = q.messageOffset ∧ (allocS S mem q len).mem = mem) ∨
     (q.messageOffset + len > S ∧ (allocS S mem q len).pg = q.dataPageIndex + 1 ∧
        (allocS S mem q len).off = 0 ∧ (allocS S mem q len).mem = acquireData mem (q.dataPageIndex + 1))) := by
  unfold allocS
  by_cases h : q.messageOffset + len > S
  · rw [if_pos h]
    refine ⟨by simpa using hl, by simp, rfl, rfl, rfl, rfl, Or.inr ⟨h, rfl, rfl, rfl⟩⟩
  · rw [if_neg h]
    refine ⟨by simp; omega, rfl, rfl, rfl, rfl, rfl, Or.inl ⟨by omega, rfl, rfl, rfl⟩⟩

/-- exact fit: a message ending exactly at the page end stays in the page; after it only an
empty message still fits, anything longer rolls over -/
theorem allocS_exact_fit (S : Nat) (mem : Mem) (q : Q) (len : Nat) (h : q.messageOffset + len = S) :
    (allocS S mem q len).pg = q.dataPageIndex ∧ (allocS S mem q len).q.messageOffset = S ∧
    (∀ mem' len', 0 < len' →
      (allocS S mem' (allocS S mem q len).q len').pg = q.dataPageIndex + 1 ∧
      (allocS S mem' (allocS S mem q len).q len').off = 0) ∧
    (∀ mem', (allocS S mem' (allocS S mem q len).q 0).pg = q.dataPageIndex ∧
      (allocS S mem' (allocS S mem q len).q 0).off = S) := by
  have e : allocS S mem q len =
      { mem := mem, q := { q with messageOffset := q.messageOffset + len }, pg := q.dataPageIndex, off := q.messageOffset } := by
    unfold allocS; rw [if_neg (by omega)]
  rw [e]
  refine ⟨rfl, h, ?_, ?_⟩
  · intro mem' len' hpos
    unfold allocS
    rw [if_pos (by show q.messageOffset + len + len' > S; omega)]
    exact ⟨rfl, rfl⟩
  · intro mem'
    unfold allocS
    rw [if_neg (by show ¬ q.messageOffset + len + 0 > S; omega)]
    exact ⟨rfl, h⟩

end LinVerif.Queue
