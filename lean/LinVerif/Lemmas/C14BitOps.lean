/-
Operation-list vocabulary for the bit-stream refinement theorems of Props/C14:
a list of writer calls, the matching reader calls, what they denote.
-/
import LinVerif.Lemmas.C14BitsW
import LinVerif.Lemmas.C14BitsR

namespace LinVerif.Bits

/-- one call on the bit writer / the matching call on the bit reader -/
inductive BitOp
  | bit (b : Bool)
  | bits (u n : Nat)
  | byte (b : Nat)

/-- the call is within the domain lindb uses: at most 64 bits, a byte below 256 -/
def BitOp.Valid : BitOp → Prop
  | .bit _ => True
  | .bits _ n => n ≤ 64
  | .byte b => b < 256

/-- the bits the call contributes to the abstract stream -/
def BitOp.abs : BitOp → List Bool
  | .bit b => [b]
  | .bits u n => natBits n u
  | .byte b => natBits 8 b

/-- the value the matching read returns -/
def BitOp.value : BitOp → Nat
  | .bit b => b.toNat
  | .bits u n => u % 2 ^ n
  | .byte b => b

def runWriter (w : Writer) : List BitOp → Writer
  | [] => w
  | .bit b :: ops => runWriter (w.writeBit b) ops
  | .bits u n :: ops => runWriter (w.writeBits u n) ops
  | .byte b :: ops => runWriter (w.writeByte b) ops

/-- read with the same shapes; `none` as soon as a read reports an error -/
def runReader (r : Reader) : List BitOp → Option (List Nat)
  | [] => some []
  | .bit _ :: ops =>
    let (b, e, r1) := r.readBit
    if e then none else (runReader r1 ops).map (b.toNat :: ·)
  | .bits _ n :: ops =>
    match r.readBits n with
    | (none, _) => none
    | (some v, r1) => (runReader r1 ops).map (v :: ·)
  | .byte _ :: ops =>
    let (b, e, r1) := r.readByte
    if e then none else (runReader r1 ops).map (b :: ·)

theorem runWriter_spec : ∀ (ops : List BitOp) (w : Writer), w.Ok → (∀ o ∈ ops, o.Valid) →
    (runWriter w ops).Ok ∧ (runWriter w ops).bits = w.bits ++ ops.flatMap BitOp.abs := by
  intro ops
  induction ops with
  | nil => intro w h _; simp [runWriter, h]
  | cons o ops ih =>
    intro w h hv
    have hrest : ∀ o ∈ ops, o.Valid := fun o ho => hv o (by simp [ho])
    have ho := hv o (by simp)
    cases o with
    | bit b =>
      have h1 := w.writeBit_spec h b
      obtain ⟨i1, i2⟩ := ih _ h1.1 hrest
      exact ⟨i1, by rw [runWriter, i2, h1.2]; simp [BitOp.abs]⟩
    | bits u n =>
      have h1 := w.writeBits_spec h u n ho
      obtain ⟨i1, i2⟩ := ih _ h1.1 hrest
      exact ⟨i1, by rw [runWriter, i2, h1.2]; simp [BitOp.abs]⟩
    | byte b =>
      have h1 := w.writeByte_spec h b ho
      obtain ⟨i1, i2⟩ := ih _ h1.1 hrest
      exact ⟨i1, by rw [runWriter, i2, h1.2]; simp [BitOp.abs]⟩

theorem runReader_spec : ∀ (ops : List BitOp) (r : Reader) (t : List Bool), r.Ok → (∀ o ∈ ops, o.Valid) →
    r.rest = ops.flatMap BitOp.abs ++ t → runReader r ops = some (ops.map BitOp.value) := by
  intro ops
  induction ops with
  | nil => intros; rfl
  | cons o ops ih =>
    intro r t h hv hr
    have hrest : ∀ o ∈ ops, o.Valid := fun o ho => hv o (by simp [ho])
    have ho := hv o (by simp)
    cases o with
    | bit b =>
      have hr' : r.rest = b :: (ops.flatMap BitOp.abs ++ t) := by simpa [BitOp.abs] using hr
      obtain ⟨r1, hrd, ok1, hrest1, _⟩ := r.readBit_spec h b _ hr'
      simp [runReader, hrd, ih r1 t ok1 hrest hrest1, BitOp.value]
    | bits u n =>
      have hr' : r.rest = natBits n u ++ (ops.flatMap BitOp.abs ++ t) := by simpa [BitOp.abs] using hr
      obtain ⟨r1, hrd, ok1, hrest1, _⟩ := r.readBits_spec h n _ _ ho (by simp) hr'
      simp [runReader, hrd, ih r1 t ok1 hrest hrest1, BitOp.value, bitsVal_natBits]
    | byte b =>
      have hr' : r.rest = natBits 8 b ++ (ops.flatMap BitOp.abs ++ t) := by simpa [BitOp.abs] using hr
      obtain ⟨r1, hrd, ok1, hrest1, _⟩ := r.readByte_spec h _ _ (by simp) hr'
      have hb : b % 2 ^ 8 = b := Nat.mod_eq_of_lt (by simpa [BitOp.Valid] using ho)
      simp [runReader, hrd, ih r1 t ok1 hrest hrest1, BitOp.value, bitsVal_natBits, hb]

end LinVerif.Bits
