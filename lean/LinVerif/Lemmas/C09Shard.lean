/-
C09, one shard's metricIndexDatabase in sequential histories: the series dictionary
(tags hash → series id, bucket = metric id) together with the per-metric sequence cache and the
metric → series postings that seed new series ids.
-/
import LinVerif.Lemmas.C09KvSeq

namespace LinVerif.IdAssign

theorem le_maxList {l : List Nat} {i : Nat} (h : i ∈ l) : i ≤ maxList l := by
  induction l with
  | nil => cases h
  | cons a r ih =>
    simp only [maxList]
    rcases List.mem_cons.1 h with rfl | h
    · exact Nat.le_max_left _ _
    · exact Nat.le_trans (ih h) (Nat.le_max_right _ _)

/-- the frozen postings (empty when there is no immutable map) -/
def Layers.frzList {α : Type} (l : Layers α) : List α := l.frz.getD []

theorem Layers.mem_all {α : Type} (l : Layers α) (a : α) : a ∈ l.all ↔ a ∈ l.cur ∨ a ∈ l.frzList ∨ a ∈ l.disk := by
  simp [Layers.all, Layers.frzList, or_assoc]

theorem Shard.mem_metricSeries (sh : Shard) (m i : Nat) : i ∈ sh.metricSeries m ↔ (m, i) ∈ sh.minv.all := by
  unfold Shard.metricSeries
  constructor
  · intro h
    obtain ⟨p, hp, rfl⟩ := List.mem_map.1 h
    obtain ⟨hp1, hp2⟩ := List.mem_filter.1 hp
    have : p.1 = m := by simpa using hp2
    obtain ⟨a, b⟩ := p
    simp at this; subst this; exact hp1
  · intro h
    exact List.mem_map.2 ⟨(m, i), List.mem_filter.2 ⟨h, by simp⟩, rfl⟩

/-- the series dictionary of a shard (while no series was refused by the series limit) -/
structure ShardInv (sh : Shard) : Prop where
  snapDisk : sh.series.snap = sh.series.disk
  immSub : ∀ m ts i, sh.series.immDict m ts = some i → sh.series.lookup m ts = some i
  diskSub : ∀ m ts i, sh.series.disk m ts = some i → sh.series.lookup m ts = some i
  post : ∀ m ts i, sh.series.lookup m ts = some i → (m, i) ∈ sh.minv.all
  cache : ∀ m c, sh.seqCache m = some c → ∀ i, (m, i) ∈ sh.minv.all → i ≤ c
  inj : ∀ m ts ts' i, sh.series.lookup m ts = some i → sh.series.lookup m ts' = some i → ts = ts'
  diskCover : ∀ m ts i, sh.series.disk m ts = some i → (m, i) ∈ sh.minv.disk
  immCover : ∀ m ts i, sh.series.immDict m ts = some i → (m, i) ∈ sh.minv.frzList ∨ (m, i) ∈ sh.minv.disk
  syncNone : sh.series.immutable = none ↔ sh.minv.frz = none
  syncCur : sh.series.mutEmpty = true ↔ sh.minv.cur = []
  syncFrz : ∀ d e l, sh.series.immutable = some (d, e) → sh.minv.frz = some l → (e = true ↔ l = [])
  /-- the IsEmpty() flags of the series dictionary are accurate -/
  mutE : sh.series.mutEmpty = true → ∀ b n, sh.series.mutable b n = none
  immE : ∀ d, sh.series.immutable = some (d, true) → ∀ b n, d b n = none

theorem shardInv_init : ShardInv {} := by
  refine ⟨rfl, ?_, ?_, ?_, ?_, ?_, ?_, ?_, ?_, ?_, ?_, ?_, ?_⟩ <;> intros <;> simp_all [lookup_eq, KvStore.immDict, Dict.empty]

/-- every id of the bucket lies below the id `createSeriesID` hands out next -/
theorem createSeriesID_fresh {sh : Shard} (inv : ShardInv sh) {m i : Nat} (h : (m, i) ∈ sh.minv.all) :
    i < sh.createSeriesID m := by
  unfold Shard.createSeriesID
  cases hc : sh.seqCache m with
  | some c => exact Nat.lt_succ_of_le (inv.cache m c hc i h)
  | none =>
    have hm := (sh.mem_metricSeries m i).2 h
    cases hl : sh.metricSeries m with
    | nil => rw [hl] at hm; cases hm
    | cons a r => rw [hl] at hm; exact Nat.lt_succ_of_le (le_maxList hm)

/-- the state of the shard after a new series was created (before `buildInvertIndex`) -/
def Shard.created (sh : Shard) (m ts sid : Nat) : Shard :=
  { sh with series := sh.series.insert m ts sid,
            seqCache := fun j => if j = m then some sid else sh.seqCache j,
            minv := sh.minv.put (m, sid) }

theorem put_all {α : Type} (l : Layers α) (a b : α) : b ∈ (l.put a).all ↔ b = a ∨ b ∈ l.all := by
  simp [Layers.put, Layers.all]

theorem shardInv_created {sh : Shard} (inv : ShardInv sh) {m ts : Nat} (hm : sh.series.lookup m ts = none) :
    ShardInv (sh.created m ts (sh.createSeriesID m)) := by
  have keep : ∀ m' ts' i, sh.series.lookup m' ts' = some i →
      (sh.series.insert m ts (sh.createSeriesID m)).lookup m' ts' = some i := by
    intro m' ts' i h
    rw [lookup_insert]
    by_cases hk : m' = m ∧ ts' = ts
    · obtain ⟨rfl, rfl⟩ := hk; rw [hm] at h; cases h
    · simp [hk, h]
  refine ⟨inv.snapDisk, ?_, ?_, ?_, ?_, ?_, inv.diskCover, inv.immCover, inv.syncNone, ?_, inv.syncFrz,
    fun hh => absurd hh (by simp [Shard.created, KvStore.insert]), inv.immE⟩
  · intro m' ts' i h; exact keep _ _ _ (inv.immSub _ _ _ h)
  · intro m' ts' i h; exact keep _ _ _ (inv.diskSub _ _ _ h)
  · intro m' ts' i h
    show (m', i) ∈ (sh.minv.put (m, sh.createSeriesID m)).all
    rw [put_all]
    have h' : (sh.series.insert m ts (sh.createSeriesID m)).lookup m' ts' = some i := h
    rw [lookup_insert] at h'
    by_cases hk : m' = m ∧ ts' = ts
    · simp [hk] at h'; left; rw [hk.1, h']
    · simp [hk] at h'; right; exact inv.post _ _ _ h'
  · intro m' c hc i hi
    have hi' : (m', i) ∈ (sh.minv.put (m, sh.createSeriesID m)).all := hi
    rw [put_all] at hi'
    have hc' : (if m' = m then some (sh.createSeriesID m) else sh.seqCache m') = some c := hc
    by_cases hmm : m' = m
    · subst hmm
      simp at hc'; subst hc'
      rcases hi' with h | h
      · simp at h; omega
      · exact Nat.le_of_lt (createSeriesID_fresh inv h)
    · simp [hmm] at hc'
      rcases hi' with h | h
      · simp at h; exact absurd h.1 hmm
      · exact inv.cache _ _ hc' _ h
  · intro m' t1 t2 i h1 h2
    have h1' : (sh.series.insert m ts (sh.createSeriesID m)).lookup m' t1 = some i := h1
    have h2' : (sh.series.insert m ts (sh.createSeriesID m)).lookup m' t2 = some i := h2
    rw [lookup_insert] at h1' h2'
    by_cases hk1 : m' = m ∧ t1 = ts <;> by_cases hk2 : m' = m ∧ t2 = ts
    · rw [hk1.2, hk2.2]
    · simp [hk1] at h1'; simp [hk2] at h2'
      obtain ⟨rfl, _⟩ := hk1
      have := createSeriesID_fresh inv (inv.post _ _ _ h2'); omega
    · simp [hk1] at h1'; simp [hk2] at h2'
      obtain ⟨rfl, _⟩ := hk2
      have := createSeriesID_fresh inv (inv.post _ _ _ h1'); omega
    · simp [hk1] at h1'; simp [hk2] at h2'; exact inv.inj _ _ _ _ h1' h2'
  · show (sh.series.insert m ts (sh.createSeriesID m)).mutEmpty = true ↔ (sh.minv.put (m, sh.createSeriesID m)).cur = []
    simp [KvStore.insert, Layers.put]

/-! ### PrepareFlush / Flush / reopen of the index database -/

theorem layers_prepare_all {α : Type} (l : Layers α) (a : α) : a ∈ l.prepareFlush.all ↔ a ∈ l.all := by
  unfold Layers.prepareFlush
  cases h : l.frz with
  | some x => simp
  | none => simp [Layers.all, h]

theorem layers_flush_all {α : Type} (l : Layers α) (a : α) : a ∈ l.flush.all ↔ a ∈ l.all := by
  unfold Layers.flush
  cases h : l.frz with
  | none => simp
  | some x =>
    cases x with
    | nil => simp
    | cons b r => simp [Layers.all, h, or_assoc]

/-- after the postings flush everything that was frozen or persisted is persisted -/
theorem layers_flush_disk {α : Type} (l : Layers α) (a : α) (h : a ∈ l.frzList ∨ a ∈ l.disk) : a ∈ l.flush.disk := by
  unfold Layers.flush
  unfold Layers.frzList at h
  cases hf : l.frz with
  | none => rw [hf] at h; simpa using h
  | some x =>
    cases x with
    | nil => rw [hf] at h; simpa using h
    | cons b r => rw [hf] at h; simpa [or_assoc] using h

theorem flush_immutable (s : KvStore) :
    s.flush.immutable = match s.immutable with
      | some (_, false) => none
      | x => x := by
  cases h : s.immutable with
  | none => simp [KvStore.flush, KvStore.commit, KvStore.finish, h]
  | some p => obtain ⟨d, e⟩ := p; cases e <;> simp [KvStore.flush, KvStore.commit, KvStore.finish, h]

theorem flush_mutEmpty (s : KvStore) : s.flush.mutEmpty = s.mutEmpty := by
  cases h : s.immutable with
  | none => simp [KvStore.flush, KvStore.commit, KvStore.finish, h]
  | some p => obtain ⟨d, e⟩ := p; cases e <;> simp [KvStore.flush, KvStore.commit, KvStore.finish, h]

theorem layers_flush_frz {α : Type} (l : Layers α) :
    l.flush.frz = match l.frz with
      | some (_ :: _) => none
      | x => x := by
  cases h : l.frz with
  | none => simp [Layers.flush, h]
  | some x => cases x <;> simp [Layers.flush, h]

theorem layers_flush_cur {α : Type} (l : Layers α) : l.flush.cur = l.cur := by
  cases h : l.frz with
  | none => simp [Layers.flush, h]
  | some x => cases x <;> simp [Layers.flush, h]

theorem shardInv_prepare {sh : Shard} (inv : ShardInv sh) : ShardInv sh.prepareFlush := by
  have hall : ∀ p, p ∈ sh.minv.prepareFlush.all ↔ p ∈ sh.minv.all := layers_prepare_all sh.minv
  have hd : sh.series.prepareFlush.disk = sh.series.disk := by
    cases hi : sh.series.immutable <;> simp [KvStore.prepareFlush, hi]
  have hsn : sh.series.prepareFlush.snap = sh.series.snap := by
    cases hi : sh.series.immutable <;> simp [KvStore.prepareFlush, hi]
  cases him : sh.series.immutable with
  | some p =>
    -- both maps are already frozen: nothing changes
    have hs : sh.series.prepareFlush = sh.series := by simp [KvStore.prepareFlush, him]
    obtain ⟨l, hl⟩ : ∃ l, sh.minv.frz = some l := by
      cases hf : sh.minv.frz with
      | none => have := inv.syncNone.2 hf; rw [him] at this; cases this
      | some l => exact ⟨l, rfl⟩
    have hm : sh.minv.prepareFlush = sh.minv := by simp [Layers.prepareFlush, hl]
    have : sh.prepareFlush = { sh with fwd := sh.fwd.prepareFlush, inv := sh.inv.prepareFlush } := by
      simp [Shard.prepareFlush, hs, hm]
    rw [this]
    exact ⟨inv.snapDisk, inv.immSub, inv.diskSub, inv.post, inv.cache, inv.inj, inv.diskCover, inv.immCover,
      inv.syncNone, inv.syncCur, inv.syncFrz, inv.mutE, inv.immE⟩
  | none =>
    have hf : sh.minv.frz = none := inv.syncNone.1 him
    have himm : sh.series.prepareFlush.immDict = sh.series.mutable := by simp [KvStore.prepareFlush, him, KvStore.immDict]
    have hfrz : sh.minv.prepareFlush.frzList = sh.minv.cur := by simp [Layers.prepareFlush, hf, Layers.frzList]
    have hdisk : sh.minv.prepareFlush.disk = sh.minv.disk := by simp [Layers.prepareFlush, hf]
    have hfl0 : sh.minv.frzList = [] := by simp [Layers.frzList, hf]
    refine ⟨?_, ?_, ?_, ?_, ?_, ?_, ?_, ?_, ?_, ?_, ?_, ?_, ?_⟩
    · show sh.series.prepareFlush.snap = sh.series.prepareFlush.disk
      rw [hd, hsn]; exact inv.snapDisk
    · intro m ts i h
      show sh.series.prepareFlush.lookup m ts = some i
      have h' : sh.series.prepareFlush.immDict m ts = some i := h
      rw [himm] at h'
      rw [lookup_prepare, lookup_eq]; simp [h']
    · intro m ts i h
      show sh.series.prepareFlush.lookup m ts = some i
      have h' : sh.series.prepareFlush.disk m ts = some i := h
      rw [hd] at h'; rw [lookup_prepare]; exact inv.diskSub _ _ _ h'
    · intro m ts i h
      have h' : sh.series.prepareFlush.lookup m ts = some i := h
      rw [lookup_prepare] at h'
      show (m, i) ∈ sh.minv.prepareFlush.all
      rw [hall]; exact inv.post _ _ _ h'
    · intro m c hc i hi
      have hi' : (m, i) ∈ sh.minv.prepareFlush.all := hi
      rw [hall] at hi'; exact inv.cache m c hc i hi'
    · intro m t1 t2 i h1 h2
      have h1' : sh.series.prepareFlush.lookup m t1 = some i := h1
      have h2' : sh.series.prepareFlush.lookup m t2 = some i := h2
      rw [lookup_prepare] at h1' h2'; exact inv.inj _ _ _ _ h1' h2'
    · intro m ts i h
      have h' : sh.series.prepareFlush.disk m ts = some i := h
      rw [hd] at h'
      show (m, i) ∈ sh.minv.prepareFlush.disk
      rw [hdisk]; exact inv.diskCover _ _ _ h'
    · intro m ts i h
      have h' : sh.series.prepareFlush.immDict m ts = some i := h
      rw [himm] at h'
      show (m, i) ∈ sh.minv.prepareFlush.frzList ∨ (m, i) ∈ sh.minv.prepareFlush.disk
      rw [hfrz, hdisk]
      have : sh.series.lookup m ts = some i := by rw [lookup_eq]; simp [h']
      have := (sh.minv.mem_all _).1 (inv.post _ _ _ this)
      rw [hfl0] at this
      rcases this with h | h | h
      · exact Or.inl h
      · cases h
      · exact Or.inr h
    · show sh.series.prepareFlush.immutable = none ↔ sh.minv.prepareFlush.frz = none
      simp [KvStore.prepareFlush, him, Layers.prepareFlush, hf]
    · show sh.series.prepareFlush.mutEmpty = true ↔ sh.minv.prepareFlush.cur = []
      simp [KvStore.prepareFlush, him, Layers.prepareFlush, hf]
    · intro d e l h1 h2
      have h1' : sh.series.prepareFlush.immutable = some (d, e) := h1
      have h2' : sh.minv.prepareFlush.frz = some l := h2
      simp [KvStore.prepareFlush, him] at h1'
      simp [Layers.prepareFlush, hf] at h2'
      rw [← h1'.2, ← h2']; exact inv.syncCur
    · intro _ b n
      show sh.series.prepareFlush.mutable b n = none
      simp [KvStore.prepareFlush, him, Dict.empty]
    · intro d hd b n
      have hd' : sh.series.prepareFlush.immutable = some (d, true) := hd
      simp [KvStore.prepareFlush, him] at hd'
      rw [← hd'.1]; exact inv.mutE hd'.2 b n

/-- `ShardInv` talks about the series dictionary, the sequence cache and the metric→series postings only -/
theorem shardInv_of_parts {s s' : Shard} (h1 : s'.series = s.series) (h2 : s'.seqCache = s.seqCache) (h3 : s'.minv = s.minv)
    (inv : ShardInv s) : ShardInv s' := by
  obtain ⟨a1, a2, a3, a4, a5, a6, a7, a8, a9, a10, a11, a12, a13⟩ := inv
  refine ⟨?_, ?_, ?_, ?_, ?_, ?_, ?_, ?_, ?_, ?_, ?_, ?_, ?_⟩ <;> (try rw [h1]) <;> (try rw [h2]) <;> (try rw [h3]) <;> assumption

theorem layers_dropEmpty_all {α : Type} (l : Layers α) (a : α) : a ∈ l.dropEmpty.all ↔ a ∈ l.all := by
  unfold Layers.dropEmpty
  cases h : l.frz with
  | none => simp
  | some x => cases x <;> simp [Layers.all, h]

/-- forgetting the empty immutable maps of a shard (series dictionary and postings are empty together) -/
theorem shardInv_dropEmpty {sh : Shard} (inv : ShardInv sh) : ShardInv sh.dropEmpty := by
  cases him : sh.series.immutable with
  | none =>
    have hf := inv.syncNone.1 him
    refine shardInv_of_parts (s := sh) (s' := sh.dropEmpty) ?_ rfl ?_ inv
    · show sh.series.dropEmpty = sh.series; simp [KvStore.dropEmpty, him]
    · show sh.minv.dropEmpty = sh.minv; simp [Layers.dropEmpty, hf]
  | some p =>
    obtain ⟨d, e⟩ := p
    obtain ⟨l, hl⟩ : ∃ l, sh.minv.frz = some l := by
      cases hf : sh.minv.frz with
      | none => have := inv.syncNone.2 hf; rw [him] at this; cases this
      | some l => exact ⟨l, rfl⟩
    have hs := inv.syncFrz d e l him hl
    cases e with
    | false =>
      have hne : l ≠ [] := fun h => by have := hs.2 h; cases this
      refine shardInv_of_parts (s := sh) (s' := sh.dropEmpty) ?_ rfl ?_ inv
      · show sh.series.dropEmpty = sh.series; simp [KvStore.dropEmpty, him]
      · show sh.minv.dropEmpty = sh.minv
        cases l with
        | nil => exact absurd rfl hne
        | cons a r => simp [Layers.dropEmpty, hl]
    | true =>
      have hl0 : l = [] := hs.1 rfl
      subst hl0
      have hd : ∀ b n, d b n = none := inv.immE d him
      have hser : sh.series.dropEmpty = { sh.series with immutable := none } := by simp [KvStore.dropEmpty, him]
      have hminv : sh.minv.dropEmpty = { sh.minv with frz := none } := by simp [Layers.dropEmpty, hl]
      have hlk : ∀ m ts, sh.series.dropEmpty.lookup m ts = sh.series.lookup m ts := lookup_dropEmpty inv.immE
      have hall : ∀ p, p ∈ sh.minv.dropEmpty.all ↔ p ∈ sh.minv.all := layers_dropEmpty_all sh.minv
      refine ⟨?_, ?_, ?_, ?_, ?_, ?_, ?_, ?_, ?_, ?_, ?_, ?_, ?_⟩
      · show sh.series.dropEmpty.snap = sh.series.dropEmpty.disk
        rw [hser]; exact inv.snapDisk
      · intro m ts i h
        have h' : sh.series.dropEmpty.immDict m ts = some i := h
        rw [hser] at h'; simp [KvStore.immDict, Dict.empty] at h'
      · intro m ts i h
        show sh.series.dropEmpty.lookup m ts = some i
        have h' : sh.series.dropEmpty.disk m ts = some i := h
        rw [hser] at h'
        rw [hlk]; exact inv.diskSub _ _ _ h'
      · intro m ts i h
        have h' : sh.series.dropEmpty.lookup m ts = some i := h
        rw [hlk] at h'
        show (m, i) ∈ sh.minv.dropEmpty.all
        rw [hall]; exact inv.post _ _ _ h'
      · intro m c hc i hi
        have hi' : (m, i) ∈ sh.minv.dropEmpty.all := hi
        rw [hall] at hi'; exact inv.cache m c hc i hi'
      · intro m t1 t2 i h1 h2
        have h1' : sh.series.dropEmpty.lookup m t1 = some i := h1
        have h2' : sh.series.dropEmpty.lookup m t2 = some i := h2
        rw [hlk] at h1' h2'; exact inv.inj _ _ _ _ h1' h2'
      · intro m ts i h
        have h' : sh.series.dropEmpty.disk m ts = some i := h
        rw [hser] at h'
        show (m, i) ∈ sh.minv.dropEmpty.disk
        rw [hminv]; exact inv.diskCover _ _ _ h'
      · intro m ts i h
        have h' : sh.series.dropEmpty.immDict m ts = some i := h
        rw [hser] at h'; simp [KvStore.immDict, Dict.empty] at h'
      · show sh.series.dropEmpty.immutable = none ↔ sh.minv.dropEmpty.frz = none
        rw [hser, hminv]; simp
      · show sh.series.dropEmpty.mutEmpty = true ↔ sh.minv.dropEmpty.cur = []
        rw [hser, hminv]; exact inv.syncCur
      · intro d' e' l' h1 _
        have h1' : sh.series.dropEmpty.immutable = some (d', e') := h1
        rw [hser] at h1'; cases h1'
      · intro hm b n
        have hm' : sh.series.dropEmpty.mutEmpty = true := hm
        rw [hser] at hm'
        show sh.series.dropEmpty.mutable b n = none
        rw [hser]; exact inv.mutE hm' b n
      · intro d' hd'
        have h1' : sh.series.dropEmpty.immutable = some (d', true) := hd'
        rw [hser] at h1'; cases h1'

theorem shardInv_prepareE {sh : Shard} (inv : ShardInv sh) (se : Bool) : ShardInv (sh.prepareFlushE se) := by
  unfold Shard.prepareFlushE
  cases se with
  | false => simpa using shardInv_prepare inv
  | true => simpa using shardInv_prepare (shardInv_dropEmpty inv)

theorem series_lookup_prepareE {sh : Shard} (inv : ShardInv sh) (se : Bool) (m ts : Nat) :
    (sh.prepareFlushE se).series.lookup m ts = sh.series.lookup m ts := by
  unfold Shard.prepareFlushE
  cases se with
  | false => simp [Shard.prepareFlush, lookup_prepare]
  | true => simp [Shard.prepareFlush, Shard.dropEmpty, lookup_prepare, lookup_dropEmpty inv.immE]

/-- the kv family of the series dictionary after its flush: covered by the flushed postings -/
theorem series_flush_cover {sh : Shard} (inv : ShardInv sh) (m ts i : Nat)
    (h : sh.series.flush.disk m ts = some i) : (m, i) ∈ sh.minv.flush.disk := by
  apply layers_flush_disk
  unfold KvStore.flush at h
  cases him : sh.series.immutable with
  | none => simp [KvStore.commit, KvStore.finish, him] at h; exact Or.inr (inv.diskCover _ _ _ h)
  | some p =>
    obtain ⟨d, e⟩ := p
    cases e with
    | true => simp [KvStore.commit, KvStore.finish, him] at h; exact Or.inr (inv.diskCover _ _ _ h)
    | false =>
      simp [KvStore.commit, KvStore.finish, him, Dict.over] at h
      cases hdb : d m ts with
      | some k =>
        simp [hdb] at h; subst h
        exact inv.immCover m ts k (by simp [KvStore.immDict, him, hdb])
      | none => simp [hdb] at h; exact Or.inr (inv.diskCover _ _ _ h)

/-- the whole `metricIndexDatabase.Flush` -/
theorem shardInv_flush {sh : Shard} (inv : ShardInv sh) :
    ShardInv ((List.range 4).foldl Shard.flushStep sh) := by
  have e : (List.range 4).foldl Shard.flushStep sh =
      { sh with minv := sh.minv.flush, fwd := sh.fwd.flush, inv := sh.inv.flush, series := sh.series.flush } := by
    simp [List.range, List.range.loop, Shard.flushStep]
  rw [e]
  have hl := lookup_flush sh.series inv.snapDisk
  have hall : ∀ p, p ∈ sh.minv.flush.all ↔ p ∈ sh.minv.all := layers_flush_all sh.minv
  refine ⟨flush_snap _ inv.snapDisk, ?_, ?_, ?_, ?_, ?_, ?_, ?_, ?_, ?_, ?_, ?_, ?_⟩
  · intro m ts i h
    show sh.series.flush.lookup m ts = some i
    rw [hl]; exact inv.immSub _ _ _ (flush_immDict _ _ _ _ h)
  · intro m ts i h
    show sh.series.flush.lookup m ts = some i
    have h' : sh.series.flush.disk m ts = some i := h
    rw [hl]
    -- as in `flush_disk_sub`
    unfold KvStore.flush at h'
    cases him : sh.series.immutable with
    | none => simp [KvStore.commit, KvStore.finish, him] at h'; exact inv.diskSub _ _ _ h'
    | some p =>
      obtain ⟨d, e⟩ := p
      cases e with
      | true => simp [KvStore.commit, KvStore.finish, him] at h'; exact inv.diskSub _ _ _ h'
      | false =>
        simp [KvStore.commit, KvStore.finish, him, Dict.over] at h'
        cases hdb : d m ts with
        | some k =>
          simp [hdb] at h'; subst h'
          apply inv.immSub; simp [KvStore.immDict, him, hdb]
        | none => simp [hdb] at h'; exact inv.diskSub _ _ _ h'
  · intro m ts i h
    have h' : sh.series.flush.lookup m ts = some i := h
    rw [hl] at h'
    show (m, i) ∈ sh.minv.flush.all
    rw [hall]; exact inv.post _ _ _ h'
  · intro m c hc i hi
    have hi' : (m, i) ∈ sh.minv.flush.all := hi
    rw [hall] at hi'; exact inv.cache m c hc i hi'
  · intro m t1 t2 i h1 h2
    have h1' : sh.series.flush.lookup m t1 = some i := h1
    have h2' : sh.series.flush.lookup m t2 = some i := h2
    rw [hl] at h1' h2'; exact inv.inj _ _ _ _ h1' h2'
  · intro m ts i h; exact series_flush_cover inv m ts i h
  · intro m ts i h
    right
    show (m, i) ∈ sh.minv.flush.disk
    apply layers_flush_disk
    exact inv.immCover _ _ _ (flush_immDict _ _ _ _ h)
  · show sh.series.flush.immutable = none ↔ sh.minv.flush.frz = none
    rw [flush_immutable, layers_flush_frz]
    cases him : sh.series.immutable with
    | none =>
      have := inv.syncNone.1 him
      simp [this]
    | some p =>
      obtain ⟨d, e⟩ := p
      cases hf : sh.minv.frz with
      | none => have := inv.syncNone.2 hf; rw [him] at this; cases this
      | some l =>
        have hs := inv.syncFrz d e l him hf
        cases e with
        | true =>
          have : l = [] := hs.1 rfl
          subst this; simp
        | false =>
          cases l with
          | nil => have := hs.2 rfl; cases this
          | cons a r => simp
  · show sh.series.flush.mutEmpty = true ↔ sh.minv.flush.cur = []
    rw [flush_mutEmpty, layers_flush_cur]; exact inv.syncCur
  · intro d e l h1 h2
    have h1' : sh.series.flush.immutable = some (d, e) := h1
    have h2' : sh.minv.flush.frz = some l := h2
    rw [flush_immutable] at h1'
    rw [layers_flush_frz] at h2'
    -- a map that survives a flush is an empty one
    cases him : sh.series.immutable with
    | none => rw [him] at h1'; cases h1'
    | some p =>
      obtain ⟨d0, e0⟩ := p
      cases hf : sh.minv.frz with
      | none => rw [hf] at h2'; cases h2'
      | some l0 =>
        have hs := inv.syncFrz d0 e0 l0 him hf
        cases e0 with
        | false => rw [him] at h1'; cases h1'
        | true =>
          have : l0 = [] := hs.1 rfl
          subst this
          rw [him] at h1'; rw [hf] at h2'
          simp at h1' h2'
          rw [← h1'.2, ← h2']; simp
  · intro hm b n
    have hm' : sh.series.flush.mutEmpty = true := hm
    rw [flush_mutEmpty] at hm'
    show sh.series.flush.mutable b n = none
    have : sh.series.flush.mutable = sh.series.mutable := by
      cases him : sh.series.immutable with
      | none => simp [KvStore.flush, KvStore.commit, KvStore.finish, him]
      | some p => obtain ⟨d, e⟩ := p; cases e <;> simp [KvStore.flush, KvStore.commit, KvStore.finish, him]
    rw [this]; exact inv.mutE hm' b n
  · intro d hd
    have hd' : sh.series.flush.immutable = some (d, true) := hd
    rw [flush_immutable] at hd'
    cases him : sh.series.immutable with
    | none => rw [him] at hd'; cases hd'
    | some p =>
      obtain ⟨d0, e0⟩ := p
      cases e0 with
      | false => rw [him] at hd'; cases hd'
      | true => rw [him] at hd'; simp at hd'; subst hd'; exact inv.immE d0 him

/-- reopen after any prefix of an index flush (a crash point inside it) -/
theorem shardInv_recover_prefix {sh : Shard} (inv : ShardInv sh) (k : Nat) :
    ShardInv ((List.range k).foldl Shard.flushStep sh).recover := by
  -- the two kv families that matter after `k` steps
  have key : ∀ k, (((List.range k).foldl Shard.flushStep sh).series.disk = sh.series.disk ∧
        ((((List.range k).foldl Shard.flushStep sh).minv.disk = sh.minv.disk ∧ k = 0) ∨
         (((List.range k).foldl Shard.flushStep sh).minv.disk = sh.minv.flush.disk ∧ 1 ≤ k))) ∨
      (((List.range k).foldl Shard.flushStep sh).series.disk = sh.series.flush.disk ∧
        ((List.range k).foldl Shard.flushStep sh).minv.disk = sh.minv.flush.disk) := by
    intro k
    match k with
    | 0 => left; exact ⟨rfl, Or.inl ⟨rfl, rfl⟩⟩
    | 1 => left; exact ⟨rfl, Or.inr ⟨rfl, Nat.le_refl _⟩⟩
    | 2 => left; exact ⟨rfl, Or.inr ⟨rfl, by omega⟩⟩
    | 3 => left; exact ⟨rfl, Or.inr ⟨rfl, by omega⟩⟩
    | (n + 4) =>
      right
      have : ∀ n, (List.range (n + 4)).foldl Shard.flushStep sh = (List.range 4).foldl Shard.flushStep sh := by
        intro n
        induction n with
        | zero => rfl
        | succ n ih =>
          rw [show n + 1 + 4 = (n + 4) + 1 from by omega, List.range_succ, List.foldl_append, ih]
          simp [Shard.flushStep]
      rw [this n]
      simp [List.range, List.range.loop, Shard.flushStep]
  have cover : ∀ m ts i, ((List.range k).foldl Shard.flushStep sh).series.disk m ts = some i →
      (m, i) ∈ ((List.range k).foldl Shard.flushStep sh).minv.disk ∧ sh.series.lookup m ts = some i := by
    intro m ts i h
    rcases key k with ⟨h1, h2⟩ | ⟨h1, h2⟩
    · rw [h1] at h
      refine ⟨?_, inv.diskSub _ _ _ h⟩
      rcases h2 with ⟨h2, _⟩ | ⟨h2, _⟩
      · rw [h2]; exact inv.diskCover _ _ _ h
      · rw [h2]; exact layers_flush_disk _ _ (Or.inr (inv.diskCover _ _ _ h))
    · rw [h1] at h
      refine ⟨by rw [h2]; exact series_flush_cover inv m ts i h, ?_⟩
      -- flushed dictionary entries were in the view
      have := lookup_flush sh.series inv.snapDisk m ts
      unfold KvStore.flush at h
      cases him : sh.series.immutable with
      | none => simp [KvStore.commit, KvStore.finish, him] at h; exact inv.diskSub _ _ _ h
      | some p =>
        obtain ⟨d, e⟩ := p
        cases e with
        | true => simp [KvStore.commit, KvStore.finish, him] at h; exact inv.diskSub _ _ _ h
        | false =>
          simp [KvStore.commit, KvStore.finish, him, Dict.over] at h
          cases hdb : d m ts with
          | some q =>
            simp [hdb] at h; subst h
            apply inv.immSub; simp [KvStore.immDict, him, hdb]
          | none => simp [hdb] at h; exact inv.diskSub _ _ _ h
  have hl : ∀ m ts, ((List.range k).foldl Shard.flushStep sh).recover.series.lookup m ts =
      ((List.range k).foldl Shard.flushStep sh).series.disk m ts := by
    intro m ts; exact lookup_recover _ _ _
  have hall : ∀ p, p ∈ ((List.range k).foldl Shard.flushStep sh).recover.minv.all ↔
      p ∈ ((List.range k).foldl Shard.flushStep sh).minv.disk := by
    intro p; simp [Shard.recover, Layers.recover, Layers.all]
  refine ⟨rfl, ?_, ?_, ?_, ?_, ?_, ?_, ?_, ?_, ?_, ?_, fun _ _ _ => rfl, fun d hd => by simp [Shard.recover, KvStore.recover] at hd⟩
  · intro m ts i h; simp [Shard.recover, KvStore.recover, KvStore.immDict, Dict.empty] at h
  · intro m ts i h; rw [hl]; exact h
  · intro m ts i h; rw [hl] at h; rw [hall]; exact (cover _ _ _ h).1
  · intro m c hc; simp [Shard.recover] at hc
  · intro m t1 t2 i h1 h2
    rw [hl] at h1 h2
    exact inv.inj _ _ _ _ (cover _ _ _ h1).2 (cover _ _ _ h2).2
  · intro m ts i h; exact (cover _ _ _ h).1
  · intro m ts i h; simp [Shard.recover, KvStore.recover, KvStore.immDict, Dict.empty] at h
  · simp [Shard.recover, KvStore.recover, Layers.recover]
  · simp [Shard.recover, KvStore.recover, Layers.recover]
  · intro d e l h; simp [Shard.recover, KvStore.recover] at h

/-- what a recovered series dictionary holds was in the view before, with the same id -/
theorem shard_recover_view {sh : Shard} (inv : ShardInv sh) (k : Nat) (m ts i : Nat)
    (h : ((List.range k).foldl Shard.flushStep sh).recover.series.lookup m ts = some i) :
    sh.series.lookup m ts = some i := by
  have h0 : ((List.range k).foldl Shard.flushStep sh).series.recover.lookup m ts = some i := h
  rw [lookup_recover] at h0
  have h := h0
  -- the kv family after k steps is the old one or the flushed one; both are inside the view
  have hk : ((List.range k).foldl Shard.flushStep sh).series.disk = sh.series.disk ∨
      ((List.range k).foldl Shard.flushStep sh).series.disk = sh.series.flush.disk := by
    match k with
    | 0 | 1 | 2 | 3 => left; rfl
    | (n + 4) =>
      right
      have : ∀ n, (List.range (n + 4)).foldl Shard.flushStep sh = (List.range 4).foldl Shard.flushStep sh := by
        intro n
        induction n with
        | zero => rfl
        | succ n ih =>
          rw [show n + 1 + 4 = (n + 4) + 1 from by omega, List.range_succ, List.foldl_append, ih]
          simp [Shard.flushStep]
      rw [this n]
      simp [List.range, List.range.loop, Shard.flushStep]
  rcases hk with hk | hk
  · rw [hk] at h; exact inv.diskSub _ _ _ h
  · rw [hk] at h
    unfold KvStore.flush at h
    cases him : sh.series.immutable with
    | none => simp [KvStore.commit, KvStore.finish, him] at h; exact inv.diskSub _ _ _ h
    | some p =>
      obtain ⟨d, e⟩ := p
      cases e with
      | true => simp [KvStore.commit, KvStore.finish, him] at h; exact inv.diskSub _ _ _ h
      | false =>
        simp [KvStore.commit, KvStore.finish, him, Dict.over] at h
        cases hdb : d m ts with
        | some q =>
          simp [hdb] at h; subst h
          apply inv.immSub; simp [KvStore.immDict, him, hdb]
        | none => simp [hdb] at h; exact inv.diskSub _ _ _ h

end LinVerif.IdAssign
