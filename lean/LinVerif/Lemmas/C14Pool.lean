/-
sync.Pool as used by pkg/encoding (encoderPool, decoderPool, fixedOffsetDecoderPool): a multiset of
objects. `Get` removes one element (or makes a new object), `Put` adds one. The pool itself accepts
anything; exclusivity of what `Get` returns is a property of the CLIENTS' call structure: every
acquired object is put back at most once, by its holder.
-/
import LinVerif.Generated.C14

namespace LinVerif.Pool

/-- objects are numbered; `free` = pool content (a multiset: order models which one `Get` returns),
`held` = objects currently owned by some client, `next` = next fresh object -/
structure State where
  free : List Nat
  held : List Nat
  next : Nat
  deriving DecidableEq, Repr

def State.init : State := ⟨[], [], 0⟩

/-- `pool.Get()` (with `New` / the `nil` → `New…()` fallback): returns the object and the new state -/
def State.get (s : State) : Nat × State :=
  match s.free with
  | o :: rest => (o, { s with free := rest, held := o :: s.held })
  | [] => (s.next, { s with held := s.next :: s.held, next := s.next + 1 })

/-- `pool.Put(o)`: no check at all (that is sync.Pool) -/
def State.put (s : State) (o : Nat) : State := { s with free := o :: s.free, held := s.held.erase o }

/-- **the invariant**: an object is in the pool at most once and never while it is in use -/
structure Inv (s : State) : Prop where
  freeNodup : s.free.Nodup
  heldNodup : s.held.Nodup
  disjoint : ∀ o, o ∈ s.free → o ∉ s.held
  bound : ∀ o, (o ∈ s.free ∨ o ∈ s.held) → o < s.next

theorem init_inv : Inv State.init := ⟨List.nodup_nil, List.nodup_nil, by intro o h; simp [State.init] at h,
  by intro o h; simp [State.init] at h⟩

theorem get_inv (s : State) (h : Inv s) : Inv s.get.2 ∧ s.get.1 ∈ s.get.2.held ∧ s.get.1 ∉ s.held := by
  obtain ⟨hf, hh, hd, hb⟩ := h
  unfold State.get
  cases hfree : s.free with
  | nil =>
    simp only
    refine ⟨⟨by simp [hfree], ?_, by intro o ho; simp [hfree] at ho, ?_⟩, by simp, ?_⟩
    · refine List.nodup_cons.mpr ⟨?_, hh⟩
      intro hm; have := hb s.next (Or.inr hm); omega
    · intro o ho
      simp only [hfree, List.not_mem_nil, false_or, List.mem_cons] at ho
      show o < s.next + 1
      rcases ho with rfl | ho
      · omega
      · have := hb o (Or.inr ho); omega
    · intro hm; have := hb s.next (Or.inr hm); omega
  | cons o rest =>
    simp only
    rw [hfree] at hf hd hb
    have hnd := List.nodup_cons.mp hf
    have honot : o ∉ s.held := hd o (by simp)
    refine ⟨⟨hnd.2, List.nodup_cons.mpr ⟨honot, hh⟩, ?_, ?_⟩, by simp, honot⟩
    · intro x hx
      simp only [List.mem_cons, not_or]
      refine ⟨?_, hd x (by simp [hx])⟩
      intro hxo; subst hxo; exact hnd.1 hx
    · intro x hx
      apply hb x
      simp only [List.mem_cons] at hx ⊢
      rcases hx with hx | hx | hx
      · exact Or.inl (Or.inr hx)
      · exact Or.inl (Or.inl hx)
      · exact Or.inr hx

/-- a holder putting ITS object back keeps the invariant -/
theorem put_inv (s : State) (o : Nat) (h : Inv s) (ho : o ∈ s.held) : Inv (s.put o) := by
  obtain ⟨hf, hh, hd, hb⟩ := h
  unfold State.put
  refine ⟨?_, hh.erase o, ?_, ?_⟩
  · refine List.nodup_cons.mpr ⟨?_, hf⟩
    intro hm; exact hd o hm ho
  · intro x hx
    simp only [List.mem_cons] at hx
    rcases hx with rfl | hx
    · exact fun hm => (List.Nodup.mem_erase_iff hh).mp hm |>.1 rfl
    · intro hm; exact hd x hx (List.mem_of_mem_erase hm)
  · intro x hx
    apply hb x
    simp only [List.mem_cons] at hx
    rcases hx with (rfl | hx) | hx
    · exact Or.inr ho
    · exact Or.inl hx
    · exact Or.inr (List.mem_of_mem_erase hx)

/-- client-level operations: acquire, or the holder of `o` gives it back -/
inductive Op
  | acquire
  | release (o : Nat)

def run : State → List Op → State
  | s, [] => s
  | s, .acquire :: ops => run s.get.2 ops
  | s, .release o :: ops => run (s.put o) ops

/-- the discipline the call structure has to provide: only held objects are released
(hence each acquisition is released at most once) -/
def Disciplined : State → List Op → Prop
  | _, [] => True
  | s, .acquire :: ops => Disciplined s.get.2 ops
  | s, .release o :: ops => o ∈ s.held ∧ Disciplined (s.put o) ops

theorem run_inv : ∀ (ops : List Op) (s : State), Inv s → Disciplined s ops → Inv (run s ops) := by
  intro ops
  induction ops with
  | nil => intro s h _; exact h
  | cons op ops ih =>
    intro s h hd
    cases op with
    | acquire => exact ih _ (get_inv s h).1 hd
    | release o => exact ih _ (put_inv s o h hd.1) hd.2

/-- what two clients get when both acquire without a release in between -/
theorem two_gets_distinct (s : State) (h : Inv s) : s.get.1 ≠ s.get.2.get.1 := by
  obtain ⟨h1, hin, _⟩ := get_inv s h
  obtain ⟨_, _, hnot⟩ := get_inv s.get.2 h1
  intro he
  rw [← he] at hnot
  exact hnot hin

/-! ### releases per lifetime of a TSD stream reader, from the regenerated call orders -/

open LinVerif.Generated.C14 in
/-- how many times `Close()` puts the field decoder back -/
def closeReleases : Nat := tsdStreamReaderCloseCalls.count "ReleaseTSDDecoder"

open LinVerif.Generated.C14 in
/-- releases done by a method body: direct ones plus those of a nested `sr.Close()` -/
def releasesIn (calls : List String) : Nat :=
  calls.count "ReleaseTSDDecoder" + calls.count "sr.Close" * closeReleases

open LinVerif.Generated.C14 in
/-- one reader lifetime: `NewTSDStreamReader`, any `TimeRange/HasNext/Next`, one `Close` -/
def readerLifetimeReleases : Nat :=
  releasesIn newTSDStreamReaderCalls + releasesIn tsdStreamReaderTimeRangeCalls +
  releasesIn tsdStreamReaderHasNextCalls + releasesIn tsdStreamReaderNextCalls + closeReleases

open LinVerif.Generated.C14 in
def readerLifetimeAcquires : Nat :=
  newTSDStreamReaderCalls.count "GetTSDDecoder" + tsdStreamReaderHasNextCalls.count "GetTSDDecoder" +
  tsdStreamReaderNextCalls.count "GetTSDDecoder" + tsdStreamReaderCloseCalls.count "GetTSDDecoder"

end LinVerif.Pool
