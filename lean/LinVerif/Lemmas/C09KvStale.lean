/-
C09, the LRU bucket cache: the `recheckLocked` createValue is immune to it. Callers' lock-free persisted
lookups may miss through an arbitrarily stale cached bucket (`KStepStale.staleMiss`); createValue looks
again under the write lock in mutable, immutable and `s.snapshot` — never in the cache — so a name that
exists is found there, and `stable` / `injective` hold over all interleavings with stale misses.
-/
import LinVerif.Lemmas.C09Kv

namespace LinVerif.IdAssign

/-- the invariant without what callers remember about the snapshot (a stale miss invalidates it):
the store part of `KInv`, and every completed call's answer is in the store -/
structure KInvL (s : KSys) : Prop where
  st : KInv { s with threads := [] }
  dn : ∀ t ∈ s.threads, ∀ i, t.pc = .done i → s.store.Owns t.bucket t.name i

/-- `KInv` for one completed call on top of the store part -/
theorem kinv_single {s : KSys} (inv : KInv { s with threads := [] }) (t : KThread) (i : Nat) (hpc : t.pc = .done i)
    (ho : s.store.Owns t.bucket t.name i) : KInv { s with threads := [t] } := by
  refine ⟨inv.uniq, inv.inj, inv.bound, inv.snapSub, inv.diskSub, inv.comm, ?_, inv.mutE, inv.immE⟩
  intro x hx
  have : x = t := by simpa using hx
  subst this
  simp [KThread.Ok, hpc]; exact ho

theorem kinv_drop {s : KSys} {ts : List KThread} (inv : KInv { s with threads := ts }) : KInv { s with threads := [] } :=
  ⟨inv.uniq, inv.inj, inv.bound, inv.snapSub, inv.diskSub, inv.comm, fun _ h => (by cases h), inv.mutE, inv.immE⟩

/-- an environment step (anything that maps `KInv` to `KInv` for every thread list and does not touch
the threads) keeps `KInvL` -/
theorem kinvL_env {s : KSys} (inv : KInvL s) (g : KvStore → KvStore) (c' : Bool)
    (hstep : ∀ ts : List KThread, KInv { s with threads := ts } →
      KInv { store := g s.store, ctr := s.ctr, threads := ts, committed := c' }) :
    KInvL { store := g s.store, ctr := s.ctr, threads := s.threads, committed := c' } := by
  refine ⟨hstep [] inv.st, ?_⟩
  intro t ht i hpc
  have h1 := kinv_single inv.st t i hpc (inv.dn t ht i hpc)
  have h2 := hstep [t] h1
  have := h2.thr t (by simp)
  simpa [KThread.Ok, hpc] using this

theorem mem_set_cases' {α : Type} {l : List α} {i : Nat} {a x : α} (h : x ∈ l.set i a) : x ∈ l ∨ x = a :=
  mem_set_cases h

/-- one step of a caller in the `recheckLocked` variant -/
theorem kinvL_thread {s : KSys} (inv : KInvL s) {i : Nat} {t : KThread} (ht : s.threads[i]? = some t) :
    KInvL { s with store := (kstep .recheckLocked s.store s.ctr t).1, ctr := (kstep .recheckLocked s.store s.ctr t).2.1,
                   threads := s.threads.set i (kstep .recheckLocked s.store s.ctr t).2.2 } := by
  -- steps that leave the store alone and end in `t'`
  have same : ∀ t' : KThread, (∀ j, t'.pc = .done j → s.store.Owns t'.bucket t'.name j) →
      KInvL { s with store := s.store, ctr := s.ctr, threads := s.threads.set i t' } := by
    intro t' h'
    refine ⟨inv.st, ?_⟩
    intro x hx j hpc
    rcases mem_set_cases hx with hx | rfl
    · exact inv.dn x hx j hpc
    · exact h' j hpc
  unfold kstep
  cases hpc : t.pc with
  | start =>
    simp only []
    cases hl : s.store.lookupMem t.bucket t.name with
    | some j => simp only []; apply same; intro j' hj; simp at hj; subst hj; exact lookupMem_some hl
    | none => simp only []; apply same; intro j' hj; simp at hj
  | afterMem q =>
    simp only []
    cases hl : s.store.lookupPersisted t.bucket t.name with
    | some j =>
      simp only []; apply same; intro j' hj; simp at hj; subst hj
      exact Or.inr (Or.inr (inv.st.snapSub _ _ _ hl))
    | none => simp only []; apply same; intro j' hj; simp at hj
  | afterDisk q =>
    simp only []
    cases hl : s.store.lookupMem t.bucket t.name with
    | some j => simp only []; apply same; intro j' hj; simp at hj; subst hj; exact lookupMem_some hl
    | none =>
      simp only []
      cases hp : s.store.lookupPersisted t.bucket t.name with
      | some j =>
        simp only []; apply same; intro j' hj; simp at hj; subst hj
        exact Or.inr (Or.inr (inv.st.snapSub _ _ _ hp))
      | none =>
        simp only []
        obtain ⟨hm, him⟩ := lookupMem_none hl
        have hsnap : s.store.snap t.bucket t.name = none := hp
        have hfree : ∀ j, ¬ s.store.Owns t.bucket t.name j := by
          intro j hj
          rcases hj with hj | hj | hj
          · rw [hm] at hj; cases hj
          · rw [him] at hj; cases hj
          · rcases inv.st.diskSub _ _ _ hj with h | h
            · rw [hsnap] at h; cases h
            · rw [him] at h; cases h
        have hc := kinv_create inv.st hfree [] (fun _ h => (by cases h))
        refine ⟨hc, ?_⟩
        intro x hx j hpcx
        rcases mem_set_cases hx with hx | rfl
        · exact owns_insert (inv.dn x hx j hpcx) hm
        · simp at hpcx; subst hpcx
          left
          show (s.store.mutable.set t.bucket t.name s.ctr) t.bucket t.name = some s.ctr
          simp [Dict.set]
  | done j =>
    simp only []
    apply same
    intro j' hj
    exact inv.dn t (List.mem_of_getElem? ht) j' hj

theorem kinvL_step {s s' : KSys} (inv : KInvL s) (st : KStepStale (kstep .recheckLocked) s s') : KInvL s' := by
  cases st with
  | base g =>
    cases g with
    | call b n =>
      refine ⟨inv.st, ?_⟩
      intro t ht i hpc
      rcases List.mem_append.1 ht with h | h
      · exact inv.dn t h i hpc
      · simp at h; subst h; simp at hpc
    | thread i t h => exact kinvL_thread inv h
    | prepare se => exact kinvL_env inv (fun st => st.prepareFlushE se) s.committed (fun ts h => kinv_prepareE h se)
    | commit h1 h2 => exact kinvL_env inv KvStore.commit true (fun ts h => kinv_commit h h2)
    | finish h => exact kinvL_env inv KvStore.finish false (fun ts hh => kinv_finish hh h)
  | staleMiss i t q h hpc =>
    refine ⟨inv.st, ?_⟩
    intro x hx j hpcx
    rcases mem_set_cases hx with hx | rfl
    · exact inv.dn x hx j hpcx
    · simp at hpcx

theorem kinvL_reach {s0 s : KSys} (h0 : KStart s0) (r : KReachStale (kstep .recheckLocked) s0 s) : KInvL s := by
  induction r with
  | init =>
    have := kinv_start h0
    refine ⟨kinv_drop (ts := s0.threads) this, ?_⟩
    intro t ht; rw [h0.noThreads] at ht; cases ht
  | step _ st ih => exact kinvL_step ih st

theorem kinvL_stable {s : KSys} (inv : KInvL s) : KStable s := by
  intro t1 h1 t2 h2 a b ha hb hbk hnm
  have o1 := inv.dn t1 h1 a ha
  have o2 := inv.dn t2 h2 b hb
  rw [hbk, hnm] at o1
  exact inv.st.uniq _ _ _ _ o1 o2

theorem kinvL_injective {s : KSys} (inv : KInvL s) : KInjective s := by
  intro t1 h1 t2 h2 a ha hb hbk
  exact (inv.st.inj _ _ _ _ _ (inv.dn t1 h1 a ha) (inv.dn t2 h2 a hb)).2

end LinVerif.IdAssign
