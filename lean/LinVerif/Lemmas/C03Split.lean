/-
C03 helper lemmas: the output files of a merge compaction, whatever the size threshold — the files'
entries concatenated are the merged entries (nothing lost, nothing duplicated, order kept), the
files are ascending and disjoint in their key ranges, every key is in exactly one file.
-/
import LinVerif.Lemmas.C03Group

set_option linter.unusedSectionVars false
set_option linter.unusedSimpArgs false
namespace LinVerif.C03
open LinVerif.Map LinVerif.MetricBlock LinVerif.Merge LinVerif.Compact

variable {V : Type} {β : Type}

theorem lastKey_mem (k : Nat) (t : List (Nat × β)) : lastKey k t = k ∨ lastKey k t ∈ keys t := by
  induction t generalizing k with
  | nil => left; rfl
  | cons e r ih =>
    simp only [lastKey, keys_cons, List.mem_cons]
    rcases ih e.1 with h | h
    · right; left; exact h
    · right; right; exact h

theorem mkFile_fields (e : Nat × Block V) (t : List (Nat × Block V)) :
    mkFile (e :: t) = some { minKey := e.1, maxKey := lastKey e.1 t, entries := e :: t } := rfl

/-- the files written for the chunks hold exactly the chunks, in order -/
theorem outs_entries (chunks : List (List (Nat × Block V))) (hne : ∀ c ∈ chunks, c ≠ []) :
    (chunks.filterMap mkFile).map (fun f => f.entries) = chunks := by
  induction chunks with
  | nil => rfl
  | cons c cs ih =>
    have ih' := ih (fun c' hc' => hne c' (List.mem_cons_of_mem _ hc'))
    cases c with
    | nil => exact absurd rfl (hne [] List.mem_cons_self)
    | cons e t => simp [List.filterMap_cons, mkFile_fields, ih']

/-- key ranges of the output files ascend strictly: every file ends below the start of every later one -/
theorem outs_ranges_ascending (chunks : List (List (Nat × Block V))) :
    (∀ c ∈ chunks, c ≠ []) → (keys chunks.flatten).Pairwise (· < ·) →
      (chunks.filterMap mkFile).Pairwise (fun f g => f.maxKey < g.minKey) := by
  induction chunks with
  | nil => intro _ _; simp
  | cons c cs ih =>
    intro hne hs
    simp only [List.flatten_cons, keys_append] at hs
    rw [List.pairwise_append] at hs
    obtain ⟨_, hcs, hx⟩ := hs
    have ih' := ih (fun c' hc' => hne c' (List.mem_cons_of_mem _ hc')) hcs
    cases c with
    | nil => exact absurd rfl (hne [] List.mem_cons_self)
    | cons e t =>
      simp only [List.filterMap_cons, mkFile_fields, List.pairwise_cons]
      refine ⟨?_, ih'⟩
      intro g hg
      rw [List.mem_filterMap] at hg
      obtain ⟨d, hd, hgd⟩ := hg
      cases d with
      | nil => simp [mkFile] at hgd
      | cons e' t' =>
        rw [mkFile_fields] at hgd
        simp only [Option.some.injEq] at hgd
        subst hgd
        simp only
        have hmax : lastKey e.1 t ∈ keys (e :: t) := by
          rcases lastKey_mem e.1 t with h | h
          · rw [h]; simp [keys]
          · simp [keys_cons, h]
        have hmin : e'.1 ∈ keys cs.flatten := by
          have : e' ∈ cs.flatten := List.mem_flatten.mpr ⟨e' :: t', hd, List.mem_cons_self⟩
          exact List.mem_map_of_mem (f := Prod.fst) this
        exact hx _ hmax _ hmin

end LinVerif.C03
