/-
C05 helper definitions and lemmas, part 8: what the model expects of the regenerated facts about
the page factory, NewQueue and replica/partition.go; `Get` is total on the readable range.
-/
import LinVerif.Lemmas.C05Mutants
import LinVerif.Lemmas.C05Fct

namespace LinVerif.Queue

/-! ### pkg/queue/page/factory.go as mirrored by Model/QueueFactory.lean -/

/-- AcquirePage: closed check, map lookup, creation; the map entry and the size counter are
updated only after NewMappedPage succeeded -/
def expectedFctAcquireConds : List String := ["f.closed.Load()", "ok", "err != nil"]
def expectedFctAcquireStmts : List String :=
  ["return nil, errFactoryClosed", "page, ok := f.pages[index]", "return page, nil",
   "page, err := NewMappedPage(f.pageFileName(index), f.pageSize)", "return nil, err",
   "f.pages[index] = page", "return page, nil"]
def expectedFctAcquireCalls : List String :=
  ["f.mutex.Lock", "defer:f.mutex.Unlock", "f.closed.Load", "f.pageFileName", "NewMappedPage", "int64", "f.size.Add"]

/-- GetPage: the map lookup under the read lock, nothing else -/
def expectedFctGetPageStmts : List String := ["page, ok := f.pages[index]", "return page, ok"]
def expectedFctGetPageCalls : List String := ["f.mutex.RLock", "defer:f.mutex.RUnlock"]

/-- Close: once (CompareAndSwap), closes every page, leaves the map alone -/
def expectedFctCloseConds : List String := ["f.closed.CompareAndSwap(false, true)", "err != nil"]
def expectedFctCloseStmts : List String := ["err := page.Close()", "return nil"]
def expectedFctCloseCalls : List String :=
  ["f.closed.CompareAndSwap", "f.mutex.Lock", "defer:f.mutex.Unlock", "page.Close"]

/-- loadPages: AcquirePage for the id parsed from every file name `<id>.bat` -/
def expectedFctLoadPagesConds : List String := ["err != nil", "len(fileNames) == 0", "err != nil", "err != nil"]
def expectedFctLoadPagesStmts : List String :=
  ["fileNames, err := listDirFunc(f.path)", "return err", "return nil",
   "seqNumStr := fn[0:strings.Index(fn, pageSuffix) - 1]", "seq, err := strconv.ParseInt(seqNumStr, 10, 64)",
   "return err", "_, err = f.AcquirePage(seq)", "return err", "return nil"]
def expectedFctLoadPagesCalls : List String :=
  ["listDirFunc", "len", "strings.Index", "strconv.ParseInt", "f.AcquirePage"]
def expectedFctFileNameStmts : List String :=
  ["return filepath.Join(f.path, fmt.Sprintf(\"%d.%s\", index, pageSuffix))"]
def expectedFctNewCalls : List String := ["mkDirFunc", "make", "f.loadPages", "f.Close"]

/-! ### NewQueue -/

def expectedNewQueueConds : List String :=
  ["err != nil", "q.pageSize < dataPageSize", "err != nil", "err != nil", "err != nil", "err != nil",
   "err != nil", "hasMeta", "err != nil", "err != nil"]

/-- the fresh-directory branch stores -1 / -1 at the two meta offsets (`openQ`, else-branch) -/
def expectedNewQueueAccesses : List String :=
  ["metaPageFct.AcquirePage(metaPageIndex)", "appendedSeq.Store(SeqNoNewMessageAvailable)",
   "acknowledgedSeq.Store(SeqNoNewMessageAvailable)",
   "metaPage.PutUint64(uint64(q.AppendedSeq()), queueAppendedSeqOffset)",
   "metaPage.PutUint64(uint64(q.AcknowledgedSeq()), queueAcknowledgedSeqOffset)"]

def expectedNewQueueCalls : List String :=
  ["mkDirFunc", "sync.NewCond", "defer:(func() literal)", "filepath.Join", "int", "newPageFactoryFunc",
   "filepath.Join", "newPageFactoryFunc", "fmt.Sprintf", "filepath.Join", "fileutil.Exist", "filepath.Join",
   "newPageFactoryFunc", "q.metaPageFct.AcquirePage", "q.initSequence", "q.appendedSeq.Store",
   "q.acknowledgedSeq.Store", "q.AppendedSeq", "uint64", "q.metaPage.PutUint64", "q.AcknowledgedSeq", "uint64",
   "q.metaPage.PutUint64", "q.metaPage.Sync", "q.initDataPageIndex"]

/-- three factories: data pages of `q.pageSize`, index pages of `indexPageSize`, the meta page -/
def expectedNewQueueFactoryArgs : List String :=
  ["filepath.Join(dirPath, dataPath), int(q.pageSize)", "filepath.Join(dirPath, indexPath), indexPageSize",
   "filepath.Join(dirPath, metaPath), metaPageSize"]

/-! ### replica/partition.go as mirrored by `writeLog` / `replicaLog` / `resetReplicaIndex` -/

def expectedWriteLogConds : List String := ["p.closed.Load()", "len(msg) == 0", "err != nil"]
def expectedWriteLogStmts : List String :=
  ["return constants.ErrPartitionClosed", "return nil", "err := p.log.Queue().Put(msg)", "return err", "return nil"]
def expectedWriteLogCalls : List String := ["p.closed.Load", "len", "p.log.Queue", "p.log.Queue().Put"]

def expectedReplicaLogConds : List String := ["p.closed.Load()", "replicaIdx != appendIdx", "err != nil"]
def expectedReplicaLogStmts : List String :=
  ["return 0, constants.ErrPartitionClosed", "appendIdx := p.log.Queue().AppendedSeq() + 1",
   "return appendIdx, nil", "err := p.log.Queue().Put(msg)", "return -1, err", "return appendIdx, nil"]
def expectedReplicaLogCalls : List String :=
  ["p.closed.Load", "p.log.Queue", "p.log.Queue().AppendedSeq", "p.log.Queue", "p.log.Queue().Put"]

def expectedReplicaAckIndexStmts : List String := ["return p.log.Queue().AppendedSeq()"]
def expectedResetReplicaIndexCalls : List String := ["p.log.SetAppendedSeq"]
def expectedResetReplicaIndexArgs : List String := ["idx - 1"]
def expectedPartitionCloseConds : List String := ["p.closed.CompareAndSwap(false, true)"]
def expectedPartitionCloseCalls : List String := ["p.closed.CompareAndSwap", "p.log.Close"]
/-- IsExpire starts with the consumer-group sync and the queue's GC, in this order -/
def expectedIsExpireHead : List String := ["p.log.Sync()", "p.log.Queue().GC()"]
def expectedFanoutSetAppendedCalls : List String :=
  ["fq.lock4map.RLock", "defer:fq.lock4map.RUnlock", "fq.queue.SetAppendedSeq", "fo.SetSeq"]
def expectedFanoutSetAppendedArgs : List String := ["seq"]
def expectedFanoutQueueStmts : List String := ["return fq.queue"]

/-! ### Get on the whole integer line -/

/-- In a state satisfying the invariant `Get s` is decided by the two positions alone: out of
range exactly when `s > appended ∨ s ≤ acked`, and otherwise it returns the bytes of the index
item — never "not found" (GC never removes a page an unacknowledged sequence needs). -/
theorem get_total {st : St} (I : Inv st) (s : Int) :
    (get st s = .outOfRange ↔ (s > st.q.appended ∨ s ≤ st.q.acked)) ∧
    (st.q.acked < s ∧ s ≤ st.q.appended → get st s = .ok (content st.mem s.toNat)) ∧
    get st s ≠ .notFound := by
  by_cases h : s > st.q.appended ∨ s ≤ st.q.acked
  · have e : get st s = .outOfRange := by simp only [get, getLoc, if_pos h]
    refine ⟨⟨fun _ => h, fun _ => e⟩, fun h' => by omega, by rw [e]; intro h'; cases h'⟩
  · have hlo := I.core.ackLo
    have hn : ((s.toNat : Nat) : Int) = s := by omega
    have hr : Readable st.q s.toNat := by unfold Readable; omega
    have g := get_readable I.core hr
    rw [hn] at g
    have g' : get st s = .ok (content st.mem s.toNat) := g
    refine ⟨⟨fun e => ?_, fun h' => absurd h' h⟩, fun _ => g', by rw [g']; intro h'; cases h'⟩
    rw [g'] at e; cases e

end LinVerif.Queue
