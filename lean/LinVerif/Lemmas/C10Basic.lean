/-
C10 helper lemmas, part 1: association-list lookup, the "every part" views of the three stores and
the characterisation of every read function by membership in those views.
-/
import LinVerif.Model.TagFilter

set_option linter.unusedSimpArgs false
set_option linter.unusedVariables false

namespace LinVerif.TagFilter
open LinVerif

/-! ### association lists -/

theorem lookup_some_mem {κ ν : Type} [DecidableEq κ] {m : List (κ × ν)} {k : κ} {v : ν}
    (h : Map.lookup m k = some v) : (k, v) ∈ m := by
  induction m with
  | nil => simp [Map.lookup] at h
  | cons p t ih =>
    obtain ⟨k', v'⟩ := p
    by_cases hk : k' = k
    · subst hk
      simp [Map.lookup] at h
      subst h
      exact List.mem_cons_self
    · simp [Map.lookup, hk] at h
      exact List.mem_cons_of_mem _ (ih h)

theorem lookup_none_not_mem {κ ν : Type} [DecidableEq κ] {m : List (κ × ν)} {k : κ}
    (h : Map.lookup m k = none) : ∀ v, (k, v) ∉ m := by
  induction m with
  | nil => intro v; simp
  | cons p t ih =>
    obtain ⟨k', v'⟩ := p
    by_cases hk : k' = k
    · subst hk; simp [Map.lookup] at h
    · simp [Map.lookup, hk] at h
      intro v hv
      rcases List.mem_cons.mp hv with h1 | h1
      · exact hk (by cases h1; rfl)
      · exact ih h v h1

theorem lookup_of_mem_fun {κ ν : Type} [DecidableEq κ] {m : List (κ × ν)} {k : κ} {v : ν}
    (hfun : ∀ k v v', (k, v) ∈ m → (k, v') ∈ m → v = v') (h : (k, v) ∈ m) :
    Map.lookup m k = some v := by
  cases hl : Map.lookup m k with
  | none => exact absurd h (lookup_none_not_mem hl v)
  | some w => rw [hfun k w v (lookup_some_mem hl) h]

/-! ### views -/

/-- every forward entry, whichever part holds it -/
def Fwd.all (d : Fwd) : FwdPart := d.mtb ++ optList d.imm ++ d.files.flatMap fileEntries

theorem mem_dict_all {d : Dict} {e : KeyId × Bytes × ValId} :
    e ∈ d.all ↔ e ∈ d.mtb ∨ e ∈ optList d.imm ∨ e ∈ d.files.flatten := by
  simp [Dict.all, or_assoc]

theorem mem_inv_all {d : Inv} {e : ValId × SeriesId} :
    e ∈ d.all ↔ e ∈ d.mtb ∨ e ∈ optList d.imm ∨ e ∈ d.files.flatten := by
  simp [Inv.all, or_assoc]

theorem mem_fwd_all {d : Fwd} {e : KeyId × SeriesId × ValId} :
    e ∈ d.all ↔ e ∈ d.mtb ∨ e ∈ optList d.imm ∨ ∃ f ∈ d.files, e ∈ fileEntries f := by
  simp [Fwd.all, or_assoc]

/-! ### dictionary reads -/

theorem partFind_some {p : DictPart} {kid : KeyId} {v : Bytes} {id : ValId}
    (h : partFind p kid v = some id) : (kid, v, id) ∈ p := by
  unfold partFind at h
  cases hf : p.find? (fun e => e.1 == kid && e.2.1 == v) with
  | none => simp [hf] at h
  | some e =>
    simp [hf] at h
    have hm := List.mem_of_find?_eq_some hf
    have hp := List.find?_some hf
    simp at hp
    obtain ⟨a, b, c⟩ := e
    simp at hp h
    obtain ⟨h1, h2⟩ := hp
    subst h1; subst h2; subst h
    exact hm

theorem partFind_none {p : DictPart} {kid : KeyId} {v : Bytes}
    (h : partFind p kid v = none) : ∀ id, (kid, v, id) ∉ p := by
  unfold partFind at h
  intro id hm
  cases hf : p.find? (fun e => e.1 == kid && e.2.1 == v) with
  | some e => simp [hf] at h
  | none =>
    have := List.find?_eq_none.mp hf (kid, v, id) hm
    simp at this

theorem findValue_some {d : Dict} {kid : KeyId} {v : Bytes} {id : ValId}
    (h : d.findValue kid v = some id) : (kid, v, id) ∈ d.all := by
  unfold Dict.findValue at h
  rw [mem_dict_all]
  cases h1 : partFind d.mtb kid v with
  | some a =>
    simp [h1] at h; subst h
    exact Or.inl (partFind_some h1)
  | none =>
    simp [h1] at h
    cases h2 : partFind (optList d.imm) kid v with
    | some a =>
      simp [h2] at h; subst h
      exact Or.inr (Or.inl (partFind_some h2))
    | none =>
      simp [h2] at h
      exact Or.inr (Or.inr (partFind_some h))

theorem findValue_none {d : Dict} {kid : KeyId} {v : Bytes}
    (h : d.findValue kid v = none) : ∀ id, (kid, v, id) ∉ d.all := by
  unfold Dict.findValue at h
  intro id hm
  rw [mem_dict_all] at hm
  cases h1 : partFind d.mtb kid v with
  | some a => simp [h1] at h
  | none =>
    simp [h1] at h
    cases h2 : partFind (optList d.imm) kid v with
    | some a => simp [h2] at h
    | none =>
      simp [h2] at h
      rcases hm with hm | hm | hm
      · exact partFind_none h1 id hm
      · exact partFind_none h2 id hm
      · exact partFind_none h id hm

/-- the dictionary is a function (per bucket) -/
def DictFun (p : DictPart) : Prop :=
  ∀ kid v id id', (kid, v, id) ∈ p → (kid, v, id') ∈ p → id = id'

theorem findValue_iff {d : Dict} (hf : DictFun d.all) {kid : KeyId} {v : Bytes} {id : ValId} :
    d.findValue kid v = some id ↔ (kid, v, id) ∈ d.all := by
  constructor
  · exact findValue_some
  · intro hm
    cases h : d.findValue kid v with
    | none => exact absurd hm (findValue_none h id)
    | some id' => rw [hf kid v id' id (findValue_some h) hm]

theorem mem_findValueL {d : Dict} (hf : DictFun d.all) {kid : KeyId} {v : Bytes} {id : ValId} :
    id ∈ d.findValueL kid v ↔ (kid, v, id) ∈ d.all := by
  unfold Dict.findValueL
  rw [← findValue_iff hf]
  cases d.findValue kid v <;> simp [eq_comm]

/-- membership in a dictionary scan -/
theorem mem_scan {d : Dict} {kid : KeyId} {pre : Bytes} {check : Bytes → Bool} {id : ValId} :
    id ∈ d.scan kid pre check ↔
      ∃ v, check v = true ∧
        (((kid, v, id) ∈ d.files.flatten ∧ pre.isPrefixOf v = true) ∨ (kid, v, id) ∈ d.mtb ∨ (kid, v, id) ∈ optList d.imm) := by
  unfold Dict.scan
  simp only [List.mem_append, List.mem_map, List.mem_filter, Bool.and_eq_true, beq_iff_eq]
  constructor
  · rintro ((⟨e, ⟨he, ⟨⟨h1, h2⟩, h3⟩⟩, h4⟩ | ⟨e, ⟨he, ⟨h1, h3⟩⟩, h4⟩) | ⟨e, ⟨he, ⟨h1, h3⟩⟩, h4⟩)
    · obtain ⟨a, b, c⟩ := e
      simp at h1 h2 h3 h4; subst h1; subst h4
      exact ⟨b, h3, Or.inl ⟨he, by simpa using h2⟩⟩
    · obtain ⟨a, b, c⟩ := e
      simp at h1 h3 h4; subst h1; subst h4
      exact ⟨b, h3, Or.inr (Or.inl he)⟩
    · obtain ⟨a, b, c⟩ := e
      simp at h1 h3 h4; subst h1; subst h4
      exact ⟨b, h3, Or.inr (Or.inr he)⟩
  · rintro ⟨v, hc, (⟨hm, hp⟩ | hm | hm)⟩
    · exact Or.inl (Or.inl ⟨(kid, v, id), ⟨hm, ⟨⟨rfl, hp⟩, hc⟩⟩, rfl⟩)
    · exact Or.inl (Or.inr ⟨(kid, v, id), ⟨hm, ⟨rfl, hc⟩⟩, rfl⟩)
    · exact Or.inr ⟨(kid, v, id), ⟨hm, ⟨rfl, hc⟩⟩, rfl⟩

/-- a scan whose check implies the iterator prefix sees every part alike -/
theorem mem_scan_sound {d : Dict} {kid : KeyId} {pre : Bytes} {check : Bytes → Bool} {id : ValId}
    (hpre : ∀ v, check v = true → pre.isPrefixOf v = true) :
    id ∈ d.scan kid pre check ↔ ∃ v, check v = true ∧ (kid, v, id) ∈ d.all := by
  rw [mem_scan]
  constructor
  · rintro ⟨v, hc, h⟩
    refine ⟨v, hc, ?_⟩
    rw [mem_dict_all]
    rcases h with ⟨h, _⟩ | h | h
    · exact Or.inr (Or.inr h)
    · exact Or.inl h
    · exact Or.inr (Or.inl h)
  · rintro ⟨v, hc, h⟩
    refine ⟨v, hc, ?_⟩
    rw [mem_dict_all] at h
    rcases h with h | h | h
    · exact Or.inr (Or.inl h)
    · exact Or.inr (Or.inr h)
    · exact Or.inl ⟨h, hpre v hc⟩

theorem nil_isPrefixOf (v : Bytes) : ([] : Bytes).isPrefixOf v = true := by
  cases v <;> rfl

/-! ### inverted / forward reads -/

theorem mem_postings {d : Inv} {id : ValId} {s : SeriesId} :
    s ∈ d.postings id ↔ (id, s) ∈ d.all := by
  unfold Inv.postings
  rw [mem_inv_all]
  simp only [List.mem_append, List.mem_map, List.mem_filter, beq_iff_eq]
  constructor
  · rintro ((⟨e, ⟨he, h1⟩, h2⟩ | ⟨e, ⟨he, h1⟩, h2⟩) | ⟨e, ⟨he, h1⟩, h2⟩)
    · obtain ⟨a, b⟩ := e; simp at h1 h2; subst h1; subst h2; exact Or.inr (Or.inr he)
    · obtain ⟨a, b⟩ := e; simp at h1 h2; subst h1; subst h2; exact Or.inl he
    · obtain ⟨a, b⟩ := e; simp at h1 h2; subst h1; subst h2; exact Or.inr (Or.inl he)
  · rintro (h | h | h)
    · exact Or.inl (Or.inr ⟨(id, s), ⟨h, rfl⟩, rfl⟩)
    · exact Or.inr ⟨(id, s), ⟨h, rfl⟩, rfl⟩
    · exact Or.inl (Or.inl ⟨(id, s), ⟨h, rfl⟩, rfl⟩)

theorem mem_seriesOfIds {d : Inv} {ids : List ValId} {s : SeriesId} :
    s ∈ d.seriesOfIds ids ↔ ∃ id ∈ ids, (id, s) ∈ d.all := by
  unfold Inv.seriesOfIds
  simp [List.mem_flatMap, mem_postings]

theorem mem_partSeriesForTag {p : FwdPart} {kid : KeyId} {s : SeriesId} :
    s ∈ partSeriesForTag p kid ↔ ∃ id, (kid, s, id) ∈ p := by
  unfold partSeriesForTag
  simp only [List.mem_map, List.mem_filter, beq_iff_eq]
  constructor
  · rintro ⟨e, ⟨he, h1⟩, h2⟩
    obtain ⟨a, b, c⟩ := e
    simp at h1 h2; subst h1; subst h2
    exact ⟨c, he⟩
  · rintro ⟨id, h⟩
    exact ⟨(kid, s, id), ⟨h, rfl⟩, rfl⟩

theorem mem_fileEntries {f : FwdFile} {e : KeyId × SeriesId × ValId} :
    e ∈ fileEntries f ↔ ∃ kc ∈ f, kc.1 = e.1 ∧ ∃ c ∈ kc.2, (e.2.1, e.2.2) ∈ containerEntries c := by
  unfold fileEntries
  simp only [List.mem_flatMap, List.mem_map]
  constructor
  · rintro ⟨kc, hkc, c, hc, sv, hsv, rfl⟩
    exact ⟨kc, hkc, rfl, c, hc, hsv⟩
  · rintro ⟨kc, hkc, h1, c, hc, hsv⟩
    obtain ⟨a, b, c'⟩ := e
    simp at h1 hsv
    subst h1
    exact ⟨kc, hkc, c, hc, (b, c'), hsv, rfl⟩

theorem mem_fileSeriesForTag {f : FwdFile} {kid : KeyId} {s : SeriesId} :
    s ∈ fileSeriesForTag f kid ↔ ∃ id, (kid, s, id) ∈ fileEntries f := by
  unfold fileSeriesForTag
  simp only [List.mem_flatMap, List.mem_filter, List.mem_map, beq_iff_eq]
  constructor
  · rintro ⟨kc, ⟨hkc, hk⟩, c, hc, sv, hsv, rfl⟩
    refine ⟨sv.2, ?_⟩
    rw [mem_fileEntries]
    exact ⟨kc, hkc, hk, c, hc, hsv⟩
  · rintro ⟨id, h⟩
    rw [mem_fileEntries] at h
    obtain ⟨kc, hkc, hk, c, hc, hsv⟩ := h
    exact ⟨kc, ⟨hkc, hk⟩, c, hc, (s, id), hsv, rfl⟩

theorem mem_seriesForTag {d : Fwd} {kid : KeyId} {s : SeriesId} :
    s ∈ d.seriesForTag kid ↔ ∃ id, (kid, s, id) ∈ d.all := by
  unfold Fwd.seriesForTag
  simp only [List.mem_append, List.mem_flatMap, mem_partSeriesForTag, mem_fileSeriesForTag]
  constructor
  · rintro ((⟨id, h⟩ | ⟨id, h⟩) | ⟨f, hf, id, h⟩)
    · exact ⟨id, mem_fwd_all.mpr (Or.inl h)⟩
    · exact ⟨id, mem_fwd_all.mpr (Or.inr (Or.inl h))⟩
    · exact ⟨id, mem_fwd_all.mpr (Or.inr (Or.inr ⟨f, hf, h⟩))⟩
  · rintro ⟨id, h⟩
    rcases mem_fwd_all.mp h with h | h | ⟨f, hf, h⟩
    · exact Or.inl (Or.inl ⟨id, h⟩)
    · exact Or.inl (Or.inr ⟨id, h⟩)
    · exact Or.inr ⟨f, hf, id, h⟩

end LinVerif.TagFilter
