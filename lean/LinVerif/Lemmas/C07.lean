/-
Inductive invariant of the node-recovery model (sequence / acknowledgement part) and its
preservation by every event. Used by Props/C07.
-/
import LinVerif.Model.NodeRecovery

namespace LinVerif.NodeRecovery
set_option linter.unusedSimpArgs false
set_option linter.unusedVariables false

def frozenRows (st : St) : List Row :=
  match st.frozen with
  | some fz => fz.rows
  | none => []

/-- row `r` is somewhere in the node's storage (data files, frozen or mutable memory database) -/
def Stored (st : St) (r : Row) : Prop :=
  r ∈ fileRows st ∨ r ∈ frozenRows st ∨ r ∈ st.memMut

/-- some stored row carries log entry `s` -/
def Present (st : St) (s : Int) : Prop := ∃ r, Stored st r ∧ r.seq = s

def InFiles (st : St) (s : Int) : Prop := ∃ r, r ∈ fileRows st ∧ r.seq = s

/-- log entry `s` is a corrupt one: it carries no rows -/
def Bad (st : St) (s : Int) : Prop := 0 ≤ s ∧ st.log[s.toNat]? = some none

instance (st : St) (s : Int) : Decidable (Bad st s) := by unfold Bad; exact inferInstance

structure Inv (st : St) : Prop where
  ack_lo : -1 ≤ st.groupAck
  ack_cons : st.groupAck ≤ st.consumed
  cons_app : st.consumed ≤ st.appended
  gc_lo : 0 ≤ st.gcLow
  gc_ack : st.gcLow ≤ st.groupAck + 1
  ack_stored : ∀ s, 0 ≤ s → s ≤ st.groupAck → s ≤ ov st.stored ∨ Bad st s
  stored_files : ∀ s, 0 ≤ s → s ≤ ov st.stored → Bad st s ∨ InFiles st s
  stored_seq : st.phase ≠ .down → ov st.stored ≤ ov st.seq
  idle : st.phase = .running → st.inflight = none → ∀ s, ov st.seq < s → s ≤ st.consumed → Bad st s
  infl : ∀ fl, st.inflight = some fl →
    st.phase = .running ∧ fl.seq = st.consumed ∧ ov st.seq < fl.seq ∧
    (∀ s, ov st.seq < s → s < fl.seq → Bad st s) ∧
    st.log[fl.seq.toNat]? = some (some (fl.metric, fl.tagv)) ∧ 0 ≤ fl.seq
  covered : ∀ s, 0 ≤ s → s ≤ ov st.seq → Bad st s ∨ Present st s
  infl_written : ∀ fl, st.inflight = some fl → fl.written = true → Present st fl.seq
  fz_cov : ∀ fz, st.frozen = some fz → ∀ s, 0 ≤ s → s ≤ ov fz.captured →
    (Bad st s ∨ InFiles st s ∨ ∃ r ∈ fz.rows, r.seq = s)
  fz_capt : ∀ fz, st.frozen = some fz → ov fz.captured ≤ ov st.seq ∧ ov st.stored ≤ ov fz.captured
  fz_comm : ∀ fz, st.frozen = some fz → fz.committed = true →
    (∀ r ∈ fz.rows, r ∈ fileRows st) ∧ ov st.stored = ov fz.captured
  to_frozen : ∀ fl, st.inflight = some fl → fl.toFrozen = true → fl.written = false →
    ∃ fz, st.frozen = some fz ∧ fz.committed = false
  down_vol : st.phase = .down → st.seq = none ∧ st.memMut = [] ∧ st.frozen = none ∧ st.inflight = none
  opened_vol : st.phase = .opened → st.seq = st.stored ∧ st.memMut = [] ∧ st.frozen = none ∧ st.inflight = none
  rows_log : ∀ r, Stored st r → 0 ≤ r.seq ∧ st.log[r.seq.toNat]? = some (some (r.metric, r.tagv))
  flags : ∀ fl, st.inflight = some fl →
    fl.closed = false ∧ (fl.toFrozen = true → fl.acquired = true) ∧ (fl.acquired = true → fl.taken = true) ∧
    (fl.written = true → fl.acquired = true)
  wal_gone : st.walGone = true → st.appended ≤ st.groupAck ∧ st.inflight = none
  stored_lo : -1 ≤ ov st.stored

/-- closes `phase = down → …` / `phase = opened → …` goals of a state whose phase is `running` -/
macro "not_running" hr:ident : tactic =>
  `(tactic| (intro hd; exact absurd (($hr).symm.trans hd) (by decide)))

theorem inv_init : Inv St.init := by
  constructor <;> simp [St.init, ov, St.appended, InFiles, Present, Stored, fileRows, frozenRows, Bad] <;> omega



theorem getElem?_append_some {α : Type} (l : List α) (x : α) (i : Nat) (v : α)
    (h : l[i]? = some v) : (l ++ [x])[i]? = some v := by
  have : i < l.length := by
    rcases Nat.lt_or_ge i l.length with h' | h'
    · exact h'
    · simp [List.getElem?_eq_none h'] at h
  simp [List.getElem?_append_left this, h]

/-- appending keeps corrupt entries corrupt -/
theorem bad_append {st : St} (x : Option (Nat × Nat)) {s : Int} (h : Bad st s) :
    Bad { st with log := st.log ++ [x] } s :=
  ⟨h.1, getElem?_append_some _ _ _ _ h.2⟩

/-- state changes that keep the log keep corrupt entries -/
theorem bad_same {st st' : St} (hl : st'.log = st.log) {s : Int} : Bad st' s ↔ Bad st s := by
  unfold Bad; rw [hl]

theorem inv_appendX {st : St} (x : Option (Nat × Nat)) (hwg : st.walGone = false) (h : Inv st) :
    Inv { st with log := st.log ++ [x] } := by
  obtain ⟨h1, h2, h3, h4, h5, h6, h7, h8, h9, h10, h11, h12, h13, h14, h15, h16, h17, h18, h19, h20, h21, h22⟩ := h
  constructor
  case cons_app => simp [St.appended] at h3 ⊢; omega
  case ack_stored =>
    intro s hs hs'
    rcases h6 s hs hs' with hh | hh
    · exact Or.inl hh
    · exact Or.inr (bad_append x hh)
  case stored_files =>
    intro s hs hs'
    rcases h7 s hs hs' with hh | hh
    · exact Or.inl (bad_append x hh)
    · exact Or.inr hh
  case idle => intro a b s hs hs'; exact bad_append x (h9 a b s hs hs')
  case infl =>
    intro fl hfl
    obtain ⟨a, b, c, d, e, f⟩ := h10 fl hfl
    exact ⟨a, b, c, fun s hs hs' => bad_append x (d s hs hs'), getElem?_append_some _ _ _ _ e, f⟩
  case covered =>
    intro s hs hs'
    rcases h11 s hs hs' with hh | hh
    · exact Or.inl (bad_append x hh)
    · exact Or.inr hh
  case fz_cov =>
    intro fz hfz s hs hs'
    rcases h13 fz hfz s hs hs' with hh | hh
    · exact Or.inl (bad_append x hh)
    · exact Or.inr hh
  case rows_log =>
    intro r hr
    obtain ⟨a, b⟩ := h19 r hr
    exact ⟨a, getElem?_append_some _ _ _ _ b⟩
  case wal_gone => intro hh; simp only [] at hh; rw [hwg] at hh; cases hh
  all_goals assumption

theorem inv_append {st : St} (m t : Nat) (hwg : st.walGone = false) (h : Inv st) : Inv (doAppend st m t) :=
  inv_appendX (some (m, t)) hwg h

theorem inv_appendBad {st : St} (hwg : st.walGone = false) (h : Inv st) : Inv (doAppendBad st) :=
  inv_appendX none hwg h

theorem validSeq_iff (st : St) (s : Int) (hs : 0 ≤ s) : validSeq st s = true ↔ ov st.seq < s := by
  unfold validSeq ov
  cases st.seq <;> simp <;> omega

/-- moving the acknowledged position to `x`: every entry up to `x` is durably stored or corrupt -/
theorem inv_ackTo {st : St} (x : Int) (h : Inv st)
    (hx : ∀ s, 0 ≤ s → s ≤ x → s ≤ ov st.stored ∨ Bad st s) : Inv (ackTo st x) := by
  unfold ackTo
  split
  case isFalse => exact h
  case isTrue hg =>
    obtain ⟨h1, h2, h3, h4, h5, h6, h7, h8, h9, h10, h11, h12, h13, h14, h15, h16, h17, h18, h19, h20, h21, h22⟩ := h
    constructor
    case ack_stored => exact hx
    case wal_gone => intro hh; have := h21 hh; simp only [St.appended] at *; exact ⟨by omega, this.2⟩
    all_goals first | assumption | (simp only []; omega)

theorem ackTo_eq (st : St) (x : Int) : ackTo st x = { st with groupAck := (ackTo st x).groupAck } := by
  unfold ackTo; split <;> rfl

/-- `IgnoreMessage` (exact shape) of a corrupt entry -/
theorem inv_ignore (cfg : Cfg) (hc : cfg.ignoreExact = true) {st : St} (s : Int) (h : Inv st) (hb : Bad st s) :
    Inv (ignoreMsg cfg st s) := by
  unfold ignoreMsg
  rw [hc]
  simp only [if_true]
  split
  case isFalse => exact h
  case isTrue hnext =>
    apply inv_ackTo s h
    intro t ht ht'
    by_cases hts : t = s
    · subst hts; exact Or.inr hb
    · exact h.ack_stored t ht (by omega)

theorem ignoreMsg_eq (cfg : Cfg) (st : St) (s : Int) :
    ignoreMsg cfg st s = { st with groupAck := (ignoreMsg cfg st s).groupAck } := by
  unfold ignoreMsg
  by_cases hcnd : (if cfg.ignoreExact = true then st.groupAck + 1 = s else st.groupAck < s)
  · rw [if_pos hcnd]; exact ackTo_eq st s
  · rw [if_neg hcnd]

/-- `IgnoreMessage` reads and writes only the consumer group: it commutes with the family's commit -/
theorem ignoreMsg_seq (cfg : Cfg) (st : St) (s : Int) (q : Option Int) :
    { ignoreMsg cfg st s with seq := q } = ignoreMsg cfg { st with seq := q } s := by
  unfold ignoreMsg
  by_cases hcnd : (if cfg.ignoreExact = true then st.groupAck + 1 = s else st.groupAck < s)
  · rw [if_pos hcnd, if_pos hcnd]
    unfold ackTo
    by_cases hg : st.groupAck ≤ s ∧ s ≤ st.consumed
    · rw [if_pos hg, if_pos hg]
    · rw [if_neg hg, if_neg hg]
  · rw [if_neg hcnd, if_neg hcnd]

/-- the head moved to `s` and the family sequence was committed to the corrupt entry `s` -/
theorem inv_badCommit {st : St} (hr : st.phase = .running) (hn : st.inflight = none)
    (hle : st.consumed + 1 ≤ st.appended) (hb : Bad st (st.consumed + 1))
    (hv : ov st.seq < st.consumed + 1) (h : Inv st) :
    Inv { st with consumed := st.consumed + 1, seq := some (st.consumed + 1) } := by
  obtain ⟨h1, h2, h3, h4, h5, h6, h7, h8, h9, h10, h11, h12, h13, h14, h15, h16, h17, h18, h19, h20, h21, h22⟩ := h
  have hidle := h9 hr hn
  have h8' := h8 (by rw [hr]; decide)
  constructor
  case ack_cons => simp only []; omega
  case cons_app => simp [St.appended] at hle ⊢; omega
  case stored_seq =>
    intro _
    show ov st.stored ≤ ov (some (st.consumed + 1))
    have : ov (some (st.consumed + 1)) = st.consumed + 1 := rfl
    omega
  case idle =>
    intro _ _ s hs hs'
    have : ov (some (st.consumed + 1)) = st.consumed + 1 := rfl
    simp only [] at hs hs'
    omega
  case infl => intro fl hfl; simp only [] at hfl; rw [hn] at hfl; cases hfl
  case covered =>
    intro s hs hs'
    have : ov (some (st.consumed + 1)) = st.consumed + 1 := rfl
    simp only [] at hs'
    by_cases hlt : s ≤ ov st.seq
    · exact h11 s hs hlt
    · by_cases he : s = st.consumed + 1
      · subst he; exact Or.inl hb
      · exact Or.inl (hidle s (by omega) (by omega))
  case fz_capt =>
    intro fz hfz
    obtain ⟨a, b⟩ := h14 fz hfz
    have : ov (some (st.consumed + 1)) = st.consumed + 1 := rfl
    exact ⟨by simp only []; omega, b⟩
  case wal_gone => intro hh; have := (h21 hh).1; simp only [St.appended] at *; omega
  case down_vol => not_running hr
  case opened_vol => not_running hr
  all_goals assumption

/-- the head moved onto the unreadable entry `consumed + 1`, nothing else changed (`partition.replica`
when `GetMessage` fails: no `Replica`, hence no `CommitSequence`) -/
theorem inv_headBad {st : St} (hr : st.phase = .running) (hn : st.inflight = none)
    (hwg : st.walGone = false)
    (hle : st.consumed + 1 ≤ st.appended) (hb : Bad st (st.consumed + 1)) (h : Inv st) :
    Inv { st with consumed := st.consumed + 1 } := by
  obtain ⟨h1, h2, h3, h4, h5, h6, h7, h8, h9, h10, h11, h12, h13, h14, h15, h16, h17, h18, h19, h20, h21, h22⟩ := h
  have hidle := h9 hr hn
  constructor
  case ack_cons => simp only []; omega
  case cons_app => simp [St.appended] at hle ⊢; omega
  case idle =>
    intro _ _ s hs hs'
    have hs2 : ov st.seq < s := hs
    have hs3 : s ≤ st.consumed + 1 := hs'
    by_cases he : s = st.consumed + 1
    · subst he; exact hb
    · exact hidle s hs2 (by omega)
  case infl => intro fl hfl; simp only [] at hfl; rw [hn] at hfl; cases hfl
  case wal_gone => intro hh; have hh' : st.walGone = true := hh; rw [hwg] at hh'; cases hh'
  all_goals assumption

theorem inv_applyGetFail (cfg : Cfg) (hc : cfg.ignoreExact = true) {st : St} (hr : st.phase = .running)
    (hwg : st.walGone = false) (h : Inv st) : Inv (doApplyGetFail cfg st) := by
  unfold doApplyGetFail
  split
  case isFalse => exact h
  case isTrue hg =>
    obtain ⟨hnone, hle, hlog⟩ := hg
    have hnone' : st.inflight = none := by simpa using hnone
    have hs0 : 0 ≤ st.consumed + 1 := by have := h.ack_lo; have := h.ack_cons; omega
    have hb : Bad st (st.consumed + 1) := ⟨hs0, hlog⟩
    exact inv_ignore cfg hc _ (inv_headBad hr hnone' hwg hle hb h) ⟨hs0, hlog⟩

theorem inv_applyNoRows {st : St} (hr : st.phase = .running)
    (hwg : st.walGone = false) (h : Inv st) : Inv (doApplyNoRows st) := by
  unfold doApplyNoRows
  split
  case isFalse => exact h
  case isTrue hg =>
    obtain ⟨hnone, hle, hlog⟩ := hg
    have hnone' : st.inflight = none := by simpa using hnone
    have hs0 : 0 ≤ st.consumed + 1 := by have := h.ack_lo; have := h.ack_cons; omega
    have hb : Bad st (st.consumed + 1) := ⟨hs0, hlog⟩
    split
    case isTrue hv =>
      exact inv_badCommit hr hnone' hle hb ((validSeq_iff st _ hs0).mp hv) h
    case isFalse hv => exact inv_headBad hr hnone' hwg hle hb h

theorem inv_applyBegin (cfg : Cfg) (hc : cfg.ignoreExact = true) {st : St} (hr : st.phase = .running)
    (hwg : st.walGone = false) (h : Inv st) : Inv (doApplyBegin cfg st) := by
  unfold doApplyBegin
  split
  case isFalse => exact h
  case isTrue hg =>
    obtain ⟨hnone, hle⟩ := hg
    have hnone' : st.inflight = none := by simpa using hnone
    have hs0 : 0 ≤ st.consumed + 1 := by have := h.ack_lo; have := h.ack_cons; omega
    have hidle := h.idle hr hnone'
    unfold beginAt
    split
    case isTrue hgc =>
      exfalso
      have := h.gc_ack; have := h.ack_cons
      simp at hgc; omega
    case isFalse hgc =>
      -- the state with only the head moved
      have hmoved : ¬ ov st.seq < st.consumed + 1 → Inv { st with consumed := st.consumed + 1 } := by
        intro hv'
        obtain ⟨h1, h2, h3, h4, h5, h6, h7, h8, h9, h10, h11, h12, h13, h14, h15, h16, h17, h18, h19, h20, h21, h22⟩ := h
        constructor
        case ack_cons => simp only []; omega
        case cons_app => simp [St.appended] at hle ⊢; omega
        case idle =>
          intro _ _ s hs hs'
          have hs2 : ov st.seq < s := hs
          have hs3 : s ≤ st.consumed + 1 := hs'
          omega
        case infl => intro fl hfl; simp only [] at hfl; rw [hnone'] at hfl; simp at hfl
        case wal_gone => intro hh; have hh' : st.walGone = true := hh; rw [hwg] at hh'; cases hh'
        all_goals assumption
      split
      case h_1 hl =>
        exfalso
        simp [St.appended] at hle
        simp at hl
        omega
      case h_2 m t hl =>
        simp only [] at hl
        split
        case isTrue hv =>
          have hv' : ov st.seq < st.consumed + 1 := (validSeq_iff _ _ hs0).1 hv
          obtain ⟨h1, h2, h3, h4, h5, h6, h7, h8, h9, h10, h11, h12, h13, h14, h15, h16, h17, h18, h19, h20, h21, h22⟩ := h
          constructor
          case ack_cons => simp only []; omega
          case cons_app => simp [St.appended] at hle ⊢; omega
          case idle => intro _ hh; simp at hh
          case infl =>
            intro fl hfl
            simp at hfl; subst hfl
            refine ⟨hr, rfl, hv', ?_, hl, hs0⟩
            intro s hs hs'
            simp only [InFlight.fresh] at hs'
            exact hidle s hs (by omega)
          case infl_written => intro fl hfl hw; simp at hfl; subst hfl; simp [InFlight.fresh] at hw
          case to_frozen => intro fl hfl ht; simp at hfl; subst hfl; simp [InFlight.fresh] at ht
          case flags => intro fl hfl; simp at hfl; subst hfl; simp [InFlight.fresh]
          case wal_gone => intro hh; have hh' : st.walGone = true := hh; rw [hwg] at hh'; cases hh'
          case down_vol => not_running hr
          case opened_vol => not_running hr
          all_goals assumption
        case isFalse hv =>
          exact hmoved (fun hh => hv ((validSeq_iff _ _ hs0).2 hh))
      case h_3 hl =>
        simp only [] at hl
        split
        case isTrue hv =>
          have hv' : ov st.seq < st.consumed + 1 := (validSeq_iff _ _ hs0).1 hv
          have hb : Bad st (st.consumed + 1) := ⟨hs0, hl⟩
          have hA := inv_badCommit hr hnone' hle hb hv' h
          have hB := inv_ignore cfg hc (st.consumed + 1) hA ⟨hs0, hl⟩
          rw [ignoreMsg_seq]
          exact hB
        case isFalse hv =>
          exact hmoved (fun hh => hv ((validSeq_iff _ _ hs0).2 hh))


@[simp] theorem addNames_log (st : St) (m t : Nat) : (addNames st m t).log = st.log := by unfold addNames; split <;> rfl
@[simp] theorem addNames_gcLow (st : St) (m t : Nat) : (addNames st m t).gcLow = st.gcLow := by unfold addNames; split <;> rfl
@[simp] theorem addNames_consumed (st : St) (m t : Nat) : (addNames st m t).consumed = st.consumed := by unfold addNames; split <;> rfl
@[simp] theorem addNames_groupAck (st : St) (m t : Nat) : (addNames st m t).groupAck = st.groupAck := by unfold addNames; split <;> rfl
@[simp] theorem addNames_walGone (st : St) (m t : Nat) : (addNames st m t).walGone = st.walGone := by unfold addNames; split <;> rfl
@[simp] theorem addNames_files (st : St) (m t : Nat) : (addNames st m t).files = st.files := by unfold addNames; split <;> rfl
@[simp] theorem addNames_stored (st : St) (m t : Nat) : (addNames st m t).stored = st.stored := by unfold addNames; split <;> rfl
@[simp] theorem addNames_phase (st : St) (m t : Nat) : (addNames st m t).phase = st.phase := by unfold addNames; split <;> rfl
@[simp] theorem addNames_seq (st : St) (m t : Nat) : (addNames st m t).seq = st.seq := by unfold addNames; split <;> rfl
@[simp] theorem addNames_memMut (st : St) (m t : Nat) : (addNames st m t).memMut = st.memMut := by unfold addNames; split <;> rfl
@[simp] theorem addNames_frozen (st : St) (m t : Nat) : (addNames st m t).frozen = st.frozen := by unfold addNames; split <;> rfl
@[simp] theorem addNames_inflight (st : St) (m t : Nat) : (addNames st m t).inflight = st.inflight := by unfold addNames; split <;> rfl

/-- the invariant does not mention the dictionaries -/
theorem inv_foreign {st : St} (k : Nat) (h : Inv st) : Inv { st with foreignMem := k } := by
  obtain ⟨h1, h2, h3, h4, h5, h6, h7, h8, h9, h10, h11, h12, h13, h14, h15, h16, h17, h18, h19, h20, h21, h22⟩ := h
  constructor <;> assumption

theorem inv_dicts {st : St} (d1 : Dict Nat) (d2 d3 : Dict (Nat × Nat)) (h : Inv st) :
    Inv { st with metric := d1, tagv := d2, index := d3 } := by
  obtain ⟨h1, h2, h3, h4, h5, h6, h7, h8, h9, h10, h11, h12, h13, h14, h15, h16, h17, h18, h19, h20, h21, h22⟩ := h
  constructor <;> assumption

theorem addNames_eq (st : St) (m t : Nat) :
    addNames st m t = { st with metric := (addNames st m t).metric, tagv := (addNames st m t).tagv,
                                index := (addNames st m t).index } := by
  unfold addNames; split <;> rfl

theorem inv_addNames {st : St} (m t : Nat) (h : Inv st) : Inv (addNames st m t) := by
  rw [addNames_eq]; exact inv_dicts _ _ _ h

theorem stored_mono {st st' : St} (hf : fileRows st' = fileRows st)
    (hz : ∀ r, r ∈ frozenRows st → r ∈ frozenRows st') (hm : ∀ r, r ∈ st.memMut → r ∈ st'.memMut)
    {r : Row} (h : Stored st r) : Stored st' r := by
  rcases h with h | h | h
  · exact Or.inl (hf ▸ h)
  · exact Or.inr (Or.inl (hz r h))
  · exact Or.inr (Or.inr (hm r h))


/-- changing only the progress flags of the in-flight write (same entry) -/
theorem inv_flags {st : St} (hr : st.phase = .running) (h : Inv st) (fl fl' : InFlight)
    (hfl : st.inflight = some fl)
    (e1 : fl'.seq = fl.seq) (e2 : fl'.metric = fl.metric) (e3 : fl'.tagv = fl.tagv)
    (e4 : fl'.written = fl.written) (e5 : fl'.toFrozen = fl.toFrozen)
    (hflags : fl'.closed = false ∧ (fl'.toFrozen = true → fl'.acquired = true) ∧
      (fl'.acquired = true → fl'.taken = true) ∧ (fl'.written = true → fl'.acquired = true)) :
    Inv { st with inflight := some fl' } := by
  obtain ⟨h1, h2, h3, h4, h5, h6, h7, h8, h9, h10, h11, h12, h13, h14, h15, h16, h17, h18, h19, h20, h21, h22⟩ := h
  constructor
  case idle => intro _ hh; simp at hh
  case infl =>
    intro f hf; simp at hf; subst hf
    rw [e1, e2, e3]; exact h10 fl hfl
  case infl_written =>
    intro f hf hw; simp at hf; subst hf
    rw [e1]; exact h12 fl hfl (by rw [← e4]; exact hw)
  case to_frozen =>
    intro f hf ht hw; simp at hf; subst hf
    exact h16 fl hfl (by rw [← e5]; exact ht) (by rw [← e4]; exact hw)
  case flags => intro f hf; simp at hf; subst hf; exact hflags
  case wal_gone => intro hh; have := (h21 hh).2; rw [hfl] at this; cases this
  case down_vol => not_running hr
  case opened_vol => not_running hr
  all_goals assumption

theorem inv_applyTake (cfg : Cfg) {st : St} (hr : st.phase = .running) (h : Inv st) :
    Inv (doApplyTake cfg st) := by
  unfold doApplyTake
  split
  case h_2 => exact h
  case h_1 fl hfl =>
    split
    case isTrue => exact h
    case isFalse ht =>
      obtain ⟨f1, f2, f3, f4⟩ := h.flags fl hfl
      have hnt : fl.taken = false := by simpa using ht
      have hna : fl.acquired = false := by
        cases ha : fl.acquired with
        | false => rfl
        | true => rw [f3 ha] at hnt; cases hnt
      have hntf : fl.toFrozen = false := by
        cases hb : fl.toFrozen with
        | false => rfl
        | true => rw [f2 hb] at hna; cases hna
      have hnw : fl.written = false := by
        cases hb : fl.written with
        | false => rfl
        | true => rw [f4 hb] at hna; cases hna
      refine inv_flags hr h fl _ hfl rfl rfl rfl rfl rfl ⟨f1, ?_, fun _ => rfl, ?_⟩
      · intro hh; simp only [] at hh; rw [hntf] at hh; cases hh
      · intro hh; simp only [] at hh; rw [hnw] at hh; cases hh

theorem inv_applyAcquire {st : St} (hr : st.phase = .running) (h : Inv st) : Inv (doApplyAcquire st) := by
  unfold doApplyAcquire
  split
  case h_2 => exact h
  case h_1 fl hfl =>
    split
    case isFalse => exact h
    case isTrue hg =>
      obtain ⟨f1, f2, f3, f4⟩ := h.flags fl hfl
      simp at hg
      exact inv_flags hr h fl _ hfl rfl rfl rfl rfl rfl ⟨f1, fun _ => rfl, fun _ => hg.1, fun _ => rfl⟩

theorem inv_applyWrite {st : St} (hr : st.phase = .running) (h : Inv st) : Inv (doApplyWrite st) := by
  unfold doApplyWrite
  split
  case h_2 => exact h
  case h_1 fl hfl =>
    split
    case isTrue => exact h
    case isFalse hw =>
      simp at hw
      obtain ⟨hw', hacq⟩ := hw
      obtain ⟨hrun, hcons, hseq, hbads, hlog, h0⟩ := h.infl fl hfl
      obtain ⟨f1, f2, f3, f4⟩ := h.flags fl hfl
      apply inv_addNames
      unfold putRow
      rw [f1]
      simp only [Bool.false_eq_true, if_false]
      split
      case isTrue htf =>
        obtain ⟨fz, hfz, hnc⟩ := h.to_frozen fl hfl htf hw'
        simp only [hfz]
        have hmono : ∀ r, Stored st r → Stored
            { st with
              frozen := some { fz with rows := ⟨fl.seq, fl.metric, fl.tagv⟩ :: fz.rows },
              inflight := some { fl with written := true } } r := by
          intro r hr'
          refine stored_mono (st := st) ?_ ?_ ?_ hr'
          · rfl
          · intro r hr''; simp [frozenRows, hfz] at hr'' ⊢; exact Or.inr hr''
          · exact fun _ hh => hh
        obtain ⟨h1, h2, h3, h4, h5, h6, h7, h8, h9, h10, h11, h12, h13, h14, h15, h16, h17, h18, h19, h20, h21, h22⟩ := h
        constructor
        case idle => intro _ hh; simp at hh
        case infl =>
          intro fl' hfl'; simp at hfl'; subst hfl'
          exact h10 fl hfl
        case covered =>
          intro s hs hs'
          rcases h11 s hs hs' with hb | ⟨r, hr1, hr2⟩
          · exact Or.inl hb
          · exact Or.inr ⟨r, hmono r hr1, hr2⟩
        case infl_written =>
          intro fl' hfl' _; simp at hfl'; subst hfl'
          exact ⟨⟨fl.seq, fl.metric, fl.tagv⟩, Or.inr (Or.inl (by simp [frozenRows])), rfl⟩
        case fz_cov =>
          intro fz' hfz'' s hs hs'; simp at hfz''; subst hfz''
          rcases h13 fz hfz s hs hs' with hb | hh | ⟨r, hr1, hr2⟩
          · exact Or.inl hb
          · exact Or.inr (Or.inl hh)
          · exact Or.inr (Or.inr ⟨r, by simp [hr1], hr2⟩)
        case fz_capt =>
          intro fz' hfz''; simp at hfz''; subst hfz''
          exact h14 fz hfz
        case fz_comm =>
          intro fz' hfz'' hc; simp at hfz''; subst hfz''; simp [hnc] at hc
        case to_frozen => intro fl' hfl' _ hw''; simp at hfl'; subst hfl'; simp at hw''
        case flags =>
          intro fl' hfl'; simp at hfl'; subst hfl'
          exact ⟨rfl, f2, f3, fun _ => hacq⟩
        case wal_gone => intro hh; have := (h21 hh).2; rw [hfl] at this; cases this
        case down_vol => not_running hr
        case opened_vol => not_running hr
        case rows_log =>
          intro r hr'
          rcases hr' with hr' | hr' | hr'
          · exact h19 r (Or.inl hr')
          · simp [frozenRows] at hr'
            rcases hr' with hr' | hr'
            · subst hr'; exact ⟨h0, hlog⟩
            · exact h19 r (Or.inr (Or.inl (by simp [frozenRows, hfz, hr'])))
          · exact h19 r (Or.inr (Or.inr hr'))
        all_goals assumption
      case isFalse htf =>
        have hmono : ∀ r, Stored st r → Stored
            { st with
              memMut := ⟨fl.seq, fl.metric, fl.tagv⟩ :: st.memMut,
              inflight := some { fl with written := true } } r := by
          intro r hr'
          refine stored_mono (st := st) ?_ ?_ ?_ hr'
          · rfl
          · exact fun _ hh => hh
          · intro r hr''; simp; exact Or.inr hr''
        obtain ⟨h1, h2, h3, h4, h5, h6, h7, h8, h9, h10, h11, h12, h13, h14, h15, h16, h17, h18, h19, h20, h21, h22⟩ := h
        constructor
        case idle => intro _ hh; simp at hh
        case infl =>
          intro fl' hfl'; simp at hfl'; subst hfl'
          exact h10 fl hfl
        case covered =>
          intro s hs hs'
          rcases h11 s hs hs' with hb | ⟨r, hr1, hr2⟩
          · exact Or.inl hb
          · exact Or.inr ⟨r, hmono r hr1, hr2⟩
        case infl_written =>
          intro fl' hfl' _; simp at hfl'; subst hfl'
          exact ⟨⟨fl.seq, fl.metric, fl.tagv⟩, Or.inr (Or.inr (by simp)), rfl⟩
        case to_frozen => intro fl' hfl' _ hw''; simp at hfl'; subst hfl'; simp at hw''
        case flags =>
          intro fl' hfl'; simp at hfl'; subst hfl'
          exact ⟨rfl, f2, f3, fun _ => hacq⟩
        case wal_gone => intro hh; have := (h21 hh).2; rw [hfl] at this; cases this
        case down_vol => not_running hr
        case opened_vol => not_running hr
        case rows_log =>
          intro r hr'
          rcases hr' with hr' | hr' | hr'
          · exact h19 r (Or.inl hr')
          · exact h19 r (Or.inr (Or.inl hr'))
          · simp at hr'
            rcases hr' with hr' | hr'
            · subst hr'; exact ⟨h0, hlog⟩
            · exact h19 r (Or.inr (Or.inr hr'))
        all_goals assumption

theorem inv_applyCommit {st : St} (hr : st.phase = .running) (h : Inv st) : Inv (doApplyCommit st) := by
  unfold doApplyCommit
  split
  case h_2 => exact h
  case h_1 fl hfl =>
    split
    case isFalse => exact h
    case isTrue hw =>
      obtain ⟨hrun, hcons, hseq, hbads, hlog, h0⟩ := h.infl fl hfl
      have hpres := h.infl_written fl hfl hw
      obtain ⟨h1, h2, h3, h4, h5, h6, h7, h8, h9, h10, h11, h12, h13, h14, h15, h16, h17, h18, h19, h20, h21, h22⟩ := h
      have h8' := h8 (by rw [hr]; decide)
      have hov : ov (some fl.seq) = fl.seq := rfl
      constructor
      case stored_seq => intro _; simp only []; omega
      case idle =>
        intro _ _ s hs hs'
        have hs2 : fl.seq < s := by simp only [] at hs; omega
        have hs3 : s ≤ st.consumed := hs'
        omega
      case infl => intro fl' hfl'; simp at hfl'
      case covered =>
        intro s hs hs'
        have hs2 : s ≤ fl.seq := by simp only [] at hs'; omega
        by_cases hlt : s ≤ ov st.seq
        · exact h11 s hs hlt
        · by_cases he : s = fl.seq
          · subst he; exact Or.inr hpres
          · exact Or.inl (hbads s (by omega) (by omega))
      case infl_written => intro fl' hfl'; simp at hfl'
      case fz_capt =>
        intro fz hfz
        obtain ⟨a, b⟩ := h14 fz hfz
        refine ⟨?_, b⟩
        simp only []; omega
      case to_frozen => intro fl' hfl'; simp at hfl'
      case flags => intro fl' hfl'; simp at hfl'
      case wal_gone => intro hh; have := (h21 hh).2; rw [hfl] at this; cases this
      case down_vol => not_running hr
      case opened_vol => not_running hr
      all_goals assumption


theorem freezeMark_same (fl : InFlight) :
    (freezeMark fl).seq = fl.seq ∧ (freezeMark fl).metric = fl.metric ∧ (freezeMark fl).tagv = fl.tagv ∧
    (freezeMark fl).written = fl.written ∧ (freezeMark fl).closed = fl.closed ∧
    (freezeMark fl).acquired = fl.acquired ∧ (freezeMark fl).taken = fl.taken := by
  unfold freezeMark; split <;> simp

/-- `gap`: no freeze while the in-flight write has taken its memdb but not registered as a writer -/
theorem inv_freeze {st : St} (hr : st.phase = .running)
    (hgap : ∀ fl, st.inflight = some fl → fl.taken = true → fl.acquired = true)
    (h : Inv st) : Inv (doFreeze st) := by
  unfold doFreeze
  split
  case h_2 => exact h
  case h_1 hfz =>
   split
   case isTrue => exact h
   case isFalse =>
    have hfr : frozenRows st = [] := by simp [frozenRows, hfz]
    have hto : ∀ r, Stored st r → Stored
        { st with frozen := some ⟨st.memMut, st.seq, false⟩, memMut := [], foreignMem := 0,
                  inflight := st.inflight.map freezeMark } r := by
      intro r hr'
      rcases hr' with hr' | hr' | hr'
      · exact Or.inl hr'
      · rw [hfr] at hr'; cases hr'
      · exact Or.inr (Or.inl (by simpa [frozenRows] using hr'))
    have hfrom : ∀ r, Stored
        { st with frozen := some ⟨st.memMut, st.seq, false⟩, memMut := [], foreignMem := 0,
                  inflight := st.inflight.map freezeMark } r →
        Stored st r := by
      intro r hr'
      rcases hr' with hr' | hr' | hr'
      · exact Or.inl hr'
      · exact Or.inr (Or.inr (by simpa [frozenRows] using hr'))
      · simp at hr'
    obtain ⟨h1, h2, h3, h4, h5, h6, h7, h8, h9, h10, h11, h12, h13, h14, h15, h16, h17, h18, h19, h20, h21, h22⟩ := h
    have h8' := h8 (by rw [hr]; decide)
    constructor
    case idle =>
      intro _ hh
      simp at hh
      exact h9 hr hh
    case infl =>
      intro fl' hfl'
      simp at hfl'
      obtain ⟨fl, hfl, rfl⟩ := hfl'
      obtain ⟨e1, e2, e3, _⟩ := freezeMark_same fl
      rw [e1, e2, e3]; exact h10 fl hfl
    case covered =>
      intro s hs hs'
      rcases h11 s hs hs' with hb | ⟨r, hr1, hr2⟩
      · exact Or.inl hb
      · exact Or.inr ⟨r, hto r hr1, hr2⟩
    case infl_written =>
      intro fl' hfl' hw
      simp at hfl'
      obtain ⟨fl, hfl, rfl⟩ := hfl'
      obtain ⟨e1, _, _, e4, _⟩ := freezeMark_same fl
      rw [e4] at hw; rw [e1]
      obtain ⟨r, hr1, hr2⟩ := h12 fl hfl hw
      exact ⟨r, hto r hr1, hr2⟩
    case fz_cov =>
      intro fz hfz' s hs hs'
      simp at hfz'; subst hfz'
      rcases h11 s hs hs' with hb | ⟨r, hr1, hr2⟩
      · exact Or.inl hb
      · rcases hr1 with hr1 | hr1 | hr1
        · exact Or.inr (Or.inl ⟨r, hr1, hr2⟩)
        · rw [hfr] at hr1; cases hr1
        · exact Or.inr (Or.inr ⟨r, hr1, hr2⟩)
    case fz_capt =>
      intro fz hfz'
      simp at hfz'; subst hfz'
      exact ⟨Int.le_refl _, h8'⟩
    case fz_comm => intro fz hfz' hc; simp at hfz'; subst hfz'; simp at hc
    case to_frozen => intro fl' hfl' _ _; exact ⟨_, rfl, rfl⟩
    case flags =>
      intro fl' hfl'
      simp at hfl'
      obtain ⟨fl, hfl, rfl⟩ := hfl'
      obtain ⟨f1, f2, f3, f4⟩ := h20 fl hfl
      obtain ⟨_, _, _, e4, e5, e6, e7⟩ := freezeMark_same fl
      refine ⟨by rw [e5]; exact f1, ?_, by rw [e6, e7]; exact f3, by rw [e4, e6]; exact f4⟩
      intro htf
      rw [e6]
      unfold freezeMark at htf
      split at htf
      case isTrue hc =>
        simp at hc
        exact hgap fl hfl hc.1.1
      case isFalse => exact f2 htf
    case wal_gone =>
      intro hh
      obtain ⟨a, b⟩ := h21 hh
      exact ⟨a, by simp [b]⟩
    case down_vol => not_running hr
    case opened_vol => not_running hr
    case rows_log => intro r hr'; exact h19 r (hfrom r hr')
    all_goals assumption

theorem inv_dataCommit {st : St} (hr : st.phase = .running) (h : Inv st) : Inv (doDataCommit st) := by
  unfold doDataCommit
  split
  case h_2 => exact h
  case h_1 fz hfz =>
    split
    case isTrue => exact h
    case isFalse hg =>
      simp at hg
      obtain ⟨hnc, hnw⟩ := hg
      have hfr : frozenRows st = fz.rows := by simp [frozenRows, hfz]
      obtain ⟨h1, h2, h3, h4, h5, h6, h7, h8, h9, h10, h11, h12, h13, h14, h15, h16, h17, h18, h19, h20, h21, h22⟩ := h
      obtain ⟨hc1, hc2⟩ := h14 fz hfz
      -- the new stored value equals the captured one
      have hst : ov (newStored fz.captured st.stored) = ov fz.captured := by
        unfold newStored
        cases hcap : fz.captured with
        | some x => rfl
        | none => simp only [hcap, ov, Option.getD_none] at hc2 h22 ⊢; omega
      have hfiles : ∀ r, r ∈ fileRows st → r ∈ fileRows
          { st with files := ⟨fz.rows, fz.captured⟩ :: st.files,
                    stored := newStored fz.captured st.stored,
                    frozen := some { fz with committed := true } } := by
        intro r hr'; simp [fileRows] at hr' ⊢; exact Or.inr hr'
      have hnew : ∀ r, r ∈ fz.rows → r ∈ fileRows
          { st with files := ⟨fz.rows, fz.captured⟩ :: st.files,
                    stored := newStored fz.captured st.stored,
                    frozen := some { fz with committed := true } } := by
        intro r hr'; simp [fileRows]; exact Or.inl hr'
      have hto : ∀ r, Stored st r → Stored
          { st with files := ⟨fz.rows, fz.captured⟩ :: st.files,
                    stored := newStored fz.captured st.stored,
                    frozen := some { fz with committed := true } } r := by
        intro r hr'
        rcases hr' with hr' | hr' | hr'
        · exact Or.inl (hfiles r hr')
        · rw [hfr] at hr'; exact Or.inl (hnew r hr')
        · exact Or.inr (Or.inr hr')
      have hfrom : ∀ r, Stored
          { st with files := ⟨fz.rows, fz.captured⟩ :: st.files,
                    stored := newStored fz.captured st.stored,
                    frozen := some { fz with committed := true } } r → Stored st r := by
        intro r hr'
        rcases hr' with hr' | hr' | hr'
        · simp [fileRows] at hr'
          rcases hr' with hr' | hr'
          · exact Or.inr (Or.inl (by rw [hfr]; exact hr'))
          · exact Or.inl (by simpa [fileRows] using hr')
        · exact Or.inr (Or.inl (by rw [hfr]; simpa [frozenRows] using hr'))
        · exact Or.inr (Or.inr hr')
      constructor
      case ack_stored =>
        intro s hs hs'
        rcases h6 s hs hs' with hh | hb
        · left; simp only []; rw [hst]; omega
        · exact Or.inr hb
      case stored_files =>
        intro s hs hs'
        simp only [] at hs'; rw [hst] at hs'
        rcases h13 fz hfz s hs hs' with hb | ⟨r, hr1, hr2⟩ | ⟨r, hr1, hr2⟩
        · exact Or.inl hb
        · exact Or.inr ⟨r, hfiles r hr1, hr2⟩
        · exact Or.inr ⟨r, hnew r hr1, hr2⟩
      case stored_seq => intro _; simp only []; rw [hst]; exact hc1
      case stored_lo => simp only []; rw [hst]; omega
      case covered =>
        intro s hs hs'
        rcases h11 s hs hs' with hb | ⟨r, hr1, hr2⟩
        · exact Or.inl hb
        · exact Or.inr ⟨r, hto r hr1, hr2⟩
      case infl_written =>
        intro fl hfl hw
        obtain ⟨r, hr1, hr2⟩ := h12 fl hfl hw
        exact ⟨r, hto r hr1, hr2⟩
      case fz_cov =>
        intro fz' hfz' s hs hs'
        simp at hfz'; subst hfz'
        rcases h13 fz hfz s hs hs' with hb | ⟨r, hr1, hr2⟩ | hh
        · exact Or.inl hb
        · exact Or.inr (Or.inl ⟨r, hfiles r hr1, hr2⟩)
        · exact Or.inr (Or.inr hh)
      case fz_capt =>
        intro fz' hfz'
        simp at hfz'; subst hfz'
        refine ⟨hc1, ?_⟩
        simp only []; rw [hst]; exact Int.le_refl _
      case fz_comm =>
        intro fz' hfz' _
        simp at hfz'; subst hfz'
        exact ⟨fun r hr' => hnew r hr', hst⟩
      case to_frozen =>
        intro fl hfl htf hw
        exfalso
        simp only [] at hfl
        obtain ⟨f1, f2, _, _⟩ := h20 fl hfl
        simp [writerPending, hfl, htf, hw, f1, f2 htf] at hnw
      case wal_gone => intro hh; exact h21 hh
      case down_vol => not_running hr
      case opened_vol => not_running hr
      case rows_log => intro r hr'; exact h19 r (hfrom r hr')
      all_goals assumption


theorem ackOpt_eq (st : St) (o : Option Int) : ackOpt st o = { st with groupAck := (ackOpt st o).groupAck } := by
  unfold ackOpt; cases o
  · rfl
  · exact ackTo_eq st _

theorem inv_ackOpt {st : St} (o : Option Int) (h : Inv st) (hx : ov o ≤ ov st.stored) : Inv (ackOpt st o) := by
  unfold ackOpt
  cases o with
  | none => exact h
  | some x =>
    apply inv_ackTo x h
    intro s _ hs'
    left
    have : ov (some x) = x := rfl
    omega

theorem inv_clearFrozen {st : St} (hr : st.phase = .running) (h : Inv st) (fz : Frozen)
    (hfz : st.frozen = some fz) (hc : fz.committed = true) : Inv { st with frozen := none } := by
  obtain ⟨h1, h2, h3, h4, h5, h6, h7, h8, h9, h10, h11, h12, h13, h14, h15, h16, h17, h18, h19, h20, h21, h22⟩ := h
  obtain ⟨hin, _⟩ := h15 fz hfz hc
  have hto : ∀ r, Stored st r → Stored { st with frozen := none } r := by
    intro r hr'
    rcases hr' with hr' | hr' | hr'
    · exact Or.inl hr'
    · simp [frozenRows, hfz] at hr'; exact Or.inl (hin r hr')
    · exact Or.inr (Or.inr hr')
  have hfrom : ∀ r, Stored { st with frozen := none } r → Stored st r := by
    intro r hr'
    rcases hr' with hr' | hr' | hr'
    · exact Or.inl hr'
    · simp [frozenRows] at hr'
    · exact Or.inr (Or.inr hr')
  constructor
  case covered =>
    intro s hs hs'
    rcases h11 s hs hs' with hb | ⟨r, a, b⟩
    · exact Or.inl hb
    · exact Or.inr ⟨r, hto r a, b⟩
  case infl_written => intro fl hfl hw; obtain ⟨r, a, b⟩ := h12 fl hfl hw; exact ⟨r, hto r a, b⟩
  case fz_cov => intro fz' hfz'; simp at hfz'
  case fz_capt => intro fz' hfz'; simp at hfz'
  case fz_comm => intro fz' hfz'; simp at hfz'
  case to_frozen =>
    intro fl hfl htf hw
    obtain ⟨fz', a, b⟩ := h16 fl hfl htf hw
    rw [hfz] at a; cases a; rw [hc] at b; cases b
  case down_vol => not_running hr
  case opened_vol => not_running hr
  case rows_log => intro r hr'; exact h19 r (hfrom r hr')
  all_goals assumption

theorem inv_ackCallback {st : St} (hr : st.phase = .running) (h : Inv st) : Inv (doAckCallback st) := by
  unfold doAckCallback
  split
  case h_2 => exact h
  case h_1 fz hfz =>
    split
    case isFalse => exact h
    case isTrue hc =>
      obtain ⟨_, heq⟩ := h.fz_comm fz hfz hc
      have hA : Inv (ackOpt st fz.captured) := inv_ackOpt _ h (by omega)
      have hmap : st.inflight.map closeMark = st.inflight := by
        cases hi : st.inflight with
        | none => rfl
        | some fl =>
          have : closeMark fl = fl := by
            unfold closeMark
            split
            case isFalse => rfl
            case isTrue hcm =>
              exfalso
              simp at hcm
              obtain ⟨fz', a, b⟩ := h.to_frozen fl hi hcm.1 hcm.2
              rw [hfz] at a; cases a; rw [hc] at b; cases b
          simp [this]
      rw [hmap]
      rw [ackOpt_eq] at hA ⊢
      exact inv_clearFrozen (st := { st with groupAck := (ackOpt st fz.captured).groupAck }) hr hA fz hfz hc


theorem inv_logGC {st : St} (k : Int) (h : Inv st) : Inv (doLogGC st k) := by
  unfold doLogGC
  split
  case isFalse => exact h
  case isTrue hg =>
    obtain ⟨h1, h2, h3, h4, h5, h6, h7, h8, h9, h10, h11, h12, h13, h14, h15, h16, h17, h18, h19, h20, h21, h22⟩ := h
    constructor
    case gc_lo => simp only []; omega
    case gc_ack => simp only []; omega
    all_goals assumption

theorem inv_crash {st : St} (h : Inv st) : Inv (doCrash st) := by
  unfold doCrash
  obtain ⟨h1, h2, h3, h4, h5, h6, h7, h8, h9, h10, h11, h12, h13, h14, h15, h16, h17, h18, h19, h20, h21, h22⟩ := h
  constructor
  case stored_seq => intro hh; exact absurd rfl hh
  case idle => intro hh; cases hh
  case infl => intro fl hfl; cases hfl
  case covered => intro s hs hs'; simp [ov] at hs'; omega
  case infl_written => intro fl hfl; cases hfl
  case fz_cov => intro fz hfz; cases hfz
  case fz_capt => intro fz hfz; cases hfz
  case fz_comm => intro fz hfz; cases hfz
  case to_frozen => intro fl hfl; cases hfl
  case down_vol => intro _; exact ⟨rfl, rfl, rfl, rfl⟩
  case opened_vol => intro hh; cases hh
  case rows_log =>
    intro r hr'
    rcases hr' with hr' | hr' | hr'
    · exact h19 r (Or.inl hr')
    · simp [frozenRows] at hr'
    · simp at hr'
  case flags => intro fl hfl; cases hfl
  case wal_gone => intro hh; exact ⟨(h21 hh).1, rfl⟩
  all_goals assumption

theorem inv_recover {st : St} (hd : st.phase = .down) (h : Inv st) : Inv (doRecover st) := by
  unfold doRecover
  split
  case isTrue hwg =>
    obtain ⟨h1, h2, h3, h4, h5, h6, h7, h8, h9, h10, h11, h12, h13, h14, h15, h16, h17, h18, h19, h20, h21, h22⟩ := h
    obtain ⟨d1, d2, d3, d4⟩ := h17 hd
    obtain ⟨w1, _⟩ := h21 hwg
    constructor
    case stored_seq => intro _; exact Int.le_refl _
    case idle =>
      intro _ _ s hs hs'
      have hs2 : ov st.stored < s := hs
      have hs3 : s ≤ st.consumed := hs'
      rcases h6 s (by omega) (by omega) with hh | hb
      · omega
      · exact hb
    case infl => intro fl hfl; simp only [] at hfl; rw [d4] at hfl; cases hfl
    case covered =>
      intro s hs hs'
      rcases h7 s hs hs' with hb | ⟨r, a, b⟩
      · exact Or.inl hb
      · exact Or.inr ⟨r, Or.inl a, b⟩
    case infl_written => intro fl hfl; simp only [] at hfl; rw [d4] at hfl; cases hfl
    case fz_cov => intro fz hfz; simp only [] at hfz; rw [d3] at hfz; cases hfz
    case fz_capt => intro fz hfz; simp only [] at hfz; rw [d3] at hfz; cases hfz
    case fz_comm => intro fz hfz; simp only [] at hfz; rw [d3] at hfz; cases hfz
    case to_frozen => intro fl hfl; simp only [] at hfl; rw [d4] at hfl; cases hfl
    case down_vol => intro hh; cases hh
    case opened_vol => intro hh; cases hh
    case rows_log => intro r hr'; exact h19 r hr'
    all_goals assumption
  case isFalse =>
    apply inv_ackOpt
    · obtain ⟨h1, h2, h3, h4, h5, h6, h7, h8, h9, h10, h11, h12, h13, h14, h15, h16, h17, h18, h19, h20, h21, h22⟩ := h
      obtain ⟨d1, d2, d3, d4⟩ := h17 hd
      constructor
      case stored_seq => intro _; exact Int.le_refl _
      case idle => intro hh; cases hh
      case infl => intro fl hfl; simp only [] at hfl; rw [d4] at hfl; cases hfl
      case covered =>
        intro s hs hs'
        rcases h7 s hs hs' with hb | ⟨r, a, b⟩
        · exact Or.inl hb
        · exact Or.inr ⟨r, Or.inl a, b⟩
      case infl_written => intro fl hfl; simp only [] at hfl; rw [d4] at hfl; cases hfl
      case fz_cov => intro fz hfz; simp only [] at hfz; rw [d3] at hfz; cases hfz
      case fz_capt => intro fz hfz; simp only [] at hfz; rw [d3] at hfz; cases hfz
      case fz_comm => intro fz hfz; simp only [] at hfz; rw [d3] at hfz; cases hfz
      case to_frozen => intro fl hfl; simp only [] at hfl; rw [d4] at hfl; cases hfl
      case down_vol => intro hh; cases hh
      case opened_vol => intro _; exact ⟨rfl, d2, d3, d4⟩
      case rows_log => intro r hr'; exact h19 r hr'
      all_goals assumption
    · exact Int.le_refl _

theorem inv_walExpire {st : St} (h : Inv st) : Inv (doWalExpire st) := by
  unfold doWalExpire
  split
  case isFalse => exact h
  case isTrue hg =>
    obtain ⟨h1, h2, h3, h4, h5, h6, h7, h8, h9, h10, h11, h12, h13, h14, h15, h16, h17, h18, h19, h20, h21, h22⟩ := h
    constructor
    case wal_gone => intro _; exact ⟨hg.2, by simpa using hg.1⟩
    all_goals assumption

theorem inv_rewind {st : St} (ho : st.phase = .opened) (h : Inv st) : Inv (doRewind st) := by
  unfold doRewind
  obtain ⟨h1, h2, h3, h4, h5, h6, h7, h8, h9, h10, h11, h12, h13, h14, h15, h16, h17, h18, h19, h20, h21, h22⟩ := h
  obtain ⟨o1, o2, o3, o4⟩ := h18 ho
  constructor
  case ack_cons => exact Int.le_refl _
  case cons_app => simp only [St.appended] at *; omega
  case stored_seq => intro _; rw [o1]; exact Int.le_refl _
  case idle =>
    intro _ _ s hs hs'
    have hs2 : ov st.seq < s := hs
    have hs3 : s ≤ st.groupAck := hs'
    rw [o1] at hs2
    rcases h6 s (by omega) hs3 with hh | hb
    · omega
    · exact hb
  case infl => intro fl hfl; simp only [] at hfl; rw [o4] at hfl; cases hfl
  case down_vol => intro hh; cases hh
  case opened_vol => intro hh; cases hh
  all_goals assumption

/-- the only place where the gap between `GetOrCreateMemoryDatabase` and `AcquireWrite` matters:
a `freeze` while the in-flight write has taken its memdb but is not registered as its writer -/
def gapOk (st : St) (e : Ev) : Prop :=
  e = .freeze → ∀ fl, st.inflight = some fl → fl.taken = true → fl.acquired = true

instance (st : St) (e : Ev) : Decidable (gapOk st e) := by
  unfold gapOk
  by_cases he : e = .freeze
  · cases hi : st.inflight with
    | none => exact isTrue (fun _ fl hfl => by cases hfl)
    | some fl =>
      by_cases h : fl.taken = true → fl.acquired = true
      · exact isTrue (fun _ fl' hfl' => by cases hfl'; exact h)
      · exact isFalse (fun hh => h (hh he fl rfl))
  · exact isTrue (fun hh => absurd hh he)

/-- trace hypothesis: no freeze falls into the gap -/
def GapFree (cfg : Cfg) : St → List Ev → Prop
  | _, [] => True
  | st, e :: es => gapOk st e ∧ GapFree cfg (step cfg st e) es

instance decGapFree (cfg : Cfg) : (st : St) → (evs : List Ev) → Decidable (GapFree cfg st evs)
  | _, [] => isTrue trivial
  | st, e :: es =>
    have := decGapFree cfg (step cfg st e) es
    by unfold GapFree; exact inferInstance

theorem inv_step (cfg : Cfg) (hx : cfg.ignoreExact = true) {st : St} (e : Ev) (hg : gapOk st e) (h : Inv st) :
    Inv (step cfg st e) := by
  cases e <;> simp only [step, whenRunning]
  case crash => exact inv_crash h
  case recover =>
    split
    · exact inv_recover ‹_› h
    · exact h
  case rewind =>
    split
    · exact inv_rewind ‹_› h
    · exact h
  case append m t =>
    split
    · split
      · exact h
      · exact inv_append m t (by simpa using ‹¬ st.walGone = true›) h
    · exact h
  case appendBad =>
    split
    · split
      · exact h
      · exact inv_appendBad (by simpa using ‹¬ st.walGone = true›) h
    · exact h
  case foreignWrite m t =>
    split
    · exact inv_addNames m t (inv_foreign _ h)
    · exact h
  case foreignNames m t =>
    split
    · exact inv_addNames m t h
    · exact h
  case foreignMetric m =>
    split
    · exact inv_dicts _ _ _ h
    · exact h
  case foreignTagv m t =>
    split
    · exact inv_dicts _ _ _ h
    · exact h
  case applyBegin =>
    split
    · split
      · exact h
      · exact inv_applyBegin cfg hx ‹_› (by simpa using ‹¬ st.walGone = true›) h
    · exact h
  case applyGetFail =>
    split
    · split
      · exact h
      · exact inv_applyGetFail cfg hx ‹_› (by simpa using ‹¬ st.walGone = true›) h
    · exact h
  case applyNoRows =>
    split
    · split
      · exact h
      · exact inv_applyNoRows ‹_› (by simpa using ‹¬ st.walGone = true›) h
    · exact h
  case applyTake =>
    split
    · exact inv_applyTake cfg ‹_› h
    · exact h
  case applyAcquire =>
    split
    · exact inv_applyAcquire ‹_› h
    · exact h
  case applyWrite =>
    split
    · exact inv_applyWrite ‹_› h
    · exact h
  case applyCommit =>
    split
    · exact inv_applyCommit ‹_› h
    · exact h
  case metaPrepare =>
    split
    · exact inv_dicts _ _ _ h
    · exact h
  case metaFlushMetric =>
    split
    · exact inv_dicts _ _ _ h
    · exact h
  case metaFlushTagv =>
    split
    · exact inv_dicts _ _ _ h
    · exact h
  case indexPrepare =>
    split
    · exact inv_dicts _ _ _ h
    · exact h
  case indexFlush =>
    split
    · exact inv_dicts _ _ _ h
    · exact h
  case freeze =>
    split
    · exact inv_freeze ‹_› (hg rfl) h
    · exact h
  case dataCommit =>
    split
    · exact inv_dataCommit ‹_› h
    · exact h
  case ackCallback =>
    split
    · exact inv_ackCallback ‹_› h
    · exact h
  case logGC k =>
    split
    · exact inv_logGC k h
    · exact h
  case walExpire =>
    split
    · exact inv_walExpire h
    · exact h

theorem inv_run (cfg : Cfg) (hx : cfg.ignoreExact = true) (evs : List Ev) {st : St}
    (hg : GapFree cfg st evs) (h : Inv st) : Inv (run cfg st evs) := by
  induction evs generalizing st with
  | nil => exact h
  | cons e es ih => exact ih hg.2 (inv_step cfg hx e hg.1 h)

/-- with the writer registered in the same critical section as the memdb lookup there is no gap -/
theorem taken_acquired_step (cfg : Cfg) (hc : cfg.atomicAcquire = true) {st : St} (e : Ev)
    (h : ∀ fl, st.inflight = some fl → fl.taken = true → fl.acquired = true) :
    ∀ fl, (step cfg st e).inflight = some fl → fl.taken = true → fl.acquired = true := by
  cases e <;> simp only [step, whenRunning]
  case crash => intro fl hfl; simp [doCrash] at hfl
  case recover =>
    split
    · unfold doRecover; split
      · exact h
      · rw [ackOpt_eq]; exact h
    · exact h
  case rewind =>
    split
    · exact h
    · exact h
  case append m t =>
    split
    · split <;> exact h
    · exact h
  case appendBad =>
    split
    · split <;> exact h
    · exact h
  case applyBegin =>
    split
    · split
      · exact h
      · unfold doApplyBegin
        split
        · unfold beginAt
          split
          · rw [ignoreMsg_eq]; exact h
          · split
            · exact h
            · split
              · intro fl hfl; simp at hfl; subst hfl; simp [InFlight.fresh]
              · exact h
            · split
              · rw [ignoreMsg_eq]; exact h
              · exact h
        · exact h
    · exact h
  case applyGetFail =>
    split
    · split
      · exact h
      · unfold doApplyGetFail
        split
        · rw [ignoreMsg_eq]; exact h
        · exact h
    · exact h
  case applyNoRows =>
    split
    · split
      · exact h
      · unfold doApplyNoRows
        (repeat' split) <;> exact h
    · exact h
  case applyTake =>
    split
    · unfold doApplyTake
      split
      case h_2 => exact h
      case h_1 fl0 hfl0 =>
        split
        · exact h
        · intro fl hfl _; simp at hfl; subst hfl; exact hc
    · exact h
  case applyAcquire =>
    split
    · unfold doApplyAcquire
      split
      case h_2 => exact h
      case h_1 fl0 hfl0 =>
        split
        · intro fl hfl _; simp at hfl; subst hfl; rfl
        · exact h
    · exact h
  case applyWrite =>
    split
    · unfold doApplyWrite
      split
      case h_2 => exact h
      case h_1 fl0 hfl0 =>
        split
        · exact h
        · intro fl hfl ht
          have : (putRow { st with inflight := some { fl0 with written := true } } fl0.toFrozen fl0.closed
              ⟨fl0.seq, fl0.metric, fl0.tagv⟩).inflight = some { fl0 with written := true } := by
            unfold putRow; split
            · rfl
            · split
              · split <;> rfl
              · rfl
          simp only [addNames_inflight, this] at hfl
          simp at hfl; subst hfl
          exact h fl0 hfl0 ht
    · exact h
  case applyCommit =>
    split
    · unfold doApplyCommit
      split
      case h_2 => exact h
      case h_1 fl0 hfl0 =>
        split
        · intro fl hfl; simp at hfl
        · exact h
    · exact h
  case metaPrepare => split <;> exact h
  case metaFlushMetric => split <;> exact h
  case metaFlushTagv => split <;> exact h
  case indexPrepare => split <;> exact h
  case indexFlush => split <;> exact h
  case foreignWrite m t =>
    split
    · intro fl hfl; simp only [addNames_inflight] at hfl; exact h fl hfl
    · exact h
  case foreignNames m t =>
    split
    · intro fl hfl; simp only [addNames_inflight] at hfl; exact h fl hfl
    · exact h
  case foreignMetric m => split <;> exact h
  case foreignTagv m t => split <;> exact h
  case freeze =>
    split
    · unfold doFreeze
      split
      case h_2 => exact h
      case h_1 =>
        split
        · exact h
        · intro fl hfl ht
          simp at hfl
          obtain ⟨fl0, hfl0, rfl⟩ := hfl
          obtain ⟨_, _, _, _, _, e6, e7⟩ := freezeMark_same fl0
          rw [e6]; rw [e7] at ht; exact h fl0 hfl0 ht
    · exact h
  case dataCommit =>
    split
    · unfold doDataCommit
      split
      case h_2 => exact h
      case h_1 => split <;> exact h
    · exact h
  case ackCallback =>
    split
    · unfold doAckCallback
      split
      case h_2 => exact h
      case h_1 =>
        split
        · intro fl hfl ht
          simp at hfl
          obtain ⟨fl0, hfl0, rfl⟩ := hfl
          have e : (closeMark fl0).taken = fl0.taken ∧ (closeMark fl0).acquired = fl0.acquired := by
            unfold closeMark; split <;> simp
          rw [e.2]; rw [e.1] at ht; exact h fl0 hfl0 ht
        · exact h
    · exact h
  case logGC k =>
    split
    · unfold doLogGC; split <;> exact h
    · exact h
  case walExpire =>
    split
    · unfold doWalExpire; split <;> exact h
    · exact h

theorem gapFree_of_atomic (cfg : Cfg) (hc : cfg.atomicAcquire = true) (evs : List Ev) {st : St}
    (h : ∀ fl, st.inflight = some fl → fl.taken = true → fl.acquired = true) : GapFree cfg st evs := by
  induction evs generalizing st with
  | nil => trivial
  | cons e es ih => exact ⟨fun _ => h, ih (taken_acquired_step cfg hc e h)⟩

end LinVerif.NodeRecovery
