/-
C06 helper lemmas, part 2: histories, the three state invariants (Base / Order / Above) and
their preservation by every operation.
-/
import LinVerif.Lemmas.C06Queue

set_option linter.unusedSimpArgs false
set_option linter.unusedVariables false

namespace LinVerif.FanOut
open LinVerif.Map

/-! ### histories -/

/-- "outside an explicit index reset": `SetSeq` and `SetAppendedSeq` are resets; so is a
`SetConsumedSeq` outside the documented range [ack, appended]. -/
def Op.okAt (s : State) : Op → Prop
  | .setConsumed g n => ∀ grp, lookup s.live g = some grp → grp.ack ≤ n ∧ n ≤ s.q.appended
  | .setSeq _ _ => False
  | .setAppended _ => False
  | _ => True

/-- Region of finding (b): a group is restored from its meta page (re-created after a stop, or by
reopen) while the queue ack is above the consumed position stored there. -/
def Op.restoreOrderedAt (s : State) : Op → Prop
  | .create g => lookup s.live g = none → ∀ m, lookup s.metas g = some m → s.q.ack ≤ m.consumed
  | .reopen => ∀ g m, lookup s.metas g = some m → s.q.ack ≤ m.consumed
  | _ => True

/-- Region of finding (a): a group that has no meta page yet is created after the queue ack moved. -/
def Op.freshOkAt (s : State) : Op → Prop
  | .create g => lookup s.live g = none → lookup s.metas g = none → s.q.ack = -1
  | _ => True

/-- every step of the history satisfies the guard `G` in the state it is applied to -/
def Valid (v : Variant) (G : State → Op → Prop) : State → List Op → Prop
  | _, [] => True
  | s, o :: os => G s o ∧ Valid v G (step v s o).1 os

theorem Valid.mono {v : Variant} {G G' : State → Op → Prop} (hg : ∀ s o, G s o → G' s o) :
    ∀ (ops : List Op) (s : State), Valid v G s ops → Valid v G' s ops
  | [], _, _ => trivial
  | o :: os, s, h => ⟨hg s o h.1, Valid.mono hg os _ h.2⟩

theorem run_append (v : Variant) : ∀ (a b : List Op) (s : State), run v s (a ++ b) = run v (run v s a) b
  | [], _, _ => rfl
  | o :: os, b, s => by simp [run, run_append v os b]

theorem Valid.append {v : Variant} {G : State → Op → Prop} :
    ∀ (a b : List Op) (s : State), Valid v G s (a ++ b) → Valid v G s a ∧ Valid v G (run v s a) b
  | [], _, _, h => ⟨trivial, h⟩
  | o :: os, b, s, h => by
    have := Valid.append os b _ h.2
    exact ⟨⟨h.1, this.1⟩, this.2⟩

/-- an invariant preserved by every guarded step holds after every valid history -/
theorem inv_run {v : Variant} {G : State → Op → Prop} {I : State → Prop}
    (hstep : ∀ s o, I s → G s o → I (step v s o).1) :
    ∀ (ops : List Op) (s : State), I s → Valid v G s ops → I (run v s ops)
  | [], _, hi, _ => hi
  | o :: os, s, hi, hv => inv_run hstep os _ (hstep s o hi hv.1) hv.2

/-! ### Base: queue invariant + "the meta pages hold the in-memory positions" -/

structure Base (s : State) : Prop where
  q : QInv s.q
  grp : ∀ g grp, lookup s.live g = some grp → lookup s.metas g = some { consumed := grp.consumed, ack := grp.ack }

theorem Base.init : Base State.init := ⟨QInv.init, by intro g grp h; simp [State.init, lookup] at h⟩

theorem putGroup_q (s : State) (g : Nat) (grp : Group) : (s.putGroup g grp).q = s.q := rfl

theorem Base.putGroup {s : State} (h : Base s) (g : Nat) (grp' : Group) : Base (s.putGroup g grp') := by
  refine ⟨h.q, ?_⟩
  intro g2 grp2 hl
  change lookup (upsert s.live g grp') g2 = some grp2 at hl
  show lookup (upsert s.metas g _) g2 = _
  by_cases hg : g = g2
  · subst hg
    rw [lookup_upsert_self] at hl
    cases hl
    rw [lookup_upsert_self]
  · rw [lookup_upsert_ne _ _ _ _ hg] at hl
    rw [lookup_upsert_ne _ _ _ _ hg]
    exact h.grp g2 grp2 hl

theorem newGroup_toGroup (m : Meta) : ({ consumed := m.toGroup.consumed, ack := m.toGroup.ack } : Meta) = m := by
  cases m; rfl

theorem reopen_live_lookup (v : Variant) (s : State) (g : Nat) :
    lookup (s.reopen v).live g = (lookup (s.reopen v).metas g).map Meta.toGroup := by
  exact lookup_map_val (fun _ (m : Meta) => m.toGroup) _ g

theorem reopen_metas_lookup (v : Variant) (s : State) (g : Nat) :
    lookup (s.reopen v).metas g = (lookup s.metas g).map (fun m => newGroup v s.q.reopen.ack (some m)) := by
  exact lookup_map_val (fun _ (m : Meta) => newGroup v s.q.reopen.ack (some m)) _ g

theorem Base.step {v : Variant} {s : State} {o : Op} (h : Base s) (ok : o.okAt s) : Base (step v s o).1 := by
  cases o with
  | append len =>
    show Base (if len > dataPageSize then (s, Res.tooLarge) else ({ s with q := s.q.put len }, Res.done)).1
    split
    · exact h
    · exact ⟨h.q.put len, h.grp⟩
  | consume g =>
    show Base (s.consume g).1
    unfold State.consume
    split
    · exact h
    · split
      · exact h
      · split
        · exact h.putGroup _ _
        · exact h
  | ack g n =>
    show Base (s.ackGroup g n).1
    unfold State.ackGroup
    split
    · exact h
    · split
      · exact h.putGroup _ _
      · exact h
  | setConsumed g n =>
    simp only [FanOut.step]
    split
    · exact h
    · exact h.putGroup _ _
  | setSeq g n => exact absurd ok (by simp [Op.okAt])
  | setAppended n => exact absurd ok (by simp [Op.okAt])
  | sync =>
    show Base s.sync
    unfold State.sync
    split
    · exact h
    · split
      · exact ⟨h.q.setAck _, h.grp⟩
      · exact h
  | gc => exact ⟨h.q.gc, h.grp⟩
  | create g =>
    show Base (s.create v g)
    unfold State.create
    split
    · exact h
    · refine ⟨h.q, ?_⟩
      intro g2 grp2 hl
      change lookup (upsert s.live g _) g2 = some grp2 at hl
      show lookup (upsert s.metas g _) g2 = _
      by_cases hg : g = g2
      · subst hg
        rw [lookup_upsert_self] at hl
        cases hl
        rw [lookup_upsert_self, newGroup_toGroup]
      · rw [lookup_upsert_ne _ _ _ _ hg] at hl
        rw [lookup_upsert_ne _ _ _ _ hg]
        exact h.grp g2 grp2 hl
  | stop g =>
    refine ⟨h.q, ?_⟩
    intro g2 grp2 hl
    change lookup (erase s.live g) g2 = some grp2 at hl
    show lookup s.metas g2 = _
    by_cases hg : g = g2
    · subst hg
      rw [lookup_erase_self] at hl
      cases hl
    · rw [lookup_erase_ne _ _ _ hg] at hl
      exact h.grp g2 grp2 hl
  | pause g =>
    simp only [FanOut.step]
    split
    · exact h
    · rename_i grp hgrp
      refine ⟨h.q, ?_⟩
      intro g2 grp2 hl
      change lookup (upsert s.live g _) g2 = some grp2 at hl
      show lookup s.metas g2 = _
      by_cases hg : g = g2
      · subst hg
        rw [lookup_upsert_self] at hl
        cases hl
        exact h.grp g grp hgrp
      · rw [lookup_upsert_ne _ _ _ _ hg] at hl
        exact h.grp g2 grp2 hl
  | reopen =>
    refine ⟨h.q.reopen, ?_⟩
    intro g2 grp2 hl
    change lookup (s.reopen v).live g2 = some grp2 at hl
    show lookup (s.reopen v).metas g2 = _
    rw [reopen_live_lookup] at hl
    cases hm : lookup (s.reopen v).metas g2 with
    | none => rw [hm] at hl; cases hl
    | some m =>
      rw [hm] at hl
      simp only [Option.map_some, Option.some.injEq] at hl
      subst hl
      rw [newGroup_toGroup]

/-! ### facts about which queue positions an operation can change -/

theorem put_appended (q : Queue) (len : Nat) : (q.put len).appended = q.appended + 1 := rfl
theorem put_ack (q : Queue) (len : Nat) : (q.put len).ack = q.ack := rfl
theorem gc_appended (q : Queue) : q.gc.appended = q.appended := by
  unfold Queue.gc; split; · rfl
  split <;> rfl
theorem gc_ack (q : Queue) : q.gc.ack = q.ack := by
  unfold Queue.gc; split; · rfl
  split <;> rfl
theorem setAck_appended (q : Queue) (n : Int) : (q.setAck n).appended = q.appended := by
  unfold Queue.setAck; split <;> rfl
theorem setAck_ack (q : Queue) (n : Int) :
    (q.setAck n).ack = if n > q.ack ∧ n ≤ q.appended then n else q.ack := by
  unfold Queue.setAck; split <;> rfl
theorem reopen_appended {q : Queue} (h : QInv q) : q.reopen.appended = q.appended := by
  unfold Queue.reopen; split <;> exact h.mApp
theorem reopen_ack {q : Queue} (h : QInv q) : q.reopen.ack = q.ack := by
  unfold Queue.reopen; split <;> exact h.mAck

/-- the positions `NewConsumerGroup` computes on the restore path -/
theorem newGroup_some_ack (v : Variant) (qack : Int) (m : Meta) :
    (newGroup v qack (some m)).ack = if m.ack < qack then qack else m.ack := rfl

theorem newGroup_some_ack_ge (v : Variant) (qack : Int) (m : Meta) : qack ≤ (newGroup v qack (some m)).ack := by
  rw [newGroup_some_ack]; split <;> omega

theorem newGroup_some_consumed (v : Variant) (qack : Int) (m : Meta) :
    (newGroup v qack (some m)).consumed =
      if v.liftConsumed = true ∧ m.consumed < (if m.ack < qack then qack else m.ack)
      then (if m.ack < qack then qack else m.ack) else m.consumed := rfl

theorem newGroup_none (v : Variant) (qack : Int) :
    newGroup v qack none =
      if v.freshAtQueueAck = true then { consumed := qack, ack := qack } else { consumed := noSeq, ack := noSeq } := rfl

/-- when nothing has to be lifted the meta page is restored as it is (every variant) -/
theorem newGroup_some_id (v : Variant) (qack : Int) (m : Meta) (h1 : qack ≤ m.ack) (h2 : m.ack ≤ m.consumed) :
    newGroup v qack (some m) = m := by
  have ha : (newGroup v qack (some m)).ack = m.ack := by
    rw [newGroup_some_ack]; split <;> omega
  have hc : (newGroup v qack (some m)).consumed = m.consumed := by
    rw [newGroup_some_consumed]
    have : ¬ m.ack < qack := by omega
    simp only [this, ite_false]
    split
    · rename_i hh; omega
    · rfl
  cases m
  cases hn : newGroup v qack (some _)
  rw [hn] at ha hc
  simp only at ha hc
  subst ha; subst hc; rfl

/-! ### Lite: the part of `Base` that `Order` / `Above` rest on (it survives explicit resets) -/

structure Lite (s : State) : Prop where
  mApp : s.q.mAppended = s.q.appended
  mAck : s.q.mAck = s.q.ack
  ackLo : -1 ≤ s.q.ack
  ackLe : s.q.ack ≤ s.q.appended
  grp : ∀ g grp, lookup s.live g = some grp → lookup s.metas g = some { consumed := grp.consumed, ack := grp.ack }

theorem Base.lite {s : State} (h : Base s) : Lite s := ⟨h.q.mApp, h.q.mAck, h.q.ackLo, h.q.ackLe, h.grp⟩

theorem Lite.reopenApp {s : State} (h : Lite s) : s.q.reopen.appended = s.q.appended := by
  unfold Queue.reopen; split <;> exact h.mApp
theorem Lite.reopenAck {s : State} (h : Lite s) : s.q.reopen.ack = s.q.ack := by
  unfold Queue.reopen; split <;> exact h.mAck

/-! ### Order: ack ≤ consumed ≤ appended, for every meta page (hence every live group) -/

def Order (s : State) : Prop :=
  ∀ g m, lookup s.metas g = some m → m.ack ≤ m.consumed ∧ m.consumed ≤ s.q.appended

theorem Order.init : Order State.init := by intro g m h; simp [State.init, lookup] at h

theorem Order.liveL {s : State} (hb : Lite s) (ho : Order s) (g : Nat) (grp : Group)
    (h : lookup s.live g = some grp) : grp.ack ≤ grp.consumed ∧ grp.consumed ≤ s.q.appended :=
  ho g _ (hb.grp g grp h)

theorem Order.putGroup {s : State} (ho : Order s) (g : Nat) (grp' : Group)
    (h' : grp'.ack ≤ grp'.consumed ∧ grp'.consumed ≤ s.q.appended) : Order (s.putGroup g grp') := by
  intro g2 m hl
  change lookup (upsert s.metas g _) g2 = some m at hl
  show _ ∧ m.consumed ≤ s.q.appended
  by_cases hg : g = g2
  · subst hg
    rw [lookup_upsert_self] at hl
    cases hl
    exact h'
  · rw [lookup_upsert_ne _ _ _ _ hg] at hl
    exact ho g2 m hl

theorem newGroup_ordered (v : Variant) (qack app : Int) (m : Option Meta)
    (hm : ∀ m0, m = some m0 → m0.ack ≤ m0.consumed ∧ m0.consumed ≤ app)
    (hlo : -1 ≤ qack) (hle : qack ≤ app)
    (hg : v.liftConsumed = true ∨ ∀ m0, m = some m0 → qack ≤ m0.consumed) :
    (newGroup v qack m).ack ≤ (newGroup v qack m).consumed ∧ (newGroup v qack m).consumed ≤ app := by
  cases m with
  | none =>
    rw [newGroup_none]
    by_cases hf : v.freshAtQueueAck = true
    · simp only [hf, if_true]; exact ⟨Int.le_refl _, hle⟩
    · have hf' : v.freshAtQueueAck = false := by cases h : v.freshAtQueueAck <;> simp_all
      simp [hf', noSeq]; omega
  | some m0 =>
    obtain ⟨h1, h2⟩ := hm m0 rfl
    rw [newGroup_some_ack, newGroup_some_consumed]
    rcases hg with hl | hr
    · simp only [hl, true_and]
      split <;> split <;> omega
    · have := hr m0 rfl
      split <;> split <;> omega

theorem Order.stepL {v : Variant} {s : State} {o : Op} (hb : Lite s) (ho : Order s) (ok : o.okAt s)
    (hg : v.liftConsumed = true ∨ o.restoreOrderedAt s) : Order (step v s o).1 := by
  cases o with
  | append len =>
    show Order (if len > dataPageSize then (s, Res.tooLarge) else ({ s with q := s.q.put len }, Res.done)).1
    split
    · exact ho
    · intro g m hl
      have := ho g m hl
      show _ ∧ m.consumed ≤ s.q.appended + 1
      omega
  | consume g =>
    show Order (s.consume g).1
    unfold State.consume
    split
    · exact ho
    · rename_i grp hgrp
      split
      · exact ho
      · split
        · rename_i hhead
          have := ho.liveL hb g grp hgrp
          exact ho.putGroup _ _ ⟨by show grp.ack ≤ grp.consumed + 1; omega, hhead⟩
        · exact ho
  | ack g n =>
    show Order (s.ackGroup g n).1
    unfold State.ackGroup
    split
    · exact ho
    · rename_i grp hgrp
      split
      · rename_i hw
        have := ho.liveL hb g grp hgrp
        exact ho.putGroup _ _ ⟨hw.2, this.2⟩
      · exact ho
  | setConsumed g n =>
    simp only [FanOut.step]
    split
    · exact ho
    · rename_i grp hgrp
      exact ho.putGroup _ _ (ok grp hgrp)
  | setSeq g n => exact absurd ok (by simp [Op.okAt])
  | setAppended n => exact absurd ok (by simp [Op.okAt])
  | sync =>
    show Order s.sync
    unfold State.sync
    split
    · exact ho
    · split
      · intro g m hl
        have := ho g m hl
        show _ ∧ m.consumed ≤ (s.q.setAck _).appended
        rw [setAck_appended]; exact this
      · exact ho
  | gc =>
    intro g m hl
    have := ho g m hl
    show _ ∧ m.consumed ≤ s.q.gc.appended
    rw [gc_appended]; exact this
  | create g =>
    show Order (s.create v g)
    unfold State.create
    split
    · exact ho
    · rename_i hnone
      intro g2 m hl
      change lookup (upsert s.metas g _) g2 = some m at hl
      show _ ∧ m.consumed ≤ s.q.appended
      by_cases hgg : g = g2
      · subst hgg
        rw [lookup_upsert_self] at hl
        cases hl
        apply newGroup_ordered v s.q.ack s.q.appended _ _ hb.ackLo hb.ackLe
        · rcases hg with hl | hr
          · exact Or.inl hl
          · exact Or.inr (fun m0 hm0 => hr hnone m0 hm0)
        · intro m0 hm0; exact ho g m0 hm0
      · rw [lookup_upsert_ne _ _ _ _ hgg] at hl
        exact ho g2 m hl
  | stop g => exact ho
  | pause g =>
    simp only [FanOut.step]
    split
    · exact ho
    · exact ho
  | reopen =>
    intro g m hl
    change lookup (s.reopen v).metas g = some m at hl
    show _ ∧ m.consumed ≤ s.q.reopen.appended
    rw [reopen_metas_lookup] at hl
    rw [hb.reopenApp]
    cases hm : lookup s.metas g with
    | none => rw [hm] at hl; cases hl
    | some m0 =>
      rw [hm] at hl
      simp only [Option.map_some, Option.some.injEq] at hl
      subst hl
      rw [hb.reopenAck]
      apply newGroup_ordered v s.q.ack s.q.appended _ _ hb.ackLo hb.ackLe
      · rcases hg with hl | hr
        · exact Or.inl hl
        · refine Or.inr (fun m1 hm1 => ?_)
          cases hm1
          exact hr g m0 hm
      · intro m1 hm1; cases hm1; exact ho g m0 hm

theorem Order.live {s : State} (hb : Base s) (ho : Order s) (g : Nat) (grp : Group)
    (h : lookup s.live g = some grp) : grp.ack ≤ grp.consumed ∧ grp.consumed ≤ s.q.appended :=
  ho.liveL hb.lite g grp h

theorem Order.step {v : Variant} {s : State} {o : Op} (hb : Base s) (ho : Order s) (ok : o.okAt s)
    (hg : v.liftConsumed = true ∨ o.restoreOrderedAt s) : Order (step v s o).1 :=
  Order.stepL hb.lite ho ok hg

/-! ### Above: the queue ack is at or below the ack of every live group -/

def Above (s : State) : Prop := ∀ g grp, lookup s.live g = some grp → s.q.ack ≤ grp.ack

theorem Above.init : Above State.init := by intro g grp h; simp [State.init, lookup] at h

theorem Above.putGroup {s : State} (ha : Above s) (g : Nat) (grp' : Group) (h' : s.q.ack ≤ grp'.ack) :
    Above (s.putGroup g grp') := by
  intro g2 grp2 hl
  change lookup (upsert s.live g grp') g2 = some grp2 at hl
  show s.q.ack ≤ grp2.ack
  by_cases hg : g = g2
  · subst hg
    rw [lookup_upsert_self] at hl
    cases hl
    exact h'
  · rw [lookup_upsert_ne _ _ _ _ hg] at hl
    exact ha g2 grp2 hl

/-- `Sync`: the candidate is at or below every live group's ack -/
theorem sync_candidate_le (s : State) (g : Nat) (grp : Group) (h : lookup s.live g = some grp) :
    minAck s.q.appended s.live ≤ grp.ack :=
  minAck_le_mem _ _ g grp (mem_of_lookup h)

theorem Above.stepL {v : Variant} {s : State} {o : Op} (hb : Lite s) (ha : Above s) (ok : o.okAt s)
    (hg : v.freshAtQueueAck = true ∨ o.freshOkAt s) : Above (step v s o).1 := by
  cases o with
  | append len =>
    show Above (if len > dataPageSize then (s, Res.tooLarge) else ({ s with q := s.q.put len }, Res.done)).1
    split
    · exact ha
    · exact ha
  | consume g =>
    show Above (s.consume g).1
    unfold State.consume
    split
    · exact ha
    · rename_i grp hgrp
      split
      · exact ha
      · split
        · exact ha.putGroup _ _ (ha g grp hgrp)
        · exact ha
  | ack g n =>
    show Above (s.ackGroup g n).1
    unfold State.ackGroup
    split
    · exact ha
    · rename_i grp hgrp
      split
      · rename_i hw
        have := ha g grp hgrp
        exact ha.putGroup _ _ (by show s.q.ack ≤ n; omega)
      · exact ha
  | setConsumed g n =>
    simp only [FanOut.step]
    split
    · exact ha
    · rename_i grp hgrp
      exact ha.putGroup _ _ (ha g grp hgrp)
  | setSeq g n => exact absurd ok (by simp [Op.okAt])
  | setAppended n => exact absurd ok (by simp [Op.okAt])
  | sync =>
    show Above s.sync
    unfold State.sync
    split
    · exact ha
    · split
      · intro g grp hl
        change lookup s.live g = some grp at hl
        show (s.q.setAck _).ack ≤ grp.ack
        rw [setAck_ack]
        have h1 := sync_candidate_le s g grp hl
        have h2 := ha g grp hl
        split <;> omega
      · exact ha
  | gc =>
    intro g grp hl
    show s.q.gc.ack ≤ grp.ack
    rw [gc_ack]; exact ha g grp hl
  | create g =>
    show Above (s.create v g)
    unfold State.create
    split
    · exact ha
    · rename_i hnone
      intro g2 grp2 hl
      change lookup (upsert s.live g _) g2 = some grp2 at hl
      show s.q.ack ≤ grp2.ack
      by_cases hgg : g = g2
      · subst hgg
        rw [lookup_upsert_self] at hl
        cases hl
        show s.q.ack ≤ (newGroup v s.q.ack (lookup s.metas g)).ack
        cases hm : lookup s.metas g with
        | some m0 => exact newGroup_some_ack_ge v _ m0
        | none =>
          rw [newGroup_none]
          by_cases hf : v.freshAtQueueAck = true
          · simp only [hf, if_true]; exact Int.le_refl _
          · rcases hg with hl | hr
            · exact absurd hl hf
            · have := hr hnone hm
              have hf' : v.freshAtQueueAck = false := by cases h : v.freshAtQueueAck <;> simp_all
              simp [hf', noSeq]; omega
      · rw [lookup_upsert_ne _ _ _ _ hgg] at hl
        exact ha g2 grp2 hl
  | stop g =>
    intro g2 grp2 hl
    change lookup (erase s.live g) g2 = some grp2 at hl
    show s.q.ack ≤ grp2.ack
    by_cases hgg : g = g2
    · subst hgg
      rw [lookup_erase_self] at hl
      cases hl
    · rw [lookup_erase_ne _ _ _ hgg] at hl
      exact ha g2 grp2 hl
  | pause g =>
    simp only [FanOut.step]
    split
    · exact ha
    · rename_i grp hgrp
      intro g2 grp2 hl
      change lookup (upsert s.live g _) g2 = some grp2 at hl
      show s.q.ack ≤ grp2.ack
      by_cases hgg : g = g2
      · subst hgg
        rw [lookup_upsert_self] at hl
        cases hl
        exact ha g grp hgrp
      · rw [lookup_upsert_ne _ _ _ _ hgg] at hl
        exact ha g2 grp2 hl
  | reopen =>
    intro g grp hl
    change lookup (s.reopen v).live g = some grp at hl
    show s.q.reopen.ack ≤ grp.ack
    rw [reopen_live_lookup, reopen_metas_lookup] at hl
    cases hm : lookup s.metas g with
    | none => rw [hm] at hl; cases hl
    | some m0 =>
      rw [hm] at hl
      simp only [Option.map_some, Option.some.injEq] at hl
      subst hl
      exact newGroup_some_ack_ge v _ m0

theorem Above.step {v : Variant} {s : State} {o : Op} (hb : Base s) (ha : Above s) (ok : o.okAt s)
    (hg : v.freshAtQueueAck = true ∨ o.freshOkAt s) : Above (step v s o).1 :=
  Above.stepL hb.lite ha ok hg

end LinVerif.FanOut
