/-
C16 — helper lemmas: a line-protocol request through ONE shared RowBuilder (Model/InfluxStream.lean).
With `Reset` at the top of the loop body, what a line comes to does not depend on what the builder
holds when the line arrives.
-/
import Mathlib.Tactic.SplitIfs
import LinVerif.Model.InfluxStream
import LinVerif.Lemmas.C16Flat

namespace LinVerif.Lemmas.C16
open LinVerif.Row LinVerif.FlatRow LinVerif.InfluxStream

/-- two builders that agree on everything `Build` can see (they may differ in the slots beyond the
counters, i.e. in what earlier rows left behind) -/
def Sim (x y : RB) : Prop :=
  x.name = y.name ∧ x.ns = y.ns ∧ x.ts = y.ts ∧ x.kvs = y.kvs ∧ x.fields = y.fields ∧
  x.cvalues = y.cvalues ∧ x.cbounds = y.cbounds ∧ x.cmin = y.cmin ∧ x.cmax = y.cmax ∧
  x.csum = y.csum ∧ x.ccount = y.ccount

theorem Sim.rfl' (x : RB) : Sim x x := by simp [Sim]

/-- after `Reset` every builder looks like a brand-new one -/
theorem sim_reset (b : RB) : Sim b.reset RB.fresh := by simp [Sim, RB.reset, RB.fresh]

theorem addRowTags_sim (l : Limits) (tags : List Tag) (x y : RB) (h : Sim x y) :
    (addRowTags l x tags).2 = (addRowTags l y tags).2 ∧
    ((addRowTags l x tags).2 = none → Sim (addRowTags l x tags).1 (addRowTags l y tags).1) := by
  obtain ⟨x2, x1⟩ := addRowTags_spec l tags x
  obtain ⟨y2, y1⟩ := addRowTags_spec l tags y
  refine ⟨x2.trans y2.symm, fun hn => ?_⟩
  obtain ⟨sx, hx⟩ := x1 (x2 ▸ hn)
  obtain ⟨sy, hy⟩ := y1 (x2 ▸ hn)
  rw [hx, hy]
  simp_all [Sim]

theorem addEnriched_sim (tags : List Tag) (x y : RB) (h : Sim x y) :
    (addEnriched x tags).2 = (addEnriched y tags).2 ∧
    ((addEnriched x tags).2 = none → Sim (addEnriched x tags).1 (addEnriched y tags).1) := by
  obtain ⟨x2, x1⟩ := addEnriched_spec tags x
  obtain ⟨y2, y1⟩ := addEnriched_spec tags y
  refine ⟨x2.trans y2.symm, fun hn => ?_⟩
  obtain ⟨sx, hx⟩ := x1 (x2 ▸ hn)
  obtain ⟨sy, hy⟩ := y1 (x2 ▸ hn)
  rw [hx, hy]
  simp_all [Sim]

theorem addFields_sim (l : Limits) (fs : List SField) (x y : RB) (h : Sim x y) :
    (addFields l x fs).2 = (addFields l y fs).2 ∧
    ((addFields l x fs).2 = none → Sim (addFields l x fs).1 (addFields l y fs).1) := by
  obtain ⟨x2, x1⟩ := addFields_spec l fs x
  obtain ⟨y2, y1⟩ := addFields_spec l fs y
  refine ⟨x2.trans y2.symm, fun hn => ?_⟩
  obtain ⟨sx, hx⟩ := x1 (x2 ▸ hn)
  obtain ⟨sy, hy⟩ := y1 (x2 ▸ hn)
  rw [hx, hy]
  simp_all [Sim]

theorem build_sim (sortK : List Tag → List Tag) (H : String → Nat) (now : Int) (x y : RB) (h : Sim x y) :
    (x.build sortK H now).2 = (y.build sortK H now).2 := by
  rcases h with ⟨h1, h2, h3, h4, h5, h6, h7, h8, h9, h10, h11⟩
  simp only [RB.build, h1, h2, h3, h4, h5, h6, h7, h8, h9, h10, h11]
  split_ifs <;> rfl

/-- the parser's verdict on a line, and — when it accepts — everything Build will see, are the same
for two builders that look alike -/
theorem parseLine_sim (c : ICfg) (ln : ILine) (x y : RB) (h : Sim x y) :
    (parseLine c x ln).2 = (parseLine c y ln).2 ∧
    ((parseLine c x ln).2 = false → Sim (parseLine c x ln).1 (parseLine c y ln).1) := by
  have h0 : Sim (x.addNameSpace c.reqNs) (y.addNameSpace c.reqNs) := by
    simp_all [Sim, RB.addNameSpace]
  have h1 : Sim ((x.addNameSpace c.reqNs).addMetricName ln.name) ((y.addNameSpace c.reqNs).addMetricName ln.name) := by
    simp_all [Sim, RB.addNameSpace, RB.addMetricName]
  obtain ⟨t2, t1⟩ := addRowTags_sim c.limits ln.tags _ _ h1
  simp only [parseLine]
  by_cases c1 : ln.nameErr = true
  · simp [c1, h0]
  · simp only [c1, if_false, Bool.false_eq_true]
    by_cases c2 : over c.limits.maxName (blen ln.name) = true
    · simp [c2]
    · simp only [c2, if_false, Bool.false_eq_true]
      by_cases c3 : ln.tagsErr = true
      · simp [c3]
      · simp only [c3, if_false, Bool.false_eq_true]
        by_cases c4 : over c.limits.maxTags (ln.tags.length + c.enriched.length) = true
        · simp [c4]
        · simp only [c4, if_false, Bool.false_eq_true]
          rcases hX : addRowTags c.limits ((x.addNameSpace c.reqNs).addMetricName ln.name) ln.tags with ⟨bx, _ | ex⟩ <;>
          rcases hY : addRowTags c.limits ((y.addNameSpace c.reqNs).addMetricName ln.name) ln.tags with ⟨by', _ | ey⟩ <;>
          rw [hX, hY] at t2 <;> simp only at t2 <;> try (simp at t2)
          · -- both tag loops passed
            rw [hX, hY] at t1
            have hs : Sim bx by' := t1 rfl
            by_cases c5 : ln.fieldsErr = true
            · simp [c5]
            · simp only [c5, if_false, Bool.false_eq_true]
              by_cases c6 : over c.limits.maxFields ln.fields.length = true
              · simp [c6]
              · simp only [c6, if_false, Bool.false_eq_true]
                obtain ⟨f2, f1⟩ := addFields_sim c.limits ln.fields bx by' hs
                rcases hFX : addFields c.limits bx ln.fields with ⟨fx, _ | efx⟩ <;>
                rcases hFY : addFields c.limits by' ln.fields with ⟨fy, _ | efy⟩ <;>
                rw [hFX, hFY] at f2 <;> simp only at f2 <;> try (simp at f2)
                · rw [hFX, hFY] at f1
                  have hf : Sim fx fy := f1 rfl
                  by_cases c7 : ln.tsErr = true
                  · simp [c7]
                  · simp only [c7, if_false, Bool.false_eq_true]
                    refine ⟨trivial, fun _ => ?_⟩
                    simp_all [Sim, RB.addTimestamp]
                · simp
          · simp

/-- **one pass of the loop body, Reset first**: the line's result does not depend on the builder -/
theorem lineStep_state_independent (c : ICfg) (sortK : List Tag → List Tag) (H : String → Nat)
    (b : RB) (ln : ILine) :
    (lineStep true c sortK H b ln).2 = (lineStep true c sortK H RB.fresh ln).2 := by
  have hs : Sim b.reset RB.fresh.reset := by simp [Sim, RB.reset, RB.fresh]
  obtain ⟨p2, p1⟩ := parseLine_sim c ln _ _ hs
  simp only [lineStep, if_true]
  by_cases hc : ln.comment = true
  · simp [hc]
  · simp only [hc, if_false, Bool.false_eq_true]
    rcases hX : parseLine c b.reset ln with ⟨bx, _ | _⟩ <;>
    rcases hY : parseLine c RB.fresh.reset ln with ⟨by', _ | _⟩ <;>
    rw [hX, hY] at p2 <;> simp only at p2 <;> try (simp at p2)
    · rw [hX, hY] at p1
      have hp : Sim bx by' := p1 rfl
      obtain ⟨e2, e1⟩ := addEnriched_sim c.enriched bx by' hp
      rcases hEX : addEnriched bx c.enriched with ⟨ex, _ | _⟩ <;>
      rcases hEY : addEnriched by' c.enriched with ⟨ey, _ | _⟩ <;>
      rw [hEX, hEY] at e2 <;> simp only at e2 <;> try (simp at e2)
      · rw [hEX, hEY] at e1
        have he : Sim ex ey := e1 rfl
        have hb := build_sim sortK H c.now ex ey he
        rcases hBX : ex.build sortK H c.now with ⟨b1, _ | s1⟩ <;>
        rcases hBY : ey.build sortK H c.now with ⟨b2, _ | s2⟩ <;>
        rw [hBX, hBY] at hb <;> simp only at hb <;> simp_all
      · simp [hEX, hEY]

end LinVerif.Lemmas.C16

namespace LinVerif.Lemmas.C16
open LinVerif.Row LinVerif.FlatRow LinVerif.InfluxStream

/-- an accepted line (measurement scanned) leaves exactly its own pieces in the builder -/
theorem parseLine_accepts (c : ICfg) (ln : ILine) (b : RB) (hn : ln.nameErr = false)
    (h : (parseLine c b ln).2 = false) :
    ln.tagsErr = false ∧ ln.fieldsErr = false ∧ ln.tsErr = false ∧
    ∃ sk sf, (parseLine c b ln).1 =
      { b with ns := sanitizeName c.reqNs, name := sanitizeName ln.name, kvs := b.kvs ++ ln.tags, staleKvs := sk,
               fields := b.fields ++ ln.fields.map sanF, staleFields := sf, ts := ln.ts.getD c.now } := by
  revert h
  simp only [parseLine, hn, Bool.false_eq_true, if_false]
  by_cases c2 : over c.limits.maxName (blen ln.name) = true
  · simp [c2]
  · simp only [c2, if_false, Bool.false_eq_true]
    by_cases c3 : ln.tagsErr = true
    · simp [c3]
    · simp only [c3, if_false, Bool.false_eq_true]
      by_cases c4 : over c.limits.maxTags (ln.tags.length + c.enriched.length) = true
      · simp [c4]
      · simp only [c4, if_false, Bool.false_eq_true]
        obtain ⟨t2, t1⟩ := addRowTags_spec c.limits ln.tags ((b.addNameSpace c.reqNs).addMetricName ln.name)
        rcases hX : addRowTags c.limits ((b.addNameSpace c.reqNs).addMetricName ln.name) ln.tags with ⟨bx, _ | ex⟩
        · rw [hX] at t2 t1
          simp only at t2 t1
          obtain ⟨sk, hsk⟩ := t1 t2.symm
          simp only
          by_cases c5 : ln.fieldsErr = true
          · simp [c5]
          · simp only [c5, if_false, Bool.false_eq_true]
            by_cases c6 : over c.limits.maxFields ln.fields.length = true
            · simp [c6]
            · simp only [c6, if_false, Bool.false_eq_true]
              obtain ⟨f2, f1⟩ := addFields_spec c.limits ln.fields bx
              rcases hF : addFields c.limits bx ln.fields with ⟨fx, _ | ef⟩
              · rw [hF] at f2 f1
                simp only at f2 f1
                obtain ⟨sf, hsf⟩ := f1 f2.symm
                simp only
                by_cases c7 : ln.tsErr = true
                · simp [c7]
                · simp only [c7, if_false, Bool.false_eq_true]
                  intro _
                  refine ⟨by simpa using c3, by simpa using c5, by simpa using c7, sk, sf, ?_⟩
                  rw [hsf, hsk]
                  simp [RB.addTimestamp, RB.addMetricName, RB.addNameSpace]
              · simp
        · simp

end LinVerif.Lemmas.C16
