/-
C01 helper lemmas: a family directory that OPTIONS does not list is not created by an open;
a torn (error-producing) tail of the live manifest makes the open fail AND delete that manifest.
-/
import LinVerif.Lemmas.C01Reach

namespace LinVerif.Kv
open LinVerif

/-- which family directory an operation concerns -/
def FsOp.famOf : FsOp → Option Nat
  | .mkdirFam n => some n
  | .createTable n _ => some n
  | .closeTable n _ _ => some n
  | .removeTable n _ => some n
  | _ => none

theorem famDirs_frame (x : Disk) (o : FsOp) (name : Nat) (h : o.famOf ≠ some name) :
    Map.lookup (applyFs x o).famDirs name = Map.lookup x.famDirs name := by
  cases o with
  | mkdirFam n =>
    have : n ≠ name := by intro e; subst e; exact h rfl
    simp only [applyFs]
    split
    · rfl
    · exact Map.lookup_upsert_ne _ _ _ _ this
  | createTable n f =>
    have : n ≠ name := by intro e; subst e; exact h rfl
    exact Map.lookup_upsert_ne _ _ _ _ this
  | closeTable n f c =>
    have : n ≠ name := by intro e; subst e; exact h rfl
    exact Map.lookup_upsert_ne _ _ _ _ this
  | removeTable n f =>
    have : n ≠ name := by intro e; subst e; exact h rfl
    exact Map.lookup_upsert_ne _ _ _ _ this
  | appendRec n r => simp only [applyFs]; split <;> rfl
  | renameCurrent => simp only [applyFs]; split <;> rfl
  | _ => rfl

theorem prep_famOf {d : Disk} {o : FsOp} (h : o ∈ openPrepOps d) :
    o.famOf = none ∨ ∃ fo ∈ d.options.getD [], o.famOf = some fo.name := by
  unfold openPrepOps at h
  cases hop : d.options with
  | none =>
    rw [hop] at h
    simp only [List.mem_append, List.mem_singleton] at h
    rcases h with (h | h) | h
    · split at h <;> simp at h; subst h; exact Or.inl rfl
    · split at h <;> simp at h; subst h; exact Or.inl rfl
    · subst h; exact Or.inl rfl
  | some info =>
    rw [hop] at h
    simp only [List.mem_append, List.mem_map, List.mem_filter] at h
    rcases h with h | ⟨o', ⟨ho', _⟩, rfl⟩
    · split at h <;> simp at h; subst h; exact Or.inl rfl
    · exact Or.inr ⟨o', by simpa using ho', rfl⟩

/-- an open leaves alone every directory whose name OPTIONS does not list -/
theorem open_famDirs_other (cfg : Cfg) (d : Disk) (vs : VS) (hrec : recoverVS cfg d = (vs, true)) (name : Nat)
    (hn : ∀ fo ∈ d.options.getD [], fo.name ≠ name) :
    Map.lookup (applyFsList d (openStore cfg d).2).famDirs name = Map.lookup d.famDirs name := by
  rw [openStore_ok cfg d vs hrec]
  apply prefix_inv_full (fun x => Map.lookup x.famDirs name = Map.lookup d.famDirs name) _ d rfl
  intro o ho x hx
  have : o.famOf ≠ some name := by
    simp only [List.mem_append] at ho
    rcases ho with (ho | ho) | (ho | ho)
    · rcases prep_famOf ho with h | ⟨fo, hfo, h⟩
      · rw [h]; simp
      · rw [h]; intro e; exact hn fo hfo (Option.some.inj e)
    · rw [initJournalOps_eq] at ho
      simp only [List.mem_cons, List.mem_append, List.mem_map, List.mem_singleton, List.not_mem_nil, or_false] at ho
      rcases ho with rfl | ⟨el, _, rfl⟩ | rfl | rfl <;> simp [FsOp.famOf]
    · obtain ⟨m, rfl, _⟩ := mem_obsoleteManifestOps ho; simp [FsOp.famOf]
    · obtain ⟨fam, hfam, v, _, f, rfl, _⟩ := mem_allFamObsoleteOps ho
      simp only [List.mem_map] at hfam
      obtain ⟨fo, hfo, rfl⟩ := hfam
      simp only [FsOp.famOf, ne_eq, Option.some.injEq]
      exact hn fo hfo
  rw [famDirs_frame x o name this]; exact hx

/-- explicit form of newStore's result and trace when recovery FAILS -/
theorem openStore_fail (cfg : Cfg) (d : Disk) (vs : VS) (hrec : recoverVS cfg d = (vs, false)) :
    openStore cfg d =
      (none,
       openPrepOps d ++
        (FsOp.lockRemove :: (obsoleteManifestOps (applyFsList d (openPrepOps d)) vs.manifestNo ++
         allFamObsoleteOps (applyFsList d (openPrepOps d)) ((d.options.getD []).map (fun o => ⟨o, [], none⟩)) vs))) := by
  simp [openStore, hrec, openDeferSteps]

theorem replayRecs_fst_congr_torn (s : VS) (mf : Manifest) :
    (replay s { mf with torn := true }).1 = (replay s { mf with torn := false }).1 := by
  simp only [replay]
  split <;> split <;> simp_all

/-- **the torn-tail defect, in general.** Take any disk that is consistent with a committed state and
let the manifest CURRENT names end in an error-producing torn record (everything before it intact):
newStore fails, and its deferred deleteObsoleteFiles removes exactly that manifest — because
manifestFileNumber was already advanced past it by the replayed NextFileNumber logs. -/
theorem torn_tail_destroys_store (cfg : Cfg) (d : Disk) (a : Abs) (h : Consistent cfg d a) (j : Int) (mf : Manifest)
    (hc : d.current = some j) (hl : Map.lookup d.manifests j = some mf) :
    let dt : Disk := { d with manifests := Map.upsert d.manifests j { mf with torn := true } }
    (openStore cfg dt).1 = none ∧ FsOp.removeManifest j ∈ (openStore cfg dt).2 := by
  intro dt
  obtain ⟨vs, hrec, _, _, _, _, hcur⟩ := h.recov
  obtain ⟨mf', hl', htorn, hrep⟩ := recoverVS_current hc hrec
  have hmf : mf' = mf := by rw [hl] at hl'; exact (Option.some.inj hl').symm
  subst hmf
  have hrect : recoverVS cfg dt = (vs, false) := by
    simp only [recoverVS, dt, hc, Map.lookup_upsert_self, replay]
    rw [hrep]; simp
  rw [openStore_fail cfg dt vs hrect]
  refine ⟨rfl, ?_⟩
  simp only [List.mem_append, List.mem_cons]
  right; right; left
  simp only [obsoleteManifestOps, List.mem_map, List.mem_filter]
  refine ⟨j, ⟨?_, ?_⟩, rfl⟩
  · rw [mem_sortInts]
    have hlk : Map.lookup (applyFsList dt (openPrepOps dt)).manifests j = Map.lookup dt.manifests j := by
      apply prefix_inv_full (fun x => Map.lookup x.manifests j = Map.lookup dt.manifests j) _ dt rfl
      intro o ho x hx
      rw [manifest_frame x o j ?_]; exact hx
      rcases prep_mem ho with rfl | rfl | ⟨rfl, _⟩ | ⟨n, rfl⟩ <;> simp [FsOp.manifestOf]
    have : Map.lookup dt.manifests j = some { mf' with torn := true } := by simp [dt, Map.lookup_upsert_self]
    rw [this] at hlk
    exact Map.mem_keys_of_lookup hlk
  · have := hcur j hc
    simp only [ne_eq, decide_eq_true_eq]; omega

end LinVerif.Kv
