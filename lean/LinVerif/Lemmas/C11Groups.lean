/-
C11 — lemmas about grouping: the reference's `groupsOf` as a map (group key ↦ the series that
satisfy the condition and carry the key, in declaration order), and independence of a commutative
fold from the order of the group's series.
-/
import LinVerif.Lemmas.C11Compose

set_option linter.unusedSimpArgs false
set_option linter.unusedVariables false

namespace LinVerif.Lemmas.C11
open LinVerif LinVerif.NaiveQuery LinVerif.MemDB

/-! ### `fsum` of a commutative aggregate does not depend on the order -/

theorem fsum_perm {ι : Type} {A : AggType} (hc : AggComm A) {l1 l2 : List ι} (hp : l1.Perm l2) (f : ι → Option Int) :
    fsum A l1 f = fsum A l2 f := by
  induction hp with
  | nil => rfl
  | cons x _ ih => rw [fsum_cons, fsum_cons, ih]
  | swap x y l =>
    rw [fsum_cons, fsum_cons, fsum_cons, fsum_cons, ← ocomb_assoc, ← ocomb_assoc, ocomb_comm hc (f y) (f x)]
  | trans _ _ ih1 ih2 => rw [ih1, ih2]

theorem naiveBucket_perm (q : Query) (hc : AggComm q.funcAgg) (ps : List Point) {g1 g2 : List Nat} (hp : g1.Perm g2)
    (fams : List Nat) (t : Nat) : naiveBucket q ps g1 fams t = naiveBucket q ps g2 fams t := by
  rw [naiveBucket_eq_fsum, naiveBucket_eq_fsum]
  exact fsum_perm hc hp _

theorem naiveGroup_perm (q : Query) (hc : AggComm q.funcAgg) (ps : List Point) {g1 g2 : List Nat} (hp : g1.Perm g2)
    (fams : List Nat) : naiveGroup q ps g1 fams = naiveGroup q ps g2 fams := by
  unfold naiveGroup
  congr 1
  funext t
  rw [naiveBucket_perm q hc ps hp fams t]

/-! ### `groupsOf` as a map -/

/-- the series of the group with key `k`: declared, satisfying the condition, carrying the key. -/
def membersOf (series : List (Nat × Tags)) (c : Cond) (by_ : List Nat) (k : List Nat) : List Nat :=
  (series.filter (fun s => c.eval s.2 && decide (groupKey? by_ s.2 = some k))).map Prod.fst

theorem lookup_insertGroup (gs : List (List Nat × List Nat)) (k : List Nat) (s : Nat) (k' : List Nat) :
    Map.lookup (insertGroup gs k s) k' =
      if k = k' then some ((Map.lookup gs k).getD [] ++ [s]) else Map.lookup gs k' := by
  induction gs with
  | nil =>
    by_cases h : k = k' <;> simp [insertGroup, Map.lookup, h]
  | cons p rest ih =>
    obtain ⟨k0, ss⟩ := p
    by_cases h0 : k0 = k
    · subst h0
      by_cases h : k0 = k' <;> simp [insertGroup, Map.lookup, h]
    · simp only [insertGroup, h0, if_false, Map.lookup]
      by_cases h1 : k0 = k'
      · subst h1
        have : ¬ k = k0 := fun e => h0 e.symm
        simp [this]
      · simp only [h1, if_false, ih]

/-- what the fold adds to the accumulated groups. -/
def addMembers (o : Option (List Nat)) (m : List Nat) : Option (List Nat) :=
  if m = [] then o else some (o.getD [] ++ m)

theorem lookup_groups_fold (c : Cond) (by_ : List Nat) (k : List Nat) :
    ∀ (series : List (Nat × Tags)) (gs : List (List Nat × List Nat)),
      Map.lookup (series.foldl (fun gs (s : Nat × Tags) =>
        if c.eval s.2 then
          match groupKey? by_ s.2 with
          | some k => insertGroup gs k s.1
          | none => gs
        else gs) gs) k = addMembers (Map.lookup gs k) (membersOf series c by_ k) := by
  intro series
  induction series with
  | nil => intro gs; simp [membersOf, addMembers]
  | cons s rest ih =>
    intro gs
    simp only [List.foldl_cons]
    rw [ih]
    by_cases hc : c.eval s.2 = true
    · simp only [hc, if_true]
      cases hk : groupKey? by_ s.2 with
      | none =>
        simp only
        have : membersOf (s :: rest) c by_ k = membersOf rest c by_ k := by
          simp [membersOf, List.filter_cons, hc, hk]
        rw [this]
      | some k0 =>
        simp only
        rw [lookup_insertGroup]
        by_cases hkk : k0 = k
        · subst hkk
          have : membersOf (s :: rest) c by_ k0 = s.1 :: membersOf rest c by_ k0 := by
            simp [membersOf, List.filter_cons, hc, hk]
          rw [this]
          simp only [if_true, addMembers]
          by_cases hm : membersOf rest c by_ k0 = []
          · simp [hm]
          · simp [hm]
        · have : membersOf (s :: rest) c by_ k = membersOf rest c by_ k := by
            have hne : ¬ (some k0 = some k) := fun e => hkk (Option.some.inj e)
            simp [membersOf, List.filter_cons, hc, hk, hne]
          rw [this]
          simp [hkk]
    · have hc' : c.eval s.2 = false := by cases h : c.eval s.2 <;> simp_all
      have : membersOf (s :: rest) c by_ k = membersOf rest c by_ k := by
        simp [membersOf, List.filter_cons, hc']
      simp only [hc', Bool.false_eq_true, if_false]
      rw [this]

/-- **the reference's groups as a map**: the group with key `k` exists iff some declared series
satisfies the condition and carries the key, and holds exactly those series in declaration order. -/
theorem lookup_groupsOf (series : List (Nat × Tags)) (c : Cond) (by_ : List Nat) (k : List Nat) :
    Map.lookup (groupsOf series c by_) k =
      if membersOf series c by_ k = [] then none else some (membersOf series c by_ k) := by
  refine (lookup_groups_fold c by_ k series []).trans ?_
  simp [addMembers, Map.lookup]

theorem mem_membersOf (series : List (Nat × Tags)) (c : Cond) (by_ : List Nat) (k : List Nat) (s : Nat) :
    s ∈ membersOf series c by_ k ↔ ∃ t, (s, t) ∈ series ∧ c.eval t = true ∧ groupKey? by_ t = some k := by
  unfold membersOf
  simp only [List.mem_map, List.mem_filter, Bool.and_eq_true, decide_eq_true_eq]
  constructor
  · rintro ⟨⟨s', t⟩, ⟨hm, hc, hk⟩, rfl⟩
    exact ⟨t, hm, hc, hk⟩
  · rintro ⟨t, hm, hc, hk⟩
    exact ⟨(s, t), ⟨hm, hc, hk⟩, rfl⟩

theorem nodup_map_filter {α β : Type} (l : List α) (f : α → β) (p : α → Bool) (h : (l.map f).Nodup) :
    ((l.filter p).map f).Nodup := by
  induction l with
  | nil => simp
  | cons x rest ih =>
    simp only [List.map_cons, List.nodup_cons] at h
    by_cases hp : p x = true
    · simp only [List.filter_cons, hp, if_true, List.map_cons, List.nodup_cons]
      refine ⟨?_, ih h.2⟩
      intro hm
      apply h.1
      rw [List.mem_map] at hm ⊢
      obtain ⟨y, hy, he⟩ := hm
      exact ⟨y, (List.mem_filter.mp hy).1, he⟩
    · simp only [List.filter_cons, hp]
      exact ih h.2

theorem membersOf_nodup (series : List (Nat × Tags)) (c : Cond) (by_ : List Nat) (k : List Nat)
    (h : (series.map Prod.fst).Nodup) : (membersOf series c by_ k).Nodup :=
  nodup_map_filter series Prod.fst _ h

theorem lookup_map_groups {β : Type} (gs : List (List Nat × List Nat)) (F : List Nat → β) (k : List Nat) :
    Map.lookup (gs.map (fun g => (g.1, F g.2))) k = (Map.lookup gs k).map F := by
  induction gs with
  | nil => rfl
  | cons p rest ih =>
    obtain ⟨k0, ss⟩ := p
    by_cases h : k0 = k <;> simp [Map.lookup, h, ih]

theorem mem_of_lookup_some {κ : Type} [DecidableEq κ] {α : Type} (m : List (κ × α)) (k : κ) (v : α)
    (h : Map.lookup m k = some v) : (k, v) ∈ m := by
  induction m with
  | nil => simp [Map.lookup] at h
  | cons p rest ih =>
    obtain ⟨k0, v0⟩ := p
    by_cases h0 : k0 = k
    · simp [Map.lookup, h0] at h
      subst h0 h
      simp
    · simp [Map.lookup, h0] at h
      exact List.mem_cons_of_mem _ (ih h)

theorem lookup_of_mem_nodup {κ : Type} [DecidableEq κ] {α : Type} (m : List (κ × α)) (k : κ) (v : α)
    (hn : (m.map Prod.fst).Nodup) (h : (k, v) ∈ m) : Map.lookup m k = some v := by
  induction m with
  | nil => simp at h
  | cons p rest ih =>
    obtain ⟨k0, v0⟩ := p
    simp only [List.map_cons, List.nodup_cons] at hn
    rcases List.mem_cons.mp h with e | e
    · injection e with e1 e2
      subst e1 e2
      simp [Map.lookup]
    · have : ¬ k0 = k := by
        intro e0
        subst e0
        exact hn.1 (List.mem_map.mpr ⟨(k0, v), e, rfl⟩)
      simp [Map.lookup, this, ih hn.2 e]

end LinVerif.Lemmas.C11
