/-
Helper lemmas for the get-or-create interleaving model (`Model/GetOrCreate.lean`):
the inductive invariant "what a thread holds is what the map registers, and a registered key never
changes" for the shapes `atomic` and `splitRecheck`, over every schedule.
-/
import LinVerif.Model.GetOrCreate
import LinVerif.Lemmas.C13Interval

namespace LinVerif.Lemmas.C13
open LinVerif.Interval

/-- shapes in which a store only ever happens to a key that is absent -/
def GocSafe (v : GocVariant) : Prop := v = .atomic ∨ v = .splitRecheck

/-- every binding of `m` is still the binding in `m'` -/
def GMono (m m' : List (GKey × Nat)) : Prop := ∀ k o, gLookup k m = some o → gLookup k m' = some o

/-- what a thread holds is what is registered -/
def ThreadOk (m : List (GKey × Nat)) (t : GThread) : Prop :=
  (∀ so, t.segObj = some so → gLookup (0, t.seg) m = some so) ∧
  (∀ fo, t.famObj = some fo → ∃ so, t.segObj = some so ∧ gLookup (so + 1, t.fam) m = some fo)

theorem gLookup_store (k k' : GKey) (o : Nat) (m : List (GKey × Nat)) :
    gLookup k (gStore k' o m) = if k = k' then some o else gLookup k m := by
  simp only [gLookup, gStore, List.lookup_cons]
  by_cases h : k = k'
  · subst h; simp
  · have : (k == k') = false := by simpa using h
    simp [this, h]

theorem GMono.refl (m : List (GKey × Nat)) : GMono m m := fun _ _ h => h

theorem GMono.store {m : List (GKey × Nat)} {k : GKey} (o : Nat) (h : gLookup k m = none) :
    GMono m (gStore k o m) := by
  intro k' o' h'
  rw [gLookup_store]
  by_cases e : k' = k
  · subst e; rw [h] at h'; cases h'
  · simp [e, h']

theorem ThreadOk.mono {m m' : List (GKey × Nat)} {t : GThread} (hm : GMono m m') (h : ThreadOk m t) :
    ThreadOk m' t := by
  refine ⟨fun so e => hm _ _ (h.1 so e), fun fo e => ?_⟩
  obtain ⟨so, e1, e2⟩ := h.2 fo e
  exact ⟨so, e1, hm _ _ e2⟩

/-- a level returns `o`, which is registered under the level's key -/
theorem ThreadOk.finish {m : List (GKey × Nat)} {t : GThread} {o : Nat} (h : ThreadOk m t)
    (hk : gLookup t.key m = some o) : ThreadOk m (t.finish o) := by
  unfold GThread.finish
  cases hs : t.segObj with
  | none =>
    simp only [GThread.key, hs] at hk
    refine ⟨fun so e => ?_, fun fo e => ?_⟩
    · simp only [Option.some.injEq] at e; subst e; exact hk
    · obtain ⟨so, e1, _⟩ := h.2 fo e
      rw [hs] at e1; cases e1
  | some so =>
    simp only [GThread.key, hs] at hk
    refine ⟨fun so' e => h.1 so' (by simpa [hs] using e), fun fo e => ?_⟩
    simp only [Option.some.injEq] at e; subst e
    exact ⟨so, by simp, by simpa using hk⟩

theorem finish_fields (t : GThread) (o : Nat) :
    (t.finish o).ts = t.ts ∧ (t.finish o).seg = t.seg ∧ (t.finish o).fam = t.fam := by
  unfold GThread.finish; cases t.segObj <;> simp

theorem pc_fields_ok {m : List (GKey × Nat)} {t : GThread} (p : GPc) (h : ThreadOk m t) :
    ThreadOk m { t with pc := p } := h

/-- one step of a thread in safe shapes: bindings are kept, the thread still holds what is
registered, its request (timestamp, segment, family index) is unchanged -/
theorem stepThread_ok {vs vf : GocVariant} (hs : GocSafe vs) (hf : GocSafe vf) (sh : GShared)
    (t : GThread) (h : ThreadOk sh.map t) :
    GMono sh.map (stepThread vs vf sh t).1.map ∧ ThreadOk (stepThread vs vf sh t).1.map (stepThread vs vf sh t).2 ∧
    (stepThread vs vf sh t).2.ts = t.ts ∧ (stepThread vs vf sh t).2.seg = t.seg ∧
    (stepThread vs vf sh t).2.fam = t.fam := by
  have hv : (if t.segObj.isNone then vs else vf) ≠ .splitNoRecheck := by
    split
    · rcases hs with e | e <;> rw [e] <;> decide
    · rcases hf with e | e <;> rw [e] <;> decide
  unfold stepThread
  generalize (if t.segObj.isNone then vs else vf) = v at hv
  generalize (if t.segObj.isNone then sh.opened + 1 else sh.opened) = op
  cases hpc : t.pc with
  | fin => exact ⟨GMono.refl _, h, rfl, rfl, rfl⟩
  | make => exact ⟨GMono.refl _, pc_fields_ok _ h, rfl, rfl, rfl⟩
  | look =>
    simp only
    cases hl : gLookup t.key sh.map with
    | some o => exact ⟨GMono.refl _, h.finish hl, finish_fields t o⟩
    | none =>
      simp only
      by_cases hva : v = .atomic
      · simp only [hva, if_true]
        have hm := GMono.store sh.next hl
        refine ⟨hm, (h.mono hm).finish ?_, finish_fields t _⟩
        rw [gLookup_store]; simp
      · simp only [hva, if_false]
        refine ⟨GMono.refl _, pc_fields_ok _ h, ?_⟩
        simp
  | put o =>
    simp only [hv, if_false]
    cases hl : gLookup t.key sh.map with
    | some o' => exact ⟨GMono.refl _, h.finish hl, finish_fields t o'⟩
    | none =>
      have hm := GMono.store o hl
      refine ⟨hm, (h.mono hm).finish ?_, finish_fields t _⟩
      rw [gLookup_store]; simp

/-- the state invariant -/
def GInv (c : Calc) (s : GState) : Prop :=
  ∀ t ∈ s.threads, ThreadOk s.map t ∧ t.seg = calcSegmentTime c t.ts ∧ t.fam = calcFamily c t.ts t.seg

theorem gInit_inv (c : Calc) (ts : List Int) : GInv c (gInit c ts) := by
  intro t ht
  simp only [gInit, List.mem_map] at ht
  obtain ⟨x, _, rfl⟩ := ht
  refine ⟨⟨fun so e => ?_, fun fo e => ?_⟩, rfl, rfl⟩ <;> simp [mkThread] at e

theorem gInit_ts (c : Calc) (ts : List Int) : (gInit c ts).threads.map (·.ts) = ts := by
  simp [gInit, mkThread, Function.comp_def]

theorem map_set_same {α β : Type} (f : α → β) (l : List α) (i : Nat) (a b : α)
    (h : l[i]? = some a) (e : f b = f a) : (l.set i b).map f = l.map f := by
  apply List.ext_getElem?
  intro j
  simp only [List.getElem?_map, List.getElem?_set]
  by_cases hij : i = j
  · subst hij
    have hlt : i < l.length := by
      rcases Nat.lt_or_ge i l.length with g | g
      · exact g
      · rw [List.getElem?_eq_none g] at h; cases h
    have ha : l[i] = a := by
      have := List.getElem?_eq_getElem hlt
      rw [this] at h; exact Option.some.inj h
    simp [hlt, e, ha]
  · simp [hij]

theorem stepAt_inv {vs vf : GocVariant} (hs : GocSafe vs) (hf : GocSafe vf) (c : Calc) (s : GState)
    (i : Nat) (h : GInv c s) :
    GInv c (stepAt vs vf s i) ∧ (stepAt vs vf s i).threads.map (·.ts) = s.threads.map (·.ts) := by
  unfold stepAt
  cases hi : s.threads[i]? with
  | none => exact ⟨h, rfl⟩
  | some t =>
    have ht : t ∈ s.threads := List.mem_of_getElem? hi
    obtain ⟨hm, hok, e1, e2, e3⟩ := stepThread_ok hs hf ⟨s.map, s.next, s.opened⟩ t (h t ht).1
    refine ⟨?_, map_set_same _ _ _ t _ hi e1⟩
    intro t' ht'
    rcases List.mem_or_eq_of_mem_set ht' with g | g
    · exact ⟨(h t' g).1.mono hm, (h t' g).2⟩
    · subst g
      refine ⟨hok, ?_, ?_⟩
      · rw [e2, e1]; exact (h t ht).2.1
      · rw [e3, e1, e2]; exact (h t ht).2.2

theorem gRun_inv {vs vf : GocVariant} (hs : GocSafe vs) (hf : GocSafe vf) (c : Calc) (sched : List Nat)
    (s : GState) (h : GInv c s) :
    GInv c (gRun vs vf s sched) ∧ (gRun vs vf s sched).threads.map (·.ts) = s.threads.map (·.ts) := by
  induction sched generalizing s with
  | nil => exact ⟨h, rfl⟩
  | cons i r ih =>
    obtain ⟨a, b⟩ := stepAt_inv hs hf c s i h
    obtain ⟨a', b'⟩ := ih (stepAt vs vf s i) a
    exact ⟨a', b'.trans b⟩

/-- inside a family the family index (the key of `segment.families`) is constant -/
theorem family_index_const_on_family (c : Calc) {t t' : Int} (h : 0 ≤ t)
    (h1 : calcFamilyTime c t ≤ t') (h2 : t' ≤ calcFamilyEndTime c (calcFamilyTime c t)) :
    calcFamily c t' (calcSegmentTime c t') = calcFamily c t (calcSegmentTime c t) := by
  have h' : 0 ≤ t' := Int.le_trans (familyTime_nonneg c h) h1
  have hseg := segment_const_on_family c h h1 h2
  rw [hseg]
  cases c
  · rw [day_familyTime h] at h1 h2
    simp only [calcFamilyEndTime, oneHour_val] at h2
    simp only [calcFamily, day_segment h, oneHour_val]
    rw [Int.tdiv_eq_ediv_of_nonneg (by omega), Int.tdiv_eq_ediv_of_nonneg (by omega)]
    omega
  · rw [month_familyTime h] at h1 h2
    rw [month_familyEnd] at h2
    have e : t' / 86400000 = t / 86400000 := by omega
    simp only [calcFamily, civilOfMs_nonneg h, civilOfMs_nonneg h', e]
  · rw [year_familyTime h] at h1 h2
    rw [year_familyEnd] at h2
    have sm := same_month (z := t / 86400000) (z' := t' / 86400000) (by omega) (by omega)
    simp only [calcFamily, civilOfMs_nonneg h, civilOfMs_nonneg h', sm.2]

/-! ### distinct families hold distinct objects (the code's shape: both levels `atomic`) -/

/-- object ids in the map are below the allocation counter and no two keys share an object -/
def MapFresh (m : List (GKey × Nat)) (next : Nat) : Prop :=
  (∀ k o, gLookup k m = some o → o < next) ∧
  (∀ k1 k2 o, gLookup k1 m = some o → gLookup k2 m = some o → k1 = k2)

theorem MapFresh.store {m : List (GKey × Nat)} {next : Nat} (k : GKey) (h : MapFresh m next) :
    MapFresh (gStore k next m) (next + 1) := by
  refine ⟨fun k' o e => ?_, fun k1 k2 o e1 e2 => ?_⟩
  · rw [gLookup_store] at e
    by_cases hk : k' = k
    · simp only [hk, if_true, Option.some.injEq] at e; omega
    · simp only [hk, if_false] at e; have := h.1 k' o e; omega
  · rw [gLookup_store] at e1 e2
    by_cases h1 : k1 = k <;> by_cases h2 : k2 = k
    · rw [h1, h2]
    · simp only [h1, if_true, Option.some.injEq] at e1
      simp only [h2, if_false] at e2
      have := h.1 k2 o e2; omega
    · simp only [h2, if_true, Option.some.injEq] at e2
      simp only [h1, if_false] at e1
      have := h.1 k1 o e1; omega
    · simp only [h1, if_false] at e1
      simp only [h2, if_false] at e2
      exact h.2 k1 k2 o e1 e2

def PcIdle (t : GThread) : Prop := t.pc = .look ∨ t.pc = .fin

theorem finish_idle (t : GThread) (o : Nat) : PcIdle (t.finish o) := by
  unfold GThread.finish PcIdle; cases t.segObj <;> simp

theorem stepThread_fresh (sh : GShared) (t : GThread) (hp : PcIdle t) (h : MapFresh sh.map sh.next) :
    MapFresh (stepThread .atomic .atomic sh t).1.map (stepThread .atomic .atomic sh t).1.next ∧
    PcIdle (stepThread .atomic .atomic sh t).2 := by
  unfold stepThread
  rcases hp with hp | hp
  · simp only [hp, ite_self, if_true]
    cases hl : gLookup t.key sh.map with
    | some o => exact ⟨h, finish_idle t o⟩
    | none => exact ⟨h.store t.key, finish_idle t _⟩
  · simp only [hp]; exact ⟨h, Or.inr hp⟩

def GInvFresh (s : GState) : Prop := MapFresh s.map s.next ∧ ∀ t ∈ s.threads, PcIdle t

theorem gInit_fresh (c : Calc) (ts : List Int) : GInvFresh (gInit c ts) := by
  refine ⟨⟨fun k o e => ?_, fun k1 k2 o e _ => ?_⟩, fun t ht => ?_⟩
  · simp [gInit, gLookup] at e
  · simp [gInit, gLookup] at e
  · simp only [gInit, List.mem_map] at ht
    obtain ⟨x, _, rfl⟩ := ht
    exact Or.inl rfl

theorem stepAt_fresh (s : GState) (i : Nat) (h : GInvFresh s) : GInvFresh (stepAt .atomic .atomic s i) := by
  unfold stepAt
  cases hi : s.threads[i]? with
  | none => exact h
  | some t =>
    have ht : t ∈ s.threads := List.mem_of_getElem? hi
    obtain ⟨a, b⟩ := stepThread_fresh ⟨s.map, s.next, s.opened⟩ t (h.2 t ht) h.1
    refine ⟨a, fun t' ht' => ?_⟩
    rcases List.mem_or_eq_of_mem_set ht' with g | g
    · exact h.2 t' g
    · subst g; exact b

theorem gRun_fresh (sched : List Nat) (s : GState) (h : GInvFresh s) :
    GInvFresh (gRun .atomic .atomic s sched) := by
  induction sched generalizing s with
  | nil => exact h
  | cons i r ih => exact ih _ (stepAt_fresh s i h)

end LinVerif.Lemmas.C13
